/-
Model of `clematis/engine/apply.py` (`apply_changes`, `_bump_version_etag`,
`_should_snapshot`, on-apply cache invalidation) driven by a *scripted store*, and of the
T4/Apply section of `orchestrator/core.py:Orchestrator.run_turn` (kill switch) over
histories of turns.

Import-free and executable: the driver runs exactly these definitions, the theorems in
`Clem/Props/C04.lean` are about exactly these definitions.

The code modelled is the code *with the proposed fix*
`proposed_fixes/C04_no_fallback_after_successful_batch.diff` applied: count extraction
(`_safe_int(_safe_get(res, …))`) happens outside the batch `try`, so only an exception raised by
the batch call itself triggers the per-delta fallback.  The behaviour of the pinned tree before
the fix is kept as `storePhaseLegacy` (documentation of the finding; see `C04_legacy_*`).

Abstractions (all realised concretely by the harness):
* a delta is a `Nat` (index into a pool of `ProposedDelta` objects; the code only passes the
  objects through);
* the store is a script of outcomes answering successive `store.apply_deltas` calls:
  it returns something whose `edits` / `clamps` fields either parse with `int()` or do not,
  or it raises; an exhausted script answers `ret (ok 0) (ok 0)`;
* `state.version_etag` is absent, something `int()` accepts, or something it rejects;
* the cache manager is a map namespace ↦ number of live entries, optionally wrapped so that its
  `k`-th `invalidate_namespace` call raises;
* `write_snapshot` is called or not; optionally it raises (it is *not* guarded by the code).
-/
namespace Clem.Apply

abbrev Delta := Nat

/-- A count field as `_safe_int(_safe_get(res, key, 0))` sees it. -/
inductive Cnt where
  | ok (n : Int)
  | bad
deriving Repr, DecidableEq, Inhabited

/-- `_safe_int`: unparsable ↦ 0. -/
def Cnt.val : Cnt → Int
  | .ok n => n
  | .bad => 0

/-- Outcome of one `store.apply_deltas(graph, batch)` call. -/
inductive Outcome where
  | ret (edits clamps : Cnt)
  | raise
deriving Repr, DecidableEq, Inhabited

def Outcome.isRet : Outcome → Bool
  | .ret _ _ => true
  | .raise => false

/-- Head of the script; an exhausted script answers "0 edits, 0 clamps". -/
def headO : List Outcome → Outcome
  | [] => .ret (.ok 0) (.ok 0)
  | o :: _ => o

/-- Accumulator of the store phase: calls received by the store (in order) and the two counters. -/
structure Acc where
  calls : List (List Delta)
  applied : Int
  clamps : Int
deriving Repr, DecidableEq, Inhabited

/-- One iteration of the per-delta fallback loop. -/
def stepDelta (a : Acc) (d : Delta) (o : Outcome) : Acc :=
  match o with
  | .raise => { a with calls := a.calls ++ [[d]] }
  | .ret e c => ⟨a.calls ++ [[d]], a.applied + e.val, a.clamps + c.val⟩

/-- `for d in deltas: try: r = apply_fn(g, [d]) except: continue; counts += …`. -/
def perDelta : List Delta → List Outcome → Acc → Acc
  | [], _, a => a
  | d :: ds, sc, a => perDelta ds sc.tail (stepDelta a d (headO sc))

/-- Batch call, then (only if the call itself raised) the per-delta loop.  Repaired code. -/
def storePhase (ds : List Delta) (sc : List Outcome) : Acc :=
  match headO sc with
  | .ret e c => ⟨[ds], e.val, c.val⟩
  | .raise => perDelta ds sc.tail ⟨[ds], 0, 0⟩

/-! Legacy (pinned tree before the fix): `int(...)` sits inside the batch `try`, so an
unparsable count after a *successful* batch call also enters the fallback; `applied_count` keeps
whatever was added before the exception.  In the legacy loop a bad count skips the rest of the
iteration (`continue`). -/
def stepDeltaLegacy (a : Acc) (d : Delta) (o : Outcome) : Acc :=
  match o with
  | .raise => { a with calls := a.calls ++ [[d]] }
  | .ret (.ok e) (.ok c) => ⟨a.calls ++ [[d]], a.applied + e, a.clamps + c⟩
  | .ret (.ok e) .bad => ⟨a.calls ++ [[d]], a.applied + e, a.clamps⟩
  | .ret .bad _ => { a with calls := a.calls ++ [[d]] }

def perDeltaLegacy : List Delta → List Outcome → Acc → Acc
  | [], _, a => a
  | d :: ds, sc, a => perDeltaLegacy ds sc.tail (stepDeltaLegacy a d (headO sc))

def storePhaseLegacy (ds : List Delta) (sc : List Outcome) : Acc :=
  match headO sc with
  | .ret (.ok e) (.ok c) => ⟨[ds], e, c⟩
  | .ret (.ok e) .bad => perDeltaLegacy ds sc.tail ⟨[ds], e, 0⟩
  | .ret .bad _ => perDeltaLegacy ds sc.tail ⟨[ds], 0, 0⟩
  | .raise => perDeltaLegacy ds sc.tail ⟨[ds], 0, 0⟩

/-- A conforming store answer: it raised, or both counts parse. -/
def Outcome.wellFormed : Outcome → Bool
  | .ret (.ok _) (.ok _) => true
  | .raise => true
  | _ => false

/-- What an all-or-nothing store has committed after receiving `calls` and answering them with
`sc`: every batch it answered with a return value, nothing of a batch on which it raised. -/
def committed : List (List Delta) → List Outcome → List Delta
  | [], _ => []
  | c :: cs, sc => (if (headO sc).isRet then c else []) ++ committed cs sc.tail

/-- Monitor: no delta committed more often than it was approved. -/
def atMostOnceB (ds : List Delta) (com : List Delta) : Bool :=
  com.all (fun d => com.count d ≤ ds.count d)

/-! ### version -/

/-- `state.version_etag` as `_bump_version_etag` sees it. -/
inductive Ver where
  | absent            -- `None` / attribute missing
  | num (n : Int)     -- `int(current)` succeeds with `n`
  | junk              -- `int(current)` raises
deriving Repr, DecidableEq, Inhabited

/-- The integer whose `str` is stored by `_bump_version_etag`. -/
def bump : Ver → Int
  | .absent => 1
  | .num n => n + 1
  | .junk => 1

/-! ### snapshot cadence -/

/-- `_should_snapshot`: `int(turn_id)` failing ↦ 0; `every = max(1, int(n))`. -/
def shouldSnapshot (turn : Option Int) (every : Int) : Bool :=
  (turn.getD 0) % (max 1 every) == 0

/-! ### cache manager: namespace ↦ live entries -/

abbrev Cache := List (Nat × Nat)

def Cache.size (c : Cache) (ns : Nat) : Nat :=
  ((c.filter (fun p => p.1 == ns)).map (·.2)).sum

def Cache.total (c : Cache) : Nat := (c.map (·.2)).sum

def Cache.clear (c : Cache) (ns : Nat) : Cache :=
  c.map (fun p => if p.1 == ns then (p.1, 0) else p)

/-- `for ns in namespaces: invalidated += int(cm.invalidate_namespace(str(ns)))` inside one
`try`: the `fault`-th call (0-based) raises, which ends the loop (what was counted stays). -/
def invLoop (fault : Option Nat) : Nat → List Nat → Cache → Nat → Cache × Nat
  | _, [], c, acc => (c, acc)
  | i, ns :: rest, c, acc =>
    if fault == some i then (c, acc)
    else invLoop fault (i + 1) rest (c.clear ns) (acc + c.size ns)

/-- Namespace 0 is `"t2:semantic"`, the default of `cache.namespaces`. -/
def nsList (o : Option (List Nat)) : List Nat := o.getD [0]

/-! ### apply_changes -/

inductive StoreKind where
  | none      -- `state.store is None`
  | noFn      -- store without a callable `apply_deltas`
  | fn
  | attrRaises -- looking up `store.apply_deltas` itself raises (guarded: treated like `noFn`)
deriving Repr, DecidableEq, Inhabited

/-! The rest of the store surface the apply → snapshot path touches
(`snapshot.py:_export_store_for_snapshot`): `store.export_state` and `store.w`.  Each can be
missing, well-behaved, or faulty in every way the code can observe. -/

/-- `store.export_state` -/
inductive ExportMode where
  | absent      -- no such attribute / not callable
  | ok          -- returns something JSON-serialisable
  | raises      -- the call raises (any `Exception`)
  | garbage     -- returns something `json.dumps` rejects
  | attrRaises  -- the attribute lookup itself raises
deriving Repr, DecidableEq, Inhabited

/-- `store.w` (weight map fallback) -/
inductive WMode where
  | absent      -- missing / not a dict
  | ok
  | badKey      -- some keys are not `(kind, id, attr)` triples (skipped by the code)
  | badValue    -- some value is not `float()`-convertible
  | attrRaises  -- the attribute lookup itself raises
deriving Repr, DecidableEq, Inhabited

/-- The `store` section of the snapshot payload. -/
inductive Section where
  | empty       -- `{}`
  | state       -- `{"state": …}`
  | weights     -- `{"weights": […]}`
deriving Repr, DecidableEq, Inhabited

structure In where
  store : StoreKind
  ver : Ver
  turn : Option Int
  every : Int
  bust : Bool                         -- `str(cache_bust_mode or "none") == "on-apply"`
  namespaces : Option (List Nat)
  cm : Option Cache                   -- `state._cache_mgr` (none: no manager)
  cmFault : Option Nat
  snapFault : Bool                    -- `write_snapshot` raises when called
  deltas : List Delta
  script : List Outcome
  exportMode : ExportMode := .absent
  wMode : WMode := .absent
deriving Repr, DecidableEq, Inhabited

/-- Arguments `write_snapshot` was called with. -/
structure SnapRec where
  version : Int
  applied : Int
  deltas : List Delta
deriving Repr, DecidableEq, Inhabited

structure Out where
  calls : List (List Delta)
  applied : Int
  clamps : Int
  version : Int               -- `state.version_etag == str(version)` afterwards
  invalidated : Nat
  cm : Option Cache
  snap : Option SnapRec       -- `write_snapshot` invoked with …
  raised : Bool               -- the snapshot *file write* raised ⇒ `apply_changes` raised
  snapStore : Option Section := none  -- `store` section of the file written (none: no file)
deriving Repr, DecidableEq, Inhabited

/-- `_export_store_for_snapshot` under the guard in `write_snapshot`: a failing or unserialisable
export degrades to `{}`; it never propagates. -/
def storeSection (i : In) : Section :=
  match i.store with
  | .none => .empty
  | _ =>
    match i.exportMode with
    | .ok => .state
    | .garbage => .empty
    | .attrRaises => .empty
    | _ =>
      match i.wMode with
      | .ok => .weights
      | .badKey => .weights
      | _ => .empty

def storeAcc (i : In) : Acc :=
  match i.store with
  | .fn => storePhase i.deltas i.script
  | _ => ⟨[], 0, 0⟩

/-- Invalidation happens only on the main path (`store.apply_deltas` callable) and only in
`on-apply` mode. -/
def invActive (i : In) : Bool := i.store == .fn && i.bust

def invOn (i : In) (c : Cache) : Cache × Nat := invLoop i.cmFault 0 (nsList i.namespaces) c 0

def invPhase (i : In) : Option Cache × Nat :=
  if invActive i then
    match i.cm with
    | some c => (some (invOn i c).1, (invOn i c).2)
    | none => (none, 0)
  else (i.cm, 0)

/-- Deltas recorded in the snapshot: the no-store path passes `[]`. -/
def snapDeltas (i : In) : List Delta :=
  match i.store with
  | .none => []
  | _ => i.deltas

def apply (i : In) : Out :=
  let a := storeAcc i
  let v := bump i.ver
  let inv := invPhase i
  let snap := shouldSnapshot i.turn i.every
  { calls := a.calls, applied := a.applied, clamps := a.clamps, version := v,
    invalidated := inv.2, cm := inv.1,
    snap := if snap then some ⟨v, a.applied, snapDeltas i⟩ else none,
    raised := snap && i.snapFault,
    snapStore := if snap && !i.snapFault then some (storeSection i) else none }

/-! ### the hand-off language and the spec the monitors evaluate -/

def singles (ds : List Delta) : List (List Delta) := ds.map (fun d => [d])

/-- Calls a committed turn may make: none without a usable store; the batch; the batch and, if
(and only if) the batch call raised, each delta once more on its own. -/
def handoff (i : In) : List (List Delta) :=
  match i.store with
  | .fn => if (headO i.script).isRet then [i.deltas] else [i.deltas] ++ singles i.deltas
  | _ => []

/-! Property predicates evaluated (by the driver) on the *implementation's* observed output, one
per clause of the statement. -/

/-- exactly the approved deltas, as one batch and, only if that call fails, once more one by one -/
def specHandoff (i : In) (o : Out) : Bool := o.calls == handoff i

/-- an all-or-nothing store never has a delta applied twice -/
def specOnce (i : In) (o : Out) : Bool := atMostOnceB i.deltas (committed o.calls i.script)

/-- the version advances by exactly one `bump`, whatever the store did -/
def specVersion (i : In) (o : Out) : Bool := o.version == bump i.ver

/-- snapshot precisely on the cadence, carrying the new version / applied count / approved list -/
def specCadence (i : In) (o : Out) : Bool :=
  o.snap.isSome == shouldSnapshot i.turn i.every
  && (match o.snap with
      | some s => s.version == o.version && s.applied == o.applied && s.deltas == snapDeltas i
      | none => true)

/-- errors inside the store / cache manager never abort: only the unguarded snapshot write may -/
def specTotal (i : In) (o : Out) : Bool :=
  o.raised == (shouldSnapshot i.turn i.every && i.snapFault)
  && o.snapStore == (if shouldSnapshot i.turn i.every && !i.snapFault then some (storeSection i) else none)

/-- configured namespaces invalidated when busting is on; count = entries removed; else untouched -/
def specInvalidate (i : In) (o : Out) : Bool :=
  match i.cm, o.cm with
  | some c, some c' =>
    o.invalidated + c'.total == c.total
    && (if invActive i && i.cmFault == none then
          (nsList i.namespaces).all (fun ns => c'.size ns == 0)
        else true)
    && (if invActive i then true else c' == c)
  | none, none => o.invalidated == 0
  | _, _ => false

def spec (i : In) (o : Out) : Bool :=
  specHandoff i o && specOnce i o && specVersion i o && specCadence i o && specTotal i o
  && specInvalidate i o

/-! ### canonical order (T4 → Apply composition) -/

/-- Python `str` `<=` on code-point lists. -/
def lexLe : List Nat → List Nat → Bool
  | [], _ => true
  | _ :: _, [] => false
  | a :: as, b :: bs => if a < b then true else if b < a then false else lexLe as bs

/-- Non-decreasing in the canonical key `f"{kind}:{id}:{attr}"`. -/
def keysSortedB : List (List Nat) → Bool
  | [] => true
  | [_] => true
  | a :: b :: r => lexLe a b && keysSortedB (b :: r)

/-- Monitor for the composition stream: the batch the store received carries exactly the keys T4
approved, in the same order, and that order is the canonical one; every further call is a
singleton re-submission in the same order. -/
def canonHandoffB (approved : List (List Nat)) (calls : List (List (List Nat))) : Bool :=
  match calls with
  | [] => false
  | batch :: rest =>
    batch == approved && keysSortedB batch
    && (rest == [] || rest == approved.map (fun k => [k]))

/-! ### histories of turns through `run_turn` -/

structure TurnIn where
  enabled : Bool                      -- `t4.enabled` (kill switch when false)
  store : StoreKind
  turn : Option Int
  every : Int
  bust : Bool
  namespaces : Option (List Nat)
  cmFault : Option Nat
  deltas : List Delta                 -- what the (stubbed) T4 approves this turn
  script : List Outcome
  exportMode : ExportMode := .absent
  wMode : WMode := .absent
deriving Repr, DecidableEq, Inhabited

/-- One `apply.jsonl` record. -/
structure ApplyRec where
  version : Int
  applied : Int
  clamps : Int
  invalidated : Nat
  snapshot : Bool
deriving Repr, DecidableEq, Inhabited

structure HState where
  ver : Ver
  cm : Option Cache
  snap : Option SnapRec               -- content of the snapshot file (last write wins)
  calls : List (List Delta)           -- everything the store has received so far
  t4recs : Nat                        -- number of `t4.jsonl` records
  applyRecs : List ApplyRec           -- `apply.jsonl`
deriving Repr, DecidableEq, Inhabited

def Cache.add (c : Cache) (ns : Nat) : Cache :=
  if c.any (fun p => p.1 == ns) then
    c.map (fun p => if p.1 == ns then (p.1, p.2 + 1) else p)
  else c ++ [(ns, 1)]

/-- T2 of every turn (kill switch or not) inserts its result under a fresh key in namespace 0
(the harness uses a distinct input text per turn, so every lookup misses). -/
def t2Insert (cm : Option Cache) : Option Cache := cm.map (fun c => c.add 0)

def toIn (s : HState) (t : TurnIn) : In :=
  { store := t.store, ver := s.ver, turn := t.turn, every := t.every, bust := t.bust,
    namespaces := t.namespaces, cm := t2Insert s.cm, cmFault := t.cmFault, snapFault := false,
    deltas := t.deltas, script := t.script, exportMode := t.exportMode, wMode := t.wMode }

def runTurn (s : HState) (t : TurnIn) : HState :=
  if t.enabled then
    let o := apply (toIn s t)
    { ver := .num o.version, cm := o.cm,
      snap := match o.snap with | some r => some r | none => s.snap,
      calls := s.calls ++ o.calls, t4recs := s.t4recs + 1,
      applyRecs := s.applyRecs ++ [⟨o.version, o.applied, o.clamps, o.invalidated, o.snap.isSome⟩] }
  else { s with cm := t2Insert s.cm }

/-- What one committed turn hands to the store depends on that turn alone. -/
def handoffT (t : TurnIn) : List (List Delta) := handoff (toIn default t)

def runHistory (s : HState) (ts : List TurnIn) : HState := ts.foldl runTurn s

/-- Number of committed (kill switch off) turns. -/
def committedTurns (ts : List TurnIn) : Nat := (ts.filter (·.enabled)).length

/-- Cache clause of one committed turn, on the observed cache and the count in its `apply.jsonl`
record: the bust mode / namespace list in force *this* turn decide (no latching). -/
def turnInvalidateB (s : HState) (t : TurnIn) (s' : HState) : Bool :=
  match s'.applyRecs.getLast? with
  | some r => specInvalidate (toIn s t) { (default : Out) with cm := s'.cm, invalidated := r.invalidated }
  | none => false

/-- Monitor for one observed turn of the implementation: `s` before, `s'` after. -/
def turnSpec (s : HState) (t : TurnIn) (s' : HState) : Bool :=
  if t.enabled then
    turnInvalidateB s t s'
    && s'.ver == .num (bump s.ver)
    && s'.t4recs == s.t4recs + 1
    && s'.applyRecs.length == s.applyRecs.length + 1
    && s'.calls == s.calls ++ handoff (toIn s t)
    && (match s'.applyRecs.getLast? with
        | some r => r.version == bump s.ver && r.snapshot == shouldSnapshot t.turn t.every
        | none => false)
    && (if shouldSnapshot t.turn t.every then
          (match s'.snap with | some r => r.version == bump s.ver | none => false)
        else s'.snap == s.snap)
  else
    s'.ver == s.ver && s'.snap == s.snap && s'.calls == s.calls
    && s'.t4recs == s.t4recs && s'.applyRecs == s.applyRecs
    && s'.cm == t2Insert s.cm

end Clem.Apply
