/-
C01 — clock skeleton of `Orchestrator.run_turn` (clematis/engine/orchestrator/core.py), the CI identity
normalisation of the records it emits (`normalize_for_identity`, clematis/engine/util/io_logging.py) and the
property's canonical form.  Import-free, executable (linked into `clemdrv`).

What is modelled as written: the stage order T1 → T2 (turn-level `t2:semantic` cache: TTL expiry, hit moves the
entry to the end, miss stores) → T3 plan → T3 dialogue → T4 → Apply → turn summary; the five scheduler boundary
checks (`_should_yield`: WALL_MS > BUDGET_T1_ITERS > BUDGET_T1_POPS > BUDGET_T2_K > BUDGET_T3_OPS >
QUANTUM_EXCEEDED, `==` comparisons against the budgets that are present), what is emitted on a yield
(scheduler event, turn record with `yielded`, early return and its `line`), the gates (`scheduler.enabled`,
t3 enabled, `t4.enabled`, `t4.cache.enabled`), the CI special case of `apply.ms`, the final `line` fallback.
Stages are oracles: their results enter as opaque integer tokens (`TurnIn`), i.e. functions of the LOGICAL
inputs only.  Everything the wall clock contributes to one turn is collected in `Dec`:
  `el`   the `consumed["ms"]` value handed to `_should_yield` at the boundary checks, in order
  `age`  `now - ent.ts` at the turn-level cache lookup
  `vol`  every other clock difference (stage `ms`, `durations_ms.*`)
The correspondence harness records exactly these values from the real run (by observing the arguments of
`_should_yield` and the cache's `time_fn`) and compares the real emitted records with `turn`.
-/
namespace Clem.C01

inductive Stream where
  | t1 | t2 | t3 | t3plan | t3dlg | t4 | apply | sched | turn
  deriving DecidableEq, Repr

/-- `_IDENTITY_LOGS` -/
def Stream.identity : Stream → Bool
  | .t1 | .t2 | .t4 | .apply | .turn => true
  | _ => false

/-- streams of the property's canonical form (t1/t2/t4/apply/turn, scheduler with consumed.ms masked) -/
def Stream.canonical : Stream → Bool
  | .t1 | .t2 | .t4 | .apply | .turn | .sched => true
  | _ => false

structure Rec where
  stream : Stream
  /-- every field that is a function of the logical inputs, encoded as integers -/
  ident : List Int
  ms : Option Int := none
  now : Option Nat := none
  durs : Option (List Int) := none
  yielded : Option Bool := none
  sliceIdx : Option Int := none
  consumedMs : Option Int := none
  deriving DecidableEq, Repr

/-- `normalize_for_identity(name, rec)` with `ci = (CI == "true")` on the fields a turn record can carry. -/
def normalize (ci : Bool) (r : Rec) : Rec :=
  if !ci then r
  else if r.stream.identity then
    let r1 : Rec := { r with ms := r.ms.map (fun _ => 0), now := none }
    if r.stream == .turn then
      let r2 : Rec := { r1 with durs := r1.durs.map (fun l => l.map (fun _ => 0)) }
      if r2.yielded == some true then r2
      else { r2 with yielded := none, sliceIdx := none }
    else r1
  else r

/-- the property's canonical form of one record: identity normalisation + `consumed.ms` masked -/
def canonRec (ci : Bool) (r : Rec) : Rec :=
  { normalize ci r with consumedMs := (normalize ci r).consumedMs.map (fun _ => 0) }

def canon (ci : Bool) (rs : List Rec) : List Rec :=
  (rs.filter (fun r => r.stream.canonical)).map (canonRec ci)

/-- canonical form of records that are ALREADY normalised (what the implementation wrote to disk under CI):
canonical streams only, `consumed.ms` masked, nothing else touched — so a volatile field the real
`normalize_for_identity` failed to erase stays visible -/
def canonImpl (rs : List Rec) : List Rec :=
  (rs.filter (fun r => r.stream.canonical)).map (fun r => { r with consumedMs := r.consumedMs.map (fun _ => 0) })

/-- monitor for the REAL `normalize_for_identity`: under CI, in an identity stream, `ms` is zeroed (and only present
if it was), `now` is gone, every `durations_ms` value of a turn record is zero (same keys) — for yielded records too;
the logical content is untouched; outside CI / identity streams nothing changes. -/
def normOkB (ci : Bool) (inp out : Rec) : Bool :=
  if ci && inp.stream.identity then
    out.stream == inp.stream && out.ident == inp.ident
      && out.ms == inp.ms.map (fun _ => 0) && out.now == none
      && (if inp.stream == .turn then out.durs == inp.durs.map (fun l => l.map (fun _ => 0)) else out.durs == inp.durs)
      && out.consumedMs == inp.consumedMs
      && (if inp.stream == .turn then
            (if inp.yielded == some true then out.yielded == some true && out.sliceIdx == inp.sliceIdx
             else out.yielded == none && out.sliceIdx == none)
          else out.yielded == inp.yielded && out.sliceIdx == inp.sliceIdx)
  else out == inp

structure Cfg where
  ci : Bool
  schedOn : Bool
  wallMs : Option Int
  quantumMs : Int
  bIters : Option Int
  bPops : Option Int
  bK : Option Int
  bOps : Option Int
  t3On : Bool
  t4On : Bool
  cacheOn : Bool
  ttl : Int
  hasNow : Bool
  deriving DecidableEq, Repr

structure TurnIn where
  turn : Int
  agent : Int
  text : Nat
  ver : Nat
  slice : Int
  t1Iters : Option Int
  t1Pops : Option Int
  t1Tok : Int
  t2K : Option Int
  t2Tok : Int
  ops : Int
  utter : Int
  t4Tok : Int
  applyTok : Int
  now : Nat
  deriving DecidableEq, Repr

structure Dec where
  el : List Int
  age : Int
  vol : List Int
  deriving DecidableEq, Repr

def Dec.elAt (d : Dec) (i : Nat) : Int := d.el.getD i 0
def Dec.volAt (d : Dec) (i : Nat) : Int := d.vol.getD i 0

structure CEntry where
  ver : Nat
  text : Nat
  tok : Int
  k : Option Int
  /-- the part of the key's context digest (`_t2_turn_key_context`, fix C05_turn_key_context) that varies between the
  turns of a skeleton history: the agent (stub stages: no T1 deltas, no store, no memory index) -/
  agent : Int
  deriving DecidableEq, Repr

def wallHit (cfg : Cfg) (ms : Int) : Bool :=
  match cfg.wallMs with
  | some w => decide (w ≤ ms)
  | none => false

def quantumHit (cfg : Cfg) (ms : Int) : Bool := decide (cfg.quantumMs ≤ ms)

def budgetHit (b c : Option Int) : Bool :=
  match b with
  | some x => c == some x
  | none => false

/-- `_should_yield`; 0 = no yield, 1 WALL_MS, 2 BUDGET_T1_ITERS, 3 BUDGET_T1_POPS, 4 BUDGET_T2_K,
5 BUDGET_T3_OPS, 6 QUANTUM_EXCEEDED.  `iters/pops/k/ops` are the entries of `consumed` (absent = none). -/
def yieldReason (cfg : Cfg) (ms : Int) (iters pops k ops : Option Int) : Nat :=
  if wallHit cfg ms then 1
  else if budgetHit cfg.bIters iters then 2
  else if budgetHit cfg.bPops pops then 3
  else if budgetHit cfg.bK k then 4
  else if budgetHit cfg.bOps ops then 5
  else if quantumHit cfg ms then 6
  else 0

def oi : Option Int → List Int
  | none => [0]
  | some x => [1, x]

def nowOf (cfg : Cfg) (t : TurnIn) : Option Nat := if cfg.hasNow then some t.now else none

/-- scheduler event + yielded turn record -/
def yieldRecs (cfg : Cfg) (t : TurnIn) (reason stage : Nat) (elapsed : Int) (consumed : List Int)
    (summary : List Int) (durs : List Int) : List Rec :=
  [ { stream := .sched,
      ident := [t.turn, t.slice, t.agent, (reason : Int), (stage : Int), cfg.quantumMs] ++ oi cfg.wallMs
                ++ oi cfg.bIters ++ oi cfg.bPops ++ oi cfg.bK ++ oi cfg.bOps ++ consumed,
      ms := some 0, consumedMs := some elapsed },
    { stream := .turn, ident := [t.turn, t.agent] ++ summary ++ [(reason : Int)],
      durs := some durs, yielded := some true, sliceIdx := some t.slice, now := nowOf cfg t } ]

def cacheFind (c : List CEntry) (ver text : Nat) (agent : Int) : Option CEntry :=
  c.find? (fun e => e.ver == ver && e.text == text && e.agent == agent)

def cacheDrop (c : List CEntry) (ver text : Nat) (agent : Int) : List CEntry :=
  c.filter (fun e => !(e.ver == ver && e.text == text && e.agent == agent))

structure T2Res where
  tok : Int
  k : Option Int
  hit : Bool
  cache : List CEntry

/-- the T2 block: `cm.get` (TTL expiry removes the entry; a hit moves it to the end), else stage call + `cm.set` -/
def t2Step (cfg : Cfg) (d : Dec) (t : TurnIn) (c : List CEntry) : T2Res :=
  if !cfg.cacheOn then ⟨t.t2Tok, t.t2K, false, c⟩
  else
    match cacheFind c t.ver t.text t.agent with
    | some e =>
      if cfg.ttl != 0 && decide (cfg.ttl < d.age) then
        ⟨t.t2Tok, t.t2K, false, cacheDrop c t.ver t.text t.agent ++ [⟨t.ver, t.text, t.t2Tok, t.t2K, t.agent⟩]⟩
      else ⟨e.tok, e.k, true, cacheDrop c t.ver t.text t.agent ++ [e]⟩
    | none => ⟨t.t2Tok, t.t2K, false, c ++ [⟨t.ver, t.text, t.t2Tok, t.t2K, t.agent⟩]⟩

structure Out where
  recs : List Rec
  line : Int
  cache : List CEntry
  deriving DecidableEq, Repr

def b2i (b : Bool) : Int := if b then 1 else 0

/-- final `line`: the utterance, else the (non-empty) input text -/
def finalLine (t : TurnIn) (utter : Int) : Int := if utter != 0 then utter else -(t.text : Int) - 1

/-- the five boundary decisions of one turn (0 = no yield), as a function of the check index -/
def ys (cfg : Cfg) (d : Dec) (t : TurnIn) (k2 : Option Int) : Nat → Nat
  | 0 => if cfg.schedOn then yieldReason cfg (d.elAt 0) t.t1Iters t.t1Pops none none else 0
  | 1 => if cfg.schedOn then yieldReason cfg (d.elAt 1) none none k2 none else 0
  | 2 => if cfg.schedOn && cfg.t3On then yieldReason cfg (d.elAt 2) none none none (some t.ops) else 0
  | 3 => if cfg.schedOn then yieldReason cfg (d.elAt 3) none none none none else 0
  | 4 => if cfg.schedOn then yieldReason cfg (d.elAt 4) none none none none else 0
  | _ => 0

def t1Rec (cfg : Cfg) (d : Dec) (t : TurnIn) : Rec :=
  { stream := .t1, ident := [t.turn, t.agent, t.t1Tok] ++ oi t.t1Iters ++ oi t.t1Pops,
    ms := some (d.volAt 0), now := nowOf cfg t }

def t1Sum (t : TurnIn) : List Int := oi t.t1Pops ++ oi t.t1Iters

def t2Rec (cfg : Cfg) (r2 : T2Res) (d : Dec) (t : TurnIn) : Rec :=
  { stream := .t2,
    ident := [t.turn, t.agent, r2.tok] ++ oi r2.k
             ++ (if cfg.cacheOn then [b2i r2.hit, (r2.cache.length : Int)] else []),
    ms := some (d.volAt 1), now := nowOf cfg t }

def t2Sum (r2 : T2Res) : List Int := oi r2.k ++ [b2i r2.hit]

def opsOf (cfg : Cfg) (t : TurnIn) : Int := if cfg.t3On then t.ops else 0
def utterOf (cfg : Cfg) (t : TurnIn) : Int := if cfg.t3On then t.utter else 0

def t3Recs (cfg : Cfg) (d : Dec) (t : TurnIn) : List Rec :=
  if cfg.t3On then
    [ { stream := .t3, ident := [t.turn, t.agent, opsOf cfg t], ms := none, now := nowOf cfg t },
      { stream := .t3plan, ident := [t.turn, t.agent, opsOf cfg t], ms := none, now := nowOf cfg t },
      { stream := .t3dlg, ident := [t.turn, t.agent], ms := some (d.volAt 3), now := nowOf cfg t } ]
  else []

def t4Rec (cfg : Cfg) (d : Dec) (t : TurnIn) : Rec :=
  { stream := .t4, ident := [t.turn, t.agent, t.t4Tok], ms := some (d.volAt 4), now := nowOf cfg t }

def apRec (cfg : Cfg) (d : Dec) (t : TurnIn) : Rec :=
  { stream := .apply, ident := [t.turn, t.agent, t.applyTok],
    ms := some (if cfg.ci then 0 else d.volAt 5), now := nowOf cfg t }

/-- the completed-turn summary record -/
def turnRec (cfg : Cfg) (t : TurnIn) (summary : List Int) (durs : List Int) : Rec :=
  { stream := .turn, ident := [t.turn, t.agent] ++ summary, durs := some durs,
    yielded := if cfg.schedOn then some false else none,
    sliceIdx := if cfg.schedOn then some t.slice else none, now := nowOf cfg t }

/-- One `run_turn`, given the boundary decisions `y` and the T2 block result `r2`.
`vol` indices: 0 t1_ms, 1 t2_ms, 2 plan_ms, 3 speak_ms, 4 t4_ms, 5 apply_ms, 6 total. -/
def turnCore (cfg : Cfg) (y : Nat → Nat) (r2 : T2Res) (d : Dec) (t : TurnIn) (c : List CEntry) : Out :=
  if y 0 != 0 then
    ⟨[t1Rec cfg d t] ++ yieldRecs cfg t (y 0) 1 (d.elAt 0) (oi t.t1Iters ++ oi t.t1Pops) (t1Sum t ++ [0, 0])
        [d.volAt 0, 0, 0, 0, d.volAt 6], 0, c⟩
  else if y 1 != 0 then
    ⟨[t1Rec cfg d t, t2Rec cfg r2 d t]
        ++ yieldRecs cfg t (y 1) 2 (d.elAt 1) (oi r2.k) (t1Sum t ++ [1] ++ t2Sum r2 ++ [0])
        [d.volAt 0, d.volAt 1, 0, 0, d.volAt 6], 0, r2.cache⟩
  else if y 2 != 0 then
    ⟨[t1Rec cfg d t, t2Rec cfg r2 d t]
        ++ yieldRecs cfg t (y 2) 3 (d.elAt 2) [1, opsOf cfg t] (t1Sum t ++ [1] ++ t2Sum r2 ++ [0])
        [d.volAt 0, d.volAt 1, 0, 0, d.volAt 6], 0, r2.cache⟩
  else if !cfg.t4On then
    ⟨[t1Rec cfg d t, t2Rec cfg r2 d t] ++ t3Recs cfg d t
        ++ [turnRec cfg t (t1Sum t ++ [1] ++ t2Sum r2 ++ [2, 0, 0]) [d.volAt 0, d.volAt 1, 0, 0, d.volAt 6]],
     finalLine t (utterOf cfg t), r2.cache⟩
  else if y 3 != 0 then
    ⟨[t1Rec cfg d t, t2Rec cfg r2 d t] ++ t3Recs cfg d t ++ [t4Rec cfg d t]
        ++ yieldRecs cfg t (y 3) 4 (d.elAt 3) [] (t1Sum t ++ [1] ++ t2Sum r2 ++ [1, t.t4Tok])
        [d.volAt 0, d.volAt 1, d.volAt 4, 0, d.volAt 6], utterOf cfg t, r2.cache⟩
  else if y 4 != 0 then
    ⟨[t1Rec cfg d t, t2Rec cfg r2 d t] ++ t3Recs cfg d t ++ [t4Rec cfg d t, apRec cfg d t]
        ++ yieldRecs cfg t (y 4) 5 (d.elAt 4) [] (t1Sum t ++ [1] ++ t2Sum r2 ++ [1, t.t4Tok])
        [d.volAt 0, d.volAt 1, d.volAt 4, d.volAt 5, d.volAt 6], utterOf cfg t, r2.cache⟩
  else
    ⟨[t1Rec cfg d t, t2Rec cfg r2 d t] ++ t3Recs cfg d t ++ [t4Rec cfg d t, apRec cfg d t]
        ++ [turnRec cfg t (t1Sum t ++ [1] ++ t2Sum r2 ++ [1, t.t4Tok, 0])
              [d.volAt 0, d.volAt 1, d.volAt 4, d.volAt 5, d.volAt 6]],
     finalLine t (utterOf cfg t), r2.cache⟩

/-- One `run_turn` on cache state `c` with clock contribution `d`. -/
def turn (cfg : Cfg) (d : Dec) (t : TurnIn) (c : List CEntry) : Out :=
  let r2 := t2Step cfg d t c
  turnCore cfg (ys cfg d t r2.k) r2 d t c

/-- the property's observable of one turn: canonical records, utterance, and the logical cache state -/
def canonOut (cfg : Cfg) (o : Out) : Out := ⟨canon cfg.ci o.recs, o.line, o.cache⟩

/-- a turn sequence on one state: the cache is threaded, every turn has its own clock contribution -/
def run (cfg : Cfg) : List (Dec × TurnIn) → List CEntry → List Out
  | [], _ => []
  | (d, t) :: rest, c =>
    let o := turn cfg d t c
    o :: run cfg rest o.cache

/-- the clock-derived DECISIONS of one turn: the only way `Dec` can influence the canonical output -/
def timeHits (cfg : Cfg) (d : Dec) : List (Bool × Bool) :=
  (List.range 5).map (fun i => (wallHit cfg (d.elAt i), quantumHit cfg (d.elAt i)))

def expired (cfg : Cfg) (d : Dec) : Bool := cfg.ttl != 0 && decide (cfg.ttl < d.age)

/-- two clock contributions are indistinguishable for `cfg` (Boolean, so the driver can evaluate it) -/
def decEquivB (cfg : Cfg) (d d' : Dec) : Bool :=
  (!cfg.schedOn || timeHits cfg d == timeHits cfg d') && (!cfg.cacheOn || expired cfg d == expired cfg d')

/-- monitor used by the harness on IMPLEMENTATION outputs: the canonical forms of two real executions of the
same logical turn agree whenever their clock contributions are indistinguishable -/
def sameCanonB (cfg : Cfg) (o o' : Out) : Bool := canonOut cfg o == canonOut cfg o'

/-- the same on outputs read back from the implementation's log files (already normalised by the real code):
no second normalisation, only the property's `consumed.ms` mask -/
def sameCanonImplB (o o' : Out) : Bool := canonImpl o.recs == canonImpl o'.recs && o.line == o'.line

end Clem.C01
