/-
Model of the rule-based T3 planner and dialogue token arithmetic:

* `clematis/engine/stages/t3/policy.py`: `_topic_labels_from_bundle`, `_edit_nodes_from_bundle`, `deliberate`
* `clematis/engine/stages/t3/legacy.py`: `_first_request_retrieve_payload`, `_normalize_rr_payload`,
  `_normalize_retrieved_result`, `_refined_intent`, `rag_once`
* `clematis/engine/stages/t3/dialogue.py`: `_tokenize`, `_truncate_to_tokens`, the budget resolution and
  style-prefix arithmetic of `speak` / `llm_speak` (template expansion `str.format` is a parameter: `core`)
* `clematis/engine/orchestrator/core.py:run_turn`: the number of `t2_semantic` invocations (control skeleton)

Import-free and executable; the driver runs exactly these definitions (at `Float`), the theorems in
`Clem/Props/C13*.lean` are about exactly these definitions (at any NaN-aware carrier).

Scores (`s_max`, thresholds, deltas, hit scores) live in a carrier `α` with Python's float comparison
operators as Booleans (`PyOrd`); nothing else about floats is used by the code.  Strings are code-point
lists.  Python slicing with a negative bound is modelled as written (`pyTake`).
-/
import Clem.Py.Sort
import Clem.Gen.T3Consts

namespace Clem.T3

abbrev Str := List Nat

/-- Python float comparisons as used by the planner: `a >= b`, `a < b`, `abs`, and the literal `0.0`. -/
class PyOrd (α : Type) where
  ge : α → α → Bool
  lt : α → α → Bool
  abs : α → α
  zero : α

instance : PyOrd Float := ⟨fun a b => decide (a ≥ b), fun a b => decide (a < b), Float.abs, 0.0⟩

open PyOrd in
/-- `max(a, b)` of CPython: the second argument only replaces the first when it is strictly greater. -/
def pymax {α : Type} [PyOrd α] (a b : α) : α := if lt a b then b else a

inductive Intent | summary | assertion | ack | question
deriving DecidableEq, Repr, Inhabited

/-- `s_max >= tau_high → summary; s_max >= tau_low → assertion/ack; else question` -/
def Intent.rank : Intent → Nat
  | .question => 0 | .ack => 1 | .assertion => 1 | .summary => 2

inductive Owner | agent | world | any | other
deriving DecidableEq, Repr, Inhabited

/-- `owner if owner in ("agent","world","any") else "any"` -/
def normOwner : Owner → Owner
  | .other => .any
  | o => o

inductive Op
  | speak (intent : Intent) (labels : List Str) (maxTokens : Int)
  | edit (ids : List Str) (cap : Int)
  | retrieve (owner : Owner) (k : Int)
  | other
deriving DecidableEq, Repr, Inhabited

def Op.isSpeak : Op → Bool | .speak .. => true | _ => false
def Op.isEdit : Op → Bool | .edit .. => true | _ => false
def Op.isRetrieve : Op → Bool | .retrieve .. => true | _ => false

/-- one entry of `bundle["t1"]["touched_nodes"]`; `label = none` ⇔ no `"label"` key (falls back to the id);
`delta = none` ⇔ `float(n.get("delta", 0.0))` raises (the entry is skipped by the `try/except`). -/
structure Node (α : Type) where
  id : Str
  label : Option Str
  delta : Option α

/-- `bundle["slice_caps"]["t3_ops"]`: absent, an `int()`-able value, or one on which `int()` raises. -/
inductive SliceV | missing | int (i : Int) | bad
deriving DecidableEq, Repr, Inhabited

structure Bundle (α : Type) where
  baseOps : Int
  slice : SliceV
  tokens : Int
  tauHigh : α
  tauLow : α
  epsEdit : α
  sMax : α
  labelsT1 : List Str
  nodes : List (Node α)
  owner : Owner
  kRetrieval : Int

/-- `l[:n]` for a Python int `n` (negative bounds count from the end). -/
def pyTake {β : Type} (l : List β) (n : Int) : List β :=
  if 0 ≤ n then l.take n.toNat else l.take (l.length - (-n).toNat)

def dedupAdj : List Str → List Str
  | [] => []
  | [a] => [a]
  | a :: b :: t => if a == b then dedupAdj (b :: t) else a :: dedupAdj (b :: t)

/-- `sorted({str(x) for x in xs})` -/
def sortedSet (xs : List Str) : List Str := dedupAdj (Clem.Py.isort Clem.Py.lexLe xs)

/-- `_topic_labels_from_bundle(bundle, cap=5)` -/
def topicLabels {α : Type} (b : Bundle α) : List Str :=
  let labels := if b.labelsT1.isEmpty then b.nodes.map (fun n => n.label.getD n.id) else b.labelsT1
  (sortedSet labels).take 5

def selectedIds {α : Type} [PyOrd α] (eps : α) (nodes : List (Node α)) : List Str :=
  nodes.filterMap (fun n =>
    match n.delta with
    | some d => if PyOrd.ge (PyOrd.abs d) eps then some n.id else none
    | none => none)

/-- `_edit_nodes_from_bundle(bundle, eps_edit, cap_nodes)` (the ids of the `upsert_node` edits) -/
def editNodes {α : Type} [PyOrd α] (b : Bundle α) (capNodes : Int) : List Str :=
  (Clem.Py.isort Clem.Py.lexLe (selectedIds b.epsEdit b.nodes)).take (max capNodes 0).toNat

/-- `caps_ops = min(base_ops, slice_cap)` with the `try/except` fallback of `slice_cap` -/
def capsOps {α : Type} (b : Bundle α) : Int :=
  min b.baseOps (match b.slice with | .int i => i | _ => b.baseOps)

def intentOf {α : Type} [PyOrd α] (tauHigh tauLow s : α) (hasLabels : Bool) : Intent :=
  if PyOrd.ge s tauHigh then .summary
  else if PyOrd.ge s tauLow then (if hasLabels then .assertion else .ack)
  else .question

/-- the `EditGraph` block shared by `deliberate` and `rag_once` -/
def withEdit {α : Type} [PyOrd α] (b : Bundle α) (caps : Int) (ops : List Op) : List Op :=
  let remaining := max (caps - ops.length) 0
  let edits := editNodes b (remaining * 4)
  if edits.isEmpty then ops else ops ++ [Op.edit edits (min (edits.length : Int) (remaining * 4))]

/-- `if len(ops) > caps_ops: ops = ops[:caps_ops]` -/
def capOps (ops : List Op) (caps : Int) : List Op :=
  if caps < (ops.length : Int) then pyTake ops caps else ops

def speakOf {α : Type} [PyOrd α] (b : Bundle α) (s : α) : Op :=
  let labels := topicLabels b
  Op.speak (intentOf b.tauHigh b.tauLow s (!labels.isEmpty)) labels b.tokens

def retrieveOf {α : Type} (b : Bundle α) : Op :=
  Op.retrieve (normOwner b.owner) (max 1 (Int.fdiv b.kRetrieval 2))

def delibEdit {α : Type} [PyOrd α] (b : Bundle α) (caps : Int) (ops : List Op) : List Op :=
  if PyOrd.ge b.sMax b.tauLow && decide ((ops.length : Int) < caps) then withEdit b caps ops else ops

def delibRetrieve {α : Type} [PyOrd α] (b : Bundle α) (caps : Int) (ops : List Op) : List Op :=
  if PyOrd.lt b.sMax b.tauLow && decide ((ops.length : Int) < caps) then ops ++ [retrieveOf b] else ops

/-- `deliberate(bundle).ops` -/
def deliberate {α : Type} [PyOrd α] (b : Bundle α) : List Op :=
  let caps := capsOps b
  capOps (delibRetrieve b caps (delibEdit b caps [speakOf b b.sMax])) caps

/-! ### `rag_once` -/

structure Hit (α : Type) where
  id : Str
  score : α

/-- `hits.sort(key=lambda e: (-score, id))`: `a` may stay before `b` unless `key b < key a`. -/
def hitLe {α : Type} [PyOrd α] (a b : Hit α) : Bool :=
  !(if PyOrd.ge a.score b.score && PyOrd.ge b.score a.score then Clem.Py.lexLt b.id a.id
    else PyOrd.lt a.score b.score)

/-- `float(x or 0.0)`: a falsy float (`0.0`, `-0.0`) becomes `0.0`; NaN is truthy -/
def orZero {α : Type} [PyOrd α] (s : α) : α :=
  if PyOrd.ge s PyOrd.zero && PyOrd.ge PyOrd.zero s then PyOrd.zero else s

/-- `_normalize_retrieved_result`: scores through `float(score or 0.0)`, then the deterministic sort -/
def sortHits {α : Type} [PyOrd α] (hs : List (Hit α)) : List (Hit α) :=
  Clem.Py.isort hitLe (hs.map (fun h => ⟨h.id, orZero h.score⟩))

/-- `max([h.score for h in hits], default=0.0)` -/
def maxScore {α : Type} [PyOrd α] : List (Hit α) → α
  | [] => PyOrd.zero
  | h :: t => t.foldl (fun cur x => pymax cur x.score) h.score

/-- `_first_request_retrieve_payload` (owner and `int(op.k or 0)`) -/
def firstRR : List Op → Option (Owner × Int)
  | [] => none
  | .retrieve o k :: _ => some (o, k)
  | _ :: t => firstRR t

/-- `_normalize_rr_payload`: owner normalised, `k = max(1, k)` -/
def normPayload (rr : Owner × Int) : Owner × Int := (normOwner rr.1, max 1 rr.2)

def replaceFirstSpeak (new : Op) : List Op → List Op
  | [] => []
  | o :: t => if o.isSpeak then new :: t else o :: replaceFirstSpeak new t

structure RagOut (α : Type) where
  ops : List Op
  /-- payloads handed to `retrieve_fn`, in call order -/
  calls : List (Owner × Int)
  ragUsed : Bool
  ragBlocked : Bool
  postSMax : α
  retrievedIds : List Str

def ragEdit {α : Type} [PyOrd α] (b : Bundle α) (caps : Int) (post : α) (hadEdit : Bool) (ops : List Op) :
    List Op :=
  if PyOrd.ge post b.tauLow && !hadEdit && decide ((ops.length : Int) < caps) then withEdit b caps ops else ops

/-- the refinement branch of `rag_once`, after `retrieve_fn(payload)` returned `hits` -/
def ragRefine {α : Type} [PyOrd α] (b : Bundle α) (plan : List Op) (payload : Owner × Int)
    (hits : List (Hit α)) : RagOut α :=
  let sorted := sortHits hits
  let post := pymax b.sMax (maxScore sorted)
  let caps := capsOps b
  let newOps := replaceFirstSpeak (speakOf b post) plan
  let ops := capOps (ragEdit b caps post (plan.any Op.isEdit) newOps) caps
  ⟨ops, [payload], true, false, post, sorted.map Hit.id⟩

/-- `rag_once(bundle, plan, retrieve_fn, already_used)`; `retrieve` is the oracle for `retrieve_fn`
(already normalised to hits with non-empty ids). -/
def ragOnce {α : Type} [PyOrd α] (b : Bundle α) (plan : List Op)
    (retrieve : Owner × Int → List (Hit α)) (alreadyUsed : Bool) : RagOut α :=
  if alreadyUsed then ⟨plan, [], false, true, b.sMax, []⟩
  else match firstRR plan with
    | none => ⟨plan, [], false, false, b.sMax, []⟩
    | some rr => ragRefine b plan (normPayload rr) (retrieve (normPayload rr))

/-! ### number of T2 invocations per turn (`run_turn` control skeleton) -/

structure TurnIn where
  /-- a cache manager is present and already holds the key → the first T2 call is skipped -/
  cacheHit : Bool
  t3Enabled : Bool
  dryRun : Bool
  /-- slice budget hit right after planning → the turn returns before the RAG block -/
  yieldedAfterPlan : Bool
  maxRagLoops : Int

/-- `t2_semantic` calls of one turn: the T2 stage itself (unless served from the cache) plus the calls
made by `rag_once` through `_retrieve_fn` (one T2 call per `retrieve_fn` call). -/
def turnT2Calls {α : Type} [PyOrd α] (t : TurnIn) (b : Bundle α) (plan : List Op)
    (retrieve : Owner × Int → List (Hit α)) : Nat :=
  (if t.cacheHit then 0 else 1) +
  (if t.t3Enabled && !t.dryRun && !t.yieldedAfterPlan && plan.any Op.isRetrieve && decide (1 ≤ t.maxRagLoops)
   then (ragOnce b plan retrieve false).calls.length else 0)

/-! ### dialogue: whitespace tokenisation and truncation -/

/-- `str.isspace()` on one code point (checked against CPython for all code points by the harness). -/
def isSpace (c : Nat) : Bool :=
  (decide (9 ≤ c) && decide (c ≤ 13)) || (decide (28 ≤ c) && decide (c ≤ 32)) || c == 133 || c == 160 ||
  c == 5760 || (decide (8192 ≤ c) && decide (c ≤ 8202)) || c == 8232 || c == 8233 || c == 8239 ||
  c == 8287 || c == 12288

/-- `str.split()` with `cur` the token being read (in order). -/
def tokAux : Str → Str → List Str
  | cur, [] => if cur.isEmpty then [] else [cur]
  | cur, c :: cs =>
    if isSpace c then (if cur.isEmpty then tokAux [] cs else cur :: tokAux [] cs)
    else tokAux (cur ++ [c]) cs

/-- `_tokenize(s) = (s or "").split()` -/
def tokenize (s : Str) : List Str := tokAux [] s

/-- `" ".join(toks)` -/
def joinSp : List Str → Str
  | [] => []
  | [t] => t
  | t :: u :: ts => t ++ 32 :: joinSp (u :: ts)

def lstrip (s : Str) : Str := s.dropWhile isSpace
def rstrip (s : Str) : Str := (s.reverse.dropWhile isSpace).reverse
/-- `str.strip()` -/
def strip (s : Str) : Str := rstrip (lstrip s)

structure Trunc where
  text : Str
  truncated : Bool
  tokens : Nat
deriving DecidableEq, Repr

/-- `_truncate_to_tokens(s, max_tokens)` -/
def truncate (s : Str) (maxTokens : Int) : Trunc :=
  let toks := tokenize s
  if maxTokens ≤ 0 then ⟨[], true, 0⟩
  else if (toks.length : Int) ≤ maxTokens then ⟨s, false, toks.length⟩
  else ⟨joinSp (toks.take maxTokens.toNat), true, maxTokens.toNat⟩

/-- the `max_tokens` attribute of the first Speak op as `speak` sees it: falsy (`None`, `0`, …), a truthy
value with `int(v) = i`, or a truthy value on which `int()` raises. -/
inductive TokV | falsy | int (i : Int) | raises
deriving DecidableEq, Repr, Inhabited

def speakDefaultTokens : Int := 256

/-- budget resolution of `speak` / `llm_speak`.  `opTok = none`: the plan has no Speak op.
`agentTok = none`: `agent.caps.tokens` missing or `int()` raises (both give 256). -/
def speakBudget (opTok : Option TokV) (agentTok : Option Int) : Int :=
  match opTok with
  | some (.int i) => i
  | some .raises => speakDefaultTokens
  | _ => agentTok.getD speakDefaultTokens

/-- `utter` of `speak`: `core` is `template.format(**fmt_vars)` (or the fallback string),
`templHasStyle` is `"{style_prefix}" in template`. -/
def speakUtter (core : Str) (templHasStyle : Bool) (stylePrefix : Str) : Str :=
  if !templHasStyle && !stylePrefix.isEmpty then strip (stylePrefix ++ [124, 32] ++ core) else core

def speak (core : Str) (templHasStyle : Bool) (stylePrefix : Str) (opTok : Option TokV)
    (agentTok : Option Int) : Trunc :=
  truncate (speakUtter core templHasStyle stylePrefix) (speakBudget opTok agentTok)

def startsWith : Str → Str → Bool
  | _, [] => true
  | [], _ :: _ => false
  | a :: s, b :: p => a == b && startsWith s p

/-- text of `llm_speak` before truncation: the adapter's text gets the style prefix unless it already
starts with `"<prefix>|"`. -/
def llmUtter (text : Str) (stylePrefix : Str) : Str :=
  if !stylePrefix.isEmpty && !startsWith text (stylePrefix ++ [124]) then strip (stylePrefix ++ [124, 32] ++ text)
  else text

def llmSpeak (text : Str) (stylePrefix : Str) (opTok : Option TokV) (agentTok : Option Int) : Trunc :=
  truncate (llmUtter text stylePrefix) (speakBudget opTok agentTok)

/-- monitor: the utterance has at most `max 0 budget` whitespace tokens -/
def withinBudget (utter : Str) (budget : Int) : Bool :=
  decide (((tokenize utter).length : Int) ≤ max 0 budget)

/-! ### monitors for plans (evaluated by the driver on the implementation's ops) -/

def headIsSpeak : List Op → Bool
  | [] => true
  | o :: _ => o.isSpeak

/-- op cap of the statement: `len(ops) ≤ max 0 (min perTurn perSlice)` -/
def withinCap {α : Type} (b : Bundle α) (ops : List Op) : Bool :=
  decide ((ops.length : Int) ≤ max 0 (capsOps b))

/-- head op is Speak with the intent dictated by the thresholds for score `s` -/
def headIntentOk {α : Type} [PyOrd α] (b : Bundle α) (s : α) : List Op → Bool
  | [] => true
  | .speak i ls _ :: _ => i == intentOf b.tauHigh b.tauLow s (!ls.isEmpty)
  | _ :: _ => false

/-- retrieval only below the low threshold; edits only at or above it -/
def gatesOk {α : Type} [PyOrd α] (b : Bundle α) (ops : List Op) : Bool :=
  (!ops.any Op.isRetrieve || PyOrd.lt b.sMax b.tauLow) &&
  (!ops.any Op.isEdit || PyOrd.ge b.sMax b.tauLow)

def planOk {α : Type} [PyOrd α] (b : Bundle α) (ops : List Op) : Bool :=
  withinCap b ops && headIsSpeak ops && headIntentOk b b.sMax ops && gatesOk b ops

end Clem.T3
