/-
Model of `clematis/engine/snapshot.py` (C06): `_graph_bounds_from_cfg`, `_clamp`, `_round6`,
`_edge_id`, `_sanitize_gel_for_write`, `_sanitize_gel_for_load`, the edge re-keying loops of
`write_snapshot` / `load_latest_snapshot`, payload construction, store export/import,
`_pick_latest_snapshot_path`, schema marker and sidecar.  Import-free apart from the preludes.

Floats are a carrier `W` with the operations the code uses (`WOps`): the driver instantiates it
at IEEE doubles (`Clem.SnapFloat`, bit-exact `round(x, 6)`), the theorems hold for every carrier
satisfying the stated laws.  `str()/float()/int()` of arbitrary Python values are parameters
(`Cv`) of which the theorems only use `str(s)=s`, `float(x)=x`, `int(n)=n`.

The model follows the code *with the proposed fix* `proposed_fixes/C06_nonfinite_weight_clamp.diff`
(`sw`); the unrepaired weight pipeline is kept as `swOld` with its counterexample in Props/C06.
-/
import Clem.Py.JVal
import Clem.Py.Sort

namespace Clem.Snap
open Clem.Py.JV
open Clem.Py (lexLe)

/-- `"nodes"` -/
def kNodes : Str := [110, 111, 100, 101, 115]
/-- `"edges"` -/
def kEdges : Str := [101, 100, 103, 101, 115]
/-- `"meta"` -/
def kMeta : Str := [109, 101, 116, 97]
/-- `"id"` -/
def kId : Str := [105, 100]
/-- `"src"` -/
def kSrc : Str := [115, 114, 99]
/-- `"dst"` -/
def kDst : Str := [100, 115, 116]
/-- `"rel"` -/
def kRel : Str := [114, 101, 108]
/-- `"weight"` -/
def kWeight : Str := [119, 101, 105, 103, 104, 116]
/-- `"updated_at"` -/
def kUpdatedAt : Str := [117, 112, 100, 97, 116, 101, 100, 95, 97, 116]
/-- `"attrs"` -/
def kAttrs : Str := [97, 116, 116, 114, 115]
/-- `"merges"` -/
def kMerges : Str := [109, 101, 114, 103, 101, 115]
/-- `"splits"` -/
def kSplits : Str := [115, 112, 108, 105, 116, 115]
/-- `"promotions"` -/
def kPromotions : Str := [112, 114, 111, 109, 111, 116, 105, 111, 110, 115]
/-- `"concept_nodes_count"` -/
def kCnc : Str := [99, 111, 110, 99, 101, 112, 116, 95, 110, 111, 100, 101, 115, 95, 99, 111, 117, 110, 116]
/-- `"edges_count"` -/
def kEdgesCount : Str := [101, 100, 103, 101, 115, 95, 99, 111, 117, 110, 116]
/-- `"schema"` -/
def kSchema : Str := [115, 99, 104, 101, 109, 97]
/-- `"last_update"` -/
def kLastUpdate : Str := [108, 97, 115, 116, 95, 117, 112, 100, 97, 116, 101]
/-- `"turn"` -/
def kTurn : Str := [116, 117, 114, 110]
/-- `"agent"` -/
def kAgent : Str := [97, 103, 101, 110, 116]
/-- `"version_etag"` -/
def kVersionEtag : Str := [118, 101, 114, 115, 105, 111, 110, 95, 101, 116, 97, 103]
/-- `"applied"` -/
def kApplied : Str := [97, 112, 112, 108, 105, 101, 100]
/-- `"deltas"` -/
def kDeltas : Str := [100, 101, 108, 116, 97, 115]
/-- `"schema_version"` -/
def kSchemaVersion : Str := [115, 99, 104, 101, 109, 97, 95, 118, 101, 114, 115, 105, 111, 110]
/-- `"store"` -/
def kStore : Str := [115, 116, 111, 114, 101]
/-- `"graph_schema_version"` -/
def kGraphSchemaVersion : Str := [103, 114, 97, 112, 104, 95, 115, 99, 104, 101, 109, 97, 95, 118, 101, 114, 115, 105, 111, 110]
/-- `"gel"` -/
def kGel : Str := [103, 101, 108]
/-- `"graph"` -/
def kGraph : Str := [103, 114, 97, 112, 104]
/-- `"nodes_count"` -/
def kNodesCount : Str := [110, 111, 100, 101, 115, 95, 99, 111, 117, 110, 116]
/-- `"state"` -/
def kState : Str := [115, 116, 97, 116, 101]
/-- `"weights"` -/
def kWeights : Str := [119, 101, 105, 103, 104, 116, 115]
/-- `"target_kind"` -/
def kTargetKind : Str := [116, 97, 114, 103, 101, 116, 95, 107, 105, 110, 100]
/-- `"target_id"` -/
def kTargetId : Str := [116, 97, 114, 103, 101, 116, 95, 105, 100]
/-- `"attr"` -/
def kAttr : Str := [97, 116, 116, 114]
/-- `"value"` -/
def kValue : Str := [118, 97, 108, 117, 101]
/-- `"created_at"` -/
def kCreatedAt : Str := [99, 114, 101, 97, 116, 101, 100, 95, 97, 116]
/-- `"coact"` -/
def sCoact : Str := [99, 111, 97, 99, 116]
/-- `"v1"` -/
def sV1 : Str := [118, 49]
/-- `"v1.1"` -/
def sV11 : Str := [118, 49, 46, 49]
/-- `"node"` -/
def sNode : Str := [110, 111, 100, 101]
/-- `"__"` -/
def sUs : Str := [95, 95]
/-- `"→"` -/
def sArrow : Str := [8594]
/-- `".json"` -/
def sDotJson : Str := [46, 106, 115, 111, 110]
/-- `".meta"` -/
def sDotMeta : Str := [46, 109, 101, 116, 97]
/-- `"snap_"` -/
def sSnap : Str := [115, 110, 97, 112, 95]
/-- `"state_"` -/
def sStatePfx : Str := [115, 116, 97, 116, 101, 95]

/-! ## float carrier -/

structure WOps (W : Type) where
  lt : W → W → Bool          -- `a < b`
  fin : W → Bool             -- `math.isfinite`
  round : W → W              -- `round(x, 6)` on a finite float
  abs : W → W
  zero : W                   -- `0.0`
  one : W
  negOne : W
  isZero : W → Bool          -- `x == 0.0`

structure Bounds (W : Type) where
  wmin : W
  wmax : W
  eps : W

/-- `_graph_bounds_from_cfg` after the dictionary look-ups: `gmin/gmax` are `graph.weight_min/max`
when present, `tmin/tmax` the `t4.*` fall-backs, `epsRaw` is `graph.decay.epsilon_prune`. -/
def mkBounds {W} (o : WOps W) (gmin tmin gmax tmax epsRaw : Option W) : Bounds W :=
  let wmin := gmin.getD (tmin.getD o.negOne)
  let wmax := gmax.getD (tmax.getD o.one)
  let eps := epsRaw.getD o.zero
  let ok := o.lt wmin wmax
  { wmin := if ok then wmin else o.negOne
    wmax := if ok then wmax else o.one
    eps := if o.lt eps o.zero then o.zero else eps }

/-- `_clamp` -/
def clamp {W} (o : WOps W) (x lo hi : W) : W :=
  if o.lt x lo then lo else if o.lt hi x then hi else x

/-- `_round6` -/
def round6 {W} (o : WOps W) (x : W) : W := if o.fin x then o.round x else o.zero

/-- ε-prune -/
def prune {W} (o : WOps W) (eps r : W) : W := if o.lt (o.abs r) eps then o.zero else r

/-- The per-weight pipeline of `_sanitize_gel_for_write` (repaired): clamp, replace a non-finite
clamp result by `clamp(0.0)`, round to 6 decimals, ε-prune. -/
def sw {W} (o : WOps W) (b : Bounds W) (w : W) : W :=
  let x := clamp o w b.wmin b.wmax
  let x' := if o.fin x then x else clamp o o.zero b.wmin b.wmax
  prune o b.eps (round6 o x')

/-- The pipeline as it was before the fix: `_round6(_clamp(w))` then prune. -/
def swOld {W} (o : WOps W) (b : Bounds W) (w : W) : W :=
  prune o b.eps (round6 o (clamp o w b.wmin b.wmax))

/-! ## conversions of arbitrary values -/

structure Cv (W : Type) where
  pyStr : J W → Str            -- `str(v)`
  pyFloat : J W → Option W     -- `float(v)`, `none` = raises
  pyInt : J W → Option Int     -- `int(v)`, `none` = raises

/-! ## `_sanitize_gel_for_write` -/

/-- `_edge_id` -/
def edgeId (src dst rel : Str) : Str :=
  if lexLe src dst then src ++ sUs ++ dst ++ sUs ++ rel else dst ++ sUs ++ src ++ sUs ++ rel

def edgeRec {W} (src dst rel : Str) (w : W) (upd attrs : J W) : List (Str × J W) :=
  [(kSrc, .str src), (kDst, .str dst), (kRel, .str rel), (kWeight, .num w),
   (kUpdatedAt, upd), (kAttrs, attrs)]

def edSrc {W} (cv : Cv W) (kv : List (Str × J W)) : Str := cv.pyStr (getD kSrc (.str []) kv)
def edDst {W} (cv : Cv W) (kv : List (Str × J W)) : Str := cv.pyStr (getD kDst (.str []) kv)
def edRel {W} (cv : Cv W) (kv : List (Str × J W)) : Str := cv.pyStr (getD kRel (.str sCoact) kv)

/-- One iteration of the edge loop; `none` = an exception escapes to the enclosing `try`. -/
def edgeStep {W} (o : WOps W) (cv : Cv W) (b : Bounds W) (acc : List (Str × J W)) :
    J W → Option (List (Str × J W))
  | .obj kv =>
    match cv.pyFloat (getD kWeight (.num o.zero) kv) with
    | none => none
    | some w0 =>
      some (ainsert (edgeId (edSrc cv kv) (edDst cv kv) (edRel cv kv))
        (.obj (edgeRec (edSrc cv kv) (edDst cv kv) (edRel cv kv) (sw o b w0)
          (getD kUpdatedAt .null kv) (getD kAttrs (.obj []) kv))) acc)
  | _ => some acc

/-- The loop sits inside one `try/except: pass`: the first exception keeps what was built. -/
def edgesLoop {W} (o : WOps W) (cv : Cv W) (b : Bounds W) :
    List (J W) → List (Str × J W) → List (Str × J W)
  | [], acc => acc
  | ed :: rest, acc =>
    match edgeStep o cv b acc ed with
    | none => acc
    | some acc' => edgesLoop o cv b rest acc'

def nodesLoop {W} (o : WOps W) (cv : Cv W) : List (J W) → List (Str × J W) → List (Str × J W)
  | [], acc => acc
  | nd :: rest, acc =>
    match nd with
    | .obj kv =>
      let nid := cv.pyStr (getD kId (.str []) kv)
      nodesLoop o cv rest (if nid.isEmpty then acc else ainsert nid nd acc)
    | other => if truthy o.isZero other then acc else nodesLoop o cv rest acc

/-- the items of `gel.get(k, {})` when `gel` is a dict, else `{}` -/
def gelField {W} (k : Str) : J W → J W
  | .obj kv => getD k (.obj []) kv
  | _ => .obj []

def nodesOf {W} (o : WOps W) (cv : Cv W) (gel : J W) : List (Str × J W) :=
  match gelField kNodes gel with
  | .obj kv => ofPairs kv
  | .arr xs => nodesLoop o cv xs []
  | _ => []

def edgeItems {W} (gel : J W) : List (J W) :=
  match gelField kEdges gel with
  | .obj kv => kv.map Prod.snd
  | .arr xs => xs
  | _ => []

def edgesOf {W} (o : WOps W) (cv : Cv W) (b : Bounds W) (gel : J W) : List (Str × J W) :=
  edgesLoop o cv b (edgeItems gel) []

/-- `meta_in`; `none` = `meta_in.get` raises (`meta` truthy but not a dict). -/
def metaIn {W} (o : WOps W) : J W → Option (List (Str × J W))
  | .obj kv =>
    match aget kMeta kv with
    | none => some []
    | some (.obj mkv) => some mkv
    | some m => if truthy o.isZero m then none else some []
  | _ => some []

def listOr {W} (k : Str) (mi : List (Str × J W)) : J W :=
  match aget k mi with
  | some (.arr xs) => .arr xs
  | _ => .arr []

def metaOut {W} (cv : Cv W) (mi : List (Str × J W)) (nEdges : Nat) : List (Str × J W) :=
  [(kMerges, listOr kMerges mi), (kSplits, listOr kSplits mi), (kPromotions, listOr kPromotions mi),
   (kCnc, .int ((cv.pyInt (getD kCnc (.int 0) mi)).getD 0)),
   (kEdgesCount, .int nEdges), (kSchema, .str sV11)]

structure Gel (W : Type) where
  nodes : List (Str × J W)
  edges : List (Str × J W)
  mta : List (Str × J W)

def Gel.toJ {W} (g : Gel W) : J W :=
  .obj [(kNodes, .obj g.nodes), (kEdges, .obj g.edges), (kMeta, .obj g.mta)]

/-- `_sanitize_gel_for_write`; `none` = raises. -/
def sanitizeW {W} (o : WOps W) (cv : Cv W) (b : Bounds W) (gel : J W) : Option (Gel W) :=
  match metaIn o gel with
  | none => none
  | some mi =>
    let es := edgesOf o cv b gel
    some { nodes := nodesOf o cv gel, edges := es, mta := metaOut cv mi es.length }

/-- `_sanitize_gel_for_load`: the write path plus the `last_update` overlay. -/
def sanitizeL {W} (o : WOps W) (cv : Cv W) (b : Bounds W) (gel : J W) : Option (Gel W) :=
  match sanitizeW o cv b gel with
  | none => none
  | some g =>
    match gel with
    | .obj kv =>
      match aget kMeta kv with
      | some (.obj mkv) =>
        match aget kLastUpdate mkv with
        | some lu => some { g with mta := ainsert kLastUpdate lu g.mta }
        | none => some g
      | _ => some g
    | _ => some g

/-! ## canonical re-keying (`src→dst`, orientation-free, `rel` dropped) -/

def arrowKey (src dst : Str) : Str :=
  if lexLe src dst then src ++ sArrow ++ dst else dst ++ sArrow ++ src

/-- `str(rec.get(k)) if rec.get(k) is not None else None`, then truthiness: `[]` = falsy. -/
def recEnd {W} (cv : Cv W) (k : Str) (kv : List (Str × J W)) : Str :=
  match aget k kv with
  | none => []
  | some .null => []
  | some v => cv.pyStr v

def rekeyStep {W} (cv : Cv W) (acc : List (Str × J W)) (p : Str × J W) : List (Str × J W) :=
  match p.2 with
  | .obj kv =>
    let src := recEnd cv kSrc kv
    let dst := recEnd cv kDst kv
    if src.isEmpty || dst.isEmpty then ainsert p.1 p.2 acc
    else ainsert (arrowKey src dst) (.obj (ainsert kId (.str (arrowKey src dst)) kv)) acc
  | _ => acc

def rekey {W} (cv : Cv W) (edges : List (Str × J W)) : List (Str × J W) :=
  edges.foldl (rekeyStep cv) []

/-- write path: re-key, then keep `meta.edges_count` in sync and make sure `schema` exists. -/
def rekeyW {W} (cv : Cv W) (g : Gel W) : Gel W :=
  let es := rekey cv g.edges
  let m := ainsert kEdgesCount (.int es.length) g.mta
  { nodes := g.nodes, edges := es,
    mta := match aget kSchema m with
            | some _ => m
            | none => ainsert kSchema (.str sV11) m }

/-- load path: re-key only. -/
def rekeyL {W} (cv : Cv W) (g : Gel W) : Gel W := { g with edges := rekey cv g.edges }

/-- What `write_snapshot` stores under `"gel"` when sanitisation succeeds. -/
def canonW {W} (o : WOps W) (cv : Cv W) (b : Bounds W) (gel : J W) : Option (Gel W) :=
  (sanitizeW o cv b gel).map (rekeyW cv)

/-- What `load_latest_snapshot` puts into `state.graph` / `state.gel`. -/
def canonL {W} (o : WOps W) (cv : Cv W) (b : Bounds W) (gel : J W) : Option (Gel W) :=
  (sanitizeL o cv b gel).map (rekeyL cv)

/-! ## store export / import -/

inductive Store (W : Type) where
  | absent                                   -- `state.store` is `None` / missing
  | other                                    -- an object with neither protocol
  | opaque (st : J W)                         -- `export_state()` / `import_state()` (identity pair)
  | wmap (w : List (List Str × W))            -- `.w : Dict[tuple[str, ...], float]`, insertion order

/-- one `.w` entry; keys that do not unpack into three parts are skipped (`continue`) -/
def weightItem {W} (k : List Str) (v : W) : Option (J W) :=
  match k with
  | [a, b, c] => some (.obj [(kTargetKind, .str a), (kTargetId, .str b),
                             (kAttr, .str c), (kValue, .num v)])
  | _ => none

/-- `payload["store"]` -/
def exportStore {W} : Store W → J W
  | .absent => .obj []
  | .other => .obj []
  | .opaque st => .obj [(kState, st)]
  | .wmap w => .obj [(kWeights, .arr (w.filterMap (fun p => weightItem p.1 p.2)))]

def importItem {W} (o : WOps W) (cv : Cv W) : J W → Option (List Str × W)
  | .obj kv =>
    match cv.pyFloat (getD kValue (.num o.zero) kv) with
    | none => none
    | some v => some ([cv.pyStr (getD kTargetKind (.str sNode) kv),
                       cv.pyStr (getD kTargetId (.str []) kv),
                       cv.pyStr (getD kAttr (.str kWeight) kv)], v)
  | _ => none

/-- the `newmap` loop; `none` = an exception (→ `return False`, store untouched) -/
def importLoop {W} (o : WOps W) (cv : Cv W) :
    List (J W) → List (List Str × W) → Option (List (List Str × W))
  | [], acc => some acc
  | it :: rest, acc =>
    match importItem o cv it with
    | none => none
    | some p => importLoop o cv rest (ainsert p.1 p.2 acc)

/-- `_import_store_from_snapshot(store, snap_store)`: new store and the returned flag. -/
def importStore {W} (o : WOps W) (cv : Cv W) (st : Store W) (snap : J W) : Store W × Bool :=
  match snap with
  | .obj kv =>
    match st, aget kState kv with
    | .opaque _, some x => (.opaque x, true)
    | _, _ =>
      match st, aget kWeights kv with
      | .wmap w, some ws =>
        let items := match ws with
          | .arr xs => some xs
          | other => if truthy o.isZero other then none else some []   -- `weights or []`
        match items with
        | none => (.wmap w, false)
        | some xs =>
          match importLoop o cv xs [] with
          | none => (.wmap w, false)
          | some m => (.wmap m, true)
      | _, _ => (st, false)
  | _ => (st, false)

/-! ## `write_snapshot` payload -/

structure WriteIn (W : Type) where
  turn : J W            -- `ctx.turn_id`
  agent : J W           -- `ctx.agent_id`
  version : J W         -- `version_etag` argument
  applied : Int         -- `int(applied or 0)` for the integers the engine passes
  deltas : J W          -- `_serialize_deltas(deltas)` (not part of C06; supplied)
  store : Store W
  graph : J W           -- `state.graph` (`null` when absent)
  gel : J W             -- `state.gel`

def emptyMeta {W} : List (Str × J W) :=
  [(kSchema, .str sV11), (kMerges, .arr []), (kSplits, .arr []), (kPromotions, .arr []),
   (kCnc, .int 0), (kEdgesCount, .int 0)]

def emptyGel {W} : Gel W := { nodes := [], edges := [], mta := emptyMeta }

def graphSummary {W} (counts : Option (Nat × Nat)) : J W :=
  .obj [(kNodesCount, match counts with | some c => .int c.1 | none => .null),
        (kEdgesCount, match counts with | some c => .int c.2 | none => .null),
        (kMeta, .obj [(kLastUpdate, .null)])]

/-- `g or {"nodes": {}, "edges": {}}` -/
def orEmptyGel {W} (o : WOps W) (g : J W) : J W :=
  if truthy o.isZero g then g else .obj [(kNodes, .obj []), (kEdges, .obj [])]

/-- `state.graph or state.gel`, then `or {"nodes": {}, "edges": {}}` -/
def graphState {W} (o : WOps W) (i : WriteIn W) : J W :=
  orEmptyGel o (if truthy o.isZero i.graph then i.graph else i.gel)

/-- the `"gel"` section: sanitised + re-keyed, or the fallback literal when sanitisation raises -/
def gelSection {W} (o : WOps W) (cv : Cv W) (b : Bounds W) (i : WriteIn W) : Gel W × Bool :=
  match canonW o cv b (graphState o i) with
  | some g => (g, true)
  | none => (emptyGel, false)

def payloadKV {W} (o : WOps W) (cv : Cv W) (b : Bounds W) (i : WriteIn W) : List (Str × J W) :=
  let gs := gelSection o cv b i
  [(kTurn, .int ((cv.pyInt i.turn).getD 0)), (kAgent, i.agent), (kVersionEtag, i.version),
   (kApplied, .int i.applied), (kDeltas, i.deltas), (kSchemaVersion, .str sV1),
   (kStore, exportStore i.store), (kGraphSchemaVersion, .str sV11),
   (kGel, gs.1.toJ),
   (kGraph, graphSummary (if gs.2 then some (gs.1.nodes.length, gs.1.edges.length) else none))]

/-- The JSON body `write_snapshot` serialises (key order = `json.dumps` order). -/
def payloadOf {W} (o : WOps W) (cv : Cv W) (b : Bounds W) (i : WriteIn W) : J W :=
  .obj (payloadKV o cv b i)

/-- `.meta` sidecar (`sort_keys=True`); `createdAt` is the clock/`SOURCE_DATE_EPOCH` oracle. -/
def sidecarOf {W} (createdAt : Str) : J W :=
  .obj [(kCreatedAt, .str createdAt), (kSchemaVersion, .str sV1)]

/-! ## `load_latest_snapshot` (given the parsed body of the picked file) -/

structure Loaded (W : Type) where
  version : Option Str     -- `state.version_etag` when set
  store : Store W
  graph : Gel W            -- `state.graph` (= `state.gel`, same object)
  loaded : Bool
  ver : J W                -- returned `version_etag`

/-- `(data or {})`; `none` = truthy non-dict body (`.get` raises). -/
def bodyKV {W} (o : WOps W) : J W → Option (List (Str × J W))
  | .obj kv => some kv
  | other => if truthy o.isZero other then none else some []

/-- the store branch of `load_latest_snapshot` (`snap` = `data.get("store")`) -/
def loadStore {W} (o : WOps W) (cv : Cv W) (fresh : Store W) (snap : Option (J W)) : Store W × Bool :=
  match fresh, snap with
  | .absent, _ => (.absent, false)
  | s, some .null => (s, false)
  | s, none => (s, false)
  | s, some snap => importStore o cv s snap

/-- `data.get("gel")`, falling back to `data.get("graph")` when `None` -/
def snapGelOf {W} (kv : List (Str × J W)) : J W :=
  match aget kGel kv with
  | none => getD kGraph .null kv
  | some .null => getD kGraph .null kv
  | some g => g

def loadedGel {W} (o : WOps W) (cv : Cv W) (b : Bounds W) (kv : List (Str × J W)) : Gel W :=
  match canonL o cv b (orEmptyGel o (snapGelOf kv)) with
  | some g => g
  | none => { nodes := [], edges := [], mta := emptyMeta }

def loadKV {W} (o : WOps W) (cv : Cv W) (b : Bounds W) (kv : List (Str × J W)) (fresh : Store W) :
    Loaded W :=
  let ver := getD kVersionEtag .null kv
  let st := loadStore o cv fresh (aget kStore kv)
  let g := loadedGel o cv b kv
  { version := if isNull ver then none else some (cv.pyStr ver), store := st.1, graph := g,
    loaded := st.2 || !(isNull ver) || !g.edges.isEmpty, ver := ver }

def loadFrom {W} (o : WOps W) (cv : Cv W) (b : Bounds W) (data : J W) (fresh : Store W) :
    Option (Loaded W) :=
  (bodyKV o data).map (fun kv => loadKV o cv b kv fresh)

/-- The state a second `write_snapshot` sees after `load_latest_snapshot` into a fresh state. -/
def rewriteIn {W} (i : WriteIn W) (l : Loaded W) : WriteIn W :=
  { i with version := match l.version with | some v => .str v | none => .null,
           store := l.store, graph := l.graph.toJ, gel := l.graph.toJ }

/-! ## `_pick_latest_snapshot_path` over a directory listing -/

structure Ent where
  name : Str
  mtime : Int
  deriving DecidableEq, Repr

def endsWith (s suf : Str) : Bool :=
  suf.length ≤ s.length && s.drop (s.length - suf.length) == suf

def startsWith (s pre : Str) : Bool := pre.isPrefixOf s

/-- ASCII `str.isdigit` -/
def isDigits (s : Str) : Bool := !s.isEmpty && s.all (fun c => 48 ≤ c && c ≤ 57)

def natOfDigits (s : Str) : Nat := s.foldl (fun n c => 10 * n + (c - 48)) 0

/-- head of a stable `sort(key=…, reverse=True)`: the first element whose key is maximal -/
def firstMax {α : Type} (key : α → Int) : List α → Option α
  | [] => none
  | a :: l =>
    match firstMax key l with
    | none => some a
    | some m => if key a < key m then some m else some a

def stemOf (n : Str) : Str := (n.drop sSnap.length).take (n.length - sSnap.length - sDotJson.length)

def isNumbered (n : Str) : Bool := startsWith n sSnap && isDigits (stemOf n)

def pickLatest (l : List Ent) : Option Str :=
  let js := l.filter (fun e => endsWith e.name sDotJson)
  let numbered := js.filter (fun e => isNumbered e.name)
  match firstMax (fun e => (natOfDigits (stemOf e.name) : Int)) numbered with
  | some e => some e.name
  | none =>
    let states := js.filter (fun e => startsWith e.name sStatePfx)
    match firstMax Ent.mtime states with
    | some e => some e.name
    | none => (firstMax Ent.mtime js).map Ent.name

/-- an `atomic_write_*` temporary: `<final>.` + 8 characters none of which is `.` -/
def isAtomicTemp (n : Str) : Bool :=
  9 ≤ n.length && (n.drop (n.length - 9)).head? == some 46 && !(n.drop (n.length - 8)).contains 46

/-! ## Boolean monitors (evaluated by the driver on implementation outputs) -/

/-- the body carries the frozen marker -/
def hasMarker {W} : J W → Bool
  | .obj kv => match aget kSchemaVersion kv with
    | some (.str s) => s == sV1
    | _ => false
  | _ => false

/-- a chosen path is a `.json` member of the listing, not a sidecar, not a temp -/
def pickOk (l : List Ent) : Option Str → Bool
  | none => l.all (fun e => !endsWith e.name sDotJson)
  | some n => l.any (fun e => e.name == n) && endsWith n sDotJson && !endsWith n sDotMeta
              && !isAtomicTemp n

/-- re-writing the state loaded from body `p` reproduces `p` (carrier equality `weq`) -/
def fixpointOk {W} (weq : W → W → Bool) (o : WOps W) (cv : Cv W) (b : Bounds W)
    (i : WriteIn W) (p : J W) (fresh : Store W) : Bool :=
  match loadFrom o cv b p fresh with
  | none => false
  | some l => jbeq weq (payloadOf o cv b (rewriteIn i l)) p

end Clem.Snap
