/-
Model of the T2 retrieval stage (property C11), sequential path, caches off, in-memory index:

* `clematis/memory/index.py`  `_filter_owner`, `_filter_recent`, `_filter_quarters`,
  `_rank_by_cosine`, `_search_with_episodes`
* `clematis/engine/stages/t2/core.py:t2_semantic`  tier walk (dedupe, early stop at `k`),
  combined rescoring + final sort, quality layer call, slice clamp `t2_k`, residual matching
* `clematis/engine/stages/t2/state.py:build_label_map`, `helpers.py:owner_for_query`,
  `items_for_fusion`
* `clematis/engine/stages/hybrid.py:rerank_with_gel`
* `clematis/engine/stages/t2/quality.py:apply_quality`, `quality_ops.py:fuse`,
  `maybe_apply_mmr`, `quality_mmr.py:mmr_select`, `mmr_reorder_full`, `jaccard_distance`

Import-free and executable.  Generic in the numeric carrier `α` through the tiny class `Num`
(the driver instantiates it at `Float`, the theorems at any linearly ordered carrier whose Boolean
comparisons agree with the order — `Clem/Proofs/T2.lean`).

ORACLES (inputs on both sides): the cosine of every episode vector (`Ep.cos`), the cosine of every
cluster centroid (`Cfg.cscore`), the BM25 score of every candidate (`QCfg.lex`), token sets for MMR
(`Ep.toks`), timestamps parsed to integer microseconds (`Ts.valid`), quarter labels, the
`_stable_cluster_id` string and `float(importance)`.

Strings are code-point lists.  `.lower()` is modelled on ASCII.
-/
import Clem.Py.Sort
import Clem.Gen.T2Consts

namespace Clem.T2

open Clem.Py

abbrev Str := List Nat

/-- The numeric operations the stage uses.  `lt/le/beq` are Python's `<`, `<=`, `==` on floats. -/
class Num (α : Type) where
  zero : α
  one : α
  add : α → α → α
  sub : α → α → α
  mul : α → α → α
  div : α → α → α
  neg : α → α
  abs : α → α
  lt : α → α → Bool
  le : α → α → Bool
  beq : α → α → Bool
  ofInt : Int → α

section
variable {α : Type} [Num α]

/-- Python `max(a, b)` (two positional arguments): `b` only when `b > a`. -/
def pyMax (a b : α) : α := if Num.lt a b then b else a
/-- Python `min(a, b)`: `b` only when `b < a`. -/
def pyMin (a b : α) : α := if Num.lt b a then b else a

/-- `l[:k]` for a Python int `k`. -/
def pySlice {β : Type} (k : Int) (l : List β) : List β :=
  if 0 ≤ k then l.take k.toNat else l.take (l.length - (-k).toNat)

/-- Python `<` on a key tuple `(x, s)` with `x` a float and `s` a str. -/
def keyLt (a b : α × Str) : Bool :=
  if Num.beq a.1 b.1 then lexLt a.2 b.2 else Num.lt a.1 b.1

/-- "sorts no later than" for a stable sort that only uses `<`. -/
def keyLe (a b : α × Str) : Bool := !keyLt b a

/-! ### Episodes -/

inductive Ts where
  | valid (us : Int)   -- parses; microseconds since the epoch (UTC)
  | missing            -- absent / falsy
  | garbage            -- truthy but unparsable: `_parse_iso` answers wall-clock now
deriving Repr, DecidableEq, Inhabited

/-- `e.get("owner")`: key absent, explicit `None`, or a string. -/
inductive Owner where
  | absent
  | null
  | str (s : Str)
deriving Repr, DecidableEq, Inhabited

structure Ep (α : Type) where
  id : Str                 -- `str(e.get("id"))`
  owner : Owner            -- `e.get("owner")`
  hasVec : Bool            -- `e.get("vec_full") is not None`
  cos : α                  -- oracle: cosine(q, vec_full)
  ts : Ts
  quarter : Nat            -- oracle: `_to_quarter(ts)` label, encoded
  cluster : Str            -- oracle: `_stable_cluster_id(e)`
  importance : α           -- `float((aux or {}).get("importance", 0.5))`
  text : Str
  toks : List Nat          -- oracle: token set used by MMR (sorted, duplicate-free token codes)
deriving Inhabited

/-- `EpisodeRef.owner = str(e.get("owner", ""))` (`None` is rendered as the string `None`). -/
def Ep.ownerStr (e : Ep α) : Str :=
  match e.owner with
  | .str o => o
  | .null => [78, 111, 110, 101]
  | .absent => []

/-! ### Index: filters and cosine rank -/

/-- `owner is None or e.get("owner") == owner` -/
def visible (owner : Option Str) (e : Ep α) : Bool :=
  match owner with
  | none => true
  | some o => e.owner == .str o

def filterOwner (owner : Option Str) (eps : List (Ep α)) : List (Ep α) :=
  match owner with
  | none => eps
  | some o => eps.filter (fun e => e.owner == .str o)

def usPerDay : Int := 86400000000

/-- `te >= now − days` ; unparsable / missing timestamps are read as wall-clock now, which is not
earlier than `ctx.now` (assumption stated in the harness). -/
def recentOk (days nowUs : Int) (e : Ep α) : Bool :=
  match e.ts with
  | .valid us => decide (nowUs - days * usPerDay ≤ us)
  | _ => true

def filterRecent (days nowUs : Int) (eps : List (Ep α)) : List (Ep α) :=
  if days ≤ 0 then eps else eps.filter (recentOk days nowUs)

def filterQuarters (qs : List Nat) (eps : List (Ep α)) : List (Ep α) :=
  if qs.isEmpty then eps else eps.filter (fun e => qs.contains e.quarter)

def rankKey (e : Ep α) : α × Str := (Num.neg e.cos, e.id)
def rankLe (a b : Ep α) : Bool := keyLe (rankKey a) (rankKey b)

def passes (θ : α) (e : Ep α) : Bool := e.hasVec && Num.le θ e.cos

/-- `_rank_by_cosine` after the sort: one entry per episode id (its best-ranked copy), in order
(`seen_ids` / `unique`).  Same function as `Clem.ParT2.dedupAux` (there on the fan-out's `Hit`). -/
def dedupIdsAux : List Str → List (Ep α) → List (Ep α)
  | _, [] => []
  | seen, h :: t =>
    if seen.contains h.id then dedupIdsAux seen t else h :: dedupIdsAux (h.id :: seen) t

def dedupIds (l : List (Ep α)) : List (Ep α) := dedupIdsAux [] l

/-- `_rank_by_cosine`: filter `s ≥ θ`, sort by `(−s, id)`, keep the first copy of every id, cut to `k`. -/
def rankByCosine (k : Int) (θ : α) (eps : List (Ep α)) : List (Ep α) :=
  pySlice k (dedupIds (isort rankLe (eps.filter (passes θ))))

/-! ### Cluster tier -/

def firstSeen : List Str → List Str → List Str
  | [], acc => acc
  | c :: cs, acc => if acc.contains c then firstSeen cs acc else firstSeen cs (acc ++ [c])

def lookupScore (tbl : List (Str × α)) (c : Str) : α :=
  match tbl.find? (fun p => p.1 == c) with
  | some p => p.2
  | none => Num.zero

def clusterKeyLe (a b : Str × α) : Bool := keyLe (Num.neg a.2, a.1) (Num.neg b.2, b.1)

/-- Clusters (first-seen order) that have at least one vector, with their centroid score. -/
def clusterScores (cscore : List (Str × α)) (eps : List (Ep α)) : List (Str × α) :=
  ((firstSeen (eps.map (·.cluster)) []).filter
      (fun c => eps.any (fun e => e.cluster == c && e.hasVec))).map
    (fun c => (c, lookupScore cscore c))

def chosenClusters (cscore : List (Str × α)) (m : Int) (eps : List (Ep α)) : List Str :=
  (pySlice m (isort clusterKeyLe (clusterScores cscore eps))).map (·.1)

def clusterPool (chosen : List Str) (eps : List (Ep α)) : List (Ep α) :=
  (isort lexLe chosen).flatMap (fun c => eps.filter (fun e => e.cluster == c))

/-! ### `_search_with_episodes` -/

/-- `owner_for_query`: scope codes 1 = agent, 2 = world, anything else = any. -/
def ownerForQuery (scope : Nat) (agent : Option Str) : Option Str :=
  if scope == 1 then agent else if scope == 2 then some [119, 111, 114, 108, 100] else none

structure Cfg (α : Type) where
  scope : Nat               -- owner_scope code
  agent : Option Str        -- ctx.agent_id
  k : Int                   -- k_retrieval
  θ : α                     -- sim_threshold
  days : Int                -- exact_recent_days
  topM : Int                -- clusters_top_m
  nowUs : Int
  quarters : List Nat       -- archive_quarters hint (t2_semantic never passes it: `[]`)
  cscore : List (Str × α)   -- oracle: centroid cosine per cluster id
  alpha : α
  beta : α
  gamma : α

/-- tier codes: 0 exact_semantic, 1 cluster_semantic, 2 archive, anything else unknown. -/
def Cfg.owner (c : Cfg α) : Option Str := ownerForQuery c.scope c.agent

def searchTier (c : Cfg α) (tier : Nat) (episodes : List (Ep α)) : List (Ep α) :=
  let all := filterOwner c.owner episodes
  if all.isEmpty then [] else
  match tier with
  | 0 => rankByCosine c.k c.θ (filterRecent c.days c.nowUs all)
  | 1 => rankByCosine c.k c.θ (clusterPool (chosenClusters c.cscore c.topM all) all)
  | 2 => rankByCosine c.k c.θ (filterQuarters c.quarters all)
  | _ => []

/-! ### Tier walk -/

def addHits (k : Int) : List (Ep α) → List (Ep α) → List (Ep α)
  | [], acc => acc
  | h :: hs, acc =>
    if acc.any (fun r => r.id == h.id) then addHits k hs acc
    else if k ≤ ((acc ++ [h]).length : Int) then acc ++ [h] else addHits k hs (acc ++ [h])

def walk (k : Int) (search : Nat → List (Ep α)) :
    List Nat → List (Ep α) → List Nat → List (Ep α) × List Nat
  | [], acc, seq => (acc, seq)
  | t :: ts, acc, seq =>
    if t ≤ 2 then
      let acc' := addHits k (search t) acc
      if k ≤ (acc'.length : Int) then (acc', seq ++ [t]) else walk k search ts acc' (seq ++ [t])
    else walk k search ts acc (seq ++ [t])

/-! ### Combined score and final order -/

/-- `ep_by_id = {str(e.get("id")): e for e in eps}`: the LAST episode with that id, any owner. -/
def epById (eps : List (Ep α)) (id : Str) : Option (Ep α) :=
  eps.reverse.find? (fun e => e.id == id)

def ageDays (nowUs : Int) (t : Ts) : α :=
  match t with
  | .valid us =>
    pyMax Num.zero
      (Num.div (Num.div (Num.ofInt (nowUs - us)) (Num.ofInt 1000000)) (Num.ofInt 86400))
  | .missing => Num.ofInt Clem.Gen.T2Consts.horizonDays
  | .garbage => Num.zero   -- `now − wall-clock` is ≤ 0, clamped by `max(0.0, ·)`

def clamp01 (x : α) : α := pyMax Num.zero (pyMin Num.one x)

def recency (nowUs : Int) (t : Ts) : α :=
  clamp01 (Num.sub Num.one (Num.div (ageDays nowUs t) (Num.ofInt Clem.Gen.T2Consts.horizonDays)))

/-- `alpha*(cos+1)/2 + beta*recency + gamma*importance` as written (left-associated). -/
def combined (c : Cfg α) (eps : List (Ep α)) (hid : Str) (hcos : α) : α :=
  let cosNorm := Num.div (Num.add hcos Num.one) (Num.ofInt 2)
  let src := epById eps hid
  let rec_ := match src with
    | some e => recency c.nowUs e.ts
    | none => recency c.nowUs .missing
  let imp := match src with
    | some e => clamp01 e.importance
    | none => clamp01 (Num.div Num.one (Num.ofInt 2))
  Num.add (Num.add (Num.mul c.alpha cosNorm) (Num.mul c.beta rec_)) (Num.mul c.gamma imp)

def combKey (p : Ep α × α) : α × Str := (Num.neg p.2, p.1.id)
def combLe (a b : Ep α × α) : Bool := keyLe (combKey a) (combKey b)

def rescore (c : Cfg α) (eps : List (Ep α)) (retrieved : List (Ep α)) : List (Ep α × α) :=
  isort combLe (retrieved.map (fun h => (h, combined c eps h.id h.cos)))

/-- Retrieval before the rerank layers. -/
def retrieveCore (c : Cfg α) (tiers : List Nat) (eps : List (Ep α)) : List (Ep α × α) × List Nat :=
  let w := walk c.k (fun t => searchTier c t eps) tiers [] []
  (rescore c eps w.1, w.2)

/-! ### Hybrid rerank (`rerank_with_gel`) -/

structure GEdge (α : Type) where
  a : Str
  b : Str          -- canonical key `a→b` with `a ≤ b`
  w : α

structure HCfg (α : Type) where
  enabled : Bool
  useGraph : Bool
  anchorTopM : Int
  hops : Int
  thresh : α
  lam : α
  damping : α
  invdeg : Bool
  maxBonus : α
  kMax : Int
  edges : List (GEdge α)
  fail : Bool      -- fault injection: the layer raises

def edgeWeight (edges : List (GEdge α)) (x y : Str) : α :=
  let a := if lexLe x y then x else y
  let b := if lexLe x y then y else x
  match edges.find? (fun e => e.a == a && e.b == b) with
  | some e => e.w
  | none => Num.zero

def absGe (w th : α) : Bool := Num.le th (Num.abs w)     -- abs(w) >= th
def absGt (a b : α) : Bool := Num.lt (Num.abs b) (Num.abs a)  -- abs(a) > abs(b)
def isZero (x : α) : Bool := Num.beq x Num.zero

def oneHop (edges : List (GEdge α)) (th : α) (anchors : List Str) (v : Str) : α :=
  anchors.foldl (fun acc u =>
    if u == v then acc else
      let w := edgeWeight edges u v
      if absGe w th then Num.add acc w else acc) Num.zero

def bestAw (edges : List (GEdge α)) (th : α) (anchors : List Str) (wid : Str) : α :=
  anchors.foldl (fun best u =>
    if u == wid then best else
      let w1 := edgeWeight edges u wid
      if absGe w1 th && absGt w1 best then w1 else best) Num.zero

def bestPath (edges : List (GEdge α)) (th : α) (anchors ids : List Str) (v : Str) : α :=
  ids.foldl (fun bp wid =>
    if wid == v then bp else
      let bw := bestAw edges th anchors wid
      if isZero bw then bp else
        let w2 := edgeWeight edges wid v
        if absGe w2 th then
          let val := Num.mul bw w2
          if absGt val bp then val else bp
        else bp) Num.zero

def degree (edges : List (GEdge α)) (th : α) (considered : List Str) (v : Str) : Nat :=
  edges.foldl (fun cnt e =>
    if e.a != v && e.b != v then cnt else
      let other := if e.a == v then e.b else e.a
      if !considered.contains other then cnt
      else if absGe e.w th then cnt + 1 else cnt) 0

structure HOut (β : Type) where
  items : List β
  used : Bool

/-- Scores of the work slice, in order: `(hybrid score, one_hop ≠ 0 ∨ best_path ≠ 0)`. -/
def hybridScores (h : HCfg α) (work : List (Ep α)) (kc : Int) : List (α × Bool) :=
  let ids := work.map (·.id)
  let m : Int := max 1 (min h.anchorTopM kc)
  let anchors := pySlice m ids
  let damping := if h.hops == 2 then h.damping else Num.zero
  let disableOne := h.hops == 2 || (decide (m < 2) && h.hops == 1)
  work.map (fun x =>
    let v := x.id
    let one := if disableOne then Num.zero else oneHop h.edges h.thresh anchors v
    let bp := if h.hops == 2 then bestPath h.edges h.thresh anchors ids v else Num.zero
    let two := if isZero bp then Num.zero else Num.mul damping bp
    let b0 := Num.add one two
    let d := if h.invdeg then degree h.edges h.thresh ids v else 0
    let b1 := if h.invdeg && decide (0 < d) then Num.div b0 (Num.ofInt d) else b0
    let b2 := if Num.lt h.maxBonus b1 then h.maxBonus
              else if Num.lt b1 (Num.neg h.maxBonus) then Num.neg h.maxBonus else b1
    (Num.add x.cos (Num.mul h.lam b2), !(isZero one) || !(isZero bp)))

def hybKey (p : Ep α × α) : α × Str := (Num.neg p.2, p.1.id)
def hybLe (a b : Ep α × α) : Bool := keyLe (hybKey a) (hybKey b)

/-- Reorder `x :: rest` keeping `x` first; `rest` stably sorted by `(−score, id)`. -/
def hybridReorder (work : List (Ep α)) (scores : List α) : List (Ep α) :=
  match work, scores with
  | x :: rest, _ :: srest => x :: (isort hybLe (rest.zip srest)).map (·.1)
  | w, _ => w

def hybrid (h : HCfg α) (items : List (Ep α)) : Except Unit (HOut (Ep α)) :=
  if h.fail then .error () else
  if !h.enabled then .ok ⟨items, false⟩ else
  if !h.useGraph || h.edges.isEmpty || items.isEmpty then .ok ⟨items, false⟩ else
  let kc : Int := min (items.length : Int) h.kMax
  if kc ≤ 1 then .ok ⟨items, false⟩ else
  let work := items.take kc.toNat
  let tail := items.drop kc.toNat
  let sc := hybridScores h work kc
  if !(sc.any (·.2)) then .ok ⟨items, false⟩ else
  .ok ⟨hybridReorder work (sc.map (·.1)) ++ tail, true⟩

/-! ### Fusion and MMR -/

structure QCfg (α : Type) where
  enabled : Bool                -- t2.quality.enabled
  modeInterp : Bool             -- fusion.mode == "score_interp"
  alphaSem : α
  lex : List (Str × α)          -- oracle: BM25 score per id
  mmrEnabled : Bool
  mmrLam : α
  mmrK : Option Int             -- `mmr.k` when it is an int, else none
  failFuse : Bool
  failMmr1 : Bool               -- the first `maybe_apply_mmr` call of the turn raises
  failMmr2 : Bool               -- the second call raises

/-- A fusion item: the reference it came from, the score MMR reads as relevance. -/
structure FItem (α : Type) where
  ref : Ep α
  score : α       -- rank surrogate `total − idx`
  fused : Option α

def itemsForFusion (l : List (Ep α)) : List (FItem α) :=
  (l.zipIdx).map (fun p => ⟨p.1, Num.ofInt ((l.length : Int) - (p.2 : Int)), none⟩)

def rrOf (order : List Str) (id : Str) : α :=
  match order.idxOf? id with
  | some i => Num.div Num.one (Num.ofInt ((i : Int) + 1 + Clem.Gen.T2Consts.rrankC))
  | none => Num.zero

def semLe (a b : FItem α) : Bool := keyLe (Num.neg a.score, a.ref.id) (Num.neg b.score, b.ref.id)
def lexItemLe (lex : List (Str × α)) (a b : FItem α) : Bool :=
  keyLe (Num.neg (lookupScore lex a.ref.id), a.ref.id) (Num.neg (lookupScore lex b.ref.id), b.ref.id)
def fusedOf (x : FItem α) : α := match x.fused with | some f => f | none => Num.zero
def fusedLe (a b : FItem α) : Bool := keyLe (Num.neg (fusedOf a), a.ref.id) (Num.neg (fusedOf b), b.ref.id)

/-- `quality_ops.fuse` (enabled path; `mode != score_interp` is the identity). -/
def fuse (q : QCfg α) (items : List (FItem α)) : List (FItem α) :=
  if !q.modeInterp then items else
  let semIds := (isort semLe items).map (·.ref.id)
  let lexIds := (isort (lexItemLe q.lex) items).map (·.ref.id)
  let fusedItems := items.map (fun it =>
    { it with fused := some (Num.add (Num.mul q.alphaSem (rrOf semIds it.ref.id))
        (Num.mul (Num.sub Num.one q.alphaSem) (rrOf lexIds it.ref.id))) })
  isort fusedLe fusedItems

/-- Rebuild a reference list from an item list through `id_to_ref` (last writer wins). -/
def rebuild (retrieved : List (Ep α)) (items : List (FItem α)) : List (Ep α) :=
  items.filterMap (fun it => epById retrieved it.ref.id)

def interCount : List Nat → List Nat → Nat
  | [], _ => 0
  | a :: as, b => (if b.contains a then 1 else 0) + interCount as b

def jaccardDist (a b : List Nat) : α :=
  if a.isEmpty && b.isEmpty then Num.zero else
  let inter := interCount a b
  let union := a.length + b.length - inter
  Num.sub Num.one (if union == 0 then Num.zero else Num.div (Num.ofInt inter) (Num.ofInt union))

structure MItem (α : Type) where
  item : FItem α
  rel : α

def mKey (m : MItem α) : α × Str := (Num.neg m.rel, m.item.ref.id)
def mLe (a b : MItem α) : Bool := keyLe (mKey a) (mKey b)

def mmrScore (lam : α) (selected : List (MItem α)) (x : MItem α) : α :=
  if selected.isEmpty then x.rel else
  let div := selected.foldl (fun d j =>
    let dd : α := jaccardDist x.item.ref.toks j.item.ref.toks
    if Num.lt d dd then dd else d) Num.zero
  Num.add (Num.mul lam div) (Num.mul (Num.sub Num.one lam) x.rel)

/-- One greedy pick: fold over `remaining` keeping `(best, best_val)`. -/
def pickBest (lam : α) (selected : List (MItem α)) (first : MItem α) (remaining : List (MItem α)) :
    MItem α :=
  (remaining.foldl (fun (acc : MItem α × Option α) x =>
    let s := mmrScore lam selected x
    match acc.2 with
    | none => (x, some s)
    | some bv =>
      if Num.lt bv s || (Num.beq s bv && lexLt x.item.ref.id acc.1.item.ref.id) then (x, some s)
      else acc) (first, none)).1

/-- `list.remove(x)`: first element with that id (ids are distinct in the stage). -/
def removeFirst (id : Str) : List (MItem α) → List (MItem α)
  | [] => []
  | x :: xs => if x.item.ref.id == id then xs else x :: removeFirst id xs

def mmrLoop (lam : α) : Nat → List (MItem α) → List (MItem α) → List (MItem α) × List (MItem α)
  | 0, sel, rem => (sel, rem)
  | n + 1, sel, rem =>
    match rem with
    | [] => (sel, rem)
    | r :: _ =>
      let b := pickBest lam sel r rem
      mmrLoop lam n (sel ++ [b]) (removeFirst b.item.ref.id rem)

def clampLam (q : QCfg α) : α :=
  if Num.lt q.mmrLam Num.zero then Num.zero
  else if Num.lt Num.one q.mmrLam then Num.one else q.mmrLam

def toMItems (items : List (FItem α)) : List (MItem α) :=
  items.map (fun it => ⟨it, match it.fused with | some f => f | none => it.score⟩)

/-- number of greedy picks: `k` when `1 ≤ k ≤ n`, else `n` -/
def mmrFuel (q : QCfg α) (n : Nat) : Nat :=
  match q.mmrK with
  | none => n
  | some kk => if kk < 1 then n else if (n : Int) < kk then n else kk.toNat

/-- `maybe_apply_mmr` on the enabled path: `head ++ tail` of `mmr_reorder_full`. -/
def mmrApply (q : QCfg α) (items : List (FItem α)) : List (FItem α) :=
  let ms := toMItems items
  let r := mmrLoop (clampLam q) (mmrFuel q ms.length) [] (isort mLe ms)
  (r.1 ++ r.2).map (·.item)

/-- `maybe_apply_mmr(fused, qcfg)`: identity unless both `enabled` flags are set. -/
def maybeMmr (q : QCfg α) (items : List (FItem α)) : List (FItem α) :=
  if !q.enabled || !q.mmrEnabled then items else mmrApply q items

def orKeep {β : Type} (new old : List β) : List β := if new.isEmpty then old else new

/-- The `try:` block of fusion/MMR: returns `(retrieved, (q_mmr_used, maybe_apply_mmr was called))`;
a raise keeps what was already assigned. -/
def fusionBlock (q : QCfg α) (retrieved : List (Ep α)) : List (Ep α) × (Bool × Bool) :=
  if !q.enabled then (retrieved, false, false) else
  if q.failFuse then (retrieved, false, false) else
  let fusedItems := fuse q (itemsForFusion retrieved)
  let r1 := orKeep (rebuild retrieved fusedItems) retrieved
  if !q.mmrEnabled then (r1, false, false) else
  if q.failMmr1 then (r1, false, true) else
  let mm := maybeMmr q fusedItems
  (orKeep (rebuild r1 mm) r1, true, true)

/-- The fallback MMR block; `failNow` = this call of `maybe_apply_mmr` raises. -/
def mmrFallback (q : QCfg α) (failNow : Bool) (retrieved : List (Ep α)) : List (Ep α) :=
  if !q.mmrEnabled then retrieved else
  if failNow then retrieved else
  orKeep (rebuild retrieved (maybeMmr q (itemsForFusion retrieved))) retrieved

structure QOut (α : Type) where
  items : List (Ep α)
  hybridUsed : Bool

/-- `apply_quality`. -/
def applyQuality (h : HCfg α) (q : QCfg α) (retrieved : List (Ep α)) : QOut α :=
  let r0 : HOut (Ep α) :=
    if h.enabled then
      match hybrid h retrieved with
      | .ok o => o
      | .error _ => ⟨retrieved, false⟩
    else ⟨retrieved, false⟩
  let fb := fusionBlock q r0.items
  let r2 := if fb.2.1 then fb.1
            else mmrFallback q (if fb.2.2 then q.failMmr2 else q.failMmr1) fb.1
  ⟨r2, r0.used⟩

/-! ### Slice clamp and residual -/

def usedHits {β : Type} (t2k : Option Int) (l : List β) : List β :=
  match t2k with
  | none => l
  | some c => l.take (if c < 0 then 0 else c.toNat)

def lowerAscii (s : Str) : Str := s.map (fun c => if 65 ≤ c ∧ c ≤ 90 then c + 32 else c)

def isPrefix : Str → Str → Bool
  | [], _ => true
  | _ :: _, [] => false
  | a :: as, b :: bs => a == b && isPrefix as bs

/-- Python `needle in hay`. -/
def isInfix (needle : Str) : Str → Bool
  | [] => needle.isEmpty
  | b :: bs => isPrefix needle (b :: bs) || isInfix needle bs

/-- dict assignment `d[k] = v` on an insertion-ordered association list. -/
def dictSet (d : List (Str × Str)) (k v : Str) : List (Str × Str) :=
  if d.any (fun p => p.1 == k) then d.map (fun p => if p.1 == k then (k, v) else p)
  else d ++ [(k, v)]

structure GNode where
  id : Str
  label : Str      -- `[]` for a missing / empty label
deriving Inhabited

def nodeLe (a b : GNode) : Bool := lexLe a.id b.id

/-- `build_label_map`: active graphs in order, nodes by sorted id, `out[label.lower()] = id`. -/
def labelMap (graphs : List (List GNode)) : List (Str × Str) :=
  graphs.foldl (fun d g =>
    (isort nodeLe g).foldl (fun d n =>
      if n.label.isEmpty then d else dictSet d (lowerAscii n.label) n.id) d) []

def resInner (cap : Int) (tLow : Str) : List (Str × Str) → List Str → List Str
  | [], ch => ch
  | p :: rest, ch =>
    if !p.1.isEmpty && isInfix p.1 tLow && !ch.contains p.2 then
      if cap ≤ ((ch ++ [p.2]).length : Int) then ch ++ [p.2] else resInner cap tLow rest (ch ++ [p.2])
    else resInner cap tLow rest ch

def resOuter (cap : Int) (lm : List (Str × Str)) : List (Ep α) → List Str → List Str
  | [], ch => ch
  | e :: es, ch =>
    if cap ≤ (ch.length : Int) then ch else
    let ch' := resInner cap (lowerAscii e.text) lm ch
    if cap ≤ (ch'.length : Int) then ch' else resOuter cap lm es ch'

/-- The residual loop as it was BEFORE `proposed_fixes/C11_residual_cap_zero.diff` (the cap is only
tested after an append / after an episode): kept for the machine-checked witness that the
unpatched code exceeds `residual_cap_per_turn = 0`. Not executed by the driver. -/
def resOuterUnpatched (cap : Int) (lm : List (Str × Str)) : List (Ep α) → List Str → List Str
  | [], ch => ch
  | e :: es, ch =>
    let ch' := resInner cap (lowerAscii e.text) lm ch
    if cap ≤ (ch'.length : Int) then ch' else resOuterUnpatched cap lm es ch'

def dedup : List Str → List Str
  | [] => []
  | x :: xs => if xs.contains x then dedup xs else x :: dedup xs

/-- `sorted(set(chosen_nodes))`. -/
def residual (cap : Int) (graphs : List (List GNode)) (used : List (Ep α)) : List Str :=
  isort lexLe (dedup (resOuter cap (labelMap graphs) used []))

/-! ### The stage -/

structure Out (α : Type) where
  retrieved : List (Ep α)
  pre : List (Ep α × α)       -- after the final sort, before the rerank layers
  tierSeq : List Nat
  used : List (Ep α)
  residual : List Str
  hybridUsed : Bool

def t2 (c : Cfg α) (tiers : List Nat) (eps : List (Ep α)) (h : HCfg α) (q : QCfg α)
    (t2k : Option Int) (cap : Int) (graphs : List (List GNode)) : Out α :=
  let core := retrieveCore c tiers eps
  let qo := applyQuality h q (core.1.map (·.1))
  let used := usedHits t2k qo.items
  ⟨qo.items, core.1, if core.2.isEmpty then tiers else core.2, used, residual cap graphs used,
   qo.hybridUsed⟩

end

end Clem.T2
