/-
Model of `clematis/engine/util/parallel.py:run_parallel`.

Import-free and executable: the driver (`Driver/HPar.lean`) runs exactly these
definitions, the theorems in `Clem/Props/C09.lean` are about exactly these.

* A task is `(key, outcome)` where `outcome : Except E R` is what the thunk does when it is
  run (`Except.error e` = raises `Exception` with `(type name, message) = e`).  Thunks are pure.
* The executor is modelled by a *completion order* `π : List Nat` (task indices in the order in
  which their futures complete).  `complete` produces the completion log; `futResult` is
  `Future.result()` — a lookup in that log.  The collection loop of the code reads the futures
  in *submit* order (`for idx, k, fut in futures: fut.result()`), exactly as `collect` does.
  A future that never completes makes `result()` block for ever; `collect` skips it, and every
  theorem assumes that `π` covers all task indices (`Covers`).
* `eff_workers = max(1, min(max_workers, n))` only sizes the pool; which interleavings a pool of
  that size can produce is subsumed by the arbitrary `π`.
* `order_key` enters as `kle a b` = `order_key(a) <= order_key(b)`; the code sorts by the tuple
  `(order_key(k), idx)` (parallel path, results and errors) and by `(order_key(k),)` with the
  stable `list.sort` (sequential path).
* `merge_fn` is a pure function `List (K × R) → A`.
-/
import Clem.Py.Sort

namespace Clem.Par

open Clem.Py

structure Item (K X : Type) where
  idx : Nat
  key : K
  val : X
deriving Repr, DecidableEq

/-- `enumerate(tasks)` starting at `i`. -/
def enumerate {K X : Type} (i : Nat) : List (K × X) → List (Item K X)
  | [] => []
  | (k, x) :: t => ⟨i, k, x⟩ :: enumerate (i + 1) t

/-- key of the sequential path's `results.sort(key=lambda kr: (order_key(kr[0]),))`. -/
def leK {K X : Type} (kle : K → K → Bool) (a b : Item K X) : Bool := kle a.key b.key

/-- tuple comparison `(order_key(ka), ia) <= (order_key(kb), ib)`:
equal order keys (`≤` both ways) fall through to the submit index. -/
def leKI {K X : Type} (kle : K → K → Bool) (a b : Item K X) : Bool :=
  kle a.key b.key && (!(kle b.key a.key) || decide (a.idx ≤ b.idx))

def strip {K X : Type} (l : List (Item K X)) : List (K × X) := l.map (fun it => (it.key, it.val))

/-- The executor: the thunk of every index in `π` is run and its future completed, in that order. -/
def complete {K E R : Type} (its : List (Item K (Except E R))) (π : List Nat) :
    List (Nat × Except E R) :=
  π.filterMap (fun i => (its.find? (fun t => t.idx == i)).map (fun t => (i, t.val)))

/-- `Future.result()` of the future submitted at index `i`. -/
def futResult {E R : Type} (log : List (Nat × Except E R)) (i : Nat) : Option (Except E R) :=
  log.lookup i

structure Coll (K E R : Type) where
  results : List (Item K R)
  errors : List (Item K E)

/-- The collection loop: futures are read in submit order. -/
def collect {K E R : Type} (log : List (Nat × Except E R)) :
    List (Item K (Except E R)) → Coll K E R
  | [] => ⟨[], []⟩
  | it :: rest =>
    let c := collect log rest
    match futResult log it.idx with
    | some (.ok r) => ⟨⟨it.idx, it.key, r⟩ :: c.results, c.errors⟩
    | some (.error e) => ⟨c.results, ⟨it.idx, it.key, e⟩ :: c.errors⟩
    | none => c

/-- The `max_workers <= 1` loop: run thunks one after the other, stop at the first exception. -/
def seqLoop {K E R : Type} : List (Item K (Except E R)) → Except (K × E) (List (Item K R))
  | [] => .ok []
  | it :: rest =>
    match it.val with
    | .error e => .error (it.key, e)
    | .ok r =>
      match seqLoop rest with
      | .error x => .error x
      | .ok l => .ok (⟨it.idx, it.key, r⟩ :: l)

/-- What the caller of `run_parallel` observes: the merged value, or `ParallelError(errors)`. -/
inductive Out (K E A : Type) where
  | ok : A → Out K E A
  | parErr : List (K × E) → Out K E A
deriving Repr, DecidableEq

def runParallel {K E R A : Type} (kle : K → K → Bool) (merge : List (K × R) → A)
    (maxWorkers : Int) (tasks : List (K × Except E R)) (π : List Nat) : Out K E A :=
  let its := enumerate 0 tasks
  if tasks.length = 0 then .ok (merge [])
  else if maxWorkers ≤ 1 then
    match seqLoop its with
    | .error x => .parErr [x]
    | .ok l => .ok (merge (strip (isort (leK kle) l)))
  else
    let c := collect (complete its π) its
    if c.errors.isEmpty then .ok (merge (strip (isort (leKI kle) c.results)))
    else .parErr (strip (isort (leKI kle) c.errors))

/-! ### Specification-side definitions (what the theorems compare against) -/

/-- `(key, result)` of the tasks that succeed, in submit order. -/
def okPairs {K E R : Type} : List (K × Except E R) → List (K × R)
  | [] => []
  | (k, .ok r) :: t => (k, r) :: okPairs t
  | (_, .error _) :: t => okPairs t

/-- `(key, error)` of the tasks that fail, in submit order. -/
def failPairs {K E R : Type} : List (K × Except E R) → List (K × E)
  | [] => []
  | (_, .ok _) :: t => failPairs t
  | (k, .error e) :: t => (k, e) :: failPairs t

/-- stable sort of `(key, x)` pairs by `order_key(key)`. -/
def sortPairs {K X : Type} (kle : K → K → Bool) (l : List (K × X)) : List (K × X) :=
  isort (fun a b => kle a.1 b.1) l

/-- A plain Python loop: call the thunks in order (the first exception aborts and is reported
alone), stable-sort the `(key, result)` pairs by `order_key`, merge. -/
def plainLoop {K E R A : Type} (kle : K → K → Bool) (merge : List (K × R) → A)
    (tasks : List (K × Except E R)) : Out K E A :=
  match failPairs tasks with
  | f :: _ => .parErr [f]
  | [] => .ok (merge (sortPairs kle (okPairs tasks)))

/-- every task's future completes. -/
def Covers (n : Nat) (π : List Nat) : Prop := ∀ i, i < n → i ∈ π

/-! ### Decidable monitors (evaluated by the driver on implementation outputs) -/

/-- the implementation's observable for a run without failures equals `merge` of the stable
key-sorted results; with failures and >1 worker, all failures stable-sorted by key; with ≤1 worker
the first failure alone.  `spec` is the schedule-free reference the theorems prove `runParallel`
equal to. -/
def spec {K E R A : Type} (kle : K → K → Bool) (merge : List (K × R) → A)
    (maxWorkers : Int) (tasks : List (K × Except E R)) : Out K E A :=
  if tasks.length = 0 then .ok (merge [])
  else if maxWorkers ≤ 1 then plainLoop kle merge tasks
  else match failPairs tasks with
    | [] => .ok (merge (sortPairs kle (okPairs tasks)))
    | fs => .parErr (sortPairs kle fs)

end Clem.Par
