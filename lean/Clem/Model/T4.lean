/-
Executable model of `clematis/engine/stages/t4.py` (whole file): the meta-filter `t4_filter`.

Written once, generic in the number carrier `Num α` (DESIGN §2.3): the driver runs it at `Float`
(bit-exact against the real `t4_filter`), `Clem/Props/C03*.lean` proves the safety envelope about
the *same definitions* at any ordered field, with `sqrt` a parameter.

Python as written (quirks kept):
* `_combine_by_ckey`: dict in insertion order keyed by `_canonical_key` = the tuple
  `(f"{kind}:{id}:{attr}", kind, id, attr)` (string order as documented, injective in the target),
  first-listed exemplar keeps kind/id/attr, the contributions to a key
  are collected and summed in ascending order of value (`_sum_canonical`, fix
  `proposed_fixes/C03_combine_sum_canonical_order.diff`), `_min_optional_int` on `op_idx`/`idx`,
  output `sorted` by the string key.
* `_collect_blocked_ops`: empty kind skipped, falsy cooldown skipped, `isinstance(last_t, int)`,
  `turn - last_t < int(cd)`.
* `_novelty_clamp`: `cap = abs(cap)`, strict `mag > cap`, sign test `d.delta > 0`.
* `_l2_scale`: `norm = _l2_norm(deltas)` (`s` accumulated from `0.0` left to right; hypot-style
  fallback below `2^-512`), `norm <= cap or norm == 0.0` keeps the list.
* `_churn_cap`: `n <= k` keeps the list *unsorted*; otherwise stable sort by the tuple
  `(-abs(delta), ckey)` and slice `[:k]` (negative `k` slices from the end, as Python does).
* final `sorted(approved, key=ckey)`; reasons in pipeline order; metrics.
Strings are code-point lists (`Str`), `str` comparison = lexicographic on code points.
-/
import Clem.Py.Sort
import Clem.Py.Num

namespace Clem.T4
open Clem.Py

abbrev Str := List Nat

structure Delta (α : Type) where
  kind : Str
  id : Str
  attr : Str
  delta : α
  opIdx : Option Int
  idx : Option Int

/-- Everything `t4_filter` reads, after the shape plumbing (`_get_cfg`, `_get_plan_*`,
`_get_last_turn_map`, `_get_op_kind`) has been resolved by the harness. -/
structure Input (α : Type) where
  deltas : List (Delta α)
  /-- `_get_op_kind(ops, i)` for each op (`[]` = empty string). -/
  ops : List Str
  /-- `cfg["cooldowns"]` items. -/
  cooldowns : List (Str × Int)
  /-- `state.meta.cooldowns` items; `none` = value present but not an `int`. -/
  last : List (Str × Option Int)
  /-- the attributes among `turn_id, turn, current_turn` present on `ctx`, in that order;
  `none` = `int(...)` raised. -/
  turns : List (Option Int)
  capL2 : α
  capNov : α
  k : Int

variable {α : Type}

/-- the display string `f"{kind}:{id}:{attr}"` (58 = `:`) — the documented sort order -/
def skey (d : Delta α) : Str := d.kind ++ 58 :: (d.id ++ 58 :: d.attr)

/-- every code point shifted by one, so that `0` is free as a separator below every symbol -/
def enc (s : Str) : Str := s.map (· + 1)

/-- `_canonical_key`: the tuple `(f"{kind}:{id}:{attr}", kind, id, attr)` (fix
`proposed_fixes/C03_t4_order_ckey-collision.diff`): ordered by the string as before, injective
in the target because the components follow it.  Python compares tuples component by component
(first difference under `==`, then `<`); flattening the components with a separator that sorts
below every symbol gives exactly that order under the code-point lexicographic `lexLe`, so the key
stays a `Str` and every order lemma about keys applies unchanged. -/
def ckey (d : Delta α) : Str :=
  enc (skey d) ++ 0 :: (enc d.kind ++ 0 :: (enc d.id ++ 0 :: enc d.attr))

def ckeyLe (a b : Delta α) : Bool := lexLe (ckey a) (ckey b)

/-- `_min_optional_int`. -/
def minOpt : Option Int → Option Int → Option Int
  | none, b => b
  | some a, none => some a
  | some a, some b => some (if a ≤ b then a else b)

/-- One more contribution `d` folded into the accumulator entry `e` (exemplar fields kept). -/
def merge [Num α] (e d : Delta α) : Delta α :=
  { e with delta := Num.add e.delta d.delta, opIdx := minOpt e.opIdx d.opIdx,
           idx := minOpt e.idx d.idx }

/-- `accum[ckey] = …` on an insertion-ordered dict. -/
def upd [Num α] : List (Delta α) → Delta α → List (Delta α)
  | [], d => [d]
  | e :: rest, d => if ckey e == ckey d then merge e d :: rest else e :: upd rest d

/-- The accumulator dict after the loop: one entry per string key in first-occurrence order, with the
first-listed exemplar's kind/id/attr and the `_min_optional_int` provenance.  (Its `delta` field is
the legacy left-to-right sum; the repaired code no longer uses it, see `canonEntry`.) -/
def combineAcc [Num α] (ds : List (Delta α)) : List (Delta α) := ds.foldl upd []

/-- `accum[ckey][0]`: the contributions `float(d.delta)` to one string key, in listing order. -/
def contribs (key : Str) (ds : List (Delta α)) : List α :=
  (ds.filter (fun d => ckey d == key)).map (·.delta)

/-- `_sum_canonical`: `ordered = sorted(vals); total = ordered[0]; for v in ordered[1:]: total += v`
(`sorted` = stable insertion sort on the carrier's `≤`; `vals` is never empty in `_combine_by_ckey`). -/
def sumSorted [Num α] (vs : List α) : α :=
  match isort Num.le vs with
  | [] => Num.zero
  | v :: rest => rest.foldl Num.add v

/-- `val = _sum_canonical(vals)` for the entry `e` of the accumulator. -/
def canonEntry [Num α] (ds : List (Delta α)) (e : Delta α) : Delta α :=
  { e with delta := sumSorted (contribs (ckey e) ds) }

/-- `_combine_by_ckey`. -/
def combine [Num α] (ds : List (Delta α)) : List (Delta α) :=
  isort ckeyLe ((combineAcc ds).map (canonEntry ds))

/-- `dict.get`. -/
def lookup {β : Type} (k : Str) : List (Str × β) → Option β
  | [] => none
  | (k', v) :: m => if k' == k then some v else lookup k m

/-- `_get_turn`. -/
def getTurn : List (Option Int) → Int
  | [] => 0
  | some t :: _ => t
  | none :: r => getTurn r

/-- Loop body of `_collect_blocked_ops` for an op of kind `kind`. -/
def opBlocked (cooldowns : List (Str × Int)) (last : List (Str × Option Int)) (turn : Int)
    (kind : Str) : Bool :=
  if kind.isEmpty then false else
  match lookup kind cooldowns with
  | none => false
  | some cd =>
    if cd == 0 then false else
    match lookup kind last with
    | some (some lt) => decide (turn - lt < cd)
    | _ => false

def blockedFrom (p : Str → Bool) (i : Nat) : List Str → List Nat
  | [] => []
  | k :: ks => if p k then i :: blockedFrom p (i + 1) ks else blockedFrom p (i + 1) ks

/-- `sorted(_collect_blocked_ops(...))`. -/
def blockedOps (inp : Input α) : List Nat :=
  blockedFrom (opBlocked inp.cooldowns inp.last (getTurn inp.turns)) 0 inp.ops

/-- `(d.op_idx is None) or (d.op_idx not in blocked_ops)`. -/
def notBlocked (blocked : List Nat) (d : Delta α) : Bool :=
  match d.opIdx with
  | none => true
  | some j => !(blocked.any (fun i => (i : Int) == j))

def rejectedOps (inp : Input α) : List (Str × Nat) :=
  (blockedOps inp).map (fun i => (inp.ops.getD i [], i))

def afterCd [Num α] (inp : Input α) : List (Delta α) :=
  (combine inp.deltas).filter (notBlocked (blockedOps inp))

/-- `mag > cap`. -/
def isClamped [Num α] (cap : α) (d : Delta α) : Bool := Num.lt cap (Num.abs d.delta)

def clamp1 [Num α] (cap : α) (d : Delta α) : Delta α :=
  if isClamped cap d then
    { d with delta := if Num.lt Num.zero d.delta then cap else Num.neg cap }
  else d

/-- `_novelty_clamp` (list part / count part). -/
def noveltyClamp [Num α] (ds : List (Delta α)) (cap0 : α) : List (Delta α) :=
  ds.map (clamp1 (Num.abs cap0))

def noveltyCount [Num α] (ds : List (Delta α)) (cap0 : α) : Nat :=
  (ds.filter (isClamped (Num.abs cap0))).length

def clamped [Num α] (inp : Input α) : List (Delta α) := noveltyClamp (afterCd inp) inp.capNov

/-- `s = 0.0; for d: s += d.delta * d.delta`. -/
def sumSq [Num α] (ds : List (Delta α)) : α :=
  ds.foldl (fun s d => Num.add s (Num.mul d.delta d.delta)) Num.zero

def scaleBy [Num α] (s : α) (d : Delta α) : Delta α := { d with delta := Num.mul d.delta s }

def sqr [Num α] (x : α) : α := Num.mul x x

/-- `_SUMSQ_TINY = 2.0 ** -512`, built from `1` and `2` by nine exact squarings of `1/2`
(bit-exact at `Float`; at an ordered field just some number — no proof depends on its value). -/
def tinySumSq [Num α] : α :=
  sqr (sqr (sqr (sqr (sqr (sqr (sqr (sqr (sqr (Num.div Num.one (Num.add Num.one Num.one))))))))))

/-- `m = 0.0; for d: a = abs(d.delta); if a > m: m = a` -/
def maxAbs [Num α] (ds : List (Delta α)) : α :=
  ds.foldl (fun m d => if Num.lt m (Num.abs d.delta) then Num.abs d.delta else m) Num.zero

/-- `t = 0.0; for d: r = d.delta / m; t += r * r` -/
def sumSqRel [Num α] (m : α) (ds : List (Delta α)) : α :=
  ds.foldl (fun t d => Num.add t (Num.mul (Num.div d.delta m) (Num.div d.delta m))) Num.zero

/-- `_l2_norm` (fix `proposed_fixes/C03_t4_l2_tiny-cap.diff`): the plain `sqrt(Σδ²)` whenever the sum
of squares is at least `2^-512` (bit-identical to the old code there), otherwise the largest
magnitude is factored out so the squares cannot underflow; `0` only when every delta is `0`. -/
def l2Norm [Num α] (sqrt : α → α) (ds : List (Delta α)) : α :=
  if Num.le tinySumSq (sumSq ds) then sqrt (sumSq ds)
  else if Num.beq (maxAbs ds) Num.zero then Num.zero
  else Num.mul (maxAbs ds) (sqrt (sumSqRel (maxAbs ds) ds))

/-- Does `_l2_scale` return its input unchanged? -/
def l2Keeps [Num α] (sqrt : α → α) (ds : List (Delta α)) (cap : α) : Bool :=
  ds.isEmpty || Num.le (l2Norm sqrt ds) cap || Num.beq (l2Norm sqrt ds) Num.zero

/-- `_l2_scale`, second component. -/
def l2Factor [Num α] (sqrt : α → α) (ds : List (Delta α)) (cap : α) : α :=
  if l2Keeps sqrt ds cap then Num.one else Num.div cap (l2Norm sqrt ds)

/-- `_l2_scale`, first component. -/
def l2Scale [Num α] (sqrt : α → α) (ds : List (Delta α)) (cap : α) : List (Delta α) :=
  if l2Keeps sqrt ds cap then ds else ds.map (scaleBy (Num.div cap (l2Norm sqrt ds)))

def scaled [Num α] (sqrt : α → α) (inp : Input α) : List (Delta α) :=
  l2Scale sqrt (clamped inp) inp.capL2

/-- Python `<` on the tuples `(-abs(float(delta)), ckey)`. -/
def rankLt [Num α] (a b : Delta α) : Bool :=
  if Num.beq (Num.neg (Num.abs a.delta)) (Num.neg (Num.abs b.delta)) then lexLt (ckey a) (ckey b)
  else Num.lt (Num.neg (Num.abs a.delta)) (Num.neg (Num.abs b.delta))

/-- "sorts no later than" for a sort that only ever asks `<`. -/
def rankLe [Num α] (a b : Delta α) : Bool := !(rankLt b a)

/-- `ranked[:k]` (Python slice semantics for negative `k`). -/
def sliceLen (n : Nat) (k : Int) : Nat := if 0 ≤ k then k.toNat else ((n : Int) + k).toNat

/-- `_churn_cap`, first component. -/
def churnCap [Num α] (ds : List (Delta α)) (k : Int) : List (Delta α) :=
  if (ds.length : Int) ≤ k then ds else (isort rankLe ds).take (sliceLen ds.length k)

/-- `_churn_cap`, second component. -/
def churnDropped (n : Nat) (k : Int) : Int := if (n : Int) ≤ k then 0 else (n : Int) - k

def kept [Num α] (sqrt : α → α) (inp : Input α) : List (Delta α) := churnCap (scaled sqrt inp) inp.k

/-- `T4Result.approved_deltas`. -/
def approved [Num α] (sqrt : α → α) (inp : Input α) : List (Delta α) := isort ckeyLe (kept sqrt inp)

structure Result (α : Type) where
  approved : List (Delta α)
  rejected : List (Str × Nat)
  /-- reasons, always in this order: COOLDOWN_BLOCKED, NOVELTY_SPIKE, DELTA_NORM_HIGH, CHURN_CAP_HIT -/
  rCooldown : Bool
  rNovelty : Bool
  rNorm : Bool
  rChurn : Bool
  nInput : Nat
  nAfterCd : Nat
  nAfterNov : Nat
  nAfterL2 : Nat
  nApproved : Nat
  droppedTail : Int
  noveltyClamped : Nat
  scale : α
  nBlocked : Nat

/-- `t4_filter`.  `thr` is the literal `0.999999`. -/
def t4 [Num α] (sqrt : α → α) (thr : α) (inp : Input α) : Result α :=
  { approved := approved sqrt inp
    rejected := rejectedOps inp
    rCooldown := !(blockedOps inp).isEmpty
    rNovelty := decide (0 < noveltyCount (afterCd inp) inp.capNov)
    rNorm := Num.lt (l2Factor sqrt (clamped inp) inp.capL2) thr
    rChurn := decide (0 < churnDropped (scaled sqrt inp).length inp.k)
    nInput := inp.deltas.length
    nAfterCd := (afterCd inp).length
    nAfterNov := (clamped inp).length
    nAfterL2 := (scaled sqrt inp).length
    nApproved := (kept sqrt inp).length
    droppedTail := churnDropped (scaled sqrt inp).length inp.k
    noveltyClamped := noveltyCount (afterCd inp) inp.capNov
    scale := l2Factor sqrt (clamped inp) inp.capL2
    nBlocked := (blockedOps inp).length }

/-! ## Monitors: the envelope predicates as `Bool`s, evaluated by the driver on the REAL
`T4Result` and proved `= true` of the model's own output in `Clem/Props/C03*.lean`. -/

def allPairs {β : Type} (r : β → β → Bool) : List β → Bool
  | [] => true
  | a :: l => l.all (r a) && allPairs r l

/-- at most one delta per target -/
def monUnique (out : List (Delta α)) : Bool := allPairs (fun a b => !(ckey a == ckey b)) out

/-- canonical target order (strict) -/
def monSorted (out : List (Delta α)) : Bool := allPairs (fun a b => lexLt (ckey a) (ckey b)) out

/-- each magnitude at most the novelty cap -/
def monNovelty [Num α] (cap : α) (out : List (Delta α)) : Bool :=
  out.all (fun d => Num.le (Num.abs d.delta) (Num.abs cap))

/-- overall L2 norm at most the cap: `Σ δ² ≤ cap²·(1+slack)`.  `slack = 0` is the exact statement
(a theorem at ordered fields); the driver uses a tiny positive slack at `Float` because the scaled
floats may overshoot by rounding (see the float-gap probe in `harness/props/c03.py`). -/
def monL2 [Num α] (slack cap : α) (out : List (Delta α)) : Bool :=
  Num.le (sumSq out) (Num.mul (Num.mul cap cap) (Num.add Num.one slack))

/-- at most churn-cap many -/
def monChurn (k : Int) (out : List (Delta α)) : Bool := decide ((out.length : Int) ≤ k)

/-- none originating (by recorded provenance) from an op in cooldown -/
def monCooldown (inp : Input α) (out : List (Delta α)) : Bool := out.all (notBlocked (blockedOps inp))

/-- only for targets that were proposed (same kind, id and attr as some proposed delta) -/
def monSubset (inp : Input α) (out : List (Delta α)) : Bool :=
  out.all (fun d => inp.deltas.any (fun d0 => d0.kind == d.kind && d0.id == d.id && d0.attr == d.attr))

/-- blocked operations are reported (exactly the ops in cooldown, ascending, with their kinds) -/
def monRejected (inp : Input α) (rej : List (Str × Nat)) : Bool := rej == rejectedOps inp

/-- keep top-K by magnitude: every approved delta is one of the candidates after scaling, and ranks
strictly before every candidate that was not approved, under `(-|Δ|, ckey)`. -/
def monTopK [Num α] (cands out : List (Delta α)) : Bool :=
  out.all (fun a => cands.any (fun c => ckey c == ckey a && Num.beq c.delta a.delta)) &&
  out.all (fun a => cands.all (fun c => out.any (fun o => ckey o == ckey c) || rankLt a c))

/-- relative closeness `|a-b| ≤ tol·(|a|+|b|)` -/
def closeTo [Num α] (tol a b : α) : Bool :=
  Num.le (Num.abs (Num.sub a b)) (Num.mul tol (Num.add (Num.abs a) (Num.abs b)))

/-- the result is the documented pipeline: same targets in the same order, same recorded provenance,
and the numbers of `spec` (the model's own `approved`) up to relative `tol` — so that a refactor that
only re-associates the float arithmetic is not alarmed, while a changed pipeline is. -/
def monPipeline [Num α] (tol : α) (spec out : List (Delta α)) : Bool :=
  spec.length == out.length &&
  (spec.zip out).all (fun p => p.1.kind == p.2.kind && p.1.id == p.2.id && p.1.attr == p.2.attr &&
    p.1.opIdx == p.2.opIdx && p.1.idx == p.2.idx && closeTo tol p.1.delta p.2.delta)

end Clem.T4
