/-
Executable model of `clematis/engine/stages/t1.py` (`_match_keywords`, `_compute_decay`,
`_t1_one_graph`, `t1_propagate`) and of what it reads from `clematis/graph/store.py`
(`get_graph(...).nodes`, `csr`).  Import-free apart from the Py prelude.

Mirrors the code as written:
* node ids are naturals (the driver maps the string ids to their rank under CPython's
  code-point order, so `<` on ids is `str.__lt__`); relation names are naturals (only compared);
* `heapq` with tuple keys `(-abs(w), id, id, w)` = extract-min of a list under the lexicographic
  key; `heapq.nsmallest(cap, pq)` = `take cap ∘ isort`;
* the while loop is structural recursion on fuel = `max 0 effective_queue_budget`;
* `if ring and …` / `if visited_lru and …` test `__len__` (both containers start empty, so the
  guards are false for ever — theorem `C12_perf_ring_visited_inert`); modelled with that truthiness;
* the seeding loop's `local_t1_frontier_evicted = ev` *assignment* (last seed wins) is kept;
* an absent / falsy `t1.decay` means defaults (`cfg_t1.get("decay", {}) or {}`); `stop = 2` is unreachable;
* besides deltas and counters the model returns an event log (pops, expansions, skips,
  relaxations with all operands, pushes) — the monotone history the theorems speak about.
-/
import Clem.Model.T1Num
import Clem.Py.Sort

namespace Clem.T1
open Num

/-! ## strings (ASCII model of `.lower()` and `in`) -/

def lowerC (c : Nat) : Nat := if 65 ≤ c ∧ c ≤ 90 then c + 32 else c
def lower (s : List Nat) : List Nat := s.map lowerC

def isPrefixB : List Nat → List Nat → Bool
  | [], _ => true
  | _ :: _, [] => false
  | a :: as, b :: bs => a == b && isPrefixB as bs

/-- Python `p in t` for strings. -/
def isInfixB (p : List Nat) : List Nat → Bool
  | [] => isPrefixB p []
  | b :: bs => isPrefixB p (b :: bs) || isInfixB p bs

/-! ## graph as read by T1 -/

structure Node where
  id : Nat
  /-- `[]` when the label is `None`/empty (both falsy) -/
  label : List Nat
  /-- `attrs["tags"]` entries that are `str` (non-strings are skipped by `isinstance`) -/
  tags : List (List Nat)

structure Edge (α : Type) where
  src : Nat
  dst : Nat
  weight : α
  rel : Nat

/-- `nodes` in `g.nodes.values()` order, `edges` in `g.edges.values()` order. -/
structure Graph (α : Type) where
  gid : Nat
  nodes : List Node
  edges : List (Edge α)

/-- `store.csr(gid)[u]` : out-edges of `u` in edge-dict order. -/
def outEdges {α : Type} (g : Graph α) (u : Nat) : List (Edge α) :=
  g.edges.filter (fun e => e.src == u)

/-! ## seeding -/

def nodeLabels (n : Node) : List (Nat × List Nat) :=
  (if n.label.isEmpty then [] else [(n.id, n.label)]) ++
    (n.tags.filter (fun kw => !kw.isEmpty)).map (fun kw => (n.id, kw))

def collectLabels {α : Type} (g : Graph α) : List (Nat × List Nat) :=
  g.nodes.flatMap nodeLabels

def labelLe (a b : Nat × List Nat) : Bool := Clem.Py.lexLe (lower a.2) (lower b.2)

def kwMatch (text : List Nat) (kw : List Nat) : Bool :=
  !kw.isEmpty && isInfixB (lower kw) (lower text)

def seedInsert (s : List Nat) (nid : Nat) : List Nat := if s.contains nid then s else s ++ [nid]

/-- `_match_keywords`: seed ids in dict-insertion order (every seed weight is `max(·, 1.0) = 1.0`). -/
def matchKeywords (text : List Nat) (labels : List (Nat × List Nat)) : List Nat :=
  (Clem.Py.isort labelLe labels).foldl
    (fun s p => if kwMatch text p.2 then seedInsert s p.1 else s) []

/-! ## configuration -/

structure DecayCfg (α : Type) where
  attnQuad : Bool
  rate : Option α
  floor : Option α
  alpha : Option α

structure Cfg (α : Type) where
  queueBudget : Int
  nodeBudget : α
  radiusCap : Int
  iterCap : Int
  iterCapLayers : Int
  relaxCap : Option Int
  sliceIters : Option Int
  slicePops : Option Int
  perfEnabled : Bool
  metricsEnabled : Bool
  frontierCap : Int
  visitedCap : Int
  dedupeWindow : Int
  decay : Option (DecayCfg α)
  edgeMult : List (Nat × α)
  eps : α
  cacheOn : Bool

def imin (a b : Int) : Int := if b < a then b else a

def effLayers {α : Type} (c : Cfg α) : Int :=
  let base := imin c.iterCapLayers c.iterCap
  match c.sliceIters with
  | none => base
  | some s => imin base s

def effQueue {α : Type} (c : Cfg α) : Int :=
  match c.slicePops with
  | none => c.queueBudget
  | some s => imin c.queueBudget s

def effFrontier {α : Type} (c : Cfg α) : Option Int :=
  if c.perfEnabled && decide (c.frontierCap > 0) then some (imin c.frontierCap (effQueue c)) else none

/-- Python `max(a, b)` (returns `a` unless `b > a`). -/
def pymax {α : Type} [Num α] (a b : α) : α := if lt a b then b else a

/-- `decay_cfg = cfg_t1.get("decay", {}) or {}`: an absent or falsy `t1.decay` means "all defaults". -/
def decayCfgOf {α : Type} (c : Cfg α) : DecayCfg α := c.decay.getD ⟨false, none, none, none⟩

/-- `_compute_decay` (exp_floor `max(rate**d, floor)` with defaults 0.6 / 0.05; attn_quad
`1/(1+alpha*d*d)` with default 0.8).  Total since the repair of the missing-`decay` KeyError; the
`Option` is kept so that the relaxation code path `none ⇒ stop = 2` stays expressible (never taken). -/
def decayOf {α : Type} [Num α] (c : Cfg α) (d : Nat) : Option α :=
  if (decayCfgOf c).attnQuad then
    some (div one (add one (mul ((decayCfgOf c).alpha.getD (ofDec 8 1)) (ofNat (d * d)))))
  else
    some (pymax (powNat ((decayCfgOf c).rate.getD (ofDec 6 1)) d) ((decayCfgOf c).floor.getD (ofDec 5 2)))

def multOf {α : Type} [Num α] (c : Cfg α) (rel : Nat) : α :=
  (c.edgeMult.lookup rel).getD (ofDec 6 1)

/-! ## heap -/

structure Item (α : Type) where
  k : α
  id : Nat
  w : α

/-- tuple `<` on `(k, id, id, w)` -/
def itemLt {α : Type} [Num α] (a b : Item α) : Bool :=
  lt a.k b.k || (!(lt b.k a.k) && (decide (a.id < b.id) || (a.id == b.id && lt a.w b.w)))

def itemLe {α : Type} [Num α] (a b : Item α) : Bool := !(itemLt b a)

/-- carry the current minimum `m`; returns (minimum, the other items). -/
def popMinAux {α : Type} [Num α] (m : Item α) : List (Item α) → Item α × List (Item α)
  | [] => (m, [])
  | x :: xs =>
    if itemLt x m then
      let r := popMinAux x xs
      (r.1, m :: r.2)
    else
      let r := popMinAux m xs
      (r.1, x :: r.2)

def popMin {α : Type} [Num α] : List (Item α) → Option (Item α × List (Item α))
  | [] => none
  | x :: xs => some (popMinAux x xs)

/-- `heappush` followed by the frontier-cap truncation; `some ev` when the cap fired. -/
def pushCap {α : Type} [Num α] (fc : Option Int) (pq : List (Item α)) (it : Item α) :
    List (Item α) × Option Int :=
  match fc with
  | none => (it :: pq, none)
  | some cap =>
    if ((pq.length + 1 : Nat) : Int) > cap then
      ((Clem.Py.isort itemLe (it :: pq)).take cap.toNat, some (((pq.length + 1 : Nat) : Int) - cap))
    else (it :: pq, none)

/-! ## dedupe ring / visited set (with `__len__` truthiness) -/

def ringHit (ring : Option (List Nat)) (x : Nat) : Bool :=
  match ring with
  | some q => !q.isEmpty && q.contains x
  | none => false

def ringAdd (k : Nat) (q : List Nat) (x : Nat) : List Nat := q.drop (q.length + 1 - k) ++ [x]

/-- `if ring: ring.add(x)` -/
def ringAddIf (k : Nat) (ring : Option (List Nat)) (x : Nat) : Option (List Nat) :=
  match ring with
  | some q => if q.isEmpty then some q else some (ringAdd k q x)
  | none => none

/-- `DeterministicLRUSet.add`: (new queue, evicted?) -/
def visitedAdd (cap : Nat) (q : List Nat) (x : Nat) : List Nat × Bool :=
  if q.contains x then (q, false)
  else ((q ++ [x]).drop (q.length + 1 - cap), decide (q.length + 1 > cap))

/-! ## state, events -/

structure LogE (α : Type) where
  src : Nat
  dst : Nat
  w : α
  weight : α
  rel : Nat
  mult : α
  dsrc : Nat
  d : Nat
  decay : α
  contrib : α
  accNew : α

inductive Ev (α : Type) where
  | seed (u : Nat)
  | pop (u : Nat) (w : α)
  | visitedSkip (u : Nat)
  | layerStop (u : Nat)
  | nodeHitPop (u : Nat) (a : α)
  | expand (u : Nat) (a : α)
  | radiusSkip (u v d : Nat)
  | layerSkip (u v d : Nat)
  | epsSkip (u v d : Nat) (c : α)
  | relax (e : LogE α)
  | nodeHitPush (v : Nat) (a : α)
  | dedupHit (v : Nat)
  | push (v : Nat) (c : α) (a : α)

structure St (α : Type) where
  pq : List (Item α)
  acc : List (Nat × α)
  dist : List (Nat × Nat)
  ring : Option (List Nat)
  visited : Option (List Nat)
  pops : Nat
  layersProcessed : Nat
  props : Nat
  layerHits : Nat
  radiusHits : Nat
  nodeHits : Nat
  maxDelta : α
  dedupHits : Nat
  visitedEv : Nat
  frontierEv : Int
  /-- newest first -/
  evs : List (Ev α)
  /-- 0 running, 1 relax cap reached, 2 KeyError 'decay' -/
  stop : Nat

def accGet {α : Type} [Num α] (acc : List (Nat × α)) (v : Nat) : α := (acc.lookup v).getD zero

/-- `acc[v] += c` on a `defaultdict(float)` (insertion order kept; missing = `0.0 + c`). -/
def accAdd {α : Type} [Num α] : List (Nat × α) → Nat → α → List (Nat × α)
  | [], v, c => [(v, add zero c)]
  | (k, x) :: r, v, c => if k = v then (k, add x c) :: r else (k, x) :: accAdd r v c

def distGet (dist : List (Nat × Nat)) (v : Nat) : Nat := (dist.lookup v).getD 0

def distSet : List (Nat × Nat) → Nat → Nat → List (Nat × Nat)
  | [], v, d => [(v, d)]
  | (k, x) :: r, v, d => if k = v then (k, d) :: r else (k, x) :: distSet r v d

/-- `if (v not in dist) or (d < dist[v]): dist[v] = d` -/
def distRelax (dist : List (Nat × Nat)) (v d : Nat) : List (Nat × Nat) :=
  match dist.lookup v with
  | none => distSet dist v d
  | some old => if d < old then distSet dist v d else dist

/-! ## seeding the queue -/

structure SeedSt (α : Type) where
  st : St α
  localDedup : Option Nat
  localFrontier : Option Int

def seedStep {α : Type} [Num α] (c : Cfg α) (s : SeedSt α) (nid : Nat) : SeedSt α :=
  let w : α := one
  let s1 : SeedSt α :=
    if ringHit s.st.ring nid then { s with localDedup := some 1 }
    else
      let r := pushCap (effFrontier c) s.st.pq ⟨neg (abs w), nid, w⟩
      { s with
        st := { s.st with
          pq := r.1
          ring := ringAddIf c.dedupeWindow.toNat s.st.ring nid }
        localFrontier := some (r.2.getD 0) }
  { s1 with
    st := { s1.st with
      acc := accAdd s1.st.acc nid w
      dist := distSet s1.st.dist nid 0
      maxDelta := pymax s1.st.maxDelta (abs w)
      evs := Ev.seed nid :: s1.st.evs } }

def st0 {α : Type} [Num α] (c : Cfg α) : St α :=
  { pq := [], acc := [], dist := []
    ring := if c.perfEnabled && decide (c.dedupeWindow > 0) then some [] else none
    visited := if c.perfEnabled && decide (c.visitedCap > 0) then some [] else none
    pops := 0, layersProcessed := 0, props := 0, layerHits := 0, radiusHits := 0, nodeHits := 0
    maxDelta := zero, dedupHits := 0, visitedEv := 0, frontierEv := 0, evs := [], stop := 0 }

def seedAll {α : Type} [Num α] (c : Cfg α) (seeds : List Nat) : St α :=
  let s := seeds.foldl (seedStep c) ⟨st0 c, none, none⟩
  { s.st with dedupHits := s.localDedup.getD 0, frontierEv := s.localFrontier.getD 0 }

/-! ## relaxation -/

def pushMain {α : Type} [Num α] (c : Cfg α) (st : St α) (it : Item α) (a : α) : St α :=
  if ringHit st.ring it.id then
    { st with dedupHits := st.dedupHits + 1, evs := Ev.dedupHit it.id :: st.evs }
  else
    let r := pushCap (effFrontier c) st.pq it
    { st with
      pq := r.1
      frontierEv := st.frontierEv + r.2.getD 0
      ring := ringAddIf c.dedupeWindow.toNat st.ring it.id
      evs := Ev.push it.id it.w a :: st.evs }

/-- `acc[v] += contrib; propagations += 1; max_delta; dist[v]` (+ the log entry) -/
def relaxed {α : Type} [Num α] (c : Cfg α) (st : St α) (e : Edge α) (u : Nat) (w : α)
    (dsrc d : Nat) (dec contrib : α) : St α :=
  { st with
    acc := accAdd st.acc e.dst contrib
    props := st.props + 1
    maxDelta := pymax st.maxDelta (abs contrib)
    dist := distRelax st.dist e.dst d
    evs := Ev.relax ⟨u, e.dst, w, e.weight, e.rel, multOf c e.rel, dsrc, d, dec, contrib,
                      accGet (accAdd st.acc e.dst contrib) e.dst⟩ :: st.evs }

/-- `if abs(acc[v]) < node_budget: push … else: node_budget_hits += 1` -/
def pushOrHit {α : Type} [Num α] (c : Cfg α) (st : St α) (v : Nat) (contrib : α) : St α :=
  if lt (abs (accGet st.acc v)) c.nodeBudget then
    pushMain c st ⟨neg (abs contrib), v, contrib⟩ (accGet st.acc v)
  else { st with nodeHits := st.nodeHits + 1, evs := Ev.nodeHitPush v (accGet st.acc v) :: st.evs }

/-- `if relax_cap is not None and propagations >= relax_cap: stop_relax = True; break` -/
def capCheck {α : Type} (c : Cfg α) (st : St α) : St α :=
  match c.relaxCap with
  | none => st
  | some r => if (st.props : Int) ≥ r then { st with stop := 1 } else st

/-- the part of one relaxation after `contrib` passed the EPS cut-off -/
def applyContrib {α : Type} [Num α] (c : Cfg α) (st : St α) (e : Edge α) (u : Nat) (w : α)
    (dsrc d : Nat) (dec contrib : α) : St α :=
  capCheck c (pushOrHit c (relaxed c st e u w dsrc d dec contrib) e.dst contrib)

/-- body of `for v, e in csr[u]` for one edge -/
def capReached {α : Type} (c : Cfg α) (st : St α) : Bool :=
  match c.relaxCap with
  | none => false
  | some r => decide ((st.props : Int) ≥ r)

def relaxEdge {α : Type} [Num α] (c : Cfg α) (u : Nat) (w : α) (st : St α) (e : Edge α) : St α :=
  let dsrc := distGet st.dist u
  let d := dsrc + 1
  -- `if relax_cap is not None and propagations >= relax_cap: stop_relax = True; break` (pre-check)
  if capReached c st then { st with stop := 1 }
  else if (d : Int) > c.radiusCap then
    { st with radiusHits := st.radiusHits + 1, evs := Ev.radiusSkip u e.dst d :: st.evs }
  else if (d : Int) > effLayers c then
    { st with layerHits := st.layerHits + 1, evs := Ev.layerSkip u e.dst d :: st.evs }
  else
    match decayOf c d with
    | none => { st with stop := 2 }
    | some dec =>
      let contrib := mul (mul (mul w e.weight) (multOf c e.rel)) dec
      if lt (abs contrib) c.eps then { st with evs := Ev.epsSkip u e.dst d contrib :: st.evs }
      else applyContrib c st e u w dsrc d dec contrib

def relaxAll {α : Type} [Num α] (c : Cfg α) (u : Nat) (w : α) : St α → List (Edge α) → St α
  | st, [] => st
  | st, e :: es =>
    let st' := relaxEdge c u w st e
    if st'.stop != 0 then st' else relaxAll c u w st' es

/-! ## one pop -/

def visitedHit (v : Option (List Nat)) (x : Nat) : Bool :=
  match v with
  | some q => !q.isEmpty && q.contains x
  | none => false

/-- `if visited_lru: if visited_lru.add(u): evicted += 1` -/
def visitedMark {α : Type} (c : Cfg α) (st : St α) (u : Nat) : St α :=
  match st.visited with
  | some q =>
    if q.isEmpty then st
    else
      let r := visitedAdd c.visitedCap.toNat q u
      { st with visited := some r.1, visitedEv := st.visitedEv + (if r.2 then 1 else 0) }
  | none => st

/-- the checks between `heappop` and the edge loop: new state and "expand?" -/
def gate {α : Type} [Num α] (c : Cfg α) (st : St α) (it : Item α) : St α × Bool :=
  if visitedHit st.visited it.id then ({ st with evs := Ev.visitedSkip it.id :: st.evs }, false)
  else
    let st1 := visitedMark c st it.id
    let layer := distGet st1.dist it.id
    let newLayer : Bool := decide (layer > 0) && decide (layer > st1.layersProcessed)
    let st2 : St α := if newLayer then { st1 with layersProcessed := layer } else st1
    if newLayer && decide ((layer : Int) > effLayers c) then
      ({ st2 with evs := Ev.layerStop it.id :: st2.evs }, false)
    else if le c.nodeBudget (abs (accGet st2.acc it.id)) then
      ({ st2 with nodeHits := st2.nodeHits + 1
                  evs := Ev.nodeHitPop it.id (accGet st2.acc it.id) :: st2.evs }, false)
    else
      ({ st2 with evs := Ev.expand it.id (accGet st2.acc it.id) :: st2.evs }, true)

/-- the `heappop` bookkeeping -/
def popped {α : Type} (st : St α) (it : Item α) (rest : List (Item α)) : St α :=
  { st with pq := rest, pops := st.pops + 1, evs := Ev.pop it.id it.w :: st.evs }

/-- everything after `heappop` for the popped item -/
def afterPop {α : Type} [Num α] (c : Cfg α) (g : Graph α) (st : St α) (it : Item α) : St α :=
  let r := gate c st it
  if r.2 then relaxAll c it.id it.w r.1 (outEdges g it.id) else r.1

def popStep {α : Type} [Num α] (c : Cfg α) (g : Graph α) (st : St α) : St α :=
  match popMin st.pq with
  | none => st
  | some r =>
    afterPop c g (popped st r.1 r.2) r.1

/-- `while pq and pops < effective_queue_budget`, fuel = remaining pops. -/
def loop {α : Type} [Num α] (c : Cfg α) (g : Graph α) : Nat → St α → St α
  | 0, st => st
  | fuel + 1, st =>
    if st.pq.isEmpty then st
    else
      let st' := popStep c g st
      if st'.stop != 0 then st' else loop c g fuel st'

/-! ## one graph -/

def idLe {α : Type} (a b : Nat × α) : Bool := decide (a.1 ≤ b.1)

def deltasOf {α : Type} [Num α] (c : Cfg α) (acc : List (Nat × α)) : List Nat :=
  ((Clem.Py.isort idLe acc).filter (fun kv => !(lt (abs kv.2) c.eps))).map (·.1)

structure GRes (α : Type) where
  deltas : List Nat
  pops : Nat
  iters : Int
  props : Nat
  radiusHits : Nat
  layerHits : Nat
  nodeHits : Nat
  maxDelta : α
  frontierEv : Int
  dedupHits : Nat
  visitedEv : Nat
  err : Bool
  cached : Bool
  seeds : List Nat
  final : St α
  /-- the per-graph effective caps this result was computed under (part of the result-cache key:
  `policy_caps["queue_budget"]`, `policy_caps["iter_cap_layers"]`) -/
  capQ : Int := 0
  capL : Int := 0

def seedsOf {α : Type} (g : Graph α) (text : List Nat) : List Nat :=
  matchKeywords text (collectLabels g)

def finalSt {α : Type} [Num α] (c : Cfg α) (g : Graph α) (text : List Nat) : St α :=
  loop c g (effQueue c).toNat (seedAll c (seedsOf g text))

def oneGraph {α : Type} [Num α] (c : Cfg α) (g : Graph α) (text : List Nat) : GRes α :=
  let seeds := seedsOf g text
  let st := finalSt c g text
  if seeds.isEmpty then
    { deltas := [], pops := 0, iters := 0, props := 0, radiusHits := 0, layerHits := 0, nodeHits := 0
      maxDelta := zero, frontierEv := 0, dedupHits := 0, visitedEv := 0, err := false, cached := false, seeds := []
      final := st0 c, capQ := effQueue c, capL := effLayers c }
  else
    { deltas := deltasOf c st.acc
      pops := st.pops
      iters := imin (st.layersProcessed : Int) (effLayers c)
      props := st.props
      radiusHits := st.radiusHits
      layerHits := st.layerHits
      nodeHits := st.nodeHits
      maxDelta := st.maxDelta
      frontierEv := st.frontierEv
      dedupHits := st.dedupHits
      visitedEv := st.visitedEv
      err := st.stop == 2
      cached := false
      seeds := seeds
      final := st
      capQ := effQueue c
      capL := effLayers c }

/-! ## all active graphs (sequential path; the legacy result cache keyed by gid within one call) -/

structure Tot (α : Type) where
  deltas : List (Nat × Nat)
  pops : Nat
  iters : Int
  props : Nat
  radiusHits : Nat
  layerHits : Nat
  nodeHits : Nat
  maxDelta : α
  cacheHits : Nat
  cacheMisses : Nat
  frontierEv : Int
  dedupHits : Nat
  visitedEv : Nat
  err : Bool
  cache : List (Nat × GRes α)
  per : List (GRes α)

def tot0 {α : Type} [Num α] : Tot α :=
  { deltas := [], pops := 0, iters := 0, props := 0, radiusHits := 0, layerHits := 0, nodeHits := 0
    maxDelta := zero, cacheHits := 0, cacheMisses := 0, frontierEv := 0, dedupHits := 0, visitedEv := 0
    err := false, cache := [], per := [] }

def lookupG {α : Type} (l : List (Nat × GRes α)) (gid : Nat) : Option (GRes α) :=
  match l with
  | [] => none
  | (k, r) :: rest => if k = gid then some r else lookupG rest gid

/-- the slice budgets left for the next graph: `int(slice_t1_pops) - total_pops`,
`int(slice_t1_iters) - total_iters` (an absent slice budget stays absent: the configured caps apply) -/
def leftCfg {α : Type} (c : Cfg α) (t : Tot α) : Cfg α :=
  { c with slicePops := c.slicePops.map (fun s => s - (t.pops : Int)),
           sliceIters := c.sliceIters.map (fun s => s - t.iters) }

/-- result-cache lookup: the key holds the graph and the effective caps of this graph's run -/
def lookupGC {α : Type} (l : List (Nat × GRes α)) (gid : Nat) (q lay : Int) : Option (GRes α) :=
  match l with
  | [] => none
  | (k, r) :: rest => if k = gid && r.capQ == q && r.capL == lay then some r else lookupGC rest gid q lay

def addGraph {α : Type} [Num α] (c0 : Cfg α) (text : List Nat) (t : Tot α) (g : Graph α) : Tot α :=
  if t.err then t else
  let c := leftCfg c0 t
  let fresh := oneGraph c g text
  let hit : Option (GRes α) :=
    if c.cacheOn && !fresh.seeds.isEmpty then lookupGC t.cache g.gid (effQueue c) (effLayers c) else none
  let isHit := hit.isSome
  let r : GRes α := match hit with
    | some h => { h with maxDelta := zero, frontierEv := 0, dedupHits := 0, visitedEv := 0, cached := true }
    | none => fresh
  let miss : Bool := c.cacheOn && !fresh.seeds.isEmpty && !isHit
  let gate := c.perfEnabled && c.metricsEnabled
  { deltas := t.deltas ++ r.deltas.map (fun n => (g.gid, n))
    pops := t.pops + r.pops
    iters := t.iters + r.iters
    props := t.props + r.props
    radiusHits := t.radiusHits + r.radiusHits
    layerHits := t.layerHits + r.layerHits
    nodeHits := t.nodeHits + r.nodeHits
    maxDelta := pymax t.maxDelta r.maxDelta
    cacheHits := t.cacheHits + (if isHit then 1 else 0)
    cacheMisses := t.cacheMisses + (if miss then 1 else 0)
    frontierEv := if gate then t.frontierEv + r.frontierEv else t.frontierEv
    dedupHits := if gate then t.dedupHits + r.dedupHits else t.dedupHits
    visitedEv := if gate then t.visitedEv + r.visitedEv else t.visitedEv
    err := r.err
    cache := if miss && !r.err then t.cache ++ [(g.gid, r)] else t.cache
    per := t.per ++ [r] }

/-- `t1_propagate` over the active graphs in order. -/
def t1 {α : Type} [Num α] (c : Cfg α) (gs : List (Graph α)) (text : List Nat) : Tot α :=
  gs.foldl (addGraph c text) tot0

end Clem.T1

namespace Clem.T1
open Num

/-! ## monitors (Boolean predicates evaluated by the driver on implementation outputs) -/

def strictAsc : List Nat → Bool
  | [] => true
  | [_] => true
  | a :: b :: r => decide (a < b) && strictAsc (b :: r)

/-- deltas are strictly ascending ids and are exactly the accumulator keys with `|acc| ≥ EPS`. -/
def outputOk {α : Type} [Num α] (c : Cfg α) (acc : List (Nat × α)) (deltas : List Nat) : Bool :=
  strictAsc deltas &&
  deltas.all (fun id => acc.any (fun kv => kv.1 == id && !(lt (abs kv.2) c.eps))) &&
  acc.all (fun kv => lt (abs kv.2) c.eps || deltas.contains kv.1)

def imax (a b : Int) : Int := if a < b then b else a

/-- pops / layers / relaxation budgets of one graph. -/
def budgetOk {α : Type} (c : Cfg α) (pops : Nat) (iters : Int) (props : Nat) : Bool :=
  decide ((pops : Int) ≤ imax 0 (effQueue c)) && decide (iters ≤ imax 0 (effLayers c)) &&
  (match c.relaxCap with
   | some r => decide ((props : Int) ≤ imax r 0)
   | none => true)

/-- the spreading rule for one pushed contribution `(v, contrib)` during the expansion of a
popped `(u, w)`: some out-edge `u → v` and some admissible distance `d` explain it exactly. -/
def pushRuleOk {α : Type} [Num α] (c : Cfg α) (g : Graph α) (u : Nat) (w : α) (v : Nat) (contrib : α) : Bool :=
  !(lt (abs contrib) c.eps) &&
  (outEdges g u).any (fun e => e.dst == v &&
    (List.range (imin c.radiusCap (effLayers c)).toNat).any (fun d0 =>
      match decayOf c (d0 + 1) with
      | some dec => eqb contrib (mul (mul (mul w e.weight) (multOf c e.rel)) dec)
      | none => false))

/-- heap trace events as observed on the implementation: `(isPop, node, value)`. -/
def traceRuleOk {α : Type} [Num α] (c : Cfg α) (g : Graph α) :
    Option (Nat × α) → List (Bool × Nat × α) → Bool
  | _, [] => true
  | _, (true, u, w) :: rest => traceRuleOk c g (some (u, w)) rest
  | none, (false, _, _) :: rest => traceRuleOk c g none rest
  | some (u, w), (false, v, x) :: rest => pushRuleOk c g u w v x && traceRuleOk c g (some (u, w)) rest

end Clem.T1

namespace Clem.T1
open Num

/-- seeds monitor: the observed seed set equals `{n | some keyword of n occurs in the text}`
(seeds may also be ids of nodes listed in `g.nodes` only — every label belongs to a node). -/
def seedSpec {α : Type} (g : Graph α) (text : List Nat) (nid : Nat) : Bool :=
  (collectLabels g).any (fun p => p.1 == nid && kwMatch text p.2)

def seedsOk {α : Type} (g : Graph α) (text : List Nat) (seeds : List Nat) : Bool :=
  seeds.all (seedSpec g text) && g.nodes.all (fun n => !(seedSpec g text n.id) || seeds.contains n.id)

/-- observable projection of a log event onto the heap trace: `(isPop, node, value)` -/
def projEv {α : Type} : Ev α → Option (Bool × Nat × α)
  | Ev.pop u w => some (true, u, w)
  | Ev.push v c _ => some (false, v, c)
  | _ => none

/-- chronological heap trace of a run's log (the log is newest-first) -/
def heapTraceOf {α : Type} (evs : List (Ev α)) : List (Bool × Nat × α) :=
  evs.reverse.filterMap projEv

/-! ## trace monitor

The decidable reflection of the history predicates (`EvOK`, `ReachInv` in `Clem/Proofs`) on the events
that can be observed on the real code without hooks: heap pops / pushes (with operands), calls of
`_compute_decay` (distance) and writes to the accumulator (new value).  The monitor rebuilds `acc` and
`dist` from the observed events with the model's own `accAdd` / `distRelax` and checks every event
against the rule. -/

inductive TEv (α : Type) where
  | pop (u : Nat) (w : α)
  | push (v : Nat) (c : α)
  | decay (d : Nat)
  | acc (v : Nat) (x : α)

structure TSt (α : Type) where
  acc : List (Nat × α)
  dist : List (Nat × Nat)
  /-- the queue rebuilt from the observed pushes (with the frontier-cap truncation) -/
  pq : List (Item α)
  cur : Option (Nat × α)
  /-- accumulator of the popped node at pop time (the value the node-budget gate saw) -/
  gateAcc : α
  lastD : Option Nat
  /-- relaxation just made, waiting for its push / node-budget hit: the node and every contribution over an
  out-edge `u → v` that explains the observed accumulator write (parallel edges / float absorption can
  make several candidates indistinguishable at the accumulator) -/
  pending : Option (Nat × List α)
  /-- seed just pushed, waiting for its accumulator write -/
  seedPending : Option Nat
  /-- relaxations so far -/
  props : Nat

def tst0 {α : Type} [Num α] : TSt α :=
  { acc := [], dist := [], pq := [], cur := none, gateAcc := zero, lastD := none, pending := none,
    seedPending := none, props := 0 }

/-- remove one queued `(u, w)` (representation equality on `w`) -/
def takeItem {α : Type} [Num α] (u : Nat) (w : α) : List (Nat × α) → Option (List (Nat × α))
  | [] => none
  | (v, x) :: r =>
    if v == u && eqb x w then some r
    else match takeItem u w r with
      | some r' => some ((v, x) :: r')
      | none => none

/-- a relaxation whose push is still pending must have hit the node budget -/
def pendingOk {α : Type} [Num α] (c : Cfg α) (s : TSt α) : Bool :=
  match s.pending with
  | none => true
  | some (v, _) => !(lt (abs (accGet s.acc v)) c.nodeBudget)

def candContribs {α : Type} [Num α] (c : Cfg α) (acc : List (Nat × α)) (w dec x : α) (v : Nat) :
    List (Edge α) → List α
  | [] => []
  | e :: es =>
    let contrib := mul (mul (mul w e.weight) (multOf c e.rel)) dec
    if e.dst == v && !(lt (abs contrib) c.eps) && eqb x (accGet (accAdd acc v contrib) v) then
      contrib :: candContribs c acc w dec x v es
    else candContribs c acc w dec x v es

def traceStep {α : Type} [Num α] (c : Cfg α) (g : Graph α) (s : TSt α) : TEv α → Option (TSt α)
  | TEv.pop u w =>
    if !(pendingOk c s) || s.seedPending.isSome then none else
    -- the popped pair must be the extract-min of the queue under the tuple key (max |w|, then id, then w)
    match popMin s.pq with
    | none => none
    | some r =>
      if r.1.id == u && eqb r.1.w w then
        some { s with pq := r.2, cur := some (u, w), gateAcc := accGet s.acc u, lastD := none, pending := none }
      else none
  | TEv.push v x =>
    match s.cur with
    | none =>
      -- seeding: weight 1.0
      if eqb x one && !s.seedPending.isSome then
        some { s with pq := (pushCap (effFrontier c) s.pq ⟨neg (abs x), v, x⟩).1, seedPending := some v }
      else none
    | some _ =>
      match s.pending with
      | some (v', xs) =>
        if v' == v && xs.any (fun x' => eqb x x') && lt (abs (accGet s.acc v)) c.nodeBudget then
          some { s with pq := (pushCap (effFrontier c) s.pq ⟨neg (abs x), v, x⟩).1, pending := none }
        else none
      | none => none
  | TEv.decay d =>
    match s.cur with
    | none => none
    | some (u, _) =>
      if pendingOk c s && d == distGet s.dist u + 1 && decide ((d : Int) ≤ c.radiusCap)
          && decide ((d : Int) ≤ effLayers c) && (decayOf c d).isSome
          && !(le c.nodeBudget (abs s.gateAcc))
          && (match c.relaxCap with | some r => decide ((s.props : Int) < r) | none => true) then
        some { s with lastD := some d, pending := none }
      else none
  | TEv.acc v x =>
    match s.cur with
    | none =>
      -- seeding: `acc[nid] += 1.0`, `dist[nid] = 0` (with the frontier cap a seed may be written unpushed)
      let acc' := accAdd s.acc v one
      if eqb x (accGet acc' v) && (s.seedPending == some v || s.seedPending == none) then
        some { s with acc := acc', dist := distSet s.dist v 0, seedPending := none }
      else none
    | some (u, w) =>
      match s.lastD with
      | none => none
      | some d =>
        match decayOf c d with
        | none => none
        | some dec =>
          match candContribs c s.acc w dec x v (outEdges g u) with
          | [] => none
          | contrib :: more =>
            some { s with acc := accAdd s.acc v contrib, dist := distRelax s.dist v d, lastD := none,
                          pending := some (v, contrib :: more), props := s.props + 1 }

def traceRun {α : Type} [Num α] (c : Cfg α) (g : Graph α) : TSt α → List (TEv α) → Option (TSt α)
  | s, [] => some s
  | s, e :: es =>
    match traceStep c g s e with
    | none => none
    | some s' => traceRun c g s' es

/-- index of the first offending event (`none` = the whole trace is valid) -/
def traceBad {α : Type} [Num α] (c : Cfg α) (g : Graph α) : TSt α → List (TEv α) → Nat → Option Nat
  | s, [], i => if pendingOk c s then none else some i
  | s, e :: es, i =>
    match traceStep c g s e with
    | none => some i
    | some s' => traceBad c g s' es (i + 1)

end Clem.T1
