/-
Cache transparency, generically (property C05).

A *cache semantics* is any state machine with `get`, `put` and arbitrary "other"
operations (clock ticks, TTL expiry, eviction, `clear`, `invalidate`, byte-cap
rejection …) for which one can name a relation `holds s k v` ("`get k` could
return `v` in state `s`") such that

* a hit returns something that `holds`,
* `get` and the other operations never add to `holds`,
* `put k v` adds at most `(k, v)`.

That abstracts recency order, TTLs, entry/byte caps and the disabled mode: every
concrete container of the code base is an instance (proved in
`Clem/Proofs/KeySuff.lean` for `LRUBytes`; the TTL/LRU containers are instances
the same way).

A stage `f : X → V` is run behind a cache with key function `key : X → K`, where
`X` is *everything the stage reads* (request, configuration, and the part of the
state it consults).  `runCached` is the code pattern used by T1, T2 and the
orchestrator (`hit → return it; miss → compute, put, return`).

Import-free: the driver can execute `runCached` for any concrete instance.
-/
namespace Clem.KeySuff

structure CacheSem (σ K V : Type) where
  get : σ → K → σ × Option V
  put : σ → K → V → σ
  other : σ → Nat → σ
  holds : σ → K → V → Prop
  get_hit : ∀ s k v, (get s k).2 = some v → holds s k v
  get_mono : ∀ s k k' v', holds (get s k).1 k' v' → holds s k' v'
  put_mono : ∀ s k v k' v', holds (put s k v) k' v' → holds s k' v' ∨ (k' = k ∧ v' = v)
  other_mono : ∀ s t k' v', holds (other s t) k' v' → holds s k' v'

/-- One event of a history: a stage request, or any other cache operation. -/
inductive Ev (X : Type) where
  | req (x : X)
  | other (t : Nat)

variable {σ K V X : Type}

/-- `hit → return; miss → compute, put, return` -/
def stepCached (C : CacheSem σ K V) (key : X → K) (f : X → V) (s : σ) : Ev X → σ × Option V
  | .req x =>
    let r := C.get s (key x)
    match r.2 with
    | some v => (r.1, some v)
    | none => (C.put r.1 (key x) (f x), some (f x))
  | .other t => (C.other s t, none)

def runCached (C : CacheSem σ K V) (key : X → K) (f : X → V) : σ → List (Ev X) → List (Option V)
  | _, [] => []
  | s, e :: es =>
    let r := stepCached C key f s e
    r.2 :: runCached C key f r.1 es

def stepUncached (f : X → V) : Ev X → Option V
  | .req x => some (f x)
  | .other _ => none

def runUncached (f : X → V) (es : List (Ev X)) : List (Option V) := es.map (stepUncached f)

/-- The key determines the result. -/
def Sufficient (key : X → K) (f : X → V) : Prop := ∀ x x', key x = key x' → f x = f x'

/-- Everything retrievable was computed by `f` from an input with that key. -/
def Good (C : CacheSem σ K V) (key : X → K) (f : X → V) (s : σ) : Prop :=
  ∀ k v, C.holds s k v → ∃ x, key x = k ∧ f x = v

end Clem.KeySuff
