/-
Model of `clematis/engine/cache.py`: `_NamespaceCache` (OrderedDict LRU with TTL on
read), the `LRUCache` shim and the namespaced `CacheManager`.

Import-free and executable: the driver runs exactly these definitions, the theorems
in `Clem/Props/C15/TtlLru.lean` are about exactly these definitions.

* The `OrderedDict` is the list of its entries in iteration order (oldest → newest).
* The clock is *injected*: every operation carries the reading `now` that the
  `time_fn` returns during that call (the harness installs a scripted clock; all
  readings within one call are equal).  Readings and TTL are integers (`Int`), in
  any order (the clock may stand still or run backwards).
* `max` is an `Int`: the code stores `int(max_entries)` and a negative value makes
  `_evict_over_cap` pop from an empty `OrderedDict` (`KeyError`); `set` then returns
  `none` (= raised) after having emptied the dict, exactly as the Python does.
* `ttl` is an `Int`; the code's test is `self._ttl and (now - ts) > self._ttl`, so a
  negative TTL expires everything whose age exceeds it.
* Keys and values are `Nat` (the harness maps the *normalised* key
  `_hashable_or_stable(key)` of each Python key to a natural).
-/
namespace Clem.TtlLru

structure Entry where
  key : Nat
  ts : Int
  val : Nat
deriving Repr, DecidableEq, Inhabited

/-- `_NamespaceCache`. -/
structure Ns where
  max : Int
  ttl : Int
  items : List Entry
deriving Repr, DecidableEq, Inhabited

def lookup (k : Nat) (l : List Entry) : Option Entry := l.find? (fun e => e.key == k)

def without (k : Nat) (l : List Entry) : List Entry := l.filter (fun e => e.key != k)

/-- `self._ttl and (now - ent.ts) > self._ttl`. -/
def expired (ttl now ts : Int) : Bool := ttl != 0 && decide (ttl < now - ts)

namespace Ns

def init (max ttl : Int) : Ns := ⟨max, ttl, []⟩

/-- `_NamespaceCache.get`: miss / expired → removed and miss / hit → moved to the MRU end. -/
def get (s : Ns) (now : Int) (k : Nat) : Ns × Option Nat :=
  match lookup k s.items with
  | none => (s, none)
  | some e =>
    if expired s.ttl now e.ts then ({ s with items := without k s.items }, none)
    else ({ s with items := without k s.items ++ [e] }, some e.val)

/-- `_evict_over_cap`: pop the oldest while `len > max`; returns survivors and the count.
On `[]` with a negative `max` the Python `popitem` raises `KeyError` (see `set`). -/
def evictOver (max : Int) : List Entry → List Entry × Nat
  | [] => ([], 0)
  | e :: es =>
    if max < ((e :: es).length : Int) then
      let r := evictOver max es
      (r.1, r.2 + 1)
    else (e :: es, 0)

/-- `_NamespaceCache.set`: (re)insert at the MRU end with a fresh timestamp, evict over cap.
Result `none` = `KeyError` raised (only when `max < 0`; the dict has been emptied). -/
def set (s : Ns) (now : Int) (k v : Nat) : Ns × Option Nat :=
  let r := evictOver s.max (without k s.items ++ [⟨k, now, v⟩])
  ({ s with items := r.1 }, if s.max < 0 then none else some r.2)

def invalidate (s : Ns) : Ns × Nat := ({ s with items := [] }, s.items.length)

def size (s : Ns) : Nat := s.items.length

/-- `LRUCache.__contains__`: TTL prune on read, recency untouched. -/
def contains (s : Ns) (now : Int) (k : Nat) : Ns × Bool :=
  match lookup k s.items with
  | none => (s, false)
  | some e =>
    if expired s.ttl now e.ts then ({ s with items := without k s.items }, false)
    else (s, true)

/-- `LRUCache.items`: drop every expired entry, keep the order of the others. -/
def prune (s : Ns) (now : Int) : Ns :=
  { s with items := s.items.filter (fun e => !expired s.ttl now e.ts) }

/-- Decidable monitor: unique keys and (for a non-negative cap) `len ≤ max`. -/
def invB (s : Ns) : Bool :=
  decide ((s.items.map Entry.key).Nodup) && (decide (s.max < 0) || decide ((s.items.length : Int) ≤ s.max))

end Ns

/-! ### `LRUCache` shim: one namespace + counters -/

structure Lru where
  ns : Ns
  hits : Nat
  misses : Nat
  evicted : Nat
deriving Repr, DecidableEq, Inhabited

inductive Op where
  | get (now : Int) (k : Nat)        -- `get` and `get2` (same state change)
  | set (now : Int) (k v : Nat)      -- `set` / `put`
  | contains (now : Int) (k : Nat)
  | items (now : Int)
  | invalidate                       -- `invalidate` / `clear`
deriving Repr, DecidableEq

namespace Lru

def init (max ttl : Int) : Lru := ⟨Ns.init max ttl, 0, 0, 0⟩

/-- Constructor argument resolution of the shim: `capacity` beats `max_entries`;
`ttl` beats `ttl_sec` beats `ttl_s` beats the default 600 (`is not None` tests, so 0 counts). -/
def effMax (capacity : Option Int) (maxEntries : Int) : Int := capacity.getD maxEntries

def effTtl (ttl ttlSec ttlS : Option Int) : Int :=
  match ttl with
  | some t => t
  | none => match ttlSec with
    | some t => t
    | none => ttlS.getD 600

def get (c : Lru) (now : Int) (k : Nat) : Lru × Option Nat :=
  let r := c.ns.get now k
  match r.2 with
  | some v => ({ c with ns := r.1, hits := c.hits + 1 }, some v)
  | none => ({ c with ns := r.1, misses := c.misses + 1 }, none)

/-- `set`: the eviction counter is only bumped when `ns.set` returns (no `KeyError`). -/
def set (c : Lru) (now : Int) (k v : Nat) : Lru × Option Nat :=
  let r := c.ns.set now k v
  match r.2 with
  | some n => ({ c with ns := r.1, evicted := c.evicted + n }, some n)
  | none => ({ c with ns := r.1 }, none)

def contains (c : Lru) (now : Int) (k : Nat) : Lru × Bool :=
  let r := c.ns.contains now k
  ({ c with ns := r.1 }, r.2)

def items (c : Lru) (now : Int) : Lru × List Entry :=
  let n := c.ns.prune now
  ({ c with ns := n }, n.items)

def invalidate (c : Lru) : Lru × Nat :=
  let r := c.ns.invalidate
  ({ c with ns := r.1 }, r.2)

def step (c : Lru) : Op → Lru
  | .get now k => (c.get now k).1
  | .set now k v => (c.set now k v).1
  | .contains now k => (c.contains now k).1
  | .items now => (c.items now).1
  | .invalidate => c.invalidate.1

def run (c : Lru) (ops : List Op) : Lru := ops.foldl step c

end Lru

def Op.isGet : Op → Bool
  | .get _ _ => true
  | _ => false

/-! ### `CacheManager`: namespaces created on first use, shared counters -/

structure Mgr where
  max : Int
  ttl : Int
  nss : List (Nat × Ns)       -- namespace id ↦ cache, in creation order
  hits : Nat
  misses : Nat
  evicted : Nat
deriving Repr, DecidableEq, Inhabited

inductive MOp where
  | get (ns : Nat) (now : Int) (k : Nat)
  | set (ns : Nat) (now : Int) (k v : Nat)
  | invalidateNs (ns : Nat)
  | invalidateAll
deriving Repr, DecidableEq

namespace Mgr

def init (max ttl : Int) : Mgr := ⟨max, ttl, [], 0, 0, 0⟩

def find (n : Nat) (l : List (Nat × Ns)) : Option Ns := (l.find? (fun p => p.1 == n)).map (·.2)

/-- Replace the cache of namespace `n` (append when new: `self._ns[namespace] = ns`). -/
def store (n : Nat) (c : Ns) : List (Nat × Ns) → List (Nat × Ns)
  | [] => [(n, c)]
  | p :: ps => if p.1 == n then (n, c) :: ps else p :: store n c ps

/-- `_ns_obj`: the namespace's cache, a fresh one if absent. -/
def nsObj (m : Mgr) (n : Nat) : Ns := (find n m.nss).getD (Ns.init m.max m.ttl)

def get (m : Mgr) (n : Nat) (now : Int) (k : Nat) : Mgr × Option Nat :=
  let r := (m.nsObj n).get now k
  match r.2 with
  | some v => ({ m with nss := store n r.1 m.nss, hits := m.hits + 1 }, some v)
  | none => ({ m with nss := store n r.1 m.nss, misses := m.misses + 1 }, none)

def set (m : Mgr) (n : Nat) (now : Int) (k v : Nat) : Mgr × Option Nat :=
  let r := (m.nsObj n).set now k v
  match r.2 with
  | some e => ({ m with nss := store n r.1 m.nss, evicted := m.evicted + e }, some e)
  | none => ({ m with nss := store n r.1 m.nss }, none)

/-- `invalidate_namespace`: an unknown namespace is *not* created. -/
def invalidateNs (m : Mgr) (n : Nat) : Mgr × Nat :=
  match find n m.nss with
  | none => (m, 0)
  | some c => ({ m with nss := store n c.invalidate.1 m.nss }, c.invalidate.2)

def invalidateAll (m : Mgr) : Mgr × Nat :=
  ({ m with nss := m.nss.map (fun p => (p.1, p.2.invalidate.1)) },
   (m.nss.map (fun p => p.2.invalidate.2)).sum)

/-- `stats["size"]`: sum of the namespace sizes. -/
def size (m : Mgr) : Nat := (m.nss.map (fun p => p.2.size)).sum

def step (m : Mgr) : MOp → Mgr
  | .get n now k => (m.get n now k).1
  | .set n now k v => (m.set n now k v).1
  | .invalidateNs n => (m.invalidateNs n).1
  | .invalidateAll => m.invalidateAll.1

def run (m : Mgr) (ops : List MOp) : Mgr := ops.foldl step m

def invB (m : Mgr) : Bool :=
  decide ((m.nss.map (·.1)).Nodup) &&
  m.nss.all (fun p => p.2.invB && p.2.max == m.max && p.2.ttl == m.ttl)

end Mgr

def MOp.isGet : MOp → Bool
  | .get _ _ _ => true
  | _ => false

end Clem.TtlLru
