/-
Model of `clematis/io/atomic.py` (`_make_tmp`, `atomic_write_bytes`, `atomic_replace`,
`_fsync_best_effort`) as a *program over an abstract directory*, interpreted against a
fault script.

Import-free and executable: the driver runs exactly these definitions, the theorems in
`Clem/Props/C08.lean` are about exactly these definitions.

* A directory is an association list `name ↦ content`.  The destination holds *complete*
  contents only because nothing but `rename` ever writes to it (that is the theorem); the
  temp file is an ordinary entry whose content may be partial.
* Every I/O call the Python code makes is one primitive `Step`.  A script `σ : List Outcome`
  gives the outcome of the 1st, 2nd, … executed primitive step (`ok`, `err errno`, `crash`
  = the process dies *instead of* executing the step, `short k` = a raw `write(2)` that
  accepts only `k` bytes); when the script is exhausted every further step is `ok`.
* The result records the final directory, the way the call ended, the trace of executed
  primitive steps with their outcomes, and the directory as it was at every step boundary
  (`hist`) — what a concurrent reader could observe.
* `rename` is atomic (assumption): `renameF` is one step.

Python conventions modelled as written:
  - `_make_tmp` runs *outside* the `try` of `atomic_write_bytes` (no cleanup if it raises);
  - the `with open(tmp,"wb",buffering=0)` block closes the file on the way out of an
    exception (a `close` step happens before cleanup);
  - `final.stat()` on a missing destination raises (→ default-permission `chmod`);
  - `atomic_replace`: `PermissionError`/`EACCES`/`EPERM`/`EBUSY` are retried (at most
    `retries` attempts in total), anything else breaks out; afterwards `tmp.exists()` →
    `tmp.unlink()` and `raise last_err` from a `finally` (so the last replace error wins);
    with `retries = 0` the loop body never runs, the temp is unlinked and the function
    *returns normally*;
  - the outer `except Exception` handler runs `exists`/`unlink` again, then re-raises;
  - fsync of the target and of the parent directory after a successful replace are
    best effort (`except Exception: pass`);
  - `loopW = true` is the repaired write loop (`while view: n = f.write(view) …`, a zero-length
    write raises); `loopW = false` is the pinned tree's single unchecked `f.write(data)`.
-/
namespace Clem.Atomic

abbrev Bytes := List Nat
abbrev Name := List Nat
abbrev Dir := List (Name × Bytes)

def getF : Dir → Name → Option Bytes
  | [], _ => none
  | (k, v) :: t, n => if k = n then some v else getF t n

def delF : Dir → Name → Dir
  | [], _ => []
  | (k, v) :: t, n => if k = n then delF t n else (k, v) :: delF t n

def setF (d : Dir) (n : Name) (c : Bytes) : Dir := (n, c) :: delF d n

/-- `write` appends to the (already truncated) temp file. -/
def appendF (d : Dir) (n : Name) (c : Bytes) : Dir := setF d n ((getF d n).getD [] ++ c)

/-- POSIX `rename(src, dst)`: one atomic step. -/
def renameF (d : Dir) (src dst : Name) : Dir :=
  match getF d src with
  | some c => setF (delF d src) dst c
  | none => d

inductive Outcome where
  | ok
  | err (c : Nat)
  | crash
  | short (k : Nat)
deriving DecidableEq, Repr, Inhabited

inductive Step where
  | mkdir | mktemp | openw | write | flush | fsync | close | stat | chmod
  | replace | opent | fsynct | closet | opend | fsyncd | closed | exists | unlink
deriving DecidableEq, Repr, Inhabited

inductive Status where
  | returned | raised | crashed
deriving DecidableEq, Repr, Inhabited

structure Res where
  status : Status
  fs : Dir
  hist : List Dir
  trace : List (Step × Outcome)
deriving Repr, Inhabited

def hd (σ : List Outcome) : Outcome := σ.headD .ok

def fin (st : Status) (fs : Dir) : Res := ⟨st, fs, [], []⟩

/-- one executed primitive step: the directory before it and its outcome are recorded. -/
def pre (fs : Dir) (s : Step) (o : Outcome) (r : Res) : Res :=
  { r with hist := fs :: r.hist, trace := (s, o) :: r.trace }

/-- A primitive step that does not itself change the directory: crash ends the run,
an error goes to `kErr`, anything else counts as success. -/
def step (fs : Dir) (s : Step) (σ : List Outcome)
    (kOk : List Outcome → Res) (kErr : Nat → List Outcome → Res) : Res :=
  match hd σ with
  | .crash => pre fs s .crash (fin .crashed fs)
  | .err c => pre fs s (.err c) (kErr c σ.tail)
  | _ => pre fs s .ok (kOk σ.tail)

/-- best-effort step (`try: … except Exception: pass`). -/
def stepBE (fs : Dir) (s : Step) (σ : List Outcome) (k : List Outcome → Res) : Res :=
  step fs s σ k (fun _ σ' => k σ')

def EACCES : Nat := 13
def EPERM : Nat := 1
def EBUSY : Nat := 16
def ENOENT : Nat := 2
def EIO : Nat := 5

/-- errnos that `pathlib._ignore_error` treats as "does not exist". -/
def ignorable (c : Nat) : Bool := c == 2 || c == 20 || c == 9 || c == 40

/-- `except PermissionError` ∪ `e.errno in {EACCES, EPERM, EBUSY}`. -/
def retryable (c : Nat) : Bool := c == 13 || c == 1 || c == 16

/-- `try: if tmp.exists(): tmp.unlink() finally: raise` -/
def cleanup (tmp : Name) (fs : Dir) (σ : List Outcome) : Res :=
  step fs .exists σ
    (fun σ1 =>
      if (getF fs tmp).isSome then
        step fs .unlink σ1 (fun _ => fin .raised (delF fs tmp)) (fun _ _ => fin .raised fs)
      else fin .raised fs)
    (fun _ _ => fin .raised fs)

/-- leaving the `with open(tmp, "wb")` block through an exception: close, then cleanup. -/
def closeThenCleanup (tmp : Name) (fs : Dir) (σ : List Outcome) : Res :=
  stepBE fs .close σ (cleanup tmp fs)

/-- `_fsync_best_effort(final.parent)` and normal return. -/
def dirSync (fs : Dir) (σ : List Outcome) : Res :=
  step fs .opend σ
    (fun σ1 => stepBE fs .fsyncd σ1 (fun σ2 => stepBE fs .closed σ2 (fun _ => fin .returned fs)))
    (fun _ _ => fin .returned fs)

/-- after a successful `os.replace`: best-effort fsync of the target, then of the directory. -/
def afterReplace (fs : Dir) (σ : List Outcome) : Res :=
  step fs .opent σ
    (fun σ1 => stepBE fs .fsynct σ1 (fun σ2 => stepBE fs .closet σ2 (dirSync fs)))
    (fun _ σ1 => dirSync fs σ1)

/-- the code after the retry loop of `atomic_replace`; `kRaise` is what happens to an
exception leaving `atomic_replace` (`cleanup` inside `atomic_write_bytes`). -/
def postLoop (kRaise : Dir → List Outcome → Res) (tmp : Name) (last : Option Nat)
    (fs : Dir) (σ : List Outcome) : Res :=
  step fs .exists σ
    (fun σ1 =>
      if (getF fs tmp).isSome then
        step fs .unlink σ1
          (fun σ2 => if last.isSome then kRaise (delF fs tmp) σ2 else fin .returned (delF fs tmp))
          (fun _ σ2 => kRaise fs σ2)
      else if last.isSome then kRaise fs σ1 else fin .returned fs)
    (fun c σ1 =>
      -- `Path.exists()` swallows ENOENT/ENOTDIR/EBADF/ELOOP (answers False), re-raises anything else
      if ignorable c && !last.isSome then fin .returned fs else kRaise fs σ1)

/-- the `for _ in range(retries)` loop of `atomic_replace` (`n` = attempts left). -/
def replaceLoop (kRaise : Dir → List Outcome → Res) (tmp dest : Name) :
    Nat → Option Nat → Dir → List Outcome → Res
  | 0, last, fs, σ => postLoop kRaise tmp last fs σ
  | n + 1, _, fs, σ =>
    match hd σ with
    | .crash => pre fs .replace .crash (fin .crashed fs)
    | .err c =>
      pre fs .replace (.err c)
        (if retryable c then replaceLoop kRaise tmp dest n (some c) fs σ.tail
         else postLoop kRaise tmp (some c) fs σ.tail)
    | _ =>
      if (getF fs tmp).isSome then
        pre fs .replace .ok (afterReplace (renameF fs tmp dest) σ.tail)
      else
        -- the source vanished: the real call fails with ENOENT (not retryable)
        pre fs .replace (.err 2) (postLoop kRaise tmp (some 2) fs σ.tail)

/-- `atomic_replace(tmp, final, retries=…)`: `mkdir(parents)` then the loop. -/
def atomicReplace (kRaise : Dir → List Outcome → Res) (retries : Nat) (tmp dest : Name)
    (fs : Dir) (σ : List Outcome) : Res :=
  step fs .mkdir σ (replaceLoop kRaise tmp dest retries none fs) (fun _ σ1 => kRaise fs σ1)

/-- stand-alone `atomic_replace` (as `scripts/rotate_logs.py` uses it): an exception just
propagates. -/
def atomicReplaceAlone (retries : Nat) (src dst : Name) (fs : Dir) (σ : List Outcome) : Res :=
  atomicReplace (fun fs _ => fin .raised fs) retries src dst fs σ

/-- permission preservation (`final.stat()` / `os.chmod`), never raises. -/
def permPhase (dest : Name) (fs : Dir) (σ : List Outcome) (k : List Outcome → Res) : Res :=
  match hd σ with
  | .crash => pre fs .stat .crash (fin .crashed fs)
  | .err c => pre fs .stat (.err c) (stepBE fs .chmod σ.tail k)
  | _ =>
    if (getF fs dest).isSome then
      pre fs .stat .ok (step fs .chmod σ.tail k (fun _ σ2 => stepBE fs .chmod σ2 k))
    else
      pre fs .stat (.err 2) (stepBE fs .chmod σ.tail k)

/-- `f.flush(); os.fsync(f.fileno())`, leaving the `with` block, permissions, replace. -/
def syncPhase (retries : Nat) (tmp dest : Name) (fs : Dir) (σ : List Outcome) : Res :=
  step fs .flush σ
    (fun σ1 => step fs .fsync σ1
      (fun σ2 => step fs .close σ2
        (fun σ3 => permPhase dest fs σ3 (atomicReplace (cleanup tmp) retries tmp dest fs))
        (fun _ σ3 => cleanup tmp fs σ3))
      (fun _ σ2 => closeThenCleanup tmp fs σ2))
    (fun _ σ1 => closeThenCleanup tmp fs σ1)

/-- repaired write loop: `view = memoryview(data); while view: n = f.write(view);
if not n: raise OSError(EIO); view = view[n:]`.  Recursion on the script: once it is
exhausted the (single) remaining write succeeds completely. -/
def writeLoop (K : Dir → List Outcome → Res) (tmp : Name) : Bytes → Dir → List Outcome → Res
  | rem, fs, [] => if rem.isEmpty then K fs [] else pre fs .write .ok (K (appendF fs tmp rem) [])
  | rem, fs, o :: σ' =>
    if rem.isEmpty then K fs (o :: σ') else
    match o with
    | .crash => pre fs .write .crash (fin .crashed fs)
    | .err c => pre fs .write (.err c) (closeThenCleanup tmp fs σ')
    | .short k =>
      if min k rem.length = 0 then pre fs .write (.short 0) (closeThenCleanup tmp fs σ')
      else pre fs .write (.short (min k rem.length))
             (writeLoop K tmp (rem.drop (min k rem.length)) (appendF fs tmp (rem.take (min k rem.length))) σ')
    | .ok => pre fs .write .ok (K (appendF fs tmp rem) σ')

/-- pinned tree: one `f.write(data)` whose return value is ignored. -/
def writeOnce (K : Dir → List Outcome → Res) (tmp : Name) (rem : Bytes) (fs : Dir)
    (σ : List Outcome) : Res :=
  match hd σ with
  | .crash => pre fs .write .crash (fin .crashed fs)
  | .err c => pre fs .write (.err c) (closeThenCleanup tmp fs σ.tail)
  | .short k => pre fs .write (.short (min k rem.length)) (K (appendF fs tmp (rem.take (min k rem.length))) σ.tail)
  | .ok => pre fs .write .ok (K (appendF fs tmp rem) σ.tail)

def tmpName (dest r : Name) : Name := dest ++ 46 :: r

/-- `atomic_write_bytes(final, data)`; `r` is the random suffix chosen by `tempfile`. -/
def awb (loopW : Bool) (retries : Nat) (dest r : Name) (data : Bytes) (fs : Dir)
    (σ : List Outcome) : Res :=
  step fs .mkdir σ
    (fun σ1 => step fs .mktemp σ1
      (fun σ2 => step (setF fs (tmpName dest r) []) .openw σ2
        (fun σ3 =>
          if loopW then
            writeLoop (syncPhase retries (tmpName dest r) dest) (tmpName dest r) data
              (setF fs (tmpName dest r) []) σ3
          else
            writeOnce (syncPhase retries (tmpName dest r) dest) (tmpName dest r) data
              (setF fs (tmpName dest r) []) σ3)
        (fun _ σ3 => cleanup (tmpName dest r) (setF fs (tmpName dest r) []) σ3))
      (fun _ _ => fin .raised fs))
    (fun _ _ => fin .raised fs)

/-- the repaired `atomic_write_bytes` with the default `retries = 80`. -/
def atomicWriteBytes (dest r : Name) (data : Bytes) (fs : Dir) (σ : List Outcome) : Res :=
  awb true 80 dest r data fs σ

/-! ## Text / JSON wrappers: serialise completely, then `atomic_write_bytes` -/

/-- Outcome of turning the caller's value into bytes (`json.dumps`, CRLF normalisation,
`str.encode`): the complete byte string, or a *content failure* after `k` bytes of output had
been produced (lone surrogate → UnicodeEncodeError, unserialisable leaf → TypeError, reference
cycle → ValueError, illegal key, a generator raising mid-iteration). -/
inductive Ser where
  | done (data : Bytes)
  | contentFail (k : Nat)
deriving DecidableEq, Repr, Inhabited

/-- `atomic_write_text` / `atomic_write_json`: the whole document is serialised and encoded in
memory BEFORE `_make_tmp` runs, so a content failure happens before any FS step. -/
def writeSerialised (loopW : Bool) (retries : Nat) (dest r : Name) (s : Ser) (fs : Dir)
    (σ : List Outcome) : Res :=
  match s with
  | .contentFail _ => fin .raised fs
  | .done data => awb loopW retries dest r data fs σ

/-! ## Callers (`engine/snapshot.py`, `io/log.py`) -/

/-- `".meta"` -/
def metaSuffix : Name := [46, 109, 101, 116, 97]

/-- `_write_sidecar_meta`: `try: atomic_write_text(meta_path, …) except Exception: pass`. -/
def swallow (r : Res) : Res :=
  { r with status := if r.status = .raised then .returned else r.status }

/-- `_write_lines` / `write_snapshot`: the body through the helper (errors propagate), then the
best-effort sidecar `dest ++ ".meta"`; the script continues where the first call stopped. -/
def withSidecarL (loopW : Bool) (retries : Nat) (dest r1 r2 : Name) (data mdata : Bytes) (fs : Dir)
    (σ : List Outcome) : Res :=
  let a := awb loopW retries dest r1 data fs σ
  if a.status = .returned then
    let b := swallow (awb loopW retries (dest ++ metaSuffix) r2 mdata a.fs (σ.drop a.trace.length))
    ⟨b.status, b.fs, a.hist ++ b.hist, a.trace ++ b.trace⟩
  else a

/-- the repaired tree -/
def withSidecar (retries : Nat) (dest r1 r2 : Name) (data mdata : Bytes) (fs : Dir)
    (σ : List Outcome) : Res := withSidecarL true retries dest r1 r2 data mdata fs σ

/-! ## Monitors (decidable property predicates, evaluated on implementation outputs) -/

/-- all-or-nothing: the destination is the complete old or the complete new content. -/
def aonB (old : Option Bytes) (new : Bytes) (cur : Option Bytes) : Bool :=
  decide (cur = old ∨ cur = some new)

/-- a reader at any step boundary sees old or new. -/
def readerB (old : Option Bytes) (new : Bytes) (seen : List (Option Bytes)) : Bool :=
  seen.all (aonB old new)

/-- `returned` ⇒ the complete new content is installed. -/
def returnedNewB (st : Status) (new : Bytes) (cur : Option Bytes) : Bool :=
  decide (st = .returned → cur = some new)

/-- a step of the cleanup path that worked (`exists`/`unlink` did not fail). -/
def stepOk (e : Step × Outcome) : Bool :=
  match e with
  | (.unlink, .err _) => false
  | (.exists, .err _) => false
  | _ => true

def cleanupWorked (tr : List (Step × Outcome)) : Bool := tr.all stepOk

/-- a call that *raises* (and whose own `exists`/`unlink` calls worked), or returns, leaves
no entry besides the ones that were there and the destination. -/
def noTempB (st : Status) (tr : List (Step × Outcome)) (before : List Name) (dest : Name)
    (after : List Name) : Bool :=
  if st = .crashed then true
  else if st = .raised ∧ ¬ cleanupWorked tr then true
  else after.all (fun n => n = dest ∨ n ∈ before)

/-- the suffix after the last `.` of a name (`none` if there is no dot). -/
def lastSeg : Name → Option Name
  | [] => none
  | c :: t =>
    match lastSeg t with
    | some s => some s
    | none => if c = 46 then some t else none

/-- shape of a leftover temp: `dest ++ "." ++ r`, `r` dot-free of length 8. -/
def tempShapeB (dest n : Name) : Bool :=
  match lastSeg n with
  | some r => decide (n = dest ++ 46 :: r) && decide (r.length = 8)
  | none => false

/-- does `n` end with the pattern suffix `s`? -/
def endsWithB (n s : Name) : Bool := decide (s.length ≤ n.length) && decide (n.drop (n.length - s.length) = s)

/-- a leftover name is harmless w.r.t. a list of discovery suffixes: it is not the destination
and ends with none of the patterns. -/
def harmlessB (suffixes : List Name) (dest n : Name) : Bool :=
  decide (n ≠ dest) && suffixes.all (fun s => !endsWithB n s)

/-- retry discipline seen in a trace: a transient `replace` failure that is not the last
permitted attempt is followed by another `replace` attempt. -/
def retryB : Nat → List (Step × Outcome) → Bool
  | _, [] => true
  | n, (.replace, .err c) :: rest =>
    if retryable c && decide (1 < n) then
      (match rest with
       | (.replace, _) :: _ => true
       | _ => false) && retryB (n - 1) rest
    else retryB (n - 1) rest
  | n, _ :: rest => retryB n rest

end Clem.Atomic
