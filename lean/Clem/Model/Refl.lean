/-
Reflection (C19): executable model of

* `clematis/engine/stages/t3/reflect.py` — `_normalize`, `_truncate_tokens`, `_reflect_rulebased`,
  `_reflect_llm` (the fixture adapter's *lookup* is an oracle, its token clipping is modelled), `reflect`;
* `clematis/engine/orchestrator/reflection.py` — `write_reflection_entries` (second ops cap, index
  selection, per-entry add loop with fail-soft `except`), `_episode_id` (the sha256 digest is an
  oracle: the model returns the four id components), `_now_iso_from_ctx` (the logical clock);
* `clematis/engine/orchestrator/core.py` — `_safe_extract_snippets`, `_run_reflection_if_enabled`
  (dry-run / allow / plan-or-stashed-flag gates, error → empty result with reason, post-hoc wall
  budget with `elapsed` from a clock oracle, stash on `ctx`) and the reflection tail of `run_turn`
  (clear stale stash [the proposed repair; `clear = false` is the code as found], gate call inside
  `try`, write step, telemetry step) together with the two ways the tail is not reached
  (dry-run return after T4).

Strings are code-point lists (`Str`); ASCII semantics for `\s`, `\w`, `.lower()`, `.split()`.
`re.sub(r"\s+", " ", t)` and `re.sub(r"[^\w\s]+", " ", t)` are modelled as written (each maximal run
becomes one space), `.strip()` as written; `Clem/Proofs/Refl.lean` proves
`_WS_RE.sub(" ", t).strip() = " ".join(t.split())` (`normWs_eq`).  Checked exactly against the code on ASCII.
No imports: this file is linked into the driver.
-/
namespace Clem.Refl

abbrev Str := List Nat

/-! ## text -/

/-- ASCII members of Python's `\s` / `str.isspace` (TAB LF VT FF CR, FS GS RS US, SPACE). -/
def isWs (c : Nat) : Bool := c == 32 || (9 ≤ c && c ≤ 13) || (28 ≤ c && c ≤ 31)

/-- ASCII `\w`. -/
def isWord (c : Nat) : Bool :=
  (48 ≤ c && c ≤ 57) || (65 ≤ c && c ≤ 90) || (97 ≤ c && c ≤ 122) || c == 95

def lowerAscii (c : Nat) : Nat := if 65 ≤ c && c ≤ 90 then c + 32 else c

def consHead (c : Nat) : List Str → List Str
  | [] => [[c]]
  | w :: ws => (c :: w) :: ws

/-- `s.split(sep)` for a one-character separator class `p` (keeps empty pieces; never `[]`). -/
def splitBy (p : Nat → Bool) : Str → List Str
  | [] => [[]]
  | c :: cs => if p c then [] :: splitBy p cs else consHead c (splitBy p cs)

def isSp (c : Nat) : Bool := c == 32

/-- `text.split(" ")`. -/
def spSplit (s : Str) : List Str := splitBy isSp s

def nonEmpty (s : Str) : Bool := !s.isEmpty

/-- `text.split()`. -/
def wsSplit (s : Str) : List Str := (splitBy isWs s).filter nonEmpty

/-- `" ".join(parts)`. -/
def joinSp : List Str → Str
  | [] => []
  | [a] => a
  | a :: b :: r => a ++ 32 :: joinSp (b :: r)

/-- `len(s.split()) if s else 0` — the code's own `summary_len`. -/
def tokenCount (s : Str) : Nat := (wsSplit s).length

/-- `str.strip()` (ASCII whitespace). -/
def strip (s : Str) : Str := ((s.dropWhile isWs).reverse.dropWhile isWs).reverse

/-- `re.sub(CLASS+, " ", t)` for a character class `p`: every maximal run of `p`-characters becomes one
space (`inRun`: the previous character was in the class). -/
def subRuns (p : Nat → Bool) : Bool → Str → Str
  | _, [] => []
  | inRun, c :: cs =>
    if p c then (if inRun then subRuns p true cs else 32 :: subRuns p true cs)
    else c :: subRuns p false cs

/-- `_WS_RE.sub(" ", t)`. -/
def reSubWs (t : Str) : Str := subRuns isWs false t

/-- `[^\w\s]`. -/
def isPunct (c : Nat) : Bool := !(isWord c || isWs c)

/-- `_PUNCT_RE.sub(" ", t)`. -/
def reSubPunct (t : Str) : Str := subRuns isPunct false t

/-- `_WS_RE.sub(" ", t).strip()`. -/
def normWs (t : Str) : Str := strip (reSubWs t)

/-- `_normalize(text, keep_punct=…)`. -/
def normalize (keepPunct : Bool) (t : Str) : Str :=
  if t.isEmpty then []
  else if keepPunct then normWs t
  else normWs (reSubPunct ((normWs t).map lowerAscii))

/-- `_truncate_tokens(text, max_tokens)`. -/
def truncateTokens (text : Str) (n : Int) : Str :=
  if n ≤ 0 || text.isEmpty then []
  else
    let toks := spSplit text
    if toks.length ≤ n.toNat then joinSp toks else joinSp (toks.take n.toNat)

/-- Python `l[:k]` for an `int` k (negative k drops from the end). -/
def pyTake {α : Type} (k : Int) (l : List α) : List α :=
  if 0 ≤ k then l.take k.toNat else l.take (l.length - (-k).toNat)

/-- `FixtureLLMAdapter.generate` after the lookup: clip the completion to `max_tokens` whitespace tokens. -/
def adapterClip (raw : Str) (maxTokens : Int) : Str :=
  if maxTokens ≤ 0 then [] else joinSp ((wsSplit raw).take maxTokens.toNat)

/-! ## configuration, inputs, oracles -/

structure Cfg where
  allow : Bool                 -- t3.allow_reflection
  backend : Str                -- t3.reflection.backend (raw string)
  topk : Int                   -- t3.reflection.topk_snippets
  limit : Int                  -- t3.reflection.summary_tokens
  embed : Bool                 -- t3.reflection.embed
  opsCap : Option Int          -- scheduler.budgets.ops_reflection (none = null)
  wallMs : Option Int          -- scheduler.budgets.time_ms_reflection
  fxEnabled : Bool             -- t3.llm.fixtures.enabled
  fxPathOk : Bool              -- t3.llm.fixtures.path is a non-blank string
deriving DecidableEq, Repr

structure Entry where
  text : Str
  vec : Bool
deriving DecidableEq, Repr

inductive ErrTy
  | valueError
  | fixtureMissing
  | injected (name : Str)
deriving DecidableEq, Repr

inductive Reason
  | err (ty : ErrTy)           -- "reflect_error:<Type>"
  | timeout                    -- "reflection_timeout"
deriving DecidableEq, Repr

/-- `ReflectionResult` as far as the orchestrator looks at it. -/
structure RResult where
  summary : Str
  entries : List Entry
  reason : Option Reason
  fk : Bool                    -- metrics carries a `fixture_key`
deriving DecidableEq, Repr

/-- Fixture adapter oracle: construction fails / no fixture for the prompt hash / raw completion. -/
inductive Adapter
  | initFail
  | missing
  | text (raw : Str)
deriving DecidableEq, Repr

inductive ReflectMode
  | real
  | raise (ty : Str)                              -- injected fault at the compute site
  | stub (summary : Str) (entries : List Entry)   -- scripted `reflect` (several entries possible)
deriving DecidableEq, Repr

/-- Oracle / fault script of one turn. -/
structure Oracles where
  mode : ReflectMode
  adapter : Adapter
  elapsedUs : Nat              -- wall time of the `reflect` call in µs (clock oracle)
  runFault : Bool              -- `_run_reflection_if_enabled` itself raises
  indexMissing : Bool          -- no `memory_index` on the state
  writeFault : Bool            -- `write_reflection_entries` raises
  addFail : List Bool          -- the i-th `index.add` raises
  logFault : Bool              -- the telemetry writer raises
deriving DecidableEq, Repr

/-- Value of the attribute `ctx.now_iso`: derived by `run_turn`'s head from an int `now_ms`
(`_iso_from_ms`), a caller-supplied string, or a caller-supplied non-string. -/
inductive IsoAttr
  | derived (ms : Int)
  | lit (s : Str)
  | nonstr
deriving DecidableEq, Repr

/-- The timestamp `_now_iso_from_ctx` returns: the head-derived ISO string of `ms`, the caller's
string, or the writer's own epoch fallback `1970-01-01T00:00:{ms//1000:02d}.{ms%1000:03d}Z`.
Nothing else (no wall clock) can appear. -/
inductive Ts
  | iso (ms : Int)
  | lit (s : Str)
  | fallback (ms : Int)
deriving DecidableEq, Repr

structure TurnIn where
  agent : Str
  turn : Str
  nowMs : Option Int           -- ctx.now_ms (none: None / not an int-convertible clock)
  isoPreset : Option IsoAttr   -- ctx.now_iso as supplied by the caller for this turn (none: not supplied)
  dry : Bool                   -- ctx._dry_run_until_t4
  t4on : Bool                  -- t4.enabled (the dry-run return sits inside the T4 block)
  planFlag : Bool              -- plan.reflection
  stateFlag : Bool             -- state["_planner_reflection_flag"]
  cfg : Cfg
  utter : Str
  items : List Str             -- text of each retrieved T2 item ([] = none)
  arts : List Str              -- ctx.turn_artifacts["t2_snippets"]
deriving DecidableEq, Repr

/-- What survives on a (possibly reused) ctx between turns. -/
structure CtxSt where
  stash : Option RResult       -- ctx._reflection_result
  nowIso : Option IsoAttr      -- ctx.now_iso (none: attribute absent); set once, never refreshed
deriving DecidableEq, Repr

def CtxSt.fresh : CtxSt := ⟨none, none⟩

/-! ## reflect -/

def sLlm : Str := [108, 108, 109]
def sRule : Str := [114, 117, 108, 101, 98, 97, 115, 101, 100]

/-- The statement's gate: allowed by configuration ∧ requested (plan or stashed flag) ∧ not a dry run. -/
def gateOpen (t : TurnIn) : Bool := !t.dry && t.cfg.allow && (t.planFlag || t.stateFlag)

/-- `_safe_extract_snippets`. -/
def extractSnippets (items : List Str) (topk : Int) : List Str :=
  (items.filter nonEmpty).take topk.toNat

def gatherSnippets (t : TurnIn) : List Str :=
  if 0 < t.cfg.topk then
    let s := extractSnippets t.items t.cfg.topk
    if s.isEmpty then t.arts.take t.cfg.topk.toNat else s
  else []

/-- `reflect`'s own cap: `int(budgets.get("ops_reflection", 5))`, `except → 5`, negative → 0. -/
def opsCapReflect : Option Int → Int
  | none => 5
  | some v => if v < 0 then 0 else v

def ruleRaw (utter : Str) (snips : List Str) : Str :=
  joinSp ((normalize false utter :: snips.map (normalize false)).filter nonEmpty)

def ruleSummary (utter : Str) (snips : List Str) (k limit : Int) : Str :=
  truncateTokens (ruleRaw utter (pyTake k snips)) limit

def mkResult (summary : Str) (embed : Bool) (cap : Int) (fk : Bool) : RResult :=
  { summary := summary
    entries := if 0 < cap then [{ text := summary, vec := embed && nonEmpty summary }] else []
    reason := none
    fk := fk }

def llmText (ad : Adapter) (limit : Int) : Except ErrTy Str :=
  match ad with
  | .initFail => .error .fixtureMissing
  | .missing => .error .fixtureMissing
  | .text raw =>
    let text := adapterClip raw (max 0 limit)
    if text.isEmpty then .error .fixtureMissing else .ok text

def reflectLlm (c : Cfg) (ad : Adapter) : Except ErrTy RResult :=
  if !c.fxEnabled then .error .valueError
  else if !c.fxPathOk then .error .fixtureMissing
  else match llmText ad c.limit with
    | .error e => .error e
    | .ok text => .ok (mkResult (truncateTokens text c.limit) c.embed (opsCapReflect c.opsCap) true)

def reflectReal (t : TurnIn) (snips : List Str) (ad : Adapter) : Except ErrTy RResult :=
  let b := t.cfg.backend.map lowerAscii
  if b == sLlm then reflectLlm t.cfg ad
  else if b == sRule then
    .ok (mkResult (ruleSummary t.utter snips t.cfg.topk t.cfg.limit) t.cfg.embed
          (opsCapReflect t.cfg.opsCap) false)
  else .error .valueError

def callReflect (t : TurnIn) (o : Oracles) : Except ErrTy RResult :=
  match o.mode with
  | .real => reflectReal t (gatherSnippets t) o.adapter
  | .raise ty => .error (.injected ty)
  | .stub s es => .ok { summary := s, entries := es, reason := none, fk := false }

def errResult (e : ErrTy) : RResult := { summary := [], entries := [], reason := some (.err e), fk := false }

def overBudget (c : Cfg) (elapsedUs : Nat) : Bool :=
  match c.wallMs with
  | some w => decide (w * 1000 < (elapsedUs : Int))
  | none => false

/-- The part of `_run_reflection_if_enabled` after the gates. -/
def afterGate (t : TurnIn) (o : Oracles) : RResult :=
  match callReflect t o with
  | .error e => errResult e
  | .ok res =>
    if overBudget t.cfg o.elapsedUs then { res with entries := [], reason := some .timeout } else res

/-- `_run_reflection_if_enabled`: `none` when a gate is closed (nothing computed, nothing stashed). -/
def runReflection (t : TurnIn) (o : Oracles) : Option RResult :=
  if t.dry then none
  else if !(t.cfg.allow && (t.planFlag || t.stateFlag)) then none
  else some (afterGate t o)

/-! ## write path -/

/-- One episode handed to `index.add`: the four id components (`idText` is the un-stripped text the
digest is taken over), the stored text, the timestamp source and whether a vector is attached. -/
structure Written where
  agent : Str
  turn : Str
  slot : Nat
  idText : Str
  text : Str
  ts : Ts
  vec : Bool
deriving DecidableEq, Repr

def addLoop (agent turn : Str) (tsMs : Ts) : Nat → List Entry → List Bool → List Written
  | _, [], _ => []
  | i, e :: es, fs =>
    let rest := addLoop agent turn tsMs (i + 1) es fs.tail
    if fs.headD false then rest
    else { agent := agent, turn := turn, slot := i, idText := e.text, text := strip e.text,
           ts := tsMs, vec := e.vec } :: rest

/-- The write step of the tail + `write_reflection_entries`. -/
def writeEntries (t : TurnIn) (o : Oracles) (tsMs : Ts) (res : RResult) : List Written :=
  if res.entries.isEmpty then []
  else if o.writeFault then []
  else match t.cfg.opsCap with
    | none => []                       -- `int(None)` raises inside the writer; the tail swallows it
    | some cap =>
      if cap ≤ 0 then []
      else if o.indexMissing then []
      else addLoop t.agent t.turn tsMs 0 (res.entries.take cap.toNat) o.addFail

/-- `ctx.now_iso` after the head of `run_turn`: the caller's value for this turn if any, else what a
previous turn left on a reused ctx, else derived from `now_ms` when that is an int. -/
def headIso (c : CtxSt) (t : TurnIn) : Option IsoAttr :=
  match t.isoPreset with
  | some p => some p
  | none =>
    match c.nowIso with
    | some a => some a
    | none => t.nowMs.map IsoAttr.derived

/-- `_now_iso_from_ctx`: `int(ctx.now_ms)` is evaluated first (raises on `None`: `none`), then a string
`now_iso` wins, else the epoch fallback of `now_ms`. -/
def tsOf (iso : Option IsoAttr) (nowMs : Option Int) : Option Ts :=
  match nowMs with
  | none => none
  | some ms =>
    match iso with
    | some (.derived m) => some (.iso m)
    | some (.lit s) => some (.lit s)
    | _ => some (.fallback ms)

/-- The writer with its timestamp step: when `_now_iso_from_ctx` raises, the tail's `except` swallows it
and nothing is written. -/
def writeEntriesAt (t : TurnIn) (o : Oracles) (ts : Option Ts) (res : RResult) : List Written :=
  match ts with
  | none => []
  | some x => writeEntries t o x res

structure LogRec where
  summaryLen : Nat
  opsWritten : Nat             -- as logged: `len(res.memory_entries)` (the report is never a dict)
  embed : Bool
  backend : Str
  reason : Option Reason
  fk : Bool
deriving DecidableEq, Repr

structure TurnOut where
  reached : Bool               -- the reflection tail was reached
  called : Bool                -- `reflect` was called
  written : List Written
  log : Option LogRec
deriving DecidableEq, Repr

def logOf (t : TurnIn) (o : Oracles) (res : RResult) : Option LogRec :=
  if o.logFault then none
  else some { summaryLen := tokenCount res.summary, opsWritten := res.entries.length,
              embed := t.cfg.embed, backend := t.cfg.backend, reason := res.reason, fk := res.fk }

/-- Result of the gate call as seen by the tail (`try … except: pass`). -/
def gateCall (t : TurnIn) (o : Oracles) : Option RResult :=
  if o.runFault then none else runReflection t o

def stashAfter (clear : Bool) (c : CtxSt) (t : TurnIn) (o : Oracles) : Option RResult :=
  match gateCall t o with
  | some r => some r
  | none => if clear then none else c.stash

/-- The write + telemetry steps on whatever is stashed on the ctx after the gate call. -/
def tailOut (t : TurnIn) (o : Oracles) (ts : Option Ts) (called : Bool) : Option RResult → TurnOut
  | none => { reached := true, called := called, written := [], log := none }
  | some res =>
    { reached := true, called := called, written := writeEntriesAt t o ts res, log := logOf t o res }

def notReached : TurnOut := { reached := false, called := false, written := [], log := none }

/-- One turn as far as reflection is concerned.  `clear = true` is the repaired tail (stale stash
dropped before the gate call); `clear = false` is the code as found.  The head of `run_turn` derives
`ctx.now_iso` from `now_ms` once (`if not hasattr(ctx, "now_iso")`). -/
def tail (clear : Bool) (c : CtxSt) (t : TurnIn) (o : Oracles) : CtxSt × TurnOut :=
  if t.dry && t.t4on then (⟨c.stash, headIso c t⟩, notReached)
  else
    (⟨stashAfter clear c t o, headIso c t⟩,
     tailOut t o (tsOf (headIso c t) t.nowMs) (gateCall t o).isSome (stashAfter clear c t o))

/-- A history of turns over one ctx (`reuse`) or a fresh ctx per turn. -/
def runHist (clear reuse : Bool) : CtxSt → List (TurnIn × Oracles) → List TurnOut
  | _, [] => []
  | c, x :: r =>
    let y := tail clear c x.1 x.2
    y.2 :: runHist clear reuse (if reuse then y.1 else CtxSt.fresh) r

/-! ## the LLM planner's reflection request (`t3/policy.py:run_policy`, entry point `t3_pipeline`) -/

/-- What `plan_with_llm` returned this turn: a validated answer (always carries a `reflection` key) or one
of the fallback dicts `{"plan": [], "rationale": "fallback: …"}` (missing fixture, adapter error, invalid
JSON / schema, CI fixture guard), which carry none. -/
inductive PlannerOut
  | answer (reflection : Bool)
  | fallback
deriving DecidableEq, Repr

/-- `state._planner_reflection_flag` after the planner step of a turn (`none`: the LLM planner did not run
this turn, the long-lived state keeps what it had).  `run_policy` stores `bool(out.get("reflection", False))`:
the request of THIS turn's answer, `False` for a fallback. -/
def flagAfter (prev : Bool) : Option PlannerOut → Bool
  | none => prev
  | some (.answer r) => r
  | some .fallback => false

/-- A history on one long-lived state whose `_planner_reflection_flag` is written only by the planner step. -/
def runHistP (clear reuse : Bool) : Bool → CtxSt → List (Option PlannerOut × TurnIn × Oracles) → List TurnOut
  | _, _, [] => []
  | f, c, x :: r =>
    let y := tail clear c { x.2.1 with stateFlag := flagAfter f x.1 } x.2.2
    y.2 :: runHistP clear reuse (flagAfter f x.1) (if reuse then y.1 else CtxSt.fresh) r

/-- The flags the turns of such a history see. -/
def flagsP : Bool → List (Option PlannerOut) → List Bool
  | _, [] => []
  | f, p :: r => flagAfter f p :: flagsP (flagAfter f p) r

/-! ## the turn skeleton around the tail (for isolation) -/

/-- Records emitted by one `run_turn`, in order: everything up to and including the apply record
(`pre`), the reflection telemetry line if any, then health + turn summary (`post`).  `pre`, `post`
and the returned line are computed by the stages before the tail and do not take the reflection
result as an input. -/
structure Skeleton (ρ : Type) where
  pre : List ρ
  post : List ρ
  line : Str

inductive Emitted (ρ : Type)
  | other (r : ρ)
  | reflection (l : LogRec)

def emitted {ρ : Type} (sk : Skeleton ρ) (out : TurnOut) : List (Emitted ρ) :=
  sk.pre.map .other ++ (match out.log with | some l => [.reflection l] | none => []) ++ sk.post.map .other

def nonReflection {ρ : Type} : List (Emitted ρ) → List ρ
  | [] => []
  | .other r :: l => r :: nonReflection l
  | .reflection _ :: l => nonReflection l

/-! ## monitors (evaluated by the driver on implementation observations) -/

/-- Gate closed ⇒ nothing computed, written or logged. -/
def monGate (t : TurnIn) (called : Bool) (nWritten : Nat) (logged : Bool) : Bool :=
  gateOpen t || (!called && nWritten == 0 && !logged)

/-- At most the configured number of entries (null/absent or ≤ 0 ⇒ none). -/
def capNat : Option Int → Nat
  | none => 0
  | some v => v.toNat

def monCap (t : TurnIn) (nWritten : Nat) : Bool := nWritten ≤ capNat t.cfg.opsCap

/-- Summary within the token limit. -/
def monLen (limit : Int) (text : Str) : Bool := tokenCount text ≤ (max 0 limit).toNat

/-- Did the compute step fail (error / missing fixture / timeout) or the write step fault? -/
def failed (t : TurnIn) (o : Oracles) : Bool :=
  o.runFault || o.writeFault || o.indexMissing ||
  (match callReflect t o with
   | .error _ => true
   | .ok _ => overBudget t.cfg o.elapsedUs)

def monFailsoft (t : TurnIn) (o : Oracles) (nWritten : Nat) : Bool := !failed t o || nWritten == 0

end Clem.Refl
