/-
Gate model for C02 ("features behind a closed gate are inert").

The engine's turn is abstracted to the ordered list of *gated sites* of `run_turn` and the stages
(table `Clem.Gen.Gates.sites`, regenerated from the AST): a site runs iff its dominating predicate
holds; when it runs it transforms the engine state by an ARBITRARY function of the state and of the
values of the configuration leaves it consumes, and emits its artefacts.  External atoms (plan flags,
"cache exists", …) are arbitrary functions of the current state.  Everything below is generic in
the state type, the site bodies and the external atoms, so the theorems hold for every engine whose
gated sites have the tabled predicates and read-sets.
-/
import Clem.Py.GateExpr
import Clem.Gen.Gates

namespace Clem.Gates
open Clem.Py

/-- Configuration restricted to the tabled leaves: leaf id ↦ integer value (absent / falsy = 0). -/
abbrev Cfg := Nat → Int
abbrev Ext := Nat → Bool

def eval (c : Cfg) (x : Ext) : GExpr → Bool
  | .leaf i => c i != 0
  | .gt i n => decide (n < c i)
  | .ext j => x j
  | .tt => true
  | .ff => false
  | .not e => !(eval c x e)
  | .and a b => eval c x a && eval c x b
  | .or a b => eval c x a || eval c x b

/-- Syntactic sufficient condition: whenever leaf `f` is 0, `e` evaluates to `pol`
(`forced f false e`: forced off; `forced f true e`: forced on). -/
def forced (f : Nat) : Bool → GExpr → Bool
  | false, .leaf i => i == f
  | false, .gt i n => i == f && decide (0 ≤ n)
  | true, .gt i n => i == f && decide (n < 0)
  | false, .ff => true
  | true, .tt => true
  | pol, .not e => forced f (!pol) e
  | false, .and a b => forced f false a || forced f false b
  | true, .and a b => forced f true a && forced f true b
  | false, .or a b => forced f false a && forced f false b
  | true, .or a b => forced f true a || forced f true b
  | _, _ => false

/-- `e` is false whenever leaf `f` is 0. -/
abbrev forcedOff (f : Nat) (e : GExpr) : Bool := forced f false e

def mentions (S : List Nat) : GExpr → Bool
  | .leaf i => S.contains i
  | .gt i _ => S.contains i
  | .not e => mentions S e
  | .and a b => mentions S a || mentions S b
  | .or a b => mentions S a || mentions S b
  | _ => false

/-- Syntactic sufficient condition: the value of `e` cannot depend on the leaves in `S` while leaf `f` is 0. -/
def stable (f : Nat) (S : List Nat) : GExpr → Bool
  | .not a => stable f S a
  | .and a b => forcedOff f (.and a b) || (stable f S a && stable f S b)
  | .or a b => stable f S a && stable f S b
  | e => forcedOff f e || !(mentions S e)

/-- A site is harmless for gate (`f`, `S`): its predicate is stable, and it either cannot run while the
flag is off or consumes no leaf of the gated subtree. -/
def siteOK (f : Nat) (S : List Nat) (s : Site) : Bool :=
  stable f S s.guard && (forcedOff f s.guard || s.reads.all (fun r => !(S.contains r)))

def tableOK (f : Nat) (S : List Nat) (tbl : List Site) : Bool := tbl.all (siteOK f S)

/-- A site cannot emit an artefact of the gate while the flag is off. -/
def artOK (f : Nat) (arts : List Nat) (s : Site) : Bool :=
  forcedOff f s.guard || s.emits.all (fun a => !(arts.contains a))

def artTableOK (f : Nat) (arts : List Nat) (tbl : List Site) : Bool := tbl.all (artOK f arts)

/-- The rest of the engine: external atoms as a function of the state, and the effect of each site
as a function of the values of the leaves it consumes. -/
structure World (σ : Type) where
  ext : σ → Ext
  body : Nat → List Int → σ → σ

/-- State × artefacts emitted so far. -/
def stepSite {σ : Type} (W : World σ) (c : Cfg) (st : σ × List Nat) (s : Site) : σ × List Nat :=
  if eval c (W.ext st.1) s.guard then (W.body s.id (s.reads.map c) st.1, st.2 ++ s.emits) else st

def runSites {σ : Type} (W : World σ) (c : Cfg) (tbl : List Site) (st : σ × List Nat) : σ × List Nat :=
  tbl.foldl (stepSite W c) st

/-- A sequence of turns: `feed i` injects the i-th input into the state, then the sites run. -/
def runTurns {σ ι : Type} (W : World σ) (feed : ι → σ → σ) (c : Cfg) (tbl : List Site)
    (inputs : List ι) (st : σ × List Nat) : σ × List Nat :=
  inputs.foldl (fun st i => runSites W c tbl (feed i st.1, st.2)) st

def agreeOutside (S : List Nat) (c c' : Cfg) : Prop := ∀ i, S.contains i = false → c i = c' i

/-! ### Decidable monitors / predictions used by the driver -/

/-- No artefact of the gate among the artefacts observed. -/
def noArtifactB (arts present : List Nat) : Bool := present.all (fun a => !(arts.contains a))

/-- Kleene evaluation with partially known external atoms. -/
def eval3 (c : Cfg) (x : Nat → Option Bool) : GExpr → Option Bool
  | .leaf i => some (c i != 0)
  | .gt i n => some (decide (n < c i))
  | .ext j => x j
  | .tt => some true
  | .ff => some false
  | .not e => (eval3 c x e).map (!·)
  | .and a b =>
    match eval3 c x a, eval3 c x b with
    | some false, _ => some false
    | _, some false => some false
    | some true, some true => some true
    | _, _ => none
  | .or a b =>
    match eval3 c x a, eval3 c x b with
    | some true, _ => some true
    | _, some true => some true
    | some false, some false => some false
    | _, _ => none

/-- 0 = no site emitting artefact `a` can run, 2 = some site emitting it certainly runs, 1 = undetermined. -/
def predict (c : Cfg) (x : Nat → Option Bool) (tbl : List Site) (a : Nat) : Nat :=
  let ss := tbl.filter (fun s => s.emits.contains a)
  if ss.any (fun s => eval3 c x s.guard == some true) then 2
  else if ss.any (fun s => eval3 c x s.guard == none) then 1
  else 0

/-- Documented gates: every listed (site, flag) pair is enforced syntactically by the site's predicate. -/
def consistentB (tbl : List Site) (pairs : List (Nat × Nat)) : Bool :=
  pairs.all (fun p => match tbl[p.1]? with
    | some s => forcedOff p.2 s.guard
    | none => false)

end Clem.Gates
