/-
Models of `clematis/engine/cache.py:merge_caches_deterministic` and of concurrent access
through the lock wrappers `ThreadSafeCache` / `ThreadSafeBytesCache`.

Import-free and executable.

Merge.  A worker is `(order key, items)`; an item is `(order key of its cache key, key, value)`
— the two `*_order_key` callbacks are applied by the harness/driver boundary and arrive as
integers (ties allowed: Python's `sorted` / `list.sort` are stable, `Clem.Py.isort` is the same
stable sort).  The target is *any* cache: `TargetOps σ` carries its `__contains__`, `get`, `put`
as state transformers (`LRUCache.__contains__` prunes, `LRUCache.get` touches recency), so the
determinism theorem holds for every target, bounded or not.

Wrappers.  Every wrapper method runs its whole body under `with self._lock` (table
`Clem/Gen/Locks.lean`, regenerated from the AST and checked by `decide`), so a method call is one
atomic step of the wrapped container.  A concurrent execution of `n` threads is then a path of
the small-step relation `Sched.Reach` (some thread with work left fires its next operation);
`Sched.Interleave` is the set of merged operation lists.
-/
import Clem.Py.Sort

namespace Clem.CacheMerge

structure Item where
  ord : Int
  key : Nat
  val : Nat
deriving Repr, DecidableEq, Inhabited

structure Worker where
  ord : Int
  items : List Item
deriving Repr, DecidableEq, Inhabited

def workerLe (a b : Worker) : Bool := decide (a.ord ≤ b.ord)
def itemLe (a b : Item) : Bool := decide (a.ord ≤ b.ord)

/-- The sequence of `(key, value)` pairs the two nested loops visit. -/
def mergeSeq (ws : List Worker) : List Item :=
  (Clem.Py.isort workerLe ws).flatMap (fun w => Clem.Py.isort itemLe w.items)

structure TargetOps (σ : Type) where
  contains : σ → Nat → σ × Bool
  get : σ → Nat → σ × Option Nat
  put : σ → Nat → Nat → σ

/-- One iteration of the inner loop.  The `Bool` is "an `AssertionError` has been raised"
(only in `assert_equal` mode); once raised nothing else happens. -/
def mergeStep {σ : Type} (T : TargetOps σ) (assertEq : Bool) (acc : σ × Bool) (it : Item) : σ × Bool :=
  if acc.2 then acc
  else
    let c := T.contains acc.1 it.key
    if c.2 then
      if assertEq then
        let g := T.get c.1 it.key
        (g.1, !(g.2 == some it.val))
      else (c.1, false)
    else (T.put c.1 it.key it.val, false)

def mergeItems {σ : Type} (T : TargetOps σ) (assertEq : Bool) (t : σ) (its : List Item) : σ × Bool :=
  its.foldl (mergeStep T assertEq) (t, false)

/-- `merge_caches_deterministic(target, workers, …, on_conflict)`; `.2` = raised. -/
def merge {σ : Type} (T : TargetOps σ) (assertEq : Bool) (t : σ) (ws : List Worker) : σ × Bool :=
  mergeItems T assertEq t (mergeSeq ws)

/-- The plain unbounded dict target (`first_wins` is stated on it). -/
def dictOps : TargetOps (List (Nat × Nat)) where
  contains := fun d k => (d, d.any (fun e => e.1 == k))
  get := fun d k => (d, (d.find? (fun e => e.1 == k)).map (·.2))
  put := fun d k v => d ++ [(k, v)]

def dlookup (k : Nat) (d : List (Nat × Nat)) : Option Nat := (d.find? (fun e => e.1 == k)).map (·.2)

end Clem.CacheMerge

namespace Clem.Sched

/-- Remove the head of thread `i`'s remaining list (if any). -/
def pop {α : Type} : List (List α) → Nat → Option (α × List (List α))
  | [], _ => none
  | p :: ps, 0 =>
    match p with
    | [] => none
    | a :: as => some (a, as :: ps)
  | p :: ps, i + 1 =>
    match pop ps i with
    | none => none
    | some (a, ps') => some (a, p :: ps')

/-- The merged operation list of a schedule (a list of thread indices); picks that name a
finished or unknown thread are skipped. -/
def applySchedule {α : Type} : List (List α) → List Nat → List α
  | _, [] => []
  | ps, i :: is =>
    match pop ps i with
    | none => applySchedule ps is
    | some (a, ps') => a :: applySchedule ps' is

/-- What is left of the pools after a schedule. -/
def remaining {α : Type} : List (List α) → List Nat → List (List α)
  | ps, [] => ps
  | ps, i :: is =>
    match pop ps i with
    | none => remaining ps is
    | some (_, ps') => remaining ps' is

/-- `m` is an interleaving of the threads' operation lists `ps`
(each thread's order kept, every operation exactly once). -/
inductive Interleave {α : Type} : List (List α) → List α → Prop
  | done {ps : List (List α)} : (∀ p ∈ ps, p = []) → Interleave ps []
  | pick {ps ps' : List (List α)} {i : Nat} {a : α} {m : List α} :
      pop ps i = some (a, ps') → Interleave ps' m → Interleave ps (a :: m)

/-- Executions of the concurrent system in which every operation is one atomic step:
`Reach step s ps s' ps'` — from container state `s` with the threads' remaining operation lists
`ps`, some sequence of atomic steps (each: some thread with work left fires its next operation on
the shared container) leads to state `s'` with `ps'` remaining. -/
inductive Reach {σ α : Type} (step : σ → α → σ) : σ → List (List α) → σ → List (List α) → Prop
  | refl {s : σ} {ps : List (List α)} : Reach step s ps s ps
  | head {s s'' : σ} {ps ps' ps'' : List (List α)} {i : Nat} {a : α} :
      pop ps i = some (a, ps') → Reach step (step s a) ps' s'' ps'' → Reach step s ps s'' ps''

end Clem.Sched
