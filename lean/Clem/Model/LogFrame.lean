/-
C16 — JSONL framing (clematis/io/log.py): one record = `enc r ++ "\n"` written by ONE
binary append; a file is the concatenation of the appended chunks; `rewrite_jsonl`
builds the whole payload and hands it to `atomic_write_text` (which replaces CRLF by LF).
Bytes are naturals; `enc` (json.dumps + utf-8) is a parameter.  Import-free.
-/
namespace Clem.LogFrame

abbrev Bytes := List Nat

def LF : Nat := 10
def CR : Nat := 13

/-- `(json.dumps(record) + "\n").encode()` -/
def frame (line : Bytes) : Bytes := line ++ [LF]

/-- Parse a file into its complete LF-terminated lines and the unterminated remainder.
`acc` is the line being accumulated, reversed. -/
def parseAux : Bytes → Bytes → List Bytes × Bytes
  | acc, [] => ([], acc.reverse)
  | acc, b :: bs =>
    if b = LF then
      let r := parseAux [] bs
      (acc.reverse :: r.1, r.2)
    else parseAux (b :: acc) bs

def parseLines (file : Bytes) : List Bytes × Bytes := parseAux [] file

/-- Monitor: the file is exactly these lines, each complete and LF-terminated, nothing else. -/
def wellFramedB (file : Bytes) (lines : List Bytes) : Bool :=
  let p := parseLines file
  p.1 == lines && p.2 == []

/-! ### concurrent writers: any interleaving of atomic appends

`qs` are the writers' pending records (already encoded lines), `sched` the order in which
writers get to perform their next append (indices out of range / exhausted writers do nothing). -/

def popAt : List (List Bytes) → Nat → Option (Bytes × List (List Bytes))
  | [], _ => none
  | q :: qs, 0 =>
    match q with
    | [] => none
    | l :: q' => some (l, q' :: qs)
  | q :: qs, w + 1 =>
    match popAt qs w with
    | some (l, qs') => some (l, q :: qs')
    | none => none

structure Run where
  file : Bytes
  /-- (writer, line) in the order the appends happened -/
  trace : List (Nat × Bytes)
  pending : List (List Bytes)

def step (s : Run) (w : Nat) : Run :=
  match popAt s.pending w with
  | some (l, qs') => ⟨s.file ++ frame l, s.trace ++ [(w, l)], qs'⟩
  | none => s

def exec (qs : List (List Bytes)) (sched : List Nat) : Run :=
  sched.foldl step ⟨[], [], qs⟩

/-- lines of writer `w` in a trace, in file order. -/
def linesOf (w : Nat) (trace : List (Nat × Bytes)) : List Bytes :=
  (trace.filter (fun e => e.1 == w)).map (·.2)

/-! ### raw-write granularity

What reaches the OS for one append / one rewrite is a list of raw `write(2)` chunks (recorded by
the harness under the buffered handle the code opens).  The atomic step of `exec` above is ONE
raw write, so concurrent writers interleave at chunk boundaries: framing survives every
interleaving iff every chunk ends at a frame boundary. -/

/-- every raw-write chunk is a sequence of complete LF-terminated lines. -/
def chunksCompleteB (chunks : List Bytes) : Bool := chunks.all (fun c => (parseLines c).2 == [])

/-- Monitor for one open handle: chunk boundaries only at line ends, and the chunks add up to
exactly the expected bytes. -/
def rawWritesOkB (chunks : List Bytes) (expect : Bytes) : Bool :=
  chunksCompleteB chunks && chunks.flatten == expect

def mergesAux {α : Type} (x : α) (xs : List α) (recx : List α → List (List α)) :
    List α → List (List α)
  | [] => [x :: xs]
  | y :: ys => (recx (y :: ys)).map (x :: ·) ++ (mergesAux x xs recx ys).map (y :: ·)

/-- all interleavings of two writers' chunk sequences (each writer's order kept). -/
def merges {α : Type} : List α → List α → List (List α)
  | [], ys => [ys]
  | x :: xs, ys => mergesAux x xs (merges xs) ys

/-- Monitor: EVERY interleaving of the two writers' raw writes parses into complete lines, all
of them among the expected lines and as many as expected. -/
def allMergesFramedB (w1 w2 : List Bytes) (expected : List Bytes) : Bool :=
  (merges w1 w2).all (fun m =>
    let p := parseLines m.flatten
    p.2 == [] && p.1.length == expected.length && p.1.all (fun l => expected.contains l))

/-! ### rewrite_jsonl -/

/-- `text.replace("\r\n", "\n")` of `atomic_write_text`. -/
def replaceCRLF : Bytes → Bytes
  | [] => []
  | [b] => [b]
  | a :: b :: rest => if a = CR ∧ b = LF then LF :: replaceCRLF rest else a :: replaceCRLF (b :: rest)

/-- payload of `rewrite_jsonl` given the encoded (normalised, canonical) lines. -/
def rewritePayload (lines : List Bytes) : Bytes := replaceCRLF (lines.map frame).flatten

end Clem.LogFrame
