/-
Model of `clematis/engine/gel.py` (GEL: co-activation edge store).

Import-free (apart from the Python prelude) and executable: the driver runs exactly these
definitions at `α := Float`; the theorems in `Clem/Props/C18.lean` are about exactly these
definitions at an arbitrary linearly ordered field.

What is modelled, as written in the Python:
* `_edge_key`, `_clamp`, `observe_retrieval` (threshold filter `s >= θ` — NaN drops out —,
  `sort(key=(-s, id))`, `[:top_k]` with Python slice semantics, nested `i < j` loops with the
  `cap_left` prefix truncation, additive / proportional update, attrs bookkeeping),
* `tick` (decay factor, floor drop, `w2 != w` counter, `last_seen_turn` back-fill,
  `meta["edges_count"]`, the early return on an empty edge dict),
* `apply_merge`, `apply_split` (append to `meta`), `promote_clusters`, `apply_promotion`,
* the gate: every entry point returns before touching the state when `graph.enabled` is false
  (the state is `Option Store`: `none` = no `graph` attribute yet, so even the implicit
  `_ensure_graph_store` is visible).

Not modelled (adapters / oracles): `_graph_cfg` defaulting and `_as_id_score` (the harness passes
resolved settings and `(id, score)` pairs), `merge_candidates` / `split_candidates`.
`dict` = association list with unique keys in insertion order; ids are code-point lists.
-/
import Clem.Py.Sort
import Clem.Py.NumGel

namespace Clem.Gel
open Clem.Py

abbrev Str := List Nat

/-- `→` (U+2192), the separator used by `_edge_key`. -/
def arrow : Nat := 0x2192

structure EK where
  key : Str
  src : Str
  dst : Str
deriving DecidableEq, Repr

/-- `_edge_key(a, b)`: `(f"{src}→{dst}", src, dst)` with `src <= dst`. -/
def edgeKey (a b : Str) : EK :=
  if lexLe a b then ⟨a ++ arrow :: b, a, b⟩ else ⟨b ++ arrow :: a, b, a⟩

/-- Resolved `graph.*` settings (what `_graph_cfg` + the `float()/int()/str()` reads produce). -/
structure Cfg (α : Type) where
  enabled : Bool
  threshold : α
  topK : Int
  pairCap : Int
  /-- `mode == "proportional"`; anything else is additive -/
  proportional : Bool
  alpha : α
  cmin : α
  cmax : α
  hl : α
  floor : α
  /-- `promotion.label_mode == "concat_k"` -/
  concatK : Bool
  topkLabel : Int
  attachW : α

/-- `attrs["last_seen_turn"]`: key absent / `None` / an int. -/
inductive Lst where
  | absent
  | null
  | at (t : Int)
deriving DecidableEq, Repr

structure Edge (α : Type) where
  key : Str
  src : Str
  dst : Str
  w : α
  /-- `rel == "concept"` (else `"coact"`) -/
  concept : Bool
  /-- `attrs["coact"]` (`none` = key absent) -/
  coact : Option Nat
  lst : Lst
deriving DecidableEq

structure Node where
  id : Str
  label : Str
deriving DecidableEq, Repr

structure MergeRec (α : Type) where
  nodes : List Str
  size : Int
  avgW : α
  diameter : Int
  sig : Str
deriving DecidableEq

structure SplitRec where
  original : List Str
  parts : List (List Str)
  removed : Int
  orig : Int
  sig : Str
deriving DecidableEq, Repr

structure Store (α : Type) where
  nodes : List Node
  edges : List (Edge α)
  merges : List (MergeRec α)
  splits : List SplitRec
  conceptCount : Nat
  /-- `meta["edges_count"]` (absent until a tick / promotion writes it) -/
  edgesCount : Option Nat
deriving DecidableEq

/-- `state.graph` (`none`: the attribute does not exist yet). -/
abbrev State (α : Type) := Option (Store α)

def emptyStore {α : Type} : Store α := ⟨[], [], [], [], 0, none⟩

/-- `_ensure_graph_store`. -/
def ensure {α : Type} : State α → Store α
  | none => emptyStore
  | some g => g

section
variable {α : Type} [NumGel α]
open NumGel

/-- `_clamp(x, lo, hi)`: `hi if x > hi else lo if x < lo else x`. -/
def clamp (x lo hi : α) : α := if lt hi x then hi else if lt x lo then lo else x

/-- Python `min(a, b)`. -/
def pyMin (a b : α) : α := if lt b a then b else a

/-- New weight of an observed pair. -/
def updW (c : Cfg α) (w : α) : α :=
  if c.proportional then
    clamp (add w (mul c.alpha (sub one (pyMin (abs w) one)))) c.cmin c.cmax
  else clamp (add w c.alpha) c.cmin c.cmax

/-- Tuple comparison `(-sa, ida) < (-sb, idb)`. -/
def keyLt (a b : Str × α) : Bool :=
  if eq (neg a.2) (neg b.2) then lexLt a.1 b.1 else lt (neg a.2) (neg b.2)

/-- "sorts no later than" for `norm.sort(key=lambda t: (-t[1], t[0]))`. -/
def keyLe (a b : Str × α) : Bool := !(keyLt b a)

/-- `l[:k]` for a Python int `k`. -/
def pySlice {β : Type} (k : Int) (l : List β) : List β :=
  if 0 ≤ k then l.take k.toNat else l.take (l.length - (-k).toNat)

def eligible (c : Cfg α) (items : List (Str × α)) : List (Str × α) :=
  items.filter (fun it => le c.threshold it.2)

/-- `used = sorted([... if s >= threshold])[:top_k]`. -/
def usedItems (c : Cfg α) (items : List (Str × α)) : List (Str × α) :=
  pySlice c.topK (isort keyLe (eligible c items))

/-- All `(l[i], l[j])`, `i < j`, in nested-loop order. -/
def pairs {β : Type} : List β → List (β × β)
  | [] => []
  | a :: t => t.map (fun b => (a, b)) ++ pairs t

/-- The pairs the nested loops visit before `cap_left` runs out. -/
def obsPairs (c : Cfg α) (items : List (Str × α)) : List (Str × Str) :=
  (pairs ((usedItems c items).map Prod.fst)).take c.pairCap.toNat

/-- dict update-or-insert on the edge list (first match; keys are unique). -/
def upsert (k : Str) (f : Edge α → Edge α) (dflt : Edge α) : List (Edge α) → List (Edge α)
  | [] => [f dflt]
  | e :: es => if e.key == k then f e :: es else e :: upsert k f dflt es

def newEdge (ek : EK) : Edge α := ⟨ek.key, ek.src, ek.dst, zero, false, some 0, .null⟩

def bump (c : Cfg α) (turn : Option Int) (e : Edge α) : Edge α :=
  { e with w := updW c e.w
           coact := some (e.coact.getD 0 + 1)
           lst := match turn with
             | some t => .at t
             | none => e.lst }

def obsStep (c : Cfg α) (turn : Option Int) (es : List (Edge α)) (p : Str × Str) : List (Edge α) :=
  upsert (edgeKey p.1 p.2).key (bump c turn) (newEdge (edgeKey p.1 p.2)) es

def observeEdges (c : Cfg α) (turn : Option Int) (es : List (Edge α)) (ps : List (Str × Str)) :
    List (Edge α) := ps.foldl (obsStep c turn) es

structure ObsOut where
  kIn : Nat
  kUsed : Nat
  pairsUpdated : Nat
deriving DecidableEq, Repr

/-- `observe_retrieval`. -/
def observe (c : Cfg α) (s : State α) (items : List (Str × α)) (turn : Option Int) :
    State α × ObsOut :=
  if !c.enabled then (s, ⟨0, 0, 0⟩)
  else
    let g := ensure s
    let ps := obsPairs c items
    (some { g with edges := observeEdges c turn g.edges ps },
     ⟨items.length, (usedItems c items).length, ps.length⟩)

/-- `decay_factor` (`pw` is `**`). -/
def decayFactor (c : Cfg α) (pw : α → α → α) (dt : Int) : α :=
  if le c.hl zero then zero else pw half (div (ofNat dt.toNat) c.hl)

/-- `abs(w * factor) < floor`: the edge is dropped. -/
def below (f floor : α) (e : Edge α) : Bool := lt (abs (mul e.w f)) floor

def lstIsNone : Lst → Bool
  | .at _ => false
  | _ => true

def tickEdge (f floor : α) (turn : Option Int) (e : Edge α) : Option (Edge α) :=
  if below f floor e then none
  else some { e with w := if eq (mul e.w f) e.w then e.w else mul e.w f
                     lst := match turn with
                       | some t => if lstIsNone e.lst then .at t else e.lst
                       | none => e.lst }

/-- survivor whose weight changed (`w2 != w`): counted in `decayed_edges`. -/
def tickChanged (f floor : α) (e : Edge α) : Bool := !(below f floor e) && !(eq (mul e.w f) e.w)

structure TickOut where
  decayed : Nat
  dropped : Nat
deriving DecidableEq, Repr

/-- `tick`. -/
def tick (c : Cfg α) (pw : α → α → α) (s : State α) (dt : Int) (turn : Option Int) :
    State α × TickOut :=
  if !c.enabled then (s, ⟨0, 0⟩)
  else
    let g := ensure s
    if g.edges.isEmpty then (some g, ⟨0, 0⟩)
    else
      let f := decayFactor c pw dt
      let es := g.edges.filterMap (tickEdge f c.floor turn)
      (some { g with edges := es, edgesCount := some es.length },
       ⟨(g.edges.filter (tickChanged f c.floor)).length, (g.edges.filter (below f c.floor)).length⟩)

/-- `apply_merge` (the record is what the code builds from the cluster dict). -/
def applyMerge (c : Cfg α) (s : State α) (r : MergeRec α) : State α :=
  if !c.enabled then s
  else let g := ensure s; some { g with merges := g.merges ++ [r] }

/-- `apply_split`. -/
def applySplit (c : Cfg α) (s : State α) (r : SplitRec) : State α :=
  if !c.enabled then s
  else let g := ensure s; some { g with splits := g.splits ++ [r] }

structure Promo (α : Type) where
  cid : Str
  label : Str
  members : List Str
  w : α
deriving DecidableEq

/-- `"c::"` -/
def cPrefix : Str := [99, 58, 58]

/-- `"+".join(l)` -/
def joinPlus : List Str → Str
  | [] => []
  | [a] => a
  | a :: b :: t => a ++ 43 :: joinPlus (b :: t)

/-- the `[-1, 1]` clamp of `attach_weight` in `promote_clusters`. -/
def clampAttach (w : α) : α := if lt one w then one else if lt w (neg one) then neg one else w

def promoOf (c : Cfg α) (nodes : List Str) : Option (Promo α) :=
  match isort lexLe nodes with
  | [] => none
  | h :: t =>
    some ⟨cPrefix ++ h,
          if c.concatK then joinPlus ((h :: t).take (max 1 c.topkLabel).toNat) else h,
          h :: t, clampAttach c.attachW⟩

/-- `promote_clusters` (pure: does not touch the state). -/
def promoteClusters (c : Cfg α) (clusters : List (List Str)) : List (Promo α) :=
  if !c.enabled then []
  else isort (fun a b => lexLe a.cid b.cid) (clusters.filterMap (promoOf c))

def conceptEdge (ek : EK) (w : α) : Edge α := ⟨ek.key, ek.src, ek.dst, w, true, none, .absent⟩

def attachStep (p : Promo α) (es : List (Edge α)) (m : Str) : List (Edge α) :=
  upsert (edgeKey p.cid m).key (fun e => { e with concept := true, w := p.w })
    (conceptEdge (edgeKey p.cid m) p.w) es

def hasNode (ns : List Node) (id : Str) : Bool := ns.any (fun n => n.id == id)

/-- `apply_promotion`. -/
def applyPromotion (c : Cfg α) (s : State α) (p : Promo α) : State α :=
  if !c.enabled then s
  else
    let g := ensure s
    let es := p.members.foldl (attachStep p) g.edges
    some { g with
      nodes := if hasNode g.nodes p.cid then g.nodes else g.nodes ++ [⟨p.cid, p.label⟩]
      conceptCount := if hasNode g.nodes p.cid then g.conceptCount else g.conceptCount + 1
      edges := es
      edgesCount := some es.length }

/-! ### Histories -/

inductive Op (α : Type) where
  | observe (items : List (Str × α)) (turn : Option Int)
  | tick (dt : Int) (turn : Option Int)
  | merge (r : MergeRec α)
  | split (r : SplitRec)
  | promote (p : Promo α)

def step (c : Cfg α) (pw : α → α → α) (s : State α) : Op α → State α
  | .observe items turn => (observe c s items turn).1
  | .tick dt turn => (tick c pw s dt turn).1
  | .merge r => applyMerge c s r
  | .split r => applySplit c s r
  | .promote p => applyPromotion c s p

def run (c : Cfg α) (pw : α → α → α) (s : State α) (ops : List (Op α)) : State α :=
  ops.foldl (step c pw) s

def edgesOf (s : State α) : List (Edge α) := (ensure s).edges

/-! ### Monitors (decidable predicates; evaluated by the driver on implementation states) -/

def inB (c : Cfg α) (w : α) : Bool := le c.cmin w && le w c.cmax

/-- every edge weight lies in `[clamp_min, clamp_max]`. -/
def boundedB (c : Cfg α) (es : List (Edge α)) : Bool := es.all (fun e => inB c e.w)

/-- every co-activation edge (`rel == "coact"`) lies in `[clamp_min, clamp_max]`. -/
def boundedCoactB (c : Cfg α) (es : List (Edge α)) : Bool :=
  es.all (fun e => e.concept || inB c e.w)

def edgeCanonB (e : Edge α) : Bool := lexLe e.src e.dst && e.key == e.src ++ arrow :: e.dst

/-- every record sits under the canonical key of its endpoints, `src <= dst`, one record per key. -/
def canonB (es : List (Edge α)) : Bool :=
  es.all edgeCanonB && decide ((es.map Edge.key).Nodup)

/-- one decay step, as a relation between the edge lists before and after:
survivors are exactly the edges not below the floor (same order, same endpoints) and no
survivor's magnitude grew; the counters match. -/
def tickSpecB (f floor : α) (pre post : List (Edge α)) (out : TickOut) : Bool :=
  ((pre.filter (fun e => !(below f floor e))).map Edge.key == post.map Edge.key) &&
  ((pre.filter (fun e => !(below f floor e))).zip post).all
    (fun p => le (abs p.2.w) (abs p.1.w) && p.1.src == p.2.src && p.1.dst == p.2.dst
              && p.1.concept == p.2.concept && p.1.coact == p.2.coact) &&
  (out.dropped + post.length == pre.length) &&
  decide (out.decayed ≤ post.length)

def findEdge (k : Str) (es : List (Edge α)) : Option (Edge α) := es.find? (fun e => e.key == k)

/-- keys of all unordered pairs of eligible (score ≥ θ) ids -/
def eligibleKeys (c : Cfg α) (items : List (Str × α)) : List Str :=
  (pairs ((eligible c items).map Prod.fst)).flatMap
    (fun p => [(edgeKey p.1 p.2).key, (edgeKey p.2 p.1).key])

/-- keys of all unordered pairs of the *used* ids: the top-`k` items by `(-score, id)` among those
with score ≥ θ — whatever order the items are listed in -/
def usedKeys (c : Cfg α) (items : List (Str × α)) : List Str :=
  (pairs ((usedItems c items).map Prod.fst)).flatMap
    (fun p => [(edgeKey p.1 p.2).key, (edgeKey p.2 p.1).key])

end

/-- the hand-off clause of an observation: every record that is new or differs from before sits
under the key of a pair of ids taken from the top-`k` items by score among ALL listed items
(so a caller that truncates the listing before handing it over is caught). -/
def obsTopB {α : Type} [NumGel α] (same : Edge α → Edge α → Bool) (c : Cfg α) (items : List (Str × α))
    (pre post : List (Edge α)) : Bool :=
  (post.filter (fun e => !(match findEdge e.key pre with | some e0 => same e0 e | none => false))).all
    (fun e => (usedKeys c items).contains e.key)

/-- one observation, as a relation between before / after / metrics:
`k_used ≤ top_k`, `k_used ≤ #eligible`, `pairs_updated ≤ min(pair_cap, C(k_used,2))`, every old key
is still present, and every record that is new or differs from before sits under the key of a pair
of eligible ids, is in bounds (when `cmin ≤ cmax`), and there are at most `pairs_updated` of them. -/
def obsSpecB {α : Type} [NumGel α] (same : Edge α → Edge α → Bool) (c : Cfg α) (items : List (Str × α))
    (pre post : List (Edge α)) (out : ObsOut) : Bool :=
  let changed := post.filter (fun e => !(match findEdge e.key pre with | some e0 => same e0 e | none => false))
  (decide (c.topK < 0) || decide ((out.kUsed : Int) ≤ c.topK)) &&
  decide (out.kUsed ≤ (eligible c items).length) &&
  decide (out.kIn = items.length) &&
  decide ((out.pairsUpdated : Int) ≤ max 0 c.pairCap) &&
  decide (out.pairsUpdated ≤ out.kUsed * (out.kUsed - 1) / 2) &&
  pre.all (fun e => (findEdge e.key post).isSome) &&
  changed.all (fun e => (eligibleKeys c items).contains e.key &&
                        (!(NumGel.le c.cmin c.cmax) || inB c e.w)) &&
  decide (changed.length ≤ out.pairsUpdated)

end Clem.Gel
