/-
Model of the T2 fan-out pieces:

* `clematis/memory/index.py:InMemoryIndex._iter_shards_for_t2`  → `iterShards`
* `clematis/engine/stages/t2/shard.py:_qscore`                   → `qscoreF` (explicit half-even
  rounding of the exact binary value of `float(s) * 1_000_000_000`; `Float.round` is *not* used)
* `clematis/engine/stages/t2/shard.py:merge_tier_hits_across_shards_dict` → `mergeTiers`
* the per-shard / whole-index ranking `scored.sort(key=(-score, id)); scored[:k]` → `topk`

Import-free and executable.  Episode / hit ids are code-point lists.  The merge is generic in the
comparison `le` (the code uses `hitLe _qscore`), so that the top-k theorem can be stated for "the
same key on both sides" and the `_qscore`-vs-raw-score discrepancy shown by a witness.
-/
import Clem.Py.Sort

namespace Clem.ParT2

open Clem.Py

/-! ### shards -/

/-- `for start in range(0, count, size): yield eps[start:min(start+size, count)]` (fuel = count). -/
def chunks {ε : Type} (size : Nat) : Nat → List ε → List (List ε)
  | 0, _ => []
  | fuel + 1, l => if l.isEmpty then [] else l.take size :: chunks size fuel (l.drop size)

/-- `_iter_shards_for_t2(tier, suggested)`; "yield self" is the whole episode list. -/
def iterShards {ε : Type} (eps : List ε) (suggested : Option Int) : List (List ε) :=
  let count := eps.length
  if count ≤ 1 then [eps]
  else match suggested with
    | none => [eps]
    | some s =>
      if s ≤ 1 then [eps]
      else
        let chunksN := min s.toNat count
        let size := max 1 ((count + chunksN - 1) / chunksN)
        -- first iteration: `if end - start >= count: yield self; return`
        if size ≥ count then [eps] else chunks size count eps

/-- monitor: the shards are a contiguous, order-preserving partition into non-empty pieces. -/
def partitionB {ε : Type} [DecidableEq ε] (eps : List ε) (shards : List (List ε)) : Bool :=
  decide (shards.flatten = eps) && (eps.isEmpty || shards.all (fun s => !s.isEmpty))

/-! ### `_qscore` -/

/-- Python `round(x)` (half to even) of the exact dyadic value `m · 2^e`. -/
def roundHalfEven (m e : Int) : Int :=
  if e ≥ 0 then m * 2 ^ e.toNat
  else
    let d : Int := 2 ^ (-e).toNat
    let fl := Int.fdiv m d
    let r := m - fl * d
    if 2 * r < d then fl else if 2 * r > d then fl + 1 else if fl % 2 = 0 then fl else fl + 1

/-- `_qscore(score)`: NaN ↦ 0; `int(round(s * 1e9))`; `round(inf)` raises ⇒ `except` ⇒ 0. -/
def qscoreF (s : Float) : Int :=
  if s != s then 0
  else
    let x := s * 1000000000.0
    let b := x.toBits.toNat
    let ex : Nat := (b / 2 ^ 52) % 2048
    let frac : Nat := b % 2 ^ 52
    let neg : Bool := decide (b / 2 ^ 63 = 1)
    if ex = 2047 then 0
    else
      let m : Int := if ex = 0 then (frac : Int) else (frac : Int) + 2 ^ 52
      let e : Int := if ex = 0 then -1074 else (ex : Int) - 1075
      roundHalfEven (if neg then -m else m) e

/-! ### hits, ranking, merge -/

structure Hit (α : Type) where
  id : List Nat
  score : α
deriving Repr, DecidableEq

/-- merge key `(-_qscore(s), str(id))`, tuple `≤`. -/
def hitLe {α : Type} (q : α → Int) (a b : Hit α) : Bool :=
  decide (q b.score < q a.score) || (q a.score == q b.score && lexLe a.id b.id)

/-- merge key after the tie repair: `(-_qscore(s), -raw(s), str(id))`, tuple `≤` — hits inside one
quantum keep the order of their raw scores, then id. -/
def hitLeQR {α : Type} (q : α → Int) (lt : α → α → Bool) (a b : Hit α) : Bool :=
  decide (q b.score < q a.score) ||
    (q a.score == q b.score && (lt b.score a.score || (!(lt a.score b.score) && lexLe a.id b.id)))

/-- ranking key of `_rank_by_cosine`: `(-score, str(id))` on the raw score, tuple `≤`. -/
def rawLe {α : Type} (lt : α → α → Bool) (a b : Hit α) : Bool :=
  lt b.score a.score || (!(lt a.score b.score) && lexLe a.id b.id)

/-- `sorted(...)[:k]`. -/
def topk {X : Type} (le : X → X → Bool) (k : Nat) (l : List X) : List X := (isort le l).take k

/-- `_rank_by_cosine` after the sort: one entry per episode id (its best-ranked copy), in order. -/
def dedupAux {α : Type} : List (List Nat) → List (Hit α) → List (Hit α)
  | _, [] => []
  | seen, h :: t => if seen.contains h.id then dedupAux seen t else h :: dedupAux (h.id :: seen) t

def dedupIds {α : Type} (l : List (Hit α)) : List (Hit α) := dedupAux [] l

/-- `_rank_by_cosine`: sort, keep the first copy of every id, cut to `k`. -/
def rankU {α : Type} (le : Hit α → Hit α → Bool) (k : Nat) (l : List (Hit α)) : List (Hit α) :=
  (dedupIds (isort le l)).take k

/-- inner loop of the merge (`for h in bucket:` with `seen`, early `return` at `k_retrieval`):
`(out, seen, returned)`. -/
def fill {α : Type} (k : Int) : List (Hit α) → List (Hit α) → List (List Nat) →
    List (Hit α) × List (List Nat) × Bool
  | [], out, seen => (out, seen, false)
  | h :: rest, out, seen =>
    if seen.contains h.id then fill k rest out seen
    else
      let out' := out ++ [h]
      let seen' := h.id :: seen
      if ((out'.length : Nat) : Int) ≥ k then (out', seen', true) else fill k rest out' seen'

abbrev ShardHits (α : Type) := List (List Nat × List (Hit α))

/-- `for d in shard_hits_by_tier: bucket.extend(d.get(tier) or [])`. -/
def bucketOf {α : Type} (tier : List Nat) (shards : List (ShardHits α)) : List (Hit α) :=
  shards.flatMap (fun d => (d.lookup tier).getD [])

/-- `merge_tier_hits_across_shards_dict(shard_hits_by_tier, tiers, k_retrieval)` with the sort
key as parameter: `(merged, used_tiers)`. -/
def mergeTiers {α : Type} (le : Hit α → Hit α → Bool) (k : Int) (shards : List (ShardHits α)) :
    List (List Nat) → List (Hit α) → List (List Nat) → List (List Nat) →
    List (Hit α) × List (List Nat)
  | [], out, _, used => (out, used)
  | t :: ts, out, seen, used =>
    let bucket := bucketOf t shards
    let used' := used ++ [t]
    if bucket.isEmpty then mergeTiers le k shards ts out seen used'
    else
      let r := fill k (isort le bucket) out seen
      if r.2.2 then (r.1, used') else mergeTiers le k shards ts r.1 r.2.1 used'

def mergeTierHits {α : Type} (le : Hit α → Hit α → Bool) (k : Int) (shards : List (ShardHits α))
    (tiers : List (List Nat)) : List (Hit α) × List (List Nat) :=
  mergeTiers le k shards tiers [] [] []

/-- monitor on a merge result: ids unique, at most `k` hits (`k ≥ 1`), every hit comes from some
shard bucket of a listed tier, `used_tiers` is a prefix of `tiers`. -/
def mergeOkB {α : Type} [DecidableEq α] (k : Int) (shards : List (ShardHits α))
    (tiers : List (List Nat)) (res : List (Hit α) × List (List Nat)) : Bool :=
  decide ((res.1.map Hit.id).Nodup) && decide (((res.1.length : Nat) : Int) ≤ max k 1)
  && res.1.all (fun h => tiers.any (fun t => (bucketOf t shards).contains h))
  && (res.2 == tiers.take res.2.length)

/-! ### the sequential tier walk of `t2_semantic` (for the par = seq theorem) -/

/-- inner `for h in hits:` of the *sequential* tier walk in `t2_semantic` (dedupe by id,
`break` once `k_retrieval` hits are retrieved): `(retrieved, seen_ids)`. -/
def seqFill {α : Type} (k : Int) : List (Hit α) → List (Hit α) → List (List Nat) →
    List (Hit α) × List (List Nat)
  | [], out, seen => (out, seen)
  | h :: rest, out, seen =>
    if seen.contains h.id then seqFill k rest out seen
    else
      let out' := out ++ [h]
      let seen' := h.id :: seen
      if ((out'.length : Nat) : Int) ≥ k then (out', seen') else seqFill k rest out' seen'

/-- the sequential tier walk: `hitsOf t` is what `index.search_tiered(tier=t, k=k_retrieval)` returns;
`(retrieved, tier_sequence)`. -/
def seqWalk {α : Type} (k : Int) (hitsOf : List Nat → List (Hit α)) :
    List (List Nat) → List (Hit α) → List (List Nat) → List (List Nat) →
    List (Hit α) × List (List Nat)
  | [], out, _, used => (out, used)
  | t :: ts, out, seen, used =>
    let r := seqFill k (hitsOf t) out seen
    let used' := used ++ [t]
    if ((r.1.length : Nat) : Int) ≥ k then (r.1, used') else seqWalk k hitsOf ts r.1 r.2 used'

/-- the dict a shard contributes: every tier ↦ the shard's own top-k of that tier's candidates. -/
def shardDict {α σ : Type} (le : Hit α → Hit α → Bool) (k : Nat) (allTiers : List (List Nat))
    (candSh : σ → List Nat → List (Hit α)) (sh : σ) : ShardHits α :=
  allTiers.map (fun t => (t, topk le k (candSh sh t)))

/-- the dict a shard contributes after the `_rank_by_cosine` repair: every tier ↦ the shard's own
top-k-unique (`rankU`) of that tier's candidates. -/
def shardDictU {α σ : Type} (le : Hit α → Hit α → Bool) (k : Nat) (allTiers : List (List Nat))
    (candSh : σ → List Nat → List (Hit α)) (sh : σ) : ShardHits α :=
  allTiers.map (fun t => (t, rankU le k (candSh sh t)))

end Clem.ParT2
