/-
THE LOG STREAM OF A COMPOSED TURN — every record `Orchestrator.run_turn` hands to `append_jsonl`, in emission order,
with its exact key order and value kinds (int / float / str / bool / null / dict / list), for the composed turn of
`Clem/Model/Compose.lean`, followed by `normalize_for_identity` (clematis/engine/util/io_logging.py) as
`append_jsonl` applies it before the line is written.

    t1 → t2 → [scheduler, turn]            (yield after T1 / T2)
       → [gel: observe_retrieval] → (T3 plan) → [scheduler, turn]  (yield after the plan)
       → t3 → t3_plan → t3_dialogue → t4 → [dry run: return] → [scheduler, turn]
       → [gel: edge_decay] → [gel: merge/split/promotion] → apply → [scheduler, turn]
       → [t3_reflection] → health → turn

WHAT A RECORD IS A FUNCTION OF.  `rawRecords w c env s t o k`: the world / config / state / turn input / oracles of the
composed turn, the printed constants `env : LogEnv` (strings the records copy from ctx and config: `ctx.now`, the
owner-scope / GEL mode / scheduler policy / degree-norm names, CI flag) and the MEASURED wall-clock values `k : Clock`
(every `time.perf_counter()` difference the records carry).  `emitted` = `rawRecords` after the identity
normalisation.  The theorems (`Clem/Props/C01/ComposeLog.lean`): under CI the five identity streams do not depend
on `k` at all; the other streams depend on it only through the named `ms*` fields; what the records say about the
stages are the composed turn's stage outputs.

Record values are `Clem.Py.JV.J α` (insertion-ordered dicts).  Keys are code-point lists written with `k%"…"`.
Import-free apart from the models.
-/
import Clem.Model.Compose

namespace Clem.Compose

open Clem.Py.JV

/-- ASCII string literal as a code-point list (elaboration-time; the term is a plain list of numerals) -/
macro "k%" s:str : term => do
  let cs := s.getString.toList.toArray.map (fun c => Lean.Syntax.mkNumLit (toString c.toNat))
  `(([$cs,*] : List Nat))

/-- the constants the records print: functions of (ctx, config) -/
structure LogEnv where
  /-- `ctx.now` when truthy, as logged (the rig's ctx carries a string) -/
  now : Option Str := none
  /-- the apply record's `now`: `_iso_from_ms(ctx.now_ms)` (only when `ctx.now` is truthy and `now_ms` is set) -/
  nowIsoApply : Option Str := none
  /-- `t2.owner_scope` as the T2 metrics print it -/
  ownerScope : Str := k%"any"
  /-- `graph.update.mode` -/
  gelMode : Str := k%"additive"
  /-- `scheduler.policy` -/
  policy : Str := k%"round_robin"
  /-- `t2.hybrid.degree_norm` -/
  degreeNorm : Str := k%"none"
  /-- `t3.backend` -/
  policyBackend : Str := k%"rulebased"
  /-- `t3.dialogue.include_top_k_snippets or 2` -/
  dlgTopK : Int := 2
  /-- `CI=true` in the environment -/
  ci : Bool := true
deriving Repr

/-- MEASURED wall-clock values of one turn (oracles; `round(… * 1000.0, 3)` of `perf_counter` differences) -/
structure Clock (α : Type) where
  t1 : α
  t2 : α
  t4 : α
  apply : α
  /-- `durations_ms.total` of the turn record that is written (final or yield) -/
  total : α
  plan : α
  rag : α
  speak : α
  gelObs : α
  gelTick : α
  gelMaint : α
  /-- `consumed["ms"]` of the yield event -/
  consumedMs : Int
  /-- `metrics["ms"]` of the reflection result -/
  refl : α

section records
variable {α : Type} [Clem.T1.Num α] [Clem.T2.Num α] [Clem.T3.PyOrd α] [Clem.Py.Num α] [Clem.Py.NumGel α]
variable (w : World α) (c : Cfg α) (env : LogEnv) (s : State α) (t : TurnIn α) (o : Oracles α) (k : Clock α)

def fzero : α := Clem.Py.Num.zero

def jn (n : Nat) : J α := .int (n : Int)
def jsS (x : Str) : J α := .str x

/-- `**({"now": now} if now else {})` -/
def nowKV : List (Str × J α) :=
  match env.now with
  | some n => [(k%"now", .str n)]
  | none => []

/-- `{"turn": turn_id, "agent": agent_id, …}` -/
def headKV : List (Str × J α) := [(k%"turn", .int t.turnId), (k%"agent", .str w.agent)]

/-! ### stage records -/

def t1Raw : J α :=
  let r := t1Of w c s t
  .obj (headKV w t ++
    [(k%"pops", jn r.pops), (k%"iters", .int r.iters), (k%"propagations", jn r.props),
     (k%"radius_cap_hits", jn r.radiusHits), (k%"layer_cap_hits", jn r.layerHits),
     (k%"node_budget_hits", jn r.nodeHits), (k%"max_delta", .num r.maxDelta),
     (k%"graphs_touched", jn w.graphs.length), (k%"cache_hits", jn r.cacheHits),
     (k%"cache_misses", jn r.cacheMisses), (k%"cache_used", .bool (decide (r.cacheHits > 0))),
     (k%"cache_enabled", .bool c.t1.cacheOn), (k%"ms", .num k.t1)] ++ nowKV env)

def tierNameS : Nat → Str
  | 0 => k%"exact_semantic"
  | 1 => k%"cluster_semantic"
  | 2 => k%"archive"
  | _ => k%"?"

def hybridKV (h : HInfo) : List (Str × J α) :=
  match h with
  | .absent => []
  | .kc n => [(k%"hybrid", .obj [(k%"k_considered", .int n)])]
  | .full n re m =>
    [(k%"hybrid", .obj [(k%"anchor_top_m", .int m), (k%"walk_hops", .int c.hyb.hops),
       (k%"edge_threshold", .num c.hyb.thresh), (k%"lambda_graph", .num c.hyb.lam),
       (k%"damping", .num (if c.hyb.hops == 2 then c.hyb.damping else fzero)),
       (k%"degree_norm", .str env.degreeNorm), (k%"k_max", .int c.hyb.kMax),
       (k%"k_considered", .int n), (k%"k_reordered", jn re)])]

def t2Raw : J α :=
  let r := runTurn w c s t o
  let seq := r.t2.tierSeq
  let legacyMiss := (seq.filter (fun x => x == 0 || x == 1)).length
  .obj (headKV w t ++
    [(k%"tier_sequence", .arr (seq.map (fun x => .str (tierNameS x)))),
     (k%"k_returned", jn r.t2.retrieved.length), (k%"k_used", jn r.t2.used.length),
     (k%"k_residual", jn r.t2.residual.length),
     (k%"sim_stats", .obj [(k%"mean", .num r.simMean), (k%"max", .num r.simMax)]),
     (k%"score_stats", .obj [(k%"mean", .num r.scoreMean), (k%"max", .num r.scoreMax)]),
     (k%"owner_scope", .str env.ownerScope),
     (k%"caps", .obj [(k%"residual_cap", .int c.residualCap)]),
     (k%"cache_enabled", .bool c.t2CacheOn), (k%"cache_used", .bool c.t2CacheOn), (k%"cache_hits", jn 0),
     (k%"cache_misses", jn (if c.t2CacheOn then max 1 legacyMiss else legacyMiss)),
     (k%"backend", .str (k%"inmemory")), (k%"backend_fallback", .bool false),
     (k%"hybrid_used", .bool r.t2.hybridUsed)] ++ hybridKV c env r.hinfo ++
    (if c.orchCacheOn then [(k%"cache_hit", .bool r.orchHit), (k%"cache_size", jn r.orchSize)] else []) ++
    [(k%"ms", .num k.t2)] ++ nowKV env)

def gelObsRaw (r : Clem.Gel.ObsOut) : J α :=
  .obj (headKV w t ++
    [(k%"event", .str (k%"observe_retrieval")), (k%"k_in", jn r.kIn), (k%"k_used", jn r.kUsed),
     (k%"pairs_updated", jn r.pairsUpdated), (k%"threshold", .num c.gel.threshold),
     (k%"mode", .str env.gelMode), (k%"alpha", .num c.gel.alpha), (k%"ms", .num k.gelObs)] ++ nowKV env)

def gelTickRaw (r : Clem.Gel.TickOut) : J α :=
  .obj (headKV w t ++
    [(k%"event", .str (k%"edge_decay")), (k%"decayed_edges", jn r.decayed), (k%"dropped_edges", jn r.dropped),
     (k%"half_life_turns", .num c.gel.hl), (k%"floor", .num c.gel.floor), (k%"ms", .num k.gelTick)] ++ nowKV env)

def gelMaintRaw (m : Nat × Nat × Nat × Nat × Nat) : J α :=
  .obj (headKV w t ++
    [(k%"merge_attempts", jn m.1), (k%"merge_applied", jn m.2.1), (k%"split_attempts", jn m.2.2.1),
     (k%"split_applied", jn m.2.2.2.1), (k%"promotion_applied", jn m.2.2.2.2), (k%"ms", .num k.gelMaint)] ++
    nowKV env)

/-- `ops_counts`: kind ↦ count, keys in order of first occurrence -/
def opsCounts : List Clem.T3.Op → List (Str × Nat)
  | [] => []
  | op :: r =>
    let rest := opsCounts r
    match aget (opKind op) rest with
    | some n => (opKind op, n + 1) :: rest.filter (fun p => p.1 != opKind op)
    | none => (opKind op, 1) :: rest

def opsCountsJ (ops : List Clem.T3.Op) : J α := .obj ((opsCounts ops).map (fun p => (p.1, jn p.2)))

/-- did `rag_once` run (`requested_retrieve and max_rag_loops >= 1`): only then `ms_rag` is a measurement -/
def ragRan : Bool := (plan0Of w c s t o).ops.any Clem.T3.Op.isRetrieve && decide (1 ≤ c.maxRagLoops)

def ragMs : α := if ragRan w c s t o then k.rag else fzero

def t3Raw : J α :=
  let r := runTurn w c s t o
  .obj (headKV w t ++
    [(k%"backend", .str (k%"rulebased")), (k%"ops_counts", opsCountsJ r.ops),
     (k%"requested_retrieve", .bool r.requestedRetrieve), (k%"rag_used", .bool r.ragUsed),
     (k%"ms_plan", .num k.plan), (k%"ms_rag", .num (ragMs w c s t o k)), (k%"ms_speak", .num k.speak)] ++ nowKV env)

def t3PlanRaw : J α :=
  let r := runTurn w c s t o
  .obj (headKV w t ++
    [(k%"policy_backend", .str env.policyBackend), (k%"backend", .str (k%"rulebased")),
     (k%"ops_counts", opsCountsJ r.ops), (k%"requested_retrieve", .bool r.requestedRetrieve),
     (k%"rag_used", .bool r.ragUsed), (k%"reflection", .bool w.reflFlag),
     (k%"ms_deliberate", .num k.plan), (k%"ms_rag", .num (ragMs w c s t o k))] ++ nowKV env)

/-- `speak`'s metrics: C13's `Clem.T3.speak` on the same core text the utterance is cut from -/
def speakOut : Clem.T3.Trunc :=
  Clem.T3.speak (speakCore (planFinal w c s t o).ops) true [] (opTok (planFinal w c s t o).ops) (some c.tokens)

/-- `len(_top_snippet_ids(dialog_bundle))`: the ids of the stage's hits, cut at `include_top_k_snippets` -/
def snippetCount : Nat :=
  min (t2Of w c s t o).retrieved.length (if 0 ≤ env.dlgTopK then env.dlgTopK.toNat else 0)

def t3DialogueRaw : J α :=
  .obj (headKV w t ++
    [(k%"tokens", jn (speakOut w c s t o).tokens), (k%"truncated", .bool (speakOut w c s t o).truncated),
     (k%"style_prefix_used", .bool false), (k%"snippet_count", jn (snippetCount w c env s t o)),
     (k%"ms", .num k.speak), (k%"backend", .str (k%"rulebased"))] ++ nowKV env)

def reasonsJ (r : Clem.T4.Result α) : List (J α) :=
  (if r.rCooldown then [.str (k%"COOLDOWN_BLOCKED")] else []) ++
  (if r.rNovelty then [.str (k%"NOVELTY_SPIKE")] else []) ++
  (if r.rNorm then [.str (k%"DELTA_NORM_HIGH")] else []) ++
  (if r.rChurn then [.str (k%"CHURN_CAP_HIT")] else [])

def t4Raw (r : Clem.T4.Result α) : J α :=
  .obj (headKV w t ++
    [(k%"counts", .obj [(k%"input", jn r.nInput), (k%"after_cooldown", jn r.nAfterCd),
        (k%"after_novelty", jn r.nAfterNov), (k%"after_l2", jn r.nAfterL2), (k%"approved", jn r.nApproved),
        (k%"dropped_tail", .int r.droppedTail)]),
     (k%"clamps", .obj [(k%"novelty_clamped", jn r.noveltyClamped), (k%"l2_scale", .num r.scale)]),
     (k%"cooldowns", .obj [(k%"blocked_ops", jn r.nBlocked)]),
     (k%"caps", .obj [(k%"delta_norm_cap_l2", .num c.capL2), (k%"novelty_cap_per_node", .num c.capNov),
        (k%"churn_cap_edges", .int c.churn)]),
     (k%"approved", jn r.approved.length), (k%"rejected", jn r.rejected.length),
     (k%"reasons", .arr (reasonsJ r)), (k%"ms", .num k.t4)] ++ nowKV env)

/-- `state_<agent>.json` (the harness compares the basename: the directory is the configured `snapshot_dir`) -/
def snapName : Str := k%"state_" ++ w.agent ++ k%".json"

/-- the apply record: `now` is re-derived from `ctx.now_ms`; `ms` is forced to `0.0` by the orchestrator itself
under CI (before the normalisation does the same) -/
def applyRaw (a : Clem.Apply.Out) : J α :=
  .obj (headKV w t ++
    [(k%"applied", .int a.applied), (k%"clamps", .int a.clamps), (k%"version_etag", .str (decStr a.version)),
     (k%"snapshot", if a.snap.isSome then .str (snapName w) else .null),
     (k%"cache_invalidations", jn a.invalidated), (k%"ms", .num (if env.ci then fzero else k.apply))] ++
    (match env.now, env.nowIsoApply with
     | some _, some iso => [(k%"now", .str iso)]
     | _, _ => []))

def healthRaw : J α :=
  .obj (headKV w t ++ [(k%"code", .str (k%"OK")), (k%"message", .str (k%"demo"))])

def errNameS : Clem.Refl.ErrTy → Str
  | .valueError => k%"ValueError"
  | .fixtureMissing => k%"FixtureMissingError"
  | .injected n => n

def reflReasonJ : Option Clem.Refl.Reason → J α
  | none => .null
  | some (.err e) => .str (k%"reflect_error:" ++ errNameS e)
  | some .timeout => .str (k%"reflection_timeout")

def reflRaw (l : Clem.Refl.LogRec) : J α :=
  .obj (headKV w t ++
    [(k%"summary_len", jn l.summaryLen), (k%"ops_written", jn l.opsWritten), (k%"embed", .bool l.embed),
     (k%"backend", .str l.backend), (k%"ms", .num k.refl), (k%"reason", reflReasonJ l.reason)])

/-! ### scheduler event and turn rollup -/

def reasonS : Clem.Sched.YReason → Str
  | .wall => k%"WALL_MS" | .t1Iters => k%"BUDGET_T1_ITERS" | .t1Pops => k%"BUDGET_T1_POPS"
  | .t2K => k%"BUDGET_T2_K" | .t3Ops => k%"BUDGET_T3_OPS" | .quantum => k%"QUANTUM_EXCEEDED"

def stageS : Clem.Sched.Stage → Str
  | .T1 => k%"T1" | .T2 => k%"T2" | .T3 => k%"T3" | .T4 => k%"T4" | .Apply => k%"Apply"

def optIntKV (key : Str) : Option Int → List (Str × J α)
  | some v => [(key, .int v)]
  | none => []

def optIntJ : Option Int → J α
  | some v => .int v
  | none => .null

/-- the `scheduler.jsonl` event of a yield at boundary `st` for reason `r` under budgets `b` -/
def schedRaw (b : Clem.Sched.Budgets) (st : Clem.Sched.Stage) (r : Clem.Sched.YReason) : J α :=
  let ro := runTurn w c s t o
  let consumed : List (Str × J α) := match st with
    | .T1 => [(k%"t1_iters", .int ro.t1.iters), (k%"t1_pops", jn ro.t1.pops)]
    | .T2 => [(k%"t2_k", jn ro.t2.used.length)]
    | .T3 => [(k%"t3_ops", jn ro.planOps0.length)]
    | _ => []
  .obj [(k%"turn", .int t.turnId), (k%"slice", .int (t.sliceIdxPrev + 1)), (k%"agent", .str w.agent),
        (k%"policy", .str env.policy), (k%"reason", .str (reasonS r)), (k%"enforced", .bool true),
        (k%"stage_end", .str (stageS st)), (k%"quantum_ms", optIntJ b.quantum), (k%"wall_ms", optIntJ b.wall),
        (k%"budgets", .obj (optIntKV (k%"t1_pops") b.t1Pops ++ optIntKV (k%"t1_iters") b.t1Iters ++
                            optIntKV (k%"t2_k") b.t2K ++ optIntKV (k%"t3_ops") b.t3Ops ++
                            optIntKV (k%"wall_ms") b.wall)),
        (k%"consumed", .obj ((k%"ms", .int k.consumedMs) :: consumed)), (k%"queued", .arr []), (k%"ms", .int 0)]

def t1Roll : J α :=
  let r := t1Of w c s t
  .obj [(k%"pops", jn r.pops), (k%"iters", .int r.iters), (k%"graphs_touched", jn w.graphs.length)]

def t2Roll : J α :=
  let r := runTurn w c s t o
  .obj [(k%"k_returned", jn r.t2.retrieved.length), (k%"k_used", jn r.t2.used.length),
        (k%"cache_hit", .bool r.orchHit)]

def t4Roll : J α :=
  let r := runTurn w c s t o
  .obj [(k%"approved", jn (match r.t4 with | some x => x.approved.length | none => 0)),
        (k%"rejected", jn (match r.t4 with | some x => x.rejected.length | none => 0))]

/-- `durations_ms`: the stage times measured so far, `0.0` for the stages not reached -/
def durations (upto : Option Clem.Sched.Stage) : J α :=
  let rank : Nat := match upto with
    | some .T1 => 0 | some .T2 => 1 | some .T3 => 1 | some .T4 => 2 | some .Apply => 3 | none => 3
  .obj [(k%"t1", .num k.t1), (k%"t2", .num (if 1 ≤ rank then k.t2 else fzero)),
        (k%"t4", .num (if 2 ≤ rank && c.t4Enabled then k.t4 else fzero)),
        (k%"apply", .num (if 3 ≤ rank && c.t4Enabled then k.apply else fzero)), (k%"total", .num k.total)]

/-- the early `turn.jsonl` rollup of a yield -/
def turnYieldRaw (st : Clem.Sched.Stage) (r : Clem.Sched.YReason) : J α :=
  .obj (headKV w t ++
    [(k%"durations_ms", durations c k (some st)), (k%"t1", t1Roll w c s t),
     (k%"t2", match st with | .T1 => .obj [] | _ => t2Roll w c s t o),
     (k%"t4", match st with | .T4 => t4Roll w c s t o | .Apply => t4Roll w c s t o | _ => .obj []),
     (k%"slice_idx", .int (t.sliceIdxPrev + 1)), (k%"yielded", .bool true),
     (k%"yield_reason", .str (reasonS r))] ++ nowKV env)

/-- the final `turn.jsonl` rollup -/
def turnFinalRaw : J α :=
  .obj (headKV w t ++
    [(k%"durations_ms", durations c k none), (k%"t1", t1Roll w c s t), (k%"t2", t2Roll w c s t o),
     (k%"t4", t4Roll w c s t o)] ++
    (if c.sched.isSome then [(k%"slice_idx", .int (t.sliceIdxPrev + 1)), (k%"yielded", .bool false)] else []) ++
    nowKV env)

/-! ### the stream of one turn -/

def fT1 : Str := k%"t1.jsonl"
def fT2 : Str := k%"t2.jsonl"
def fT3 : Str := k%"t3.jsonl"
def fT3Plan : Str := k%"t3_plan.jsonl"
def fT3Dlg : Str := k%"t3_dialogue.jsonl"
def fT4 : Str := k%"t4.jsonl"
def fApply : Str := k%"apply.jsonl"
def fTurn : Str := k%"turn.jsonl"
def fSched : Str := k%"scheduler.jsonl"
def fGel : Str := k%"gel.jsonl"
def fRefl : Str := k%"t3_reflection.jsonl"
def fHealth : Str := k%"health.jsonl"

/-- a record whose payload still waits for the measured clock values -/
abbrev RecF (α : Type) := Str × (Clock α → J α)

/-- the records of a yield at `st` -/
def yieldRecsF (st : Clem.Sched.Stage) (r : Clem.Sched.YReason) : List (RecF α) :=
  (match c.sched with
   | some b => [(fSched, fun k => schedRaw w c env s t o k b st r)]
   | none => []) ++ [(fTurn, fun k => turnYieldRaw w c env s t o k st r)]

def optRecF (f : Str) : Option (Clock α → J α) → List (RecF α)
  | some r => [(f, r)]
  | none => []

/-- **every record the turn hands to `append_jsonl`, in order** (file name, payload before normalisation, as a
function of the measured clock values — WHICH records are written, and in which order, does not depend on them).
A yield at a boundary cuts the stream there; a dry run (T4 on) returns after the t4 record. -/
def rawRecordsF : List (RecF α) :=
  let r := runTurn w c s t o
  let yAt (st : Clem.Sched.Stage) : Option Clem.Sched.YReason :=
    match r.yielded with
    | some (st', why) => if st' == st then some why else none
    | none => none
  let pT1 : List (RecF α) := [(fT1, fun k => t1Raw w c env s t k)]
  match yAt .T1 with
  | some why => pT1 ++ yieldRecsF w c env s t o .T1 why
  | none =>
  let pT2 := pT1 ++ [(fT2, fun k => t2Raw w c env s t o k)]
  match yAt .T2 with
  | some why => pT2 ++ yieldRecsF w c env s t o .T2 why
  | none =>
  let pObs := pT2 ++ optRecF fGel (r.gelObs.map (fun x k => gelObsRaw w c env t k x))
  match yAt .T3 with
  | some why => pObs ++ yieldRecsF w c env s t o .T3 why
  | none =>
  let pT3 := pObs ++ (if r.t3Ran then
      [(fT3, fun k => t3Raw w c env s t o k), (fT3Plan, fun k => t3PlanRaw w c env s t o k),
       (fT3Dlg, fun k => t3DialogueRaw w c env s t o k)]
    else [])
  let pT4 := pT3 ++ optRecF fT4 (r.t4.map (fun x k => t4Raw w c env t k x))
  if c.t4Enabled && t.dryRun then pT4
  else
  match yAt .T4 with
  | some why => pT4 ++ yieldRecsF w c env s t o .T4 why
  | none =>
  let pAp := pT4 ++ optRecF fGel (r.gelTick.map (fun x k => gelTickRaw w c env t k x)) ++
    optRecF fGel (r.gelMaint.map (fun x k => gelMaintRaw w env t k x)) ++
    optRecF fApply (r.apply.map (fun x k => applyRaw w env t k x))
  match yAt .Apply with
  | some why => pAp ++ yieldRecsF w c env s t o .Apply why
  | none =>
  pAp ++ optRecF fRefl (r.refl.log.map (fun x k => reflRaw w t k x)) ++
    [(fHealth, fun _ => healthRaw w t), (fTurn, fun k => turnFinalRaw w c env s t o k)]

/-- the records of the turn for the measured clock values `k` -/
def rawRecords : List (Str × J α) := (rawRecordsF w c env s t o).map (fun p => (p.1, p.2 k))

end records

/-! ## `normalize_for_identity` -/

section normalize
variable {α : Type} [Clem.Py.Num α]

def identityLogs : List Str := [fT1, fT2, fT4, fApply, fTurn]

/-- `if "ms" in out: out["ms"] = 0.0` -/
def zeroMs (kv : List (Str × J α)) : List (Str × J α) :=
  kv.map (fun p => if p.1 == k%"ms" then (p.1, .num (Clem.Py.Num.zero : α)) else p)

/-- `out.pop(key, None)` -/
def popKey (key : Str) (kv : List (Str × J α)) : List (Str × J α) := kv.filter (fun p => p.1 != key)

/-- `{k: 0.0 for k in durations.keys()}` when `durations_ms` is a dict -/
def zeroDurations (kv : List (Str × J α)) : List (Str × J α) :=
  kv.map (fun p => if p.1 == k%"durations_ms" then
      (match p.2 with
       | .obj d => (p.1, .obj (d.map (fun q => (q.1, .num (Clem.Py.Num.zero : α)))))
       | v => (p.1, v))
    else p)

/-- the turn-stream special case: a truthy `yielded` is kept (as `True`, `slice_idx` through `int()`), a falsy one is
dropped together with `slice_idx` -/
def normYield (isZero : α → Bool) (kv : List (Str × J α)) : List (Str × J α) :=
  match aget (k%"yielded") kv with
  | some v =>
    if truthy isZero v then kv.map (fun p => if p.1 == k%"yielded" then (p.1, .bool true) else p)
    else popKey (k%"slice_idx") (popKey (k%"yielded") kv)
  | none => popKey (k%"slice_idx") kv

/-- `normalize_for_identity(name, rec)`: a no-op unless `CI=true`; `t3_reflection.jsonl`: `ms` zeroed; the five
identity logs: `ms` zeroed, `now` dropped, and for `turn.jsonl` the durations zeroed and the scheduling context kept
only when a yield happened; every other stream unchanged. -/
def normalizeForIdentity (ci : Bool) (isZero : α → Bool) (name : Str) (r : J α) : J α :=
  if !ci then r
  else match r with
    | .obj kv =>
      if name == fRefl then .obj (zeroMs kv)
      else if identityLogs.contains name then
        let out := popKey (k%"now") (zeroMs kv)
        if name == fTurn then .obj (normYield isZero (zeroDurations out)) else .obj out
      else r
    | v => v

end normalize

/-! ## monitors on the REAL log lines of a turn (evaluated by the driver on what the real turn wrote) -/

section monitors
variable {α : Type} [Clem.Py.Num α]

/-- every line is a fixpoint of the identity normalisation: under CI no identity line carries `now`, a non-zero `ms`,
a non-zero duration, or the scheduling context of a completed slice -/
def monNormalized (weq : α → α → Bool) (isZero : α → Bool) (recs : List (Str × J α)) : Bool :=
  recs.all (fun p => jbeq weq (normalizeForIdentity true isZero p.1 p.2) p.2)

def fieldOf (key : Str) : J α → Option (J α)
  | .obj kv => aget key kv
  | _ => none

def recOf (f : Str) (recs : List (Str × J α)) : Option (J α) := (recs.find? (fun p => p.1 == f)).map (·.2)

def sameField (weq : α → α → Bool) (a b : Option (J α)) : Bool :=
  match a, b with
  | some x, some y => jbeq weq x y
  | none, none => true
  | _, _ => false

/-- the turn record's rollup restates the stage records of the SAME turn: `t1.{pops,iters,graphs_touched}`,
`t2.{k_returned,k_used,cache_hit}` (cache_hit: `false` when the t2 record has none), `t4.{approved,rejected}` -/
def monRollup (weq : α → α → Bool) (recs : List (Str × J α)) : Bool :=
  match recOf fTurn recs with
  | none => true
  | some tr =>
    let sub (key : Str) : Option (J α) := fieldOf key tr
    let t1ok := match recOf fT1 recs, sub (k%"t1") with
      | some r, some x => [k%"pops", k%"iters", k%"graphs_touched"].all (fun key => sameField weq (fieldOf key r) (fieldOf key x))
      | _, _ => false
    let t2ok := match recOf fT2 recs, sub (k%"t2") with
      | some r, some x =>
        [k%"k_returned", k%"k_used"].all (fun key => sameField weq (fieldOf key r) (fieldOf key x)) &&
        sameField weq (some ((fieldOf (k%"cache_hit") r).getD (.bool false))) (fieldOf (k%"cache_hit") x)
      | none, some (.obj []) => true
      | _, _ => false
    let t4ok := match recOf fT4 recs, sub (k%"t4") with
      | _, some (.obj []) => true
      | some r, some x => [k%"approved", k%"rejected"].all (fun key => sameField weq (fieldOf key r) (fieldOf key x))
      | none, some x => sameField weq (fieldOf (k%"approved") x) (some (.int 0)) &&
                        sameField weq (fieldOf (k%"rejected") x) (some (.int 0))
      | _, _ => false
    t1ok && t2ok && t4ok

/-- the two T3 summary lines restate the plan the turn ended with: `ops_counts` counts the kinds of the FINAL ops in
order of first occurrence, `requested_retrieve` is about the plan BEFORE `rag_once`, `reflection` is the stashed
planner flag (the stock planner never sets `plan.reflection`), and both lines agree on what they share -/
def monT3 (weq : α → α → Bool) (kindsFinal kinds0 : List Str) (flag : Bool) (recs : List (Str × J α)) : Bool :=
  let cnt : List Str → List (Str × Nat) := fun ks =>
    ks.foldl (fun acc kd => match aget kd acc with
      | some n => acc.map (fun p => if p.1 == kd then (p.1, n + 1) else p)
      | none => acc ++ [(kd, 1)]) []
  let expCounts : J α := .obj ((cnt kindsFinal).map (fun p => (p.1, .int (p.2 : Int))))
  let rr : J α := .bool (kinds0.contains (k%"RequestRetrieve"))
  match recOf fT3 recs, recOf fT3Plan recs with
  | none, none => true
  | some a, some b =>
    sameField weq (fieldOf (k%"ops_counts") a) (some expCounts) &&
    sameField weq (fieldOf (k%"ops_counts") b) (some expCounts) &&
    sameField weq (fieldOf (k%"requested_retrieve") a) (some rr) &&
    sameField weq (fieldOf (k%"requested_retrieve") b) (some rr) &&
    sameField weq (fieldOf (k%"rag_used") a) (fieldOf (k%"rag_used") b) &&
    sameField weq (fieldOf (k%"reflection") b) (some (.bool flag)) &&
    sameField weq (fieldOf (k%"ms_plan") a) (fieldOf (k%"ms_deliberate") b) &&
    sameField weq (fieldOf (k%"ms_rag") a) (fieldOf (k%"ms_rag") b)
  | _, _ => false

/-- stage order of the files (gel / scheduler lines aside): a subsequence of the fixed order -/
def stageOrder : List Str := [fT1, fT2, fT3, fT3Plan, fT3Dlg, fT4, fApply, fRefl, fHealth, fTurn]

def isSubseq : List Str → List Str → Bool
  | [], _ => true
  | _ :: _, [] => false
  | a :: as, b :: bs => if a == b then isSubseq as bs else isSubseq (a :: as) bs

/-- the files are written in stage order; a scheduler event is immediately followed by the (last) turn record; every gel
line lies after the t2 line and before the apply line -/
def monOrder (files : List Str) : Bool :=
  let core := files.filter (fun f => f != fGel && f != fSched)
  let schedOk := match files.reverse with
    | a :: b :: _ => (!files.contains fSched) || (a == fTurn && b == fSched && (files.filter (· == fSched)).length == 1)
    | _ => !files.contains fSched
  let idxOf (f : Str) : Option Nat := files.findIdx? (· == f)
  let gelOk := (files.zipIdx).all (fun p => p.1 != fGel ||
    ((match idxOf fT2 with | some i => decide (i < p.2) | none => false) &&
     (match idxOf fApply with | some i => decide (p.2 < i) | none => true)))
  isSubseq core stageOrder && schedOk && gelOk && files.head? == some fT1

end monitors

section emitted
variable {α : Type} [Clem.T1.Num α] [Clem.T2.Num α] [Clem.T3.PyOrd α] [Clem.Py.Num α] [Clem.Py.NumGel α]

/-- **what reaches the log files**: `append_jsonl` normalises each payload, then writes it -/
def emitted (isZero : α → Bool) (w : World α) (c : Cfg α) (env : LogEnv) (s : State α) (t : TurnIn α) (o : Oracles α)
    (k : Clock α) : List (Str × J α) :=
  (rawRecords w c env s t o k).map (fun p => (p.1, normalizeForIdentity env.ci isZero p.1 p.2))

/-- the five identity streams of a turn -/
def identityStream (isZero : α → Bool) (w : World α) (c : Cfg α) (env : LogEnv) (s : State α) (t : TurnIn α)
    (o : Oracles α) (k : Clock α) : List (Str × J α) :=
  (emitted isZero w c env s t o k).filter (fun p => identityLogs.contains p.1)

/-- the log stream of a history: the turns' streams in order, each from the state its predecessors left; `ks` gives
the measured clock values of each turn -/
def histLog (isZero : α → Bool) (w : World α) (c : Cfg α) (env : LogEnv) :
    State α → List ((TurnIn α × Oracles α) × Clock α) → List (Str × J α)
  | _, [] => []
  | s, (t, k) :: r =>
    emitted isZero (wFor w t.1) c env s t.1 t.2 k ++
      histLog isZero w c env (runTurn (wFor w t.1) c s t.1 t.2).state r

end emitted

end Clem.Compose
