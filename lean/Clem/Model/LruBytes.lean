/-
Model of `clematis/engine/util/lru_bytes.py:LRUBytes` (entry- and byte-bounded LRU).

Import-free and executable: the driver runs exactly these definitions, the
theorems in `Clem/Props/C15.lean` are about exactly these definitions.

State representation: the Python object keeps a deque `_q` of keys (LRU → MRU), a
dict `_map : key ↦ (value, cost)` and a running total `_bytes`.  The deque holds
every key of the dict exactly once, so the pair (deque, dict) is the list of
entries in deque order; that list is `items`.  `bytes` is the *running* counter
as the code maintains it (decremented / incremented step by step) – that it
equals the sum of the costs is a theorem, not a definition.

Caps are `Nat` (the code does `int(x or 0)`; negative caps are outside every
validated configuration and make the Python loop pop from an empty deque).
Keys and values are `Nat` (the harness maps hashable keys / values to integers).
-/
namespace Clem.LruBytes

structure Entry where
  key : Nat
  val : Nat
  cost : Nat
deriving Repr, DecidableEq, Inhabited

structure State where
  maxE : Nat
  maxB : Nat
  items : List Entry
  bytes : Int
deriving Repr, DecidableEq, Inhabited

def init (maxE maxB : Nat) : State := ⟨maxE, maxB, [], 0⟩

def lookup (k : Nat) (l : List Entry) : Option Entry := l.find? (fun e => e.key == k)

def without (k : Nat) (l : List Entry) : List Entry := l.filter (fun e => e.key != k)

def sumCost (l : List Entry) : Nat := (l.map Entry.cost).sum

/-- `get`: value if present, key moved to the MRU end. -/
def get (s : State) (k : Nat) : State × Option Nat :=
  match lookup k s.items with
  | none => (s, none)
  | some e => ({ s with items := without k s.items ++ [e] }, some e.val)

/-- The `while` loop of `put`: pop from the LRU side while either cap is exceeded.
`t` is `target_bytes`; returns remaining items, final `t`, and the evicted entries
in eviction order.  On `[]` the Python loop would raise `IndexError` if its
condition still held; `Props/C15.lean` (`evict_nil_unreachable`) shows it cannot. -/
def evictLoop (maxE maxB : Nat) : List Entry → Int → List Entry × Int × List Entry
  | [], t => ([], t, [])
  | e :: es, t =>
    if (0 < maxE ∧ maxE < (e :: es).length) ∨ (0 < maxB ∧ (maxB : Int) < t) then
      let r := evictLoop maxE maxB es (t - e.cost)
      (r.1, r.2.1, e :: r.2.2)
    else (e :: es, t, [])

/-- `_bytes` after the old cost of `k` (if cached) has been subtracted. -/
def bytesWithout (s : State) (k : Nat) : Int :=
  match lookup k s.items with
  | some e => s.bytes - e.cost
  | none => s.bytes

/-- `put key value cost`; returns the new state and the evicted entries (the code
returns `(len evicted, Σ cost evicted)` and calls `on_evict` once per entry, in
this order). -/
def put (s : State) (k v : Nat) (c : Int) : State × List Entry :=
  if s.maxE = 0 ∧ s.maxB = 0 then (s, [])
  else
    let c := c.toNat
    if 0 < s.maxB ∧ s.maxB < c then (s, [])
    else
      let bytes0 : Int := bytesWithout s k
      let items0 := without k s.items ++ [⟨k, v, c⟩]
      let r := evictLoop s.maxE s.maxB items0 (bytes0 + c)
      ({ s with items := r.1, bytes := r.2.1 }, r.2.2)

def clear (s : State) : State := { s with items := [], bytes := 0 }

def contains (s : State) (k : Nat) : Bool :=
  (lookup k s.items).isSome && (decide (0 < s.maxE) || decide (0 < s.maxB))

inductive Op where
  | get (k : Nat)
  | put (k v : Nat) (c : Int)
  | clear
deriving Repr, DecidableEq

def step (s : State) : Op → State
  | .get k => (get s k).1
  | .put k v c => (put s k v c).1
  | .clear => clear s

def run (s : State) (ops : List Op) : State := ops.foldl step s

/-- The invariant as a decidable monitor (evaluated on the implementation's
observable state by the harness, proved of every reachable model state). -/
def invB (s : State) : Bool :=
  decide ((s.items.map Entry.key).Nodup) &&
  decide (s.bytes = (sumCost s.items : Int)) &&
  (s.maxE == 0 || decide (s.items.length ≤ s.maxE)) &&
  (s.maxB == 0 || decide (s.bytes ≤ (s.maxB : Int))) &&
  (!(s.maxE == 0 && s.maxB == 0) || s.items.isEmpty)

end Clem.LruBytes
