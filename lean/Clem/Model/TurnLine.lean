/-
Model of the line a turn emits: `run_turn` passes the (already truncated) utterance of `speak` / `llm_speak` through
`_sanitize_utterance`, which applies every rule of `_UTTER_SANITIZE_RULES` with `pattern.sub(repl, text)` and strips.
Regular-expression matching is an oracle: a rewrite step replaces one matched segment `mid` of `left ++ mid ++ right`
by the rule's replacement.  What the proofs need from a match is recorded per rule in the regenerated table
`Clem.Gen.UtterRules` (a token-minimal matched text, whether a match can start with whitespace).
-/
import Clem.Model.T3
import Clem.Gen.UtterRules

namespace Clem.T3
open Clem.Gen.UtterRules

/-- number of whitespace tokens, counted as token starts (`prevSpace`: the previous character was whitespace / start) -/
def cnt : Bool → Str → Nat
  | _, [] => 0
  | p, c :: cs => if isSpace c then cnt true cs else (if p then 1 else 0) + cnt false cs

def headNonSpace : Str → Bool
  | [] => false
  | c :: _ => !isSpace c

def lastNonSpace (s : Str) : Bool := headNonSpace s.reverse

/-- the table condition: the replacement is a non-empty text that starts and ends with a non-space character and has
no more tokens than the token-minimal match of its pattern; matches never start with whitespace. -/
def ruleOk (r : Rule) : Bool :=
  r.readable && !r.matchMayStartWithSpace && headNonSpace r.repl && lastNonSpace r.repl &&
  decide ((tokenize r.repl).length ≤ (tokenize r.minMatch).length)

def rulesOk : Bool := rules.all ruleOk

/-- one `pattern.sub` replacement: `left ++ mid ++ right ↦ left ++ repl ++ right` where `mid` is a match of the
rule's pattern (so it starts with a non-space character and has at least the minimal number of tokens). -/
inductive Step : Str → Str → Prop
  | mk (r : Rule) (left mid right : Str) (hr : r ∈ rules) (hhead : headNonSpace mid = true)
      (hmin : (tokenize r.minMatch).length ≤ (tokenize mid).length) :
      Step (left ++ mid ++ right) (left ++ r.repl ++ right)

/-- `_sanitize_utterance`: any number of replacements, then `.strip()` -/
inductive Sanitized : Str → Str → Prop
  | done (s : Str) : Sanitized s (strip s)
  | step {s t u : Str} : Step s t → Sanitized t u → Sanitized s u

end Clem.T3
