/-
Model of the T1 fan-out in `clematis/engine/stages/t1.py:t1_propagate`:
the sequential loop over `active_graphs` and the parallel branch (`tasks` keyed `(idx, str(gid))`,
`merge_fn`, `order_key = lambda k: (k[0], k[1])`, `run_parallel`).

The per-graph function `_t1_one_graph` is a pure parameter `g` here (it is modelled by the T1
package); `GM` is the metrics dict it returns, `α` the carrier of `_max_delta_local`
(`Float` in the driver), `D` the delta payload (node id).  `gate` = `perf_enabled and metrics_enabled`.
The sequential loop (`seqStep`) and `merge_fn` (`mergeStep`) are transcribed separately, as in the
source; that they agree is a theorem.
-/
import Clem.Model.Par

namespace Clem.ParT1

open Clem.Par Clem.Py

structure GM (α : Type) where
  pops : Nat
  iters : Nat
  propagations : Nat
  radiusCapHits : Nat
  layerCapHits : Nat
  nodeBudgetHits : Nat
  maxDeltaLocal : α
  cacheHit : Nat
  cacheMiss : Nat
  frontierEvicted : Nat
  dedupHits : Nat
  visitedEvicted : Nat
  cacheEvicted : Nat
  cacheBytes : Nat
deriving Repr, DecidableEq

/-- the 15-tuple returned by `merge_fn` / the 15 locals of the sequential loop. -/
structure Agg (α D : Type) where
  deltas : List D
  pops : Nat
  iters : Nat
  propagations : Nat
  radiusHits : Nat
  layerHits : Nat
  nodeHits : Nat
  maxDelta : α
  cacheHits : Nat
  cacheMisses : Nat
  frontierEvicted : Nat
  dedupHits : Nat
  visitedEvicted : Nat
  cacheEvicted : Nat
  cacheBytes : Nat
deriving Repr, DecidableEq

/-- Python `max(a, b)`: the first maximal argument. -/
def pyMax {α : Type} (gt : α → α → Bool) (a b : α) : α := if gt b a then b else a

def init {α D : Type} (zero : α) : Agg α D := ⟨[], 0, 0, 0, 0, 0, 0, zero, 0, 0, 0, 0, 0, 0, 0⟩

/-- body of the sequential `for gid in active_graphs:` loop. -/
def seqStep {α D : Type} (gt : α → α → Bool) (gate : Bool) (a : Agg α D) (r : List D × GM α) : Agg α D :=
  let m := r.2
  { deltas := if r.1.isEmpty then a.deltas else a.deltas ++ r.1
    pops := a.pops + m.pops
    iters := a.iters + m.iters
    propagations := a.propagations + m.propagations
    layerHits := a.layerHits + m.layerCapHits
    radiusHits := a.radiusHits + m.radiusCapHits
    nodeHits := a.nodeHits + m.nodeBudgetHits
    maxDelta := pyMax gt a.maxDelta m.maxDeltaLocal
    cacheHits := a.cacheHits + m.cacheHit
    cacheMisses := a.cacheMisses + m.cacheMiss
    frontierEvicted := if gate then a.frontierEvicted + m.frontierEvicted else a.frontierEvicted
    dedupHits := if gate then a.dedupHits + m.dedupHits else a.dedupHits
    visitedEvicted := if gate then a.visitedEvicted + m.visitedEvicted else a.visitedEvicted
    cacheEvicted := if gate then a.cacheEvicted + m.cacheEvicted else a.cacheEvicted
    cacheBytes := if gate then a.cacheBytes + m.cacheBytes else a.cacheBytes }

def t1Seq {α D G : Type} (gt : α → α → Bool) (zero : α) (gate : Bool) (g : G → List D × GM α)
    (active : List G) : Agg α D :=
  active.foldl (fun a gid => seqStep gt gate a (g gid)) (init zero)

/-- body of `for _, (deltas_for_gid, m) in pairs:` inside `merge_fn`. -/
def mergeStep {α D : Type} (gt : α → α → Bool) (gate : Bool) (a : Agg α D) (r : List D × GM α) : Agg α D :=
  let m := r.2
  { deltas := if r.1.isEmpty then a.deltas else a.deltas ++ r.1
    pops := a.pops + m.pops
    iters := a.iters + m.iters
    propagations := a.propagations + m.propagations
    radiusHits := a.radiusHits + m.radiusCapHits
    layerHits := a.layerHits + m.layerCapHits
    nodeHits := a.nodeHits + m.nodeBudgetHits
    maxDelta := pyMax gt a.maxDelta m.maxDeltaLocal
    cacheHits := a.cacheHits + m.cacheHit
    cacheMisses := a.cacheMisses + m.cacheMiss
    frontierEvicted := if gate then a.frontierEvicted + m.frontierEvicted else a.frontierEvicted
    dedupHits := if gate then a.dedupHits + m.dedupHits else a.dedupHits
    visitedEvicted := if gate then a.visitedEvicted + m.visitedEvicted else a.visitedEvicted
    cacheEvicted := if gate then a.cacheEvicted + m.cacheEvicted else a.cacheEvicted
    cacheBytes := if gate then a.cacheBytes + m.cacheBytes else a.cacheBytes }

def mergeFn {α D K : Type} (gt : α → α → Bool) (zero : α) (gate : Bool)
    (pairs : List (K × (List D × GM α))) : Agg α D :=
  pairs.foldl (fun a p => mergeStep gt gate a p.2) (init zero)

/-- task key `(idx, str(gid))`; gid strings are code-point lists. -/
abbrev Key := Nat × List Nat

/-- `order_key = lambda k: (k[0], k[1])`: tuple comparison `(int, str)`. -/
def keyLe (a b : Key) : Bool :=
  decide (a.1 < b.1) || (a.1 == b.1 && lexLe a.2 b.2)

/-- `tasks.append(((idx, str(gid)), thunk))` for `idx, gid in enumerate(active_graphs)`. -/
def tasksFrom {α D G E : Type} (name : G → List Nat) (g : G → Except E (List D × GM α)) (i : Nat) :
    List G → List (Key × Except E (List D × GM α))
  | [] => []
  | gid :: t => ((i, name gid), g gid) :: tasksFrom name g (i + 1) t

/-- the parallel branch of `t1_propagate`. -/
def t1Par {α D G E : Type} (gt : α → α → Bool) (zero : α) (gate : Bool) (name : G → List Nat)
    (g : G → Except E (List D × GM α)) (active : List G) (maxWorkers : Int) (π : List Nat) :
    Out Key E (Agg α D) :=
  runParallel keyLe (mergeFn gt zero gate) maxWorkers (tasksFrom name g 0 active) π

end Clem.ParT1
