/-
C01 — record types of the generated determinism tables (`Clem/Gen/Determinism.lean`, written by
`harness/tables/determinism.py` from the AST of the working tree on every check).
Import-free.  The `String` fields are documentation only: the theorems inspect the enum tags.
-/
namespace Clem.DetTables

/-- How a hash-order site (iteration over a `set`) is made independent of the iteration order. -/
inductive Canon where
  | sorted        -- wrapped in `sorted(...)`
  | commutative   -- folded by a commutative/idempotent operation, membership, lookup-only dict
  | reviewed      -- hand-reviewed, pinned by the hash of the site's source
  | unordered     -- the order can be observed
  deriving DecidableEq, Repr

structure HashSite where
  file : String
  func : String
  kind : String
  expr : String
  canon : Canon
  how : String

/-- Where a wall-clock / entropy value read in a function can end up. -/
inductive Verdict where
  | volatile   -- only fields zeroed/dropped by `normalize_for_identity`, or fields of non-canonical streams
  | carrier    -- only returned: the callers are rows of their own
  | decision   -- reaches a documented (pinned) budget / expiry decision
  | fallback   -- substitutes a missing or unparsable LOGICAL timestamp (pinned)
  | offpath    -- not on the turn path / not an observable of the property (pinned, with reason)
  | leak       -- anything else
  deriving DecidableEq, Repr

structure ClockRead where
  file : String
  func : String
  /-- is this `Orchestrator.run_turn` itself -/
  core : Bool
  reads : List String
  flows : List String
  sinks : List String
  verdict : Verdict
  why : String

def HashSite.ok (s : HashSite) : Bool := s.canon != Canon.unordered
def ClockRead.ok (r : ClockRead) : Bool := r.verdict != Verdict.leak
/-- rows of `run_turn` must be classified `volatile` by the automatic analysis (no pin). -/
def ClockRead.coreOk (r : ClockRead) : Bool := !r.core || r.verdict == Verdict.volatile

end Clem.DetTables
