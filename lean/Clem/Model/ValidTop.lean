/-
C14: the validator model instantiated at the generated rule table.  These are the
definitions the driver executes and the property theorems quantify over.
-/
import Clem.Model.Valid
import Clem.Gen.ValidRules

namespace Clem.Valid
open Clem.Gen

/-- The model's view of an input under the generated table. -/
def env (cfg : J) : Env := mkEnv cfg ValidRules.version ValidRules.defaults

/-- All messages the typed rules emit for an input, in program order. -/
def messages (cfg : J) : List Str := messagesEnv ValidRules.rules (env cfg)

/-- Does a `TypeError` escape from the key checks of the current code? -/
def escapesNow (cfg : J) : Bool := escapes ValidRules.suggestStrWrap ValidRules.rules (env cfg)

/-- Every enumeration check of the normaliser: the typed rules and the output-only checks. -/
def allEnum : List EnumRule := enumRules ValidRules.rules ++ ValidRules.enumChecks

/-- Monitor: accepted ⇒ every active numeric rule's checked value AND the value its canonical leaf
holds in the normalised config are in the documented range. -/
def allRangeOk (cfg : J) : Bool :=
  let e := env cfg
  (numRules ValidRules.rules).all (fun r => r.rangeOk e && r.outRangeOk e) &&
  allEnum.all (fun r => r.outRangeOk e)

/-- Monitor: every fired numeric rule's value is outside its documented range. -/
def allRejectOk (cfg : J) : Bool :=
  let e := env cfg
  (numRules ValidRules.rules).all (fun r => r.rejectOk e)

/-- Monitor on the configuration the implementation returned. -/
def allOutOk (cfg out : J) : Bool :=
  let e := env cfg
  let o := ensureDict out
  (numRules ValidRules.rules).all (fun r => r.outOk e o) &&
  (allEnum).all (fun r => r.outOk e o)

end Clem.Valid
