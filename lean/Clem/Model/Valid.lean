/-
Model of `configs/validate.py` (C14).  Import-free.

The *rule table* (`Clem.Gen.ValidRules`) is regenerated from the AST of
`_validate_config_normalize_impl` on every check; this file gives it a semantics:
JSON/YAML-shaped inputs `J`, the hand-modelled helpers (`_ensure_dict`, `_deep_merge`,
`_ensure_subdict` look-ups, `_coerce_int/_coerce_float/_coerce_bool`, `_lev`, `_suggest_key`),
guard expressions over a NaN-aware number type with Python comparison semantics, and the
message list the typed rules produce in program order.

Numbers.  Every guard constant in the validator is an integer, so a finite float `x` is
represented *exactly as far as any guard can see* by `⌊x⌋` and "x has a fractional part"
(`Num.flt fl frac`); NaN and ±inf are separate constructors (all comparisons with NaN are false).
Strings are lists of code points.
-/
import Clem.Py.Sort

namespace Clem.Valid

abbrev Str := List Nat

/-- A Python `int` or `float` as seen by comparisons against integer constants. -/
inductive Num where
  | int (i : Int)
  | flt (fl : Int) (frac : Bool)   -- finite float x with ⌊x⌋ = fl, frac ↔ x ∉ ℤ
  | nan
  | pinf
  | ninf
  deriving DecidableEq, Repr, Inhabited

/-- Dict keys: strings, or any other hashable YAML scalar with its `str(k)` rendering. -/
inductive K where
  | str (s : Str)
  | other (rendered : Str)
  deriving DecidableEq, Repr

/-- JSON/YAML-shaped values.  String leaves carry three oracles computed by CPython
(trusted base): `s.lower()`, `int(s)` and `float(s)` (`none` = raises). -/
inductive J where
  | null
  | bool (b : Bool)
  | num (n : Num)
  | str (s : Str) (lower : Str) (asInt : Option Int) (asFloat : Option Num)
  | list (xs : List J)
  | dict (kvs : List (K × J))
  deriving Repr, Inhabited

/-! ### dict helpers (`_ensure_dict`, `.get`, `in`, `_deep_merge`) -/

/-- `_ensure_dict(x)` on JSON-shaped values: the items of a dict, `{}` otherwise. -/
def ensureDict : J → List (K × J)
  | .dict kvs => kvs
  | _ => []

def lookupK (k : K) : List (K × J) → Option J
  | [] => none
  | (k', v) :: r => if k' = k then some v else lookupK k r

def getS (kvs : List (K × J)) (s : Str) : Option J := lookupK (.str s) kvs

def isDict : J → Bool
  | .dict _ => true
  | _ => false

def setK (k : K) (v : J) : List (K × J) → List (K × J)
  | [] => [(k, v)]
  | (k', v') :: r => if k' = k then (k, v) :: r else (k', v') :: setK k v r

/-- `_deep_merge(dst, src)`: keys of `src` missing in `dst` are added (at the end: dict
insertion order); when both sides are dicts the merge recurses; otherwise `dst` wins.
`fuel` bounds the nesting depth (the defaults tree has depth 4). -/
def deepMerge : Nat → List (K × J) → List (K × J) → List (K × J)
  | 0, dst, _ => dst
  | fuel + 1, dst, src =>
    src.foldl (fun out (kv : K × J) =>
      match kv.2, lookupK kv.1 out with
      | .dict sv, some (.dict dv) => setK kv.1 (.dict (deepMerge fuel dv sv)) out
      | _, some _ => out
      | v, none => out ++ [(kv.1, v)]) dst

/-- Walk a section path with `_ensure_dict` at every step (this is what the chains of
`_ensure_dict(raw.get(k))` / `_ensure_subdict(parent, k)` read). -/
def walk (kvs : List (K × J)) : List Str → List (K × J)
  | [] => kvs
  | s :: r => match getS kvs s with
    | some v => walk (ensureDict v) r
    | none => []

/-! ### "only string keys" (JSON-shaped inputs) -/

def K.isStr : K → Bool
  | .str _ => true
  | .other _ => false

mutual
/-- Every dict key anywhere inside the value is a string. -/
def J.strKeys : J → Bool
  | .dict kvs => strKeysKV kvs
  | .list xs => strKeysL xs
  | _ => true
def strKeysKV : List (K × J) → Bool
  | [] => true
  | kv :: r => kv.1.isStr && kv.2.strKeys && strKeysKV r
def strKeysL : List J → Bool
  | [] => true
  | x :: r => x.strKeys && strKeysL r
end

/-! ### coercions -/

/-- `float(i)` raises `OverflowError` (→ default) iff `|i|` rounds to `2^1024`. -/
def floatOverflow (i : Int) : Bool := decide (i.natAbs ≥ 2 ^ 1024 - 2 ^ 970)

/-- `int(x)` truncation of a finite float given floor/frac. -/
def truncOf (fl : Int) (frac : Bool) : Int := if fl < 0 && frac then fl + 1 else fl

/-- `_coerce_int(v, default)`. -/
def coerceInt (v : Option J) (dflt : Int) : Num :=
  match v with
  | some (.bool b) => .int (if b then 1 else 0)
  | some (.num (.int i)) => .int i
  | some (.num (.flt fl frac)) => .int (truncOf fl frac)
  | some (.str _ _ (some i) _) => .int i
  | _ => .int dflt          -- None, NaN/inf (ValueError/OverflowError), unparsable str, containers

/-- A float-typed view of a number (the `float(s)` oracle is a float by construction). -/
def Num.toFloat : Num → Num
  | .int i => .flt i false
  | n => n

/-- `_coerce_float(v, default)`. -/
def coerceFloat (v : Option J) (dflt : Int) : Num :=
  match v with
  | some (.bool b) => .flt (if b then 1 else 0) false
  | some (.num (.int i)) => if floatOverflow i then .flt dflt false else .flt i false
  | some (.num n) => n
  | some (.str _ _ _ (some n)) => n.toFloat
  | _ => .flt dflt false

/-- `_coerce_bool(v)` for non-string values and the ASCII spellings the code lists
(`strip()` is not modelled: a padded spelling is outside the model, see CLAIM note). -/
def coerceBool (v : Option J) : Bool :=
  match v with
  | some (.bool b) => b
  | some (.num (.int i)) => i != 0
  | some (.num (.flt fl frac)) => fl != 0 || frac
  | some (.num _) => true
  | some (.str _ l _ _) => l ∈ [[49], [116, 114, 117, 101], [121, 101, 115], [111, 110]]
  | _ => false

/-! ### Python `str(x)` for the enumeration rules -/

def digits (n : Nat) : Str := (Nat.toDigits 10 n).map Char.toNat

/-- `str(x)`; `none` stands for renderings that are never members of an enumeration in
the table (floats, containers) — `Gen` membership lists contain identifiers only. -/
def pyStr (lower : Bool) : Option J → Option Str
  | none => some (if lower then [110, 111, 110, 101] else [78, 111, 110, 101])
  | some .null => some (if lower then [110, 111, 110, 101] else [78, 111, 110, 101])
  | some (.bool true) => some (if lower then [116, 114, 117, 101] else [84, 114, 117, 101])
  | some (.bool false) => some (if lower then [102, 97, 108, 115, 101] else [70, 97, 108, 115, 101])
  | some (.num (.int i)) => some (if i < 0 then 45 :: digits i.natAbs else digits i.natAbs)
  | some (.str s l _ _) => some (if lower then l else s)
  | _ => none

/-! ### rule language -/

inductive Src where
  | raw      -- the user's mapping (`cfg_in`)
  | merged   -- `_deep_merge(cfg_in, DEFAULTS)`
  deriving DecidableEq, Repr

structure Loc where
  src : Src
  path : List Str
  deriving Repr

inductive Cond where
  | tt
  | has (l : Loc) (k : Str)        -- `"k" in D`
  | truthy (l : Loc)               -- `if D:` (non-empty dict)
  | isNone (l : Loc) (k : Str)     -- `D.get(k) is None`
  | isDictAt (l : Loc) (k : Str)   -- `isinstance(D.get(k), dict)`
  | not (c : Cond)
  | and (a b : Cond)
  deriving Repr

/-- Uncoerced value expression. -/
inductive VE where
  | get (l : Loc) (k : Str) (d : Option J)     -- `D.get(k, d)`; `none` = Python `None`
  | ite (c : Cond) (a b : VE)
  deriving Repr

inductive Co where
  | int
  | float
  deriving DecidableEq, Repr

/-- Coerced numeric expression. -/
inductive NE where
  | co (c : Co) (v : VE) (dflt : Int)
  | ite (c : Cond) (a b : NE)
  deriving Repr

/-- Guard expression tree over the subject `v` (Python comparison semantics). -/
inductive Gd where
  | lt (c : Int)
  | le (c : Int)
  | gt (c : Int)
  | ge (c : Int)
  | between (lo : Int) (loStrict : Bool) (hi : Int) (hiStrict : Bool)  -- `lo <(=) v <(=) hi`
  | mem (l : List Int)                                                  -- `v in {…}`
  | not (g : Gd)
  deriving Repr

/-- The range the message text documents ("must be >= 0", "must be in (0, 1]", "must be 1 or 2"). -/
inductive Doc where
  | ge (c : Int)
  | gt (c : Int)
  | between (lo : Int) (loStrict : Bool) (hi : Int) (hiStrict : Bool)
  | oneOf (l : List Int)
  | none                     -- message text not understood: rule is not range-proved
  deriving Repr

structure NumRule where
  path : Str
  msg : Str
  conds : List Cond
  val : NE
  co : Co                   -- the coercion every branch of `val` ends with
  guard : Gd
  doc : Doc
  out : List Str            -- canonical path of the normalised leaf in the returned config ([] = unknown)
  final : Option NE         -- value that leaf holds at `return` when it differs from the checked one
  rewritten : Bool          -- the leaf is written again after the range check (alias folding, fallback…)
  aliases : List (List Str) -- other keys whose value can be folded into the canonical leaf
  deriving Repr

structure EnumRule where
  path : Str
  msg : Str
  conds : List Cond
  val : VE
  lower : Bool              -- `str(x).lower()`
  allowed : List Str
  docAllowed : List Str     -- enumeration parsed from the message text ([] = none)
  out : List Str            -- canonical path of the value in the returned config ([] = unknown)
  folded : Bool             -- the tested (e.g. lower-cased) value is what is stored at `out`
  deriving Repr

structure UnkRule where
  loc : Loc                 -- section whose keys are checked
  pre : Str                 -- message path prefix ("t1.", "" at top level)
  msg : Str                 -- "unknown key" / "unknown top-level key"
  allowed : List Str
  conds : List Cond
  deriving Repr

inductive Rule where
  | unk (r : UnkRule)
  | num (r : NumRule)
  | enum (r : EnumRule)
  deriving Repr

/-! ### number semantics -/

namespace Num

/-- `v < c` for an integer constant. -/
def ltC : Num → Int → Bool
  | .int i, c => i < c
  | .flt fl _, c => fl < c
  | .nan, _ => false
  | .pinf, _ => false
  | .ninf, _ => true

def leC : Num → Int → Bool
  | .int i, c => i ≤ c
  | .flt fl frac, c => fl < c || (fl == c && !frac)
  | .nan, _ => false
  | .pinf, _ => false
  | .ninf, _ => true

def gtC : Num → Int → Bool
  | .int i, c => c < i
  | .flt fl frac, c => c < fl || (fl == c && frac)
  | .nan, _ => false
  | .pinf, _ => true
  | .ninf, _ => false

def geC : Num → Int → Bool
  | .int i, c => c ≤ i
  | .flt fl _, c => c ≤ fl
  | .nan, _ => false
  | .pinf, _ => true
  | .ninf, _ => false

def eqC : Num → Int → Bool
  | .int i, c => i == c
  | .flt fl frac, c => fl == c && !frac
  | _, _ => false

end Num

def Gd.eval : Gd → Num → Bool
  | .lt c, v => v.ltC c
  | .le c, v => v.leC c
  | .gt c, v => v.gtC c
  | .ge c, v => v.geC c
  | .between lo ls hi hs, v =>
      (if ls then v.gtC lo else v.geC lo) && (if hs then v.ltC hi else v.leC hi)
  | .mem l, v => l.any (fun c => v.eqC c)
  | .not g, v => !(g.eval v)

def Doc.holds : Doc → Num → Bool
  | .ge c, v => v.geC c
  | .gt c, v => v.gtC c
  | .between lo ls hi hs, v =>
      (if ls then v.gtC lo else v.geC lo) && (if hs then v.ltC hi else v.leC hi)
  | .oneOf l, v => l.any (fun c => v.eqC c)
  | .none, _ => true

def Doc.isNone : Doc → Bool
  | .none => true
  | _ => false

/-- Values a coercion can produce. -/
def Co.range : Co → Num → Bool
  | .int, .int _ => true
  | .int, _ => false
  | .float, .int _ => false
  | .float, _ => true

/-! ### evaluation against an input -/

/-- `cfg_in`: shallow copy of the input, `version` injected when absent / `None`. -/
def cfgIn (cfg : J) (version : Str) : List (K × J) :=
  let kvs := ensureDict cfg
  match getS kvs [118, 101, 114, 115, 105, 111, 110] with
  | some .null => setK (.str [118, 101, 114, 115, 105, 111, 110]) (.str version version none none) kvs
  | none => kvs ++ [(.str [118, 101, 114, 115, 105, 111, 110], .str version version none none)]
  | some _ => kvs

structure Env where
  raw : List (K × J)
  merged : List (K × J)

/-- "perf" = [112,101,114,102]: defaults for `perf` are merged only when the user has a `perf` key. -/
def mkEnv (cfg : J) (version : Str) (defaults : List (K × J)) : Env :=
  let raw := cfgIn cfg version
  let dfl := match getS raw [112, 101, 114, 102] with
    | some _ => defaults
    | none => defaults.filter (fun kv => kv.1 != K.str [112, 101, 114, 102])
  ⟨raw, deepMerge 8 raw dfl⟩

def Env.sect (e : Env) (l : Loc) : List (K × J) :=
  match l.src with
  | .raw => walk e.raw l.path
  | .merged => walk e.merged l.path

def Cond.eval (e : Env) : Cond → Bool
  | .tt => true
  | .has l k => (getS (e.sect l) k).isSome
  | .truthy l => !(e.sect l).isEmpty
  | .isNone l k => match getS (e.sect l) k with
    | none => true
    | some .null => true
    | _ => false
  | .isDictAt l k => match getS (e.sect l) k with
    | some v => isDict v
    | none => false
  | .not c => !(c.eval e)
  | .and a b => a.eval e && b.eval e

def VE.eval (e : Env) : VE → Option J
  | .get l k d => match getS (e.sect l) k with
    | some v => some v
    | none => d
  | .ite c a b => if c.eval e then a.eval e else b.eval e

def coerce (c : Co) (v : Option J) (dflt : Int) : Num :=
  match c with
  | .int => coerceInt (match v with | some .null => none | x => x) dflt
  | .float => coerceFloat (match v with | some .null => none | x => x) dflt

def NE.eval (e : Env) : NE → Num
  | .co c v d => coerce c (v.eval e) d
  | .ite c a b => if c.eval e then a.eval e else b.eval e

/-- Every branch ends with coercion `c`. -/
def NE.allCo (c : Co) : NE → Bool
  | .co c' _ _ => c' == c
  | .ite _ a b => a.allCo c && b.allCo c

/-- Two enumerations with the same members (message text vs code). -/
def sameMembers (a b : List Str) : Bool :=
  a.all (fun x => b.contains x) && b.all (fun x => a.contains x)

/-! ### `_lev` and `_suggest_key` -/

/-- One row of the DP in `_lev`: `left` = `dp[j-1]` (new), `diag` = `prev`, `old` = remaining old row. -/
def levRow (ca : Nat) : Str → List Nat → Nat → Nat → List Nat
  | cb :: b, up :: old, left, diag =>
    let cur := min (min (up + 1) (left + 1)) (diag + (if ca = cb then 0 else 1))
    cur :: levRow ca b old cur up
  | _, _, _, _ => []

def levGo : Str → Str → List Nat → Nat → List Nat
  | [], _, dp, _ => dp
  | ca :: a, b, dp, i =>
    match dp with
    | [] => []
    | d0 :: old => levGo a b (i :: levRow ca b old i d0) (i + 1)

/-- `_lev(a, b)`. -/
def lev (a b : Str) : Nat :=
  ((levGo a b (List.range (b.length + 1)) 1).getLast?).getD 0

/-- The loop of `_suggest_key` over a given iteration order: first strict minimum. -/
def suggestLoop (bad : Str) : List Str → Option Str × Nat → Option Str × Nat
  | [], acc => acc
  | k :: r, acc =>
    let d := lev bad k
    suggestLoop bad r (if d < acc.2 then (some k, d) else acc)

/-- `_suggest_key` as written before the repair: the iteration order `σ` of the `set` decides ties. -/
def suggestRaw (bad : Str) (σ : List Str) : Option Str :=
  let r := suggestLoop bad σ (none, 99)
  if r.2 ≤ 2 then r.1 else none

/-- `_suggest_key` iterating `sorted(allowed)`. -/
def suggestKey (bad : Str) (allowed : List Str) : Option Str :=
  suggestRaw bad (Clem.Py.isort Clem.Py.lexLe allowed)

/-! ### messages -/

def K.render : K → Str
  | .str s => s
  | .other r => r

def K.isAllowed (allowed : List Str) : K → Bool
  | .str s => allowed.contains s
  | .other _ => false

/-- " (did you mean '" ++ s ++ "')" -/
def hint (s : Str) : Str :=
  [32, 40, 100, 105, 100, 32, 121, 111, 117, 32, 109, 101, 97, 110, 32, 39] ++ s ++ [39, 41]

def condsHold (e : Env) (cs : List Cond) : Bool := cs.all (fun c => c.eval e)

def UnkRule.fire (e : Env) (r : UnkRule) : List Str :=
  if condsHold e r.conds then
    (e.sect r.loc).filterMap (fun kv =>
      if kv.1.isAllowed r.allowed then none
      else some (r.pre ++ kv.1.render ++ [32] ++ r.msg ++
        (match suggestKey kv.1.render r.allowed with
         | some s => hint s
         | none => [])))
  else []

def NumRule.active (e : Env) (r : NumRule) : Bool := condsHold e r.conds
def NumRule.value (e : Env) (r : NumRule) : Num := r.val.eval e
def NumRule.fires (e : Env) (r : NumRule) : Bool := r.active e && r.guard.eval (r.value e)

/-- The value the normalised config carries at the rule's canonical path. -/
def NumRule.outValue (e : Env) (r : NumRule) : Num :=
  match r.final with
  | some f => f.eval e
  | none => r.value e

/-- "accepted ⇒ the NORMALISED leaf lies in the documented range" for one rule on one input. -/
def NumRule.outRangeOk (e : Env) (r : NumRule) : Bool :=
  !(r.active e) || r.guard.eval (r.value e) || r.doc.holds (r.outValue e)

def EnumRule.fires (e : Env) (r : EnumRule) : Bool :=
  condsHold e r.conds &&
    (match pyStr r.lower (r.val.eval e) with
     | some s => !(r.allowed.contains s)
     | none => true)

def Rule.fire (e : Env) : Rule → List Str
  | .unk r => r.fire e
  | .num r => if r.fires e then [r.path ++ [32] ++ r.msg] else []
  | .enum r => if r.fires e then [r.path ++ [32] ++ r.msg] else []

/-- Does a `TypeError` escape?  Before the repair `_suggest_key(k, …)` calls `_lev(k, …)` →
`len(k)` on the raw key; `wrap` = the code passes `str(bad)`. -/
def UnkRule.escapes (wrap : Bool) (e : Env) (r : UnkRule) : Bool :=
  !wrap && condsHold e r.conds &&
    (e.sect r.loc).any (fun kv => match kv.1 with
      | .other _ => true
      | .str _ => false)

def escapes (wrap : Bool) (rules : List Rule) (e : Env) : Bool :=
  rules.any (fun r => match r with
    | .unk u => u.escapes wrap e
    | _ => false)

/-- Messages of the typed rules, in program order. -/
def messagesEnv (rules : List Rule) (e : Env) : List Str := rules.flatMap (Rule.fire e)

/-! ### range monitors -/

/-- "accepted ⇒ documented range" for one rule on one input. -/
def NumRule.rangeOk (e : Env) (r : NumRule) : Bool :=
  !(r.active e) || r.guard.eval (r.value e) || r.doc.holds (r.value e)

/-- "rejected ⇒ outside the documented range" (the message is true). -/
def NumRule.rejectOk (e : Env) (r : NumRule) : Bool :=
  r.doc.isNone || !(r.fires e) || !(r.doc.holds (r.value e))

def numRules : List Rule → List NumRule
  | [] => []
  | .num r :: t => r :: numRules t
  | _ :: t => numRules t

def enumRules : List Rule → List EnumRule
  | [] => []
  | .enum r :: t => r :: enumRules t
  | _ :: t => enumRules t

def unkRules : List Rule → List UnkRule
  | [] => []
  | .unk r :: t => r :: unkRules t
  | _ :: t => unkRules t

/-- Read a path in a returned (normalised) config. -/
def outAt (kvs : List (K × J)) : List Str → Option J
  | [] => none
  | [k] => getS kvs k
  | k :: r => match getS kvs k with
    | some (.dict kv) => outAt kv r
    | _ => none

/-- Same number as far as guards can see (`1` vs `1.0` are distinguished: coercion type). -/
def numOfJ : J → Option Num
  | .num n => some n
  | _ => none

/-- Equality of coerced numbers up to what a guard can see: `float(i)` of a huge `int` rounds,
the model keeps `i`; from 2^53 on only the sign matters (guard constants are small integers). -/
def Num.agree : Num → Num → Bool
  | .flt a fa, .flt b fb =>
    (a == b && fa == fb) || (decide (a ≥ 2 ^ 53) && decide (b ≥ 2 ^ 53)) ||
      (decide (a ≤ -(2 ^ 53)) && decide (b ≤ -(2 ^ 53)))
  | x, y => decide (x = y)

/-- Output monitor on the configuration the implementation RETURNED: a numeric leaf found at the
rule's canonical path lies in the documented range — whether or not the rule's conditions held on
the input (an alias can put a value there) — and, when the rule was active, it is a number of the
rule's coercion type equal to the model's normalised value.  An absent leaf is not a failure. -/
def NumRule.outOk (e : Env) (out : List (K × J)) (r : NumRule) : Bool :=
  if r.out.isEmpty then true else
  match outAt out r.out with
  | none => true
  | some j => match numOfJ j with
    | some n => r.doc.holds n && (!(r.active e) || (r.co.range n && n.agree (r.outValue e)))
    | none => !(r.active e)

/-- The string the normalised config carries at the rule's output path: the folded copy when the
code writes it back, the raw rendering otherwise. -/
def EnumRule.normalised (e : Env) (r : EnumRule) : Option Str :=
  pyStr (r.lower && r.folded) (r.val.eval e)

/-- "accepted ⇒ the NORMALISED value lies in the documented enumeration" for one rule on one input. -/
def EnumRule.outRangeOk (e : Env) (r : EnumRule) : Bool :=
  !(condsHold e r.conds) || r.fires e ||
    (match r.normalised e with
     | some s => r.allowed.contains s
     | none => false)

/-- Output monitor on the configuration the implementation RETURNED: a value found at the rule's
output path is a string of the enumeration (whether or not the rule was active), and when the rule
was active and the model knows the normalised string, it is exactly that string. -/
def EnumRule.outOk (e : Env) (out : List (K × J)) (r : EnumRule) : Bool :=
  if r.out.isEmpty then true else
  match outAt out r.out with
  | none => true
  | some (.str s _ _ _) =>
    r.allowed.contains s &&
      (!(condsHold e r.conds) || (match r.normalised e with
        | some m => m == s
        | none => true))
  | some _ => false

/-! ### static soundness checker for guards (proved sound in `Clem/Proofs/Valid.lean`) -/

/-- Syntactic check that "guard false ⇒ documented range" for every value the coercion yields. -/
def entails (co : Co) (g : Gd) (d : Doc) : Bool :=
  match g, d with
  | _, .none => true
  | .not (.between lo ls hi hs), .between lo' ls' hi' hs' =>
      lo == lo' && ls == ls' && hi == hi' && hs == hs'
  | .not (.gt c), .gt c' => c == c'
  | .not (.ge c), .ge c' => c == c'
  | .not (.mem l), .oneOf l' => l == l'
  | .lt c, .ge c' => c == c' && co == .int
  | .le c, .gt c' => c == c' && co == .int
  | _, _ => false

/-- Syntactic check that "guard true ⇒ outside the documented range". -/
def exact (g : Gd) (d : Doc) : Bool :=
  match g, d with
  | _, .none => true
  | .not (.between lo ls hi hs), .between lo' ls' hi' hs' =>
      lo == lo' && ls == ls' && hi == hi' && hs == hs'
  | .not (.gt c), .gt c' => c == c'
  | .not (.ge c), .ge c' => c == c'
  | .not (.mem l), .oneOf l' => l == l'
  | .lt c, .ge c' => c == c'
  | .le c, .gt c' => c == c'
  | _, _ => false

/-! ### the API wrappers and the CLI mapping -/

def joinNl : List Str → Str
  | [] => []
  | [m] => m
  | m :: r => m ++ 10 :: joinNl r

/-- `s.split("\n")`. -/
def splitNl : Str → List Str
  | [] => [[]]
  | c :: r =>
    if c = 10 then [] :: splitNl r
    else match splitNl r with
      | [] => [[c]]
      | h :: t => (c :: h) :: t

inductive Verdict where
  | accept
  | configError (text : Str)      -- `ConfigError("\n".join(errors))`
  deriving DecidableEq, Repr

/-- `_validate_config_normalize_impl` as far as the verdict goes: `errors` is the full message list. -/
def implVerdict (errors : List Str) : Verdict :=
  if errors.isEmpty then .accept else .configError (joinNl errors)

/-- `validate_config(cfg)`: same function. -/
def apiPlain (errors : List Str) : Verdict := implVerdict errors

/-- `validate_config_verbose(cfg)`: raises what the normaliser raises, else warnings are added. -/
def apiVerbose (errors : List Str) : Verdict := implVerdict errors

/-- `validate_config_api(cfg)` → `(ok, errs)`; `strip` is Python's `str.strip()` (oracle). -/
def apiTuple (strip : Str → Str) (errors : List Str) : Bool × List Str :=
  match implVerdict errors with
  | .accept => (true, [])
  | .configError t =>
    let m := strip t
    (false, if m.isEmpty then [[105, 110, 118, 97, 108, 105, 100]] else splitNl m)

/-- `validate_config(cfg, strict=…)` compat form → `errs`. -/
def apiCompat (strip : Str → Str) (errors : List Str) : List Str :=
  match implVerdict errors with
  | .accept => []
  | .configError t =>
    let m := strip t
    if m.isEmpty then [[105, 110, 118, 97, 108, 105, 100]] else splitNl m

/-- CLI (`clematis.scripts.validate`): exit code and the text after the `CONFIG INVALID` line. -/
def cli (errors : List Str) : Nat × Str :=
  match implVerdict errors with
  | .accept => (0, [79, 75])
  | .configError t => (1, t)

end Clem.Valid
