/-
C05 — key functions and read-sets of the three result caches of the engine.

For each cache the *read-set* of the cached stage is an explicit input record (`…Raw`: everything the
stage consults: request, configuration, slice budgets, and the part of the state it reads), the key
function is the projection the code computes (`ckey` in `stages/t1.py:_t1_one_graph`,
`stages/t2/core.py:t2_semantic`, `orchestrator/core.py:run_turn`), and the stage is any function of the
*effective* inputs (`…Eff`: what the computation after the cache pre-check actually consumes).

Opaque payloads (the JSON text `stable_key(decay_cfg)`, an embedding, the content of a graph or of the
memory index, …) are natural-number codes: only their equality matters.  Everything the code *computes*
on the way to the key is modelled exactly: the slice-effective budgets of T1 (`min`s, `None` handling),
T2's effective query `q_text` (strip, sorted labels, join, strip — on code points), the `or "0"`
default of the turn-level version.

Import-free (the driver executes `t1Eff`, `t2QText`, `turnKey` and `runOps`).
-/
import Clem.Model.KeySuff
import Clem.Model.TtlLru
import Clem.Model.LruBytes
import Clem.Py.Sort

namespace Clem.CacheKeys
open Clem.KeySuff

/-! ## proof-free view of a cache semantics (what the driver runs) -/

structure CacheOps (σ K V : Type) where
  get : σ → K → σ × Option V
  put : σ → K → V → σ
  other : σ → Nat → σ

def CacheOps.ofSem {σ K V : Type} (C : CacheSem σ K V) : CacheOps σ K V := ⟨C.get, C.put, C.other⟩

def stepOps {σ K V X : Type} (O : CacheOps σ K V) (key : X → K) (f : X → V) (s : σ) : Ev X → σ × Option V
  | .req x =>
    let r := O.get s (key x)
    match r.2 with
    | some v => (r.1, some v)
    | none => (O.put r.1 (key x) (f x), some (f x))
  | .other t => (O.other s t, none)

def runOps {σ K V X : Type} (O : CacheOps σ K V) (key : X → K) (f : X → V) : σ → List (Ev X) → List (Option V)
  | _, [] => []
  | s, e :: es =>
    let r := stepOps O key f s e
    r.2 :: runOps O key f r.1 es

/-! ### TTL LRU (`_NamespaceCache` / `LRUCache` / one namespace of `CacheManager`) with its injected clock

State = the cache and the current clock reading.  "Other" operations: `3n` = invalidate (apply's
cache bust / `clear`), `3n+1` = the clock advances by `n`, `3n+2` = the clock goes back by `n`. -/

structure TtlState where
  ns : Clem.TtlLru.Ns
  now : Int
deriving Repr, DecidableEq

def ttlGet (s : TtlState) (k : Nat) : TtlState × Option Nat :=
  let r := s.ns.get s.now k
  ({ s with ns := r.1 }, r.2)

def ttlPut (s : TtlState) (k v : Nat) : TtlState := { s with ns := (s.ns.set s.now k v).1 }

def ttlOther (s : TtlState) (t : Nat) : TtlState :=
  if t % 3 = 0 then { s with ns := s.ns.invalidate.1 }
  else if t % 3 = 1 then { s with now := s.now + (t / 3 : Nat) }
  else { s with now := s.now - (t / 3 : Nat) }

def ttlOps : CacheOps TtlState Nat Nat := ⟨ttlGet, ttlPut, ttlOther⟩

/-! ### `LRUBytes` with a cost function; "other" = `clear` -/
def bytesOps (cost : Nat → Nat → Int) : CacheOps Clem.LruBytes.State Nat Nat :=
  ⟨Clem.LruBytes.get, fun s k v => (Clem.LruBytes.put s k v (cost k v)).1, fun s _ => Clem.LruBytes.clear s⟩

/-! ### cache switched off (`cache is None`) -/
def offOps : CacheOps Unit Nat Nat := ⟨fun s _ => (s, none), fun s _ _ => s, fun s _ => s⟩

/-! ### value aliasing: caches of MUTABLE containers

The stage results are Python objects with mutable containers (lists of deltas / hits, a metrics dict).  A cache can
keep the very object it hands out (by reference) or hand out detached copies.  "Other" operation `t`: the caller
appends `t` to the result it was handed last (accumulating further deltas into it, annotating it, …). -/

structure AState where
  store : List (Nat × List Nat)
  last : Option Nat          -- key of the entry whose object the caller was handed last
deriving Repr, DecidableEq

def aFind (s : AState) (k : Nat) : Option (Nat × List Nat) := s.store.find? (fun p => p.1 == k)

def aGet (s : AState) (k : Nat) : AState × Option (List Nat) :=
  match aFind s k with
  | some p => ({ s with last := some k }, some p.2)
  | none => (s, none)

def aPut (s : AState) (k : Nat) (v : List Nat) : AState :=
  { store := (k, v) :: s.store.filter (fun p => p.1 != k), last := some k }

/-- by reference: the caller's edit lands in the cached object -/
def aEditRef (s : AState) (t : Nat) : AState :=
  match s.last with
  | some k => { s with store := s.store.map (fun p => if p.1 == k then (p.1, p.2 ++ [t]) else p) }
  | none => s

/-- detached copies: the caller's edit does not reach the cache -/
def aEditCopy (s : AState) (_ : Nat) : AState := s

def refOps : CacheOps AState Nat (List Nat) := ⟨aGet, aPut, aEditRef⟩
def copyOps : CacheOps AState Nat (List Nat) := ⟨aGet, aPut, aEditCopy⟩

/-! ## T1 stage cache (`stages/t1.py:_t1_one_graph`) -/

/-- Everything one `_t1_one_graph(gid)` call reads. -/
structure T1Raw where
  gid : Nat
  graph : Nat            -- content of the graph: nodes (id, label, tags) and edges (id, src, dst, weight, rel) in iteration order
  text : Nat             -- the turn's input text
  decay : Nat            -- `cfg_t1["decay"]`
  edgeMult : Nat         -- `cfg_t1["edge_type_mult"]`
  radiusCap : Int
  iterCap : Int
  iterCapLayers : Int
  queueBudget : Int
  relaxCap : Option Int
  nodeBudget : Nat       -- float bits
  sliceIters : Option Int   -- `ctx.slice_budgets["t1_iters"]`
  slicePops : Option Int    -- `ctx.slice_budgets["t1_pops"]`
  frontierCap : Int      -- `int(perf.t1.caps.frontier or 0)`
  visitedCap : Int
  dedupeWindow : Int
  perfEnabled : Bool
deriving Repr, DecidableEq

/-- What the propagation consumes after the pre-check: the *effective* caps. -/
structure T1Eff where
  decay : Nat
  edgeMult : Nat
  radiusCap : Int
  iterCap : Int
  effLayers : Int
  relaxCap : Option Int
  effQueue : Int
  nodeBudget : Nat
  frontierCap : Int
  visitedCap : Int
  dedupeWindow : Int
  perfEnabled : Bool
deriving Repr, DecidableEq

/-- `min(min(iter_cap_layers, iter_cap), int(slice_t1_iters))`, the slice clamp only when present. -/
def effLayers (r : T1Raw) : Int :=
  let base := min r.iterCapLayers r.iterCap
  match r.sliceIters with
  | none => base
  | some s => min base s

/-- `queue_budget if slice_t1_pops is None else min(queue_budget, int(slice_t1_pops))`. -/
def effQueue (r : T1Raw) : Int :=
  match r.slicePops with
  | none => r.queueBudget
  | some s => min r.queueBudget s

def t1Eff (r : T1Raw) : T1Eff :=
  { decay := r.decay, edgeMult := r.edgeMult, radiusCap := r.radiusCap, iterCap := r.iterCap,
    effLayers := effLayers r, relaxCap := r.relaxCap, effQueue := effQueue r, nodeBudget := r.nodeBudget,
    frontierCap := r.frontierCap, visitedCap := r.visitedCap, dedupeWindow := r.dedupeWindow,
    perfEnabled := r.perfEnabled }

/-- `("t1", gid, etag, stable_key(decay), stable_key(edge_mult), stable_key(policy_caps), tuple(seed_ids))`.
`policy_caps` holds exactly the fields of `T1Eff` other than `decay`/`edgeMult`. -/
structure T1Key (E : Type) where
  gid : Nat
  etag : E
  eff : T1Eff
  seeds : List Nat
deriving DecidableEq

/-- `etagOf` = `store.version_etag` as a function of the graph content, `seedsOf` = `sorted(_match_keywords(text, labels))`. -/
def t1Key {E : Type} (etagOf : Nat → E) (seedsOf : Nat → Nat → List Nat) (r : T1Raw) : T1Key E :=
  ⟨r.gid, etagOf r.graph, t1Eff r, seedsOf r.graph r.text⟩

/-- The stage: any function of the graph, the effective caps and the seeds. -/
def t1Stage {V : Type} (seedsOf : Nat → Nat → List Nat) (compute : Nat → T1Eff → List Nat → V) (r : T1Raw) : V :=
  compute r.graph (t1Eff r) (seedsOf r.graph r.text)

/-- **EtagFaithful.**  `T1Raw.graph` is the code of EVERYTHING T1 reads from the graph IN THE ORDER IT READS IT:
the node list (id, label, tags) in iteration order and the edge list (id, src, dst, weight, rel) in INSERTION
order — `csr` lists a node's out-edges in that order and the relaxation loop stops mid-list under `relax_cap`,
the queue budget and the frontier cap, so two stores with equal *sets* of nodes and edges but different
insertion orders are DIFFERENT contents.  An etag is faithful when it is injective on that ordered content
(the code's etag is a sha1 over the ordered content; collision-freeness of sha1 is the stated assumption). -/
def EtagFaithful {E : Type} (etagOf : Nat → E) : Prop := ∀ g g', etagOf g = etagOf g' → g = g'

/-! Miniature of the order dependence (used for the negation witness of an order-insensitive digest). -/

/-- Ordered adjacency: edges `(src, dst)` in insertion order (what `csr` yields). -/
abbrev OEdges := List (Nat × Nat)

/-- The relaxation loop of one seed under `relax_cap = cap`: the first `cap` out-edges in insertion order. -/
def reachCapped (cap : Nat) (g : OEdges) (seed : Nat) : List Nat :=
  seed :: ((g.filter (fun e => e.1 == seed)).take cap).map (·.2)

/-- An order-preserving digest (the repaired `_bump_etag`) and a "canonical", sorted-id digest. -/
def digestOrdered (g : OEdges) : OEdges := g
def digestSorted (g : OEdges) : OEdges :=
  Clem.Py.isort (fun a b => decide (a.1 < b.1) || (a.1 == b.1 && decide (a.2 ≤ b.2))) g

/-- two stores, same content as a set, edges inserted in opposite orders -/
def ogOf (code : Nat) : OEdges := if code = 0 then [(0, 1), (0, 2)] else if code = 1 then [(0, 2), (0, 1)] else []

/-- The key as it was before the repairs: `perf_enabled` absent from `policy_caps`. -/
def t1KeyLegacy {E : Type} (etagOf : Nat → E) (seedsOf : Nat → Nat → List Nat) (r : T1Raw) : T1Key E :=
  ⟨r.gid, etagOf r.graph, { t1Eff r with perfEnabled := false }, seedsOf r.graph r.text⟩

/-! ## T2 stage cache (`stages/t2/core.py:t2_semantic`) -/

/-- `str.isspace` code points (what `str.strip()` removes). -/
def isSpace (c : Nat) : Bool :=
  (9 ≤ c && c ≤ 13) || (28 ≤ c && c ≤ 32) || c == 133 || c == 160 || c == 5760 ||
  (8192 ≤ c && c ≤ 8202) || c == 8232 || c == 8233 || c == 8239 || c == 8287 || c == 12288

def lstrip : List Nat → List Nat
  | [] => []
  | c :: cs => if isSpace c then lstrip cs else c :: cs

def strip (s : List Nat) : List Nat := (lstrip (lstrip s).reverse).reverse

/-- `" ".join(xs)` -/
def joinSp : List (List Nat) → List Nat
  | [] => []
  | [x] => x
  | x :: y :: rest => x ++ 32 :: joinSp (y :: rest)

/-- `q_text = text.strip(); if labels: q_text = (q_text + " " + " ".join(sorted(labels))).strip()` -/
def t2QText (text : List Nat) (labels : List (List Nat)) : List Nat :=
  let q := strip text
  if labels.isEmpty then q else strip (q ++ 32 :: joinSp (Clem.Py.isort Clem.Py.lexLe labels))

structure T2Raw where
  tiers : List Nat
  text : List Nat
  labels : List (List Nat)     -- `_gather_changed_labels(state, t1)`: labels of the nodes T1 touched
  recentDays : Int
  simThr : Nat
  topM : Int
  quality : Option Nat         -- `_quality_digest(qcfg)` when `quality.enabled`
  sliceK : Option Nat          -- `repr(slice_budgets["t2_k"])` when present
  ownerScope : Nat
  owner : Nat                  -- `repr(_owner_for_query(ctx, cfg_t2))`: the agent id under owner_scope = agent
  kRetrieval : Int
  now : Nat
  rank : Nat × Nat × Nat
  residualCap : Int
  kSurface : Int
  indexVer : Int               -- `index.index_version()`
  indexTok : Nat               -- `index_token(index)`: process-local identity of the index OBJECT
  labelMap : Nat               -- digest of `_build_label_map(state)` (labels of ALL nodes of the active graphs)
  hybrid : Nat                 -- with hybrid reranking on: the hybrid settings + `gel_digest(state)` (GEL edges); else 0
  -- read by the stage, NOT in the key
  index : Nat                  -- content of the memory index (what `(indexTok, indexVer)` stands for)
  rest : Nat                   -- ctx.enc (a custom encoder object), the CONTENTS of an aliasing map file
deriving Repr, DecidableEq

structure T2Key where
  tiers : List Nat
  q : List Nat
  recentDays : Int
  simThr : Nat
  topM : Int
  quality : Option Nat
  sliceK : Option Nat
  ownerScope : Nat
  owner : Nat
  kRetrieval : Int
  now : Nat
  rank : Nat × Nat × Nat
  residualCap : Int
  kSurface : Int
  indexVer : Int
  indexTok : Nat
  labelMap : Nat
  hybrid : Nat
deriving Repr, DecidableEq

def t2Key (r : T2Raw) : T2Key :=
  { tiers := r.tiers, q := t2QText r.text r.labels, recentDays := r.recentDays, simThr := r.simThr, topM := r.topM,
    quality := r.quality, sliceK := r.sliceK, ownerScope := r.ownerScope, owner := r.owner,
    kRetrieval := r.kRetrieval, now := r.now, rank := r.rank, residualCap := r.residualCap,
    kSurface := r.kSurface, indexVer := r.indexVer, indexTok := r.indexTok, labelMap := r.labelMap,
    hybrid := r.hybrid }

/-- What retrieval + rescoring + residual consume. -/
structure T2Eff where
  key : T2Key
  index : Nat
  rest : Nat
deriving Repr, DecidableEq

def t2Eff (r : T2Raw) : T2Eff := ⟨t2Key r, r.index, r.rest⟩

/-- The key before the label map, the hybrid/GEL digest and the index identity were added (history of the defects). -/
def t2KeyPre (r : T2Raw) : T2Key := { t2Key r with indexTok := 0, labelMap := 0, hybrid := 0 }

def t2Stage {V : Type} (compute : T2Eff → V) (r : T2Raw) : V := compute (t2Eff r)

/-! ### the quality digest

`T2Raw.quality` is the code of the WHOLE `t2.quality` subtree the quality ops read (enabled; lexical bm25_k1/bm25_b/
stopwords; fusion mode/alpha_semantic; mmr enabled/lambda/k; normalizer.enabled; aliasing.map_path): the digest that
enters the key must be injective on it.  Miniature: the subtree as its list of (leaf, value) pairs. -/
abbrev QCfg := List (Nat × Nat)

/-- a digest of every leaf … -/
def digestAll (q : QCfg) : QCfg := q
/-- … and one that is rebuilt from "canonical values" and silently drops a leaf (e.g. `mmr.k`). -/
def digestDrop (leaf : Nat) (q : QCfg) : QCfg := q.filter (fun kv => kv.1 != leaf)

/-- two quality subtrees that differ only in leaf 7 (`mmr.k` = none / 2) -/
def qOf (code : Nat) : QCfg := if code = 0 then [(1, 5), (7, 0)] else if code = 1 then [(1, 5), (7, 2)] else []

/-- **IndexVersionFaithful.**  `T2Raw.index` is the code of the identity of the index object AND of everything T2
reads from it (ids, texts, owners, dates, importance, exact vectors, in order).  `index_version()` is the only
component of the key that stands for it: the key can only be sufficient for two requests whose equal versions imply
equal index content.  Within ONE index object (equal `indexTok`, part of the key since the repair of `C05:t2:state`)
this holds as long as every mutation bumps the version (append-only `add`); it fails for an in-place upsert that
keeps `_ver`. -/
def IndexVersionFaithful (r r' : T2Raw) : Prop :=
  r.indexTok = r'.indexTok → r.indexVer = r'.indexVer → r.index = r'.index

/-! Miniature of `InMemoryIndex` (rows = (id, content code)) for the version-faithfulness statements. -/
structure MemIdx where
  eps : List (Nat × Nat)
  ver : Nat
deriving Repr, DecidableEq

/-- `InMemoryIndex.add` as written: append, bump. -/
def MemIdx.addAppend (m : MemIdx) (ep : Nat × Nat) : MemIdx := ⟨m.eps ++ [ep], m.ver + 1⟩

/-- An "upsert by id" `add`: a row with an existing id is replaced in place and the version is NOT bumped. -/
def MemIdx.addUpsert (m : MemIdx) (ep : Nat × Nat) : MemIdx :=
  if m.eps.any (fun e => e.1 == ep.1) then ⟨m.eps.map (fun e => if e.1 == ep.1 then ep else e), m.ver⟩
  else m.addAppend ep

def MemIdx.runAppend (m : MemIdx) (l : List (Nat × Nat)) : MemIdx := l.foldl MemIdx.addAppend m

/-- The key as it was before the repair (owner, k_retrieval, now, ranking, residual cap, k_surface absent). -/
def t2KeyLegacy (r : T2Raw) : T2Key :=
  { t2KeyPre r with ownerScope := 0, owner := 0, kRetrieval := 0, now := 0, rank := (0, 0, 0), residualCap := 0, kSurface := 0 }

/-! ## turn-level manager (`orchestrator/core.py:run_turn`, namespace `t2:semantic`) -/

structure TurnRaw where
  version : Option (List Nat)   -- `state.version_etag` (code points); `None`
  text : List Nat               -- `str(input_text)`
  sliceK : Option Nat           -- `repr(slice_budgets["t2_k"])` when present
  -- the components of `_t2_turn_key_context` (a sha1 over them: treated as injective)
  agent : Nat
  now : Nat
  config : Nat                  -- cfg.t2 + cfg.perf + k_surface
  t1Sig : Nat                   -- sorted ids of T1's graph deltas
  graphs : Nat                  -- (gid, store.version_etag(gid)) of the active graphs
  indexVer : Int                -- `mem_index.index_version()`
  gel : Nat                     -- GEL edges when hybrid reranking is on, else 0
  -- read by the wrapped T2 stage, NOT in the key (they are what `t1Sig`/`graphs`/`indexVer` stand for)
  t1Labels : Nat                -- labels of the nodes T1 touched
  labelMap : Nat
  memory : Nat                  -- content of the state's memory index
deriving Repr, DecidableEq

structure TurnKey where
  ver : List Nat
  text : List Nat
  sliceK : Option Nat
  agent : Nat
  now : Nat
  config : Nat
  t1Sig : Nat
  graphs : Nat
  indexVer : Int
  gel : Nat
deriving Repr, DecidableEq

def verOr0 (v : Option (List Nat)) : List Nat :=
  match v with
  | none => [48]
  | some [] => [48]
  | some v => v

/-- `(state.version_etag or "0", str(input_text)[, "t2_k=" + repr(t2_k)], _t2_turn_key_context(ctx, state, t1))` -/
def turnKey (r : TurnRaw) : TurnKey :=
  ⟨verOr0 r.version, r.text, r.sliceK, r.agent, r.now, r.config, r.t1Sig, r.graphs, r.indexVer, r.gel⟩

/-- The key before `_t2_turn_key_context` was added: `(version, text[, t2_k])` (history of the defects). -/
def turnKeyLegacy (r : TurnRaw) : TurnKey := ⟨verOr0 r.version, r.text, r.sliceK, 0, 0, 0, 0, 0, 0, 0⟩

/-- The graph etags and T1's touched ids determine the labels the T2 query and the residual map use
(`EtagFaithful` for the active graphs). -/
def TurnGraphFaithful (r r' : TurnRaw) : Prop :=
  r.t1Sig = r'.t1Sig → r.graphs = r'.graphs → r.t1Labels = r'.t1Labels ∧ r.labelMap = r'.labelMap

/-- Within the state's index, the version determines the content (append-only `add`). -/
def TurnMemoryFaithful (r r' : TurnRaw) : Prop := r.indexVer = r'.indexVer → r.memory = r'.memory

structure TurnEff where
  text : List Nat
  sliceK : Option Nat
  agent : Nat
  t1Labels : Nat
  labelMap : Nat
  config : Nat
  memory : Nat
  now : Nat
  gel : Nat
deriving Repr, DecidableEq

def turnEff (r : TurnRaw) : TurnEff :=
  ⟨r.text, r.sliceK, r.agent, r.t1Labels, r.labelMap, r.config, r.memory, r.now, r.gel⟩

def turnStage {V : Type} (compute : TurnEff → V) (r : TurnRaw) : V := compute (turnEff r)

/-! ## decidable monitors (evaluated by the driver on implementation data) -/

/-- Two calls with equal keys produced equal results (`same` = the harness compared the two fresh results). -/
def keyEqImpliesSameB {K : Type} [DecidableEq K] (k k' : K) (same : Bool) : Bool := !(decide (k = k')) || same

end Clem.CacheKeys
