/-
Model of how the planner's caps reach the bundle: `clematis/engine/stages/t3/bundle.py`
`cfg_caps` (per-turn cap `t3.max_ops_per_turn`) and the `slice_caps` block of `assemble_bundle`
(`ctx.slice_budgets` → `bundle["slice_caps"]`), composed with `deliberate` / `rag_once`.
`make_plan_bundle`, `legacy.make_plan_bundle` and `t3_pipeline` all go through `assemble_bundle`.
-/
import Clem.Model.T3

namespace Clem.T3

/-- a value stored under a `slice_budgets` key: `None`, something `int()` accepts, or something it rejects -/
inductive BudgetVal | none | int (i : Int) | bad
deriving DecidableEq, Repr, Inhabited

/-- `getattr(ctx, "slice_budgets", None)`: absent / falsy (`None`, `{}`), a truthy non-dict, or a dict in which the
key is absent or holds a value -/
inductive SliceBudgets | absent | notDict | noKey | key (v : BudgetVal)
deriving DecidableEq, Repr, Inhabited

/-- the `slice_caps` block of `assemble_bundle` for one forwarded key: forwarded whenever the value is not `None`
(0 included); a failing `int()` empties `slice_caps` -/
def forwardSlice : SliceBudgets → SliceV
  | .key (.int i) => .int i
  | _ => .missing

/-- the cap the scheduler asked for, as the statement reads it: the slice budget when one is given -/
def requestedCap (perTurn : Int) : SliceBudgets → Int
  | .key (.int i) => min perTurn i
  | _ => perTurn

/-- the bundle `assemble_bundle` builds, as far as the planner reads it: `rest` carries everything else -/
def assembled {α : Type} (perTurn : Int) (sb : SliceBudgets) (rest : Bundle α) : Bundle α :=
  { rest with baseOps := perTurn, slice := forwardSlice sb }

/-- monitor: the plan built from a ctx respects `max 0 (min perTurn sliceBudget)` -/
def withinRequestedCap (perTurn : Int) (sb : SliceBudgets) (ops : List Op) : Bool :=
  decide ((ops.length : Int) ≤ max 0 (requestedCap perTurn sb))

end Clem.T3
