/-
Number carrier for the T1 propagation model (C12).  Import-free.

The T1 theorems do not need any algebraic law: every statement is about which
operations are applied to which operands in which order, so they hold for *every*
instance of this class — in particular for the `Float` instance the driver executes
(bit-identical to CPython for `+ * / abs pow` and the comparisons, NaN included).
`Int` is a second instance used for kernel-evaluated non-vacuity examples.
-/
namespace Clem.T1

class Num (α : Type) where
  zero : α
  one : α
  add : α → α → α
  mul : α → α → α
  div : α → α → α
  neg : α → α
  abs : α → α
  /-- Python `a < b` -/
  lt : α → α → Bool
  /-- Python `a <= b` -/
  le : α → α → Bool
  /-- Python `x ** n` for a non-negative `int` n -/
  powNat : α → Nat → α
  /-- Python `float(n)` / implicit int→float conversion -/
  ofNat : Nat → α
  /-- decimal literal `m · 10^-e` (for the defaults written in the source: 0.6, 0.05, 0.8) -/
  ofDec : Nat → Nat → α
  /-- representation equality (bit pattern for floats); only used by monitors -/
  eqb : α → α → Bool

instance : Num Float where
  zero := 0.0
  one := 1.0
  add := (· + ·)
  mul := (· * ·)
  div := (· / ·)
  neg := fun x => -x
  abs := Float.abs
  lt := fun a b => a < b
  le := fun a b => a ≤ b
  powNat := fun x n => Float.pow x (Float.ofNat n)
  ofNat := Float.ofNat
  ofDec := fun m e => Float.ofScientific m true e
  eqb := fun a b => a.toBits == b.toBits

/-- A toy exact carrier for `decide`-able examples (division is integer division; `ofDec`
rounds towards zero).  Only used to show the theorems' hypotheses are satisfiable. -/
instance : Num Int where
  zero := 0
  one := 1
  add := (· + ·)
  mul := (· * ·)
  div := (· / ·)
  neg := fun x => -x
  abs := fun x => (x.natAbs : Int)
  lt := fun a b => decide (a < b)
  le := fun a b => decide (a ≤ b)
  powNat := fun x n => x ^ n
  ofNat := fun n => (n : Int)
  ofDec := fun m e => (m : Int) / ((10 : Int) ^ e)
  eqb := fun a b => decide (a = b)

end Clem.T1
