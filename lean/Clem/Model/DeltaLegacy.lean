/-
The delta codec of the PINNED tree (before `proposed_fixes/C07_delta_paths_and_strict_leaves.diff`):
`".".join(prefix + (k,))`, `path.split(".") if path else []`, leaves compared with Python `!=`.
Kept only to state, machine-checked, why the repair is needed (`Clem/Props/C07/Legacy.lean`); the
correspondence harness ties `Clem.Delta` (the repaired codec) to the code, and `corpus/C07` holds
the same inputs, which fail on the unpatched code.
-/
import Clem.Py.Json
import Clem.Py.Sort
import Clem.Model.Delta

namespace Clem.DeltaLegacy
open Clem.Py Clem.Py.J Clem.Delta

/-- `".".join(parts)` -/
def joinDots : List Str → Str
  | [] => []
  | [s] => s
  | s :: t :: rest => s ++ DOT :: joinDots (t :: rest)

def consHead (c : Nat) : List Str → List Str
  | [] => [[c]]
  | s :: ss => (c :: s) :: ss

/-- `path.split(".")` -/
def splitDots : Str → List Str
  | [] => [[]]
  | c :: cs => if c = DOT then [] :: splitDots cs else consHead c (splitDots cs)

/-- `path.split(".") if path else []` -/
def keysOf (p : Str) : List Str := if p.isEmpty then [] else splitDots p

/-- Python `==` on the leaves that matter here: `bool` is an `int` (`1 == True`), `0.0 == -0.0`;
    containers element-wise.  (`1 == 1.0` is not modelled: it needs float → rational.) -/
def numOf : J → Option Int
  | .bool b => some (if b then 1 else 0)
  | .int n => some n
  | _ => none

mutual
def pyEq : J → J → Bool
  | .arr a, .arr b => pyEqL a b
  | .flt a, .flt b => a == b || (a % 9223372036854775808 == 0 && b % 9223372036854775808 == 0)
  | .str a, .str b => a == b
  | .null, .null => true
  | .obj a, .obj b => J.beq (.obj a) (.obj b)
  | a, b => match numOf a, numOf b with
            | some x, some y => x == y
            | _, _ => false
def pyEqL : List J → List J → Bool
  | [], [] => true
  | x :: xs, y :: ys => pyEq x y && pyEqL xs ys
  | _, _ => false
end

def levelItems (pre : List Str) (be ce : List (Str × J)) : List Item :=
  (isort lexLe ((keys be).filter (fun k => !hasKey k ce))).map (fun k => Item.del (joinDots (pre ++ [k])))
  ++ (isort keyLe (ce.filter (fun e => !hasKey e.1 be))).map (fun e => Item.add (joinDots (pre ++ [e.1])) e.2)

mutual
def walkC (pre : List Str) : List (Str × J) → List (Str × J) → List Item
  | [], _ => []
  | (k, bv) :: bs, ce =>
      (match lookup k ce with
       | none => []
       | some cv => walkV (pre ++ [k]) bv cv) ++ walkC pre bs ce
def walkV (path : List Str) : J → J → List Item
  | .obj be, .obj ce => levelItems path be ce ++ walkC path be ce
  | bv, cv => if pyEq bv cv then [] else [Item.mod (joinDots path) cv]
end

def computeDelta (base cur : J) : Delta :=
  let l := levelItems [] (entries base) (entries cur) ++ walkC [] (entries base) (entries cur)
  ⟨addsOf l, modsOf l, isort lexLe (delsOf l)⟩

def applyDelta (base : J) (d : Delta) : List (Str × J) :=
  let o0 := entries base
  let o1 := (isort keyLe d.adds).foldl (fun o e => setSegs (keysOf e.1) e.2 o) o0
  let o2 := (isort keyLe d.mods).foldl (fun o e => setSegs (keysOf e.1) e.2 o) o1
  (isort lexLe d.dels).foldl (fun o p => delSegs (keysOf p) o) o2

end Clem.DeltaLegacy
