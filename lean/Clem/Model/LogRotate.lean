/-
C16 — `rotate_one` (clematis/scripts/rotate_logs.py) over an abstract file system.

Only the generation files of ONE log matter: index 0 is `path`, index k is `path.k`.
A file system state maps a generation index to the (complete) content of that file, if it
exists.  `os.remove` and `os.replace` (inside `atomic_replace`) are single atomic steps
(trusted: POSIX rename atomicity); a crash may happen between any two of them, so the
procedure is modelled as the *list of primitive steps it performs*, computed exactly as the
code computes it (each `os.path.exists` test reads the state at that moment).  Import-free.
-/
namespace Clem.LogRotate

/-- generation index ↦ content id -/
abbrev FS := Nat → Option Nat

inductive Step where
  | rm (k : Nat)
  | mv (src dst : Nat)
  deriving DecidableEq, Repr

def apply (fs : FS) : Step → FS
  | .rm k => fun i => if i = k then none else fs i
  | .mv s d => fun i => if i = d then fs s else if i = s then none else fs i

def exec (fs : FS) (steps : List Step) : FS := steps.foldl apply fs

def existsAt (fs : FS) (k : Nat) : Bool := (fs k).isSome

/-- `for k in range(backups - 1, 0, -1): if exists(path.k): replace(path.k, path.(k+1))`;
the argument counts down from `backups - 1`; returns the steps performed from state `fs`. -/
def cascade (fs : FS) : Nat → List Step
  | 0 => []
  | k + 1 =>
    if existsAt fs (k + 1) then
      .mv (k + 1) (k + 2) :: cascade (apply fs (.mv (k + 1) (k + 2))) k
    else cascade fs k

/-- removal of the oldest generation + cascade, for `backups = n ≥ 1`. -/
def preSteps (fs : FS) (n : Nat) : List Step :=
  let s1 := if existsAt fs n then [Step.rm n] else []
  s1 ++ cascade (exec fs s1) (n - 1)

/-- all steps of `rotate_one(path, backups)` for `backups = n ≥ 1`
(the last one, `path -> path.1`, only if `path` exists at that moment). -/
def stepsPos (fs : FS) (n : Nat) : List Step :=
  preSteps fs n ++ (if existsAt (exec fs (preSteps fs n)) 0 then [Step.mv 0 1] else [])

/-- `rotate_one`: `backups < 1` is a no-op. -/
def steps (fs : FS) (backups : Int) : List Step :=
  if backups < 1 then [] else stepsPos fs backups.toNat

def rotateOne (fs : FS) (backups : Int) : FS := exec fs (steps fs backups)

/-- return value of `rotate_one`. -/
def rotated (fs : FS) (backups : Int) : Bool :=
  if backups < 1 then false else existsAt (exec fs (preSteps fs backups.toNat)) 0

/-- the state in which generations `m … n-1` have already moved up by one and slot `m` is
vacated (`m = n`: only the oldest has been removed; `m = 0`: rotation complete). -/
def shifted (fs : FS) (n m : Nat) : FS :=
  fun i => if i > n then fs i else if i > m then fs (i - 1) else if i = m then none else fs i

/-- state after a crash following the first `j` primitive steps. -/
def crashState (fs : FS) (backups : Int) (j : Nat) : FS := exec fs ((steps fs backups).take j)

/-! ### faults of a rename (not crashes)

`atomic_replace` retries a failing `os.replace`; a failed attempt changes nothing.  If the rename
keeps failing (or fails with an errno that is not retried) the error is re-raised, which ends the
rotation.  `rotate_one` calls the helper with `unlink_on_failure=False`, so the source generation
stays where it was (the helper's default clean-up, meant for temp files, unlinks its source —
`unlinkSourceState` below is that behaviour, kept to show what the monitors reject). -/

/-- steps where step `i` is preceded by `fails[i]` failed attempts that are retried. -/
def execRetried (fs : FS) : List (Step × Nat) → FS
  | [] => fs
  | (s, k) :: rest => execRetried (apply (Nat.repeat id k fs) s) rest

/-- state after the rename at step index `j` failed for good: the first `j` steps done, the
failing step not done, its source kept — the same state as a crash before step `j`. -/
def failState (fs : FS) (backups : Int) (j : Nat) : FS := crashState fs backups j

/-- what a helper that unlinks its source on failure would leave (the defect fixed by
`unlink_on_failure=False`; regression witness). -/
def unlinkSourceState (fs : FS) (backups : Int) (j : Nat) : FS :=
  match (steps fs backups)[j]? with
  | some (.mv s _) => apply (crashState fs backups j) (.rm s)
  | _ => crashState fs backups j

/-! ### monitors (over a finite window of generation indices `0 … hi`) -/

/-- every content of `before` other than generation `n` is still present in `after`, at its
old index or one above. -/
def nothingLostB (before after : FS) (n hi : Nat) : Bool :=
  (List.range (hi + 1)).all (fun i =>
    i == n || (before i).isNone || after i == before i || after (i + 1) == before i)

/-- `after` is `before` or one of the legal intermediate states `shifted before n m`. -/
def legalStateB (before after : FS) (n hi : Nat) : Bool :=
  (List.range (hi + 2)).all (fun i => after i == before i) ||
  (List.range (n + 1)).any (fun m =>
    (List.range (hi + 2)).all (fun i => after i == shifted before n m i))

end Clem.LogRotate
