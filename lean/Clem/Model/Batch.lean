/-
C10 — the agent batch driver (clematis/engine/orchestrator/parallel.py):
`_resolve_graphs_for_agent`, `_select_independent_batch`, `_sort_turn_buffers`,
`_agents_parallel_enabled`, `_run_agents_parallel_batch` (compute on the snapshot, staging of the
captured logs through the `LogStager` with drain-flush-retry, commit in `_sort_turn_buffers`
order with one `apply.jsonl` record per buffer, final drain) and its own sequential fall-back.

The turn-compute function and `apply_changes` are PARAMETERS (`Params`): the model says what the
driver does with them.  The stager, its key and the drain-flush-retry step are the C16 model
(`Clem.LogStager`), reused unchanged.  Mirrors the code as written: the membership test
`aid not in picked` (so a task list that names the same agent twice computes it twice), the
apply call happens BEFORE its record is staged (so a retry that raises leaves the state
committed but the record unwritten), results are returned in commit order.
-/
import Clem.Model.LogStager

namespace Clem.Batch
open Clem.LogStager Clem.LogJson

/-! ### selection -/

/-- `_resolve_graphs_for_agent`: `state.agents[aid].graphs` when present (not `None`), else
`state.graphs_by_agent[aid] or []` when the agent is listed there, else the empty set. -/
def resolveGraphs (ag gba : Option (List Str)) : List Str :=
  match ag with
  | some g => g
  | none => match gba with
    | some g => g
    | none => []

/-- `used.isdisjoint(gset)`. -/
def disjointB (used g : List Str) : Bool := g.all (fun x => !used.contains x)

/-- the loop of `_select_independent_batch` (`picked`, `used` are its two accumulators). -/
def selectGo (gs : Str → List Str) (limit : Nat) : List Str → List Str → List Str → List Str
  | [], picked, _ => picked
  | a :: as, picked, used =>
    if picked.length ≥ limit then picked
    else if disjointB used (gs a) then selectGo gs limit as (picked ++ [a]) (used ++ gs a)
    else selectGo gs limit as picked used

/-- `max(1, int(max_workers))`. -/
def workerLimit (mw : Int) : Nat := (max 1 mw).toNat

def selectIndependent (gs : Str → List Str) (mw : Int) (ids : List Str) : List Str :=
  selectGo gs (workerLimit mw) ids [] []

/-- the tasks the driver computes: `for aid, text in tasks: if aid not in picked: continue`. -/
def computed (gs : Str → List Str) (mw : Int) (tasks : List (Str × Str)) : List (Str × Str) :=
  tasks.filter (fun t => (selectIndependent gs mw (tasks.map (·.1))).contains t.1)

/-! ### buffers, apply record -/

/-- `_TurnBuffer` as far as the driver looks at it.  `line` = the dialogue (a text id and a
number, so that scripted computes can make it depend on what they read). -/
structure Buffer (D : Type) where
  turn : Int
  slice : Int
  agentV : V
  /-- the turn id as it appears in payloads (`buf["turn_id"]`: an int, or a string such as "7" / "007"
  that the driver must pass through untouched); `turn` is only its rank in `_sort_turn_buffers` -/
  turnV : V
  logs : List (Str × Rec)
  deltas : D
  line : Str × Int

/-- what the driver reads from the result of `apply_changes`. -/
structure ApplyOut where
  applied : V
  clamps : V
  etag : V
  snapshot : V
  cacheInv : Int
  deriving DecidableEq, Repr

structure Params (σ D : Type) where
  /-- `_run_turn_compute(ctx, snapshot, agent, text)` -/
  compute : σ → Str → Str → Buffer D
  /-- `apply_changes(ctx, state, t4_like)`: new state and the result object -/
  apply : σ → D → σ × ApplyOut

def applyPath : Str := [97, 112, 112, 108, 121, 46, 106, 115, 111, 110, 108]  -- "apply.jsonl"

/-- the commit-phase `apply.jsonl` payload (key order as in the dict literal). -/
def applyRec {D : Type} (b : Buffer D) (o : ApplyOut) : Rec :=
  [([116, 117, 114, 110], b.turnV),                                           -- turn
   ([97, 103, 101, 110, 116], b.agentV),                                       -- agent
   ([97, 112, 112, 108, 105, 101, 100], o.applied),                            -- applied
   ([99, 108, 97, 109, 112, 115], o.clamps),                                   -- clamps
   ([118, 101, 114, 115, 105, 111, 110, 95, 101, 116, 97, 103], o.etag),       -- version_etag
   ([115, 110, 97, 112, 115, 104, 111, 116], o.snapshot),                      -- snapshot
   ([99, 97, 99, 104, 101, 95, 105, 110, 118, 97, 108, 105, 100, 97, 116, 105, 111, 110, 115],
      .int o.cacheInv),                                                        -- cache_invalidations
   ([109, 115], .flt0)]                                                        -- ms

def applyArrival {D : Type} (b : Buffer D) (o : ApplyOut) : Arrival :=
  ⟨applyPath, b.turn, b.slice, applyRec b o⟩

/-- the staging requests of the first loop: every captured log of every buffer, buffers in
collection (= task) order, keyed with the buffer's `(turn_id, slice_idx)`. -/
def logArrivals {D : Type} (bs : List (Buffer D)) : List Arrival :=
  bs.flatMap (fun b => b.logs.map (fun l => (⟨l.1, b.turn, b.slice, l.2⟩ : Arrival)))

/-- `_sort_turn_buffers`: stable sort by `(0, int(turn_id), int(slice_idx))`. -/
def bufLe {D : Type} (a b : Buffer D) : Bool :=
  if a.turn < b.turn then true else if b.turn < a.turn then false else decide (a.slice ≤ b.slice)

def sortBuffers {D : Type} (bs : List (Buffer D)) : List (Buffer D) := Clem.Py.isort bufLe bs

/-! ### the parallel path -/

structure Commit (σ D : Type) where
  loop : Loop
  state : σ
  lines : List (Str × Int)
  ok : Bool
  /-- trace of the calls `apply_changes(ctx, state, t4_like)`: the delta batches handed to apply, in call order -/
  applied : List D

/-- the commit loop: `apply_changes`, then stage the apply record (drain-flush-retry; a retry
that raises leaves the function), then the result line. -/
def commitLoop {σ D : Type} (ci : Bool) (apply : σ → D → σ × ApplyOut) :
    Loop → σ → List (Buffer D) → Commit σ D
  | l, s, [] => ⟨l, s, [], true, []⟩
  | l, s, b :: bs =>
    let r := apply s b.deltas
    let st := loopStep ci l (applyArrival b r.2)
    if st.2 then
      let c := commitLoop ci apply st.1 r.1 bs
      ⟨c.loop, c.state, b.line :: c.lines, c.ok, b.deltas :: c.applied⟩
    else ⟨st.1, r.1, [], false, [b.deltas]⟩

/-- a line on disk: file path and the payload as serialised. -/
abbrev Line := Str × Rec

/-- `_append_unbuffered(rec.file_path, rec.payload)`: the writer normalises (again). -/
def lineOf (ci : Bool) (r : SRec) : Line := (r.path, normalize ci (basename r.path) r.payload)

structure Out (σ : Type) where
  /-- `false` = a `LOG_STAGING_BACKPRESSURE` left the function -/
  ok : Bool
  state : σ
  lines : List (Str × Int)
  /-- everything handed to the writer, in write order -/
  written : List Line

def runPar {σ D : Type} (ci : Bool) (limit : Int) (P : Params σ D) (gs : Str → List Str) (mw : Int)
    (s0 : σ) (tasks : List (Str × Str)) : Out σ :=
  let bufs := (computed gs mw tasks).map (fun t => P.compute s0 t.1 t.2)
  let l1 := loopRun ci ⟨Stager.new limit, []⟩ (logArrivals bufs)
  if l1.2 then
    let c := commitLoop ci P.apply l1.1 s0 (sortBuffers bufs)
    if c.ok then ⟨true, c.state, c.lines, (c.loop.written ++ (drain c.loop.st).2).map (lineOf ci)⟩
    else ⟨false, c.state, [], c.loop.written.map (lineOf ci)⟩
  else ⟨false, s0, [], l1.1.written.map (lineOf ci)⟩

/-- the apply-call trace of the parallel path (no call when the staging of captured logs already raised). -/
def runParApplied {σ D : Type} (ci : Bool) (limit : Int) (P : Params σ D) (gs : Str → List Str) (mw : Int)
    (s0 : σ) (tasks : List (Str × Str)) : List D :=
  let bufs := (computed gs mw tasks).map (fun t => P.compute s0 t.1 t.2)
  let l1 := loopRun ci ⟨Stager.new limit, []⟩ (logArrivals bufs)
  if l1.2 then (commitLoop ci P.apply l1.1 s0 (sortBuffers bufs)).applied else []

/-! ### the sequential loop (the driver's own fall-back, and the reference of the property) -/

/-- `append_jsonl(path, payload)` outside any capture: normalise, write. -/
def seqLine (ci : Bool) (l : Str × Rec) : Line := (l.1, normalize ci (basename l.1) l.2)

/-- One full turn under the dry-run contract: the full turn emits exactly the records of the
dry run computed on the CURRENT state, applies its deltas and emits the apply record. -/
def seqRun {σ D : Type} (ci : Bool) (P : Params σ D) : σ → List (Str × Str) → Out σ
  | s, [] => ⟨true, s, [], []⟩
  | s, t :: ts =>
    let b := P.compute s t.1 t.2
    let r := P.apply s b.deltas
    let rest := seqRun ci P r.1 ts
    ⟨true, rest.state, b.line :: rest.lines,
      b.logs.map (seqLine ci) ++ [seqLine ci (applyPath, applyRec b r.2)] ++ rest.written⟩

/-- `_agents_parallel_enabled` (for Boolean flags and an integer `max_workers`).  `enabled` is the conjunction
`perf.enabled ∧ perf.parallel.enabled` (the master switch is part of the gate since the repair of finding
`C02:inert:perf:perf.parallel`; the harness passes the conjunction, `eff_enabled` in `harness/props/c10.py`). -/
def parallelOn (enabled agents : Bool) (mw : Int) : Bool := enabled && agents && decide (mw > 1)

/-- `_run_agents_parallel_batch`. -/
def runDriver {σ D : Type} (ci : Bool) (limit : Int) (P : Params σ D) (gs : Str → List Str)
    (enabled agents : Bool) (mw : Int) (s0 : σ) (tasks : List (Str × Str)) : Out σ :=
  if parallelOn enabled agents mw then runPar ci limit P gs mw s0 tasks else seqRun ci P s0 tasks

/-- content of file `p`: its lines in write order. -/
def fileOf (p : Str) (w : List Line) : List Rec := (w.filter (fun l => l.1 == p)).map (·.2)

/-! ### collection of buffers by task index (compute phases may finish in any order) -/

/-- completion log of a schedule `π` (indices in finishing order) → buffers in task order. -/
def collect {β : Type} (n : Nat) (done : List (Nat × β)) : List β :=
  (List.range n).filterMap (fun i => done.lookup i)

/-- largest staging estimate of the records a list of arrivals will stage. -/
def maxEst (ci : Bool) (as : List Arrival) : Nat :=
  as.foldl (fun m a => max m (estimate (normalize ci (basename a.path) a.payload))) 0

/-! ### monitors (evaluated by the driver on implementation outputs) -/

def pairwiseDisjointB (gs : Str → List Str) : List Str → Bool
  | [] => true
  | a :: as => as.all (fun b => disjointB (gs a) (gs b)) && pairwiseDisjointB gs as

def sublistB : List Str → List Str → Bool
  | [], _ => true
  | _ :: _, [] => false
  | a :: as, b :: bs => if a == b then sublistB as bs else sublistB (a :: as) bs

/-- the selection clauses of the property on an observed `picked`:
pairwise disjoint, at most `max 1 workers`, a subsequence of the input, and greedy-maximal
(every agent left out either meets a full batch or overlaps a picked agent). -/
def selectOkB (gs : Str → List Str) (mw : Int) (ids picked : List Str) : Bool :=
  pairwiseDisjointB gs picked && decide (picked.length ≤ workerLimit mw) && sublistB picked ids &&
  ids.all (fun a => picked.contains a || decide (picked.length = workerLimit mw) ||
    picked.any (fun b => !disjointB (gs b) (gs a)))

/-- the conclusion of `C10_batch_eq_seq_contract` as a decidable predicate on two observed
outcomes (results, state, and the line sequence of each listed file). -/
def sameOutcomeB {σ : Type} [BEq σ] (paths : List Str) (a b : Out σ) : Bool :=
  a.ok && b.ok && a.lines == b.lines && a.state == b.state &&
  paths.all (fun p => fileOf p a.written == fileOf p b.written)

/-! ### a concrete scripted world (what the harness drives the real driver with) -/

structure World where
  graphs : List (Str × Int)
  version : Nat
  deriving DecidableEq, Repr

structure Script where
  agentV : V
  turnV : V
  turn : Int
  slice : Int
  /-- graphs whose values the turn reads (contract: its own) -/
  reads : List Str
  /-- `(path, fixed fields)`; the record gets a `turn` field (the ctx's turn id as the turn sees it)
  and a `val` field = sum of the values read -/
  logs : List (Str × Rec)
  /-- `(graph, increment)` (contract: own graphs) -/
  deltas : List (Str × Int)
  line : Str

def kVal : Str := [118, 97, 108]
def kTurn : Str := [116, 117, 114, 110]

def readVal (w : World) (reads : List Str) : Int :=
  reads.foldl (fun acc g => acc + ((w.graphs.lookup g).getD 0)) 0

def setG (g : Str) (inc : Int) : List (Str × Int) → List (Str × Int)
  | [] => [(g, inc)]
  | e :: l => if e.1 == g then (e.1, e.2 + inc) :: l else e :: setG g inc l

def applyDeltas (gr : List (Str × Int)) (ds : List (Str × Int)) : List (Str × Int) :=
  ds.foldl (fun acc d => setG d.1 d.2 acc) gr

def emptyScript (T S : Int) : Script := ⟨.int 0, .int T, T, S, [], [], [], []⟩

def worldCompute (T S : Int) (scripts : List ((Str × Str) × Script)) (w : World) (a t : Str) :
    Buffer (List (Str × Int)) :=
  let sc := (scripts.lookup (a, t)).getD (emptyScript T S)
  let v := readVal w sc.reads
  ⟨sc.turn, sc.slice, sc.agentV, sc.turnV,
    sc.logs.map (fun l => (l.1, l.2 ++ [(kTurn, sc.turnV), (kVal, V.int v)])), sc.deltas,
    (sc.line, v)⟩

def worldApply (w : World) (ds : List (Str × Int)) : World × ApplyOut :=
  let v := w.version + 1
  (⟨applyDeltas w.graphs ds, v⟩,
   ⟨.int ds.length, .int 0, .int v, .int (7 * v), ds.length⟩)

/-- `T S` = the batch ctx's `(turn_id, slice_idx)` (what a task without a script returns). -/
def worldParams (T S : Int) (scripts : List ((Str × Str) × Script)) : Params World (List (Str × Int)) :=
  ⟨worldCompute T S scripts, worldApply⟩

/-- a script table follows the contract: every script reads and changes only graphs of its
agent, logs nothing to `apply.jsonl`, and returns the batch's `(turn, slice)`. -/
def scriptsOkB (gs : Str → List Str) (T S : Int) (scripts : List ((Str × Str) × Script)) : Bool :=
  scripts.all (fun e =>
    e.2.reads.all (fun g => (gs e.1.1).contains g) &&
    e.2.deltas.all (fun d => (gs e.1.1).contains d.1) &&
    e.2.logs.all (fun l => !(l.1 == applyPath)) &&
    decide (e.2.turn = T) && decide (e.2.slice = S))

end Clem.Batch
