/-
Property monitors for C11: decidable predicates evaluated by the driver on the REAL `T2Result`
(ids / owners / scores / texts of `retrieved`, residual ids, `k_used`, the list entering and
leaving `apply_quality` and `rerank_with_gel`).  The theorems in `Clem/Props/C11.lean` show that
the model's own output satisfies them.
-/
import Clem.Model.T2

namespace Clem.T2

open Clem.Py

variable {α : Type} [Num α]

/-- An observed `EpisodeRef`. -/
structure Hit (α : Type) where
  id : Str
  owner : Str
  score : α
  text : Str

def Ep.toHit (e : Ep α) : Hit α := ⟨e.id, e.ownerStr, e.cos, e.text⟩

def pairwiseB {β : Type} (r : β → β → Bool) : List β → Bool
  | [] => true
  | x :: xs => xs.all (r x) && pairwiseB r xs

def nodupB (l : List Str) : Bool := pairwiseB (fun a b => a != b) l

/-- at most `k` hits, distinct ids -/
def monCount (c : Cfg α) (hits : List (Hit α)) : Bool :=
  decide ((hits.length : Int) ≤ c.k) && nodupB (hits.map (·.id))

/-- owner scope: `agent` ⇒ every hit is the agent's; `world` ⇒ every hit is `world`'s. -/
def monScope (c : Cfg α) (hits : List (Hit α)) : Bool :=
  match c.owner with
  | none => true
  | some o => hits.all (fun h => h.owner == o)

/-- the tier rule an episode must meet to be served by tier `t` -/
def tierOk (c : Cfg α) (eps : List (Ep α)) (e : Ep α) (t : Nat) : Bool :=
  match t with
  | 0 => decide (c.days ≤ 0) || recentOk c.days c.nowUs e
  | 1 => (chosenClusters c.cscore c.topM (filterOwner c.owner eps)).contains e.cluster
  | 2 => c.quarters.isEmpty || c.quarters.contains e.quarter
  | _ => false

/-- an index episode explaining the hit: same id/owner/score, visible, has a vector, meets the
threshold and the rule of some configured tier -/
def explains (c : Cfg α) (tiers : List Nat) (eps : List (Ep α)) (h : Hit α) (e : Ep α) : Bool :=
  e.id == h.id && e.ownerStr == h.owner && Num.beq e.cos h.score
    && visible c.owner e
    && passes c.θ e && tiers.any (tierOk c eps e)

def monTier (c : Cfg α) (tiers : List Nat) (eps : List (Ep α)) (hits : List (Hit α)) : Bool :=
  hits.all (fun h => eps.any (explains c tiers eps h))

/-- Tier rule for results of the PARALLEL (sharded) path: as `tierOk`, except that membership in
the globally chosen top-m clusters is waived — the fan-out chooses clusters per shard (recorded
finding `C09:t2:cluster-tier-per-shard`), so only the recency window and the archive quarters are
demanded there. -/
def tierOkPar (c : Cfg α) (eps : List (Ep α)) (e : Ep α) (t : Nat) : Bool :=
  match t with
  | 1 => true
  | _ => tierOk c eps e t

def explainsPar (c : Cfg α) (tiers : List Nat) (eps : List (Ep α)) (h : Hit α) (e : Ep α) : Bool :=
  e.id == h.id && e.ownerStr == h.owner && Num.beq e.cos h.score
    && visible c.owner e
    && passes c.θ e && tiers.any (tierOkPar c eps e)

def monTierPar (c : Cfg α) (tiers : List Nat) (eps : List (Ep α)) (hits : List (Hit α)) : Bool :=
  hits.all (fun h => eps.any (explainsPar c tiers eps h))

/-- threshold on the observed scores themselves -/
def monThreshold (c : Cfg α) (hits : List (Hit α)) : Bool :=
  hits.all (fun h => Num.le c.θ h.score)

/-- the list entering the rerank layers is ordered by `(−combined, id)` -/
def monOrder (c : Cfg α) (eps : List (Ep α)) (pre : List (Hit α)) : Bool :=
  pairwiseB (fun a b => keyLe (Num.neg (combined c eps a.id a.score), a.id)
                              (Num.neg (combined c eps b.id b.score), b.id)) pre

/-- rerank layers only permute -/
def monPerm (pre post : List Str) : Bool := pre.isPerm post

/-- hybrid: permutation, position 0 and everything beyond `k_max` fixed -/
def monHybrid (kMax : Int) (inp out : List Str) : Bool :=
  inp.isPerm out && (inp.head? == out.head?)
    && (inp.drop (min (inp.length : Int) kMax).toNat == out.drop (min (inp.length : Int) kMax).toNat)

def monUsed (t2k : Option Int) (hits : List (Hit α)) (kUsed : Nat) : Bool :=
  (usedHits t2k hits).length == kUsed

/-- residual nudges: existing node of an active graph whose lower-cased label occurs in the
lower-cased text of a USED hit; at most `max cap 0` of them; strictly sorted. -/
def residualSound (graphs : List (List GNode)) (used : List (Hit α)) (nid : Str) : Bool :=
  graphs.any (fun g => g.any (fun n => n.id == nid && !n.label.isEmpty
    && used.any (fun h => isInfix (lowerAscii n.label) (lowerAscii h.text))))

def monResidual (t2k : Option Int) (cap : Int) (graphs : List (List GNode))
    (hits : List (Hit α)) (res : List Str) : Bool :=
  res.all (residualSound graphs (usedHits t2k hits))
    && decide ((res.length : Int) ≤ max cap 0)
    && pairwiseB lexLt res

/-! ### Completeness monitors ("nothing that qualifies is dropped while there is room") -/

/-- visible, has a vector, meets the threshold and the rule of a configured (known) tier -/
def qualifies (c : Cfg α) (tiers : List Nat) (eps : List (Ep α)) (e : Ep α) : Bool :=
  visible c.owner e && passes c.θ e && tiers.any (fun t => decide (t ≤ 2) && tierOk c eps e t)

/-- Fewer than `k` hits ⇒ every qualifying episode's id was returned (ids may repeat in the memory:
`_rank_by_cosine` keeps one entry per id before the cut). -/
def monComplete (c : Cfg α) (tiers : List Nat) (eps : List (Ep α)) (hits : List (Hit α)) : Bool :=
  decide (c.k ≤ (hits.length : Int))
    || eps.all (fun e => !(qualifies c tiers eps e) || hits.any (fun h => h.id == e.id))

/-- Index level (one tier): ranked by `(−score, id)`; for a qualifying episode, a copy of its id that
sorts no later is returned, or `k` better-or-equal ones were returned. -/
def monSearch (c : Cfg α) (tier : Nat) (eps : List (Ep α)) (hits : List (Hit α)) : Bool :=
  pairwiseB (fun a b => keyLe (Num.neg a.score, a.id) (Num.neg b.score, b.id)) hits
    && eps.all (fun e =>
          !(qualifies c [tier] eps e)
            || hits.any (fun h => h.id == e.id
                  && keyLe (Num.neg h.score, h.id) (Num.neg e.cos, e.id))
            || (decide (c.k ≤ (hits.length : Int))
                && hits.all (fun h => keyLe (Num.neg h.score, h.id) (Num.neg e.cos, e.id))))

/-- Fewer than `max cap 0` nudges ⇒ every labelled active node whose lower-cased label occurs in a
used hit is represented (by a node with the same lower-cased label). -/
def monResidualComplete (t2k : Option Int) (cap : Int) (graphs : List (List GNode))
    (hits : List (Hit α)) (res : List Str) : Bool :=
  decide (max cap 0 ≤ (res.length : Int))
    || graphs.all (fun g => g.all (fun n =>
        n.label.isEmpty
          || !((usedHits t2k hits).any (fun h => isInfix (lowerAscii n.label) (lowerAscii h.text)))
          || res.any (fun nid => graphs.any (fun g' => g'.any (fun n' =>
              n'.id == nid && lowerAscii n'.label == lowerAscii n.label)))))

end Clem.T2
