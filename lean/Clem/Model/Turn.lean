/-
`Turn` — control skeleton of `clematis/engine/orchestrator/core.py:Orchestrator.run_turn`
(+ the control skeletons of `apply.py:apply_changes`, `_run_reflection_if_enabled` and the reflection tail).

What is modelled: gates, stage call ORDER, the list of emitted log records `(stream, fields)`, every
`try/except`, boot snapshot load, the GEL maintenance block, adapter construction fallback, store apply
errors, cache invalidation, snapshot body/sidecar write, the reflection tail, yield points, dry-run stop,
kill switch.  What is NOT modelled: what the stages compute — every stage and every optional subsystem is a
parameter (`Env`) returning `Except`; configuration is read only through the accessor fields of `Cfg`.

Whether an optional call is protected is not hard-wired: `runTurn` takes `g : Site → Bool`; the instance
used everywhere is `guardOf`, computed from the table GENERATED from the repository's AST
(`Clem.Gen.FailSoft`).  Import-free (linked into `clemdrv`).
-/
import Clem.Gen.FailSoft

namespace Clem.Turn
open Clem.Gen.FailSoft

/-- exception class id (any value; the skeleton never inspects it) -/
abbrev Exc := Nat

/-- Call sites of the skeleton: stages (never protected) and optional subsystems. -/
inductive Site where
  | bootLoad | t1 | t2 | gelObserve | deliberate | rag | t3Trace | adapterBuild | speak | t4
  | gelTick | gelMergeCand | gelApplyMerge | gelSplitCand | gelApplySplit | gelPromote | gelApplyPromo
  | storeBatch | storeOne | cacheInvalidate | snapshotBody | sidecarWrite
  | reflectRun | reflectCompute | reflectWrite | reflectLog | health
  deriving DecidableEq, Repr

/-- Where each site lives in the source: `(function, callee, occurrence)` rows of the generated table
(`none` = every occurrence must be protected). -/
def Site.code : Site → List (Fn × Callee × Option Nat)
  | .bootLoad => [(.run_turn, .load_latest_snapshot, none)]
  | .gelObserve => [(.run_turn, .gel_observe, none)]
  | .t3Trace => [(.emit_trace, .list_append, none)]
  | .adapterBuild => [(.run_turn, .build_llm_adapter, none)]
  | .gelTick => [(.run_turn, .gel_tick, none)]
  | .gelMergeCand => [(.run_turn, .gel_merge_candidates, none)]
  | .gelApplyMerge => [(.run_turn, .gel_apply_merge, none)]
  | .gelSplitCand => [(.run_turn, .gel_split_candidates, none)]
  | .gelApplySplit => [(.run_turn, .gel_apply_split, none)]
  | .gelPromote => [(.run_turn, .gel_promote_clusters, none)]
  | .gelApplyPromo => [(.run_turn, .gel_apply_promotion, none)]
  | .storeBatch => [(.apply_changes, .store_apply_fn, some 0)]   -- the batch call
  | .storeOne => [(.apply_changes, .store_apply_fn, some 1)]     -- the per-delta call in the fallback loop
  | .cacheInvalidate => [(.apply_changes, .invalidate_namespace, none)]
  | .snapshotBody => [(.apply_changes, .write_snapshot, none)]
  | .sidecarWrite => [(.write_snapshot, .write_sidecar_meta, none)]
  | .reflectRun => [(.run_turn, .run_reflection_if_enabled, none)]
  | .reflectCompute => [(.run_reflection, .reflect_fn, none)]
  | .reflectWrite => [(.run_turn, .write_reflection_entries, none)]
  | .reflectLog => [(.run_turn, .log_t3_reflection, none)]
  | .health => [(.run_turn, .health_check_and_log, none)]
  | .t1 | .t2 | .deliberate | .rag | .speak | .t4 => []

/-- Guard status of a site according to the CURRENT source (generated table). -/
def guardOf (s : Site) : Bool :=
  match s.code with
  | [] => false
  | l => l.all (fun p => match p.2.2 with
    | none => guardedAll p.1 p.2.1
    | some k => guardedAt p.1 p.2.1 k)

/-- The sites the property declares fail-soft (boot load, GEL maintenance passes, reflection
compute/write/telemetry, adapter construction, T3 tracing, cache invalidation, store apply errors,
sidecar write).  The T2 quality layers live inside the T2 stage: see `qualitySites`. -/
def declared : List Site :=
  [.bootLoad, .gelObserve, .gelTick, .gelMergeCand, .gelApplyMerge, .gelSplitCand, .gelApplySplit, .gelPromote, .gelApplyPromo,
   .reflectRun, .reflectCompute, .reflectWrite, .reflectLog, .adapterBuild, .t3Trace,
   .cacheInvalidate, .storeBatch, .storeOne, .sidecarWrite]

/-- declared fail-soft layers of `apply_quality` (rerank / fusion / MMR / shadow trace) -/
def qualitySites : List (Fn × Callee) :=
  [(.apply_quality, .rerank_with_gel), (.apply_quality, .quality_fuse), (.apply_quality, .quality_mmr),
   (.apply_quality, .quality_mmr_fallback), (.apply_quality, .emit_quality_trace),
   (.apply_quality, .quality_cfg_snapshot), (.log_t3_reflection, .append_jsonl),
   (.write_sidecar_meta, .atomic_write_text)]

/-- sites that are NOT in the property's list and are unprotected in the current source (observations) -/
def observedUnguarded : List Site := [.snapshotBody, .health]

/-! ## values -/

inductive Ver where
  | none | num (n : Int) | junk
  deriving DecidableEq, Repr

/-- `_bump_version_etag` -/
def Ver.bump : Ver → Ver
  | .num n => .num (n + 1)
  | _ => .num 1

/-- `state.version_etag or "0"` (cache key) -/
def Ver.key : Ver → Ver
  | .none => .num 0
  | v => v

structure T1Out where
  tok : Nat
  pops : Option Int
  iters : Option Int
  graphs : Option Int
  deriving DecidableEq, Repr

structure T2Out where
  tok : Nat
  kRet : Option Int
  kUsed : Option Int
  nRetrieved : Nat
  deriving DecidableEq, Repr

structure Plan where
  tok : Nat
  nOps : Nat
  wantsRetrieve : Bool
  reflection : Bool
  deriving DecidableEq, Repr

structure T4Out where
  tok : Nat
  approved : List Nat
  rejected : Nat
  deriving DecidableEq, Repr

structure ReflOut where
  entries : Nat
  summaryLen : Nat
  deriving DecidableEq, Repr

structure ApplyOut where
  applied : Int
  clamps : Int
  ver : Ver
  snapshot : Bool
  invalidations : Nat
  deriving DecidableEq, Repr

inductive StoreKind where
  | none | noFn | ok
  deriving DecidableEq, Repr

inductive Line where
  | empty | utter (u : Nat) | input | ellipsis
  deriving DecidableEq, Repr

inductive YPoint where
  | T1 | T2 | T3 | T4 | Apply
  deriving DecidableEq, Repr

/-- Gate values, read only through these accessors. -/
structure Cfg where
  dryRun : Bool
  schedEnabled : Bool
  cacheEnabled : Bool
  graphEnabled : Bool
  t3Enabled : Bool
  t4Enabled : Bool
  doMerge : Bool
  doSplit : Bool
  doPromo : Bool
  capMerge : Nat
  capSplit : Nat
  capPromo : Nat
  ragAllowed : Bool          -- max_rag_loops ≥ 1
  backendLlm : Bool
  dialoguePatched : Bool     -- an override `t3_dialogue` is installed
  allowReflection : Bool
  bustOnApply : Bool
  namespaces : Nat           -- number of namespaces to invalidate
  snapshotDue : Bool         -- `_should_snapshot`
  storeKind : StoreKind
  textId : Nat
  inputBlank : Bool
  deriving Repr

/-- State that persists across turns. -/
structure St where
  ver : Ver
  bootLoaded : Bool
  cache : Option (List ((Ver × Nat) × T2Out))
  adapter : Bool
  mem : Nat
  plannerFlag : Bool
  deriving DecidableEq, Repr

/-- Stages and optional subsystems: parameters returning `Except`. -/
structure Env where
  bootLoad : Except Exc (Option Ver)
  t1 : St → Except Exc T1Out
  t2 : St → Except Exc T2Out
  gelObserve : Except Exc Nat
  deliberate : St → Except Exc Plan
  rag : St → Plan → Except Exc Plan
  t3Trace : Except Exc Unit
  adapterBuild : Except Exc Bool
  speak : Bool → Plan → Except Exc (Option Nat)
  dialogue : Plan → Except Exc (Option Nat)
  t4 : St → Plan → Option Nat → Except Exc T4Out
  gelTick : Except Exc Nat
  mergeCand : Except Exc Nat
  applyMerge : Nat → Except Exc Unit
  splitCand : Except Exc Nat
  applySplit : Nat → Except Exc Unit
  promote : Except Exc Nat
  applyPromo : Nat → Except Exc Unit
  storeBatch : List Nat → Except Exc (Int × Int)
  storeOne : Nat → Except Exc (Int × Int)
  invalidate : Nat → Except Exc Unit   -- namespace index; 0 is the T2 namespace of the modelled cache
  snapBody : Except Exc Unit
  sidecar : Except Exc Unit
  reflectRun : Option Exc            -- a failure of `_run_reflection_if_enabled` outside its inner `try`
  reflect : Except Exc ReflOut
  reflectWrite : Except Exc Nat
  reflectLog : Except Exc Unit
  health : Except Exc Unit
  yieldAt : YPoint → T1Out → T2Out → Plan → Option Nat   -- `_should_yield` on what has been consumed so far

/-! ## log records -/

inductive Stream where
  | t1 | t2 | gel | t3 | t3_plan | t3_dialogue | t4 | apply | scheduler | turn | t3_reflection | health
  deriving DecidableEq, Repr

inductive Key where
  | tok | cache_hit | cache_size | approved | rejected | applied | clamps | version_etag | snapshot
  | cache_invalidations | backend | fallback | reason | stage_end | yielded | pops | iters | graphs
  | k_returned | k_used | ops_written | summary_len | event | n_ops | reflection | rag
  | merge_attempts | merge_applied | split_attempts | split_applied | promotion_applied
  deriving DecidableEq, Repr

inductive Val where
  | i (n : Int) | n (k : Nat) | b (v : Bool) | none | ver (v : Ver)
  deriving DecidableEq, Repr

structure Rec where
  stream : Stream
  fields : List (Key × Val)
  deriving DecidableEq, Repr

def Stream.canonical : Stream → Bool
  | .t1 | .t2 | .t4 | .apply | .turn => true
  | _ => false

/-- the T1/T2/T4/apply/turn records of a log -/
def canonLogs (l : List Rec) : List Rec := l.filter (fun r => r.stream.canonical)

def oI : Option Int → Val
  | some n => .i n
  | Option.none => .none

/-! ## the skeleton -/

/-- per-turn working set + persistent state -/
structure Core where
  st : St
  t1 : T1Out
  t2 : T2Out
  cacheHit : Bool
  plan : Plan
  utter : Option Nat
  t4 : T4Out
  ap : ApplyOut
  t4Ran : Bool
  deriving DecidableEq, Repr

def Core.init (st : St) : Core :=
  { st := st, t1 := ⟨0, none, none, none⟩, t2 := ⟨0, none, none, 0⟩, cacheHit := false,
    plan := ⟨0, 0, false, false⟩, utter := none, t4 := ⟨0, [], 0⟩,
    ap := ⟨0, 0, .none, false, 0⟩, t4Ran := false }

/-- what one phase produces -/
structure Emit where
  core : Core
  logs : List Rec
  calls : List Site
  done : Option Line
  deriving DecidableEq, Repr

abbrev Phase := Core → Except Exc Emit

def cont (k : Core) (logs : List Rec) (calls : List Site) : Except Exc Emit :=
  .ok ⟨k, logs, calls, none⟩

/-- `try: r  except Exception: <d>` when `g s`, a bare call otherwise -/
def tryD (g : Site → Bool) (s : Site) (d : α) (r : Except Exc α) : Except Exc α :=
  match r with
  | .ok a => .ok a
  | .error x => if g s then .ok d else .error x

/-- run phases in order, stop at the first `done` or error; logs/calls are concatenated -/
def chain : List Phase → Phase
  | [], k => .ok ⟨k, [], [], none⟩
  | f :: fs, k =>
    match f k with
    | .error x => .error x
    | .ok e1 =>
      match e1.done with
      | some _ => .ok e1
      | none =>
        match chain fs e1.core with
        | .error x => .error x
        | .ok e2 => .ok ⟨e2.core, e1.logs ++ e2.logs, e1.calls ++ e2.calls, e2.done⟩

def turnRec (k : Core) (yielded : Option Nat) (sched : Bool) : Rec :=
  ⟨.turn, [(.pops, oI k.t1.pops), (.iters, oI k.t1.iters), (.graphs, oI k.t1.graphs),
           (.k_returned, oI k.t2.kRet), (.k_used, oI k.t2.kUsed), (.cache_hit, .b k.cacheHit),
           (.approved, .n k.t4.approved.length), (.rejected, .n k.t4.rejected)]
          ++ (if sched then [(.yielded, match yielded with | some r => .n r | none => .none)] else [])⟩

/-- the records a yield produces (`scheduler` event + early `turn` rollup).  `lvl` says how much of the
rollup is already filled (T1 only / +T2 / +T4). -/
def yieldRecs (k : Core) (p : YPoint) (r : Nat) : List Rec :=
  let k' : Core := match p with
    | .T1 => { k with t2 := ⟨0, none, none, 0⟩, cacheHit := false, t4 := ⟨0, [], 0⟩ }
    | .T2 | .T3 => { k with t4 := ⟨0, [], 0⟩ }
    | _ => k
  [⟨.scheduler, [(.reason, .n r), (.stage_end, .n (match p with | .T1 => 1 | .T2 => 2 | .T3 => 3 | .T4 => 4 | .Apply => 5))]⟩,
   turnRec k' (some r) true]

/-- M5 boundary check -/
def yieldCheck (c : Cfg) (e : Env) (p : YPoint) (k : Core) (line : Line) (logs : List Rec) (calls : List Site) :
    Except Exc Emit :=
  if c.schedEnabled then
    match e.yieldAt p k.t1 k.t2 k.plan with
    | some r => .ok ⟨k, logs ++ yieldRecs k p r, calls, some line⟩
    | none => cont k logs calls
  else cont k logs calls

/-- boot hook: `try: load_latest_snapshot … except: pass  finally: _boot_loaded = True` -/
def phBoot (g : Site → Bool) (e : Env) : Phase := fun k =>
  if k.st.bootLoaded then cont k [] []
  else
    match tryD g .bootLoad none e.bootLoad with
    | .error x => .error x
    | .ok r =>
      let st := match r with
        | some v => { k.st with ver := v, bootLoaded := true }
        | none => { k.st with bootLoaded := true }
      cont { k with st := st } [] [.bootLoad]

/-- cache-manager bootstrap -/
def phCacheInit (c : Cfg) : Phase := fun k =>
  if c.cacheEnabled && k.st.cache.isNone then cont { k with st := { k.st with cache := some [] } } [] []
  else cont k [] []

def phT1 (c : Cfg) (e : Env) : Phase := fun k =>
  match e.t1 k.st with
  | .error x => .error x
  | .ok o =>
    let k' := { k with t1 := o }
    yieldCheck c e .T1 k' .empty [⟨.t1, [(.tok, .n o.tok)]⟩] [.t1]

def t2Rec (o : T2Out) (cache : Option (List ((Ver × Nat) × T2Out))) (hit : Bool) : Rec :=
  ⟨.t2, [(.tok, .n o.tok)] ++ (match cache with
    | some l => [(.cache_hit, .b hit), (.cache_size, .n l.length)]
    | none => [])⟩

def cacheLookup (l : List ((Ver × Nat) × T2Out)) (key : Ver × Nat) : Option T2Out :=
  match l.find? (fun p => decide (p.1 = key)) with
  | some p => some p.2
  | none => none

def phT2 (c : Cfg) (e : Env) : Phase := fun k =>
  let key := (k.st.ver.key, c.textId)
  match k.st.cache with
  | some l =>
    match cacheLookup l key with
    | some o =>
      let k' := { k with t2 := o, cacheHit := true }
      yieldCheck c e .T2 k' .empty [t2Rec o (some l) true] []
    | none =>
      match e.t2 k.st with
      | .error x => .error x
      | .ok o =>
        let l' := l ++ [(key, o)]
        let k' := { k with t2 := o, cacheHit := false, st := { k.st with cache := some l' } }
        yieldCheck c e .T2 k' .empty [t2Rec o (some l') false] [.t2]
  | none =>
    match e.t2 k.st with
    | .error x => .error x
    | .ok o =>
      let k' := { k with t2 := o, cacheHit := false }
      yieldCheck c e .T2 k' .empty [t2Rec o none false] [.t2]

/-- GEL observe: `try: gel_observe(...) except Exception: <no record>` (fix `C20_gel_observe_tick_fail_soft`;
before it a bare call — `g .gelObserve` decides); the `gel` record is written only when the pass returned -/
def phGelObserve (g : Site → Bool) (c : Cfg) (e : Env) : Phase := fun k =>
  if c.graphEnabled && !c.dryRun then
    match e.gelObserve with
    | .ok m => cont k [⟨.gel, [(.event, .n 1), (.tok, .n m)]⟩] [.gelObserve]
    | .error x => if g .gelObserve then cont k [] [.gelObserve] else .error x
  else cont k [] []

/-- backend selection + adapter construction fallback; returns (utter, llmUsed, fallback, adapter', calls) -/
def speakPart (g : Site → Bool) (c : Cfg) (e : Env) (st : St) (plan : Plan) :
    Except Exc ((Option Nat) × Bool × Bool × Bool × List Site) :=
  if c.dialoguePatched then
    match e.dialogue plan with
    | .error x => .error x
    | .ok u => .ok (u, false, false, st.adapter, [.speak])
  else if c.backendLlm then
    if st.adapter then
      match e.speak true plan with
      | .error x => .error x
      | .ok u => .ok (u, true, false, true, [.speak])
    else
      match tryD g .adapterBuild false e.adapterBuild with
      | .error x => .error x
      | .ok true =>
        match e.speak true plan with
        | .error x => .error x
        | .ok u => .ok (u, true, false, true, [.adapterBuild, .speak])
      | .ok false =>
        match e.speak false plan with
        | .error x => .error x
        | .ok u => .ok (u, false, true, false, [.adapterBuild, .speak])
  else
    match e.speak false plan with
    | .error x => .error x
    | .ok u => .ok (u, false, false, st.adapter, [.speak])

def phT3 (g : Site → Bool) (c : Cfg) (e : Env) : Phase := fun k =>
  if c.t3Enabled && !c.dryRun then
    match e.deliberate k.st with
    | .error x => .error x
    | .ok p0 =>
      let k0 := { k with plan := p0 }
      match yieldCheck c e .T3 k0 .empty [] [.deliberate] with
      | .error x => .error x
      | .ok y =>
        match y.done with
        | some _ => .ok y
        | none =>
          let ragOn := p0.wantsRetrieve && c.ragAllowed
          match (if ragOn then e.rag k.st p0 else .ok p0) with
          | .error x => .error x
          | .ok p1 =>
            match tryD g .t3Trace () e.t3Trace with
            | .error x => .error x
            | .ok _ =>
              match speakPart g c e k.st p1 with
              | .error x => .error x
              | .ok (u, llm, fb, ad, cs) =>
                let k1 := { k with plan := p1, utter := u, st := { k.st with adapter := ad } }
                cont k1
                  [⟨.t3, [(.backend, .n (if c.dialoguePatched then 2 else if llm then 1 else 0)), (.fallback, .b fb),
                          (.n_ops, .n p1.nOps), (.rag, .b ragOn)]⟩,
                   ⟨.t3_plan, [(.n_ops, .n p1.nOps), (.reflection, .b (p1.reflection || k.st.plannerFlag))]⟩,
                   ⟨.t3_dialogue, [(.backend, .n (if c.dialoguePatched then 2 else if llm then 1 else 0))]⟩]
                  ([.deliberate] ++ (if ragOn then [.rag] else []) ++ [.t3Trace] ++ cs)
  else cont k [] []

def lineOf (u : Option Nat) : Line :=
  match u with
  | some n => .utter n
  | none => .empty

def phT4 (c : Cfg) (e : Env) : Phase := fun k =>
  if c.t4Enabled then
    match e.t4 k.st k.plan k.utter with
    | .error x => .error x
    | .ok o =>
      let k' := { k with t4 := o, t4Ran := true }
      let recs := [⟨.t4, [(.tok, .n o.tok), (.approved, .n o.approved.length), (.rejected, .n o.rejected)]⟩]
      if c.dryRun then .ok ⟨k', recs, [.t4], some (lineOf k.utter)⟩
      else yieldCheck c e .T4 k' (lineOf k.utter) recs [.t4]
  else cont { k with ap := { k.ap with ver := .none } } [] []

def phGelTick (g : Site → Bool) (c : Cfg) (e : Env) : Phase := fun k =>
  if c.t4Enabled && c.graphEnabled then
    match e.gelTick with
    | .ok m => cont k [⟨.gel, [(.event, .n 2), (.tok, .n m)]⟩] [.gelTick]
    | .error x => if g .gelTick then cont k [] [.gelTick] else .error x
  else cont k [] []

/-- apply `f 0 … f (n-1)`; stop at the first failure -/
def applyLoop (s : Site) (f : Nat → Except Exc Unit) : Nat → Nat → List Site → (List Site × Option (Site × Exc))
  | 0, _, cs => (cs, none)
  | n + 1, i, cs =>
    match f i with
    | .ok _ => applyLoop s f n (i + 1) (cs ++ [s])
    | .error x => (cs ++ [s], some (s, x))

/-- one maintenance pass (`candidates`, then `apply` for the first `cap` of them):
(calls made, failure, attempts, applied) -/
def gelPass (on : Bool) (sc sa : Site) (cand : Except Exc Nat) (app : Nat → Except Exc Unit) (cap : Nat)
    (cs : List Site) : List Site × Option (Site × Exc) × Nat × Nat :=
  if on then
    match cand with
    | .error x => (cs ++ [sc], some (sc, x), 0, 0)
    | .ok n =>
      match applyLoop sa app (min n cap) 0 (cs ++ [sc]) with
      | (cs', some f) => (cs', some f, n, 0)
      | (cs', none) => (cs', none, n, min n cap)
  else (cs, none, 0, 0)

/-- the body of the GEL merge/split/promotion `try` block: calls made, the failure (if any), the record -/
def gelBody (c : Cfg) (e : Env) : List Site × Option (Site × Exc) × Option Rec :=
  if c.doMerge || c.doSplit || c.doPromo then
    let m := gelPass c.doMerge .gelMergeCand .gelApplyMerge e.mergeCand e.applyMerge c.capMerge []
    match m.2.1 with
    | some f => (m.1, some f, none)
    | none =>
      let s := gelPass c.doSplit .gelSplitCand .gelApplySplit e.splitCand e.applySplit c.capSplit m.1
      match s.2.1 with
      | some f => (s.1, some f, none)
      | none =>
        let p := gelPass c.doPromo .gelPromote .gelApplyPromo e.promote e.applyPromo c.capPromo s.1
        match p.2.1 with
        | some f => (p.1, some f, none)
        | none =>
          (p.1, none, some ⟨.gel, [(.merge_attempts, .n m.2.2.1), (.merge_applied, .n m.2.2.2),
            (.split_attempts, .n s.2.2.1), (.split_applied, .n s.2.2.2), (.promotion_applied, .n p.2.2.2)]⟩)
  else ([], none, none)

def phGelBlock (g : Site → Bool) (c : Cfg) (e : Env) : Phase := fun k =>
  if c.t4Enabled && c.graphEnabled then
    match gelBody c e with
    | (cs, some (s, x), _) => if g s then cont k [] cs else .error x
    | (cs, none, some r) => cont k [r] cs
    | (cs, none, none) => cont k [] cs
  else cont k [] []

/-- per-delta fallback loop of `apply_changes` -/
def applyEach (g : Site → Bool) (one : Nat → Except Exc (Int × Int)) : List Nat → Except Exc (Int × Int × List Site)
  | [] => .ok (0, 0, [])
  | d :: ds =>
    match tryD g .storeOne (0, 0) (one d) with
    | .error x => .error x
    | .ok (a, cl) =>
      match applyEach g one ds with
      | .error x => .error x
      | .ok (a', cl', cs) => .ok (a + a', cl + cl', Site.storeOne :: cs)

/-- `write_snapshot`: body write, then `try: _write_sidecar_meta … except: pass` -/
def snapPart (g : Site → Bool) (c : Cfg) (e : Env) : Except Exc (Bool × List Site) :=
  if c.snapshotDue then
    match tryD g .snapshotBody () e.snapBody with
    | .error x => .error x
    | .ok _ =>
      match tryD g .sidecarWrite () e.sidecar with
      | .error x => .error x
      | .ok _ => .ok (true, [.snapshotBody, .sidecarWrite])
  else .ok (false, [])

/-- cache invalidation loop (one `try` around the whole loop: a failure stops it) -/
def invalidateLoop (inv : Nat → Except Exc Unit) (size : Nat) : Nat → Nat → Nat → List Site → (Nat × List Site × Option Exc)
  | 0, _, acc, cs => (acc, cs, none)
  | n + 1, i, acc, cs =>
    match inv i with
    | .ok _ => invalidateLoop inv size n (i + 1) (acc + (if i = 0 then size else 0)) (cs ++ [.cacheInvalidate])
    | .error x => (acc, cs ++ [.cacheInvalidate], some x)

def dropCacheNs (st : St) (did : Bool) : St :=
  if did then { st with cache := st.cache.map (fun _ => []) } else st

def cacheSize (st : St) : Nat :=
  match st.cache with
  | some l => l.length
  | none => 0

/-- tail of `apply_changes`: version bump, snapshot cadence, the `apply` record, boundary check -/
def applyFinish (g : Site → Bool) (c : Cfg) (e : Env) (k : Core) (applied clamps : Int) (inv : Nat) (st : St)
    (cs : List Site) : Except Exc Emit :=
  let v := st.ver.bump
  let st' := { st with ver := v }
  match snapPart g c e with
  | .error x => .error x
  | .ok (sn, cs') =>
    let ap : ApplyOut := ⟨applied, clamps, v, sn, inv⟩
    yieldCheck c e .Apply { k with st := st', ap := ap } (lineOf k.utter)
      [⟨.apply, [(.applied, .i applied), (.clamps, .i clamps), (.version_etag, .ver v),
                 (.snapshot, .b sn), (.cache_invalidations, .n inv)]⟩] (cs ++ cs')

/-- cache invalidation per config (`cache_bust_mode == "on-apply"`) then the tail -/
def applyAfterStore (g : Site → Bool) (c : Cfg) (e : Env) (k : Core) (applied clamps : Int) (cs : List Site) :
    Except Exc Emit :=
  if c.bustOnApply && k.st.cache.isSome then
    match invalidateLoop e.invalidate (cacheSize k.st) c.namespaces 0 0 [] with
    | (inv, cs', none) => applyFinish g c e k applied clamps inv (dropCacheNs k.st (decide (0 < c.namespaces))) (cs ++ cs')
    | (inv, cs', some x) =>
      if g .cacheInvalidate then
        applyFinish g c e k applied clamps inv (dropCacheNs k.st (decide (1 < cs'.length))) (cs ++ cs')
      else .error x
  else applyFinish g c e k applied clamps 0 k.st cs

/-- `apply_changes` + the `apply` record -/
def phApply (g : Site → Bool) (c : Cfg) (e : Env) : Phase := fun k =>
  if c.t4Enabled then
    match c.storeKind with
    | .none => applyFinish g c e k 0 0 0 k.st []
    | .noFn => applyFinish g c e k 0 0 0 k.st []
    | .ok =>
      match e.storeBatch k.t4.approved with
      | .ok (a, cl) => applyAfterStore g c e k a cl [.storeBatch]
      | .error x =>
        if g .storeBatch then
          match applyEach g e.storeOne k.t4.approved with
          | .error x => .error x
          | .ok (a, cl, cs) => applyAfterStore g c e k a cl (Site.storeBatch :: cs)
        else .error x
  else cont k [] []

/-- `_run_reflection_if_enabled` (inner `try` around `reflect_fn`) under the outer `try` of `run_turn` -/
def reflPart (g : Site → Bool) (c : Cfg) (e : Env) (k : Core) : Except Exc (Option ReflOut × List Site) :=
  match e.reflectRun with
  | some x => if g .reflectRun then .ok (none, [.reflectRun]) else .error x
  | none =>
    if c.dryRun then .ok (none, [.reflectRun])
    else if c.allowReflection && (k.plan.reflection || k.st.plannerFlag) then
      match tryD g .reflectCompute ⟨0, 0⟩ e.reflect with
      | .error x => if g .reflectRun then .ok (none, [.reflectRun, .reflectCompute]) else .error x
      | .ok r => .ok (some r, [.reflectRun, .reflectCompute])
    else .ok (none, [.reflectRun])

def phReflect (g : Site → Bool) (c : Cfg) (e : Env) : Phase := fun k =>
  match reflPart g c e k with
  | .error x => .error x
  | .ok (res, cs) =>
    match res with
    | none => cont k [] cs
    | some r =>
      -- writes (only when there are entries), then telemetry
      match (if 0 < r.entries then tryD g .reflectWrite 0 e.reflectWrite else .ok 0) with
      | .error x => .error x
      | .ok written =>
        let st' := { k.st with mem := k.st.mem + written }
        match tryD g .reflectLog () e.reflectLog with
        | .error x => .error x
        | .ok _ =>
          -- the `t3_reflection` record is written by the telemetry subsystem itself (`log_t3_reflection`)
          cont { k with st := st' } []
            (cs ++ (if 0 < r.entries then [.reflectWrite] else []) ++ [.reflectLog])

def phFinish (g : Site → Bool) (c : Cfg) (e : Env) : Phase := fun k =>
  match tryD g .health () e.health with
  | .error x => .error x
  | .ok _ =>
    let line := match k.utter with
      | some u => Line.utter u
      | none => if c.inputBlank then Line.ellipsis else Line.input
    .ok ⟨k, [⟨.health, []⟩, turnRec k none c.schedEnabled], [.health], some line⟩

def phases (g : Site → Bool) (c : Cfg) (e : Env) : List Phase :=
  [phBoot g e, phCacheInit c, phT1 c e, phT2 c e, phGelObserve g c e, phT3 g c e, phT4 c e,
   phGelTick g c e, phGelBlock g c e, phApply g c e, phReflect g c e, phFinish g c e]

/-- one turn: result line, emitted records, calls made, state afterwards -/
def runTurn (g : Site → Bool) (c : Cfg) (e : Env) (st : St) : Except Exc Emit :=
  chain (phases g c e) (Core.init st)

/-- the part of an outcome the property talks about: result (line / exception), the canonical
T1/T2/T4/apply/turn records, and the persistent state -/
def proj (r : Except Exc Emit) : Except Exc (Core × List Rec × Option Line) :=
  match r with
  | .error x => .error x
  | .ok em => .ok (em.core, canonLogs em.logs, em.done)

/-! ## fault scripts -/

/-- `r`, with a failure at a site in `S` replaced by the idle outcome `d` -/
def idleE (S : Site → Bool) (s : Site) (d : α) (r : Except Exc α) : Except Exc α :=
  match r with
  | .ok a => .ok a
  | .error x => if S s then .ok d else .error x

/-- The run in which the failing subsystems of `S` are idle (boot finds nothing, adapter builder returns
no adapter, reflection produces nothing / writes nothing / logs nothing, invalidation removes nothing,
a failing single-delta apply edits nothing, sidecar not written).  GEL observe/tick, GEL-block and batch-apply
sites are left as they are: see `C20_gel_observe_fail_eq_off`, `C20_gel_tick_fail_eq_off`, `gelBlock_off` and
`storeBatch_fallback`. -/
def idle (S : Site → Bool) (e : Env) : Env :=
  { e with
    bootLoad := idleE S .bootLoad none e.bootLoad
    t3Trace := idleE S .t3Trace () e.t3Trace
    adapterBuild := idleE S .adapterBuild false e.adapterBuild
    storeOne := fun d => idleE S .storeOne (0, 0) (e.storeOne d)
    sidecar := idleE S .sidecarWrite () e.sidecar
    reflect := idleE S .reflectCompute ⟨0, 0⟩ e.reflect
    reflectWrite := idleE S .reflectWrite 0 e.reflectWrite
    reflectLog := idleE S .reflectLog () e.reflectLog
    snapBody := idleE S .snapshotBody () e.snapBody
    health := idleE S .health () e.health }

def isOk : Except Exc α → Bool
  | .ok _ => true
  | .error _ => false

/-- monitor used by the driver: did the turn complete, and are the canonical parts of two outcomes equal -/
def sameCanon (a b : Except Exc Emit) : Bool :=
  match proj a, proj b with
  | .ok x, .ok y => decide (x = y)
  | .error x, .error y => decide (x = y)
  | _, _ => false

end Clem.Turn
