/-
JSON values as seen by Python (`json.loads` output): the carrier for every model that handles
payload dictionaries.  Import-free, kernel-reducible (`decide` works on literals).

* strings are code-point lists (`List Nat`), floats are their IEEE-754 bit pattern (`Nat`),
  `bool` and `int` are different constructors (Python's `1 == True` has to be modelled explicitly
  where the code uses `==`);
* objects are association lists in insertion order.  A Python `dict` is an association list with
  pairwise distinct keys (`J.wf`); `lookup` is first-match, `dset` is `d[k] = v` (replace in place,
  else append — CPython insertion order), `derase` is `d.pop(k, None)`;
* `J.eqv` is equality of JSON values as Python compares dicts (`==` ignores key order) but strict on
  leaves (type and value), `J.Equiv` the corresponding lookup-based relation (`eqv_sound`  in
  `Clem/Proofs/Json.lean`).
-/
namespace Clem.Py

abbrev Str := List Nat

inductive J where
  | null
  | bool (b : Bool)
  | int (n : Int)
  | flt (bits : Nat)
  | str (s : Str)
  | arr (xs : List J)
  | obj (es : List (Str × J))
  deriving Inhabited, Repr

namespace J

mutual
def beq : J → J → Bool
  | .null, .null => true
  | .bool a, .bool b => a == b
  | .int a, .int b => a == b
  | .flt a, .flt b => a == b
  | .str a, .str b => a == b
  | .arr a, .arr b => beqL a b
  | .obj a, .obj b => beqO a b
  | _, _ => false
def beqL : List J → List J → Bool
  | [], [] => true
  | x :: xs, y :: ys => beq x y && beqL xs ys
  | _, _ => false
def beqO : List (Str × J) → List (Str × J) → Bool
  | [], [] => true
  | (k, x) :: xs, (k', y) :: ys => k == k' && beq x y && beqO xs ys
  | _, _ => false
end

mutual
theorem beq_eq : ∀ (a b : J), beq a b = true ↔ a = b
  | .null, b => by cases b <;> simp [beq]
  | .bool a, b => by cases b <;> simp [beq]
  | .int a, b => by cases b <;> simp [beq]
  | .flt a, b => by cases b <;> simp [beq]
  | .str a, b => by cases b <;> simp [beq]
  | .arr a, b => by cases b <;> simp [beq, beqL_eq a]
  | .obj a, b => by cases b <;> simp [beq, beqO_eq a]
theorem beqL_eq : ∀ (a b : List J), beqL a b = true ↔ a = b
  | [], b => by cases b <;> simp [beqL]
  | x :: xs, b => by cases b <;> simp [beqL, beq_eq x, beqL_eq xs]
theorem beqO_eq : ∀ (a b : List (Str × J)), beqO a b = true ↔ a = b
  | [], b => by cases b <;> simp [beqO]
  | (k, x) :: xs, b => by
      cases b with
      | nil => simp [beqO]
      | cons y ys => obtain ⟨k', y⟩ := y; simp [beqO, beq_eq x, beqO_eq xs, and_assoc]
end

instance : DecidableEq J := fun a b =>
  if h : beq a b = true then isTrue ((beq_eq a b).1 h)
  else isFalse (fun e => h ((beq_eq a b).2 e))

/-! ### dict primitives on association lists -/

/-- `d.get(k)` / `d[k]`: first match. -/
def lookup (k : Str) : List (Str × J) → Option J
  | [] => none
  | (k', v) :: es => if k = k' then some v else lookup k es

/-- `k in d`. -/
def hasKey (k : Str) (es : List (Str × J)) : Bool := (lookup k es).isSome

/-- `d[k] = v`: replace in place, else append (CPython insertion order). -/
def dset (k : Str) (v : J) : List (Str × J) → List (Str × J)
  | [] => [(k, v)]
  | (k', v') :: es => if k = k' then (k, v) :: es else (k', v') :: dset k v es

/-- `d.pop(k, None)`. -/
def derase (k : Str) (es : List (Str × J)) : List (Str × J) := es.filter (fun e => !(e.1 == k))

def keys (es : List (Str × J)) : List Str := es.map (·.1)

/-- keys pairwise distinct (Boolean, structural). -/
def nodupKeys : List (Str × J) → Bool
  | [] => true
  | (k, _) :: es => !(hasKey k es) && nodupKeys es

/-- `isinstance(x, dict)`. -/
def isObj : J → Bool
  | .obj _ => true
  | _ => false

/-- entries of a dict, `{}` for anything else (`x if isinstance(x, dict) else {}`). -/
def entries : J → List (Str × J)
  | .obj es => es
  | _ => []

/-- exponent all ones and mantissa non-zero. -/
def nanBits (b : Nat) : Bool := decide (b % 9223372036854775808 > 9218868437227405312)

/-- Python truthiness of a decoded JSON value (`x or default`). -/
def truthy : J → Bool
  | .null => false
  | .bool b => b
  | .int n => n != 0
  | .flt b => !(b % 9223372036854775808 == 0)
  | .str s => !s.isEmpty
  | .arr xs => !xs.isEmpty
  | .obj es => !es.isEmpty

mutual
/-- well-formed: every object (at any depth, also inside arrays) has pairwise distinct keys —
    the representation invariant of values built from Python dicts. -/
def wf : J → Bool
  | .arr xs => wfL xs
  | .obj es => nodupKeys es && wfO es
  | _ => true
def wfL : List J → Bool
  | [] => true
  | x :: xs => wf x && wfL xs
def wfO : List (Str × J) → Bool
  | [] => true
  | (_, v) :: es => wf v && wfO es
end

mutual
/-- JSON equality as Python compares containers (dict key order ignored) but strict on leaves:
    `1`, `True`, `1.0` are pairwise different, floats are compared by bit pattern.
    With `nan = false` a NaN is different from everything, itself included (Python `nan == nan`). -/
def eqvG (nan : Bool) : J → J → Bool
  | .null, .null => true
  | .bool a, .bool b => a == b
  | .int a, .int b => a == b
  | .flt a, .flt b => a == b && (nan || !nanBits a)
  | .str a, .str b => a == b
  | .arr a, .arr b => eqvL nan a b
  | .obj a, .obj b => eqvO nan a b && (keys b).all (fun k => hasKey k a)
  | _, _ => false
def eqvL (nan : Bool) : List J → List J → Bool
  | [], [] => true
  | x :: xs, y :: ys => eqvG nan x y && eqvL nan xs ys
  | _, _ => false
/-- every entry of the left object has a matching entry on the right. -/
def eqvO (nan : Bool) : List (Str × J) → List (Str × J) → Bool
  | [], _ => true
  | (k, x) :: xs, b =>
      (match lookup k b with
       | some y => eqvG nan x y
       | none => false) && eqvO nan xs b
end

/-- equality of JSON documents (key order ignored). -/
abbrev eqv (a b : J) : Bool := eqvG true a b

mutual
/-- structural size, used as induction measure. -/
def size : J → Nat
  | .arr xs => 1 + sizeL xs
  | .obj es => 1 + sizeO es
  | _ => 1
def sizeL : List J → Nat
  | [] => 0
  | x :: xs => size x + sizeL xs
def sizeO : List (Str × J) → Nat
  | [] => 0
  | (_, v) :: es => size v + sizeO es
end

end J
end Clem.Py
