/-
Numeric carrier for the GEL model (`Clem/Model/Gel.lean`).

The model is written once against this tiny class and is
* executed at Lean `Float` by the driver (instance below; `+ - * / abs` and the IEEE
  comparisons are bit-identical to CPython on this image), and
* proved about at any linearly ordered field (instance in `Clem/Proofs/Gel.lean`).

Comparisons are `Bool`-valued with Python/IEEE semantics at `Float` (everything is `false`
on NaN, `eq` is IEEE `==`).  `pow` is *not* part of the class: `tick` takes it as a parameter
(`Float.pow` in the driver; a hypothesis `0 ≤ pw ½ x ≤ 1` in the theorems).
Import-free.
-/
namespace Clem.Py

class NumGel (α : Type) where
  zero : α
  one : α
  /-- the literal `0.5` -/
  half : α
  add : α → α → α
  sub : α → α → α
  mul : α → α → α
  div : α → α → α
  neg : α → α
  abs : α → α
  /-- `float(n)` for a non-negative Python `int` -/
  ofNat : Nat → α
  lt : α → α → Bool
  le : α → α → Bool
  /-- Python `==` on floats (IEEE: NaN ≠ NaN, `0.0 == -0.0`) -/
  eq : α → α → Bool

instance : NumGel Float where
  zero := 0.0
  one := 1.0
  half := 0.5
  add := (· + ·)
  sub := (· - ·)
  mul := (· * ·)
  div := (· / ·)
  neg := fun x => -x
  abs := Float.abs
  ofNat := Float.ofNat
  lt := fun a b => decide (a < b)
  le := fun a b => decide (a ≤ b)
  eq := fun a b => a == b

end Clem.Py
