/-
JSON-shaped Python values for the snapshot model (C06).  Import-free.

`J W` is what `json.dumps` / `json.loads` exchange: `None`, `bool`, `int`, `float` (carrier `W`),
`str` (code points), `list`, and `dict` with `str` keys *in insertion order* (an association list,
as CPython dicts are).  Python `dict` update = `ainsert` (existing key: value replaced in place,
position kept; new key: appended), lookup = `aget`.
-/
namespace Clem.Py.JV

abbrev Str := List Nat

inductive J (W : Type) where
  | null
  | bool (b : Bool)
  | int (n : Int)
  | num (w : W)
  | str (s : Str)
  | arr (xs : List (J W))
  | obj (kv : List (Str × J W))

instance {W} : Inhabited (J W) := ⟨.null⟩

/-- `d.get(k)` on an insertion-ordered dict. -/
def aget {K V : Type} [DecidableEq K] (k : K) : List (K × V) → Option V
  | [] => none
  | (k', v) :: r => if k' = k then some v else aget k r

/-- `d[k] = v`: in-place replacement keeps the position, a new key is appended. -/
def ainsert {K V : Type} [DecidableEq K] (k : K) (v : V) : List (K × V) → List (K × V)
  | [] => [(k, v)]
  | (k', v') :: r => if k' = k then (k', v) :: r else (k', v') :: ainsert k v r

/-- `dict(pairs)` / repeated assignment: first position, last value. -/
def ofPairs {K V : Type} [DecidableEq K] (l : List (K × V)) : List (K × V) :=
  l.foldl (fun acc p => ainsert p.1 p.2 acc) []

def keys {K V : Type} (l : List (K × V)) : List K := l.map Prod.fst

/-- `d.get(k, default)` -/
def getD {W : Type} (k : Str) (d : J W) (kv : List (Str × J W)) : J W := (aget k kv).getD d

/-- Python truthiness of a JSON-shaped value (`isZero` decides `x == 0.0`). -/
def truthy {W : Type} (isZero : W → Bool) : J W → Bool
  | .null => false
  | .bool b => b
  | .int n => n != 0
  | .num w => !isZero w
  | .str s => !s.isEmpty
  | .arr xs => !xs.isEmpty
  | .obj kv => !kv.isEmpty

def isNull {W : Type} : J W → Bool
  | .null => true
  | _ => false

def isArr {W : Type} : J W → Bool
  | .arr _ => true
  | _ => false

mutual
/-- Structural equality with a supplied equality on the float carrier (bit equality in the driver). -/
def jbeq {W : Type} (weq : W → W → Bool) : J W → J W → Bool
  | .null, .null => true
  | .bool a, .bool b => a == b
  | .int a, .int b => a == b
  | .num a, .num b => weq a b
  | .str a, .str b => a == b
  | .arr a, .arr b => jbeqL weq a b
  | .obj a, .obj b => jbeqKV weq a b
  | _, _ => false
def jbeqL {W : Type} (weq : W → W → Bool) : List (J W) → List (J W) → Bool
  | [], [] => true
  | x :: xs, y :: ys => jbeq weq x y && jbeqL weq xs ys
  | _, _ => false
def jbeqKV {W : Type} (weq : W → W → Bool) : List (Str × J W) → List (Str × J W) → Bool
  | [], [] => true
  | (k, x) :: xs, (k', y) :: ys => k == k' && jbeq weq x y && jbeqKV weq xs ys
  | _, _ => false
end

end Clem.Py.JV
