/-
Prelude for the gate tables (C02): boolean trees over configuration leaves and external atoms,
gated sites and features.  Pure data; semantics live in Clem.Model.Gates.
-/
namespace Clem.Py

/-- Dominating predicate of a gated site.  `leaf i` is the truthiness of configuration leaf `i`
(absent ⇒ false), `gt i n` is `int(leaf i) > n` (absent ⇒ `0 > n`), `ext j` is an opaque
non-configuration condition (plan flags, dry-run, "the cache exists", import succeeded, …). -/
inductive GExpr where
  | leaf (i : Nat)
  | gt (i : Nat) (n : Int)
  | ext (j : Nat)
  | tt
  | ff
  | not (e : GExpr)
  | and (a b : GExpr)
  | or (a b : GExpr)
  deriving Repr, DecidableEq

/-- A gated call / emit site: its dominating predicate, the configuration leaves whose value it
consumes when it runs, and the artefacts (log streams, metric-key families) it emits. -/
structure Site where
  id : Nat
  guard : GExpr
  reads : List Nat
  emits : List Nat
  deriving Repr

/-- A gate: flag leaf, the configuration leaves of the subtree it owns, its artefacts. -/
structure Feat where
  flag : Nat
  sub : List Nat
  arts : List Nat
  deriving Repr

end Clem.Py
