/-
Python's `sorted` / `list.sort` (stable) as a structural insertion sort.
Import-free: usable in models and reducible by `decide`.  `le a b` is the Boolean
"a sorts no later than b" for the key in use (`key a ≤ key b`).
The definition is Mathlib's `List.insertionSort` transcribed (proved equal in
`Clem/Proofs/Sort.lean`, which transports Mathlib's `Perm` / `Pairwise` lemmas).
-/
namespace Clem.Py

def orderedInsert {α : Type} (le : α → α → Bool) (a : α) : List α → List α
  | [] => [a]
  | b :: l => if le a b then a :: b :: l else b :: orderedInsert le a l

/-- Stable: among equal keys, earlier elements stay first. -/
def isort {α : Type} (le : α → α → Bool) : List α → List α :=
  List.foldr (orderedInsert le) []

/-- Lexicographic `≤` on lists of naturals (CPython's `str`/`tuple` comparison on code points). -/
def lexLe : List Nat → List Nat → Bool
  | [], _ => true
  | _ :: _, [] => false
  | a :: as, b :: bs => if a < b then true else if b < a then false else lexLe as bs

def lexLt (a b : List Nat) : Bool := lexLe a b && !(a == b)

end Clem.Py
