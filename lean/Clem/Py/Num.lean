/-
`Num α` — the number carrier executable models are written against (DESIGN §2.3).

A model that does arithmetic is written ONCE against this tiny, import-free class and is then
* executed at `Float` in the driver (`instance : Num Float` below; Lean's `+ - * / abs` and the
  IEEE comparisons agree bit-for-bit with CPython's `float` on this image), and
* proved about at any ordered field (`Clem/Proofs/NumField.lean` gives the instance
  `Num α` for `[Field α] [LinearOrder α]` and the `simp` lemmas turning `Num.add a b` into `a + b`,
  `Num.lt a b = true` into `a < b`, …).

Operations are plain functions (no notation instances) on purpose: with notation instances a
generic ordered field would carry two `Add α` instances and `linarith`/`ring` would see a diamond.
`sqrt`, `pow`, literals other than `0 1` are passed to the models as parameters, with the laws a
proof needs stated as hypotheses.

Python reading:  `lt a b` is `a < b`, `le a b` is `a <= b`, `beq a b` is `a == b` (IEEE: all false
on NaN), `a > b` is `lt b a`.
-/
namespace Clem.Py

class Num (α : Type) where
  zero : α
  one : α
  add : α → α → α
  sub : α → α → α
  mul : α → α → α
  div : α → α → α
  neg : α → α
  abs : α → α
  lt : α → α → Bool
  le : α → α → Bool
  beq : α → α → Bool

instance : Num Float where
  zero := 0.0
  one := 1.0
  add a b := a + b
  sub a b := a - b
  mul a b := a * b
  div a b := a / b
  neg a := -a
  abs a := Float.abs a
  lt a b := decide (a < b)
  le a b := decide (a ≤ b)
  beq a b := a == b

end Clem.Py
