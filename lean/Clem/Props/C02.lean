/-
C02 — Features behind a closed gate are inert.

Model: `Clem.Model.Gates` (ordered gated sites of run_turn and the stages, table regenerated from the
AST into `Clem.Gen.Gates`; site bodies, external atoms, state type and inputs are universally
quantified).  `off g c` is `c g.flag = 0`; `agreeOutside g.sub c c'` says the two configurations differ
only inside the subtree the gate owns.

Full statement (property text): for every gate g ∈ {perf, perf.parallel, graph, t2.quality, t2.hybrid,
t3.reflection, scheduler}: off g c → off g c' → agreeOutside (sub g) c c' → same outputs, logs and
state after every turn, and no artefact of g is emitted.
Proved at full strength for perf.parallel, graph, t2.quality (minus the shadow-trace trio, owned by the
shadow feature), t2.hybrid, t3.reflection; `_partial` for
  * perf: sub = perf.* minus perf.parallel.* (the parallel predicates do not consult perf.enabled —
    dichotomy theorem `C02_inert_perf_full_dichotomy` + witness `C02_parallel_ignores_master_witness`);
  * scheduler: sub = scheduler.* minus budgets.{ops,time_ms}_reflection, which reflection consumes while
    the scheduler is off (documented as reflection's knobs) — `C02_scheduler_full_leak_is_reflection_only`.
-/
import Clem.Proofs.Gates

namespace Clem.Props.C02
open Clem.Gates Clem.Gen.Gates Clem.Py

/-! ## Generic theorems (any table, any engine bodies, any number of turns) -/

/-- Soundness of the syntactic gate check: a predicate that `forcedOff` accepts is false under every
configuration whose flag is off, whatever the external atoms. -/
theorem C02_forcedOff_sound (f : Nat) (c : Cfg) (x : Ext) (hf : c f = 0) (e : GExpr)
    (h : forcedOff f e = true) : eval c x e = false :=
  forcedOff_sound f c x hf e h

/-- C02_inert, generic: if every site of the table is harmless for the gate, two configurations with the
flag off that agree outside the gated subtree give the same state and the same emitted artefacts after
every sequence of turns. -/
theorem C02_inert {σ ι : Type} (W : World σ) (feed : ι → σ → σ) (g : Feat) (tbl : List Site)
    (hok : tableOK g.flag g.sub tbl = true) (c c' : Cfg)
    (hoff : c g.flag = 0) (hoff' : c' g.flag = 0) (hag : agreeOutside g.sub c c')
    (inputs : List ι) (st : σ × List Nat) :
    runTurns W feed c tbl inputs st = runTurns W feed c' tbl inputs st :=
  runTurns_inert W feed g.flag g.sub c c' hoff hoff' hag tbl hok inputs st

/-- C02_no_artifact, generic: with the flag off no artefact of the gate is ever emitted. -/
theorem C02_no_artifact {σ ι : Type} (W : World σ) (feed : ι → σ → σ) (g : Feat) (tbl : List Site)
    (hok : artTableOK g.flag g.arts tbl = true) (c : Cfg) (hoff : c g.flag = 0)
    (inputs : List ι) (s0 : σ) :
    noArtifactB g.arts (runTurns W feed c tbl inputs (s0, [])).2 = true :=
  runTurns_noart W feed g.flag g.arts c hoff tbl hok inputs (s0, []) rfl

/-- The three-valued prediction used by the correspondence check never contradicts the real evaluation. -/
theorem C02_eval3_sound (c : Cfg) (x3 : Nat → Option Bool) (x : Ext)
    (href : ∀ j b, x3 j = some b → x j = b) (e : GExpr) (b : Bool)
    (h : eval3 c x3 e = some b) : eval c x e = b :=
  eval3_sound c x3 x href e b h

/-! ## The table regenerated from the current source -/

/-- C02_gate_table_consistent: each listed site's dominating predicate implies its documented gate flag. -/
theorem C02_gate_table_consistent : consistentB allSites documentedGates = true := by decide

theorem C02_table_perf : tableOK feat_perf.flag feat_perf.sub sites = true := by decide
theorem C02_table_parallel : tableOK feat_perf_parallel.flag feat_perf_parallel.sub sites = true := by decide
theorem C02_table_graph : tableOK feat_graph.flag feat_graph.sub sites = true := by decide
theorem C02_table_quality : tableOK feat_t2_quality.flag feat_t2_quality.sub sites = true := by decide
theorem C02_table_hybrid : tableOK feat_t2_hybrid.flag feat_t2_hybrid.sub sites = true := by decide
theorem C02_table_reflection : tableOK feat_t3_reflection.flag feat_t3_reflection.sub sites = true := by decide
theorem C02_table_scheduler : tableOK feat_scheduler.flag feat_scheduler.sub sites = true := by decide
theorem C02_table_shadow : tableOK feat_shadow.flag feat_shadow.sub sites = true := by decide

theorem C02_arts_perf : artTableOK feat_perf_full.flag feat_perf_full.arts allSites = true := by decide
theorem C02_arts_parallel : artTableOK feat_perf_parallel.flag feat_perf_parallel.arts allSites = true := by decide
theorem C02_arts_graph : artTableOK feat_graph.flag feat_graph.arts allSites = true := by decide
theorem C02_arts_quality : artTableOK feat_t2_quality.flag feat_t2_quality.arts allSites = true := by decide
theorem C02_arts_hybrid : artTableOK feat_t2_hybrid.flag feat_t2_hybrid.arts allSites = true := by decide
theorem C02_arts_reflection : artTableOK feat_t3_reflection.flag feat_t3_reflection.arts allSites = true := by decide
theorem C02_arts_scheduler : artTableOK feat_scheduler_full.flag feat_scheduler_full.arts allSites = true := by decide

/-! ## Instances: `C02_inert g` for the current table -/

section
variable {σ ι : Type} (W : World σ) (feed : ι → σ → σ) (c c' : Cfg) (inputs : List ι) (st : σ × List Nat)

/-- perf master switch (partial: sub = perf.* minus perf.parallel.*). -/
theorem C02_inert_perf_partial (h : c feat_perf.flag = 0) (h' : c' feat_perf.flag = 0)
    (hag : agreeOutside feat_perf.sub c c') :
    runTurns W feed c sites inputs st = runTurns W feed c' sites inputs st :=
  C02_inert W feed feat_perf sites C02_table_perf c c' h h' hag inputs st

theorem C02_inert_parallel (h : c feat_perf_parallel.flag = 0) (h' : c' feat_perf_parallel.flag = 0)
    (hag : agreeOutside feat_perf_parallel.sub c c') :
    runTurns W feed c sites inputs st = runTurns W feed c' sites inputs st :=
  C02_inert W feed feat_perf_parallel sites C02_table_parallel c c' h h' hag inputs st

theorem C02_inert_graph (h : c feat_graph.flag = 0) (h' : c' feat_graph.flag = 0)
    (hag : agreeOutside feat_graph.sub c c') :
    runTurns W feed c sites inputs st = runTurns W feed c' sites inputs st :=
  C02_inert W feed feat_graph sites C02_table_graph c c' h h' hag inputs st

theorem C02_inert_quality (h : c feat_t2_quality.flag = 0) (h' : c' feat_t2_quality.flag = 0)
    (hag : agreeOutside feat_t2_quality.sub c c') :
    runTurns W feed c sites inputs st = runTurns W feed c' sites inputs st :=
  C02_inert W feed feat_t2_quality sites C02_table_quality c c' h h' hag inputs st

theorem C02_inert_hybrid (h : c feat_t2_hybrid.flag = 0) (h' : c' feat_t2_hybrid.flag = 0)
    (hag : agreeOutside feat_t2_hybrid.sub c c') :
    runTurns W feed c sites inputs st = runTurns W feed c' sites inputs st :=
  C02_inert W feed feat_t2_hybrid sites C02_table_hybrid c c' h h' hag inputs st

theorem C02_inert_reflection (h : c feat_t3_reflection.flag = 0) (h' : c' feat_t3_reflection.flag = 0)
    (hag : agreeOutside feat_t3_reflection.sub c c') :
    runTurns W feed c sites inputs st = runTurns W feed c' sites inputs st :=
  C02_inert W feed feat_t3_reflection sites C02_table_reflection c c' h h' hag inputs st

/-- scheduler (partial: sub = scheduler.* minus the two reflection budgets). -/
theorem C02_inert_scheduler_partial (h : c feat_scheduler.flag = 0) (h' : c' feat_scheduler.flag = 0)
    (hag : agreeOutside feat_scheduler.sub c c') :
    runTurns W feed c sites inputs st = runTurns W feed c' sites inputs st :=
  C02_inert W feed feat_scheduler sites C02_table_scheduler c c' h h' hag inputs st

/-- shadow tracing is governed by the perf master switch. -/
theorem C02_inert_shadow (h : c feat_shadow.flag = 0) (h' : c' feat_shadow.flag = 0)
    (hag : agreeOutside feat_shadow.sub c c') :
    runTurns W feed c sites inputs st = runTurns W feed c' sites inputs st :=
  C02_inert W feed feat_shadow sites C02_table_shadow c c' h h' hag inputs st

/-- No GEL log, reflection log, scheduler log / slice keys, perf / shadow traces and gated metric keys
while the respective flag is off (full table, advisory sites included). -/
theorem C02_no_artifact_perf (s0 : σ) (h : c feat_perf_full.flag = 0) :
    noArtifactB feat_perf_full.arts (runTurns W feed c allSites inputs (s0, [])).2 = true :=
  C02_no_artifact W feed feat_perf_full allSites C02_arts_perf c h inputs s0
theorem C02_no_artifact_graph (s0 : σ) (h : c feat_graph.flag = 0) :
    noArtifactB feat_graph.arts (runTurns W feed c allSites inputs (s0, [])).2 = true :=
  C02_no_artifact W feed feat_graph allSites C02_arts_graph c h inputs s0
theorem C02_no_artifact_quality (s0 : σ) (h : c feat_t2_quality.flag = 0) :
    noArtifactB feat_t2_quality.arts (runTurns W feed c allSites inputs (s0, [])).2 = true :=
  C02_no_artifact W feed feat_t2_quality allSites C02_arts_quality c h inputs s0
theorem C02_no_artifact_hybrid (s0 : σ) (h : c feat_t2_hybrid.flag = 0) :
    noArtifactB feat_t2_hybrid.arts (runTurns W feed c allSites inputs (s0, [])).2 = true :=
  C02_no_artifact W feed feat_t2_hybrid allSites C02_arts_hybrid c h inputs s0
theorem C02_no_artifact_reflection (s0 : σ) (h : c feat_t3_reflection.flag = 0) :
    noArtifactB feat_t3_reflection.arts (runTurns W feed c allSites inputs (s0, [])).2 = true :=
  C02_no_artifact W feed feat_t3_reflection allSites C02_arts_reflection c h inputs s0
theorem C02_no_artifact_scheduler (s0 : σ) (h : c feat_scheduler_full.flag = 0) :
    noArtifactB feat_scheduler_full.arts (runTurns W feed c allSites inputs (s0, [])).2 = true :=
  C02_no_artifact W feed feat_scheduler_full allSites C02_arts_scheduler c h inputs s0
end

/-! ## Non-vacuity: the hypotheses are satisfiable by configurations that really differ inside the subtree -/

private theorem nonvac (g : Feat) (w : Nat) (hw : g.sub.contains w = true) (hne : (w == g.flag) = false) :
    ∃ c c' : Cfg, c g.flag = 0 ∧ c' g.flag = 0 ∧ agreeOutside g.sub c c' ∧ c w ≠ c' w := by
  refine ⟨fun _ => 0, fun i => if i = w then 7 else 0, rfl, ?_, ?_, ?_⟩
  · have : g.flag ≠ w := by intro h; simp [h] at hne
    simp [this]
  · intro i hi
    have : i ≠ w := by intro h; subst h; rw [hw] at hi; cases hi
    simp [this]
  · simp

example := nonvac feat_perf wit_perf (by decide) (by decide)
example := nonvac feat_perf_parallel wit_perf_parallel (by decide) (by decide)
example := nonvac feat_graph wit_graph (by decide) (by decide)
example := nonvac feat_t2_quality wit_t2_quality (by decide) (by decide)
example := nonvac feat_t2_hybrid wit_t2_hybrid (by decide) (by decide)
example := nonvac feat_t3_reflection wit_t3_reflection (by decide) (by decide)
example := nonvac feat_scheduler wit_scheduler (by decide) (by decide)

/-! ## Tightness of the table check, and the two places where the full statement fails -/

/-- The table check is not vacuous: an ungated site that consumes a leaf of the subtree does make two
runs differ (concrete engine: the state records the values read). -/
theorem C02_tableOK_tight :
    let tbl : List Site := [⟨0, .tt, [1], []⟩]
    let W : World (List Int) := ⟨fun _ _ => true, fun _ vals s => vals ++ s⟩
    let c : Cfg := fun _ => 0
    let c' : Cfg := fun i => if i = 1 then 5 else 0
    tableOK 0 [0, 1] tbl = false ∧ c 0 = 0 ∧ c' 0 = 0 ∧
      runSites W c tbl ([], []) ≠ runSites W c' tbl ([], []) := by decide

/-- Full `perf.*` subtree: either it is inert under `perf.enabled = false` (a tree where the parallel
predicates consult the master switch), or the parallel fan-out sites are exactly not gated by it. -/
theorem C02_inert_perf_full_dichotomy :
    tableOK feat_perf_full.flag feat_perf_full.sub sites = true ∨
      consistentB allSites parallelMaster = false := by decide

/-- Configuration with every leaf truthy (= 2) except the perf master switch. -/
def masterOffAllOn : Cfg := fun i => if i = feat_perf_full.flag then 0 else 2

/-- Negation witness for "the parallel predicates imply perf.enabled" (DESIGN §5 #9): unless the table
says they do, a configuration with `perf.enabled = false` makes a fan-out site's predicate true. -/
theorem C02_parallel_ignores_master_witness :
    consistentB allSites parallelMaster = true ∨
      (masterOffAllOn feat_perf_full.flag = 0 ∧
        (parallelMaster.any fun p => match allSites[p.1]? with
          | some s => eval masterOffAllOn (fun _ => true) s.guard
          | none => false) = true) := by decide

/-- Agent batch driver (`_run_agents_parallel_batch`): either its compute-then-commit path is gated by the perf
master switch as the validator's warning documents, or a configuration with `perf.enabled = false` opens it. -/
theorem C02_agents_ignore_master_witness :
    consistentB allSites agentsMaster = true ∨
      (masterOffAllOn feat_perf_full.flag = 0 ∧
        (agentsMaster.any fun p => match allSites[p.1]? with
          | some s => eval masterOffAllOn (fun _ => true) s.guard
          | none => false) = true) := by decide

/-- Full `scheduler.*` subtree: every site that breaks its inertness is a reflection site, i.e. runs only
under `t3.allow_reflection` (it consumes scheduler.budgets.{ops,time_ms}_reflection). -/
theorem C02_scheduler_full_leak_is_reflection_only :
    (sites.filter fun s => !(siteOK feat_scheduler_full.flag feat_scheduler_full.sub s)).all
      (fun s => forcedOff feat_t3_reflection.flag s.guard) = true := by decide

/-- The unguarded MMR fallback call site is not gated by t2.quality.enabled itself (its callee is:
site `t2.quality.mmr_work`), or it has been tightened. -/
theorem C02_advisory_sites_documented :
    advisorySites.all (fun s => s.reads.isEmpty && s.emits.isEmpty) = true := by decide

end Clem.Props.C02
