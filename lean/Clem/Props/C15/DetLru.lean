import Clem.Proofs.DetLru

/-!
# C15 — deterministic containers: `DeterministicLRUSet`, `DeterministicLRU`, `DedupeRing`

Every theorem is about the executable definitions in `Clem/Model/DetLru.lean` that the driver runs
against `clematis/engine/util/lru_det.py` and `clematis/engine/util/ring.py`.
-/

namespace Clem.DetLru

/-! ## DeterministicLRUSet (FIFO on first insertion) -/

namespace LSet

theorem C15_lset_inv_step (s : LSet) (op : Op) (h : Inv s) : Inv (s.step op) := by
  cases op with
  | clear => exact ⟨List.nodup_nil, Nat.zero_le _⟩
  | add x =>
    simp only [step, add]
    split
    · exact h
    · split
      · exact h
      · rename_i hx
        have hx' : x ∉ s.q := by simpa using hx
        have hnd : (s.q ++ [x]).Nodup := by
          rw [List.nodup_append]
          refine ⟨h.1, by simp, ?_⟩
          intro a ha b hb; simp at hb; subst hb; intro hab; subst hab; exact hx' ha
        exact ⟨List.Nodup.sublist (evictFront_sublist _ _) hnd, (evictFront_spec _ _).2⟩

/-- **Every reachable state** (any cap incl. ≤ 0, any operation sequence) holds each element once
and at most `cap` elements. -/
theorem C15_lset_inv_reachable (cap : Int) (ops : List Op) : Inv (run (init cap) ops) := by
  suffices ∀ s, Inv s → Inv (run s ops) from this _ ⟨List.nodup_nil, Nat.zero_le _⟩
  induction ops with
  | nil => intro s h; exact h
  | cons op ops ih => intro s h; exact ih _ (C15_lset_inv_step s op h)

theorem C15_lset_monitor_iff (s : LSet) : s.invB = true ↔ Inv s := by
  simp [invB, Inv]

/-- Eviction is strictly first-in-first-out: a new element goes to the back; when the set is
full exactly the oldest element leaves and `add` reports it. -/
theorem C15_lset_add_fifo (s : LSet) (x : Nat) (hc : s.cap ≠ 0) (hx : x ∉ s.q) :
    (s.q.length < s.cap → s.add x = ({ s with q := s.q ++ [x] }, false)) ∧
    (s.q.length = s.cap → s.add x = ({ s with q := s.q.tail ++ [x] }, true)) := by
  have hx' : s.q.contains x = false := by simpa using hx
  constructor
  · intro hl
    simp only [add, if_neg hc, hx', Bool.false_eq_true, if_false]
    rw [evictFront_fits _ _ (by simp; omega)]; rfl
  · intro hl
    simp only [add, if_neg hc, hx', Bool.false_eq_true, if_false]
    cases hq : s.q with
    | nil => rw [hq] at hl; exact absurd hl.symm hc
    | cons a t =>
      rw [hq] at hl
      simp only [List.cons_append, List.tail_cons]
      rw [evictFront_one _ a (t ++ [x]) (by simp at hl ⊢; omega)]; rfl

/-- Re-adding a member changes nothing (no recency update). -/
theorem C15_lset_add_present_noop (s : LSet) (x : Nat) (hx : x ∈ s.q) : s.add x = (s, false) := by
  have hx' : s.q.contains x = true := by simpa using hx
  simp only [add]; split
  · rfl
  · simp

/-- The element just added is a member (never self-evicted). -/
theorem C15_lset_contains_after_add (s : LSet) (x : Nat) (hc : s.cap ≠ 0) (h : Inv s) :
    (s.add x).1.contains x = true := by
  by_cases hx : x ∈ s.q
  · rw [C15_lset_add_present_noop s x hx]
    simp [contains, hx]; omega
  · obtain ⟨h1, h2⟩ := C15_lset_add_fifo s x hc hx
    have hl := h.2
    rcases Nat.lt_or_eq_of_le hl with hl | hl
    · rw [h1 hl]; simp [contains]; omega
    · rw [h2 hl]; simp [contains]; omega

/-- `cap ≤ 0` ⇒ disabled: nothing is ever stored, `contains` is false, `add` reports no eviction. -/
theorem C15_lset_disabled (cap : Int) (hc : cap ≤ 0) (ops : List Op) (x : Nat) :
    run (init cap) ops = init cap ∧ (run (init cap) ops).contains x = false ∧
    ((run (init cap) ops).add x).2 = false := by
  have h0 : cap.toNat = 0 := by omega
  have h : run (init cap) ops = init cap := by
    suffices ∀ s, s = init cap → run s ops = init cap from this _ rfl
    induction ops with
    | nil => intro s h; exact h
    | cons op ops ih =>
      intro s h; subst h
      apply ih
      cases op <;> simp [step, add, clear, init, h0]
  rw [h]
  exact ⟨rfl, by simp [contains, init, h0], by simp [add, init, h0]⟩

example : (run (init 2) [.add 1, .add 2, .add 1, .add 3]).q = [2, 3] ∧
    ((run (init 2) [.add 1, .add 2]).add 3).2 = true := by decide

end LSet

/-! ## DeterministicLRU (map) -/

namespace LMap

theorem C15_lmap_inv_get (s : LMap) (k : Nat) (h : Inv s) : Inv (s.get k).1 := by
  simp only [get]
  split
  · exact h
  · split
    · exact h
    · rename_i v hv
      split
      · have := length_without_lt hv
        exact ⟨nodup_reinsert k v h.1, by have := h.2; simp; omega⟩
      · exact h

theorem C15_lmap_inv_put (s : LMap) (k v : Nat) (h : Inv s) : Inv (s.put k v).1 := by
  simp only [put]
  split
  · exact h
  · split
    · rename_i w hw
      split
      · have := length_without_lt hw
        exact ⟨nodup_reinsert k v h.1, by have := h.2; simp; omega⟩
      · exact ⟨by simp only; rw [replace_keys]; exact h.1, by simp [replace]; exact h.2⟩
    · rename_i hn
      have hnd := nodup_append_new k v h.1 hn
      exact ⟨List.Nodup.sublist (List.Sublist.map _ (evictFront_sublist _ _)) hnd,
        (evictFront_spec _ _).2⟩

theorem C15_lmap_inv_step (s : LMap) (op : Op) (h : Inv s) : Inv (s.step op) := by
  cases op with
  | get k => exact C15_lmap_inv_get s k h
  | put k v => exact C15_lmap_inv_put s k v h
  | clear => exact ⟨List.nodup_nil, Nat.zero_le _⟩
  | popLru =>
    simp only [step, popLru]
    split
    · exact h
    · split
      · exact h
      · rename_i e es he
        obtain ⟨h1, h2⟩ := h
        rw [he] at h1 h2
        simp only [List.map_cons, List.nodup_cons, List.length_cons] at h1 h2
        exact ⟨h1.2, by simp only; omega⟩

/-- **Every reachable state** (any cap, both recency flags, any operation sequence) holds each key
once and at most `cap` entries. -/
theorem C15_lmap_inv_reachable (cap : Int) (uog uop : Bool) (ops : List Op) :
    Inv (run (init cap uog uop) ops) := by
  suffices ∀ s, Inv s → Inv (run s ops) from this _ ⟨List.nodup_nil, Nat.zero_le _⟩
  induction ops with
  | nil => intro s h; exact h
  | cons op ops ih => intro s h; exact ih _ (C15_lmap_inv_step s op h)

theorem C15_lmap_monitor_iff (s : LMap) : s.invB = true ↔ Inv s := by
  simp [invB, Inv]

/-- Inserting a new key evicts nothing while there is room, and exactly the least-recently-used
entry (reported to `on_evict` and returned) when the map is full. -/
theorem C15_lmap_put_evicts_lru (s : LMap) (k v : Nat) (hc : s.cap ≠ 0)
    (hk : lookup k s.items = none) :
    (s.items.length < s.cap → s.put k v = ({ s with items := s.items ++ [(k, v)] }, [])) ∧
    (s.items.length = s.cap →
      s.put k v = ({ s with items := s.items.tail ++ [(k, v)] }, s.items.take 1)) := by
  constructor
  · intro hl
    simp only [put, if_neg hc, hk]
    rw [evictFront_fits _ _ (by simp; omega)]
  · intro hl
    simp only [put, if_neg hc, hk]
    cases hq : s.items with
    | nil => rw [hq] at hl; exact absurd hl.symm hc
    | cons a t =>
      rw [hq] at hl
      simp only [List.cons_append, List.tail_cons]
      rw [evictFront_one _ a (t ++ [(k, v)]) (by simp at hl ⊢; omega)]; rfl

/-- Updating a present key never evicts; it moves the key to the MRU end iff `update_on_put`,
otherwise the recency order is untouched. -/
theorem C15_lmap_put_present (s : LMap) (k v w : Nat) (hc : s.cap ≠ 0)
    (hk : lookup k s.items = some w) :
    (s.put k v).2 = [] ∧
    (s.uop = true → (s.put k v).1.items = without k s.items ++ [(k, v)]) ∧
    (s.uop = false → (s.put k v).1.items.map (·.1) = s.items.map (·.1)) := by
  simp only [put, if_neg hc, hk]
  cases hu : s.uop <;> simp [replace_keys]

/-- The key just written is retrievable with the written value (never self-evicted). -/
theorem C15_lmap_get_after_put (s : LMap) (k v : Nat) (hc : s.cap ≠ 0) (h : Inv s) :
    lookup k (s.put k v).1.items = some v := by
  cases hk : lookup k s.items with
  | none =>
    obtain ⟨h1, h2⟩ := C15_lmap_put_evicts_lru s k v hc hk
    rcases Nat.lt_or_eq_of_le h.2 with hl | hl
    · rw [h1 hl]; exact lookup_append_new k v _ hk
    · rw [h2 hl]
      apply lookup_append_new
      rw [lookup_none_iff] at hk ⊢
      intro hm; apply hk
      exact (List.Sublist.map _ (List.tail_sublist _)).subset hm
  | some w =>
    simp only [put, if_neg hc, hk]
    cases hu : s.uop
    · simp only [Bool.false_eq_true, if_false]; exact lookup_replace k v _ w hk
    · simp only [if_true]
      apply lookup_append_new
      rw [lookup_none_iff]; exact not_mem_without k _

/-- `get` returns the stored value; it moves the key to the MRU end iff `update_on_get`. -/
theorem C15_lmap_get_spec (s : LMap) (k : Nat) (hc : s.cap ≠ 0) :
    (s.get k).2 = lookup k s.items ∧
    (s.uog = false → (s.get k).1 = s) ∧
    (s.uog = true → ∀ w, lookup k s.items = some w → (s.get k).1.items = without k s.items ++ [(k, w)]) := by
  simp only [get, if_neg hc]
  cases hk : lookup k s.items with
  | none => simp
  | some w => cases hu : s.uog <;> simp

/-- `pop_lru` removes and returns the least-recently-used entry. -/
theorem C15_lmap_pop_lru (s : LMap) (e : Nat × Nat) (es : List (Nat × Nat)) (hc : s.cap ≠ 0)
    (h : s.items = e :: es) : s.popLru = ({ s with items := es }, some e) := by
  simp [popLru, if_neg hc, h]

/-- `cap ≤ 0` ⇒ disabled: always-miss cache that stores and evicts nothing. -/
theorem C15_lmap_disabled (cap : Int) (hc : cap ≤ 0) (uog uop : Bool) (ops : List Op) (k v : Nat) :
    run (init cap uog uop) ops = init cap uog uop ∧
    ((run (init cap uog uop) ops).get k).2 = none ∧
    ((run (init cap uog uop) ops).put k v).2 = [] ∧ (run (init cap uog uop) ops).len = 0 := by
  have h0 : cap.toNat = 0 := by omega
  have h : run (init cap uog uop) ops = init cap uog uop := by
    suffices ∀ s, s = init cap uog uop → run s ops = init cap uog uop from this _ rfl
    induction ops with
    | nil => intro s h; exact h
    | cons op ops ih =>
      intro s h; subst h
      apply ih
      cases op <;> simp [step, get, put, popLru, clear, init, h0]
  rw [h]
  simp [get, put, len, init, h0]

example :
    (run (init 2 true true) [.put 1 10, .put 2 20, .get 1, .put 3 30]).items = [(1, 10), (3, 30)] ∧
    (run (init 2 false true) [.put 1 10, .put 2 20, .get 1, .put 3 30]).items = [(2, 20), (3, 30)] ∧
    ((run (init 2 true true) [.put 1 10, .put 2 20, .get 1]).put 3 30).2 = [(2, 20)] := by decide

end LMap

/-! ## DedupeRing -/

namespace Ring

theorem C15_ring_inv_step (s : Ring) (op : Op) (h : Inv s) : Inv (s.step op) := by
  cases op with
  | clear => exact ⟨Nat.zero_le _, fun x => by simp [step, clear]⟩
  | discard x =>
    simp only [step, discard]
    split
    · exact h
    · exact ⟨h.1, fun y => Nat.le_trans ((List.erase_sublist).count_le y) (h.2 y)⟩
  | add x =>
    simp only [step, add]
    split
    · exact h
    · rename_i hk
      obtain ⟨e1, e2⟩ := evict_inv s.k (by omega) s.q s.ref h.2
      refine ⟨by simp only [List.length_append, List.length_cons, List.length_nil]; omega, fun y => ?_⟩
      have := e1 y
      simp only [List.count_cons, List.count_append, List.count_nil]
      split <;> omega

/-- **Every reachable state** (any `k`, any sequence of `add`/`extend`/`discard`/`clear`): the
window never holds more than `k` elements and no reference count exceeds the element's
multiplicity in the window (`discard` may make it smaller — by design). -/
theorem C15_ring_inv_reachable (k : Int) (ops : List Op) : Inv (run (init k) ops) := by
  suffices ∀ s, Inv s → Inv (run s ops) from this _ ⟨Nat.zero_le _, fun x => by simp [init]⟩
  induction ops with
  | nil => intro s h; exact h
  | cons op ops ih => intro s h; exact ih _ (C15_ring_inv_step s op h)

/-- `extend` is a sequence of `add`s, so it preserves the invariant too. -/
theorem C15_ring_inv_extend (s : Ring) (xs : List Nat) (h : Inv s) : Inv (s.extend xs) := by
  unfold extend
  induction xs generalizing s with
  | nil => exact h
  | cons x xs ih => exact ih _ (C15_ring_inv_step s (.add x) h)

theorem C15_ring_monitor_iff (s : Ring) : s.invB = true ↔ Inv s := by
  unfold invB Inv
  simp only [Bool.and_eq_true, decide_eq_true_eq, List.all_eq_true]
  constructor
  · rintro ⟨a, b⟩
    refine ⟨a, fun x => ?_⟩
    by_cases hx : x ∈ s.ref
    · exact b x hx
    · rw [List.count_eq_zero_of_not_mem hx]; exact Nat.zero_le _
  · rintro ⟨a, b⟩
    exact ⟨a, fun x _ => b x⟩

/-- Membership is sound: whatever `contains` reports is physically in the window. -/
theorem C15_ring_contains_sound (s : Ring) (x : Nat) (h : Inv s) (hc : s.contains x = true) :
    x ∈ s.q := by
  simp only [contains, Bool.and_eq_true, decide_eq_true_eq] at hc
  have := h.2 x
  exact List.count_pos_iff.mp (by omega)

/-- In histories without `discard` the reference counts are *exactly* the multiplicities in the
window (the refcount bag is a permutation of the window). -/
theorem C15_ring_exact_without_discard (k : Int) (ops : List Op)
    (hd : ops.all (fun o => !o.isDiscard) = true) :
    (run (init k) ops).ref.Perm (run (init k) ops).q := by
  suffices ∀ s : Ring, s.ref.Perm s.q → (run s ops).ref.Perm (run s ops).q from
    this _ (by simp [init])
  induction ops with
  | nil => intro s h; exact h
  | cons op ops ih =>
    intro s h
    simp only [List.all_cons, Bool.and_eq_true] at hd
    apply ih hd.2
    cases op with
    | clear => simp [step, clear]
    | discard x => simp [Op.isDiscard] at hd
    | add x =>
      simp only [step, add]
      split
      · exact h
      · have := evict_perm s.k s.q s.ref h
        exact (List.Perm.cons x this).trans (List.perm_append_singleton x _).symm

/-- …hence, without `discard`, `contains x` is exactly "`x` is in the window". -/
theorem C15_ring_contains_exact (k : Int) (ops : List Op)
    (hd : ops.all (fun o => !o.isDiscard) = true) (x : Nat) :
    (run (init k) ops).contains x = true ↔ (0 < (run (init k) ops).k ∧ x ∈ (run (init k) ops).q) := by
  have hp := C15_ring_exact_without_discard k ops hd
  simp only [contains, Bool.and_eq_true, decide_eq_true_eq, List.count_pos_iff]
  exact ⟨fun ⟨a, b⟩ => ⟨a, hp.mem_iff.mp b⟩, fun ⟨a, b⟩ => ⟨a, hp.mem_iff.mpr b⟩⟩

/-- The window is first-in-first-out: `add` appends, dropping exactly the oldest element when
the window is full. -/
theorem C15_ring_add_fifo (s : Ring) (x : Nat) (hk : s.k ≠ 0) (hl : s.q.length ≤ s.k) :
    (s.add x).q = (if s.q.length < s.k then s.q else s.q.tail) ++ [x] := by
  simp only [add, if_neg hk]
  split
  · rename_i h; rw [evict_lt _ _ _ h]
  · rename_i h
    cases hq : s.q with
    | nil => rw [hq] at h; simp at h; omega
    | cons a t =>
      rw [hq] at h hl
      rw [evict_full _ a t _ (by omega)]; rfl

/-- `discard` never touches the window. -/
theorem C15_ring_discard_keeps_window (s : Ring) (x : Nat) : (s.discard x).q = s.q := by
  simp only [discard]; split <;> rfl

/-- `k ≤ 0` ⇒ disabled: no-ops, `contains` is false. -/
theorem C15_ring_disabled (k : Int) (hk : k ≤ 0) (ops : List Op) (x : Nat) :
    run (init k) ops = init k ∧ (run (init k) ops).contains x = false := by
  have h0 : k.toNat = 0 := by omega
  have h : run (init k) ops = init k := by
    suffices ∀ s, s = init k → run s ops = init k from this _ rfl
    induction ops with
    | nil => intro s h; exact h
    | cons op ops ih =>
      intro s h; subst h
      apply ih
      cases op <;> simp [step, add, discard, clear, init, h0]
  rw [h]
  exact ⟨rfl, by simp [contains, init, h0]⟩

/-- With `discard` the ring under-counts by design: an element physically in the window can be
reported absent.  (So `contains x ↔ x ∈ window` is NOT a property of the code; the proved
invariant is the one-sided `C15_ring_contains_sound` + exactness for discard-free histories.) -/
theorem C15_ring_discard_undercounts_witness :
    ∃ (ops : List Op) (x : Nat),
      x ∈ (run (init 3) ops).q ∧ (run (init 3) ops).contains x = false :=
  ⟨[.add 1, .add 2, .discard 1], 1, by decide⟩

example : (run (init 2) [.add 1, .add 1, .add 2]).q = [1, 2] ∧
    (run (init 2) [.add 1, .add 1, .add 2]).contains 1 = true ∧
    (run (init 2) [.add 1, .add 1, .add 2, .add 3]).contains 1 = false := by decide

end Ring

end Clem.DetLru
