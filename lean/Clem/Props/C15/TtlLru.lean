import Clem.Proofs.TtlLru

/-!
# C15 — TTL LRU (`_NamespaceCache`, `LRUCache`) and the namespaced `CacheManager`

Every theorem is about the executable definitions in `Clem/Model/TtlLru.lean` that the driver
runs against `clematis/engine/cache.py`.  Clock readings are arbitrary integers carried by the
operations (the clock may stand still or run backwards); `max` and `ttl` are arbitrary integers.
-/

namespace Clem.TtlLru

/-! ## Capacity and key-uniqueness invariant -/

theorem C15_ttl_ns_inv_init (max ttl : Int) : Ns.Inv (Ns.init max ttl) := by
  simp [Ns.Inv, Ns.init]

/-- `get` (miss, expiry, or hit + move to MRU) preserves the invariant. -/
theorem C15_ttl_ns_inv_get (s : Ns) (now : Int) (k : Nat) (h : Ns.Inv s) : Ns.Inv (s.get now k).1 := by
  unfold Ns.get
  split
  · exact h
  · rename_i e he
    obtain ⟨h1, h2⟩ := h
    have hk := (lookup_some he).2
    have hl := length_without_some he
    split
    · exact ⟨without_keys_nodup k h1, fun hm => by have := h2 hm; simp only; omega⟩
    · refine ⟨?_, fun hm => ?_⟩
      · have := nodup_reinsert e h1; rw [hk] at this; exact this
      · have := h2 hm; simp only [List.length_append, List.length_cons, List.length_nil]; omega

/-- `set` preserves the invariant — for every cap, including negative ones. -/
theorem C15_ttl_ns_inv_set (s : Ns) (now : Int) (k v : Nat) (h : Ns.Inv s) :
    Ns.Inv (s.set now k v).1 := by
  unfold Ns.set
  obtain ⟨h1, -⟩ := h
  have hnd := nodup_reinsert ⟨k, now, v⟩ h1
  obtain ⟨e1, -, e3, -⟩ := evictOver_spec s.max (without k s.items ++ [⟨k, now, v⟩])
  refine ⟨?_, fun hm => e3 hm⟩
  simp only; rw [e1]
  exact List.Nodup.sublist (List.Sublist.map _ (List.drop_sublist _ _)) hnd

theorem C15_ttl_ns_inv_contains (s : Ns) (now : Int) (k : Nat) (h : Ns.Inv s) :
    Ns.Inv (s.contains now k).1 := by
  unfold Ns.contains
  split
  · exact h
  · rename_i e he
    split
    · have hl := length_without_some he
      exact ⟨without_keys_nodup k h.1, fun hm => by have := h.2 hm; simp only; omega⟩
    · exact h

theorem C15_ttl_ns_inv_prune (s : Ns) (now : Int) (h : Ns.Inv s) : Ns.Inv (s.prune now) := by
  unfold Ns.prune
  refine ⟨filter_keys_nodup _ h.1, fun hm => ?_⟩
  have := h.2 hm
  have hl := List.length_filter_le (fun e => !expired s.ttl now e.ts) s.items
  simp only; omega

theorem C15_ttl_ns_inv_invalidate (s : Ns) (_h : Ns.Inv s) : Ns.Inv s.invalidate.1 := by
  refine ⟨by simp [Ns.invalidate], fun hm => ?_⟩
  simp [Ns.invalidate]; exact hm

theorem C15_ttl_lru_inv_step (c : Lru) (op : Op) (h : Ns.Inv c.ns) : Ns.Inv (c.step op).ns := by
  cases op with
  | get now k =>
    have := C15_ttl_ns_inv_get c.ns now k h
    simp only [Lru.step, Lru.get]; split <;> exact this
  | set now k v =>
    have := C15_ttl_ns_inv_set c.ns now k v h
    simp only [Lru.step, Lru.set]; split <;> exact this
  | contains now k => exact C15_ttl_ns_inv_contains c.ns now k h
  | items now => exact C15_ttl_ns_inv_prune c.ns now h
  | invalidate => exact C15_ttl_ns_inv_invalidate c.ns h

/-- **Every reachable state** of the TTL LRU — any cap, any TTL, any operation sequence with any
clock readings — holds each key once and (for a cap ≥ 0) at most `max` entries. -/
theorem C15_ttl_lru_inv_reachable (max ttl : Int) (ops : List Op) :
    Ns.Inv (Lru.run (Lru.init max ttl) ops).ns := by
  suffices ∀ c : Lru, Ns.Inv c.ns → Ns.Inv (Lru.run c ops).ns from
    this _ (C15_ttl_ns_inv_init max ttl)
  induction ops with
  | nil => intro c h; exact h
  | cons op ops ih => intro c h; exact ih _ (C15_ttl_lru_inv_step c op h)

/-- The Boolean monitor evaluated on the implementation's state is the invariant. -/
theorem C15_ttl_monitor_iff (s : Ns) : s.invB = true ↔ Ns.Inv s := by
  unfold Ns.invB Ns.Inv
  simp only [Bool.and_eq_true, decide_eq_true_eq, Bool.or_eq_true]
  constructor
  · rintro ⟨a, b⟩
    exact ⟨a, fun hm => by rcases b with b | b <;> omega⟩
  · rintro ⟨a, b⟩
    refine ⟨a, ?_⟩
    by_cases hm : s.max < 0
    · exact Or.inl hm
    · exact Or.inr (b (by omega))

/-! ## TTL: expiry by the injected clock -/

/-- A hit is only ever served from an entry that is fresh w.r.t. the clock reading of the call:
TTL disabled (0) or age ≤ TTL; and it returns that entry's value. -/
theorem C15_ttl_get_hit_fresh (s : Ns) (now : Int) (k v : Nat) (h : (s.get now k).2 = some v) :
    ∃ e, lookup k s.items = some e ∧ e.val = v ∧ (s.ttl = 0 ∨ now - e.ts ≤ s.ttl) := by
  unfold Ns.get at h
  cases he : lookup k s.items with
  | none => simp [he] at h
  | some e =>
    simp only [he] at h
    by_cases hx : expired s.ttl now e.ts = true
    · simp [hx] at h
    · simp only [hx] at h
      refine ⟨e, rfl, by simpa using h, ?_⟩
      simp only [expired, Bool.and_eq_true, bne_iff_ne, ne_eq, decide_eq_true_eq, not_and, Int.not_lt] at hx
      by_cases h0 : s.ttl = 0
      · exact Or.inl h0
      · exact Or.inr (hx h0)

/-- A fresh entry always hits; the hit moves it to the MRU end and leaves the rest in order. -/
theorem C15_ttl_get_fresh_hits (s : Ns) (now : Int) (k : Nat) (e : Entry)
    (he : lookup k s.items = some e) (hf : s.ttl = 0 ∨ now - e.ts ≤ s.ttl) :
    (s.get now k).2 = some e.val ∧ (s.get now k).1.items = without k s.items ++ [e] := by
  have hx : expired s.ttl now e.ts = false := by
    simp only [expired, Bool.and_eq_false_iff, bne_eq_false_iff_eq, decide_eq_false_iff_not, Int.not_lt]
    rcases hf with h | h
    · exact Or.inl h
    · exact Or.inr h
  simp [Ns.get, he, hx]

/-- An expired entry is a miss and is removed by the read; the others keep their order. -/
theorem C15_ttl_get_expired_removed (s : Ns) (now : Int) (k : Nat) (e : Entry)
    (he : lookup k s.items = some e) (h0 : s.ttl ≠ 0) (hx : s.ttl < now - e.ts) :
    (s.get now k).2 = none ∧ (s.get now k).1.items = without k s.items ∧
    lookup k (s.get now k).1.items = none := by
  have hx' : expired s.ttl now e.ts = true := by simp [expired, h0, hx]
  simp [Ns.get, he, hx', lookup_without_self]

/-- `__contains__` answers "present and fresh" and never changes the recency order. -/
theorem C15_ttl_contains_spec (s : Ns) (now : Int) (k : Nat) :
    ((s.contains now k).2 = true ↔ ∃ e, lookup k s.items = some e ∧ (s.ttl = 0 ∨ now - e.ts ≤ s.ttl)) ∧
    ((s.contains now k).1.items = s.items ∨ (s.contains now k).1.items = without k s.items) := by
  unfold Ns.contains
  cases he : lookup k s.items with
  | none => simp
  | some e =>
    by_cases hx : expired s.ttl now e.ts = true
    · have hx' : ¬ (s.ttl = 0 ∨ now - e.ts ≤ s.ttl) := by
        simp only [expired, Bool.and_eq_true, bne_iff_ne, ne_eq, decide_eq_true_eq] at hx
        omega
      simp [hx, hx']
    · have hx' : s.ttl = 0 ∨ now - e.ts ≤ s.ttl := by
        simp only [expired, Bool.and_eq_true, bne_iff_ne, ne_eq, decide_eq_true_eq, not_and, Int.not_lt] at hx
        by_cases h0 : s.ttl = 0
        · exact Or.inl h0
        · exact Or.inr (hx h0)
      simp [hx, hx']

/-! ## Eviction: strictly oldest first -/

/-- The entries evicted by `set` are a *prefix* of the recency order (written key moved to the
MRU end, stamped with the clock reading), the survivors are the rest in unchanged order, and the
count added to `stats["evicted"]` is exactly the length of that prefix. -/
theorem C15_ttl_set_evicts_oldest (s : Ns) (now : Int) (k v : Nat) :
    ∃ ev, without k s.items ++ [⟨k, now, v⟩] = ev ++ (s.set now k v).1.items ∧
      (0 ≤ s.max → (s.set now k v).2 = some ev.length) := by
  obtain ⟨e1, e2, -, -⟩ := evictOver_spec s.max (without k s.items ++ [⟨k, now, v⟩])
  refine ⟨(without k s.items ++ [(⟨k, now, v⟩ : Entry)]).take
    (Ns.evictOver s.max (without k s.items ++ [(⟨k, now, v⟩ : Entry)])).2, ?_, fun hm => ?_⟩
  · simp only [Ns.set]; rw [e1]; exact (List.take_append_drop _ _).symm
  · simp only [Ns.set]
    rw [if_neg (by omega), List.length_take, Nat.min_eq_left e2]

/-- Nothing is evicted while there is room. -/
theorem C15_ttl_set_no_eviction_when_room (s : Ns) (now : Int) (k v : Nat)
    (h : ((without k s.items).length : Int) + 1 ≤ s.max) :
    (s.set now k v).1.items = without k s.items ++ [⟨k, now, v⟩] ∧ (s.set now k v).2 = some 0 := by
  have := evictOver_fits s.max (without k s.items ++ [⟨k, now, v⟩]) (by simp; omega)
  refine ⟨by simp only [Ns.set, this], ?_⟩
  simp only [Ns.set, this]; rw [if_neg (by omega)]

/-- The key just written is never evicted by its own `set` (cap ≥ 1) and is retrievable with the
written value and the clock reading of the write. -/
theorem C15_ttl_set_keeps_key (s : Ns) (now : Int) (k v : Nat) (hm : 1 ≤ s.max) (h : Ns.Inv s) :
    lookup k (s.set now k v).1.items = some ⟨k, now, v⟩ := by
  obtain ⟨p', hp⟩ := evictOver_keeps_last s.max hm (without k s.items) ⟨k, now, v⟩
  have hinv := (C15_ttl_ns_inv_set s now k v h).1
  simp only [Ns.set] at hinv ⊢
  rw [hp] at hinv ⊢
  simp only [List.map_append, List.map_cons, List.map_nil] at hinv
  rw [List.nodup_append] at hinv
  unfold lookup
  rw [List.find?_append]
  have : List.find? (fun e => e.key == k) p' = none := by
    rw [List.find?_eq_none]
    intro x hx hxk
    have hxk' : x.key = k := by simpa using hxk
    exact hinv.2.2 x.key (List.mem_map_of_mem hx) k (by simp) hxk'
  simp [this]

/-- A cap of zero disables the cache: no operation sequence ever leaves an entry behind and
every `get` misses. -/
theorem C15_ttl_max0_nothing_retrievable (ttl : Int) (ops : List Op) (now : Int) (k : Nat) :
    (Lru.run (Lru.init 0 ttl) ops).ns.items = [] ∧
    ((Lru.run (Lru.init 0 ttl) ops).get now k).2 = none := by
  have hinv := C15_ttl_lru_inv_reachable 0 ttl ops
  have hmax : (Lru.run (Lru.init 0 ttl) ops).ns.max = 0 := lru_run_max _ ops
  have hl := hinv.2 (by omega)
  rw [hmax] at hl
  have : (Lru.run (Lru.init 0 ttl) ops).ns.items = [] := by
    apply List.eq_nil_of_length_eq_zero; omega
  refine ⟨this, ?_⟩
  simp [Lru.get, Ns.get, this, lookup]

/-! ## Counters -/

/-- `hits + misses` counts exactly the `get`s. -/
theorem C15_ttl_hits_misses_count (max ttl : Int) (ops : List Op) :
    (Lru.run (Lru.init max ttl) ops).hits + (Lru.run (Lru.init max ttl) ops).misses
      = (ops.filter Op.isGet).length := by
  suffices ∀ c : Lru, (Lru.run c ops).hits + (Lru.run c ops).misses
      = c.hits + c.misses + (ops.filter Op.isGet).length by
    have := this (Lru.init max ttl); simpa [Lru.init] using this
  induction ops with
  | nil => intro c; simp [Lru.run]
  | cons op ops ih =>
    intro c
    show (Lru.run (c.step op) ops).hits + (Lru.run (c.step op) ops).misses = _
    rw [ih]
    cases op <;> simp only [Lru.step, Lru.get, Lru.set, Lru.contains, Lru.items, Lru.invalidate,
      List.filter_cons, Op.isGet]
    · split <;> simp <;> omega
    · split <;> simp
    · simp
    · simp
    · simp

/-! ## CacheManager -/

theorem C15_mgr_inv_init (max ttl : Int) : Mgr.Inv (Mgr.init max ttl) := by
  simp [Mgr.Inv, Mgr.init]

/-- The cache a manager operation works on satisfies the namespace invariant. -/
theorem C15_mgr_nsObj_inv (m : Mgr) (n : Nat) (h : Mgr.Inv m) :
    Ns.Inv (m.nsObj n) ∧ (m.nsObj n).max = m.max ∧ (m.nsObj n).ttl = m.ttl := by
  unfold Mgr.nsObj
  cases hf : Mgr.find n m.nss with
  | none => exact ⟨C15_ttl_ns_inv_init _ _, rfl, rfl⟩
  | some c => exact h.2 _ (find_some_mem hf)

theorem C15_mgr_inv_store (m : Mgr) (n : Nat) (c : Ns) (h : Mgr.Inv m)
    (hc : Ns.Inv c ∧ c.max = m.max ∧ c.ttl = m.ttl) :
    ((Mgr.store n c m.nss).map (·.1)).Nodup ∧
    ∀ p ∈ Mgr.store n c m.nss, Ns.Inv p.2 ∧ p.2.max = m.max ∧ p.2.ttl = m.ttl := by
  refine ⟨store_keys_nodup n c h.1, fun p hp => ?_⟩
  rcases mem_store hp with rfl | hp
  · exact hc
  · exact h.2 p hp

theorem C15_mgr_inv_step (m : Mgr) (op : MOp) (h : Mgr.Inv m) : Mgr.Inv (m.step op) := by
  cases op with
  | get n now k =>
    obtain ⟨i1, i2, i3⟩ := C15_mgr_nsObj_inv m n h
    have hs := ns_get_settings (m.nsObj n) now k
    have := C15_mgr_inv_store m n ((m.nsObj n).get now k).1 h
      ⟨C15_ttl_ns_inv_get _ now k i1, by rw [hs.1, i2], by rw [hs.2, i3]⟩
    simp only [Mgr.step, Mgr.get]; split <;> exact this
  | set n now k v =>
    obtain ⟨i1, i2, i3⟩ := C15_mgr_nsObj_inv m n h
    have := C15_mgr_inv_store m n ((m.nsObj n).set now k v).1 h
      ⟨C15_ttl_ns_inv_set _ now k v i1, i2, i3⟩
    simp only [Mgr.step, Mgr.set]; split <;> exact this
  | invalidateNs n =>
    simp only [Mgr.step, Mgr.invalidateNs]
    split
    · exact h
    · rename_i c hc
      have hm := h.2 _ (find_some_mem hc)
      exact C15_mgr_inv_store m n c.invalidate.1 h ⟨C15_ttl_ns_inv_invalidate c hm.1, hm.2.1, hm.2.2⟩
  | invalidateAll =>
    simp only [Mgr.step, Mgr.invalidateAll]
    refine ⟨?_, ?_⟩
    · simp only [List.map_map]
      have : ((fun p : Nat × Ns => p.1) ∘ fun p : Nat × Ns => (p.1, p.2.invalidate.1)) = (·.1) := by
        funext p; rfl
      rw [this]; exact h.1
    · intro p hp
      simp only [List.mem_map] at hp
      obtain ⟨q, hq, rfl⟩ := hp
      have hm := h.2 q hq
      exact ⟨C15_ttl_ns_inv_invalidate q.2 hm.1, hm.2.1, hm.2.2⟩

/-- Every reachable manager state: distinct namespaces, each within capacity with unique keys. -/
theorem C15_mgr_inv_reachable (max ttl : Int) (ops : List MOp) :
    Mgr.Inv (Mgr.run (Mgr.init max ttl) ops) := by
  suffices ∀ m : Mgr, Mgr.Inv m → Mgr.Inv (Mgr.run m ops) from this _ (C15_mgr_inv_init max ttl)
  induction ops with
  | nil => intro m h; exact h
  | cons op ops ih => intro m h; exact ih _ (C15_mgr_inv_step m op h)

/-- Namespaces are independent: an operation on namespace `a` leaves the cache of every other
namespace `b` exactly as it was. -/
theorem C15_mgr_namespace_independent (m : Mgr) (a b : Nat) (hab : a ≠ b) (now : Int) (k v : Nat) :
    Mgr.find b (m.get a now k).1.nss = Mgr.find b m.nss ∧
    Mgr.find b (m.set a now k v).1.nss = Mgr.find b m.nss ∧
    Mgr.find b (m.invalidateNs a).1.nss = Mgr.find b m.nss := by
  refine ⟨?_, ?_, ?_⟩
  · simp only [Mgr.get]; split <;> exact find_store_ne hab _ _
  · simp only [Mgr.set]; split <;> exact find_store_ne hab _ _
  · simp only [Mgr.invalidateNs]; split
    · rfl
    · exact find_store_ne hab _ _

/-- …and the operation acts on namespace `a` exactly like the single-namespace cache. -/
theorem C15_mgr_acts_on_namespace (m : Mgr) (a : Nat) (now : Int) (k v : Nat) :
    Mgr.find a (m.get a now k).1.nss = some ((m.nsObj a).get now k).1 ∧
    (m.get a now k).2 = ((m.nsObj a).get now k).2 ∧
    Mgr.find a (m.set a now k v).1.nss = some ((m.nsObj a).set now k v).1 := by
  refine ⟨?_, ?_, ?_⟩
  · simp only [Mgr.get]; split <;> exact find_store_self _ _ _
  · simp only [Mgr.get]; split <;> simp_all
  · simp only [Mgr.set]; split <;> exact find_store_self _ _ _

/-- `invalidate_all` empties every namespace and reports exactly `stats["size"]`. -/
theorem C15_mgr_invalidate_all (m : Mgr) :
    m.invalidateAll.1.size = 0 ∧ m.invalidateAll.2 = m.size := by
  simp only [Mgr.invalidateAll, Mgr.size, List.map_map]
  constructor
  · induction m.nss with
    | nil => rfl
    | cons p ps ih => simpa [Ns.invalidate, Ns.size] using ih
  · rfl

/-- `stats["size"]` (the sum of the namespace sizes) never exceeds `#namespaces × max`. -/
theorem C15_mgr_size_bound (m : Mgr) (h : Mgr.Inv m) (hm : 0 ≤ m.max) :
    (m.size : Int) ≤ m.nss.length * m.max := by
  have hall : ∀ p ∈ m.nss, (p.2.size : Int) ≤ m.max := by
    intro p hp
    have := h.2 p hp
    exact this.2.1 ▸ this.1.2 (by rw [this.2.1]; exact hm)
  unfold Mgr.size
  generalize m.nss = l at hall
  induction l with
  | nil => simp
  | cons p ps ih =>
    have h1 := hall p (by simp)
    have h2 := ih (fun q hq => hall q (List.mem_cons_of_mem _ hq))
    simp only [List.map_cons, List.sum_cons, List.length_cons] at h2 ⊢
    have e : (((ps.length + 1 : Nat) : Int)) * m.max = (ps.length : Int) * m.max + m.max := by
      rw [Int.natCast_add, Int.add_mul]; simp
    rw [e]; omega

/-- Manager-wide `hits + misses` counts exactly the `get`s. -/
theorem C15_mgr_hits_misses_count (max ttl : Int) (ops : List MOp) :
    (Mgr.run (Mgr.init max ttl) ops).hits + (Mgr.run (Mgr.init max ttl) ops).misses
      = (ops.filter MOp.isGet).length := by
  suffices ∀ m : Mgr, (Mgr.run m ops).hits + (Mgr.run m ops).misses
      = m.hits + m.misses + (ops.filter MOp.isGet).length by
    have := this (Mgr.init max ttl); simpa [Mgr.init] using this
  induction ops with
  | nil => intro m; simp [Mgr.run]
  | cons op ops ih =>
    intro m
    show (Mgr.run (m.step op) ops).hits + (Mgr.run (m.step op) ops).misses = _
    rw [ih]
    cases op <;> simp only [Mgr.step, Mgr.get, Mgr.set, Mgr.invalidateNs, Mgr.invalidateAll,
      List.filter_cons, MOp.isGet]
    · split <;> simp <;> omega
    · split <;> simp
    · split <;> simp
    · simp

/-! ## No completed put is lost -/

/-- One step under the no-loss conditions: the invariant is kept and the visible values change
exactly as the specification `applySets` says. -/
theorem C15_ttl_no_put_lost_step (max : Int) (K : List Nat) (hcap : (K.length : Int) ≤ max)
    (c : Lru) (op : Op) (h : NoLossInv max K c) (hinv : op ≠ .invalidate)
    (hkey : ∀ now k v, op = .set now k v → k ∈ K) :
    NoLossInv max K (c.step op) ∧
    ∀ x, (c.step op).ns.valOf x = applySets c.ns.valOf [op] x := by
  obtain ⟨h1, h2, h3, h4⟩ := h
  cases op with
  | invalidate => exact absurd rfl hinv
  | get now k =>
    have hi := C15_ttl_ns_inv_get c.ns now k h1
    have hs := ns_get_settings c.ns now k
    have hkeys : ∀ e ∈ (c.ns.get now k).1.items, e.key ∈ K := by
      intro e he
      unfold Ns.get at he
      cases hl : lookup k c.ns.items with
      | none => simp only [hl] at he; exact h4 e he
      | some e0 =>
        simp only [hl, h2, expired_ttl0, Bool.false_eq_true, if_false] at he
        rcases List.mem_append.mp he with he | he
        · exact subset_keys_without k h4 e he
        · simp at he; subst he; exact h4 _ (lookup_some hl).1
    have hv : ∀ x, (c.ns.get now k).1.valOf x = c.ns.valOf x := valOf_get_ttl0 c.ns h2 now k
    simp only [Lru.step, Lru.get]
    split <;> exact ⟨⟨hi, by rw [hs.2]; exact h2, by rw [hs.1]; exact h3, hkeys⟩, fun x => by simpa [applySets] using hv x⟩
  | contains now k =>
    have : (c.ns.contains now k).1 = c.ns := by
      unfold Ns.contains
      cases hl : lookup k c.ns.items with
      | none => rfl
      | some e => simp [h2, expired_ttl0]
    simp only [Lru.step, Lru.contains, this]
    exact ⟨⟨h1, h2, h3, h4⟩, fun x => rfl⟩
  | items now =>
    have : c.ns.prune now = c.ns := by
      unfold Ns.prune
      have hf : c.ns.items.filter (fun e => !expired c.ns.ttl now e.ts) = c.ns.items := by
        apply List.filter_eq_self.mpr
        intro e _; simp [h2, expired_ttl0]
      rw [hf]
    simp only [Lru.step, Lru.items, this]
    exact ⟨⟨h1, h2, h3, h4⟩, fun x => rfl⟩
  | set now k v =>
    have hkK := hkey now k v rfl
    -- the list handed to the eviction loop fits: its keys are distinct members of `K`
    have hnd := nodup_reinsert ⟨k, now, v⟩ h1.1
    have hsub : (without k c.ns.items ++ [(⟨k, now, v⟩ : Entry)]).map Entry.key ⊆ K := by
      intro x hx
      simp only [List.map_append, List.map_cons, List.map_nil, List.mem_append, List.mem_map,
        List.mem_singleton] at hx
      rcases hx with ⟨e, he, rfl⟩ | rfl
      · exact subset_keys_without k h4 e he
      · exact hkK
    have hlen := List.Nodup.length_le_of_subset hnd hsub
    simp only [List.length_map, List.length_append, List.length_cons, List.length_nil] at hlen
    have hroom := C15_ttl_set_no_eviction_when_room c.ns now k v (by rw [h3]; omega)
    have hitems : (c.step (.set now k v)).ns.items = without k c.ns.items ++ [⟨k, now, v⟩] := by
      simp only [Lru.step, Lru.set]; split <;> exact hroom.1
    have hset : (c.step (.set now k v)).ns.ttl = 0 ∧ (c.step (.set now k v)).ns.max = max := by
      simp only [Lru.step, Lru.set]; split <;> exact ⟨h2, h3⟩
    have hi := C15_ttl_lru_inv_step c (.set now k v) h1
    refine ⟨⟨hi, hset.1, hset.2, ?_⟩, fun x => ?_⟩
    · intro e he
      rw [hitems] at he
      rcases List.mem_append.mp he with he | he
      · exact subset_keys_without k h4 e he
      · simp at he; subst he; exact hkK
    · simp only [applySets, Ns.valOf, hitems]
      by_cases hx : x = k
      · subst hx
        have := lookup_append_last_self (without x c.ns.items) ⟨x, now, v⟩ (lookup_without_self _ _)
        simp only at this
        rw [this]; simp
      · rw [lookup_append_last_ne _ _ (fun h => hx h.symm), lookup_without_ne hx]
        simp [hx]

/-- **No completed put is lost** (sequential core; `Clem/Props/C15/Wrappers.lean` lifts it to every
schedule of the lock wrappers).  TTL off, no `invalidate`, and a cap that is at least the number of
distinct keys ever written: after *any* operation sequence every key holds exactly the value of
the last `set` on it (`applySets` = "last write wins, nothing else changes values"). -/
theorem C15_ttl_no_put_lost (max : Int) (K : List Nat) (hcap : (K.length : Int) ≤ max)
    (ops : List Op) (hinv : ∀ op ∈ ops, op ≠ .invalidate)
    (hkey : ∀ op ∈ ops, ∀ now k v, op = .set now k v → k ∈ K) (x : Nat) :
    (Lru.run (Lru.init max 0) ops).ns.valOf x = applySets (fun _ => none) ops x := by
  suffices ∀ c : Lru, NoLossInv max K c →
      (Lru.run c ops).ns.valOf x = applySets c.ns.valOf ops x by
    have h0 : NoLossInv max K (Lru.init max 0) :=
      ⟨C15_ttl_ns_inv_init max 0, rfl, rfl, by simp [Lru.init, Ns.init]⟩
    have hv : (Lru.init max 0).ns.valOf = fun _ => none := by
      funext y; simp [Lru.init, Ns.init, Ns.valOf, lookup]
    rw [← hv]; exact this _ h0
  induction ops with
  | nil => intro c _; rfl
  | cons op ops ih =>
    intro c hc
    obtain ⟨h1, h2⟩ := C15_ttl_no_put_lost_step max K hcap c op hc
      (hinv op (by simp)) (hkey op (by simp))
    have := ih (fun o ho => hinv o (List.mem_cons_of_mem _ ho))
      (fun o ho => hkey o (List.mem_cons_of_mem _ ho)) (c.step op) h1
    show (Lru.run (c.step op) ops).ns.valOf x = _
    rw [this]
    have hf : (c.step op).ns.valOf = applySets c.ns.valOf [op] := funext h2
    rw [hf]
    cases op <;> rfl

/-- Non-vacuity: three keys, cap 3, interleaved reads — the last write of each key is visible. -/
example :
    let ops : List Op := [.set 0 1 10, .set 1 2 20, .get 2 1, .set 3 1 11, .set 4 3 30, .contains 5 2]
    applySets (fun _ => none) ops 1 = some 11 ∧
    (Lru.run (Lru.init 3 0) ops).ns.valOf 1 = some 11 ∧ (Lru.run (Lru.init 3 0) ops).ns.valOf 2 = some 20 := by
  decide

/-! ## Non-vacuity -/

/-- TTL 5: written at 0, still served at 5, expired (and removed) at 6. -/
example :
    let c := Lru.run (Lru.init 3 5) [.set 0 1 10]
    (c.get 5 1).2 = some 10 ∧ (c.get 6 1).2 = none ∧ (c.get 6 1).1.ns.items = [] := by decide

/-- Cap 2: the third key evicts the oldest; a `get` in between changes who is oldest. -/
example :
    (Lru.run (Lru.init 2 0) [.set 0 1 10, .set 0 2 20, .get 1 1, .set 2 3 30]).ns.items.map Entry.key = [1, 3] ∧
    (Lru.run (Lru.init 2 0) [.set 0 1 10, .set 0 2 20, .get 1 1, .set 2 3 30]).evicted = 1 := by decide

/-- Two namespaces with cap 1 hold one entry each. -/
example :
    let m := Mgr.run (Mgr.init 1 0) [.set 0 0 1 10, .set 1 0 1 11, .set 0 1 2 20]
    m.size = 2 ∧ (m.get 0 2 2).2 = some 20 ∧ (m.get 1 2 1).2 = some 11 ∧ (m.get 0 2 1).2 = none ∧
    m.invB = true := by decide

end Clem.TtlLru
