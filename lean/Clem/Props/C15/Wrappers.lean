import Clem.Gen.Locks
import Clem.Props.C15.LruBytes
import Clem.Props.C15.TtlLru
import Clem.Props.C15.Sched

/-!
# C15 — lock wrappers `ThreadSafeCache` / `ThreadSafeBytesCache`

1. Structural obligation, regenerated from the AST of `clematis/engine/cache.py` on every check
   (`Clem/Gen/Locks.lean`) and decided by the kernel: every wrapper method is, in its entirety, one
   `with self._lock:` block around the inner call; the lock is an `RLock` fixed at construction.
   Under mutual exclusion of `RLock` (trusted) a wrapper call is therefore one atomic step of the
   wrapped container.
2. Consequences via `Clem.Sched`: the reachable states of `n` threads are the sequential results of
   the interleavings, so the capacity / accounting invariants hold under **every** schedule, no
   operation is lost, and a completed `put` is visible.
-/

namespace Clem.Wrappers

open Clem.Sched

/-- Every method of both wrappers holds the lock over its whole body; none of the expected methods
(`get`, `put`, `__contains__`, `items`) is missing; `__init__` installs the caller's lock or a fresh
`RLock`; no method rebinds the lock or the wrapped cache. -/
theorem C15_wrappers_whole_body_locked :
    Clem.Gen.Locks.table.all (fun r => r.2.2) = true ∧
    Clem.Gen.Locks.table.length ≥ 8 ∧
    Clem.Gen.Locks.missing.isEmpty = true ∧
    Clem.Gen.Locks.initCreatesRLock = true ∧
    Clem.Gen.Locks.rebindsLockOrInner = false := by decide

/-- `ThreadSafeBytesCache(LRUBytes)`: under every schedule of every family of thread programs the
cache stays within both caps, accounts bytes exactly and holds each key once — at every
intermediate point, not only at the end. -/
theorem C15_wrapper_lrubytes_inv_all_schedules (maxE maxB : Nat)
    (ps ps' : List (List Clem.LruBytes.Op)) (s' : Clem.LruBytes.State)
    (hr : Reach Clem.LruBytes.step (Clem.LruBytes.init maxE maxB) ps s' ps') :
    Clem.LruBytes.Inv s' :=
  C15_sched_invariant_all_schedules Clem.LruBytes.step Clem.LruBytes.Inv
    Clem.LruBytes.C15_lrubytes_inv_step (Clem.LruBytes.C15_lrubytes_inv_init maxE maxB) hr

/-- `ThreadSafeCache(LRUCache)`: same for the TTL LRU (any cap, any TTL, any clock readings). -/
theorem C15_wrapper_ttl_inv_all_schedules (max ttl : Int)
    (ps ps' : List (List Clem.TtlLru.Op)) (c' : Clem.TtlLru.Lru)
    (hr : Reach Clem.TtlLru.Lru.step (Clem.TtlLru.Lru.init max ttl) ps c' ps') :
    Clem.TtlLru.Ns.Inv c'.ns :=
  C15_sched_invariant_all_schedules Clem.TtlLru.Lru.step (fun c => Clem.TtlLru.Ns.Inv c.ns)
    Clem.TtlLru.C15_ttl_lru_inv_step (Clem.TtlLru.C15_ttl_ns_inv_init max ttl) hr

/-- The final state of a completed concurrent run of the wrapped `LRUBytes` is the sequential
result of an interleaving `m` in which every thread's operations appear exactly once and in
program order (nothing lost, nothing torn). -/
theorem C15_wrapper_lrubytes_linearizable (maxE maxB : Nat)
    (ps ps' : List (List Clem.LruBytes.Op)) (s' : Clem.LruBytes.State)
    (hr : Reach Clem.LruBytes.step (Clem.LruBytes.init maxE maxB) ps s' ps')
    (hd : ∀ p ∈ ps', p = []) :
    ∃ m, s' = Clem.LruBytes.run (Clem.LruBytes.init maxE maxB) m ∧ m.Perm ps.flatten ∧
      ∀ p ∈ ps, p.Sublist m := by
  obtain ⟨m, hm, he⟩ := (C15_sched_linearizable Clem.LruBytes.step _ s' ps).mp ⟨ps', hr, hd⟩
  exact ⟨m, he, C15_sched_interleave_perm hm, C15_sched_interleave_sublist hm⟩

/-- Same for the wrapped TTL LRU. -/
theorem C15_wrapper_ttl_linearizable (max ttl : Int)
    (ps ps' : List (List Clem.TtlLru.Op)) (c' : Clem.TtlLru.Lru)
    (hr : Reach Clem.TtlLru.Lru.step (Clem.TtlLru.Lru.init max ttl) ps c' ps')
    (hd : ∀ p ∈ ps', p = []) :
    ∃ m, c' = Clem.TtlLru.Lru.run (Clem.TtlLru.Lru.init max ttl) m ∧ m.Perm ps.flatten ∧
      ∀ p ∈ ps, p.Sublist m := by
  obtain ⟨m, hm, he⟩ := (C15_sched_linearizable Clem.TtlLru.Lru.step _ c' ps).mp ⟨ps', hr, hd⟩
  exact ⟨m, he, C15_sched_interleave_perm hm, C15_sched_interleave_sublist hm⟩

/-- **No completed put is lost under threads.**  `ThreadSafeCache(LRUCache)` with TTL off, no
`invalidate`, and room for every key the threads ever write (`K`): whatever the schedule, at the end
every key holds the value of the last `set` on it in the linearization `m` — an interleaving that
contains each thread's operations exactly once and in program order. -/
theorem C15_wrapper_no_put_lost (max : Int) (K : List Nat) (hcap : (K.length : Int) ≤ max)
    (ps ps' : List (List Clem.TtlLru.Op)) (c' : Clem.TtlLru.Lru)
    (hinv : ∀ p ∈ ps, ∀ op ∈ p, op ≠ Clem.TtlLru.Op.invalidate)
    (hkey : ∀ p ∈ ps, ∀ op ∈ p, ∀ now k v, op = Clem.TtlLru.Op.set now k v → k ∈ K)
    (hr : Reach Clem.TtlLru.Lru.step (Clem.TtlLru.Lru.init max 0) ps c' ps')
    (hd : ∀ p ∈ ps', p = []) :
    ∃ m, m.Perm ps.flatten ∧ (∀ p ∈ ps, p.Sublist m) ∧
      ∀ x, c'.ns.valOf x = Clem.TtlLru.applySets (fun _ => none) m x := by
  obtain ⟨m, he, hperm, hsub⟩ := C15_wrapper_ttl_linearizable max 0 ps ps' c' hr hd
  refine ⟨m, hperm, hsub, fun x => ?_⟩
  have hmem : ∀ op ∈ m, ∃ p ∈ ps, op ∈ p := by
    intro op hop
    have := hperm.mem_iff.mp hop
    simpa [List.mem_flatten] using this
  rw [he]
  apply Clem.TtlLru.C15_ttl_no_put_lost max K hcap m
  · intro op hop; obtain ⟨p, hp, hopp⟩ := hmem op hop; exact hinv p hp op hopp
  · intro op hop; obtain ⟨p, hp, hopp⟩ := hmem op hop; exact hkey p hp op hopp

/-- Non-vacuity: two threads on a wrapped `LRUBytes`, one concrete schedule. -/
example :
    let ps : List (List Clem.LruBytes.Op) := [[.put 1 10 2, .get 1], [.put 2 20 2]]
    Clem.LruBytes.invB (Clem.LruBytes.run (Clem.LruBytes.init 1 0) (applySchedule ps [0, 1, 0])) = true ∧
    (Clem.LruBytes.run (Clem.LruBytes.init 1 0) (applySchedule ps [0, 1, 0])).items.map (·.key) = [2] := by
  decide

end Clem.Wrappers
