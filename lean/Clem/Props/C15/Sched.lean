import Clem.Proofs.CacheMerge

/-!
# C15 — lock wrappers: concurrent executions are interleavings of atomic steps

Generic in the container (`σ`, `step`).  `Clem/Props/C15/Wrappers.lean` instantiates these with the
cache models and discharges the structural obligation "every wrapper method runs entirely under the
lock" from the regenerated table.
-/

namespace Clem.Sched

variable {σ α : Type}

/-- **Linearizability.**  With every operation one atomic step, the final states reachable by the
threads are exactly the results of running some interleaving of their operation lists sequentially. -/
theorem C15_sched_linearizable (step : σ → α → σ) (s s' : σ) (ps : List (List α)) :
    (∃ ps', Reach step s ps s' ps' ∧ ∀ p ∈ ps', p = []) ↔
    ∃ m, Interleave ps m ∧ s' = m.foldl step s := by
  constructor
  · rintro ⟨ps', hr, hd⟩
    induction hr with
    | refl => exact ⟨[], Interleave.done hd, rfl⟩
    | head hp _ ih =>
      obtain ⟨m, hm, he⟩ := ih hd
      exact ⟨_ :: m, Interleave.pick hp hm, by simpa using he⟩
  · rintro ⟨m, hm, he⟩
    subst he
    induction hm generalizing s with
    | done hd => exact ⟨_, Reach.refl, hd⟩
    | pick hp _ ih =>
      obtain ⟨ps', hr, hd⟩ := ih (step s _)
      exact ⟨ps', Reach.head hp hr, hd⟩

/-- Every sequential invariant holds at every point of every schedule. -/
theorem C15_sched_invariant_all_schedules (step : σ → α → σ) (P : σ → Prop)
    (hstep : ∀ s a, P s → P (step s a)) {s s' : σ} {ps ps' : List (List α)}
    (h : P s) (hr : Reach step s ps s' ps') : P s' := by
  induction hr with
  | refl => exact h
  | head _ _ ih => exact ih (hstep _ _ h)

/-- No operation is lost or duplicated: an interleaving is a permutation of all threads' operations. -/
theorem C15_sched_interleave_perm {ps : List (List α)} {m : List α} (h : Interleave ps m) :
    m.Perm ps.flatten := by
  induction h with
  | done hd => rw [flatten_nil_of_done hd]
  | pick hp _ ih => exact (List.Perm.cons _ ih).trans (pop_flatten_perm hp).symm

/-- Program order is kept: every thread's operation list is a subsequence of the interleaving. -/
theorem C15_sched_interleave_sublist {ps : List (List α)} {m : List α} (h : Interleave ps m) :
    ∀ p ∈ ps, p.Sublist m := by
  induction h with
  | done hd => intro p hp; rw [hd p hp]
  | pick hpop _ ih =>
    intro p hp
    rcases pop_threads hpop p hp with h1 | ⟨p', h1, rfl⟩
    · exact List.Sublist.cons _ (ih p h1)
    · exact List.Sublist.cons_cons _ (ih p' h1)

/-- The executable schedule applier used by the driver/harness yields an interleaving whenever the
schedule runs every thread to completion. -/
theorem C15_sched_applySchedule_interleave (ps : List (List α)) (sched : List Nat)
    (h : ∀ p ∈ remaining ps sched, p = []) : Interleave ps (applySchedule ps sched) := by
  induction sched generalizing ps with
  | nil => exact Interleave.done h
  | cons i is ih =>
    simp only [applySchedule, remaining] at h ⊢
    cases hp : pop ps i with
    | none => simp only [hp] at h ⊢; exact ih ps h
    | some r =>
      obtain ⟨a, ps'⟩ := r
      simp only [hp] at h ⊢
      exact Interleave.pick hp (ih ps' h)

/-- Interleavings exist for every family of thread programs (the statements above are not vacuous). -/
theorem C15_sched_interleave_exists (ps : List (List α)) : ∃ m, Interleave ps m := by
  suffices ∀ n, ∀ ps : List (List α), ps.flatten.length = n → ∃ m, Interleave ps m from this _ ps rfl
  intro n
  induction n with
  | zero =>
    intro ps h
    refine ⟨[], Interleave.done ?_⟩
    intro p hp
    have : ps.flatten = [] := List.eq_nil_of_length_eq_zero h
    have hsub : p.length ≤ ps.flatten.length := by
      have := List.sublist_flatten_of_mem hp
      exact this.length_le
    rw [this] at hsub
    exact List.eq_nil_of_length_eq_zero (by simpa using hsub)
  | succ n ih =>
    intro ps h
    have hnd : ¬ ∀ p ∈ ps, p = [] := by
      intro hall; rw [flatten_nil_of_done hall] at h; simp at h
    obtain ⟨i, a, ps', hp⟩ := pop_some_of_not_done ps hnd
    have hl := (pop_flatten_perm hp).length_eq
    obtain ⟨m, hm⟩ := ih ps' (by simp only [List.length_cons] at hl; omega)
    exact ⟨a :: m, Interleave.pick hp hm⟩

/-- Two threads, one schedule. -/
example : applySchedule [[1, 2], [10]] [0, 1, 0] = [1, 10, 2] ∧
    remaining [[1, 2], [10]] [0, 1, 0] = [[], []] := by decide

end Clem.Sched
