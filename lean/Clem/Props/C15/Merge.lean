import Clem.Proofs.CacheMerge

/-!
# C15 — `merge_caches_deterministic` is deterministic in worker order and key order

Theorems about `Clem/Model/CacheMerge.lean` (the definitions the driver runs against
`clematis/engine/cache.py:merge_caches_deterministic`).  They hold for **every** target cache
(`TargetOps σ` is arbitrary: bounded, TTL-pruning, recency-touching …) and both conflict modes.
-/

namespace Clem.CacheMerge

open Clem.Py

/-- The visiting sequence does not depend on the order in which the workers are listed, provided
their order keys are pairwise distinct. -/
theorem C15_merge_seq_worker_order (ws ws' : List Worker) (hp : ws.Perm ws')
    (hd : ∀ a ∈ ws, ∀ b ∈ ws, a.ord = b.ord → a = b) : mergeSeq ws = mergeSeq ws' := by
  unfold mergeSeq
  have : isort workerLe ws = isort workerLe ws' := by
    apply isort_perm_invariant workerLe workerLe_total workerLe_trans hp
    intro a ha b hb hab hba
    simp only [workerLe, decide_eq_true_eq] at hab hba
    exact hd a ha b hb (by omega)
  rw [this]

/-- **Deterministic in worker order**: for every target cache, start state and conflict mode the
merged cache (and whether `assert_equal` raises) is independent of the listing order of workers
with distinct order keys. -/
theorem C15_merge_deterministic_worker_order {σ : Type} (T : TargetOps σ) (assertEq : Bool) (t : σ)
    (ws ws' : List Worker) (hp : ws.Perm ws')
    (hd : ∀ a ∈ ws, ∀ b ∈ ws, a.ord = b.ord → a = b) :
    merge T assertEq t ws = merge T assertEq t ws' := by
  unfold merge; rw [C15_merge_seq_worker_order ws ws' hp hd]

/-- The visiting sequence does not depend on each worker's internal (dict) order: relabel every
worker by `g` that keeps its order key and permutes its items; if the items' order keys are
pairwise distinct within each worker the sequence is unchanged. -/
theorem C15_merge_seq_item_order (ws : List Worker) (g : Worker → Worker)
    (hg : ∀ w, (g w).ord = w.ord ∧ (g w).items.Perm w.items)
    (hd : ∀ w ∈ ws, ∀ a ∈ w.items, ∀ b ∈ w.items, a.ord = b.ord → a = b) :
    mergeSeq (ws.map g) = mergeSeq ws := by
  unfold mergeSeq
  rw [isort_map g (fun w => (hg w).1), List.flatMap_map]
  apply List.flatMap_congr
  intro w hw
  have hw' : w ∈ ws := (mem_isort workerLe).mp hw
  exact (isort_items_perm (hg w).2.symm (hd w hw')).symm

/-- **Deterministic in key order**: the merged cache is independent of every worker's internal
item order (distinct key-order keys). -/
theorem C15_merge_deterministic_item_order {σ : Type} (T : TargetOps σ) (assertEq : Bool) (t : σ)
    (ws : List Worker) (g : Worker → Worker)
    (hg : ∀ w, (g w).ord = w.ord ∧ (g w).items.Perm w.items)
    (hd : ∀ w ∈ ws, ∀ a ∈ w.items, ∀ b ∈ w.items, a.ord = b.ord → a = b) :
    merge T assertEq t (ws.map g) = merge T assertEq t ws := by
  unfold merge; rw [C15_merge_seq_item_order ws g hg hd]

/-- Every worker item is visited exactly once. -/
theorem C15_merge_seq_perm (ws : List Worker) : (mergeSeq ws).Perm (ws.flatMap (·.items)) := by
  unfold mergeSeq
  have h2 : ∀ l : List Worker, (l.flatMap (fun w => isort itemLe w.items)).Perm (l.flatMap (·.items)) := by
    intro l
    induction l with
    | nil => exact List.Perm.refl _
    | cons w l ih =>
      simp only [List.flatMap_cons]
      exact List.Perm.append (isort_perm itemLe w.items) ih
  exact (List.Perm.flatMap_right _ (isort_perm workerLe ws)).trans (h2 ws)

/-- Workers are visited in non-decreasing order-key order. -/
theorem C15_merge_workers_sorted (ws : List Worker) :
    (isort workerLe ws).Pairwise (fun a b => a.ord ≤ b.ord) := by
  have := isort_pairwise workerLe workerLe_total workerLe_trans ws
  exact this.imp (fun h => by simpa [workerLe] using h)

/-- `first_wins` on a plain dict target never raises, and the surviving value of every key is
the target's own value if it had one, else the value of the first item (in visiting order) that
carries the key. -/
theorem C15_merge_first_wins (t : List (Nat × Nat)) (ws : List Worker) (k : Nat) :
    (merge dictOps false t ws).2 = false ∧
    dlookup k (merge dictOps false t ws).1
      = dlookup k (t ++ (mergeSeq ws).map (fun it => (it.key, it.val))) := by
  unfold merge mergeItems
  generalize mergeSeq ws = its
  induction its generalizing t with
  | nil => simp
  | cons it its ih =>
    simp only [List.foldl_cons, List.map_cons]
    by_cases hc : t.any (fun e => e.1 == it.key) = true
    · have hs : mergeStep dictOps false (t, false) it = (t, false) := by
        simp [mergeStep, dictOps, hc]
      rw [hs, dlookup_skip_dup k it.key it.val t _ hc]
      exact ih t
    · have hc' : t.any (fun e => e.1 == it.key) = false := Bool.eq_false_iff.mpr hc
      have hs : mergeStep dictOps false (t, false) it = (t ++ [(it.key, it.val)], false) := by
        simp [mergeStep, dictOps, hc']
      rw [hs]
      have := ih (t ++ [(it.key, it.val)])
      simpa [List.append_assoc] using this

/-- Any invariant of the target cache (capacity bound, unique keys …) that its own operations
preserve also holds after the merge — including when `assert_equal` raises half-way. -/
theorem C15_merge_preserves_invariant {σ : Type} (T : TargetOps σ) (P : σ → Prop)
    (hc : ∀ s k, P s → P (T.contains s k).1) (hg : ∀ s k, P s → P (T.get s k).1)
    (hp : ∀ s k v, P s → P (T.put s k v)) (assertEq : Bool) (t : σ) (ws : List Worker) (h : P t) :
    P (merge T assertEq t ws).1 := by
  unfold merge mergeItems
  generalize mergeSeq ws = its
  suffices ∀ acc : σ × Bool, P acc.1 → P (its.foldl (mergeStep T assertEq) acc).1 from this (t, false) h
  induction its with
  | nil => intro acc h; exact h
  | cons it its ih =>
    intro acc h
    apply ih
    unfold mergeStep
    by_cases h2 : acc.2 = true
    · rw [if_pos h2]; exact h
    · rw [if_neg h2]
      simp only
      by_cases h3 : (T.contains acc.1 it.key).2 = true
      · rw [if_pos h3]
        by_cases h4 : assertEq = true
        · rw [if_pos h4]; exact hg _ _ (hc _ _ h)
        · rw [if_neg h4]; exact hc _ _ h
      · rw [if_neg h3]; exact hp _ _ _ (hc _ _ h)

/-! Non-vacuity: two workers listed in both orders, conflicting on key 1 — first (by order key)
wins; `assert_equal` raises on the same conflict. -/
example :
    let w1 : Worker := ⟨1, [⟨5, 1, 10⟩, ⟨2, 2, 20⟩]⟩
    let w2 : Worker := ⟨0, [⟨5, 1, 11⟩]⟩
    (merge dictOps false [] [w1, w2]).1 = [(1, 11), (2, 20)] ∧
    (merge dictOps false [] [w2, w1]).1 = [(1, 11), (2, 20)] ∧
    (merge dictOps true [] [w1, w2]).2 = true := by decide

end Clem.CacheMerge
