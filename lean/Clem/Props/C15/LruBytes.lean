import Clem.Proofs.LruBytes

/-!
# C15 — `LRUBytes` (entry- and byte-bounded LRU)

Property theorems only (helper lemmas live in `Clem/Proofs/*`).  Every theorem is
about the executable definitions in `Clem/Model/LruBytes.lean` that the driver runs against
`clematis/engine/util/lru_bytes.py`.
-/

namespace Clem.LruBytes

/-- The empty cache satisfies the invariant. -/
theorem C15_lrubytes_inv_init (maxE maxB : Nat) : Inv (init maxE maxB) := by
  simp [Inv, init]

/-- `get` preserves the invariant (capacity, exact byte accounting, unique keys). -/
theorem C15_lrubytes_inv_get (s : State) (k : Nat) (h : Inv s) : Inv (get s k).1 := by
  unfold get
  split
  · exact h
  · rename_i e he
    obtain ⟨h1, h2, h3, h4, h5⟩ := h
    have hmem := List.mem_of_find?_eq_some he
    have hkey : e.key = k := by simpa using List.find?_some he
    have hs := sumCost_without_some h1 he
    have hl := length_without_some he
    refine ⟨?_, ?_, ?_, ?_, ?_⟩
    · simp only [List.map_append, List.map_cons, List.map_nil]
      rw [List.nodup_append]
      refine ⟨without_keys_nodup k h1, by simp, ?_⟩
      intro a ha b hb
      simp at hb; subst hb
      intro hab; subst hab
      rw [hkey] at ha
      exact not_mem_without k _ ha
    · simp only [sumCost_append, sumCost_cons, sumCost_nil]; omega
    · intro hp; have := h3 hp; simp; omega
    · exact h4
    · intro hd; have := h5 hd; simp [this] at hmem

/-- A key that is accepted by `put` is never among the entries evicted by that `put`:
the list handed to the loop ends with it and the loop stops before consuming it. -/
theorem evictLoop_keeps_last (maxE maxB : Nat) (p : List Entry) (x : Entry)
    (hx : 0 < maxB → x.cost ≤ maxB) :
    (evictLoop maxE maxB (p ++ [x]) (sumCost (p ++ [x]) : Int)).1 ≠ [] := by
  induction p with
  | nil =>
    simp only [List.nil_append, evictLoop]
    split
    · rename_i hc
      rcases hc with ⟨h1, h2⟩ | ⟨h1, h2⟩
      · simp at h2; omega
      · have := hx h1; simp at h2; omega
    · simp
  | cons a p ih =>
    simp only [List.cons_append, evictLoop]
    split
    · have : ((sumCost (a :: (p ++ [x])) : Nat) : Int) - (a.cost : Int)
          = ((sumCost (p ++ [x]) : Nat) : Int) := by
        simp only [sumCost_cons]; omega
      rw [this]; exact ih
    · simp

/-- `put` preserves the invariant. -/
theorem C15_lrubytes_inv_put (s : State) (k v : Nat) (c : Int) (h : Inv s) :
    Inv (put s k v c).1 := by
  unfold put
  by_cases hen : s.maxE = 0 ∧ s.maxB = 0
  · rw [if_pos hen]; exact h
  · rw [if_neg hen]
    by_cases hrej : 0 < s.maxB ∧ s.maxB < c.toNat
    · simp only [if_pos hrej]; exact h
    · simp only [if_neg hrej]
      obtain ⟨h1, h2, h3, h4, h5⟩ := h
      -- the list handed to the loop and its byte total
      have hnd : ((without k s.items ++ [(⟨k, v, c.toNat⟩ : Entry)]).map Entry.key).Nodup := by
        simp only [List.map_append, List.map_cons, List.map_nil]
        rw [List.nodup_append]
        refine ⟨without_keys_nodup k h1, by simp, ?_⟩
        intro a ha b hb
        simp at hb; subst hb
        intro hab; subst hab
        exact not_mem_without _ _ ha
      have htot := bytesWithout_add k v c.toNat h1 h2
      rw [htot]
      have hspec := evictLoop_spec s.maxE s.maxB (without k s.items ++ [⟨k, v, c.toNat⟩])
        ((sumCost (without k s.items ++ [⟨k, v, c.toNat⟩]) : Nat) : Int)
      have hlast := evictLoop_keeps_last s.maxE s.maxB (without k s.items) ⟨k, v, c.toNat⟩
        (by intro hp; simp only [not_and, Nat.not_lt] at hrej; exact hrej hp)
      simp only at hspec
      generalize evictLoop s.maxE s.maxB (without k s.items ++ [⟨k, v, c.toNat⟩])
        ((sumCost (without k s.items ++ [⟨k, v, c.toNat⟩]) : Nat) : Int) = r at hspec hlast
      obtain ⟨e1, e2, e3⟩ := hspec
      have e3' := e3 hlast
      refine ⟨?_, ?_, ?_, ?_, ?_⟩
      · rw [e1, List.map_append, List.nodup_append] at hnd
        exact hnd.2.1
      · simp only; rw [e2, e1]; simp only [sumCost_append]; omega
      · exact e3'.1
      · exact e3'.2
      · intro hd; exact absurd hd hen

theorem C15_lrubytes_inv_clear (s : State) : Inv (clear s) := by
  simp [Inv, clear]

theorem C15_lrubytes_inv_step (s : State) (op : Op) (h : Inv s) : Inv (step s op) := by
  cases op with
  | get k => exact C15_lrubytes_inv_get s k h
  | put k v c => exact C15_lrubytes_inv_put s k v c h
  | clear => exact C15_lrubytes_inv_clear s

/-- **Every reachable state** (any caps, any operation sequence, any length) is within
its entry cap and its byte cap, accounts bytes exactly and holds each key once. -/
theorem C15_lrubytes_inv_reachable (maxE maxB : Nat) (ops : List Op) :
    Inv (run (init maxE maxB) ops) := by
  suffices ∀ s, Inv s → Inv (run s ops) from this _ (C15_lrubytes_inv_init _ _)
  induction ops with
  | nil => intro s h; exact h
  | cons op ops ih => intro s h; exact ih _ (C15_lrubytes_inv_step s op h)

/-- The Boolean monitor the harness evaluates on the implementation's observable
state is the invariant. -/
theorem C15_lrubytes_monitor_iff (s : State) : invB s = true ↔ Inv s := by
  unfold invB Inv
  simp only [Bool.and_eq_true, decide_eq_true_eq, Bool.or_eq_true, beq_iff_eq,
    Bool.not_eq_true', Bool.and_eq_false_iff, List.isEmpty_iff]
  constructor
  · rintro ⟨⟨⟨⟨a, b⟩, c⟩, d⟩, e⟩
    refine ⟨a, b, fun h => ?_, fun h => ?_, fun h => ?_⟩
    · rcases c with c | c <;> omega
    · rcases d with d | d <;> omega
    · rcases e with e | e
      · rcases e with e | e
        · simp [h.1] at e
        · simp [h.2] at e
      · exact e
  · rintro ⟨a, b, c, d, e⟩
    refine ⟨⟨⟨⟨a, b⟩, ?_⟩, ?_⟩, ?_⟩
    · by_cases h : s.maxE = 0
      · exact Or.inl h
      · exact Or.inr (c (by omega))
    · by_cases h : s.maxB = 0
      · exact Or.inl h
      · exact Or.inr (d (by omega))
    · by_cases h : s.maxE = 0 ∧ s.maxB = 0
      · exact Or.inr (e h)
      · left
        by_cases h1 : s.maxE = 0
        · right; simp; intro h2; exact h ⟨h1, h2⟩
        · left; simpa using h1

/-- Eviction is strictly LRU-first: the evicted entries are a *prefix* of the
recency order (with the written key moved to the MRU end), the survivors are the
rest in unchanged order, and the reported totals are those of exactly that prefix. -/
theorem C15_lrubytes_evicts_lru_prefix (s : State) (k v : Nat) (c : Int)
    (hen : ¬(s.maxE = 0 ∧ s.maxB = 0)) (hfit : ¬(0 < s.maxB ∧ s.maxB < c.toNat)) :
    without k s.items ++ [⟨k, v, c.toNat⟩] = (put s k v c).2 ++ (put s k v c).1.items := by
  unfold put
  simp only [if_neg hen, if_neg hfit]
  exact (evictLoop_spec _ _ _ _).1

/-- The key just written is never evicted by its own `put` (Inv gives the byte total). -/
theorem C15_lrubytes_put_keeps_key (s : State) (k v : Nat) (c : Int) (h : Inv s)
    (hen : ¬(s.maxE = 0 ∧ s.maxB = 0)) (hfit : ¬(0 < s.maxB ∧ s.maxB < c.toNat)) :
    lookup k (put s k v c).1.items = some ⟨k, v, c.toNat⟩ := by
  have hpre := C15_lrubytes_evicts_lru_prefix s k v c hen hfit
  have hinv := C15_lrubytes_inv_put s k v c h
  -- the survivors are a non-empty suffix of `without k items ++ [new]`
  have hne : (put s k v c).1.items ≠ [] := by
    unfold put
    simp only [if_neg hen, if_neg hfit]
    obtain ⟨h1, h2, -⟩ := h
    have htot := bytesWithout_add k v c.toNat h1 h2
    rw [htot]
    exact evictLoop_keeps_last _ _ _ _
      (by intro hp; simp only [not_and, Nat.not_lt] at hfit; exact hfit hp)
  -- so the last element of the survivors is the new entry, and keys are unique
  have hlast : ⟨k, v, c.toNat⟩ ∈ (put s k v c).1.items := by
    have hl := congrArg List.getLast? hpre
    simp only [List.getLast?_append, List.getLast?_singleton, Option.some_or] at hl
    cases hg : (put s k v c).1.items.getLast? with
    | none => exact absurd (List.getLast?_eq_none_iff.mp hg) hne
    | some x =>
      rw [hg] at hl; simp at hl; subst hl
      exact List.mem_of_getLast? hg
  obtain ⟨hnd, -⟩ := hinv
  unfold lookup
  generalize (put s k v c).1.items = l at hnd hlast
  induction l with
  | nil => simp at hlast
  | cons a t ih =>
    simp only [List.map_cons, List.nodup_cons] at hnd
    rcases List.mem_cons.mp hlast with rfl | hm
    · simp
    · have hak : a.key ≠ k := by
        intro hak; apply hnd.1; rw [hak]
        exact List.mem_map.mpr ⟨_, hm, rfl⟩
      simp [hak]
      exact ih hnd.2 hm

/-- Oversized items are rejected and leave the cache exactly as it was. -/
theorem C15_lrubytes_rejects_oversized (s : State) (k v : Nat) (c : Int)
    (h : 0 < s.maxB ∧ s.maxB < c.toNat) : put s k v c = (s, []) := by
  unfold put; split
  · rfl
  · simp only [if_pos h]

/-- Both caps zero ⇒ the cache is disabled: no operation sequence changes it and
every `get` misses. -/
theorem C15_lrubytes_disabled (ops : List Op) (k : Nat) :
    run (init 0 0) ops = init 0 0 ∧ (get (run (init 0 0) ops) k).2 = none := by
  have h : run (init 0 0) ops = init 0 0 := by
    suffices ∀ s, s = init 0 0 → run s ops = init 0 0 from this _ rfl
    induction ops with
    | nil => intro s h; exact h
    | cons op ops ih =>
      intro s h; subst h
      apply ih
      cases op <;> simp [step, get, put, clear, init, lookup]
  rw [h]; exact ⟨rfl, by simp [get, init, lookup]⟩

/-- Non-vacuity: a concrete sequence reaches a full cache, evicts the LRU entry on
the next `put`, and the invariant's premises are met by a non-trivial state. -/
example :
    let s := run (init 2 10) [.put 1 5 4, .put 2 6 4, .get 1]
    s.items.map Entry.key = [2, 1] ∧ (put s 3 7 4).2 = [⟨2, 6, 4⟩] ∧
    (put s 3 7 4).1.items.map Entry.key = [1, 3] ∧ invB (put s 3 7 4).1 = true := by
  decide

end Clem.LruBytes
