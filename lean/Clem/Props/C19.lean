import Clem.Proofs.ReflTail
import Clem.Gen.ReflTail

/-!
# C19 — Reflection is gated, budgeted and cannot disturb the turn

Property theorems about the executable model `Clem/Model/Refl.lean` (the definitions the driver runs
against `run_turn`).  `tail true` is the reflection tail of `run_turn` *with the proposed repair*
(`proposed_fixes/C19_clear_stale_reflection_stash.diff`: the stash a previous turn left on a reused
ctx is dropped before the gate call); `tail false` is the tail as found, for which the gate clause
is refuted by `C19_gate_fails_legacy` and holds only on a ctx without a stale stash
(`C19_gate_legacy_partial`).
-/

namespace Clem.Refl

/-! ## 1. Gate -/

/-- **Refl_gate.** Gate closed (not allowed ∨ not requested ∨ dry run) ⇒ `reflect` is not called,
nothing is handed to the index and no `t3_reflection` record is emitted — for *every* ctx state,
including one that still carries the result of an earlier turn. -/
theorem C19_gate (c : CtxSt) (t : TurnIn) (o : Oracles) (h : gateOpen t = false) :
    (tail true c t o).2.called = false ∧ (tail true c t o).2.written = [] ∧
      (tail true c t o).2.log = none := by
  have hg := gateCall_closed t o h
  unfold tail stashAfter
  split
  · exact ⟨rfl, rfl, rfl⟩
  · simp [hg, tailOut]

/-- The gate monitor (the Boolean the driver evaluates on implementation observations). -/
def gateOk (x : (TurnIn × Oracles) × TurnOut) : Bool :=
  monGate x.1.1 x.2.called x.2.written.length x.2.log.isSome

theorem C19_gate_monitor (c : CtxSt) (t : TurnIn) (o : Oracles) :
    gateOk ((t, o), (tail true c t o).2) = true := by
  unfold gateOk monGate
  cases h : gateOpen t with
  | true => simp
  | false =>
    obtain ⟨h1, h2, h3⟩ := C19_gate c t o h
    simp [h1, h2, h3]

/-- **Refl_gate over histories**: along any sequence of turns, on a reused or a fresh ctx, starting
from any ctx state, every gated-off turn is inert. -/
theorem C19_gate_history (reuse : Bool) (c : CtxSt) (h : List (TurnIn × Oracles)) :
    ∀ x ∈ h.zip (runHist true reuse c h), gateOk x = true := by
  induction h generalizing c with
  | nil => intro x hx; simp [runHist] at hx
  | cons a r ih =>
    intro x hx
    simp only [runHist, List.zip_cons_cons] at hx
    rcases List.mem_cons.mp hx with hx | hx
    · subst hx; exact C19_gate_monitor c a.1 a.2
    · exact ih _ x hx

/-- Planner histories: a turn whose planner step ran and did not answer `reflection = true` (a fallback,
or an explicit `false`) and whose Plan object carries no flag is inert. -/
def plannerOk (x : (Option PlannerOut × TurnIn × Oracles) × TurnOut) : Bool :=
  match x.1.1 with
  | some (.answer true) => true
  | none => true
  | some _ => x.1.2.1.planFlag || (!x.2.called && x.2.written.isEmpty && x.2.log.isNone)

/-- **The plan leg of the gate follows THIS turn's planner answer**: on one long-lived state, whatever the
earlier turns asked for (any initial flag, any ctx state, reused or fresh ctx), a turn whose LLM planner
fell back or answered `reflection = false` computes, writes and logs nothing. -/
theorem C19_gate_planner_history (reuse : Bool) (f : Bool) (c : CtxSt)
    (h : List (Option PlannerOut × TurnIn × Oracles)) :
    ∀ x ∈ h.zip (runHistP true reuse f c h), plannerOk x = true := by
  induction h generalizing f c with
  | nil => intro x hx; simp [runHistP] at hx
  | cons a r ih =>
    intro x hx
    obtain ⟨p, t, o⟩ := a
    simp only [runHistP, List.zip_cons_cons] at hx
    rcases List.mem_cons.mp hx with hx | hx
    · subst hx
      have closed : ∀ q, flagAfter f (some q) = false → t.planFlag = false →
          gateOpen { t with stateFlag := flagAfter f (some q) } = false := by
        intro q hq hp; simp [gateOpen, hq, hp]
      cases p with
      | none => simp [plannerOk]
      | some q =>
        cases q with
        | fallback =>
          rcases Bool.eq_false_or_eq_true t.planFlag with hp | hp
          · simp [plannerOk, hp]
          · obtain ⟨h1, h2, h3⟩ := C19_gate c _ o (closed .fallback rfl hp)
            simp [plannerOk, h1, h2, h3]
        | answer b =>
          cases b with
          | true => simp [plannerOk]
          | false =>
            rcases Bool.eq_false_or_eq_true t.planFlag with hp | hp
            · simp [plannerOk, hp]
            · obtain ⟨h1, h2, h3⟩ := C19_gate c _ o (closed (.answer false) rfl hp)
              simp [plannerOk, h1, h2, h3]
    · exact ih _ _ x hx

/-- The flag a turn sees does not depend on earlier turns once its own planner step ran. -/
theorem C19_planner_flag_this_turn (prev prev' : Bool) (p : PlannerOut) :
    flagAfter prev (some p) = flagAfter prev' (some p) ∧ flagAfter prev (some .fallback) = false := by
  cases p <;> simp [flagAfter]

def exCfg : Cfg :=
  { allow := true, backend := sRule, topk := 2, limit := 3, embed := false, opsCap := some 1,
    wallMs := some 5, fxEnabled := false, fxPathOk := false }

def exOr : Oracles :=
  { mode := .real, adapter := .missing, elapsedUs := 0, runFault := false, indexMissing := false,
    writeFault := false, addFail := [], logFault := false }

/-- "Hi, there" with snippets "A b" / "c"; `plan` is the plan's reflection flag. -/
def exTurn (plan : Bool) (turn : Nat) : TurnIn :=
  { agent := [97], turn := [48 + turn], nowMs := some 0, isoPreset := none, dry := false, t4on := true, planFlag := plan,
    stateFlag := false, cfg := exCfg, utter := [72, 105, 44, 32, 116, 104, 101, 114, 101],
    items := [[65, 32, 98], [99]], arts := [] }

/-- **Negation witness for the code as found** (DESIGN §5 #17): on a reused ctx, a turn whose plan
requests reflection followed by a turn whose plan does not — the second, gated-off turn writes the
first turn's entry again (under its own turn id) and logs a record. -/
theorem C19_gate_fails_legacy :
    ∃ h : List (TurnIn × Oracles), ∃ x ∈ h.zip (runHist false true CtxSt.fresh h), gateOk x = false :=
  ⟨[(exTurn true 1, exOr), (exTurn false 2, exOr)],
   ((exTurn false 2, exOr), (tail false (tail false CtxSt.fresh (exTurn true 1) exOr).1 (exTurn false 2) exOr).2),
   by decide, by decide⟩

example : gateOpen (exTurn false 2) = false ∧ gateOpen (exTurn true 1) = true := by decide

/-- … and the same history is inert under the repaired tail (non-vacuity of `C19_gate_history`). -/
example : (runHist true true CtxSt.fresh [(exTurn true 1, exOr), (exTurn false 2, exOr)]).map
    (fun o => (o.called, o.written.length, o.log.isSome)) = [(true, 1, true), (false, 0, false)] := by
  decide

/-- **`_partial` for the code as found**: the gate clause holds when the ctx carries no stale stash
(a fresh ctx per turn, which is what the bundled scripts build). -/
theorem C19_gate_legacy_partial (c : CtxSt) (t : TurnIn) (o : Oracles) (hc : c.stash = none)
    (h : gateOpen t = false) :
    (tail false c t o).2.called = false ∧ (tail false c t o).2.written = [] ∧
      (tail false c t o).2.log = none := by
  have hg := gateCall_closed t o h
  unfold tail stashAfter
  split
  · exact ⟨rfl, rfl, rfl⟩
  · simp [hg, hc, tailOut]

/-! ## 2. Ops cap -/

/-- **Refl_ops_cap.** At most `max 0 ops_reflection` entries are handed to the index (none when the
cap is null), and never more than `reflect` produced; whatever the ctx state / repair flag. -/
theorem C19_ops_cap (clear : Bool) (c : CtxSt) (t : TurnIn) (o : Oracles) :
    (tail clear c t o).2.written.length ≤ capNat t.cfg.opsCap := by
  unfold tail
  split
  · simp [notReached]
  · cases hs : stashAfter clear c t o with
    | none => simp [tailOut]
    | some res =>
      have := writeEntriesAt_length t o (tsOf (headIso c t) t.nowMs) res
      simp only [tailOut]; omega

theorem C19_ops_cap_zero (clear : Bool) (c : CtxSt) (t : TurnIn) (o : Oracles)
    (h : t.cfg.opsCap = none ∨ ∃ v, t.cfg.opsCap = some v ∧ v ≤ 0) :
    (tail clear c t o).2.written = [] := by
  have := C19_ops_cap clear c t o
  have h0 : capNat t.cfg.opsCap = 0 := by
    rcases h with h | ⟨v, h, hv⟩
    · simp [h, capNat]
    · simp [h, capNat]; omega
  rw [h0] at this
  exact List.length_eq_zero_iff.mp (by omega)

example : (tail true CtxSt.fresh { exTurn true 1 with cfg := { exCfg with opsCap := some 0 } } exOr).2.written = [] ∧
    (tail true CtxSt.fresh { exTurn true 1 with cfg := { exCfg with opsCap := none } } exOr).2.written = [] ∧
    (tail true CtxSt.fresh { exTurn true 1 with cfg := { exCfg with opsCap := some 3 } }
      { exOr with mode := .stub [120] [⟨[97], false⟩, ⟨[98], false⟩, ⟨[99], false⟩, ⟨[100], false⟩] }).2.written.length = 3 := by
  decide

/-- With the real `reflect`, a turn writes at most `min (max 0 opsCap) 1` entries. -/
theorem C19_ops_cap_real (c : CtxSt) (t : TurnIn) (o : Oracles) (hm : o.mode = .real) :
    (tail true c t o).2.written.length ≤ min (capNat t.cfg.opsCap) 1 := by
  rw [tail_true_written]
  split
  · simp
  · split
    · simp
    · rename_i res hres
      have hl := writeEntriesAt_length t o (tsOf (headIso c t) t.nowMs) res
      have : res.entries.length ≤ 1 := by
        unfold gateCall at hres
        split at hres
        · cases hres
        · rw [runReflection_eq] at hres
          split at hres
          · injection hres with hres
            unfold afterGate callReflect at hres
            rw [hm] at hres
            simp only at hres
            split at hres
            · subst hres; simp [errResult]
            · rename_i r hr
              have := (reflectReal_entries t _ _ r hr).1
              split at hres
              · subst hres; simp
              · subst hres; exact this
          · cases hres
      omega

/-! ## 3. Summary length -/

/-- **Refl_summary_len**, both backends: the summary of a successful real `reflect` has at most
`max 0 summary_tokens` whitespace tokens (the code's own `summary_len` measure).  For the llm
backend the adapter's *lookup* is arbitrary (`ad`), its token clipping is the modelled one. -/
theorem C19_summary_len (t : TurnIn) (snips : List Str) (ad : Adapter) (res : RResult)
    (h : reflectReal t snips ad = .ok res) :
    tokenCount res.summary ≤ (max 0 t.cfg.limit).toNat := by
  unfold reflectReal at h
  simp only at h
  split at h
  · unfold reflectLlm at h
    split at h
    · cases h
    · split at h
      · cases h
      · split at h
        · cases h
        · rename_i text htext
          injection h with h; subst h
          simp only [mkResult]
          apply tokenCount_truncate_le
          unfold llmText at htext
          split at htext
          · cases htext
          · cases htext
          · simp only at htext
            split at htext
            · cases htext
            · injection htext with htext; subst htext; exact adapterClip_onlySp _ _
  · split at h
    · injection h with h; subst h
      simp only [mkResult, ruleSummary]
      exact tokenCount_truncate_le _ _ (ruleRaw_onlySp _ _)
    · cases h

/-- The monitor form: every entry a real, successful `reflect` produces passes `monLen`. -/
theorem C19_summary_len_entries (t : TurnIn) (snips : List Str) (ad : Adapter) (res : RResult)
    (h : reflectReal t snips ad = .ok res) : ∀ e ∈ res.entries, monLen t.cfg.limit e.text = true := by
  intro e he
  rw [(reflectReal_entries t snips ad res h).2 e he]
  simpa [monLen] using C19_summary_len t snips ad res h

def exLlmTurn : TurnIn :=
  { exTurn true 1 with cfg := { exCfg with backend := sLlm, fxEnabled := true, fxPathOk := true, limit := 2 } }

/-- Non-vacuity: both backends do succeed (rule-based; llm with a three-token completion clipped to 2). -/
example : ∃ res, reflectReal (exTurn true 1) (gatherSnippets (exTurn true 1)) .missing = .ok res := ⟨_, rfl⟩
example : ∃ res, reflectReal exLlmTurn [] (.text [97, 10, 98, 32, 32, 99]) = .ok res ∧ res.summary = [97, 32, 98] :=
  ⟨_, rfl, by decide⟩

/-- `_truncate_tokens` alone does **not** bound whitespace tokens on arbitrary text (it splits on the
single space only): the bound for the llm backend rests on the adapter's clipping, which is why that
clipping is part of the model.  `"a\nb"` truncated to 1 token still has 2. -/
theorem C19_truncate_needs_clip : tokenCount (truncateTokens [97, 10, 98] 1) = 2 := by decide

example : tokenCount (ruleSummary [72, 105, 44, 32, 116, 104, 101, 114, 101] [[65, 32, 98], [99]] 2 3) = 3 := by
  decide
example : ruleSummary [72, 105, 44, 32, 116, 104, 101, 114, 101] [[65, 32, 98], [99]] 2 3
    = [104, 105, 32, 116, 104, 101, 114, 101, 32, 97] := by decide

/-! ## 4. Id and timestamp are functions of (agent, turn, slot, text) and the logical clock -/

/-- **Refl_id_pure.** Every episode handed to the index carries the turn's agent and turn id, the
ctx's logical timestamp (`now_iso`, derived once from `now_ms`), a slot below the cap, and the text
of the result entry at that slot — nothing else enters `_episode_id` / `ts` (no wall clock, no
elapsed time, no configuration, no fault script). -/
theorem C19_id_pure (clear : Bool) (c : CtxSt) (t : TurnIn) (o : Oracles) :
    ∀ w ∈ (tail clear c t o).2.written,
      w.agent = t.agent ∧ w.turn = t.turn ∧ some w.ts = tsOf (headIso c t) t.nowMs ∧
      w.slot < capNat t.cfg.opsCap ∧ w.text = strip w.idText := by
  intro w hw
  unfold tail at hw
  split at hw
  · simp [notReached] at hw
  · cases hs : stashAfter clear c t o with
    | none => simp [hs, tailOut] at hw
    | some res =>
      simp only [hs, tailOut] at hw
      obtain ⟨x, hx, hw⟩ := writeEntriesAt_mem _ _ _ _ _ hw
      rw [hx]
      unfold writeEntries at hw
      split at hw
      · simp at hw
      · split at hw
        · simp at hw
        · split at hw
          · simp at hw
          · rename_i cap hcap
            split at hw
            · simp at hw
            · split at hw
              · simp at hw
              · obtain ⟨h1, h2, h3, _, h5, e, _, h7, h8, _⟩ := addLoop_mem _ _ _ _ _ _ w hw
                refine ⟨h1, h2, by rw [h3], ?_, by rw [h8, h7]⟩
                rw [List.length_take] at h5
                simp only [capNat, hcap]; omega

/-- No usable turn clock (`ctx.now_ms` is `None`): `_now_iso_from_ctx` raises inside the writer, the tail
swallows it and nothing is written — the writer never substitutes another clock. -/
theorem C19_ts_needs_clock (clear : Bool) (c : CtxSt) (t : TurnIn) (o : Oracles) (h : t.nowMs = none) :
    (tail clear c t o).2.written = [] := by
  unfold tail
  split
  · rfl
  · cases hs : stashAfter clear c t o with
    | none => simp [tailOut]
    | some res => simp [tailOut, tsOf, h, writeEntriesAt]

/-- The timestamp at the clock's origin is the epoch-derived value, as for any other `now_ms`
(non-vacuity of the `ts` clause at the boundary the smoke-turn ctx sits on). -/
example : tsOf (headIso CtxSt.fresh (exTurn true 1)) (some 0) = some (.iso 0) ∧
    tsOf (headIso CtxSt.fresh { exTurn true 1 with isoPreset := some .nonstr }) (some 0) = some (.fallback 0) ∧
    tsOf (headIso CtxSt.fresh { exTurn true 1 with isoPreset := some (.lit [90]) }) (some 7) = some (.lit [90]) := by
  decide

/-- The id the writer builds, with the sha256 digest as an arbitrary oracle `D`. -/
def episodeId (D : Str → Str → Nat → Str → Str) (w : Written) : Str × Str × Nat × Str :=
  (w.turn, w.agent, w.slot, D w.agent w.turn w.slot w.idText)

/-- Two written episodes (from any two runs, configurations, fault scripts, clocks) that agree on
agent, turn, slot and text have the same id, for every digest function. -/
theorem C19_id_function (D : Str → Str → Nat → Str → Str) (w w' : Written)
    (h : w.agent = w'.agent ∧ w.turn = w'.turn ∧ w.slot = w'.slot ∧ w.idText = w'.idText) :
    episodeId D w = episodeId D w' := by
  obtain ⟨h1, h2, h3, h4⟩ := h
  simp [episodeId, h1, h2, h3, h4]

/-- Wall-clock independence: two runs of a turn that differ only in the measured duration of
`reflect`, both on the same side of the budget, are indistinguishable (writes, ids, ts, log). -/
theorem C19_clock_indep (clear : Bool) (c : CtxSt) (t : TurnIn) (o : Oracles) (e : Nat)
    (h : overBudget t.cfg e = overBudget t.cfg o.elapsedUs) :
    tail clear c t { o with elapsedUs := e } = tail clear c t o := by
  have hg : gateCall t { o with elapsedUs := e } = gateCall t o := by
    unfold gateCall runReflection afterGate callReflect
    simp only [h]
  unfold tail stashAfter
  rw [hg]
  split
  · rfl
  · cases clear <;> cases c.stash <;> cases gateCall t o <;> rfl

example : overBudget exCfg 4999 = overBudget exCfg 0 ∧ overBudget exCfg 5000 = false ∧ overBudget exCfg 5001 = true := by
  decide

/-! ## 5. Fail-soft -/

/-- **Refl_failsoft.** `reflect` raises (any exception, injected or its own `ValueError`), the
fixture is missing / the adapter cannot be built / the completion is empty, the call overran its wall
budget, `_run_reflection_if_enabled` itself raises, the writer raises, or there is no index ⇒ nothing
is handed to the index. -/
theorem C19_failsoft (c : CtxSt) (t : TurnIn) (o : Oracles) (h : failed t o = true) :
    (tail true c t o).2.written = [] := by
  rw [tail_true_written]
  split
  · rfl
  · split
    · rfl
    · rename_i res hres
      unfold gateCall at hres
      split at hres
      · cases hres
      · rename_i hrf
        rw [runReflection_eq] at hres
        split at hres
        · injection hres with hres
          unfold failed at h
          simp only [hrf, Bool.false_or, Bool.or_eq_true] at h
          unfold writeEntriesAt
          split
          · rfl
          unfold writeEntries
          rcases h with (h | h) | h
          · simp [h]
          · cases res.entries.isEmpty <;> cases o.writeFault <;> simp [h] <;> split <;> simp
          · have : res.entries = [] := by
              unfold afterGate at hres
              split at h
              · rename_i e he; rw [he] at hres; subst hres; rfl
              · rename_i r hr; rw [hr] at hres; simp only [h, if_true] at hres; subst hres; rfl
            simp [this]
        · cases hres

/-- A failing telemetry writer changes nothing but the telemetry line. -/
theorem C19_failsoft_log (clear : Bool) (c : CtxSt) (t : TurnIn) (o : Oracles) (b : Bool) :
    (tail clear c t { o with logFault := b }).2.written = (tail clear c t o).2.written ∧
    (tail clear c t { o with logFault := b }).2.called = (tail clear c t o).2.called ∧
    (tail clear c t { o with logFault := b }).1 = (tail clear c t o).1 := by
  have hg : gateCall t { o with logFault := b } = gateCall t o := rfl
  unfold tail stashAfter
  rw [hg]
  split
  · exact ⟨rfl, rfl, rfl⟩
  · cases clear <;> cases c.stash <;> cases gateCall t o <;> exact ⟨rfl, rfl, rfl⟩

example : failed (exTurn true 1) { exOr with elapsedUs := 5001 } = true := by decide
example : failed (exTurn true 1) { exOr with mode := .raise [75] } = true := by decide
example : failed { exTurn true 1 with cfg := { exCfg with backend := sLlm, fxEnabled := true, fxPathOk := true } }
    exOr = true := by decide
example : (tail true CtxSt.fresh (exTurn true 1) exOr).2.written.length = 1 := by decide

/-! ## 6. Isolation -/

/-- **Refl_isolation.** Whatever reflection did this turn (ran, failed, timed out, was gated off),
the records of every other stream — T1/T2/T3/T4/apply before the tail, health and the turn summary
after it — and the returned line are those of the skeleton alone: the tail only appends to its own
stream (and to the index).  In the model this is structural; on the code it is the differential
on-vs-off run of the real `run_turn` that decides. -/
theorem C19_isolation {ρ : Type} (sk : Skeleton ρ) (out : TurnOut) :
    nonReflection (emitted sk out) = sk.pre ++ sk.post := by
  unfold emitted
  rw [nonReflection_append, nonReflection_append, nonReflection_other, nonReflection_other]
  cases out.log <;> simp [nonReflection]

theorem C19_isolation_on_off {ρ : Type} (sk : Skeleton ρ) (c c' : CtxSt) (t t' : TurnIn) (o o' : Oracles) :
    nonReflection (emitted sk (tail true c t o).2) = nonReflection (emitted sk (tail true c' t' o').2) := by
  rw [C19_isolation, C19_isolation]

/-! ## 7. The source of `run_turn` has the shape the model assumes (table regenerated from the AST) -/

open Clem.Gen.ReflTail in
/-- Position of the first top-level statement of `run_turn` with property `p` (`stmts.length` if none). -/
def srcPos (p : Clem.Gen.ReflTail.Stmt → Bool) : Nat := Clem.Gen.ReflTail.stmts.findIdx p

open Clem.Gen.ReflTail in
/-- Every top-level statement of `run_turn` that calls the gate, the writer or the telemetry logger is a
`try` whose handler catches `Exception` without re-raising, contains no `return`, and appends to no log
stream of its own (the only reflection stream is written through `log_t3_reflection`). -/
theorem C19_src_tail_guarded :
    ∀ s ∈ stmts, (s.callsGate || s.callsWrite || s.callsLog) = true →
      (s.guarded && !s.hasReturn && !s.hasRaise && !s.appendsAny) = true := by decide

open Clem.Gen.ReflTail in
/-- Order of the tail in the source: apply record ≺ stale-stash clear (the repair) ≺ gate call ≺ write
step ≺ telemetry ≺ health ≺ turn summary, each present exactly where the model puts it; the stash is
read by no statement before the clear. -/
theorem C19_src_tail_order :
    srcPos (·.appendsApply) < srcPos (·.clearsStash) ∧
    srcPos (·.clearsStash) < srcPos (·.callsGate) ∧
    srcPos (·.callsGate) < srcPos (·.callsWrite) ∧
    srcPos (·.callsWrite) < srcPos (·.callsLog) ∧
    srcPos (·.callsLog) < srcPos (·.callsHealth) ∧
    srcPos (·.callsHealth) < srcPos (fun s => s.appendsTurn && !s.hasReturn) ∧
    srcPos (fun s => s.appendsTurn && !s.hasReturn) < stmts.length ∧
    srcPos (·.readsStash) = srcPos (·.clearsStash) := by decide

open Clem.Gen.ReflTail in
/-- Exactly one statement each calls the gate / the writer / the logger. -/
theorem C19_src_tail_unique :
    (stmts.filter (·.callsGate)).length = 1 ∧ (stmts.filter (·.callsWrite)).length = 1 ∧
    (stmts.filter (·.callsLog)).length = 1 := by decide

end Clem.Refl
