import Clem.Proofs.GelBounds
import Clem.Proofs.GelTick
import Clem.Proofs.GelKeys
import Clem.Proofs.GelPromo
import Clem.Proofs.GelCanon
import Clem.Proofs.GelObsSpec
import Clem.Proofs.GelObsTop
import Mathlib.Algebra.Order.Field.Rat

/-!
# C18 — GEL edge weights stay bounded, decay monotonically, keys canonical

Property theorems only (helper lemmas live in `Clem/Proofs/Gel*.lean`).  Every theorem is about
the executable definitions of `Clem/Model/Gel.lean` — the ones the driver runs at `Float` against
`clematis/engine/gel.py` — instantiated at an arbitrary linearly ordered field `α`
(`Clem/Proofs/GelNum.lean`).  `pw` is Python's `**`; the only fact used about it is
`PowLaw pw : ∀ x ≥ 0, 0 ≤ pw ½ x ≤ 1`.
-/

namespace Clem.Gel
open Clem.Py

set_option linter.unusedSectionVars false
variable {α : Type} [Field α] [LinearOrder α] [IsStrictOrderedRing α]

/-! ## Observation -/

/-- Every record an observation creates or rewrites has its weight inside
`[clamp_min, clamp_max]` (both update modes; any history before it). -/
theorem C18_observe_updated_in_bounds (c : Cfg α) (s : State α) (items : List (Str × α))
    (turn : Option Int) (h : c.cmin ≤ c.cmax) :
    ∀ e ∈ edgesOf (observe c s items turn).1,
      e ∈ edgesOf s ∨ (c.cmin ≤ e.w ∧ e.w ≤ c.cmax) := by
  unfold observe
  split
  · intro e he; exact Or.inl he
  · show ∀ e ∈ observeEdges c turn (ensure s).edges (obsPairs c items), _
    unfold observeEdges
    apply all_foldl (P := fun e => e ∈ edgesOf s ∨ (c.cmin ≤ e.w ∧ e.w ≤ c.cmax)) (obsStep c turn)
    · intro es p hes
      exact all_upsert _ _ _ (fun e _ => Or.inr (updW_bounds c e.w h)) (Or.inr (updW_bounds c _ h)) es hes
    · intro e he; exact Or.inl he

/-- Pair cap / top-k / threshold: `pairs_updated = min(pair_cap, C(k_used, 2))`, `k_used ≤ top_k`,
`k_used ≤ #{items with s ≥ θ}`, and every used item is one of the listed items with `s ≥ θ`. -/
theorem C18_observe_pair_cap (c : Cfg α) (s : State α) (items : List (Str × α)) (turn : Option Int)
    (hen : c.enabled = true) :
    (observe c s items turn).2.pairsUpdated
        = min c.pairCap.toNat ((observe c s items turn).2.kUsed.choose 2) ∧
    (0 ≤ c.topK → (observe c s items turn).2.kUsed ≤ c.topK.toNat) ∧
    (observe c s items turn).2.kUsed ≤ (eligible c items).length ∧
    (observe c s items turn).2.kIn = items.length ∧
    (∀ x ∈ usedItems c items, x ∈ items ∧ c.threshold ≤ x.2) := by
  simp only [observe, hen, Bool.not_true, Bool.false_eq_true, if_false]
  exact ⟨obsPairs_length c items, (usedItems_length_le c items).2, (usedItems_length_le c items).1, trivial,
    usedItems_sub c items⟩

/-- An observation is insensitive to the order in which the items are listed. -/
theorem C18_observe_perm_invariant (c : Cfg α) (s : State α) {items items' : List (Str × α)}
    (turn : Option Int) (h : items.Perm items') :
    observe c s items turn = observe c s items' turn := by
  unfold observe
  rw [obsPairs_perm c h, usedItems_perm c h, h.length_eq]

/-! ## Decay -/

/-- A tick never increases a weight's magnitude: every edge after the tick is the image of an
edge before it (same key) whose magnitude was at least as large. -/
theorem C18_tick_shrinks (c : Cfg α) (pw : α → α → α) (hpw : PowLaw pw) (s : State α) (dt : Int)
    (turn : Option Int) :
    ∀ e' ∈ edgesOf (tick c pw s dt turn).1, ∃ e ∈ edgesOf s, e.key = e'.key ∧ |e'.w| ≤ |e.w| := by
  simp only [tick]
  split
  · intro e' he'; exact ⟨e', he', rfl, le_refl _⟩
  · split
    · intro e' he'; exact ⟨e', he', rfl, le_refl _⟩
    · intro e' he'
      obtain ⟨e, he, hte⟩ := List.mem_filterMap.mp he'
      obtain ⟨_, hw, hk, _⟩ := tickEdge_some hte
      obtain ⟨h0, h1⟩ := decayFactor_unit c pw hpw dt
      exact ⟨e, he, hk.symm, by rw [hw]; exact decay_abs_le h0 h1⟩

/-- A tick removes exactly the edges whose decayed magnitude is below the floor, keeps the others in
order, and reports the number of dropped edges. -/
theorem C18_tick_drops_exactly (c : Cfg α) (pw : α → α → α) (s : State α) (dt : Int)
    (turn : Option Int) (hen : c.enabled = true) :
    (edgesOf (tick c pw s dt turn).1).map Edge.key
        = ((edgesOf s).filter (fun e => !(below (decayFactor c pw dt) c.floor e))).map Edge.key ∧
    (tick c pw s dt turn).2.dropped = ((edgesOf s).filter (below (decayFactor c pw dt) c.floor)).length ∧
    (tick c pw s dt turn).2.dropped + (edgesOf (tick c pw s dt turn).1).length = (edgesOf s).length := by
  simp only [tick, hen, Bool.not_true, Bool.false_eq_true, if_false]
  split
  · rename_i hemp
    have h0 : (ensure s).edges = [] := by simpa using hemp
    have e1 : edgesOf (some (ensure s)) = [] := h0
    have e2 : edgesOf s = [] := h0
    simp only [e1, e2]; simp
  · obtain ⟨h1, h3⟩ := tick_keys (decayFactor c pw dt) c.floor turn (ensure s).edges
    exact ⟨h1.symm, rfl, h3⟩

/-- The whole relational specification of a decay step (the `Bool` monitor the driver evaluates on
the implementation's before/after states) holds of the model's tick. -/
theorem C18_tick_spec (c : Cfg α) (pw : α → α → α) (hpw : PowLaw pw) (s : State α) (dt : Int)
    (turn : Option Int) (hen : c.enabled = true) :
    tickSpecB (decayFactor c pw dt) c.floor (edgesOf s) (edgesOf (tick c pw s dt turn).1)
      (tick c pw s dt turn).2 = true := by
  obtain ⟨h0, h1⟩ := decayFactor_unit c pw hpw dt
  simp only [tick, hen, Bool.not_true, Bool.false_eq_true, if_false]
  split
  · rename_i hemp
    have h0 : (ensure s).edges = [] := by simpa using hemp
    have e1 : edgesOf (some (ensure s)) = [] := h0
    have e2 : edgesOf s = [] := h0
    simp only [e1, e2]; simp [tickSpecB]
  · exact tickSpec_holds _ _ h0 h1 turn _

/-! ## Boundedness over arbitrary histories -/

/-- With `clamp_min ≤ 0 ≤ clamp_max` (what the repaired validator enforces), every history over
{observe, tick, merge, split, promotion} from the empty store keeps every weight in
`[clamp_min, clamp_max]`, provided promotions attach with a weight inside the clamp
(vacuous for observe/tick histories — see the corollary). -/
theorem C18_bounded_history (c : Cfg α) (pw : α → α → α) (hpw : PowLaw pw)
    (hlo : c.cmin ≤ 0) (hhi : 0 ≤ c.cmax) (ops : List (Op α))
    (hp : ∀ p, Op.promote p ∈ ops → c.cmin ≤ p.w ∧ p.w ≤ c.cmax) :
    boundedB c (edgesOf (run c pw none ops)) = true := by
  rw [boundedB_iff]
  apply good_run c true pw hlo hhi hpw ops none
  · intro op hop
    cases op with
    | promote p => exact Or.inr (hp p hop)
    | _ => trivial
  · intro e he; simp [edgesOf, ensure, emptyStore] at he

/-- The property's first clause: after any sequence of observations and ticks every edge weight
lies within the clamp bounds. -/
theorem C18_bounded_observe_tick_history (c : Cfg α) (pw : α → α → α) (hpw : PowLaw pw)
    (hlo : c.cmin ≤ 0) (hhi : 0 ≤ c.cmax) (ops : List (Op α))
    (hot : ∀ op ∈ ops, (∃ items turn, op = .observe items turn) ∨ (∃ dt turn, op = .tick dt turn)) :
    boundedB c (edgesOf (run c pw none ops)) = true := by
  apply C18_bounded_history c pw hpw hlo hhi ops
  intro p hp
  rcases hot _ hp with ⟨_, _, h⟩ | ⟨_, _, h⟩ <;> cases h

/-- Without any assumption on promotions: every co-activation edge (`rel = "coact"`) stays in
bounds over every history (promotion attaches with a weight clamped to `[-1, 1]`, not to the update
clamp, and marks the edge `rel = "concept"`). -/
theorem C18_bounded_coact_history (c : Cfg α) (pw : α → α → α) (hpw : PowLaw pw)
    (hlo : c.cmin ≤ 0) (hhi : 0 ≤ c.cmax) (ops : List (Op α)) :
    boundedCoactB c (edgesOf (run c pw none ops)) = true := by
  rw [boundedCoactB_iff]
  apply good_run c false pw hlo hhi hpw ops none
  · intro op _
    cases op with
    | promote p => exact Or.inl rfl
    | _ => trivial
  · intro e he; simp [edgesOf, ensure, emptyStore] at he

/-- The graph rules of `configs/validate.py` **before** the proposed fix
(`clamp_min < clamp_max` only). -/
def ValidatorAcceptsOld (c : Cfg α) : Prop :=
  0 ≤ c.threshold ∧ c.threshold ≤ 1 ∧ 1 ≤ c.topK ∧ 0 ≤ c.pairCap ∧ 0 < c.alpha ∧ c.cmin < c.cmax ∧
  1 ≤ c.hl ∧ 0 ≤ c.floor ∧ c.floor ≤ c.cmax ∧ -1 ≤ c.attachW ∧ c.attachW ≤ 1 ∧ 1 ≤ c.topkLabel

/-- … and **with** the proposed fix (`clamp_min ≤ 0 ≤ clamp_max` added). -/
def ValidatorAccepts (c : Cfg α) : Prop := ValidatorAcceptsOld c ∧ c.cmin ≤ 0 ∧ 0 ≤ c.cmax

/-- Full-strength statement for the repaired validator: all validator-accepted settings, all
observe/tick histories. -/
theorem C18_bounded_history_validated (c : Cfg α) (pw : α → α → α) (hpw : PowLaw pw)
    (hv : ValidatorAccepts c) (ops : List (Op α))
    (hot : ∀ op ∈ ops, (∃ items turn, op = .observe items turn) ∨ (∃ dt turn, op = .tick dt turn)) :
    boundedB c (edgesOf (run c pw none ops)) = true :=
  C18_bounded_observe_tick_history c pw hpw hv.2.1 hv.2.2 ops hot

/-- Counter-witness (DESIGN §5 row 12): settings the *unrepaired* validator accepts
(`clamp_min = 1/2 < clamp_max = 1`), a `pow` satisfying the law, one observation then one tick:
the weight `1/2 · 499/500` is below `clamp_min`.  So `clamp_min ≤ 0` cannot be dropped. -/
def witnessCfg : Cfg ℚ :=
  { enabled := true, threshold := 1/5, topK := 64, pairCap := 2048, proportional := false,
    alpha := 1/50, cmin := 1/2, cmax := 1, hl := 200, floor := 0,
    concatK := false, topkLabel := 3, attachW := 1/2 }
def witnessPow : ℚ → ℚ → ℚ := fun _ _ => 499/500
def witnessOps : List (Op ℚ) :=
  [.observe [([97], 9/10), ([98], 4/5)] (some 1), .tick 1 (some 1)]

theorem C18_bounded_fails_positive_cmin :
    ValidatorAcceptsOld witnessCfg ∧ PowLaw witnessPow ∧
    (∀ op ∈ witnessOps, (∃ items turn, op = .observe items turn) ∨ (∃ dt turn, op = .tick dt turn)) ∧
    boundedB witnessCfg (edgesOf (run witnessCfg witnessPow none witnessOps)) = false := by
  refine ⟨?_, ?_, ?_, by decide +kernel⟩
  · unfold ValidatorAcceptsOld witnessCfg; norm_num
  · intro x _; unfold witnessPow; norm_num
  · intro op hop
    simp only [witnessOps, List.mem_cons, List.not_mem_nil, or_false] at hop
    rcases hop with rfl | rfl
    · exact Or.inl ⟨_, _, rfl⟩
    · exact Or.inr ⟨_, _, rfl⟩

/-- Non-vacuity of the history theorems: the default settings over ℚ, a history with an
observation, a tick and an in-bounds promotion. -/
example : boundedB { witnessCfg with cmin := -1 }
    (edgesOf (run { witnessCfg with cmin := -1 } witnessPow none
      (witnessOps ++ [.promote ⟨[99, 58, 58, 97], [97], [[97], [98]], 1/2⟩]))) = true :=
  C18_bounded_history _ witnessPow (by intro x _; unfold witnessPow; norm_num)
    (by simp [witnessCfg]) (by simp [witnessCfg]) _
    (by intro p hp; simp [witnessOps] at hp; subst hp; simp [witnessCfg]; norm_num)

/-! ## Canonical keys -/

/-- `_edge_key` is symmetric. -/
theorem C18_edge_key_symmetric (a b : Str) : edgeKey a b = edgeKey b a := edgeKey_comm a b

/-- `_edge_key a b` is `(src ++ "→" ++ dst, src, dst)` with `src ≤ dst` and `{src, dst} = {a, b}`. -/
theorem C18_edge_key_canonical (a b : Str) :
    lexLe (edgeKey a b).src (edgeKey a b).dst = true ∧
    (edgeKey a b).key = (edgeKey a b).src ++ arrow :: (edgeKey a b).dst ∧
    (((edgeKey a b).src = a ∧ (edgeKey a b).dst = b) ∨ ((edgeKey a b).src = b ∧ (edgeKey a b).dst = a)) :=
  edgeKey_canon a b

/-- Over every history from the empty store, every stored record sits under the canonical key of
its own endpoints (`key = src→dst`, `src ≤ dst`) and there is exactly one record per key — hence
one per unordered pair `{src, dst}`. -/
theorem C18_keys_canonical_history (c : Cfg α) (pw : α → α → α) (ops : List (Op α)) :
    canonB (edgesOf (run c pw none ops)) = true :=
  canon_run c pw ops none (by simp [edgesOf, ensure, emptyStore, canonB])

/-- The key determines the unordered pair for ids that do not contain the separator `→`
(`_partial`: for arbitrary ids it does not — next theorem). -/
theorem C18_edge_key_injective_partial {a b a' b' : Str} (ha : arrow ∉ a) (hb : arrow ∉ b)
    (ha' : arrow ∉ a') (hb' : arrow ∉ b') (h : (edgeKey a b).key = (edgeKey a' b').key) :
    (a = a' ∧ b = b') ∨ (a = b' ∧ b = a') := edgeKey_key_inj ha hb ha' hb' h

/-- Collision witness: the pairs `("a→b", "c")` and `("a", "b→c")` share the key `"a→b→c"`. -/
theorem C18_edge_key_collision :
    (edgeKey [97, arrow, 98] [99]).key = (edgeKey [97] [98, arrow, 99]).key ∧
    (edgeKey [97, arrow, 98] [99]).src ≠ (edgeKey [97] [98, arrow, 99]).src := edgeKey_collision

example : arrow ∉ ([97] : Str) := by decide

/-- The whole relational specification of one observation (the `Bool` monitor the driver evaluates
on the implementation's before/after stores and metrics: `k_used ≤ top_k`, `k_used ≤ #eligible`,
`pairs_updated ≤ min(pair_cap, C(k_used, 2))`, no key disappears, every record that is new or differs
from before sits under the key of a pair of ids with score `≥ θ` and is in bounds, and there are at most
`pairs_updated` such records) holds of the model's `observe` in every state reachable from the empty
store.  `same` is the record equality used by the monitor (bit-level at `Float`). -/
theorem C18_observe_spec (same : Edge α → Edge α → Bool) (hsame : ∀ a b, same a b = true ↔ a = b)
    (c : Cfg α) (pw : α → α → α) (ops : List (Op α)) (items : List (Str × α)) (turn : Option Int)
    (hen : c.enabled = true) :
    obsSpecB same c items (edgesOf (run c pw none ops))
      (edgesOf (observe c (run c pw none ops) items turn).1)
      (observe c (run c pw none ops) items turn).2 = true :=
  obsSpec_holds same hsame c _ items turn hen
    ((canonB_iff _).mp (C18_keys_canonical_history c pw ops)).2

/-- Hand-off clause (the `Bool` monitor `obsTopB`, evaluated by the driver on the real `run_turn`'s
before/after stores with ALL hits T2 returned as `items`): whatever order the items are listed in, every
record an observation creates or rewrites sits under the key of a pair of ids taken from the top-`k`
items by `(-score, id)` among the listed items with score `≥ θ` — in every reachable state. -/
theorem C18_observe_topk_by_score (same : Edge α → Edge α → Bool) (hsame : ∀ a b, same a b = true ↔ a = b)
    (c : Cfg α) (pw : α → α → α) (ops : List (Op α)) (items : List (Str × α)) (turn : Option Int) :
    obsTopB same c items (edgesOf (run c pw none ops))
      (edgesOf (observe c (run c pw none ops) items turn).1) = true :=
  obsTop_holds same hsame c _ items turn
    ((canonB_iff _).mp (C18_keys_canonical_history c pw ops)).2

/-! ## Maintenance passes -/

/-- `apply_merge` only appends its record to `meta.merges`. -/
theorem C18_merge_only_meta (c : Cfg α) (s : State α) (r : MergeRec α) (hen : c.enabled = true) :
    ∃ g', applyMerge c s r = some g' ∧ g'.nodes = (ensure s).nodes ∧ g'.edges = (ensure s).edges ∧
      g'.splits = (ensure s).splits ∧ g'.conceptCount = (ensure s).conceptCount ∧
      g'.edgesCount = (ensure s).edgesCount ∧ g'.merges = (ensure s).merges ++ [r] :=
  applyMerge_frame c s r hen

/-- `apply_split` only appends its record to `meta.splits`. -/
theorem C18_split_only_meta (c : Cfg α) (s : State α) (r : SplitRec) (hen : c.enabled = true) :
    ∃ g', applySplit c s r = some g' ∧ g'.nodes = (ensure s).nodes ∧ g'.edges = (ensure s).edges ∧
      g'.merges = (ensure s).merges ∧ g'.conceptCount = (ensure s).conceptCount ∧
      g'.edgesCount = (ensure s).edgesCount ∧ g'.splits = (ensure s).splits ++ [r] :=
  applySplit_frame c s r hen

/-- `apply_promotion` leaves merges/splits alone, appends at most its own concept node, and every
edge whose key is not one of its own `(concept, member)` pair keys is untouched (both directions);
its own edges end up `rel = "concept"` with the attach weight. -/
theorem C18_promotion_only_concept (c : Cfg α) (s : State α) (p : Promo α) (hen : c.enabled = true) :
    ∃ g', applyPromotion c s p = some g' ∧ g'.merges = (ensure s).merges ∧ g'.splits = (ensure s).splits ∧
      (g'.nodes = (ensure s).nodes ∨ g'.nodes = (ensure s).nodes ++ [⟨p.cid, p.label⟩]) ∧
      (∀ e, (∀ m ∈ p.members, e.key ≠ (edgeKey p.cid m).key) → (e ∈ g'.edges ↔ e ∈ (ensure s).edges)) ∧
      (∀ m ∈ p.members, ∃ e, findEdge (edgeKey p.cid m).key g'.edges = some e ∧ e.concept = true ∧ e.w = p.w) := by
  obtain ⟨g', h1, h2, h3, h4, h5⟩ := applyPromotion_frame c s p hen
  refine ⟨g', h1, h2, h3, h4, h5, ?_⟩
  have : g'.edges = p.members.foldl (attachStep p) (ensure s).edges := by
    simp only [applyPromotion, hen, Bool.not_true, Bool.false_eq_true, if_false, Option.some.injEq] at h1
    rw [← h1]
  rw [this]
  exact attach_own_edges p _

/-- Promotion is idempotent. -/
theorem C18_promotion_idempotent (c : Cfg α) (s : State α) (p : Promo α) :
    applyPromotion c (applyPromotion c s p) p = applyPromotion c s p := applyPromotion_idem c s p

/-! ## Gate -/

/-- With `graph.enabled = false` every entry point returns the state untouched (not even the
implicit store creation happens) and default metrics. -/
theorem C18_gate_off_identity (c : Cfg α) (pw : α → α → α) (s : State α) (hoff : c.enabled = false) :
    (∀ items turn, observe c s items turn = (s, ⟨0, 0, 0⟩)) ∧
    (∀ dt turn, tick c pw s dt turn = (s, ⟨0, 0⟩)) ∧
    (∀ r, applyMerge c s r = s) ∧ (∀ r, applySplit c s r = s) ∧
    (∀ p, applyPromotion c s p = s) ∧ (∀ cl, promoteClusters c cl = []) ∧
    (∀ ops, run c pw s ops = s) := by
  refine ⟨?_, ?_, ?_, ?_, ?_, ?_, ?_⟩ <;> try (intros; simp [observe, tick, applyMerge, applySplit, applyPromotion, promoteClusters, hoff])
  intro ops
  induction ops with
  | nil => rfl
  | cons op t ih =>
    simp only [run, List.foldl_cons] at ih ⊢
    have : step c pw s op = s := by
      cases op <;> simp [step, observe, tick, applyMerge, applySplit, applyPromotion, hoff]
    rw [this]; exact ih

end Clem.Gel
