import Mathlib.Analysis.SpecialFunctions.Pow.Real
import Clem.Props.C18.Main

/-!
# C18 over the real numbers

The `pow` hypothesis of the C18 theorems (`PowLaw`) is discharged for the real power function
`b ^ x` (`Real.rpow`), i.e. for the mathematical meaning of Python's `0.5 ** x`; the history
theorems then hold outright for real-valued weights.
-/

namespace Clem.Gel

/-- `0 ≤ (1/2) ^ x ≤ 1` for every real `x ≥ 0`. -/
theorem C18_pow_law_real : PowLaw (fun b x : ℝ => b ^ x) := by
  intro x hx
  exact ⟨Real.rpow_nonneg (by norm_num) x, Real.rpow_le_one (by norm_num) (by norm_num) hx⟩

/-- Boundedness over every observe/tick history with the real half-life decay. -/
theorem C18_bounded_history_real (c : Cfg ℝ) (hv : ValidatorAccepts c) (ops : List (Op ℝ))
    (hot : ∀ op ∈ ops, (∃ items turn, op = .observe items turn) ∨ (∃ dt turn, op = .tick dt turn)) :
    boundedB c (edgesOf (run c (fun b x : ℝ => b ^ x) none ops)) = true :=
  C18_bounded_history_validated c _ C18_pow_law_real hv ops hot

/-- A tick with the real half-life decay never increases a magnitude. -/
theorem C18_tick_shrinks_real (c : Cfg ℝ) (s : State ℝ) (dt : Int) (turn : Option Int) :
    ∀ e' ∈ edgesOf (tick c (fun b x : ℝ => b ^ x) s dt turn).1,
      ∃ e ∈ edgesOf s, e.key = e'.key ∧ |e'.w| ≤ |e.w| :=
  C18_tick_shrinks c _ C18_pow_law_real s dt turn

end Clem.Gel
