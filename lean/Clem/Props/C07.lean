/-
C07 — Delta snapshots reconstruct the full payload exactly.

Statements are about `Clem.Delta` (lean/Clem/Model/Delta.lean), the executable model of
`clematis/engine/util/snapshot_delta.py` *with the proposed repair applied*
(`proposed_fixes/C07_delta_paths_and_strict_leaves.diff`: escaped path segments, `""` is a path,
leaves compared by type and value) and of the file-level logic of `write_snapshot_auto` /
`read_snapshot`.  The same definitions are linked into `clemdrv` and compared with the real code.

"Equal" is `J.Equiv`: the same JSON document — same key set at every level (whatever the keys
contain), identical leaves (type and value: `1`, `true`, `1.0`, `-0.0`, `0.0` pairwise different),
arrays element-wise; only the order of keys inside an object is ignored, exactly as Python's `==`
on dicts and the canonical writer (`sort_keys=True`) ignore it.  `J.wf` (pairwise distinct keys in
every object) is the representation invariant of a Python dict, not a restriction on payloads.
-/
import Clem.Proofs.DeltaCore
import Clem.Props.C07.Legacy

namespace Clem.Props.C07
open Clem.Py Clem.Py.J Clem.Delta

/-! ### the equality notion -/

/-- `J.Equiv` is an equivalence relation … -/
theorem C07_equiv_is_equivalence :
    (∀ a : J, Equiv a a) ∧ (∀ a b : J, Equiv a b → Equiv b a) ∧
    (∀ a b c : J, Equiv a b → Equiv b c → Equiv a c) :=
  ⟨J.Equiv.refl, fun _ _ h => h.symm, fun _ _ _ h1 h2 => h1.trans h2⟩

/-- … that is plain equality on everything that is not an object (scalars keep type and value,
    arrays of scalars are identical): only the order of keys inside objects is abstracted. -/
theorem C07_equiv_scalar_exact (a b : J) (h : Equiv a b) (ha : ∀ xs, a ≠ .arr xs) (ho : ∀ es, a ≠ .obj es) :
    a = b := by
  cases h with
  | null | bool | int | flt | str => rfl
  | anil => exact absurd rfl (ha _)
  | acons => exact absurd rfl (ha _)
  | obj => exact absurd rfl (ho _)

example : ¬ Equiv (.int 1) (.bool true) := fun h => by cases h
example : ¬ Equiv (.obj [([97], .int 1)]) (.obj [([97], .flt 4607182418800017408)]) := fun h => by
  cases h with
  | obj _ h2 => exact absurd (h2 [97] _ _ rfl rfl) (fun h => by cases h)
example : Equiv (.obj [([97], .int 1), ([98], .null)]) (.obj [([98], .null), ([97], .int 1)]) :=
  eqv_sound (by decide)

/-! ### path codec -/

/-- `_split_path(_join_path(segs)) == segs` for every non-empty tuple of keys: dots, backslashes,
    empty strings and arbitrary code points in keys are all preserved. -/
theorem C07_path_codec_lossless (segs : List Str) (h : segs ≠ []) :
    splitPath (joinPath segs) = segs := splitPath_joinPath segs h

example : splitPath (joinPath [[97, 46, 98], [], [92], [233]]) = [[97, 46, 98], [], [92], [233]] := by decide

/-- different key tuples never collide on the same path string. -/
theorem C07_path_codec_injective (s t : List Str) (hs : s ≠ []) (ht : t ≠ [])
    (h : joinPath s = joinPath t) : s = t := by
  rw [← splitPath_joinPath s hs, ← splitPath_joinPath t ht, h]

/-! ### leaf comparison -/

/-- `_same_value` never identifies two different JSON documents (so a skipped "mod" is safe). -/
theorem C07_same_value_strict (a b : J) (h : same a b = true) : Equiv a b := eqvG_sound false a b h

/-- `1`, `True`, `1.0` and `0.0` / `-0.0` are kept apart (the Python `==` confusions). -/
example : same (.int 1) (.bool true) = false ∧ same (.int 1) (.flt 4607182418800017408) = false ∧
    same (.bool true) (.flt 4607182418800017408) = false ∧
    same (.flt 0) (.flt 9223372036854775808) = false ∧
    same (.arr [.int 1]) (.arr [.bool true]) = false := by decide

/-- the Boolean monitor evaluated by the driver on implementation outputs is sound. -/
theorem C07_monitor_sound (a b : J) (h : eqv a b = true) : Equiv a b := eqv_sound h

/-! ### round trip -/

/-- **Main theorem.**  For all payloads `base`, `cur` (objects, or `None`/non-dicts which the codec
    reads as `{}`): `apply_delta(base, compute_delta(base, cur))` is the same JSON document as
    `cur`.  Unbounded: no limit on size, depth, or on what the keys look like. -/
theorem C07_roundtrip (base cur : J) (hb : wf base = true) (hc : wf cur = true) :
    Equiv (.obj (applyDelta base (computeDelta base cur))) (.obj (entries cur)) := by
  rw [applyDelta_eq]
  refine core (sizeO (entries base) + 1) (entries base) (entries cur) [] _ (by omega)
    (wf_entries hb) (wf_entries hc) ?_
  intro it
  simp only [opsOf, computeDelta, List.mem_append, List.mem_map, mem_isort, Prod.exists]
  constructor
  · rintro ((⟨p, v, h, rfl⟩ | ⟨p, v, h, rfl⟩) | ⟨p, h, rfl⟩)
    · exact (mem_addsOf _ p v).1 h
    · exact (mem_modsOf _ p v).1 h
    · exact (mem_delsOf _ p).1 h
  · intro h
    cases it with
    | add p v => exact Or.inl (Or.inl ⟨p, v, (mem_addsOf _ p v).2 h, rfl⟩)
    | mod p v => exact Or.inl (Or.inr ⟨p, v, (mem_modsOf _ p v).2 h, rfl⟩)
    | del p => exact Or.inr ⟨p, (mem_delsOf _ p).2 h, rfl⟩

/-- for an object `cur` the statement reads literally `apply(base, delta(base, cur)) ≈ cur`. -/
theorem C07_roundtrip_obj (base : J) (ce : List (Str × J)) (hb : wf base = true)
    (hc : wf (.obj ce) = true) :
    Equiv (.obj (applyDelta base (computeDelta base (.obj ce)))) (.obj ce) :=
  C07_roundtrip base (.obj ce) hb hc

/-- Determinism / order-independence: ANY list of operations with the same members as
    `_walk_diff(base, cur)` — whatever its order or multiplicities, so in particular the
    `sorted(...)` orders used by `apply_delta` and any dict iteration order — rebuilds `cur`. -/
theorem C07_apply_order_irrelevant (be ce : List (Str × J)) (ops : List Item)
    (hb : wf (.obj be) = true) (hc : wf (.obj ce) = true)
    (h : ∀ it, it ∈ ops ↔ it ∈ walkO [] be ce) :
    Equiv (.obj (applyItems 0 ops be)) (.obj ce) :=
  core (sizeO be + 1) be ce [] ops (by omega) hb hc h

/-! non-vacuity: the formerly failing classes, evaluated by the kernel on the model -/

-- {} → {"a.b": 1}
example : eqv (.obj (applyDelta (.obj []) (computeDelta (.obj []) (.obj [([97, 46, 98], .int 1)]))))
    (.obj [([97, 46, 98], .int 1)]) = true := by decide
-- {"": 1} → {"": 2, "a": {"": true}}
example : eqv (.obj (applyDelta (.obj [([], .int 1)])
      (computeDelta (.obj [([], .int 1)]) (.obj [([], .int 2), ([97], .obj [([], .bool true)])]))))
    (.obj [([], .int 2), ([97], .obj [([], .bool true)])]) = true := by decide
-- {"a": 1} → {"a": true}
example : applyDelta (.obj [([97], .int 1)]) (computeDelta (.obj [([97], .int 1)]) (.obj [([97], .bool true)]))
    = [([97], .bool true)] := by decide
-- {"a.b": 1, "a": {"b": 2}} → {"a": {"b": 2}}   (dotted delete)
example : applyDelta (.obj [([97, 46, 98], .int 1), ([97], .obj [([98], .int 2)])])
      (computeDelta (.obj [([97, 46, 98], .int 1), ([97], .obj [([98], .int 2)])]) (.obj [([97], .obj [([98], .int 2)])]))
    = [([97], .obj [([98], .int 2)])] := by decide
example : wf (.obj [([97, 46, 98], .int 1), ([97], .obj [([98], .int 2)])]) = true := by decide

/-! ### file level: `write_snapshot_auto` / `read_snapshot` -/

/-- A delta-mode snapshot written with its (readable) baseline present is a delta file, and reading
    it back returns the full payload. -/
theorem C07_auto_delta_read (d : Dir) (ef et : Str) (x : Option Str) (y : Bool) (bp : J)
    (pe : List (Str × J)) (hef : ef ≠ []) (hbase : d (.full ef) = .ok x y bp)
    (hwb : wf bp = true) (hwp : wf (.obj pe) = true) :
    ∃ d' r, writeAuto d (some ef) et (.obj pe) true = some (d', Mode.delta) ∧
      readSnapshot d' et = .payload r ∧ Equiv r (.obj pe) := by
  have he : ef.isEmpty = false := by cases ef <;> simp_all
  refine ⟨d.put (.delta et) (.ok (some ef) true (computeDelta (orEmpty bp) (.obj pe)).toJ),
    .obj (applyDelta (orEmpty bp) (Delta.ofJ (orEmpty (computeDelta (orEmpty bp) (.obj pe)).toJ))),
    by simp only [writeAuto, he, hbase]; rfl, ?_, ?_⟩
  · simp only [readSnapshot, Dir.put, if_true, he]
    have : (Stem.full ef = Stem.delta et) = False := by simp
    simp only [this, if_false, hbase]
    rfl
  · rw [ofJ_toJ]
    exact C07_roundtrip (orEmpty bp) (.obj pe) (wf_orEmpty hwb) hwp

/-- The same through `read_snapshot(path=<delta file>)`, and through the delta branch of
    `load_latest_snapshot`: with the baseline present both work on the reconstructed full payload. -/
theorem C07_path_and_loader_delta_read (d : Dir) (ef et : Str) (x : Option Str) (y : Bool) (bp : J)
    (pe : List (Str × J)) (hef : ef ≠ []) (hbase : d (.full ef) = .ok x y bp)
    (hwb : wf bp = true) (hwp : wf (.obj pe) = true) :
    ∃ d' r, writeAuto d (some ef) et (.obj pe) true = some (d', Mode.delta) ∧
      readPath d' (.delta et) = .payload r ∧ loadLatestDelta d' et = .reconstructed r ∧
      Equiv r (.obj pe) := by
  have he : ef.isEmpty = false := by cases ef <;> simp_all
  have hne : (Stem.full ef = Stem.delta et) = False := by simp
  refine ⟨d.put (.delta et) (.ok (some ef) true (computeDelta (orEmpty bp) (.obj pe)).toJ),
    .obj (applyDelta (orEmpty bp) (Delta.ofJ (orEmpty (computeDelta (orEmpty bp) (.obj pe)).toJ))),
    by simp only [writeAuto, he, hbase]; rfl, ?_, ?_, ?_⟩
  · simp only [readPath, Dir.put, if_true, hne, if_false, hbase]
  · simp only [loadLatestDelta, Dir.put, if_true, hne, if_false, hbase]
  · rw [ofJ_toJ]
    exact C07_roundtrip (orEmpty bp) (.obj pe) (wf_orEmpty hwb) hwp

/-- Loader (with `proposed_fixes/C07_load_latest_missing_baseline.diff`): a delta file whose
    baseline is absent is never loaded as if it were a payload — the loader takes the sibling full
    snapshot of the same etag or reports that nothing was loaded. -/
theorem C07_loader_missing_baseline (d : Dir) (et ef : Str) (dp : J)
    (hd : d (.delta et) = .ok (some ef) true dp) (hb : d (.full ef) = .missing) :
    loadLatestDelta d et = .notLoaded ∨
      ∃ x z p, d (.full et) = .ok x z p ∧ loadLatestDelta d et = .sibling p := by
  simp only [loadLatestDelta, hd, hb]
  split
  · exact Or.inl rfl
  · cases h : d (.full et) with
    | missing => exact Or.inl rfl
    | corrupt => exact Or.inl rfl
    | ok x z p => exact Or.inr ⟨x, z, p, rfl, rfl⟩

/-- `read_snapshot(path=…)` on a delta file whose baseline is absent: same fallback as the etag branch. -/
theorem C07_path_fallback_read (d : Dir) (et ef : Str) (dp : J)
    (hd : d (.delta et) = .ok (some ef) true dp) (hb : d (.full ef) = .missing) :
    readPath d (.delta et) = readFull d et := by
  simp only [readPath, hd, hb, if_true]

/-- Writer fallback: delta requested, baseline file absent ⇒ a *full* snapshot of the payload is
    written (and nothing else changes). -/
theorem C07_auto_fallback_write (d : Dir) (ef : Option Str) (et : Str) (p : J)
    (h : ∀ e, ef = some e → d (.full e) = .missing) :
    writeAuto d ef et p true = some (d.put (.full et) (.ok none false p), Mode.full) := by
  cases ef with
  | none => rfl
  | some e =>
    simp only [writeAuto, h e rfl]
    split <;> rfl

/-- Reader fallback: a delta file whose baseline is absent is never patched onto anything — the
    reader answers exactly what the sibling full file gives: its payload, `{}` (absence), or the
    parse error of an unreadable file. -/
theorem C07_auto_fallback_read (d : Dir) (et ef : Str) (y : Bool) (dp : J)
    (hd : d (.delta et) = .ok (some ef) y dp) (hb : d (.full ef) = .missing) :
    readSnapshot d et = readFull d et ∧
    (readFull d et = .payload (.obj []) ∨ readFull d et = .raised ∨
      ∃ x z p, d (.full et) = .ok x z p ∧ readFull d et = .payload (orEmpty p)) := by
  constructor
  · simp only [readSnapshot, hd, hb]
    split <;> rfl
  · unfold readFull
    cases h : d (.full et) with
    | missing => exact Or.inl rfl
    | corrupt => exact Or.inr (Or.inl rfl)
    | ok x z p => exact Or.inr (Or.inr ⟨x, z, p, rfl, rfl⟩)

/-- An unreadable baseline makes both writer and reader raise (report, not reconstruct). -/
theorem C07_auto_corrupt_baseline_raises (d : Dir) (ef et : Str) (p dp : J) (y : Bool) (hef : ef ≠ [])
    (hb : d (.full ef) = .corrupt) :
    writeAuto d (some ef) et p true = none ∧
    (d (.delta et) = .ok (some ef) y dp → readSnapshot d et = .raised) := by
  have he : ef.isEmpty = false := by cases ef <;> simp_all
  constructor
  · simp only [writeAuto, he, hb]; rfl
  · intro hd
    simp only [readSnapshot, hd, he, hb]; rfl

/-- non-vacuity of the file-level statements: a concrete directory. -/
example : ∃ d' , writeAuto (Dir.put (fun _ => FileSt.missing) (.full [101]) (.ok none false (.obj [([97, 46, 98], .int 1)])))
    (some [101]) [102] (.obj [([97, 46, 98], .bool true)]) true = some (d', Mode.delta) := ⟨_, rfl⟩

end Clem.Props.C07
