/-
C06 — Snapshots round-trip the state they were written from.

All statements are about the definitions in `Clem/Model/Snap.lean` that the driver executes against
`clematis/engine/snapshot.py` (with `proposed_fixes/C06_nonfinite_weight_clamp.diff`).
They hold for every float carrier satisfying `WLaws` and every `str()/float()/int()` satisfying
`CvLaws`; `optOps`/`idCv` below discharge those hypotheses for a concrete carrier with a NaN
(non-vacuity), the harness monitors them on IEEE doubles and the real `round`.
-/
import Clem.Proofs.Snap

namespace Clem.Props
open Clem.Snap Clem.Py.JV

/-! ## a concrete carrier: integers on a grid of 10, with a NaN (`none`) -/

def optOps : WOps (Option Int) :=
  { lt := fun a c => match a, c with
      | some x, some y => decide (x < y)
      | _, _ => false
    fin := Option.isSome
    round := fun a => a.map (fun x => 10 * ((x + 5) / 10))
    abs := fun a => a.map (fun x => if x < 0 then -x else x)
    zero := some 0
    one := some 1000
    negOne := some (-1000)
    isZero := fun a => a == some 0 }

def idCv : Cv (Option Int) :=
  { pyStr := fun
      | .str s => s
      | _ => []
    pyFloat := fun
      | .num x => some x
      | _ => none
    pyInt := fun
      | .int n => some n
      | _ => none }

theorem C06_conv_laws_nonvacuous : CvLaws idCv := ⟨fun _ => rfl, fun _ => rfl, fun _ => rfl⟩

theorem C06_carrier_laws_nonvacuous (lo hi e : Int) (h : lo < hi) : WLaws optOps ⟨some lo, some hi, some e⟩ where
  lt_irrefl := by intro a; cases a <;> simp [optOps]
  lt_asymm := by intro a c; cases a <;> cases c <;> simp [optOps]; omega
  lo_lt_hi := by simp [optOps, h]
  fin_zero := rfl
  round_zero := by decide
  round_fin := by intro x; cases x <;> simp [optOps]
  round_idem := by intro x; cases x <;> simp [optOps]; omega
  round_const_up := by
    intro x y; cases x <;> cases y <;> simp [optOps]; omega
  round_const_dn := by
    intro x y; cases x <;> cases y <;> simp [optOps]; omega
  prune_lo := by
    intro x; cases x <;> simp [optOps, round6]
    intro h0 hx; split <;> split <;> omega
  prune_hi := by
    intro x; cases x <;> simp [optOps, round6]
    intro h0 hx; split <;> split <;> omega

section Main
variable {W : Type} {o : WOps W} {cv : Cv W} {b : Bounds W}

/-! ## per-weight pipeline: clamp → round6 → ε-prune -/

/-- The weight pipeline is idempotent *as computed* (it does not rely on the result lying inside
bounds that have more than six decimals). -/
theorem C06_sw_idempotent (L : WLaws o b) (w : W) : sw o b (sw o b w) = sw o b w := sw_idem L w

example : ∀ w, sw optOps ⟨some (-1000), some 1000, some 3⟩ (sw optOps ⟨some (-1000), some 1000, some 3⟩ w)
    = sw optOps ⟨some (-1000), some 1000, some 3⟩ w :=
  C06_sw_idempotent (C06_carrier_laws_nonvacuous _ _ _ (by decide))

/-- Negation witness for the code *before* `proposed_fixes/C06_nonfinite_weight_clamp.diff`:
with bounds `[500, 1000]` (0 outside) a NaN weight is written as 0, re-read as 500. -/
theorem C06_unrepaired_not_idempotent :
    swOld optOps ⟨some 500, some 1000, some 0⟩ (swOld optOps ⟨some 500, some 1000, some 0⟩ none)
      ≠ swOld optOps ⟨some 500, some 1000, some 0⟩ none := by decide

/-- the repaired pipeline on the same input is a fixed point -/
example : sw optOps ⟨some 500, some 1000, some 0⟩ none = some 500 := by decide

/-- NaN ↦ 0.0 whenever 0.0 lies within the bounds. -/
theorem C06_nonfinite_nan (L : WLaws o b) {w : W} (hnf : o.fin w = false)
    (h1 : o.lt w b.wmin = false) (h2 : o.lt b.wmax w = false)
    (z1 : o.lt o.zero b.wmin = false) (z2 : o.lt b.wmax o.zero = false) : sw o b w = o.zero :=
  sw_nan_zero L hnf h1 h2 z1 z2

example : sw optOps ⟨some (-1000), some 1000, some 0⟩ none = some 0 :=
  C06_nonfinite_nan (C06_carrier_laws_nonvacuous _ _ _ (by decide)) rfl rfl rfl rfl rfl

/-- NaN in general: the in-bounds value nearest 0.0, rounded and pruned. -/
theorem C06_nonfinite_nan_general {w : W} (hnf : o.fin w = false) (h1 : o.lt w b.wmin = false)
    (h2 : o.lt b.wmax w = false) :
    sw o b w = prune o b.eps (round6 o (clamp o o.zero b.wmin b.wmax)) := sw_nan hnf h1 h2

/-- `+inf` (anything above the upper bound) ↦ the rounded upper bound. -/
theorem C06_nonfinite_above {w : W} (h1 : o.lt w b.wmin = false) (h2 : o.lt b.wmax w = true)
    (hf : o.fin b.wmax = true) : sw o b w = prune o b.eps (o.round b.wmax) := sw_above h1 h2 hf

/-- `-inf` (anything below the lower bound) ↦ the rounded lower bound. -/
theorem C06_nonfinite_below {w : W} (h1 : o.lt w b.wmin = true) (hf : o.fin b.wmin = true) :
    sw o b w = prune o b.eps (o.round b.wmin) := sw_below h1 hf

example : sw optOps ⟨some (-1000), some 1000, some 0⟩ (some 123456) = some 1000 := by decide

/-- `_graph_bounds_from_cfg` never yields inverted or NaN bounds. -/
theorem C06_bounds_ordered (h : o.lt o.negOne o.one = true) (gmin tmin gmax tmax e : Option W) :
    o.lt (mkBounds o gmin tmin gmax tmax e).wmin (mkBounds o gmin tmin gmax tmax e).wmax = true :=
  mkBounds_lt h gmin tmin gmax tmax e

/-! ## dictionaries: first position, last value -/

/-- Re-assigning an existing key keeps every key where it was … -/
theorem C06_collapse_keeps_position {V : Type} (k : Str) (v : V) (l : List (Str × V))
    (h : k ∈ keys l) : keys (ainsert k v l) = keys l := keys_ainsert_of_mem v h

/-- … and the value read back is the last one written. -/
theorem C06_collapse_last_value {V : Type} (k : Str) (v : V) (l : List (Str × V)) :
    aget k (ainsert k v l) = some v := aget_ainsert_self k v l

/-- other keys are untouched -/
theorem C06_collapse_other_untouched {V : Type} (k k' : Str) (v : V) (l : List (Str × V))
    (h : k' ≠ k) : aget k' (ainsert k v l) = aget k' l := aget_ainsert_other v l h

/-! ## sanitise / canonical form -/

/-- `_sanitize_gel_for_write` is idempotent: sanitising its own output (as the JSON value it is)
returns that output unchanged — nodes, edge order, keys, weights, meta. -/
theorem C06_sanitize_idempotent (L : WLaws o b) (C : CvLaws cv) {g : J W} {S : Gel W}
    (h : sanitizeW o cv b g = some S) : sanitizeW o cv b S.toJ = some S :=
  sanitizeW_fix C (sanitizeW_san (sw_idem L) h)

/-- The `gel` section `write_snapshot` stores (sanitise, then canonical `src→dst` re-keying with
first-position/last-value collapse) is a fixed point of the write path … -/
theorem C06_canon_idempotent (L : WLaws o b) (C : CvLaws cv) {g : J W} {G : Gel W}
    (h : canonW o cv b g = some G) : canonW o cv b G.toJ = some G :=
  canonW_fix C (canonW_canon C (sw_idem L) h)

/-- … and of the load path: what `load_latest_snapshot` rebuilds from the written section is the
written section itself (insertion order included). -/
theorem C06_canon_load (L : WLaws o b) (C : CvLaws cv) {g : J W} {G : Gel W}
    (h : canonW o cv b g = some G) : canonL o cv b G.toJ = some G :=
  canonL_fix C (canonW_canon C (sw_idem L) h)

/-- every stored weight is a fixed point of the weight pipeline (clamped, rounded, pruned) -/
theorem C06_written_weights_sanitised (L : WLaws o b) (C : CvLaws cv) {g : J W} {G : Gel W}
    (h : canonW o cv b g = some G) : ∀ p ∈ G.edges, ∃ s d r w u a x,
      p.2 = .obj (edgeRec s d r w u a ++ x) ∧ sw o b w = w := by
  intro p hp
  obtain ⟨s, d, r, w, u, a, hw, hc⟩ := (canonW_canon C (sw_idem L) h).2.1.2.1 p hp
  rcases hc with ⟨_, rfl⟩ | ⟨_, rfl⟩
  · exact ⟨s, d, r, w, u, a, [], by simp, hw⟩
  · exact ⟨s, d, r, w, u, a, _, rfl, hw⟩

/-! ## load ∘ write -/

/-- **load ∘ write.** Loading the body written from state `i` into a fresh state sets
`version_etag = str(version)`, restores the graph to exactly the canonical form that was written,
and returns the written version. (`hG`: sanitisation did not raise, i.e. `graph.meta` is a dict or
falsy — see `C06_fixpoint_needs_meta_dict`.) -/
theorem C06_load_write (L : WLaws o b) (C : CvLaws cv) (i : WriteIn W) (fresh : Store W) {G : Gel W}
    (hG : canonW o cv b (graphState o i) = some G) :
    ∃ l, loadFrom o cv b (payloadOf o cv b i) fresh = some l ∧
      l.graph = G ∧ l.ver = i.version ∧
      l.version = (if isNull i.version then none else some (cv.pyStr i.version)) ∧
      l.store = (loadStore o cv fresh (some (exportStore i.store))).1 := by
  refine ⟨loadKV o cv b (payloadKV o cv b i) fresh, rfl, ?_, rfl, rfl, rfl⟩
  exact loadedGel_payload L C hG

/-- a string version is restored verbatim -/
theorem C06_load_version_str (C : CvLaws cv) (i : WriteIn W) (fresh : Store W)
    (v : Str) (hv : i.version = .str v) :
    ∃ l, loadFrom o cv b (payloadOf o cv b i) fresh = some l ∧ l.version = some v := by
  refine ⟨loadKV o cv b (payloadKV o cv b i) fresh, rfl, ?_⟩
  show (if isNull (getD kVersionEtag .null (payloadKV o cv b i)) then none
        else some (cv.pyStr (getD kVersionEtag .null (payloadKV o cv b i)))) = some v
  rw [payload_version, hv]
  simp [isNull, C.str_str]

/-- **store weights (and opaque store state) are restored exactly, in order.** -/
theorem C06_load_store (C : CvLaws cv) (i : WriteIn W) (fresh : Store W)
    (hs : StoreOk i.store fresh) :
    ∃ l, loadFrom o cv b (payloadOf o cv b i) fresh = some l ∧ l.store = i.store :=
  ⟨loadKV o cv b (payloadKV o cv b i) fresh, rfl, by
    show (loadStore o cv fresh (aget kStore (payloadKV o cv b i))).1 = i.store
    rw [payload_store]; exact loadStore_export C hs⟩

/-! ## write ∘ load ∘ write -/

theorem C06_reload_spec (L : WLaws o b) (C : CvLaws cv) {fresh : Store W} {i : WriteIn W}
    (h : Stable o cv b fresh i) :
    payloadOf o cv b (reload o cv b fresh i) = payloadOf o cv b i ∧
    Stable o cv b fresh (reload o cv b fresh i) := by
  obtain ⟨⟨v, hv⟩, ⟨G, hG⟩, hs⟩ := h
  have hl : loadFrom o cv b (payloadOf o cv b i) fresh = some (loadKV o cv b (payloadKV o cv b i) fresh) := rfl
  have hgraph : (loadKV o cv b (payloadKV o cv b i) fresh).graph = G := loadedGel_payload L C hG
  have hstore : (loadKV o cv b (payloadKV o cv b i) fresh).store = i.store := by
    show (loadStore o cv fresh (aget kStore (payloadKV o cv b i))).1 = i.store
    rw [payload_store]; exact loadStore_export C hs
  have hver : (loadKV o cv b (payloadKV o cv b i) fresh).version = some v := by
    show (if isNull (getD kVersionEtag .null (payloadKV o cv b i)) then none
          else some (cv.pyStr (getD kVersionEtag .null (payloadKV o cv b i)))) = some v
    rw [payload_version, hv]; simp [isNull, C.str_str]
  have hre : reload o cv b fresh i =
      { i with version := .str v, store := i.store, graph := G.toJ, gel := G.toJ } := by
    unfold reload; rw [hl]; simp only [rewriteIn, hgraph, hstore, hver]
  have hgs : graphState o (reload o cv b fresh i) = G.toJ := by
    rw [hre]; exact graphState_toJ _ G rfl
  have hcan : canonW o cv b (graphState o (reload o cv b fresh i)) = some G := by
    rw [hgs]; exact C06_canon_idempotent L C hG
  constructor
  · unfold payloadOf payloadKV
    rw [gelSection_of hcan, gelSection_of hG, hre]
    simp only [hv]
  · refine ⟨⟨v, by rw [hre]⟩, ⟨G, hcan⟩, ?_⟩
    rw [hre]; exact hs

/-- **Byte fixpoint.** `write(load(write s)) = write s` as ordered JSON values: same keys in the
same order at every level, same floats — hence the same bytes under any serialiser that is a
function of the ordered value (`json.dumps`). -/
theorem C06_byte_fixpoint (L : WLaws o b) (C : CvLaws cv) {fresh : Store W} {i : WriteIn W}
    (h : Stable o cv b fresh i) :
    ∃ l, loadFrom o cv b (payloadOf o cv b i) fresh = some l ∧
      payloadOf o cv b (rewriteIn i l) = payloadOf o cv b i := by
  refine ⟨loadKV o cv b (payloadKV o cv b i) fresh, rfl, ?_⟩
  have := (C06_reload_spec L C h).1
  unfold reload at this
  exact this

theorem C06_byte_fixpoint_bytes {β : Type} (ser : J W → β) (L : WLaws o b) (C : CvLaws cv)
    {fresh : Store W} {i : WriteIn W} (h : Stable o cv b fresh i) :
    ser (payloadOf o cv b (reload o cv b fresh i)) = ser (payloadOf o cv b i) := by
  rw [(C06_reload_spec L C h).1]

/-- **All write-load-write chains**: after any number of reloads the body is the first body. -/
theorem C06_chain (L : WLaws o b) (C : CvLaws cv) {fresh : Store W} {i : WriteIn W}
    (h : Stable o cv b fresh i) (n : Nat) :
    payloadOf o cv b (reloadN o cv b fresh n i) = payloadOf o cv b i ∧
    Stable o cv b fresh (reloadN o cv b fresh n i) := by
  induction n with
  | zero => exact ⟨rfl, h⟩
  | succ k ih =>
    have := C06_reload_spec L C ih.2
    exact ⟨this.1.trans ih.1, this.2⟩

/-- From the second write on the hypotheses hold by construction: whatever the first state was
(as long as its version is a string and the stores are compatible), the state after one reload is
stable — in particular malformed graphs only cost the first rewrite. -/
theorem C06_stable_after_reload (L : WLaws o b) (C : CvLaws cv) {fresh : Store W} {i : WriteIn W}
    (h : Stable o cv b fresh i) : Stable o cv b fresh (reload o cv b fresh i) :=
  (C06_reload_spec L C h).2

/-! ## schema marker -/

/-- every body `write_snapshot` produces carries `schema_version = "v1"` — on the normal and on
the fallback branch alike -/
theorem C06_schema_marker (i : WriteIn W) : hasMarker (payloadOf o cv b i) = true := rfl

/-- … and so does the `.meta` sidecar -/
theorem C06_schema_marker_sidecar (createdAt : Str) : hasMarker (sidecarOf (W := W) createdAt) = true := rfl

/-- the marker sits at a fixed position of a fixed key order -/
theorem C06_payload_keys (i : WriteIn W) : keys (payloadKV o cv b i) =
    [kTurn, kAgent, kVersionEtag, kApplied, kDeltas, kSchemaVersion, kStore, kGraphSchemaVersion,
     kGel, kGraph] := rfl

end Main

/-! ## discovery -/

/-- Whatever `_pick_latest_snapshot_path` returns is a member of the listing whose name ends in
`.json`; it is therefore never a `.meta` sidecar and never an atomic-write temporary. -/
theorem C06_pick_json_only {l : List Ent} {n : Str} (h : pickLatest l = some n) :
    (∃ e ∈ l, e.name = n) ∧ endsWith n sDotJson = true ∧ endsWith n sDotMeta = false ∧
      isAtomicTemp n = false := by
  have hj : (∃ e ∈ l, e.name = n) ∧ endsWith n sDotJson = true := by
    rcases pickLatest_cases l with ⟨e, he, hm, hj, _⟩ | ⟨_, e, he, hm, hj, _⟩ | ⟨_, _, e, he, hm, hj, _⟩ | ⟨hn, _⟩
    · rw [he] at h; cases h; exact ⟨⟨e, hm, rfl⟩, hj⟩
    · rw [he] at h; cases h; exact ⟨⟨e, hm, rfl⟩, hj⟩
    · rw [he] at h; cases h; exact ⟨⟨e, hm, rfl⟩, hj⟩
    · rw [hn] at h; cases h
  exact ⟨hj.1, hj.2, not_meta_of_json hj.2, not_temp_of_json hj.2⟩


/-- Discovery never returns a name of the atomic-write temporary shape (`<final>.XXXXXXXX`, no dot
in the 8-character suffix).  The hypothesis `isAtomicTemp t = true` is decided by the driver on the
names the real `clematis.io.atomic._make_tmp` produces (monitor `lean.real_temps_have_temp_shape`). -/
theorem C06_pick_never_temp {l : List Ent} {n t : Str} (h : pickLatest l = some n)
    (ht : isAtomicTemp t = true) : n ≠ t := by
  intro e
  have := (C06_pick_json_only h).2.2.2
  rw [e, ht] at this
  cases this

/-- the shape a suffix-preserving temp (`state_A.json.abcd1234.json`) would have is *not* covered -/
example : isAtomicTemp [115,116,97,116,101,95,65,46,106,115,111,110,46,97,98,99,100,49,50,51,52,46,106,115,111,110] = false := by decide

/-- `None` exactly when the directory holds no `.json` name at all -/
theorem C06_pick_none_iff (l : List Ent) :
    pickLatest l = none ↔ ∀ e ∈ l, endsWith e.name sDotJson = false := by
  constructor
  · intro h
    rcases pickLatest_cases l with ⟨e, he, _⟩ | ⟨_, e, he, _⟩ | ⟨_, _, e, he, _⟩ | ⟨_, hn⟩
    · rw [he] at h; cases h
    · rw [he] at h; cases h
    · rw [he] at h; cases h
    · exact hn
  · intro h
    rcases pickLatest_cases l with ⟨e, _, hm, hj, _⟩ | ⟨_, e, _, hm, hj, _⟩ | ⟨_, _, e, _, hm, hj, _⟩ | ⟨hn, _⟩
    · have := h e hm; simp [isJson] at hj; rw [hj] at this; cases this
    · have := h e hm; simp [isJson] at hj; rw [hj] at this; cases this
    · have := h e hm; simp [isJson] at hj; rw [hj] at this; cases this
    · exact hn

/-- precedence 1: if any `snap_<digits>.json` exists, the result is one with the largest number -/
theorem C06_pick_precedence_snap {l : List Ent} {x : Ent} (hx : x ∈ l)
    (hj : endsWith x.name sDotJson = true) (hn : isNumbered x.name = true) :
    ∃ e ∈ l, pickLatest l = some e.name ∧ isNumbered e.name = true ∧
      ∀ y ∈ l, endsWith y.name sDotJson = true → isNumbered y.name = true → numOf y ≤ numOf e := by
  rcases pickLatest_cases l with ⟨e, he, hm, _, hnum, hmax⟩ | ⟨hnn, _⟩ | ⟨hnn, _⟩ | ⟨_, hnj⟩
  · exact ⟨e, hm, he, hnum, hmax⟩
  · have := hnn x hx hj; rw [hn] at this; cases this
  · have := hnn x hx hj; rw [hn] at this; cases this
  · have := hnj x hx; simp [isJson] at this; rw [hj] at this; cases this

/-- precedence 2: no numbered snapshot but some `state_*.json` ⇒ the newest `state_*.json` -/
theorem C06_pick_precedence_state {l : List Ent} {x : Ent} (hx : x ∈ l)
    (hj : endsWith x.name sDotJson = true) (hs : startsWith x.name sStatePfx = true)
    (hno : ∀ y ∈ l, endsWith y.name sDotJson = true → isNumbered y.name = false) :
    ∃ e ∈ l, pickLatest l = some e.name ∧ startsWith e.name sStatePfx = true ∧
      ∀ y ∈ l, endsWith y.name sDotJson = true → startsWith y.name sStatePfx = true → y.mtime ≤ e.mtime := by
  rcases pickLatest_cases l with ⟨e, _, hm, hje, hnum, _⟩ | ⟨_, e, he, hm, _, hst, hmax⟩ | ⟨_, hns, _⟩ | ⟨_, hnj⟩
  · have := hno e hm hje; rw [hnum] at this; cases this
  · exact ⟨e, hm, he, hst, hmax⟩
  · have := hns x hx hj; rw [hs] at this; cases this
  · have := hnj x hx; simp [isJson] at this; rw [hj] at this; cases this

/-- precedence 3: otherwise the newest `*.json` -/
theorem C06_pick_precedence_any {l : List Ent} {x : Ent} (hx : x ∈ l)
    (hj : endsWith x.name sDotJson = true)
    (hno : ∀ y ∈ l, endsWith y.name sDotJson = true → isNumbered y.name = false)
    (hns : ∀ y ∈ l, endsWith y.name sDotJson = true → startsWith y.name sStatePfx = false) :
    ∃ e ∈ l, pickLatest l = some e.name ∧
      ∀ y ∈ l, endsWith y.name sDotJson = true → y.mtime ≤ e.mtime := by
  rcases pickLatest_cases l with ⟨e, _, hm, hje, hnum, _⟩ | ⟨_, e, _, hm, hje, hst, _⟩ | ⟨_, _, e, he, hm, _, hmax⟩ | ⟨_, hnj⟩
  · have := hno e hm hje; rw [hnum] at this; cases this
  · have := hns e hm hje; rw [hst] at this; cases this
  · exact ⟨e, hm, he, hmax⟩
  · have := hnj x hx; simp [isJson] at this; rw [hj] at this; cases this

/-- the Boolean monitor the driver evaluates on the implementation's choice holds of the model's -/
theorem C06_pickOk_model (l : List Ent) : pickOk l (pickLatest l) = true := by
  cases h : pickLatest l with
  | none =>
    have := (C06_pick_none_iff l).mp h
    simp only [pickOk, List.all_eq_true]
    intro e he; simp [this e he]
  | some n =>
    obtain ⟨⟨e, he, hn⟩, hj, hm, ht⟩ := C06_pick_json_only h
    simp only [pickOk, hj, hm, ht, Bool.and_true, Bool.not_false, List.any_eq_true]
    exact ⟨e, he, by simp [hn]⟩

/-- `state_A.json`, its sidecar, an atomic temp, a numbered snapshot and a foreign file:
the numbered snapshot wins; without it the state file; sidecar/temp are never chosen. -/
example : pickLatest [⟨[115,116,97,116,101,95,65,46,106,115,111,110], 5⟩,
    ⟨[115,116,97,116,101,95,65,46,106,115,111,110,46,109,101,116,97], 9⟩,
    ⟨[115,116,97,116,101,95,65,46,106,115,111,110,46,97,98,99,100,49,50,51,52], 9⟩,
    ⟨[115,110,97,112,95,48,49,50,46,106,115,111,110], 1⟩,
    ⟨[120,46,106,115,111,110], 7⟩] = some [115,110,97,112,95,48,49,50,46,106,115,111,110] := by decide
example : pickLatest [⟨[115,116,97,116,101,95,65,46,106,115,111,110], 5⟩,
    ⟨[115,116,97,116,101,95,65,46,106,115,111,110,46,109,101,116,97], 9⟩,
    ⟨[115,116,97,116,101,95,65,46,106,115,111,110,46,97,98,99,100,49,50,51,52], 9⟩,
    ⟨[120,46,106,115,111,110], 7⟩] = some [115,116,97,116,101,95,65,46,106,115,111,110] := by decide
example : isAtomicTemp [115,116,97,116,101,95,65,46,106,115,111,110,46,97,98,99,100,49,50,51,52] = true := by decide

/-! ## non-vacuity on a concrete state, and the out-of-domain witness -/
section Examples

def exB : Bounds (Option Int) := ⟨some (-1000), some 1000, some 0⟩
theorem C06_example_laws : WLaws optOps exB := C06_carrier_laws_nonvacuous _ _ _ (by decide)

/-- nodes in list form; edges `b→a (rel r, NaN)`, `c→a (no rel)`, `a→b (rel q, out of range)`:
the first and third collapse to the canonical key `a→b`. -/
def exGraph : J (Option Int) :=
  .obj [(kNodes, .arr [.obj [(kId, .str [97])], .obj [(kId, .str [98])], .null]),
        (kEdges, .arr [
          .obj [(kSrc, .str [98]), (kDst, .str [97]), (kRel, .str [114]), (kWeight, .num none)],
          .obj [(kSrc, .str [99]), (kDst, .str [97]), (kWeight, .num (some 234))],
          .obj [(kSrc, .str [97]), (kDst, .str [98]), (kRel, .str [113]), (kWeight, .num (some 123456))]])]

def exIn : WriteIn (Option Int) :=
  { turn := .int 3, agent := .str [65], version := .str [118, 49], applied := 0, deltas := .arr [],
    store := .wmap [([[110], [97], [119]], some 5), ([[110], [98], [119]], none)],
    graph := exGraph, gel := .null }

def weightOf {W : Type} : J W → Option W
  | .obj kv => match aget kWeight kv with
    | some (.num w) => some w
    | _ => none
  | _ => none

/-- first position (`a→b` before `a→c`), last value (weight of the third edge, clamped to 1000) -/
example : (canonW optOps idCv exB exGraph).map (fun G => keys G.edges)
    = some [[97, 8594, 98], [97, 8594, 99]] := by decide
example : (canonW optOps idCv exB exGraph).map (fun G => (aget [97, 8594, 98] G.edges).bind weightOf)
    = some (some (some 1000)) := by decide
example : (canonW optOps idCv exB exGraph).map (fun G => (aget [97, 8594, 99] G.edges).bind weightOf)
    = some (some (some 230)) := by decide

theorem C06_example_stable : Stable optOps idCv exB (.wmap []) exIn :=
  ⟨⟨_, rfl⟩, ⟨_, rfl⟩, StoreOk.wm _ _ (by decide) (by decide)⟩

example : payloadOf optOps idCv exB (reloadN optOps idCv exB (.wmap []) 3 exIn)
    = payloadOf optOps idCv exB exIn := (C06_chain C06_example_laws C06_conv_laws_nonvacuous C06_example_stable 3).1

example : ∃ l, loadFrom optOps idCv exB (payloadOf optOps idCv exB exIn) (.wmap []) = some l ∧
    l.store = exIn.store := C06_load_store C06_conv_laws_nonvacuous exIn _ C06_example_stable.store_ok

/-- key order of `gel.meta` inside a body -/
def metaKeysOf {W : Type} : J W → List Str
  | .obj kv => match aget kGel kv with
    | some (.obj g) => match aget kMeta g with
      | some (.obj m) => keys m
      | _ => []
    | _ => []
  | _ => []

def exBadMeta : WriteIn (Option Int) := { exIn with graph := .obj [(kMeta, .str [109])] }

/-- Outside the stated domain — `graph.meta` truthy but not a dict — `write_snapshot` falls back to
a literal whose `meta` key order differs from what every later write produces: the *first* rewrite
is then not byte-identical (all later ones are, `C06_stable_after_reload`).  This is why `Stable`
asks for `canonW … = some _`. -/
theorem C06_fixpoint_needs_meta_dict :
    canonW optOps idCv exB (graphState optOps exBadMeta) = none ∧
    payloadOf optOps idCv exB (reload optOps idCv exB (.wmap []) exBadMeta)
      ≠ payloadOf optOps idCv exB exBadMeta := by
  refine ⟨rfl, fun h => ?_⟩
  have := congrArg metaKeysOf h
  revert this
  decide

end Examples

/-! ## "clamped to the configured bounds": what holds, and what does not -/

/- Full-strength reading, **false** of the code as documented (round-after-clamp, ε-prune to 0):
     ∀ w, InRange o b (sw o b w)
   — a bound with more than six decimals is overshot by its own rounding, and pruning writes 0.0
   even when 0.0 is outside the bounds.  Negation witnesses below; the provable part is
   `C06_weight_in_rounded_bounds_partial`. -/

/-- A written weight is either `0.0` (ε-pruned or nothing finite) or `round6` of a finite value
that lies within the bounds. -/
theorem C06_weight_in_rounded_bounds_partial {W : Type} {o : WOps W} {b : Bounds W} (L : WLaws o b)
    (w : W) : sw o b w = o.zero ∨ ∃ x, InRange o b x ∧ o.fin x = true ∧ sw o b w = o.round x := by
  by_cases hf : o.fin (pre o b w) = true
  · by_cases hl : o.lt (o.abs (o.round (pre o b w))) b.eps = true
    · left; rw [sw_eq]; unfold prune round6; simp [hf, hl]
    · right
      exact ⟨pre o b w, pre_inRange L w, hf, by rw [sw_eq]; unfold prune round6; simp [hf, hl]⟩
  · left
    rw [sw_eq]
    have : round6 o (pre o b w) = o.zero := by unfold round6; simp [hf]
    rw [this]; exact prune_zero _

/-- witness 1: upper bound 1006 on a grid of 10 — the clamped value 1006 rounds to 1010 > 1006 -/
theorem C06_weight_can_overshoot_bound :
    ¬ InRange optOps ⟨some (-1000), some 1006, some 0⟩
        (sw optOps ⟨some (-1000), some 1006, some 0⟩ (some 2000)) := by unfold InRange; decide

/-- witness 2: bounds `[500, 1000]`, ε = 600: 520 is pruned to 0, which is below the lower bound -/
theorem C06_prune_can_leave_bounds :
    ¬ InRange optOps ⟨some 500, some 1000, some 600⟩
        (sw optOps ⟨some 500, some 1000, some 600⟩ (some 520)) := by unfold InRange; decide

example : ∃ x, InRange optOps ⟨some (-1000), some 1006, some 0⟩ x ∧
    sw optOps ⟨some (-1000), some 1006, some 0⟩ (some 2000) = optOps.round x :=
  ⟨some 1006, by unfold InRange; decide, by decide⟩

/-! ## writer → picker: the last write into a shared snapshot directory is the one a boot loads

`write_snapshot` replaces `state_<agent>.json`; the OS stamps the new file with the time of the write.  The harness
component `snap.lastwrite` checks the hypothesis on real file times (`rewrite_carries_a_newer_time`) and the conclusion
on the real loader (`latest_written_is_loaded`). -/

/-- a directory after `state_<agent>.json` was (re-)written at time `t`: the old entry of that name is gone -/
def writeAt (l : List Ent) (n : Str) (t : Int) : List Ent := l.filter (fun e => e.name != n) ++ [⟨n, t⟩]

/-- in ANY listing order: a `state_*.json` entry strictly newer than every other entry is the one picked, as long as
the directory holds no numbered `snap_*.json` -/
theorem C06_newest_state_is_picked {l : List Ent} {n : Str} {t : Int} (hm : (⟨n, t⟩ : Ent) ∈ l)
    (hj : endsWith n sDotJson = true) (hs : startsWith n sStatePfx = true)
    (hno : ∀ y ∈ l, endsWith y.name sDotJson = true → isNumbered y.name = false)
    (hnew : ∀ y ∈ l, y ≠ (⟨n, t⟩ : Ent) → y.mtime < t) : pickLatest l = some n := by
  obtain ⟨e, he, hp, _, hmax⟩ := C06_pick_precedence_state (x := ⟨n, t⟩) hm hj hs hno
  have h1 : t ≤ e.mtime := hmax ⟨n, t⟩ hm hj hs
  by_cases heq : e = (⟨n, t⟩ : Ent)
  · rw [hp, heq]
  · have := hnew e he heq; omega

/-- one write at a time later than everything in the directory is what the next boot picks -/
theorem C06_last_write_is_picked {l : List Ent} {n : Str} {t : Int}
    (hj : endsWith n sDotJson = true) (hs : startsWith n sStatePfx = true)
    (hno : ∀ y ∈ l, endsWith y.name sDotJson = true → isNumbered y.name = false)
    (hnew : ∀ y ∈ l, y.mtime < t) : pickLatest (writeAt l n t) = some n := by
  have hnn : isNumbered n = false := by
    cases h : isNumbered n with
    | false => rfl
    | true =>
      exfalso
      unfold isNumbered at h
      simp only [Bool.and_eq_true] at h
      have h1 := h.1
      match n, hs, h1 with
      | [], hs, _ => simp [startsWith, sStatePfx, List.isPrefixOf] at hs
      | [_], hs, _ => simp [startsWith, sStatePfx, List.isPrefixOf] at hs
      | a :: b :: _, hs, h1 =>
        simp [startsWith, sStatePfx, sSnap, List.isPrefixOf] at hs h1
        omega
  apply C06_newest_state_is_picked (t := t) _ hj hs
  · intro y hy hyj
    unfold writeAt at hy
    rcases List.mem_append.mp hy with hy | hy
    · exact hno y (List.mem_filter.mp hy).1 hyj
    · simp only [List.mem_singleton] at hy; rw [hy]; exact hnn
  · intro y hy hne
    unfold writeAt at hy
    rcases List.mem_append.mp hy with hy | hy
    · exact hnew y (List.mem_filter.mp hy).1
    · simp only [List.mem_singleton] at hy; exact absurd hy hne
  · unfold writeAt; simp

/-- `state_A.json`, `state_B.json` -/
def stA : Str := sStatePfx ++ [65] ++ sDotJson
def stB : Str := sStatePfx ++ [66] ++ sDotJson

/-- non-vacuity, and why the hypothesis on the times is needed: A written at 1, B at 2, A re-written at 3 — the boot
loads A; a writer that keeps the replaced file's times (A stays stamped 1) leaves the stale B "latest" -/
theorem C06_time_preserving_writer_loads_stale :
    pickLatest (writeAt [⟨stA, 1⟩, ⟨stB, 2⟩] stA 3) = some stA ∧
    pickLatest (writeAt [⟨stA, 1⟩, ⟨stB, 2⟩] stA 1) = some stB := by decide

example : pickLatest (writeAt [⟨stA, 1⟩, ⟨stB, 2⟩] stA 3) = some stA :=
  C06_last_write_is_picked (by decide) (by decide) (by decide) (by decide)

end Clem.Props
