import Clem.Props.C18.Main
import Clem.Props.C18.Real

/-!
# C18 — GEL edge weights stay bounded, decay monotonically, keys canonical

* `Clem/Props/C18/Main.lean` — the property theorems, generic in a linearly ordered field;
* `Clem/Props/C18/Real.lean` — the `pow` hypothesis discharged for the real power function.
-/
