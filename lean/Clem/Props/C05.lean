import Clem.Proofs.CacheKeys

/-!
# C05 — Caches are transparent: a hit equals a fresh computation

Property theorems only.  Generic part: `Clem/Model/KeySuff.lean` (+ `Clem/Proofs/KeySuff.lean`); key
functions and read-sets of the three caches of the code: `Clem/Model/CacheKeys.lean` (the driver executes
`t1Eff`, `t2QText`, `turnKey`, `runOps` against the real `ckey`s and the real containers).

Structure of the argument for every cache of the engine:
1. every container is a `CacheSem` (hits return only what was put under the same key; nothing else ever
   adds a retrievable entry): `LRUBytes`, the TTL LRU with its clock, the switched-off cache;
2. for ANY `CacheSem`, ANY history of requests interleaved with other cache operations (clock ticks, expiry,
   eviction, invalidation) and ANY stage `f`: sufficient key ⇒ cached run = uncached run
   (`C05_transparent_of_sufficient`), and an insufficient key + a retained entry ⇒ a wrong answer
   (`C05_not_transparent_of_insufficient`);
3. sufficiency of each concrete key over the explicit read-set of its stage — full strength for the T1 key
   (content-derived etag, `perf_enabled` keyed) and for the repaired turn-level key (`_t2_turn_key_context`), each
   under the faithfulness of the version components it carries; for the repaired T2 stage key (label map, hybrid +
   GEL digest, index identity, whole quality digest) under `IndexVersionFaithful` and equal `rest`; negation
   witnesses for what still refutes those hypotheses and, as history, for the keys before the repairs.
-/

namespace Clem.CacheKeys
open Clem.KeySuff

/-! ## 1. generic transparency -/

/-- **Transparency** for any cache semantics, any history, any stage. -/
theorem C05_transparent_of_sufficient {σ K V X : Type} (C : CacheSem σ K V) (key : X → K) (f : X → V)
    (hs : Sufficient key f) (es : List (Ev X)) (s : σ) (hg : Good C key f s) :
    runCached C key f s es = runUncached f es :=
  transparent_of_sufficient C key f hs es s hg

/-- The same statement about the function the driver executes. -/
theorem C05_runOps_transparent {σ K V X : Type} (C : CacheSem σ K V) (key : X → K) (f : X → V)
    (hs : Sufficient key f) (es : List (Ev X)) (s : σ) (hg : Good C key f s) :
    runOps (CacheOps.ofSem C) key f s es = runUncached f es := by
  rw [runOps_eq]; exact transparent_of_sufficient C key f hs es s hg

/-- **Necessity**: a key that is not sufficient gives a wrong answer as soon as the entry is retained. -/
theorem C05_not_transparent_of_insufficient {σ K V X : Type} (C : CacheSem σ K V) (key : X → K) (f : X → V)
    (x x' : X) (hk : key x = key x') (hf : f x ≠ f x') (s : σ)
    (hmiss : (C.get s (key x)).2 = none)
    (hret : (C.get (C.put (C.get s (key x)).1 (key x) (f x)) (key x)).2 = some (f x)) :
    runCached C key f s [.req x, .req x'] ≠ runUncached f [.req x, .req x'] :=
  not_transparent_of_insufficient C key f x x' hk hf s hmiss hret

/-- An empty cache is a good starting state; goodness is kept along every history. -/
theorem C05_good_of_empty {σ K V X : Type} (C : CacheSem σ K V) (key : X → K) (f : X → V) (s : σ)
    (h : ∀ k v, ¬ C.holds s k v) : Good C key f s := good_of_empty C key f s h

theorem C05_good_invariant {σ K V X : Type} (C : CacheSem σ K V) (key : X → K) (f : X → V)
    (es : List (Ev X)) (s : σ) (h : Good C key f s) :
    Good C key f (es.foldl (fun st e => (stepCached C key f st e).1) s) := good_run C key f es s h

/-- A hit was computed from an input with the same key (what "never serves another agent's result"
reduces to once the owner is part of the key). -/
theorem C05_hit_has_witness {σ K V X : Type} (C : CacheSem σ K V) (key : X → K) (f : X → V) (s : σ)
    (hg : Good C key f s) (x : X) (v : V) (h : (C.get s (key x)).2 = some v) :
    ∃ x', key x' = key x ∧ f x' = v := hit_has_witness C key f s hg x v h

/-! ## 2. the containers of the code are cache semantics -/

/-- TTL LRU (`_NamespaceCache`, `LRUCache`, each `CacheManager` namespace): transparent for every cap, TTL,
clock behaviour (forwards, standing still, backwards) and invalidation schedule, from the empty cache. -/
theorem C05_ttl_transparent {X : Type} (max ttl now : Int) (key : X → Nat) (f : X → Nat)
    (hs : Sufficient key f) (es : List (Ev X)) :
    runOps ttlOps key f ⟨Clem.TtlLru.Ns.init max ttl, now⟩ es = runUncached f es := by
  rw [ttlOps_eq]
  refine C05_runOps_transparent ttlSem key f hs es _ (good_of_empty _ _ _ _ ?_)
  intro k v ⟨e, hm, _⟩
  simp [Clem.TtlLru.Ns.init] at hm

/-- `LRUBytes` (any entry/byte caps, any cost function, `clear` at any time). -/
theorem C05_bytes_transparent {X : Type} (maxE maxB : Nat) (cost : Nat → Nat → Int) (key : X → Nat) (f : X → Nat)
    (hs : Sufficient key f) (es : List (Ev X)) :
    runOps (bytesOps cost) key f (Clem.LruBytes.init maxE maxB) es = runUncached f es := by
  rw [bytesOps_eq]
  refine C05_runOps_transparent _ key f hs es _ (good_of_empty _ _ _ _ ?_)
  intro k v ⟨e, hm, _⟩
  simp [Clem.LruBytes.init] at hm

/-- A switched-off cache is transparent for EVERY key (no hypothesis on the key). -/
theorem C05_off_transparent {X : Type} (key : X → Nat) (f : X → Nat) (es : List (Ev X)) :
    runOps offOps key f () es = runUncached f es := by
  induction es with
  | nil => rfl
  | cons e es ih =>
    cases e <;> simp only [runOps, stepOps, offOps, runUncached, List.map_cons, stepUncached] <;>
      exact congrArg _ ih

/-- Non-vacuity: a concrete run (cap 2, TTL 300; key = parity, a sufficient key for `f = parity`), with a clock
tick in between — the third request is a hit and equals the fresh value. -/
example : runOps ttlOps (fun x : Nat => x % 2) (fun x => x % 2) ⟨Clem.TtlLru.Ns.init 2 300, 0⟩
    [.req 1, .req 3, .other 4, .req 1] = [some 1, some 1, none, some 1] := by decide

/-- Non-vacuity of the necessity theorem's hypotheses: parity key, `f = id` — the hit for `3` returns `1`. -/
example : runOps ttlOps (fun x : Nat => x % 2) (fun x => x) ⟨Clem.TtlLru.Ns.init 2 300, 0⟩
    [.req 1, .req 3] = [some 1, some 1] := by decide

/-- **Value sharing (model fact).**  The engine's caches keep the very object they hand out (reference semantics).
With the property's operation alphabet — turns, graph edits, memory adds, applies, agent switches, configuration
changes: none of them edits a result a stage has returned — by-reference storage behaves exactly like storage of
detached copies, hence is transparent for a sufficient key.  Formally: on every history without caller-edit events the
two semantics produce the same run … -/
theorem C05_reference_eq_copy_without_caller_edits {X : Type} (key : X → Nat) (f : X → List Nat) :
    ∀ (es : List (Ev X)) (s : AState), (∀ e ∈ es, ∃ x, e = Ev.req x) →
      runOps refOps key f s es = runOps copyOps key f s es := by
  intro es
  induction es with
  | nil => intro s _; rfl
  | cons e es ih =>
    intro s h
    obtain ⟨x, rfl⟩ := h e (List.mem_cons_self ..)
    have ih' := fun s' => ih s' (fun e' he' => h e' (List.mem_cons_of_mem _ he'))
    simp only [runOps, stepOps, refOps, copyOps] at ih' ⊢
    cases hg : (aGet s (key x)).2 <;> simp only [ih']

/-- … so the cache as the code has it (by reference) is transparent over every history of the property's alphabet. -/
theorem C05_reference_semantics_transparent {X : Type} (key : X → Nat) (f : X → List Nat) (hs : Sufficient key f)
    (es : List (Ev X)) (h : ∀ e ∈ es, ∃ x, e = Ev.req x) :
    runOps refOps key f ⟨[], none⟩ es = runUncached f es := by
  rw [C05_reference_eq_copy_without_caller_edits key f es _ h, copyOps_eq]
  refine C05_runOps_transparent copySem key f hs es _ (good_of_empty _ _ _ _ ?_)
  intro k v hh
  exact absurd hh (by simp [copySem, AHolds])

/-- Detached copies would additionally tolerate callers that edit their results (any history, edits included). -/
theorem C05_copy_semantics_transparent {X : Type} (key : X → Nat) (f : X → List Nat) (hs : Sufficient key f)
    (es : List (Ev X)) : runOps copyOps key f ⟨[], none⟩ es = runUncached f es := by
  rw [copyOps_eq]
  refine C05_runOps_transparent copySem key f hs es _ (good_of_empty _ _ _ _ ?_)
  intro k v h
  exact absurd h (by simp [copySem, AHolds])

/-- OUTSIDE THE PROPERTY (alphabet extended with a caller edit): request, the caller appends 9 to its result, same
request again — under reference semantics the hit returns the edited list.  This is why an in-repo regression that
makes engine code edit a cached / served object during an ordinary turn (e.g. adopting a cached delta list as an
accumulator) breaks transparency: it adds such an edit to every turn. -/
theorem C05_reference_semantics_with_caller_edit_not_transparent :
    runOps refOps (fun x : Nat => x) (fun x => [x]) ⟨[], none⟩ [.req 1, .other 9, .req 1]
      ≠ runUncached (fun x : Nat => [x]) [.req 1, .other 9, .req 1] := by decide

example : runOps copyOps (fun x : Nat => x) (fun x => [x]) ⟨[], none⟩ [.req 1, .other 9, .req 1]
    = [some [1], none, some [1]] := by decide

example : runOps refOps (fun x : Nat => x) (fun x => [x]) ⟨[], none⟩ [.req 1, .req 2, .req 1]
    = [some [1], some [2], some [1]] := by decide

/-- The TTL LRU retains a fresh entry (cap ≥ 1, clock unchanged): the necessity theorem applies to it. -/
theorem C05_ttl_retains (max ttl now : Int) (hm : 1 ≤ max) (ht : 0 ≤ ttl) (k v : Nat) :
    (ttlGet (ttlPut (ttlGet ⟨Clem.TtlLru.Ns.init max ttl, now⟩ k).1 k v) k).2 = some v := by
  have h1 : Clem.TtlLru.Ns.evictOver max [(⟨k, now, v⟩ : Clem.TtlLru.Entry)] = ([⟨k, now, v⟩], 0) :=
    Clem.TtlLru.evictOver_fits max _ (by simpa using hm)
  simp [ttlGet, ttlPut, Clem.TtlLru.Ns.get, Clem.TtlLru.Ns.set, Clem.TtlLru.Ns.init, Clem.TtlLru.lookup,
    Clem.TtlLru.without, h1, Clem.TtlLru.expired]
  rw [if_neg (by omega)]

/-! ## 3a. T1 stage cache: the repaired key is sufficient -/

/-- The key determines the effective caps, the seeds and (through a faithful etag) the graph. -/
theorem C05_t1_key_sufficient {E V : Type} (etagOf : Nat → E) (hinj : EtagFaithful etagOf)
    (seedsOf : Nat → Nat → List Nat) (compute : Nat → T1Eff → List Nat → V) :
    Sufficient (t1Key etagOf seedsOf) (t1Stage seedsOf compute) := by
  intro r r' h
  simp only [t1Key, T1Key.mk.injEq] at h
  obtain ⟨_, he, heff, hseeds⟩ := h
  have hg : r.graph = r'.graph := hinj _ _ he
  show compute r.graph (t1Eff r) (seedsOf r.graph r.text) = compute r'.graph (t1Eff r') (seedsOf r'.graph r'.text)
  rw [hseeds, heff, hg]

/-- Non-vacuity: the hypothesis is satisfiable (a content hash treated as injective: `id`). -/
example (seedsOf : Nat → Nat → List Nat) (compute : Nat → T1Eff → List Nat → Nat) :
    Sufficient (t1Key id seedsOf) (t1Stage seedsOf compute) :=
  C05_t1_key_sufficient id (fun _ _ h => h) seedsOf compute

/-- The order-preserving digest is faithful on the ordered adjacency … -/
theorem C05_ordered_digest_faithful (g g' : OEdges) (h : digestOrdered g = digestOrdered g') : g = g' := h

/-- … a sorted-id ("canonical, independent of upsert order") digest is NOT: same digest, different propagation
result under `relax_cap = 1` (a→b then a→c reaches {a,b}; a→c then a→b reaches {a,c}). -/
theorem C05_sorted_digest_not_faithful :
    ∃ g g' : OEdges, digestSorted g = digestSorted g' ∧ reachCapped 1 g 0 ≠ reachCapped 1 g' 0 :=
  ⟨ogOf 0, ogOf 1, by decide, by decide⟩

/-- Consequence: the T1 stage behind ANY of the code's containers is transparent over every history
(several states in one process included: the graph content, not the state, is what the key identifies). -/
theorem C05_t1_transparent {σ E V : Type} (C : CacheSem σ (T1Key E) V) (etagOf : Nat → E)
    (hinj : EtagFaithful etagOf) (seedsOf : Nat → Nat → List Nat) (compute : Nat → T1Eff → List Nat → V)
    (es : List (Ev T1Raw)) (s : σ) (hg : Good C (t1Key etagOf seedsOf) (t1Stage seedsOf compute) s) :
    runCached C (t1Key etagOf seedsOf) (t1Stage seedsOf compute) s es = runUncached (t1Stage seedsOf compute) es :=
  transparent_of_sufficient C _ _ (C05_t1_key_sufficient etagOf hinj seedsOf compute) es s hg

/-- The slice-effective budgets are what is keyed: two requests whose raw budgets differ but clamp to the
same effective values share a key — and a result. -/
example : t1Eff { gid := 0, graph := 0, text := 0, decay := 0, edgeMult := 0, radiusCap := 4, iterCap := 50,
                  iterCapLayers := 50, queueBudget := 10000, relaxCap := none, nodeBudget := 0,
                  sliceIters := some 1, slicePops := some 2, frontierCap := 0, visitedCap := 0, dedupeWindow := 0,
                  perfEnabled := false }
        = t1Eff { gid := 0, graph := 0, text := 0, decay := 0, edgeMult := 0, radiusCap := 4, iterCap := 50,
                  iterCapLayers := 1, queueBudget := 2, relaxCap := none, nodeBudget := 0,
                  sliceIters := none, slicePops := none, frontierCap := 0, visitedCap := 0, dedupeWindow := 0,
                  perfEnabled := false } := by decide

def t1Sample : T1Raw :=
  { gid := 1, graph := 7, text := 3, decay := 0, edgeMult := 0, radiusCap := 4, iterCap := 50, iterCapLayers := 50,
    queueBudget := 10000, relaxCap := none, nodeBudget := 0, sliceIters := none, slicePops := none,
    frontierCap := 1, visitedCap := 0, dedupeWindow := 0, perfEnabled := false }

/-- (history of the defect) An etag that is a function of the counts only is not faithful: graphs `7` and `8`
(same counts, an edge weight edited) share the legacy key while the stage result differs. -/
theorem C05_t1_counts_etag_insufficient :
    ∃ r r' : T1Raw, t1Key (fun _ => (4, 2)) (fun _ _ => [1]) r = t1Key (fun _ => (4, 2)) (fun _ _ => [1]) r' ∧
      t1Stage (fun _ _ => [1]) (fun g _ _ => g) r ≠ t1Stage (fun _ _ => [1]) (fun g _ _ => g) r' :=
  ⟨t1Sample, { t1Sample with graph := 8 }, by decide, by decide⟩

/-- The same witness at the level of the T1 key: with an order-insensitive etag two states whose stores hold the
same nodes and edges inserted in different orders share a key while the stage result differs. -/
theorem C05_t1_order_insensitive_etag_insufficient :
    ∃ r r' : T1Raw, t1Key (fun c => digestSorted (ogOf c)) (fun _ _ => [0]) r = t1Key (fun c => digestSorted (ogOf c)) (fun _ _ => [0]) r' ∧
      t1Stage (fun _ _ => [0]) (fun g e _ => reachCapped (e.relaxCap.getD 0).toNat (ogOf g) 0) r ≠
      t1Stage (fun _ _ => [0]) (fun g e _ => reachCapped (e.relaxCap.getD 0).toNat (ogOf g) 0) r' :=
  ⟨{ t1Sample with graph := 0, relaxCap := some 1 }, { t1Sample with graph := 1, relaxCap := some 1 }, by decide, by decide⟩

/-- (history of the defect) Without `perf_enabled` in `policy_caps` the key ignored whether the perf caps act. -/
theorem C05_t1_legacy_key_ignores_perf :
    ∃ r r' : T1Raw, t1KeyLegacy id (fun _ _ => [1]) r = t1KeyLegacy id (fun _ _ => [1]) r' ∧
      t1Stage (fun _ _ => [1]) (fun _ e _ => e.perfEnabled) r ≠ t1Stage (fun _ _ => [1]) (fun _ e _ => e.perfEnabled) r' :=
  ⟨t1Sample, { t1Sample with perfEnabled := true }, by decide, by decide⟩

/-! ## 3b. T2 stage cache -/

/-- Sufficiency of the repaired T2 key (label map, hybrid settings + GEL digest and the index identity are keyed).
What remains a hypothesis: `IndexVersionFaithful` — within ONE index object the version stands for the content
(append-only `add`: `C05_index_append_version_faithful`; refuted by an in-place upsert) — and `rest`: a custom
`ctx.enc` encoder object and the CONTENTS of an aliasing map file, which are not configuration values. -/
theorem C05_t2_key_sufficient_partial {V : Type} (compute : T2Eff → V) (r r' : T2Raw)
    (hk : t2Key r = t2Key r')
    (hIndexFaithful : IndexVersionFaithful r r')
    (hRest : r.rest = r'.rest) :
    t2Stage compute r = t2Stage compute r' := by
  have hv : r.indexVer = r'.indexVer := congrArg T2Key.indexVer hk
  have ht : r.indexTok = r'.indexTok := congrArg T2Key.indexTok hk
  simp only [t2Stage, t2Eff, hk, hIndexFaithful ht hv, hRest]

/-- The repaired dimensions are part of the key: equal keys ⇒ equal label map, hybrid/GEL digest and index object. -/
theorem C05_t2_repaired_dims_keyed (r r' : T2Raw) (hk : t2Key r = t2Key r') :
    r.labelMap = r'.labelMap ∧ r.hybrid = r'.hybrid ∧ r.indexTok = r'.indexTok ∧ r.quality = r'.quality :=
  ⟨congrArg T2Key.labelMap hk, congrArg T2Key.hybrid hk, congrArg T2Key.indexTok hk, congrArg T2Key.quality hk⟩

/-- Append-only `add` keeps the version faithful within one index object: along any history of adds the version
counts the rows, so two moments of the same index with equal versions hold the same rows. -/
theorem C05_index_append_version (m : MemIdx) (l : List (Nat × Nat)) :
    (m.runAppend l).ver = m.ver + l.length ∧ (m.runAppend l).eps = m.eps ++ l := by
  induction l generalizing m with
  | nil => simp [MemIdx.runAppend]
  | cons e l ih =>
    have := ih (m.addAppend e)
    simp only [MemIdx.runAppend, List.foldl_cons] at this ⊢
    refine ⟨by rw [this.1]; simp [MemIdx.addAppend]; omega, by rw [this.2]; simp [MemIdx.addAppend]⟩

theorem C05_index_append_version_faithful (m : MemIdx) (l1 l2 : List (Nat × Nat))
    (h : (m.runAppend l1).ver = (m.runAppend (l1 ++ l2)).ver) : (m.runAppend l1).eps = (m.runAppend (l1 ++ l2)).eps := by
  have a := C05_index_append_version m l1
  have b := C05_index_append_version m (l1 ++ l2)
  rw [a.1, b.1, List.length_append] at h
  have : l2 = [] := List.length_eq_zero_iff.mp (by omega)
  subst this; simp

/-- Negation witness for an in-place upsert: the stored row changes, the version does not — the T2 key
(`index_version` is its only memory component) cannot tell the two index contents apart. -/
theorem C05_index_upsert_not_version_faithful :
    ∃ (m : MemIdx) (ep : Nat × Nat), (m.addUpsert ep).ver = m.ver ∧ (m.addUpsert ep).eps ≠ m.eps :=
  ⟨⟨[(1, 10), (2, 20)], 2⟩, (1, 11), by decide, by decide⟩

/-- The owner filter is part of the key: requests with equal keys have the same owner scope and owner. -/
theorem C05_t2_owner_keyed (r r' : T2Raw) (hk : t2Key r = t2Key r') :
    r.ownerScope = r'.ownerScope ∧ r.owner = r'.owner :=
  ⟨congrArg T2Key.ownerScope hk, congrArg T2Key.owner hk⟩

/-- **No cross-agent service**: in any good cache state a hit for agent `r.owner` was computed for a request
with the same owner (and the same fetch size, date, ranking weights, …). -/
theorem C05_t2_hit_same_owner {σ V : Type} (C : CacheSem σ T2Key V) (compute : T2Eff → V) (s : σ)
    (hg : Good C t2Key (t2Stage compute) s) (r : T2Raw) (v : V) (h : (C.get s (t2Key r)).2 = some v) :
    ∃ r', t2Stage compute r' = v ∧ r'.owner = r.owner ∧ r'.ownerScope = r.ownerScope ∧
      r'.kRetrieval = r.kRetrieval ∧ r'.now = r.now ∧ r'.rank = r.rank ∧ r'.residualCap = r.residualCap := by
  obtain ⟨r', hk, hv⟩ := hit_has_witness C t2Key (t2Stage compute) s hg r v h
  exact ⟨r', hv, congrArg T2Key.owner hk, congrArg T2Key.ownerScope hk, congrArg T2Key.kRetrieval hk,
    congrArg T2Key.now hk, congrArg T2Key.rank hk, congrArg T2Key.residualCap hk⟩

/-- The query that is keyed is the EFFECTIVE query: text and T1 labels enter the stage only through it. -/
theorem C05_t2_qtext_keyed (r r' : T2Raw) (hk : t2Key r = t2Key r') :
    t2QText r.text r.labels = t2QText r'.text r'.labels := congrArg T2Key.q hk

def t2Sample : T2Raw :=
  { tiers := [1], text := [97], labels := [[98]], recentDays := 30, simThr := 0, topM := 3, quality := none,
    sliceK := none, ownerScope := 1, owner := 65, kRetrieval := 10, now := 5, rank := (1, 0, 0), residualCap := 32,
    kSurface := 32, indexVer := 4, indexTok := 1, labelMap := 200, hybrid := 0, index := 100, rest := 300 }

/-- Non-vacuity: the hypotheses hold for a request and its exact repetition. -/
example (compute : T2Eff → Nat) : t2Stage compute t2Sample = t2Stage compute t2Sample :=
  C05_t2_key_sufficient_partial compute t2Sample t2Sample rfl (fun _ _ => rfl) rfl

example : t2QText [32, 97, 32] [[99], [98]] = [97, 32, 98, 32, 99] := by decide
example : t2QText [32, 97, 32] [] = [97] := by decide
example : t2QText [] [[98]] = [98] := by decide

/-- The same witness at the level of the T2 key: the request repeated after episode 1 was re-written in place. -/
theorem C05_t2_key_insufficient_inplace_upsert :
    ∃ r r' : T2Raw, t2Key r = t2Key r' ∧ ¬ IndexVersionFaithful r r' ∧ t2Stage id r ≠ t2Stage id r' :=
  ⟨{ t2Sample with indexVer := 2, index := 1020 }, { t2Sample with indexVer := 2, index := 1120 },
   by decide, by simp [IndexVersionFaithful, t2Sample], by decide⟩

/-- A digest of the whole quality subtree is faithful … -/
theorem C05_quality_digest_whole_faithful (q q' : QCfg) (h : digestAll q = digestAll q') : q = q' := h

/-- … a digest that drops a leaf the quality ops read is not. -/
theorem C05_quality_digest_dropping_leaf_not_faithful :
    ∃ q q' : QCfg, digestDrop 7 q = digestDrop 7 q' ∧ q ≠ q' := ⟨qOf 0, qOf 1, by decide, by decide⟩

/-- The same witness at the level of the T2 key: two requests at the same index version that differ only in
`t2.quality.mmr.k` collide once the digest drops that leaf, while the stage result differs. -/
theorem C05_t2_key_insufficient_digest_drops_leaf :
    ∃ r r' : T2Raw, r.quality ≠ r'.quality ∧
      r.quality.map (fun c => digestDrop 7 (qOf c)) = r'.quality.map (fun c => digestDrop 7 (qOf c)) ∧
      { t2Key r with quality := none } = { t2Key r' with quality := none } ∧ t2Stage id r ≠ t2Stage id r' :=
  ⟨{ t2Sample with quality := some 0 }, { t2Sample with quality := some 1 }, by decide, by decide, by decide, by decide⟩

/-- (history of the defect `C05:t2:node_label`) before the label map was keyed: a node label edited outside T1's reach. -/
theorem C05_t2_pre_key_insufficient_labelmap :
    ∃ r r' : T2Raw, t2KeyPre r = t2KeyPre r' ∧ t2Key r ≠ t2Key r' ∧ t2Stage id r ≠ t2Stage id r' :=
  ⟨t2Sample, { t2Sample with labelMap := 201 }, by decide, by decide, by decide⟩

/-- (history of the defect `C05:t2:state`) before the index identity was keyed: two states whose indexes have equal `_ver`. -/
theorem C05_t2_pre_key_insufficient_index :
    ∃ r r' : T2Raw, t2KeyPre r = t2KeyPre r' ∧ t2Key r ≠ t2Key r' ∧ t2Stage id r ≠ t2Stage id r' :=
  ⟨t2Sample, { t2Sample with indexTok := 2, index := 101 }, by decide, by decide, by decide⟩

/-- (history of the defect `C05:t2:hybrid`) before the hybrid settings and the GEL digest were keyed. -/
theorem C05_t2_pre_key_insufficient_hybrid :
    ∃ r r' : T2Raw, t2KeyPre r = t2KeyPre r' ∧ t2Key r ≠ t2Key r' ∧ t2Stage id r ≠ t2Stage id r' :=
  ⟨{ t2Sample with hybrid := 7 }, { t2Sample with hybrid := 8 }, by decide, by decide, by decide⟩

/-- Negation witness, what is still outside the key: **rest** (custom encoder object, alias file contents). -/
theorem C05_t2_key_insufficient_rest :
    ∃ r r' : T2Raw, t2Key r = t2Key r' ∧ t2Stage id r ≠ t2Stage id r' :=
  ⟨t2Sample, { t2Sample with rest := 301 }, by decide, by decide⟩

/-- (history of the defect) the key before the repair did not separate two agents. -/
theorem C05_t2_legacy_key_owner_leak :
    ∃ r r' : T2Raw, r.owner ≠ r'.owner ∧ t2KeyLegacy r = t2KeyLegacy r' ∧ t2Stage id r ≠ t2Stage id r' :=
  ⟨t2Sample, { t2Sample with owner := 66 }, by decide, by decide, by decide⟩

/-- The (historic) label-map witness is answered wrongly by a real container (TTL LRU, cap 2, from empty). -/
theorem C05_t2_labelmap_stale_on_ttl_lru :
    runCached ttlSem (fun r : T2Raw => if t2KeyPre r = t2KeyPre t2Sample then 0 else 1) (fun r => r.labelMap)
        ⟨Clem.TtlLru.Ns.init 2 300, 0⟩ [.req t2Sample, .req { t2Sample with labelMap := 201 }]
      ≠ runUncached (fun r : T2Raw => r.labelMap) [.req t2Sample, .req { t2Sample with labelMap := 201 }] := by
  decide

/-! ## 3c. turn-level manager -/

/-- **Full strength after the repair** (`_t2_turn_key_context`): the turn-level key determines the wrapped T2 stage's
result.  The two hypotheses are the faithfulness of the version components the key carries (as `EtagFaithful` for
T1): the graph etags + T1's touched ids stand for the labels, the index version stands for the memory content. -/
theorem C05_turn_key_sufficient {V : Type} (compute : TurnEff → V) (r r' : TurnRaw)
    (hk : turnKey r = turnKey r')
    (hGraph : TurnGraphFaithful r r') (hMemory : TurnMemoryFaithful r r') :
    turnStage compute r = turnStage compute r' := by
  have ht : r.text = r'.text := congrArg TurnKey.text hk
  have hs : r.sliceK = r'.sliceK := congrArg TurnKey.sliceK hk
  have ha : r.agent = r'.agent := congrArg TurnKey.agent hk
  have hn : r.now = r'.now := congrArg TurnKey.now hk
  have hc : r.config = r'.config := congrArg TurnKey.config hk
  have hg : r.gel = r'.gel := congrArg TurnKey.gel hk
  obtain ⟨hl, hm⟩ := hGraph (congrArg TurnKey.t1Sig hk) (congrArg TurnKey.graphs hk)
  have hmem := hMemory (congrArg TurnKey.indexVer hk)
  simp only [turnStage, turnEff, ht, hs, ha, hn, hc, hg, hl, hm, hmem]

def turnSample : TurnRaw :=
  { version := none, text := [97], sliceK := none, agent := 1, now := 6, config := 4, t1Sig := 7, graphs := 8,
    indexVer := 4, gel := 0, t1Labels := 2, labelMap := 3, memory := 5 }

/-- Non-vacuity of the hypotheses. -/
example (compute : TurnEff → Nat) : turnStage compute turnSample = turnStage compute turnSample :=
  C05_turn_key_sufficient compute turnSample turnSample rfl (fun _ _ => ⟨rfl, rfl⟩) (fun _ => rfl)

example : turnKey turnSample = turnKey { turnSample with version := some [] } := by decide
example : turnKey turnSample = turnKey { turnSample with version := some [48] } := by decide
example : turnKey turnSample ≠ turnKey { turnSample with version := some [49] } := by decide

/-- (history of the defects `C05:turn:agent`, `:config`, `:now`, `:t1_labels`, `:node_label`, `:memory_add`) the key
`(version, text[, t2_k])` collided for requests that differ in any of these dimensions; the repaired key separates
each of them. -/
theorem C05_turn_legacy_key_insufficient :
    (∃ r r' : TurnRaw, turnKeyLegacy r = turnKeyLegacy r' ∧ turnKey r ≠ turnKey r' ∧ r.agent ≠ r'.agent) ∧
    (∃ r r' : TurnRaw, turnKeyLegacy r = turnKeyLegacy r' ∧ turnKey r ≠ turnKey r' ∧ r.config ≠ r'.config) ∧
    (∃ r r' : TurnRaw, turnKeyLegacy r = turnKeyLegacy r' ∧ turnKey r ≠ turnKey r' ∧ r.now ≠ r'.now) ∧
    (∃ r r' : TurnRaw, turnKeyLegacy r = turnKeyLegacy r' ∧ turnKey r ≠ turnKey r' ∧ r.t1Labels ≠ r'.t1Labels) ∧
    (∃ r r' : TurnRaw, turnKeyLegacy r = turnKeyLegacy r' ∧ turnKey r ≠ turnKey r' ∧ r.labelMap ≠ r'.labelMap) ∧
    (∃ r r' : TurnRaw, turnKeyLegacy r = turnKeyLegacy r' ∧ turnKey r ≠ turnKey r' ∧ r.memory ≠ r'.memory) :=
  ⟨⟨turnSample, { turnSample with agent := 9 }, by decide, by decide, by decide⟩,
   ⟨turnSample, { turnSample with config := 9 }, by decide, by decide, by decide⟩,
   ⟨turnSample, { turnSample with now := 9 }, by decide, by decide, by decide⟩,
   ⟨turnSample, { turnSample with t1Sig := 9, t1Labels := 9 }, by decide, by decide, by decide⟩,
   ⟨turnSample, { turnSample with graphs := 9, labelMap := 9 }, by decide, by decide, by decide⟩,
   ⟨turnSample, { turnSample with indexVer := 5, memory := 9 }, by decide, by decide, by decide⟩⟩

/-- What still refutes the hypotheses: an in-place edit that keeps the index version (memory) — the key cannot see it. -/
theorem C05_turn_key_insufficient_inplace_memory :
    ∃ r r' : TurnRaw, turnKey r = turnKey r' ∧ ¬ TurnMemoryFaithful r r' ∧ turnStage id r ≠ turnStage id r' :=
  ⟨turnSample, { turnSample with memory := 9 }, by decide, by simp [TurnMemoryFaithful, turnSample], by decide⟩

/-- What the turn-level key separates. -/
theorem C05_turn_key_separates (r r' : TurnRaw) (hk : turnKey r = turnKey r') :
    r.text = r'.text ∧ r.sliceK = r'.sliceK ∧ r.agent = r'.agent ∧ r.now = r'.now ∧ r.config = r'.config ∧
    r.indexVer = r'.indexVer :=
  ⟨congrArg TurnKey.text hk, congrArg TurnKey.sliceK hk, congrArg TurnKey.agent hk, congrArg TurnKey.now hk,
   congrArg TurnKey.config hk, congrArg TurnKey.indexVer hk⟩

/-! ## monitor soundness -/

theorem C05_monitor_iff {K : Type} [DecidableEq K] (k k' : K) (same : Bool) :
    keyEqImpliesSameB k k' same = true ↔ (k = k' → same = true) := by
  unfold keyEqImpliesSameB
  by_cases h : k = k' <;> simp [h]

end Clem.CacheKeys
