/-
C17 — Scheduling is deterministic, starvation-free and budgets bind.

All statements are about the definitions in `Clem.Model.Sched` that the driver executes
(`nextTurn`, `onYield`, `initState`, `stepT`, `simulate`, `shouldYield`, `deriveBudgets`,
and the monitors `pickB`, `isLeastB`, `gapsOkB`, `consecOkB`, `yieldSpecB`).
-/
import Clem.Proofs.Sched
import Clem.Proofs.SchedT1

namespace Clem.Props.C17

open Clem.Sched Clem.Sched.Abs

/-! ## 1. Selection is a function of (state, clock, policy) and refines the specification -/

/-- Determinism: `nextTurn` is a total function of `(policy, aging, allowance, clock, state)`;
under round-robin it does not even read the clock, `aging_ms` or `last_ran_ms`. -/
theorem C17_Next_deterministic_rr (aging aging' m now now' : Int) (s : State) (lr : Dict) :
    nextTurn false aging m now s = nextTurn false aging' m now' { s with lastRan := lr } := by
  unfold nextTurn eligible eligB
  cases s.queue <;> rfl

/-- What `Pick` (the monitor `pickB`) says, in words: if some queued agent has allowance left, the
chosen one is queued, has allowance left and the reason is not RESET; otherwise the chosen one is
`min(queue)` and the reason is RESET. -/
theorem C17_Pick_meaning (s : State) (m : Int) (a : Agent) (r : Reason) :
    pickB s m a r = true ↔
      ((∃ b ∈ s.queue, dGetD s.consec b 0 < m) → a ∈ s.queue ∧ dGetD s.consec a 0 < m ∧ r ≠ .resetConsec) ∧
      ((∀ b ∈ s.queue, ¬ dGetD s.consec b 0 < m) → a = pyMin s.queue ∧ r = .resetConsec) := by
  unfold pickB
  by_cases h : anyElig s m = true
  · have h' := h
    simp only [anyElig, List.any_eq_true, eligB, decide_eq_true_eq] at h'
    rw [if_pos h]
    simp only [Bool.and_eq_true, List.contains_iff_mem, eligB, decide_eq_true_eq, Bool.not_eq_true',
      beq_eq_false_iff_ne, ne_eq]
    constructor
    · intro hh
      refine ⟨fun _ => ⟨hh.1.1, hh.1.2, hh.2⟩, fun hall => ?_⟩
      obtain ⟨b, hb, hlt⟩ := h'
      exact absurd hlt (hall b hb)
    · intro hh
      obtain ⟨h1, h2, h3⟩ := hh.1 h'
      exact ⟨⟨h1, h2⟩, h3⟩
  · have h0 : anyElig s m = false := by simpa using h
    have h' := h0
    simp only [anyElig, List.any_eq_false, eligB, decide_eq_true_eq] at h'
    rw [h0]
    simp only [Bool.false_eq_true, if_false, Bool.and_eq_true, beq_iff_eq]
    constructor
    · intro hh
      refine ⟨fun hex => ?_, fun _ => hh⟩
      obtain ⟨b, hb, hlt⟩ := hex
      exact absurd hlt (h' b hb)
    · intro hh
      exact hh.2 h'

/-- **Next_refines_Pick**: the exact `next_turn` satisfies the specification relation, for both
policies, every clock value, every `aging_ms` (≤ 0 included), every allowance (≤ 0 included),
every queue order and every content of the two dicts (missing keys included). -/
theorem C17_Next_refines_Pick (fq : Bool) (aging m now : Int) (s : State) (hq : s.queue ≠ []) :
    pickB s m (nextTurn fq aging m now s).1 (nextTurn fq aging m now s).2 = true :=
  nextTurn_pick fq aging m now s hq

example : pickB (initState [[98], [97]] 0) 1 (nextTurn true 10 1 5 (initState [[98], [97]] 0)).1
    (nextTurn true 10 1 5 (initState [[98], [97]] 0)).2 = true := by decide

/-- The agent chosen on RESET is a member of the queue and no queued agent is lexicographically
smaller (Python `str` order = `ltA`). -/
theorem C17_Reset_picks_lex_first (q : List Agent) (hq : q ≠ []) : isLeastB q (pyMin q) = true :=
  isLeastB_pyMin hq

/-- `ltA` is Python's `str` `<`: the lexicographic order on code-point lists. -/
theorem C17_ltA_is_lex (a b : Agent) : ltA a b = true ↔ a < b := ltA_iff a b

/-- With an empty queue `next_turn` returns the empty id and never RESET. -/
theorem C17_Next_empty_queue (fq : Bool) (aging m now : Int) (s : State) (hq : s.queue = []) :
    (nextTurn fq aging m now s).1 = [] ∧ (nextTurn fq aging m now s).2 ≠ .resetConsec := by
  unfold nextTurn; rw [hq]; cases fq <;> simp

/-! ## 2. Counters stay within the allowance -/

/-- **Consec_bounded**: in every state reachable from `init_scheduler_state` by specification steps
(any admissible pick, the real bookkeeping with any clock, any queue permutation), every counter is in
`[0, m]` and every queued agent has one. -/
theorem C17_Consec_bounded (ids : List Agent) (now0 : Int) (mn : Nat) (tr : List Agent) (s' : State)
    (hr : PRun (mn : Int) (initState ids now0) tr s') : consecOkB s' (mn : Int) = true := by
  have hI := (prun_abs (init_inv ids now0 (mn : Int) (by omega)) hr).2
  simp only [consecOkB, Bool.and_eq_true, List.all_eq_true, decide_eq_true_eq]
  exact ⟨hI.keys, fun p hp => ⟨hI.lo p hp, hI.hi p hp⟩⟩

/-- the same for the executed model (both policies, any clocks, any aging, rotation on/off per step) -/
theorem C17_Consec_bounded_exact (ids : List Agent) (now0 : Int) (mn : Nat) (ts : List Tick)
    (hne : ids ≠ []) : consecOkB (simulate (mn : Int) (initState ids now0) ts).2 (mn : Int) = true := by
  have hq : (initState ids now0).queue ≠ [] := by
    intro h
    have := (init_queue_perm ids now0).length_eq
    rw [h] at this
    exact hne (List.eq_nil_of_length_eq_zero this.symm)
  exact C17_Consec_bounded ids now0 mn _ _ (simulate_prun _ _ ts hq)

example : consecOkB (simulate 1 (initState [[97], [98]] 0) [⟨0, 0, false, 0, true⟩, ⟨1, 1, true, 5, false⟩]).2 1 = true := by
  decide

/-- "all allowances reset": the bookkeeping of a RESET turn leaves every counter at zero -/
theorem C17_Reset_zeroes_all (s : State) (a : Agent) (now : Int) :
    ∀ p ∈ (onYield s a now true).consec, p.2 = 0 := by
  intro p hp
  simp only [onYield, if_true, List.mem_map] at hp
  obtain ⟨_, _, rfl⟩ := hp
  rfl

/-! ## 3. Starvation bound -/

/-- **Starvation_bound** (relation level, unbounded): take any state satisfying the invariant of
reachable states for an agent set `q` without duplicates and an allowance `m ≥ 1`; take **any**
history of specification steps from it (any admissible choice at every step — hence any tie-breaking,
any policy, any clock —, real bookkeeping after every selection, any permutation of the queue after
every step).  Then in every contiguous window of the history in which agent `x ∈ q` is not selected
there are at most `2·(n−1)·m + 1` selections. -/
theorem C17_Starvation_bound (q : List Agent) (mn : Nat) (s s' : State) (tr : List Agent) (x : Agent)
    (hq : q.Nodup) (hm : 1 ≤ mn) (hI : Inv q (mn : Int) s) (hr : PRun (mn : Int) s tr s') (hx : x ∈ q)
    (pre w post : List Agent) (hsplit : tr = pre ++ w ++ post) (hfree : x ∉ w) :
    w.length ≤ bound q.length mn := by
  have hA := (prun_abs hI hr).1
  rw [hsplit, List.append_assoc] at hA
  obtain ⟨c1, _, h2⟩ := ARun.split pre (w ++ post) hA
  obtain ⟨c2, h3, _⟩ := ARun.split w post h2
  exact starvation_bound hq hx hm h3 hfree

/-- the same from `init_scheduler_state(ids)` for distinct ids, `n = len(ids)` -/
theorem C17_Starvation_bound_init (ids : List Agent) (now0 : Int) (mn : Nat) (s' : State) (tr : List Agent)
    (x : Agent) (hq : ids.Nodup) (hm : 1 ≤ mn) (hr : PRun (mn : Int) (initState ids now0) tr s')
    (hx : x ∈ ids) (pre w post : List Agent) (hsplit : tr = pre ++ w ++ post) (hfree : x ∉ w) :
    w.length ≤ bound ids.length mn := by
  have hp := init_queue_perm ids now0
  have := C17_Starvation_bound (initState ids now0).queue mn _ s' tr x (hp.nodup_iff.2 hq) hm
    (init_inv ids now0 (mn : Int) (by omega)) hr (hp.mem_iff.2 hx) pre w post hsplit hfree
  rwa [hp.length_eq] at this

/-- every agent is selected among the first `(n−1)·m + 1` selections after initialisation -/
theorem C17_First_selection_bound (ids : List Agent) (now0 : Int) (mn : Nat) (s' : State) (w post : List Agent)
    (x : Agent) (hq : ids.Nodup) (hm : 1 ≤ mn) (hr : PRun (mn : Int) (initState ids now0) (w ++ post) s')
    (hx : x ∈ ids) (hfree : x ∉ w) : w.length ≤ (ids.length - 1) * mn := by
  have hp := init_queue_perm ids now0
  have hI := init_inv ids now0 (mn : Int) (by omega)
  have hA := (prun_abs hI hr).1
  obtain ⟨c2, h3, _⟩ := ARun.split w post hA
  have hx' : x ∈ (initState ids now0).queue := hp.mem_iff.2 hx
  have h0 : cOf (initState ids now0) x < mn := by
    have hmem := dGetD_mem _ x (hI.keys x hx')
    have hv := dictOfKeys_val 0 _ _ hmem
    simp only at hv
    simp only [cOf]
    rw [hv]; simp only [Int.toNat_zero]; omega
  have := first_selection_bound (hp.nodup_iff.2 hq) hx' hm h0 h3 hfree
  rwa [hp.length_eq] at this

/-- **Starvation bound for the executed code model**: for every history of ticks (per tick: either
policy, any `aging_ms`, any pick clock and yield clock — also backwards —, rotation or not), started
from `init_scheduler_state` of distinct ids with allowance `m ≥ 1`, the monitor `gapsOkB` (longest
wait of every agent ≤ `2·(n−1)·m + 1`) holds on the trace. -/
theorem C17_Starvation_bound_exact (ids : List Agent) (now0 : Int) (mn : Nat) (ts : List Tick)
    (hq : ids.Nodup) (hne : ids ≠ []) (hm : 1 ≤ mn) :
    gapsOkB (initState ids now0).queue mn (simulate (mn : Int) (initState ids now0) ts).1 = true := by
  have hp := init_queue_perm ids now0
  have hqne : (initState ids now0).queue ≠ [] := by
    intro h
    have := hp.length_eq
    rw [h] at this
    exact hne (List.eq_nil_of_length_eq_zero this.symm)
  have hr := simulate_prun (mn : Int) _ ts hqne
  simp only [gapsOkB, List.all_eq_true, decide_eq_true_eq]
  intro x hx
  apply maxGap_le
  intro pre w post hs hfree
  have := C17_Starvation_bound_init ids now0 mn _ _ x hq hm hr (hp.mem_iff.1 hx) pre w post hs hfree
  rwa [hp.length_eq]

/-- Non-vacuity and **tightness** (`n = 3`, `m = 2`, bound 9) on the exact model, from
`init_scheduler_state(["a","b","c"])`: round-robin, constant clock, the demo's rotation applied after
ticks 1, 3 and 8.  Trace: `a a b b c c | a | c c a a b b | a | a a b b c` — agent `c` waits exactly
9 selections between its 4th and 5th turn. -/
def tightTicks : List Tick :=
  (List.range 19).map (fun i => ⟨0, 0, false, 0, i == 1 || i == 3 || i == 8⟩)

theorem C17_Starvation_bound_tight :
    maxGap [99] (simulate 2 (initState [[97], [98], [99]] 0) tightTicks).1 = bound 3 2 := by decide

example : gapsOkB (initState [[97], [98], [99]] 0).queue 2
    (simulate 2 (initState [[97], [98], [99]] 0) tightTicks).1 = true :=
  C17_Starvation_bound_exact _ 0 2 tightTicks (by decide) (by decide) (by decide)

/-- The allowance must be at least 1 (the validator enforces `max_consecutive_turns ≥ 1`):
with allowance 0 every pick is a RESET of the lexicographically first agent and `b` never runs. -/
theorem C17_Starvation_needs_positive_allowance :
    (simulate 0 (initState [[97], [98]] 0) (List.replicate 8 ⟨0, 0, false, 0, false⟩)).1
      = List.replicate 8 [97] := by decide

/-- **Starvation_needs_bookkeeping**: without `on_yield` the state does not change, so round-robin
selects the same agent at every clock — the bound is conditional on the bookkeeping. -/
theorem C17_Starvation_needs_bookkeeping (aging m : Int) (s : State) (clocks : List Int) :
    ∀ now ∈ clocks, nextTurn false aging m now s = nextTurn false aging m 0 s :=
  fun now _ => C17_Next_deterministic_rr aging aging m now 0 s s.lastRan

/-! ## 4. Yield decision -/

/-- **Yield_precedence**: `_should_yield` returns exactly the reason prescribed by the table
"wall-clock, then stage budgets in the order T1 iters / T1 pops / T2 k / T3 ops, then quantum, else
no yield" — `yieldSpecB` is that table, written without reference to `shouldYield`. -/
theorem C17_Yield_precedence (b : Budgets) (c : Consumed) : yieldSpecB b c (shouldYield b c) = true := by
  unfold shouldYield yieldSpecB quantumHit
  cases wallHit b c <;> cases hitEq b.t1Iters c.t1Iters <;> cases hitEq b.t1Pops c.t1Pops <;>
    cases hitEq b.t2K c.t2K <;> cases hitEq b.t3Ops c.t3Ops <;>
    cases decide (elapsed c ≥ b.quantum.getD 20) <;> simp

/-- the table determines the answer: it is the only reason satisfying it -/
theorem C17_Yield_precedence_unique (b : Budgets) (c : Consumed) (r : Option YReason)
    (h : yieldSpecB b c r = true) : r = shouldYield b c := by
  unfold shouldYield
  unfold yieldSpecB quantumHit at h
  revert h
  cases wallHit b c <;> cases hitEq b.t1Iters c.t1Iters <;> cases hitEq b.t1Pops c.t1Pops <;>
    cases hitEq b.t2K c.t2K <;> cases hitEq b.t3Ops c.t3Ops <;>
    cases decide (elapsed c ≥ b.quantum.getD 20) <;>
    (rcases r with _ | r) <;> (try cases r) <;> simp

/-- wall-clock wins over everything -/
theorem C17_Yield_wall_first (b : Budgets) (c : Consumed) (w : Int) (hw : b.wall = some w)
    (h : elapsed c ≥ w) : shouldYield b c = some .wall := by
  unfold shouldYield wallHit; rw [hw]; simp [h]

/-- a stage budget wins over the quantum -/
theorem C17_Yield_budget_over_quantum (b : Budgets) (c : Consumed) (h : shouldYield b c = some .quantum) :
    hitEq b.t1Iters c.t1Iters = false ∧ hitEq b.t1Pops c.t1Pops = false ∧ hitEq b.t2K c.t2K = false ∧
    hitEq b.t3Ops c.t3Ops = false ∧ wallHit b c = false := by
  have := C17_Yield_precedence b c
  rw [h] at this
  simp only [yieldSpecB, Bool.and_eq_true, Bool.not_eq_true'] at this
  obtain ⟨⟨⟨⟨⟨h0, h1⟩, h2⟩, h3⟩, h4⟩, _⟩ := this
  exact ⟨h1, h2, h3, h4, h0⟩

example : shouldYield ⟨some 5, some 2, none, none, none, some 3⟩ ⟨some 5, some 2, none, none, none⟩ = some .wall := by
  decide
example : shouldYield ⟨some 6, some 2, none, none, none, some 3⟩ ⟨some 5, some 2, none, none, none⟩ = some .t1Iters := by
  decide

/-- the stage budgets fire only on *equality* with the consumed count, and a missing count never fires -/
theorem C17_Yield_budget_is_equality (bv : Option Int) (cv : Option Int) :
    hitEq bv cv = true ↔ ∃ v, bv = some v ∧ cv = some v := by
  cases bv <;> cases cv <;> simp [hitEq, eq_comm]

/-- `_derive_budgets` keeps exactly the configured budget keys and always sets `quantum_ms` (default 20) -/
theorem C17_Derive_budgets_ok (a b c d e : Option Int) (q : Option Int) :
    let f : Option Int → CfgVal := fun o => match o with | none => .absent | some i => .int i
    deriveBudgets (f a) (f b) (f c) (f d) (f e) (f q) =
      .ok { wall := e, t1Iters := b, t1Pops := a, t2K := c, t3Ops := d, quantum := some (q.getD 20) } := by
  cases a <;> cases b <;> cases c <;> cases d <;> cases e <;> cases q <;> rfl

/-- DESIGN §5 row 14: with the scheduler on, the decision depends on the measured elapsed time
(`time.perf_counter`), so wall-clock speed changes yields: same budgets and stage counters, two
elapsed values, two different answers. -/
theorem C17_Yield_depends_on_elapsed :
    ∃ (b : Budgets) (c1 c2 : Consumed), c1.t1Iters = c2.t1Iters ∧ c1.t1Pops = c2.t1Pops ∧ c1.t2K = c2.t2K ∧
      c1.t3Ops = c2.t3Ops ∧ shouldYield b c1 ≠ shouldYield b c2 :=
  ⟨⟨some 200, none, none, none, none, some 20⟩, ⟨some 19, none, none, none, none⟩,
    ⟨some 20, none, none, none, none⟩, rfl, rfl, rfl, rfl, by decide⟩

/-! ## 4b. A turn yields only at a stage boundary, at the first boundary whose decision fires -/

/-- **Turn_yield_only_at_boundary** (skeleton): if the turn yields with `(stage, reason)` then `stage`
is one of the consulted boundaries, `reason` is `_should_yield`'s answer on that boundary's counters
(hence obeys the precedence table), and at every earlier boundary the answer was `None`. -/
theorem C17_Turn_yield_first_boundary (b : Budgets) (l : List (Stage × Consumed)) (st : Stage) (r : YReason)
    (h : firstYield b l = some (st, r)) :
    ∃ pre c post, l = pre ++ (st, c) :: post ∧ shouldYield b c = some r ∧
      yieldSpecB b c (some r) = true ∧ ∀ p ∈ pre, shouldYield b p.2 = none := by
  induction l with
  | nil => simp [firstYield] at h
  | cons p rest ih =>
    simp only [firstYield] at h
    cases hs : shouldYield b p.2 with
    | some r' =>
      rw [hs] at h
      simp only [Option.some.injEq, Prod.mk.injEq] at h
      obtain ⟨h1, h2⟩ := h
      subst h1; subst h2
      refine ⟨[], p.2, rest, by simp, hs, ?_, by simp⟩
      have := C17_Yield_precedence b p.2
      rwa [hs] at this
    | none =>
      rw [hs] at h
      obtain ⟨pre, c, post, e, h1, h2, h3⟩ := ih h
      refine ⟨p :: pre, c, post, by simp [e], h1, h2, ?_⟩
      intro q hq
      cases hq with
      | head => exact hs
      | tail _ hq => exact h3 q hq

/-- the turn runs to completion exactly when no boundary's decision fires -/
theorem C17_Turn_no_yield_iff (b : Budgets) (l : List (Stage × Consumed)) :
    firstYield b l = none ↔ ∀ p ∈ l, shouldYield b p.2 = none := by
  induction l with
  | nil => simp [firstYield]
  | cons p rest ih =>
    simp only [firstYield]
    cases hs : shouldYield b p.2 with
    | some r' => simp [hs]
    | none => simp [hs, ih]

example : firstYield ⟨some 50, none, none, none, some 1, some 20⟩
    [(.T1, ⟨some 0, some 0, some 0, none, none⟩), (.T2, ⟨some 5, none, none, some 0, none⟩),
     (.T3, ⟨some 60, none, none, none, some 1⟩)] = some (.T3, .wall) := by decide

/-! ## 5. Slice budgets bind the stage's reported work (totals over all active graphs) -/

/-- the stage-side clamp `min(base, int(slice))`: the effective cap never exceeds the slice budget
nor the configured cap -/
theorem C17_Clamp_le (base v : Int) : clampCap base (some v) ≤ v ∧ clampCap base (some v) ≤ base := by
  simp only [clampCap]; split <;> omega

theorem C17_Clamp_absent (base : Int) : clampCap base none = base := rfl

/-- per graph the clamp binds -/
theorem C17_Budgets_bind_per_graph (qb budget : Int) (ps : List Int)
    (h : ∀ p ∈ ps, p ≤ clampCap qb (some budget)) : ∀ p ∈ ps, p ≤ budget :=
  fun p hp => Int.le_trans (h p hp) (C17_Clamp_le qb budget).1

/-- why the clamp alone is not enough (the defect repaired by
`fix: T1 slice budgets t1_pops/t1_iters bind the stage totals`): clamping every graph by the whole
budget lets the reported total exceed it, and the equality test of `_should_yield` then never fires. -/
theorem C17_Per_graph_clamp_alone_insufficient :
    ∃ (qb budget : Int) (ps : List Int), (∀ p ∈ ps, p ≤ clampCap qb (some budget)) ∧ ¬ ps.sum ≤ budget ∧
      shouldYield ⟨none, none, some budget, none, none, some 1000⟩ ⟨some 0, some 0, some ps.sum, none, none⟩ = none :=
  ⟨10000, 1, [1, 1], by decide, by decide, by decide⟩

section T1
open Clem.T1
variable {α : Type} [Clem.T1.Num α]

/-- **Budgets_bind (T1 pops, full strength)**: on the exact model of `t1_propagate`
(`Clem.T1.t1`: any configuration, any number of active graphs incl. repeated ids, result cache on or
off, any text) the total `pops` the stage reports — the quantity `_should_yield` compares with the
budget — never exceeds a non-negative slice budget `t1_pops`: every graph runs under what the earlier
graphs left (`leftCfg`). -/
theorem C17_Budgets_bind_t1_pops (c : Clem.T1.Cfg α) (gs : List (Clem.T1.Graph α)) (text : List Nat) (s : Int)
    (hs : c.slicePops = some s) (h0 : 0 ≤ s) : ((Clem.T1.t1 c gs text).pops : Int) ≤ s :=
  (foldl_inv c text gs tot0 (tot0_inv c)).pops s hs h0

/-- **Budgets_bind (T1 layers, full strength)**: the same for the total `iters` and `t1_iters`. -/
theorem C17_Budgets_bind_t1_iters (c : Clem.T1.Cfg α) (gs : List (Clem.T1.Graph α)) (text : List Nat) (s : Int)
    (hs : c.sliceIters = some s) (h0 : 0 ≤ s) : (Clem.T1.t1 c gs text).iters ≤ s :=
  (foldl_inv c text gs tot0 (tot0_inv c)).iters s hs h0

omit [Clem.T1.Num α] in
/-- without a slice budget nothing changes: every graph runs under the configured caps -/
theorem C17_No_slice_budget_unchanged (c : Clem.T1.Cfg α) (t : Clem.T1.Tot α)
    (hp : c.slicePops = none) (hi : c.sliceIters = none) : leftCfg c t = c := by
  cases c; simp_all [leftCfg]

/-- each graph's own clamp: what a graph adds is within the caps left for it -/
theorem C17_Budgets_bind_t1_graph (c : Clem.T1.Cfg α) (g : Clem.T1.Graph α) (text : List Nat) :
    ((oneGraph c g text).pops : Int) ≤ imax (effQueue c) 0 ∧ (oneGraph c g text).iters ≤ imax (effLayers c) 0 := by
  have h := oneGraph_EOK c g text
  have hc := oneGraph_caps c g text
  unfold EOK at h
  rw [hc.1, hc.2] at h
  exact h

end T1

/-- non-vacuity: a configuration with both slice budgets set (the two-graph run with `t1_pops = 1` that
pops once in total is the kernel-evaluated `example` next to `C12_multi_concat`). -/
def exT1Cfg : Clem.T1.Cfg Int where
  queueBudget := 10
  nodeBudget := 5
  radiusCap := 4
  iterCap := 50
  iterCapLayers := 50
  relaxCap := none
  sliceIters := some 1
  slicePops := some 1
  perfEnabled := false
  metricsEnabled := false
  frontierCap := 0
  visitedCap := 0
  dedupeWindow := 0
  decay := none
  edgeMult := []
  eps := 0
  cacheOn := true

example : ((Clem.T1.t1 exT1Cfg [] []).pops : Int) ≤ 1 :=
  C17_Budgets_bind_t1_pops exT1Cfg [] [] 1 rfl (by decide)

/-- once the total reaches the budget the boundary decision fires (no wall hit, no layer hit before it) -/
theorem C17_Budget_total_reached_yields (b : Budgets) (c : Consumed) (v : Int)
    (hb : b.t1Pops = some v) (hc : c.t1Pops = some v) (hw : wallHit b c = false)
    (hi : hitEq b.t1Iters c.t1Iters = false) : shouldYield b c = some .t1Pops := by
  have hp : hitEq b.t1Pops c.t1Pops = true := by simp [hb, hc, hitEq]
  unfold shouldYield
  simp [hw, hi, hp]

end Clem.Props.C17
