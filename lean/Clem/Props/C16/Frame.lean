/-
C16 (framing clause): "every record appended to a JSONL stream appears as exactly one complete
LF-terminated JSON line, also with concurrent writers, and records of one writer keep their
order … compaction rewrites preserve the records".

Model: `Clem/Model/LogFrame.lean`.  One append = ONE binary write of `enc r ++ "\n"` (atomicity of
an O_APPEND `write` is the trusted assumption; `C16_torn_write_witness` shows it is needed);
`enc` emits no raw LF (trusted property of `json.dumps`, sampled by the harness).
-/
import Clem.Model.LogFrame
import Clem.Proofs.LogFrame

namespace Clem.Props.C16
open Clem.LogFrame

/-- Sequential framing is lossless: parsing the file gives back exactly the encoded records. -/
theorem C16_frame_lossless (ls : List Bytes) (h : ∀ l ∈ ls, LF ∉ l) :
    parseLines (ls.map frame).flatten = (ls, []) := parse_frames ls h

/-- A file accepted by the monitor IS the concatenation of exactly these LF-terminated lines
(no torn, partial or extra bytes), and no line contains a raw LF. -/
theorem C16_parse_roundtrip (file : Bytes) (ls : List Bytes) (h : parseLines file = (ls, [])) :
    file = (ls.map frame).flatten ∧ ∀ l ∈ ls, LF ∉ l := by
  have := parseAux_sound file [] ls (by simp) h
  simpa using this

theorem C16_wellFramed_iff (file : Bytes) (ls : List Bytes) :
    wellFramedB file ls = true ↔ parseLines file = (ls, []) := by
  simp only [wellFramedB, Bool.and_eq_true, beq_iff_eq]
  constructor
  · intro h; exact Prod.ext h.1 h.2
  · intro h; rw [h]; exact ⟨rfl, rfl⟩

/-- **Concurrent writers.**  For ANY schedule of atomic appends by any number of writers, the
file parses into exactly the appended lines, in append order … -/
theorem C16_interleave_file (qs : List (List Bytes)) (sched : List Nat)
    (h : ∀ q ∈ qs, ∀ l ∈ q, LF ∉ l) :
    parseLines (exec qs sched).file = ((exec qs sched).trace.map (·.2), []) := by
  have inv := inv_exec qs sched
  rw [inv.file]
  have := parse_frames ((exec qs sched).trace.map (·.2)) (by
    intro l hl
    obtain ⟨e, he, rfl⟩ := List.mem_map.mp hl
    obtain ⟨q, hq, hm⟩ := inv.tr e he
    exact h q hq _ hm)
  simpa [parseLines, List.map_map, Function.comp_def] using this

/-- … each writer's lines appear in that writer's own order, none lost, none duplicated (what is
not yet in the file is still pending) … -/
theorem C16_interleave_per_writer (qs : List (List Bytes)) (sched : List Nat) (w : Nat) :
    linesOf w (exec qs sched).trace ++ (exec qs sched).pending.getD w [] = qs.getD w [] :=
  (inv_exec qs sched).writer w

/-- … so once every writer is done, writer `w`'s lines in the file are exactly its records. -/
theorem C16_interleave_complete (qs : List (List Bytes)) (sched : List Nat)
    (hdone : ∀ q ∈ (exec qs sched).pending, q = []) (w : Nat) :
    linesOf w (exec qs sched).trace = qs.getD w [] := by
  have h := C16_interleave_per_writer qs sched w
  have e : (exec qs sched).pending.getD w [] = [] := by
    rw [List.getD_eq_getElem?_getD]
    cases hg : (exec qs sched).pending[w]? with
    | none => rfl
    | some q => exact hdone q (List.mem_of_getElem? hg)
  rw [e, List.append_nil] at h
  exact h

/-- exactly one line per appended record. -/
theorem C16_interleave_count (qs : List (List Bytes)) (sched : List Nat) :
    (exec qs sched).trace.length + ((exec qs sched).pending.map List.length).sum
      = (qs.map List.length).sum :=
  (inv_exec qs sched).count

/-! ### raw-write granularity (the atomic step is one `write(2)`) -/

/-- If every raw-write chunk ends at a line end, the concatenation of ANY sequence of such chunks
parses into exactly the chunks' lines, in order, nothing torn or glued. -/
theorem C16_chunks_complete_parse (cs : List Bytes) (h : chunksCompleteB cs = true) :
    parseLines cs.flatten = ((cs.map (fun c => (parseLines c).1)).flatten, []) := by
  apply parse_complete_chunks
  intro c hc
  have := List.all_eq_true.mp h c hc
  simpa [parseLines] using this

/-- … in particular every interleaving of two writers whose raw writes are complete: the
monitor `chunksCompleteB` on each writer suffices for all schedules. -/
theorem C16_merges_complete (w1 w2 : List Bytes) (h1 : chunksCompleteB w1 = true)
    (h2 : chunksCompleteB w2 = true) (m : List Bytes) (hm : m ∈ merges w1 w2) :
    chunksCompleteB m = true ∧
    parseLines m.flatten = ((m.map (fun c => (parseLines c).1)).flatten, []) := by
  have hc : chunksCompleteB m = true := by
    unfold chunksCompleteB at *
    rw [List.all_eq_true] at *
    intro c hcm
    rcases mem_merges w1 w2 m hm c hcm with h | h
    · exact h1 c h
    · exact h2 c h
  exact ⟨hc, C16_chunks_complete_parse m hc⟩

/-- One append = one complete frame in one raw write is accepted … -/
theorem C16_single_write_ok (l : Bytes) (h : LF ∉ l) : rawWritesOkB [frame l] (frame l) = true := by
  have p : parseLines (frame l) = ([l], []) := by
    have := parse_frames [l] (by simpa using h)
    simpa [parseLines] using this
  simp [rawWritesOkB, chunksCompleteB, p]

/-- … while payload and LF in two raw writes (what a buffered handle does with
`f.write(data); f.write(b"\n")` once `data` exceeds the buffer) is rejected, and rightly so: one
interleaving of two such writers glues the records and detaches an empty line. -/
theorem C16_split_write_witness :
    rawWritesOkB [[1, 2], [LF]] (frame [1, 2]) = false ∧
    [[1, 2], [7], [LF], [LF]] ∈ merges [[1, 2], [LF]] [[7], [LF]] ∧
    parseLines ([[1, 2], [7], [LF], [LF]] : List Bytes).flatten = ([[1, 2, 7], []], []) ∧
    allMergesFramedB [[1, 2], [LF]] [[7], [LF]] [[1, 2], [7]] = false ∧
    allMergesFramedB [frame [1, 2]] [frame [7]] [[1, 2], [7]] = true := by decide

/-- **Compaction rewrite.**  The payload written by `rewrite_jsonl` (one canonical line per
normalised record, then `atomic_write_text`'s CRLF→LF replacement) parses back into exactly
those lines, provided the encoder emits no raw LF/CR. -/
theorem C16_rewrite_preserves (ls : List Bytes) (h : ∀ l ∈ ls, LF ∉ l ∧ CR ∉ l) :
    parseLines (rewritePayload ls) = (ls, []) := by
  unfold rewritePayload
  rw [replaceCRLF_id]
  · exact parse_frames ls (fun l hl => (h l hl).1)
  · intro hm
    obtain ⟨f, hf, hc⟩ := List.mem_flatten.mp hm
    obtain ⟨l, hl, rfl⟩ := List.mem_map.mp hf
    simp only [frame, List.mem_append, List.mem_singleton] at hc
    rcases hc with hc | hc
    · exact (h l hl).2 hc
    · simp [CR, LF] at hc

/-- Atomicity of the append is needed: if writer A's framed line `[1,2,3]` is written in two
chunks and writer B's line `[7]` lands in between, the file no longer parses into the writers'
lines. -/
theorem C16_torn_write_witness :
    parseLines ([1, 2] ++ frame [7] ++ [3] ++ [LF]) = ([[1, 2, 7], [3]], []) ∧
    parseLines (frame [1, 2, 3] ++ frame [7]) = ([[1, 2, 3], [7]], []) := by decide

/-- A raw LF inside an encoded record would break framing (why `enc` must not emit one). -/
theorem C16_raw_lf_witness : parseLines (frame [1, LF, 2]) = ([[1], [2]], []) := by decide

/-! ### non-vacuity -/
example : parseLines ([[1, 2], [], [3]].map frame).flatten = ([[1, 2], [], [3]], []) := by decide
example : (∀ q ∈ [[[1], [2]], [[3]]], ∀ l ∈ q, LF ∉ l) := by decide
example : (exec [[[1], [2]], [[3]]] [1, 0, 5, 1, 0]).trace = [(1, [3]), (0, [1]), (0, [2])] := by decide
example : (exec [[[1], [2]], [[3]]] [1, 0, 5, 1, 0]).file = [3, 10, 1, 10, 2, 10] := by decide
example : ∀ q ∈ (exec [[[1], [2]], [[3]]] [1, 0, 5, 1, 0]).pending, q = [] := by decide
example : parseLines (rewritePayload [[1, 2], [3]]) = ([[1, 2], [3]], []) := by decide
/-- a raw CRLF in the payload *would* be altered by the rewrite path. -/
example : rewritePayload [[1, CR]] = [1, LF] := by decide

end Clem.Props.C16
