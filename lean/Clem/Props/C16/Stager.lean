/-
C16 (staging clause): "staged records are flushed in (turn, stage order, slice, arrival) order
whatever the staging limit".

Model: `Clem/Model/LogStager.lean` — `LogStager.stage/drain_sorted`, `default_key_for`, and the
drain-flush-retry loop of `_run_agents_parallel_batch` (`runBatch ci limit arrivals` returns the
sequence handed to the writer and whether the loop finished without the retry raising).

What holds for EVERY byte limit and EVERY arrival order:
  * the written sequence is a concatenation of key-sorted flushes that cut the arrival sequence into
    consecutive chunks (`C16_stager_flush_structure`);
  * each flush (drain) is sorted by the full key and is a permutation of the buffer;
  * nothing is lost or duplicated.
What additionally needs *key-monotone arrivals per file* (a later arrival for the same file never
has a smaller (turn, slice)): the sequence written to each file is the arrival sequence, hence
sorted and independent of the limit.  The batch driver stages with one constant (turn, slice)
per batch (`C16_batch_arrivals_monotone`), so its callers satisfy the hypothesis; the stager
alone does not enforce it: `C16_stager_limit_dependence_witness` (DESIGN §5 row 16).
-/
import Clem.Model.LogStager
import Clem.Proofs.LogStager

namespace Clem.Props.C16
open Clem.LogStager Clem.LogJson Clem.Py

/-- Every flush is in `(turn, stage_ord, slice, seq, path)` order, a permutation of what was
buffered, and empties the buffer — for any buffer content (any limit, any arrival order). -/
theorem C16_stager_drain_sorted (s : Stager) :
    (drain s).2.Pairwise (fun x y => keyLe x y = true) ∧ (drain s).2.Perm s.buf ∧
    (drain s).1.buf = [] ∧ (drain s).1.bytes = 0 ∧ (drain s).1.seq = s.seq :=
  ⟨isort_keyLe_pairwise s.buf, isort_perm keyLe s.buf, rfl, rfl, rfl⟩

/-- the executable monitor `sortedB` is exactly that order. -/
theorem C16_sortedB_iff (l : List SRec) :
    sortedB l = true ↔ l.Pairwise (fun x y => keyLe x y = true) := by
  induction l with
  | nil => simp [sortedB]
  | cons a l ih => simp [sortedB, List.pairwise_cons, ih, List.all_eq_true]

/-- A successful `stage` appends exactly the normalised record and respects the byte bound. -/
theorem C16_stager_stage_bound (ci : Bool) (s s' : Stager) (path : Str) (k : Key) (pl : Rec)
    (h : stage ci s path k pl = some s') :
    (s'.bytes : Int) ≤ s'.limit ∧
    s'.buf = s.buf ++ [⟨path, k, normalize ci (basename path) pl,
                        estimate (normalize ci (basename path) pl)⟩] := by
  have f := stage_some h
  exact ⟨f.2.2.2.2, f.1⟩

/-- **Flush structure, unconditional.**  For every byte limit and every arrival order, what the
loop hands to the writer is a concatenation of flushes, each sorted by the full key, and the
flushes cut the arrival sequence into consecutive chunks (a record is never written before a
record of an earlier flush, nothing is lost, duplicated or invented). -/
theorem C16_stager_flush_structure (ci : Bool) (limit : Int) (as : List Arrival) (w : List SRec)
    (h : runBatch ci limit as = (w, true)) :
    ∃ chunks : List (List SRec),
      chunks.flatten = mkRecs ci 0 as ∧ w = (chunks.map (isort keyLe)).flatten ∧
      ∀ c ∈ chunks, (isort keyLe c).Pairwise (fun x y => keyLe x y = true) := by
  unfold runBatch at h
  by_cases hr : (loopRun ci ⟨Stager.new limit, []⟩ as).2 = true
  · simp only [hr, if_true] at h
    have hw := (Prod.mk.inj h).1
    obtain ⟨chunks, h1, h2⟩ := loopRun_chunks ci as ⟨Stager.new limit, []⟩ hr
    refine ⟨chunks ++ [(loopRun ci ⟨Stager.new limit, []⟩ as).1.st.buf], ?_, ?_,
      fun c _ => isort_keyLe_pairwise c⟩
    · rw [List.flatten_append]
      simpa [Stager.new] using h2
    · rw [← hw, h1]
      simp [drain]
  · simp only [hr] at h
    simp at h

/-- Lossless: when the loop finishes, what was handed to the writer is a permutation of the
records handed to `stage` — for every limit and arrival order. -/
theorem C16_stager_lossless (ci : Bool) (limit : Int) (as : List Arrival) (w : List SRec)
    (h : runBatch ci limit as = (w, true)) : w.Perm (mkRecs ci 0 as) := by
  unfold runBatch at h
  by_cases hr : (loopRun ci ⟨Stager.new limit, []⟩ as).2 = true
  · simp only [hr, if_true] at h
    have hw := (Prod.mk.inj h).1
    have p := loopRun_perm ci as ⟨Stager.new limit, []⟩ hr
    rw [← hw]
    refine (List.Perm.append_left _ (isort_perm keyLe _)).trans ?_
    simpa [Stager.new, drain] using p
  · simp only [hr] at h
    simp at h

/-- **Per-file order.**  Under key-monotone arrivals per file, for EVERY byte limit the sequence
written to each file is exactly that file's arrival sequence … -/
theorem C16_stager_perfile_order (ci : Bool) (limit : Int) (as : List Arrival) (w : List SRec)
    (h : runBatch ci limit as = (w, true)) (hm : monoPerFileB as = true) (p : Str) :
    fileSeq p w = fileSeq p (mkRecs ci 0 as) := by
  unfold runBatch at h
  by_cases hr : (loopRun ci ⟨Stager.new limit, []⟩ as).2 = true
  · simp only [hr, if_true] at h
    have hw := (Prod.mk.inj h).1
    have hp : (fileSeq p ((Stager.new limit).buf ++ mkRecs ci (Stager.new limit).seq as)).Pairwise keyLt := by
      simpa [Stager.new] using fileSeq_pairwise_of_mono ci p as 0 hm
    have inv := loopRun_file ci p as ⟨Stager.new limit, []⟩ hr hp
    rw [← hw, fileSeq_append]
    have e : fileSeq p (drain (loopRun ci ⟨Stager.new limit, []⟩ as).1.st).2
        = fileSeq p (loopRun ci ⟨Stager.new limit, []⟩ as).1.st.buf :=
      filter_isort_of_strict _ _ inv.2
    rw [e, inv.1]
    simp [Stager.new, fileSeq]
  · simp only [hr] at h
    simp at h

/-- … hence sorted by the key … -/
theorem C16_stager_perfile_sorted (ci : Bool) (limit : Int) (as : List Arrival) (w : List SRec)
    (h : runBatch ci limit as = (w, true)) (hm : monoPerFileB as = true) (p : Str) :
    (fileSeq p w).Pairwise (fun x y => keyLe x y = true) := by
  rw [C16_stager_perfile_order ci limit as w h hm p]
  exact (fileSeq_pairwise_of_mono ci p as 0 hm).imp (fun hxy => hxy.1)

/-- … and independent of the staging limit. -/
theorem C16_stager_limit_independent (ci : Bool) (l1 l2 : Int) (as : List Arrival)
    (w1 w2 : List SRec) (h1 : runBatch ci l1 as = (w1, true)) (h2 : runBatch ci l2 as = (w2, true))
    (hm : monoPerFileB as = true) (p : Str) : fileSeq p w1 = fileSeq p w2 := by
  rw [C16_stager_perfile_order ci l1 as w1 h1 hm p, C16_stager_perfile_order ci l2 as w2 h2 hm p]

/-- The batch driver stages every record of a batch with the same `(turn_id, slice_idx)`
(`_clone_ctx_for_agent` copies both from the batch ctx): such arrivals are key-monotone. -/
theorem C16_batch_arrivals_monotone (t sl : Int) (as : List Arrival)
    (h : ∀ a ∈ as, a.turn = t ∧ a.slice = sl) : monoPerFileB as = true := by
  induction as with
  | nil => rfl
  | cons a as ih =>
    simp only [monoPerFileB, Bool.and_eq_true, List.all_eq_true]
    refine ⟨fun b hb => ?_, ih (fun x hx => h x (List.mem_cons_of_mem _ hx))⟩
    have ha := h a List.mem_cons_self
    have hb' := h b (List.mem_cons_of_mem _ hb)
    simp [tsLe, ha.1, ha.2, hb'.1, hb'.2]

/-! ### the hypothesis is needed: limit-dependence witness (DESIGN §5 row 16)

Full-strength statement (NOT a theorem of the stager alone):
  `∀ ci l1 l2 as w1 w2 p, runBatch ci l1 as = (w1, true) → runBatch ci l2 as = (w2, true) →
     fileSeq p w1 = fileSeq p w2`.
Turn 2 staged before turn 1 for the same file: with room for both they are flushed together in
key order (turn 1 first); with room for one, back-pressure flushes turn 2 first. -/

def wPath : Str := [116, 49, 46, 106, 115, 111, 110, 108]  -- "t1.jsonl"
def wPayload (id : Nat) : Rec := [([97], .opq id true none none 10)]  -- {"a": <10 chars>}: est 13
def wArrivals : List Arrival := [⟨wPath, 2, 0, wPayload 0⟩, ⟨wPath, 1, 0, wPayload 1⟩]

theorem C16_stager_limit_dependence_witness :
    (runBatch false 100 wArrivals).2 = true ∧ (runBatch false 20 wArrivals).2 = true ∧
    ((fileSeq wPath (runBatch false 100 wArrivals).1).map (·.key.turn)) = [1, 2] ∧
    ((fileSeq wPath (runBatch false 20 wArrivals).1).map (·.key.turn)) = [2, 1] ∧
    monoPerFileB wArrivals = false := by decide

theorem C16_stager_limit_independent_unconditional_false :
    ¬ (∀ (ci : Bool) (l1 l2 : Int) (as : List Arrival) (w1 w2 : List SRec) (p : Str),
        runBatch ci l1 as = (w1, true) → runBatch ci l2 as = (w2, true) →
        fileSeq p w1 = fileSeq p w2) := by
  intro h
  have := h false 100 20 wArrivals _ _ wPath rfl rfl
  have c := congrArg (List.map (·.key.turn)) this
  revert c
  decide

/-- A limit below one record's estimate: the retry raises as well, the loop is left, the record
(and everything after it) is never written (stager-level behaviour, see DESIGN §5 row 10). -/
theorem C16_stager_retry_raises_witness :
    runBatch false 5 wArrivals = ([], false) := by decide

/-! ### tables regenerated from the source -/

/-- the sort key of `drain_sorted` is the one modelled by `keyLe`. -/
theorem C16_drain_key_table : Gen.Logs.drainKey =
    [[107, 101, 121, 46, 116, 117, 114, 110, 95, 105, 100],            -- key.turn_id
     [107, 101, 121, 46, 115, 116, 97, 103, 101, 95, 111, 114, 100],   -- key.stage_ord
     [107, 101, 121, 46, 115, 108, 105, 99, 101, 95, 105, 100, 120],   -- key.slice_idx
     [107, 101, 121, 46, 115, 101, 113],                               -- key.seq
     [102, 105, 108, 101, 95, 112, 97, 116, 104]] := by decide          -- file_path

/-- `STAGE_ORD` assigns distinct ordinals, all below the default for unknown streams. -/
theorem C16_stage_ord_table :
    (Gen.Logs.stageOrd.map (·.2)).Nodup ∧ (Gen.Logs.stageOrd.map (·.1)).Nodup ∧
    ∀ e ∈ Gen.Logs.stageOrd, e.2 < Gen.Logs.stageOrdDefault := by decide

/-! ### non-vacuity -/
def okArrivals : List Arrival :=
  [⟨wPath, 1, 0, wPayload 0⟩, ⟨nTurn, 1, 0, wPayload 1⟩, ⟨wPath, 1, 1, wPayload 2⟩, ⟨wPath, 2, 0, wPayload 3⟩]

example : monoPerFileB okArrivals = true := by decide
example : (runBatch false 30 okArrivals).2 = true ∧ (runBatch false 1000 okArrivals).2 = true := by decide
/-- a back-pressure flush really happens under the small limit (the global write order differs) … -/
example : (runBatch false 30 okArrivals).1.map (·.key.seq) = [1, 2, 3, 4] ∧
    (runBatch false 1000 okArrivals).1.map (·.key.seq) = [1, 3, 2, 4] := by decide
/-- … while each file sees the same sequence. -/
example : fileSeq wPath (runBatch false 30 okArrivals).1 = fileSeq wPath (runBatch false 1000 okArrivals).1 := by
  decide
example : stageOrdOf (basename [120, 47, 116, 117, 114, 110, 46, 106, 115, 111, 110, 108]) = 8 := by decide
example : stageOrdOf [102, 111, 111] = 99 := by decide

end Clem.Props.C16
