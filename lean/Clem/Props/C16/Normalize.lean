/-
C16 (normalisation clause): "CI identity normalisation changes only the volatile fields of
identity streams (durations, timestamps, non-yield slice markers) and is idempotent".

Model: `Clem/Model/LogJson.lean` (`normalize ci name rec` = `normalize_for_identity`, records are
insertion-ordered association lists, untouched values are opaque).  No uniqueness-of-keys
hypothesis is needed.  `volatile name` = {ms} for t3_reflection.jsonl, {ms, now} for the identity
streams, plus {durations_ms, yielded, slice_idx} for turn.jsonl, ∅ otherwise.
-/
import Clem.Model.LogJson
import Clem.Proofs.LogJson

namespace Clem.Props.C16
open Clem.LogJson

private theorem normalize_true (name : Str) (r : Rec) :
    normalize true name r =
      if name = nReflection then setIf kMs .flt0 r
      else if Gen.Logs.identityLogsIo.contains name then
        (if name = nTurn then normTurn (normBase r) else normBase r)
      else r := by
  simp [normalize]

/-- Idempotent, for every CI setting, stream name and record. -/
theorem C16_normalize_idempotent (ci : Bool) (name : Str) (r : Rec) :
    normalize ci name (normalize ci name r) = normalize ci name r := by
  cases ci with
  | false => rfl
  | true =>
    simp only [normalize_true]
    by_cases h1 : name = nReflection
    · simp only [h1, if_true]; exact setIf_setIf_same kMs _ _ r
    · simp only [h1, if_false]
      by_cases h2 : Gen.Logs.identityLogsIo.contains name = true
      · simp only [h2, if_true]
        by_cases h3 : name = nTurn
        · simp only [h3, if_true]
          rw [normTurn_normBase (normTurn (normBase r)), normTurn_idem,
            ← normTurn_normBase, normBase_idem]
        · simp only [h3, if_false]; exact normBase_idem r
      · simp only [h2]; rfl

/-- Only volatile fields are touched: the sub-record of non-volatile fields keeps its values
AND its order. -/
theorem C16_normalize_only_volatile (ci : Bool) (name : Str) (r : Rec) :
    stable name (normalize ci name r) = stable name r := by
  cases ci with
  | false => rfl
  | true =>
    show outside (volatile name) (normalize true name r) = outside (volatile name) r
    simp only [normalize_true, volatile]
    by_cases h1 : name = nReflection
    · simp only [h1, if_true]; exact outside_setIf _ kMs _ (by decide) r
    · simp only [h1, if_false]
      by_cases h2 : Gen.Logs.identityLogsIo.contains name = true
      · simp only [h2, if_true]
        by_cases h3 : name = nTurn
        · simp only [h3, if_true]
          rw [outside_normTurn _ (by decide) (by decide) (by decide),
            outside_normBase _ (by decide) (by decide)]
        · simp only [h3, if_false]
          exact outside_normBase _ (by decide) (by decide) r
      · simp only [h2]; rfl

/-- `CI` not `true`: the identity function. -/
theorem C16_normalize_ci_off (name : Str) (r : Rec) : normalize false name r = r := rfl

/-- streams outside the identity set (and other than t3_reflection) are never changed. -/
theorem C16_normalize_other_streams (ci : Bool) (name : Str) (r : Rec)
    (h1 : name ≠ nReflection) (h2 : Gen.Logs.identityLogsIo.contains name = false) :
    normalize ci name r = r := by
  cases ci with
  | false => rfl
  | true =>
    rw [normalize_true]
    simp only [h1, if_false, h2, Bool.false_eq_true]

/-- a record without volatile fields is a fixed point. -/
theorem C16_normalize_volatile_free (ci : Bool) (name : Str) (r : Rec)
    (h : stable name r = r) : stable name (normalize ci name r) = r := by
  rw [C16_normalize_only_volatile, h]

/-- On identity streams (and t3_reflection) under CI every surviving `ms` is `0.0` and `ms` is
present iff it was; on identity streams `now` is gone. -/
theorem C16_normalize_ms_zeroed (name : Str) (r : Rec) (h : (volatile name).contains kMs = true) :
    msZero (normalize true name r) = true ∧
    (keys (normalize true name r)).contains kMs = (keys r).contains kMs := by
  rw [normalize_true]
  unfold volatile at h
  by_cases h1 : name = nReflection
  · simp only [h1, if_true]
    exact ⟨msZero_setIf_ms r, has_setIf _ _ _ r⟩
  · simp only [h1, if_false] at h ⊢
    by_cases h2 : Gen.Logs.identityLogsIo.contains name = true
    · simp only [h2, if_true]
      by_cases h3 : name = nTurn
      · simp only [h3, if_true]
        refine ⟨msZero_normTurn _ (msZero_normBase r), ?_⟩
        rw [has_normTurn _ (by decide) (by decide)]
        unfold normBase
        rw [has_pop _ _ (by decide), has_setIf]
      · simp only [h3, if_false]
        refine ⟨msZero_normBase r, ?_⟩
        unfold normBase
        rw [has_pop _ _ (by decide), has_setIf]
    · simp only [h2] at h
      simp at h

theorem C16_normalize_now_dropped (name : Str) (r : Rec) (h : (volatile name).contains kNow = true) :
    (keys (normalize true name r)).contains kNow = false := by
  rw [normalize_true]
  unfold volatile at h
  by_cases h1 : name = nReflection
  · subst h1
    exact absurd h (by decide)
  · simp only [h1, if_false] at h ⊢
    by_cases h2 : Gen.Logs.identityLogsIo.contains name = true
    · simp only [h2, if_true]
      by_cases h3 : name = nTurn
      · simp only [h3, if_true]
        rw [has_normTurn _ (by decide) (by decide)]
        exact hasnot_pop _ _
      · simp only [h3, if_false]
        exact hasnot_pop _ _
    · simp only [h2] at h
      simp at h

/-- The executable monitor accepts the model's own output: it demands no more than the theorems. -/
theorem C16_normalize_monitor_accepts_model (ci : Bool) (name : Str) (r : Rec) :
    normOkB ci name r (normalize ci name r) = true := by
  unfold normOkB
  cases ci with
  | false => simp [C16_normalize_ci_off]
  | true =>
    have hs := C16_normalize_only_volatile true name r
    simp only [hs, beq_self_eq_true, Bool.not_true, Bool.false_eq_true, if_false, Bool.true_and]
    rw [Bool.and_eq_true]
    constructor
    · split
      · rename_i hm
        have z := C16_normalize_ms_zeroed name r hm
        have z1 : (normalize true name r).all (fun e => !(e.1 == kMs) || e.2 == .flt0) = true := z.1
        rw [z1, z.2]; simp
      · rfl
    · split
      · rename_i hn
        rw [C16_normalize_now_dropped name r hn]; rfl
      · rfl

/-! ### tables regenerated from the source (checked by `decide` on every run) -/

/-- the two copies of `_IDENTITY_LOGS` (io_logging.py, io/log.py) agree. -/
theorem C16_identity_copies_agree : Gen.Logs.identityLogsIo = Gen.Logs.identityLogsLog := by decide

/-- every field `normalize_for_identity` assigns or pops is a volatile field. -/
theorem C16_touched_fields_are_volatile :
    ∀ k ∈ Gen.Logs.normalizeWritten ++ Gen.Logs.normalizePopped, k ∈ volatile nTurn := by decide

/-- the stream names it compares literally are the ones modelled. -/
theorem C16_name_literals : Gen.Logs.normalizeNameLiterals = [nReflection, nTurn] := by decide

theorem C16_turn_is_identity_log :
    Gen.Logs.identityLogsIo.contains nTurn = true ∧
    Gen.Logs.identityLogsIo.contains nReflection = false := by decide

/-! ### concrete records (turn.jsonl) -/
def demoTurn (yielded : V) : Rec :=
  [([116], .opq 1 true (some 5) none 1),                       -- "t": 5
   (kMs, .opq 2 true none none 4),                             -- "ms": 12.5
   (kNow, .opq 3 true none none 20),                           -- "now": "2026-…"
   (kDur, .opq 4 true none (some [[97], [98]]) 20),            -- "durations_ms": {"a":…, "b":…}
   (kYielded, yielded),
   (kSlice, .opq 6 true (some 3) none 3),                      -- "slice_idx": "3"
   ([122], .opq 7 false none none 2)]                          -- "z": []

/-- yield: markers kept (slice index coerced to int), durations and ms zeroed, now dropped. -/
example : normalize true nTurn (demoTurn (.opq 5 true none none 3)) =
    [([116], .opq 1 true (some 5) none 1), (kMs, .flt0), (kDur, .zeros [[97], [98]]),
     (kYielded, .tru), (kSlice, .int 3), ([122], .opq 7 false none none 2)] := by decide
/-- no yield: markers stripped. -/
example : normalize true nTurn (demoTurn (.opq 5 false none none 5)) =
    [([116], .opq 1 true (some 5) none 1), (kMs, .flt0), (kDur, .zeros [[97], [98]]),
     ([122], .opq 7 false none none 2)] := by decide
/-- t3_reflection: only `ms`. -/
example : keys (normalize true nReflection (demoTurn .tru)) = keys (demoTurn .tru) := by decide
example : stable nTurn (demoTurn .tru) = [([116], .opq 1 true (some 5) none 1), ([122], .opq 7 false none none 2)] := by
  decide
example : normOkB true nTurn (demoTurn .tru) (normalize true nTurn (demoTurn .tru)) = true := by decide
/-- the monitor rejects a normalisation that also drops a non-volatile field. -/
example : normOkB true nTurn (demoTurn .tru) (pop [122] (normalize true nTurn (demoTurn .tru))) = false := by
  decide
example : ciOn [84, 114, 117, 101] = true ∧ ciOn [49] = false ∧ ciOn [] = false := by decide

end Clem.Props.C16
