/-
C16 (rotation clause): "rotation keeps the newest N generations in order without losing any
but the oldest", for all histories (any pre-existing set of generations, gaps included, any
backup count) and every interruption point between two primitive steps of `rotate_one`.

Model: `Clem/Model/LogRotate.lean` (`steps` = the list of `os.remove` / `os.replace` calls the
code performs, `crashState fs b j` = state after a crash following the first `j` of them).
-/
import Clem.Gen.Logs
import Clem.Model.LogRotate
import Clem.Proofs.LogRotate

namespace Clem.Props.C16
open Clem.LogRotate

/-- `backups < 1`: nothing is touched, `False` is returned. -/
theorem C16_rotate_noop (fs : FS) (b : Int) (h : b < 1) :
    rotateOne fs b = fs ∧ rotated fs b = false ∧ steps fs b = [] := by
  simp [rotateOne, rotated, steps, h, exec]

private theorem toNat_pos {b : Int} (h : 1 ≤ b) : 1 ≤ b.toNat := by omega

/-- Completed rotation: generation `i` (1 ≤ i ≤ N) holds what generation `i-1` held, `path`
itself is gone, generations beyond `N` are untouched; only the previous `path.N` is lost. -/
theorem C16_rotate_keeps_newest (fs : FS) (b : Int) (h : 1 ≤ b) :
    rotateOne fs b = shifted fs b.toNat 0 := by
  have hb : ¬ b < 1 := by omega
  simp only [rotateOne, steps, hb, if_false]
  exact (stepsPos_allPre fs b.toNat (toNat_pos h)).2

theorem C16_rotate_keeps_newest_pointwise (fs : FS) (b : Int) (h : 1 ≤ b) (i : Nat) :
    rotateOne fs b i =
      if i = 0 then none else if i ≤ b.toNat then fs (i - 1) else fs i := by
  rw [C16_rotate_keeps_newest fs b h]
  simp only [shifted]
  grind

/-- the return value: `True` iff `path` existed. -/
theorem C16_rotate_returns (fs : FS) (b : Int) (h : 1 ≤ b) : rotated fs b = existsAt fs 0 := by
  have hb : ¬ b < 1 := by omega
  simp only [rotated, hb, if_false]
  rw [(preSteps_allPre fs b.toNat (toNat_pos h)).2]
  simp only [existsAt, shifted]
  grind

/-- EVERY crash prefix of the step list leaves the initial state or one of the intermediate
states "generations m … N-1 moved up by one, slot m vacated". -/
theorem C16_rotate_crash_legal (fs : FS) (b : Int) (j : Nat) :
    crashState fs b j = fs ∨ ∃ m, m ≤ b.toNat ∧ crashState fs b j = shifted fs b.toNat m := by
  by_cases hb : b < 1
  · left; simp [crashState, steps, hb, exec]
  · simp only [crashState, steps, hb, if_false]
    exact allPre_take _ fs j (stepsPos_allPre fs b.toNat (toNat_pos (by omega))).1

/-- … hence for every crash point nothing but the oldest generation `path.N` is lost: every
other content is still there, at its index or one above. -/
theorem C16_rotate_crash_nothing_lost (fs : FS) (b : Int) (j i c : Nat)
    (hi : i ≠ b.toNat) (hc : fs i = some c) :
    crashState fs b j i = some c ∨ crashState fs b j (i + 1) = some c := by
  rcases C16_rotate_crash_legal fs b j with h | ⟨m, hm, h⟩
  · left; rw [h]; exact hc
  · have := shifted_pos fs b.toNat m i hm hi
    rw [h]
    simp only [posAfter] at this
    split at this
    · right; rw [this]; exact hc
    · left; rw [this]; exact hc

/-- … age order by index is preserved (gaps allowed): there is a strictly monotone placement
`pos` (each generation stays or moves up by one) under which the crashed state shows the old
contents. -/
theorem C16_rotate_crash_order (fs : FS) (b : Int) (j : Nat) :
    ∃ pos : Nat → Nat,
      (∀ i, i ≠ b.toNat → crashState fs b j (pos i) = fs i) ∧
      (∀ i i', i < i' → i ≠ b.toNat → i' ≠ b.toNat → pos i < pos i') ∧
      (∀ i, pos i = i ∨ pos i = i + 1) := by
  rcases C16_rotate_crash_legal fs b j with h | ⟨m, hm, h⟩
  · exact ⟨id, fun i _ => by rw [h]; rfl, fun _ _ hlt _ _ => hlt, fun _ => Or.inl rfl⟩
  · refine ⟨posAfter b.toNat m, fun i hi => by rw [h]; exact shifted_pos fs _ m i hm hi,
      fun i i' hlt hi hi' => posAfter_strictMono _ m i i' hm hlt hi hi', fun i => ?_⟩
    simp only [posAfter]; grind

/-- … and nothing is invented or duplicated from the lost generation: whatever a crashed state
holds at index `i` was held before at `i` or `i-1`, by a generation other than `path.N`
(or the state is untouched). -/
theorem C16_rotate_crash_no_junk (fs : FS) (b : Int) (j i c : Nat)
    (h : crashState fs b j i = some c) :
    ∃ i', fs i' = some c ∧ (i = i' ∨ i = i' + 1) := by
  rcases C16_rotate_crash_legal fs b j with e | ⟨m, hm, e⟩
  · exact ⟨i, by rw [← e]; exact h, Or.inl rfl⟩
  · rw [e] at h
    obtain ⟨i', _, h2, h3⟩ := shifted_origin fs b.toNat m i c hm h
    exact ⟨i', h2, h3⟩

/-- The executable monitors accept every crash state of the model (they demand no more than
the theorems give), for every window `hi`. -/
theorem C16_rotate_monitors_accept_model (fs : FS) (b : Int) (j hi : Nat) :
    legalStateB fs (crashState fs b j) b.toNat hi = true ∧
    nothingLostB fs (crashState fs b j) b.toNat hi = true := by
  constructor
  · unfold legalStateB
    rcases C16_rotate_crash_legal fs b j with h | ⟨m, hm, h⟩
    · rw [h]; simp
    · rw [h, Bool.or_eq_true]
      right
      rw [List.any_eq_true]
      exact ⟨m, List.mem_range.mpr (by omega), by simp⟩
  · unfold nothingLostB
    rw [List.all_eq_true]
    intro i _
    by_cases hi' : i = b.toNat
    · simp [hi']
    · cases hc : fs i with
      | none => simp
      | some c =>
        rcases C16_rotate_crash_nothing_lost fs b j i c hi' hc with h | h
        · simp [h]
        · simp [h]

/-- … and a state the legality monitor accepts shows, inside the window, the initial state or a
`shifted` state — so the monitor is exactly the theorem's disjunction, windowed. -/
theorem C16_rotate_legal_monitor_sound (before after : FS) (n hi : Nat)
    (h : legalStateB before after n hi = true) :
    (∀ i < hi + 2, after i = before i) ∨ ∃ m ≤ n, ∀ i < hi + 2, after i = shifted before n m i := by
  unfold legalStateB at h
  rw [Bool.or_eq_true] at h
  rcases h with h | h
  · left
    intro i hi'
    have := List.all_eq_true.mp h i (List.mem_range.mpr hi')
    simpa using this
  · right
    obtain ⟨m, hm, hall⟩ := List.any_eq_true.mp h
    refine ⟨m, by have := List.mem_range.mp hm; omega, fun i hi' => ?_⟩
    have := List.all_eq_true.mp hall i (List.mem_range.mpr hi')
    simpa using this

/-- generations `path`(100), `.1`(101), `.3`(103) — a gap at `.2` — and `.5`(105) beyond N = 3. -/
def demoFS : FS := fun i =>
  if i = 0 then some 100 else if i = 1 then some 101 else if i = 3 then some 103
  else if i = 5 then some 105 else none

/-! ### transient and persistent rename faults -/

/-- A rename attempt that fails and is retried changes nothing: with any number of failed attempts
before each step the rotation ends in the same state (so all the theorems above apply). -/
theorem C16_rotate_transient_faults (fs : FS) (l : List (Step × Nat)) :
    execRetried fs l = exec fs (l.map (·.1)) := by
  induction l generalizing fs with
  | nil => rfl
  | cons a l ih =>
    obtain ⟨s, k⟩ := a
    have hk : Nat.repeat id k fs = fs := by
      induction k with
      | zero => rfl
      | succ n ihn => simp [Nat.repeat, ihn]
    simp only [execRetried, hk, List.map_cons]
    rw [ih]; rfl

/-- the errno values `atomic_replace` retries are exactly the documented ones (table regenerated
from io/atomic.py: dropping one breaks this theorem), and `PermissionError` is retried. -/
theorem C16_rotate_retry_set :
    Clem.Gen.Logs.replaceRetryErrnos =
      [[69, 65, 67, 67, 69, 83],      -- EACCES
       [69, 66, 85, 83, 89],          -- EBUSY
       [69, 80, 69, 82, 77]] ∧        -- EPERM
    Clem.Gen.Logs.replaceRetriesPermissionError = true := by decide

/-- **Persistent rename failure.**  When a rename of the cascade fails for good, the rotation stops
with the source generation in place: the state is a legal intermediate state, nothing but the
oldest generation is lost and nothing is invented — for every history and every failing step. -/
theorem C16_rotate_persistent_failure_nothing_lost (fs : FS) (b : Int) (j i c : Nat)
    (hi : i ≠ b.toNat) (hc : fs i = some c) :
    failState fs b j i = some c ∨ failState fs b j (i + 1) = some c :=
  C16_rotate_crash_nothing_lost fs b j i c hi hc

theorem C16_rotate_persistent_failure_legal (fs : FS) (b : Int) (j : Nat) :
    failState fs b j = fs ∨ ∃ m, m ≤ b.toNat ∧ failState fs b j = shifted fs b.toNat m :=
  C16_rotate_crash_legal fs b j

/-- `rotate_one` asks the rename helper to keep its source on failure at every call, and the
helper's clean-up unlink is guarded by that flag (tables regenerated from rotate_logs.py and
io/atomic.py). -/
theorem C16_rotate_keeps_source_on_failed_rename :
    Clem.Gen.Logs.rotateKeepsSourceOnFailure = true ∧
    Clem.Gen.Logs.replaceUnlinkGuardedByFlag = true := by decide

/-- Regression witness: a helper that unlinks its source on failure (the behaviour before the
fix) loses generation `.1` (content 101, not the oldest) when `.1 → .2` fails for good, and the
monitor `nothingLostB` rejects that state. -/
theorem C16_rotate_unlink_source_witness :
    steps demoFS 3 = [.rm 3, .mv 1 2, .mv 0 1] ∧
    (List.range 7).map (unlinkSourceState demoFS 3 1) = [some 100, none, none, none, none, some 105, none] ∧
    nothingLostB demoFS (unlinkSourceState demoFS 3 1) 3 6 = false ∧
    nothingLostB demoFS (failState demoFS 3 1) 3 6 = true := by decide

/-! ### non-vacuity and concrete histories -/


example : steps demoFS 3 = [.rm 3, .mv 1 2, .mv 0 1] := by decide
example : (List.range 7).map (rotateOne demoFS 3) =
    [none, some 100, some 101, none, none, some 105, none] := by decide
example : rotated demoFS 3 = true := by decide
/-- crash after the removal and the first move: 101 now sits at `.2`, nothing else changed. -/
example : (List.range 7).map (crashState demoFS 3 2) =
    [some 100, none, some 101, none, none, some 105, none] := by decide
/-- the oldest generation really is lost (the exception in the statement is needed). -/
example : ∀ i < 8, rotateOne demoFS 3 i ≠ some 103 := by decide
/-- without the main file the cascade still happens and `False` is returned (as coded). -/
example : rotated (fun i => if i = 1 then some 7 else none) 2 = false ∧
    steps (fun i => if i = 1 then some 7 else none) 2 = [.mv 1 2] := by decide
example : rotateOne demoFS 0 = demoFS := (C16_rotate_noop demoFS 0 (by decide)).1
/-- the monitors accept every crash state of the demo history. -/
example : (List.range 5).all (fun j =>
    legalStateB demoFS (crashState demoFS 3 j) 3 6 && nothingLostB demoFS (crashState demoFS 3 j) 3 6) = true := by
  decide

end Clem.Props.C16
