/-
# C10 — Agent batch driver commits exactly like a sequential loop

Model: `Clem/Model/Batch.lean` (`runDriver` = `_run_agents_parallel_batch`: gate
`_agents_parallel_enabled`, `_select_independent_batch`, compute of the selected tasks on the
snapshot, staging of captured logs through the C16 stager with drain-flush-retry, commit in
`_sort_turn_buffers` order, one `apply.jsonl` record per buffer, final drain; `seqRun` = the
driver's own sequential fall-back under the dry-run contract).  The turn-compute function and
`apply_changes` are parameters.  Helper lemmas: `Clem/Proofs/Batch.lean`.

Clauses of the statement and where they are decided:
  * selection (pairwise disjoint, ≤ max 1 workers, subsequence, greedy-maximal; overlapping agents
    never computed)                                  `C10_batch_select_disjoint`, `C10_batch_computed_*`
  * same results / state / per-file line sequences as the sequential loop, under the dry-run
    contract                                         `C10_batch_eq_seq_contract`, `C10_batch_eq_seq_disjoint`
  * independence of the staging limit                `C10_batch_limit_independent` (every limit that
    admits each single record); below that the driver raises: `C10_batch_ok_iff`,
    `C10_batch_limit_too_small` (witness; recorded finding)
  * independence of the order compute phases finish  `C10_batch_compute_order_independent`
  * the hypotheses are needed: `C10_contract_apply_log_needed`, `C10_contract_key_needed`,
    `C10_batch_duplicate_agent_witness`
-/
import Clem.Model.Batch
import Clem.Proofs.Batch

namespace Clem.Props.C10
open Clem.Batch Clem.LogStager Clem.LogJson Clem.Py

/-! ## selection -/

/-- **Selection.**  For every id list, graph assignment and worker count the picked agents
(1) have pairwise disjoint graph sets, (2) are at most `max 1 workers`, (3) form a subsequence of
the input order, and (4) are greedy-maximal: an agent left out either meets a full batch or
overlaps an agent that was picked. -/
theorem C10_batch_select_disjoint (gs : Str → List Str) (mw : Int) (ids : List Str) :
    (selectIndependent gs mw ids).Pairwise (Disj gs) ∧
    (selectIndependent gs mw ids).length ≤ workerLimit mw ∧
    (selectIndependent gs mw ids).Sublist ids ∧
    ∀ a ∈ ids, a ∈ selectIndependent gs mw ids ∨
      (selectIndependent gs mw ids).length = workerLimit mw ∨
      ∃ b ∈ selectIndependent gs mw ids, disjointB (gs b) (gs a) = false := by
  unfold selectIndependent
  refine ⟨selectGo_disjoint gs _ ids [] [] (usedOf_nil gs) List.Pairwise.nil,
    selectGo_length gs _ ids [] [] (Nat.zero_le _), ?_,
    selectGo_maximal gs _ ids [] [] (usedOf_nil gs) (Nat.zero_le _)⟩
  obtain ⟨rest, e, s⟩ := selectGo_prefix gs (workerLimit mw) ids [] []
  rw [e]; simpa using s

/-- the executable monitor `selectOkB` (what the driver evaluates on the implementation's `picked`)
holds of the model's selection for every input: the four clauses above in Boolean form. -/
theorem C10_selectOkB_model (gs : Str → List Str) (mw : Int) (ids : List Str) :
    selectOkB gs mw ids (selectIndependent gs mw ids) = true := by
  have hd := selectGo_disjoint gs (workerLimit mw) ids [] [] (usedOf_nil gs) List.Pairwise.nil
  have hl := selectGo_length gs (workerLimit mw) ids [] [] (Nat.zero_le _)
  have hm := selectGo_maximal gs (workerLimit mw) ids [] [] (usedOf_nil gs) (Nat.zero_le _)
  obtain ⟨rest, e, s⟩ := selectGo_prefix gs (workerLimit mw) ids [] []
  unfold selectOkB selectIndependent
  simp only [Bool.and_eq_true, decide_eq_true_eq, List.all_eq_true, Bool.or_eq_true, List.any_eq_true,
    Bool.not_eq_true']
  refine ⟨⟨⟨(pairwiseDisjointB_iff gs _).mpr hd, hl⟩, ?_⟩, ?_⟩
  · apply sublistB_of_sublist
    rw [e]; simpa using s
  · intro a ha
    rcases hm a ha with h | h | ⟨b, hb, hf⟩
    · exact Or.inl (Or.inl (by simpa using h))
    · exact Or.inl (Or.inr h)
    · exact Or.inr ⟨b, hb, hf⟩

/-- the executable monitor `sameOutcomeB` means what `C10_batch_eq_seq_contract` concludes. -/
theorem C10_sameOutcomeB_sound {σ : Type} [BEq σ] [LawfulBEq σ] (paths : List Str) (a b : Out σ)
    (h : sameOutcomeB paths a b = true) :
    a.ok = true ∧ b.ok = true ∧ a.lines = b.lines ∧ a.state = b.state ∧
    ∀ p ∈ paths, fileOf p a.written = fileOf p b.written := by
  simp only [sameOutcomeB, Bool.and_eq_true, List.all_eq_true, beq_iff_eq] at h
  exact ⟨h.1.1.1.1, h.1.1.1.2, h.1.1.2, h.1.2, h.2⟩


/-- the worker limit is at least one whatever the configured value. -/
theorem C10_batch_worker_limit_pos (mw : Int) : 1 ≤ workerLimit mw ∧ (1 < mw → workerLimit mw = mw.toNat) := by
  unfold workerLimit
  constructor
  · omega
  · intro h; congr 1; omega

/-- **Overlapping agents are never computed in the same batch** (distinct agent ids): the tasks
the driver computes are exactly the picked agents, in task order — hence pairwise disjoint. -/
theorem C10_batch_computed_eq_picked (gs : Str → List Str) (mw : Int) (tasks : List (Str × Str))
    (hn : (tasks.map (·.1)).Nodup) :
    (computed gs mw tasks).map (·.1) = selectIndependent gs mw (tasks.map (·.1)) ∧
    ((computed gs mw tasks).map (·.1)).Pairwise (Disj gs) := by
  have hs := (C10_batch_select_disjoint gs mw (tasks.map (·.1)))
  have e : (computed gs mw tasks).map (·.1) = selectIndependent gs mw (tasks.map (·.1)) := by
    unfold computed
    have hfm := List.filter_map (f := fun t : Str × Str => t.1)
      (p := fun x => (selectIndependent gs mw (tasks.map (·.1))).contains x) (l := tasks)
    have := filter_contains_sublist hs.2.2.1 hn
    rw [hfm] at this
    exact this
  exact ⟨e, e ▸ hs.1⟩

/-- a batch of pairwise-disjoint agents that fits the worker limit is computed entirely. -/
theorem C10_batch_computed_all (gs : Str → List Str) (mw : Int) (tasks : List (Str × Str))
    (hd : (tasks.map (·.1)).Pairwise (Disj gs)) (hw : tasks.length ≤ workerLimit mw) :
    computed gs mw tasks = tasks := by
  unfold computed selectIndependent
  rw [selectGo_all gs _ _ [] [] (usedOf_nil gs) (by simpa using hd) (by simpa using hw)]
  simp only [List.nil_append]
  apply List.filter_eq_self.mpr
  intro t ht
  simpa using ⟨t.2, ht⟩

/-- The `Nodup` hypothesis is needed: the driver tests `aid not in picked`, so a task list naming
one agent twice computes (and commits) it twice although the second occurrence was rejected by
the selection (its graphs overlap the first's). -/
theorem C10_batch_duplicate_agent_witness :
    let gs : Str → List Str := fun _ => [[71]]
    let tasks : List (Str × Str) := [([65], [120]), ([65], [121])]
    selectIndependent gs 4 (tasks.map (·.1)) = [[65]] ∧ computed gs 4 tasks = tasks := by decide

/-! ## equality with the sequential loop -/

/-- **Batch = sequential loop under the dry-run contract.**  For every compute/apply pair
following the contract (`Contract`: reads and writes only the agent's own graphs, no
`apply.jsonl` record in the dry run, the batch's `(turn_id, slice_idx)` on every buffer), every
state, task list whose computed agents have pairwise disjoint graph sets, every CI setting and
every staging limit under which nothing raises: the returned result lines, the final state and
the line sequence of EVERY file equal those of the sequential loop over the computed tasks. -/
theorem C10_batch_eq_seq_contract {σ D C : Type} (ci : Bool) (limit : Int) (P : Params σ D)
    (gs : Str → List Str) (proj : σ → Str → C) (T S : Int) (hc : Contract P gs proj T S)
    (mw : Int) (s0 : σ) (tasks : List (Str × Str))
    (hd : ((computed gs mw tasks).map (·.1)).Pairwise (Disj gs))
    (hok : (runPar ci limit P gs mw s0 tasks).ok = true) :
    (runPar ci limit P gs mw s0 tasks).lines = (seqRun ci P s0 (computed gs mw tasks)).lines ∧
    (runPar ci limit P gs mw s0 tasks).state = (seqRun ci P s0 (computed gs mw tasks)).state ∧
    ∀ p, fileOf p (runPar ci limit P gs mw s0 tasks).written
          = fileOf p (seqRun ci P s0 (computed gs mw tasks)).written := by
  obtain ⟨hrb, hst, hln, hwr⟩ := runPar_pure ci limit P gs mw s0 tasks hok
  have hkey : ∀ b ∈ bufsOf P gs mw s0 tasks, b.turn = T ∧ b.slice = S := by
    intro b hb
    obtain ⟨t, _, rfl⟩ := List.mem_map.mp hb
    exact hc.key_const s0 t.1 t.2
  have hsort : sortBuffers (bufsOf P gs mw s0 tasks) = bufsOf P gs mw s0 tasks :=
    isort_bufLe_const T S _ hkey
  have hseq := seq_eq_pure ci P gs proj T S hc s0 (computed gs mw tasks) s0 hd (fun _ _ _ _ => rfl)
  rw [hsort] at hst hln
  refine ⟨hln.trans hseq.2.1.symm, hst.trans hseq.1.symm, fun p => ?_⟩
  -- arrivals carry one constant (turn, slice): key-monotone per file
  have hmono : monoPerFileB (allArrivals P s0 (bufsOf P gs mw s0 tasks)) = true := by
    apply arrivals_monotone T S
    intro a ha
    unfold allArrivals at ha
    rcases List.mem_append.mp ha with h | h
    · obtain ⟨b, hb, l, _, rfl⟩ := logArrivals_mem _ a h
      exact hkey b hb
    · rw [hsort] at h
      exact commitPure_arrs_key P.apply T S _ hkey s0 a h
  have hfile := fileOf_runBatch ci limit _ _ (Prod.ext rfl hrb) hmono p
  rw [hwr, hfile, hseq.2.2 p]
  unfold allArrivals
  rw [hsort, List.map_append, fileOf_append]
  rfl

/-- **The statement's case**: a batch of agents with pairwise-disjoint graph sets (and at least
as many workers as agents) through the enabled parallel driver = the driver's own sequential
loop over the same tasks: results, final state and every file's line sequence. -/
theorem C10_batch_eq_seq_disjoint {σ D C : Type} (ci : Bool) (limit : Int) (P : Params σ D)
    (gs : Str → List Str) (proj : σ → Str → C) (T S : Int) (hc : Contract P gs proj T S)
    (mw : Int) (s0 : σ) (tasks : List (Str × Str))
    (hd : (tasks.map (·.1)).Pairwise (Disj gs)) (hmw : 1 < mw) (hw : tasks.length ≤ mw.toNat)
    (hok : (runDriver ci limit P gs true true mw s0 tasks).ok = true) :
    (runDriver ci limit P gs true true mw s0 tasks).lines
      = (runDriver ci limit P gs false false mw s0 tasks).lines ∧
    (runDriver ci limit P gs true true mw s0 tasks).state
      = (runDriver ci limit P gs false false mw s0 tasks).state ∧
    ∀ p, fileOf p (runDriver ci limit P gs true true mw s0 tasks).written
          = fileOf p (runDriver ci limit P gs false false mw s0 tasks).written := by
  have hall : computed gs mw tasks = tasks :=
    C10_batch_computed_all gs mw tasks hd (by rw [(C10_batch_worker_limit_pos mw).2 hmw]; exact hw)
  have e1 : runDriver ci limit P gs true true mw s0 tasks = runPar ci limit P gs mw s0 tasks := by
    simp [runDriver, parallelOn, hmw]
  have e2 : runDriver ci limit P gs false false mw s0 tasks = seqRun ci P s0 tasks := by
    simp [runDriver, parallelOn]
  rw [e1] at hok ⊢
  rw [e2]
  have := C10_batch_eq_seq_contract ci limit P gs proj T S hc mw s0 tasks (by rw [hall]; exact hd) hok
  rwa [hall] at this

/-! ## each approved batch reaches apply exactly once -/

/-- **Apply exactly once, for every limit and outcome.**  Whatever the staging limit, the stager
state, the CI setting and whether or not a back-pressure retry raises: the commit loop hands the
buffers' delta batches to `apply_changes` in commit order, each AT MOST once (the trace is a prefix
of the buffers' batches — a back-pressure flush never re-runs a commit), each EXACTLY once when
the loop finishes, and when a retry raises the trace stops with the buffer whose record raised. -/
theorem C10_commit_applies_each_once {σ D : Type} (ci : Bool) (apply : σ → D → σ × ApplyOut) :
    ∀ (bs : List (Buffer D)) (l : Loop) (s : σ),
    (commitLoop ci apply l s bs).applied <+: bs.map (·.deltas) ∧
    ((commitLoop ci apply l s bs).ok = true → (commitLoop ci apply l s bs).applied = bs.map (·.deltas)) ∧
    ((commitLoop ci apply l s bs).ok = false → (commitLoop ci apply l s bs).applied ≠ [])
  | [], l, s => by simp [commitLoop]
  | b :: bs, l, s => by
    simp only [commitLoop, List.map_cons]
    by_cases h : (loopStep ci l (applyArrival b (apply s b.deltas).2)).2 = true
    · simp only [h, if_true]
      have ih := C10_commit_applies_each_once ci apply bs
        (loopStep ci l (applyArrival b (apply s b.deltas).2)).1 (apply s b.deltas).1
      refine ⟨(List.prefix_cons_inj _).mpr ih.1, fun hok => by rw [ih.2.1 hok], fun _ => by simp⟩
    · simp only [h]
      refine ⟨?_, fun hc => by simp at hc, fun _ => by simp⟩
      exact ⟨bs.map (·.deltas), by simp⟩

/-- the same for a whole batch run: the apply-call trace is a prefix of the computed buffers'
batches in commit order, and all of them — each once — exactly when the driver finishes. -/
theorem C10_batch_applies_each_once {σ D : Type} (ci : Bool) (limit : Int) (P : Params σ D)
    (gs : Str → List Str) (mw : Int) (s0 : σ) (tasks : List (Str × Str)) :
    runParApplied ci limit P gs mw s0 tasks <+: (sortBuffers (bufsOf P gs mw s0 tasks)).map (·.deltas) ∧
    ((runPar ci limit P gs mw s0 tasks).ok = true →
      runParApplied ci limit P gs mw s0 tasks = (sortBuffers (bufsOf P gs mw s0 tasks)).map (·.deltas)) := by
  unfold runParApplied runPar bufsOf
  by_cases h1 : (loopRun ci ⟨Stager.new limit, []⟩
      (logArrivals ((computed gs mw tasks).map (fun t => P.compute s0 t.1 t.2)))).2 = true
  · simp only [h1, if_true]
    have c := C10_commit_applies_each_once ci P.apply
      (sortBuffers ((computed gs mw tasks).map (fun t => P.compute s0 t.1 t.2)))
      (loopRun ci ⟨Stager.new limit, []⟩
        (logArrivals ((computed gs mw tasks).map (fun t => P.compute s0 t.1 t.2)))).1 s0
    refine ⟨c.1, fun hok => c.2.1 ?_⟩
    by_contra hn
    simp only [Bool.not_eq_true] at hn
    simp [hn] at hok
  · simp only [h1]
    exact ⟨List.nil_prefix, fun hok => by simp at hok⟩

/-! ## staging limit -/

/-- The driver finishes (no `LOG_STAGING_BACKPRESSURE` leaves it) **iff** every single staged
record's estimate fits the limit — whatever the buffers, state, CI setting. -/
theorem C10_batch_ok_iff {σ D : Type} (ci : Bool) (limit : Int) (P : Params σ D) (gs : Str → List Str)
    (mw : Int) (s0 : σ) (tasks : List (Str × Str)) :
    (runPar ci limit P gs mw s0 tasks).ok = true ↔
      ∀ a ∈ allArrivals P s0 (bufsOf P gs mw s0 tasks), ((estA ci a : Nat) : Int) ≤ limit :=
  runPar_ok_iff ci limit P gs mw s0 tasks

/-- **Limit independence.**  For all limits `l1 l2` that admit every single record (≥ the largest
record estimate), with buffers carrying the batch's constant `(turn, slice)`: both runs finish,
return the same results and final state, and every file has the same line sequence — i.e.
back-pressure flushes are invisible.  (No locality assumption on compute/apply is needed.) -/
theorem C10_batch_limit_independent {σ D : Type} (ci : Bool) (l1 l2 : Int) (P : Params σ D)
    (gs : Str → List Str) (mw : Int) (s0 : σ) (tasks : List (Str × Str)) (T S : Int)
    (hkey : ∀ b ∈ bufsOf P gs mw s0 tasks, b.turn = T ∧ b.slice = S)
    (h1 : ∀ a ∈ allArrivals P s0 (bufsOf P gs mw s0 tasks), ((estA ci a : Nat) : Int) ≤ l1)
    (h2 : ∀ a ∈ allArrivals P s0 (bufsOf P gs mw s0 tasks), ((estA ci a : Nat) : Int) ≤ l2) :
    (runPar ci l1 P gs mw s0 tasks).ok = true ∧ (runPar ci l2 P gs mw s0 tasks).ok = true ∧
    (runPar ci l1 P gs mw s0 tasks).lines = (runPar ci l2 P gs mw s0 tasks).lines ∧
    (runPar ci l1 P gs mw s0 tasks).state = (runPar ci l2 P gs mw s0 tasks).state ∧
    ∀ p, fileOf p (runPar ci l1 P gs mw s0 tasks).written
          = fileOf p (runPar ci l2 P gs mw s0 tasks).written := by
  have ok1 := (runPar_ok_iff ci l1 P gs mw s0 tasks).mpr h1
  have ok2 := (runPar_ok_iff ci l2 P gs mw s0 tasks).mpr h2
  obtain ⟨r1, s1, n1, w1⟩ := runPar_pure ci l1 P gs mw s0 tasks ok1
  obtain ⟨r2, s2, n2, w2⟩ := runPar_pure ci l2 P gs mw s0 tasks ok2
  refine ⟨ok1, ok2, n1.trans n2.symm, s1.trans s2.symm, fun p => ?_⟩
  have hsort : sortBuffers (bufsOf P gs mw s0 tasks) = bufsOf P gs mw s0 tasks :=
    isort_bufLe_const T S _ hkey
  have hmono : monoPerFileB (allArrivals P s0 (bufsOf P gs mw s0 tasks)) = true := by
    apply arrivals_monotone T S
    intro a ha
    unfold allArrivals at ha
    rcases List.mem_append.mp ha with h | h
    · obtain ⟨b, hb, l, _, rfl⟩ := logArrivals_mem _ a h
      exact hkey b hb
    · rw [hsort] at h
      exact commitPure_arrs_key P.apply T S _ hkey s0 a h
  rw [w1, w2, fileOf_runBatch ci l1 _ _ (Prod.ext rfl r1) hmono p,
    fileOf_runBatch ci l2 _ _ (Prod.ext rfl r2) hmono p]

/-! ## order in which compute phases finish -/

/-- **Collection by task index.**  Whatever the order `π` (any permutation of the task indices)
in which compute phases finish, collecting their buffers by task index gives the buffers in task
order: each compute sees only the snapshot `s0` (the function `f`), never another compute's or a
commit's effect. -/
theorem C10_collect_perm {β : Type} (f : Nat → β) (n : Nat) (π : List Nat)
    (hπ : π.Perm (List.range n)) :
    collect n (π.map (fun i => (i, f i))) = (List.range n).map f := by
  unfold collect
  have h : ∀ i ∈ List.range n, (π.map (fun i => (i, f i))).lookup i = some (f i) := by
    intro i hi
    have hmem : i ∈ π := hπ.mem_iff.mpr hi
    clear hπ hi
    induction π with
    | nil => cases hmem
    | cons j π ih =>
      simp only [List.map_cons, List.lookup]
      by_cases h : i = j
      · subst h; simp
      · have : (i == j) = false := by simpa using h
        simp only [this]
        exact ih (by simpa [h] using hmem)
  rw [List.filterMap_congr h]
  simp

/-- **Compute-order independence**: the batch outcome computed from buffers collected under any
finishing order equals the outcome of the in-order driver (the commit order is then fixed by
`_sort_turn_buffers`, the staging order by collection order). -/
theorem C10_batch_compute_order_independent {σ D : Type} (P : Params σ D) (s0 : σ)
    (ts : List (Str × Str)) (dflt : Str × Str) (π π' : List Nat)
    (hπ : π.Perm (List.range ts.length)) (hπ' : π'.Perm (List.range ts.length)) :
    collect ts.length (π.map (fun i => (i, P.compute s0 (ts.getD i dflt).1 (ts.getD i dflt).2)))
      = collect ts.length (π'.map (fun i => (i, P.compute s0 (ts.getD i dflt).1 (ts.getD i dflt).2))) ∧
    collect ts.length (π.map (fun i => (i, P.compute s0 (ts.getD i dflt).1 (ts.getD i dflt).2)))
      = ts.map (fun t => P.compute s0 t.1 t.2) := by
  rw [C10_collect_perm _ _ π hπ, C10_collect_perm _ _ π' hπ']
  refine ⟨rfl, ?_⟩
  apply List.ext_getElem
  · simp
  · intro i h1 h2
    simp at h1
    simp [List.getD_eq_getElem?_getD, h1]

/-! ## the scripted world driven by the correspondence satisfies the contract -/

/-- The concrete compute/apply pair the harness substitutes into the real driver
(`worldParams`: a turn reads graph counters, logs records carrying what it read, proposes
increments; apply adds them and bumps a version) satisfies `Contract` whenever its script table
passes the executable check `scriptsOkB` — so `C10_batch_eq_seq_contract` applies to exactly the
cases the harness tags `contract`. -/
theorem C10_world_contract (gs : Str → List Str) (T S : Int) (scripts : List ((Str × Str) × Script))
    (h : scriptsOkB gs T S scripts = true) :
    Contract (worldParams T S scripts) gs (fun w g => w.graphs.lookup g) T S where
  reads_own := by
    intro s s' a t hag
    have ok := script_ok gs T S scripts h a t
    simp only [worldParams, worldCompute, readVal]
    rw [readVal_congr s s' _ 0 (fun g hg => hag g (ok.1 g hg))]
  writes_own := by
    intro s s' a t g hg
    have ok := script_ok gs T S scripts h a t
    simp only [worldParams, worldCompute, worldApply]
    exact lookup_applyDeltas g _ _ (fun d hd e => hg (e ▸ ok.2.1 d hd))
  no_apply_log := by
    intro s a t l hl
    have ok := script_ok gs T S scripts h a t
    simp only [worldParams, worldCompute, List.mem_map] at hl
    obtain ⟨l0, hl0, rfl⟩ := hl
    exact ok.2.2.1 l0 hl0
  key_const := by
    intro s a t
    have ok := script_ok gs T S scripts h a t
    exact ⟨ok.2.2.2.1, ok.2.2.2.2⟩

/-- **The monitor holds of the model**: for every script table passing `scriptsOkB`, every world,
task list whose computed agents are pairwise disjoint (`pairwiseDisjointB`), CI setting, worker
count and staging limit under which nothing raises, the Boolean the driver evaluates on the
implementation's two runs (`sameOutcomeB`, any list of files) is `true` of the model's batch run
against the model's sequential loop. -/
theorem C10_world_batch_eq_seq (ci : Bool) (limit : Int) (gs : Str → List Str) (T S : Int)
    (scripts : List ((Str × Str) × Script)) (mw : Int) (w : World) (tasks : List (Str × Str))
    (paths : List Str)
    (h : scriptsOkB gs T S scripts = true)
    (hd : pairwiseDisjointB gs ((computed gs mw tasks).map (·.1)) = true)
    (hok : (runPar ci limit (worldParams T S scripts) gs mw w tasks).ok = true) :
    sameOutcomeB paths (runPar ci limit (worldParams T S scripts) gs mw w tasks)
      (seqRun ci (worldParams T S scripts) w (computed gs mw tasks)) = true := by
  have hc := C10_world_contract gs T S scripts h
  have hd' := (pairwiseDisjointB_iff gs _).mp hd
  obtain ⟨h1, h2, h3⟩ := C10_batch_eq_seq_contract ci limit _ gs _ T S hc mw w tasks hd' hok
  simp only [sameOutcomeB, Bool.and_eq_true, List.all_eq_true, beq_iff_eq]
  exact ⟨⟨⟨⟨hok, seqRun_ok ci _ _ w⟩, h1⟩, h2⟩, fun p _ => h3 p⟩

/-! ## witnesses: non-vacuity, and the hypotheses are needed -/

def wA : Str := [65]
def wB : Str := [66]
def wG1 : Str := [71, 49]
def wG2 : Str := [71, 50]
def wT1 : Str := [116, 49, 46, 106, 115, 111, 110, 108]  -- "t1.jsonl"
def wGs : Str → List Str := fun a => if a = wA then [wG1] else if a = wB then [wG2] else []
def wTasks : List (Str × Str) := [(wA, [120]), (wB, [121])]
def wWorld : World := ⟨[(wG1, 5), (wG2, 7)], 0⟩
def wT4 : Str := [116, 52, 46, 106, 115, 111, 110, 108]  -- "t4.jsonl"
def wRec (id : Nat) : Rec := [([117], .opq id true none none 40)]  -- {"u": <40 chars>}: estimate 52 with `turn` and `val`
/-- a contract-following table (turn 3, slice 0). -/
def wScripts : List ((Str × Str) × Script) :=
  [((wA, [120]), ⟨.opq 10 true none none 1, .int 3, 3, 0, [wG1], [(wT1, wRec 0), (wT4, wRec 1)], [(wG1, 1)], [97]⟩),
   ((wB, [121]), ⟨.opq 11 true none none 1, .int 3, 3, 0, [wG2], [(wT1, wRec 2)], [(wG2, 2)], [98]⟩)]

example : scriptsOkB wGs 3 0 wScripts = true := by decide
example : (wTasks.map (·.1)).Pairwise (Disj wGs) := by
  simp [wTasks, Disj, wGs, wA, wB, wG1, wG2]
/-- under a limit that forces back-pressure flushes the run finishes and … -/
example : (runDriver false 80 (worldParams 3 0 wScripts) wGs true true 2 wWorld wTasks).ok = true := by decide
/-- … equals the sequential loop (what the theorem says), with non-trivial content. -/
example :
    fileOf wT1 (runDriver false 80 (worldParams 3 0 wScripts) wGs true true 2 wWorld wTasks).written
      = fileOf wT1 (runDriver false 80 (worldParams 3 0 wScripts) wGs false false 2 wWorld wTasks).written ∧
    (fileOf wT1 (runDriver false 80 (worldParams 3 0 wScripts) wGs true true 2 wWorld wTasks).written).length = 2 ∧
    (runDriver false 80 (worldParams 3 0 wScripts) wGs true true 2 wWorld wTasks).state
      = ⟨[(wG1, 6), (wG2, 9)], 2⟩ := by decide

/-- back-pressure flushes really happen under limit 80 (the global write order differs from the
unlimited run: `t1 t4 t1 …` against `t1 t1 t4 …`) while every file sees the same lines. -/
example :
    (runPar false 80 (worldParams 3 0 wScripts) wGs 2 wWorld wTasks).written.map (·.1)
      = [wT1, wT4, wT1, applyPath, applyPath] ∧
    (runPar false 100000 (worldParams 3 0 wScripts) wGs 2 wWorld wTasks).written.map (·.1)
      = [wT1, wT1, wT4, applyPath, applyPath] ∧
    ∀ p ∈ [wT1, wT4, applyPath],
      fileOf p (runPar false 80 (worldParams 3 0 wScripts) wGs 2 wWorld wTasks).written
        = fileOf p (runPar false 100000 (worldParams 3 0 wScripts) wGs 2 wWorld wTasks).written := by decide

/-- under limit 80 the back-pressure flush falls exactly on an apply record; the commit is not
re-run: two apply calls for two buffers, version 0 → 2. -/
example :
    runParApplied false 80 (worldParams 3 0 wScripts) wGs 2 wWorld wTasks = [[(wG1, 1)], [(wG2, 2)]] ∧
    (runPar false 80 (worldParams 3 0 wScripts) wGs 2 wWorld wTasks).state.version = 2 := by decide

/-- **Limit too small** (DESIGN §5 row 10; recorded finding).  Full-strength reading of "all
staging byte limits from 1 byte upward" — `∀ limit ≥ 1, ok ∧ files = sequential` — is FALSE of
the code: below one record's estimate the retry after the drain raises again and the exception
leaves the driver.  With limit 1 nothing is written and no result is returned … -/
theorem C10_batch_limit_too_small :
    (runPar false 1 (worldParams 3 0 wScripts) wGs 2 wWorld wTasks).ok = false ∧
    (runPar false 1 (worldParams 3 0 wScripts) wGs 2 wWorld wTasks).written = [] ∧
    (runPar false 1 (worldParams 3 0 wScripts) wGs 2 wWorld wTasks).lines = [] := by decide

/-- … and with a limit that admits the captured logs but not the (larger) apply record, the
state HAS been committed (`apply_changes` ran) while its `apply.jsonl` record and all results are lost. -/
theorem C10_batch_limit_too_small_after_commit :
    (runPar false 60 (worldParams 3 0 wScripts) wGs 2 wWorld wTasks).ok = false ∧
    (runPar false 60 (worldParams 3 0 wScripts) wGs 2 wWorld wTasks).state = ⟨[(wG1, 6), (wG2, 7)], 1⟩ ∧
    fileOf applyPath (runPar false 60 (worldParams 3 0 wScripts) wGs 2 wWorld wTasks).written = [] := by
  decide

theorem C10_batch_all_limits_false :
    ¬ (∀ limit : Int, 1 ≤ limit →
        (runPar false limit (worldParams 3 0 wScripts) wGs 2 wWorld wTasks).ok = true) := by
  intro h
  have := h 1 (by decide)
  revert this
  decide

/-- The contract clause "the dry run emits no `apply.jsonl` record" is needed: a compute that
logs to `apply.jsonl` gets its records staged before every commit record, the sequential loop
interleaves them. -/
def wScriptsApplyLog : List ((Str × Str) × Script) :=
  [((wA, [120]), ⟨.opq 10 true none none 1, .int 3, 3, 0, [wG1], [(applyPath, wRec 0)], [], [97]⟩),
   ((wB, [121]), ⟨.opq 11 true none none 1, .int 3, 3, 0, [wG2], [(applyPath, wRec 2)], [], [98]⟩)]

theorem C10_contract_apply_log_needed :
    scriptsOkB wGs 3 0 wScriptsApplyLog = false ∧
    (runPar false 1000 (worldParams 3 0 wScriptsApplyLog) wGs 2 wWorld wTasks).ok = true ∧
    fileOf applyPath (runPar false 1000 (worldParams 3 0 wScriptsApplyLog) wGs 2 wWorld wTasks).written
      ≠ fileOf applyPath (seqRun false (worldParams 3 0 wScriptsApplyLog) wWorld wTasks).written := by
  decide

/-- The clause "every buffer carries the batch's `(turn_id, slice_idx)`" is needed: buffers
returning turn ids 2 then 1 are committed (and their results returned) in turn-id order, not in
task order. -/
def wScriptsKeys : List ((Str × Str) × Script) :=
  [((wA, [120]), ⟨.opq 10 true none none 1, .int 2, 2, 0, [wG1], [(wT1, wRec 0)], [(wG1, 1)], [97]⟩),
   ((wB, [121]), ⟨.opq 11 true none none 1, .int 1, 1, 0, [wG2], [(wT1, wRec 2)], [(wG2, 2)], [98]⟩)]

theorem C10_contract_key_needed :
    (runPar false 1000 (worldParams 3 0 wScriptsKeys) wGs 2 wWorld wTasks).lines = [([98], 7), ([97], 5)] ∧
    (seqRun false (worldParams 3 0 wScriptsKeys) wWorld wTasks).lines = [([97], 5), ([98], 7)] := by
  decide

end Clem.Props.C10
