import Clem.Props.C15.LruBytes
import Clem.Props.C15.TtlLru
import Clem.Props.C15.DetLru
import Clem.Props.C15.Merge
import Clem.Props.C15.Sched
import Clem.Props.C15.Wrappers

/-!
# C15 — Bounded caches never exceed capacity and evict deterministically

Hub module: the property theorems live in the sub-modules (all covered by the audit of
`Clem.Props.C15.*`):

* `C15/LruBytes.lean` — `LRUBytes` (entry + byte caps, exact byte accounting, LRU-prefix eviction);
* `C15/TtlLru.lean`   — `_NamespaceCache` / `LRUCache` (TTL by injected clock) and `CacheManager`;
* `C15/DetLru.lean`   — `DeterministicLRUSet`, `DeterministicLRU`, `DedupeRing`;
* `C15/Merge.lean`    — `merge_caches_deterministic` (worker-order / key-order independence, first-wins);
* `C15/Sched.lean`    — interleaving semantics: linearizability for atomic steps;
* `C15/Wrappers.lean` — lock coverage of `ThreadSafeCache` / `ThreadSafeBytesCache` (generated table) and
  the cache invariants under every schedule.
-/
