import Clem.Proofs.T1Hist
import Clem.Proofs.T1Reach
import Clem.Proofs.T1Budget
import Clem.Proofs.T1Out
import Clem.Proofs.T1Mon

/-!
# C12 — Propagation follows the documented spreading rule within its budgets

Property theorems about the executable model `Clem.T1` of `t1_propagate` (the same definitions the
driver runs at `Float` against the real code).  All statements are for an arbitrary number carrier
`[Num α]` with no algebraic assumptions — they speak about which operations are applied to which
operands in which order — so they hold verbatim for the executed `Float` instance.
`finalSt c g text` is the state of one graph's run when the `while` loop exits; `oneGraph` is the
per-graph result (`deltas`, counters); `t1` folds the active graphs.
-/

namespace Clem.T1
open Num

variable {α : Type} [Num α]
set_option linter.unusedSectionVars false

/-! ## a small concrete instance for non-vacuity (carrier `Int`) -/

/-- chain `0 →(2) 1 →(3) 2`, node 0 labelled "a", node 2 tagged "b". -/
def exGraph : Graph Int :=
  { gid := 0
    nodes := [⟨0, [97], []⟩, ⟨1, [], []⟩, ⟨2, [], [[98], []]⟩]
    edges := [⟨0, 1, 2, 0⟩, ⟨1, 2, 3, 0⟩] }

def exCfg : Cfg Int :=
  { queueBudget := 10, nodeBudget := 100, radiusCap := 4, iterCap := 50, iterCapLayers := 50
    relaxCap := some 5, sliceIters := none, slicePops := some 7
    perfEnabled := true, metricsEnabled := true, frontierCap := 3, visitedCap := 2, dedupeWindow := 2
    decay := some ⟨false, some 1, some 0, none⟩, edgeMult := [(0, 1)], eps := 1, cacheOn := false }

/-- text "xA" -/
def exText : List Nat := [120, 65]

/-! ## seeds -/

/-- **Seeds characterisation.** A node is seeded iff one of its keywords — its non-empty label or a
non-empty string tag — occurs (case-insensitively, as a substring) in the text. -/
theorem C12_seeds (g : Graph α) (text : List Nat) (nid : Nat) :
    nid ∈ seedsOf g text ↔
      ∃ n ∈ g.nodes, n.id = nid ∧ ∃ kw, kw ≠ [] ∧ (kw = n.label ∨ kw ∈ n.tags) ∧
        lower kw <:+: lower text := by
  unfold seedsOf
  rw [mem_matchKeywords]
  constructor
  · rintro ⟨kw, hm, hk⟩
    obtain ⟨n, hn, hid, hne, hor⟩ := (mem_collectLabels g nid kw).mp hm
    exact ⟨n, hn, hid, kw, hne, hor, ((kwMatch_iff text kw).mp hk).2⟩
  · rintro ⟨n, hn, hid, kw, hne, hor, hinf⟩
    exact ⟨kw, (mem_collectLabels g nid kw).mpr ⟨n, hn, hid, hne, hor⟩,
      (kwMatch_iff text kw).mpr ⟨hne, hinf⟩⟩

/-- each seed is queued once -/
theorem C12_seeds_nodup (g : Graph α) (text : List Nat) : (seedsOf g text).Nodup :=
  nodup_matchKeywords _ _

/-- the seeds monitor evaluated by the driver on the seeds observed on the real run holds on the model -/
theorem C12_seeds_monitor (g : Graph α) (text : List Nat) :
    seedsOk g text (seedsOf g text) = true := by
  unfold seedsOk
  simp only [Bool.and_eq_true, List.all_eq_true, Bool.or_eq_true, Bool.not_eq_true',
    List.contains_iff_mem]
  have hspec : ∀ nid, seedSpec g text nid = true ↔ nid ∈ seedsOf g text := by
    intro nid
    unfold seedSpec seedsOf
    rw [mem_matchKeywords, List.any_eq_true]
    constructor
    · rintro ⟨⟨n, kw⟩, hm, hp⟩
      simp only [Bool.and_eq_true, beq_iff_eq] at hp
      obtain ⟨h1, h2⟩ := hp
      subst h1
      exact ⟨kw, hm, h2⟩
    · rintro ⟨kw, hm, hk⟩
      exact ⟨(nid, kw), hm, by simp [hk]⟩
  refine ⟨fun x hx => (hspec x).mpr hx, ?_⟩
  intro n _
  cases h : seedSpec g text n.id with
  | false => exact Or.inl rfl
  | true => exact Or.inr ((hspec n.id).mp h)

example : seedsOf exGraph exText = [0] := by decide
example : seedsOf exGraph [66, 97] = [0, 2] := by decide

/-! ## the spreading rule -/

/-- **Spreading rule.** Every relaxation in the log of a run is
`contrib = ((w * weight) * mult) * decay(d)` over a real out-edge `src → dst` of the graph, with
`mult` the relation multiplier of that edge (default `0.6`), `d = dist(src) + 1` within the radius cap
and the effective layer cap (slice cap included), and `|contrib| ≥ EPS`. -/
theorem C12_rule (c : Cfg α) (g : Graph α) (text : List Nat) (l : LogE α)
    (h : Ev.relax l ∈ (finalSt c g text).evs) : RuleOK c g l := by
  obtain ⟨_, _, _, hok⟩ := EvsOK_mem (Hist_final c g text).evs h
  exact hok.1

/-- … and `w` is the activation popped with the node being expanded, the recorded new accumulator value
is the old one plus the contribution. -/
theorem C12_rule_context (c : Cfg α) (g : Graph α) (text : List Nat) (l : LogE α)
    (h : Ev.relax l ∈ (finalSt c g text).evs) :
    ∃ pre rest, (finalSt c g text).evs = pre ++ Ev.relax l :: rest ∧
      lastPop rest = some (l.src, l.w) ∧ l.accNew = add (accOf rest l.dst) l.contrib := by
  obtain ⟨pre, rest, heq, hok⟩ := EvsOK_mem (Hist_final c g text).evs h
  exact ⟨pre, rest, heq, hok.2.2, hok.2.1⟩

/-- Every popped pair `(u, w)` is a seed with weight `1.0` or a contribution pushed earlier into `u`;
every push is the contribution of the relaxation made just before it. -/
theorem C12_pop_push_origin (c : Cfg α) (g : Graph α) (text : List Nat) :
    (∀ u w, Ev.pop u w ∈ (finalSt c g text).evs →
      ∃ pre rest, (finalSt c g text).evs = pre ++ Ev.pop u w :: rest ∧
        ((w = one ∧ u ∈ seedsOf g text) ∨ ∃ a, Ev.push u w a ∈ rest)) ∧
    (∀ v x a, Ev.push v x a ∈ (finalSt c g text).evs →
      ∃ pre l rest, (finalSt c g text).evs = pre ++ Ev.push v x a :: Ev.relax l :: rest ∧
        l.dst = v ∧ l.contrib = x) := by
  refine ⟨?_, ?_⟩
  · intro u w h
    obtain ⟨pre, rest, heq, hok⟩ := EvsOK_mem (Hist_final c g text).evs h
    exact ⟨pre, rest, heq, hok⟩
  · intro v x a h
    obtain ⟨pre, rest, heq, hok⟩ := EvsOK_mem (Hist_final c g text).evs h
    obtain ⟨_, _, l, r', hr, hd, hx⟩ := hok
    exact ⟨pre, l, r', by rw [heq, hr], hd, hx⟩

/-- the decay factor is defined for every configuration — an absent, `None` or partial `t1.decay` falls back
to the defaults of the code (exp_floor, rate 0.6, floor 0.05, alpha 0.8), it no longer raises -/
theorem C12_decay_total (c : Cfg α) (d : Nat) : (decayOf c d).isSome = true := by
  unfold decayOf
  split <;> rfl

example : decayOf { exCfg with decay := none } 2 = some (pymax (powNat (ofDec 6 1 : Int) 2) (ofDec 5 2)) := rfl

/-- **The rule monitor is a consequence of the rule**: the Boolean `traceRuleOk` that the driver evaluates
on the heap trace (pops/pushes with operands) of the REAL run holds on the heap trace of every model run,
for every carrier whose representation equality is reflexive. -/
theorem C12_rule_monitor (hrefl : ∀ a : α, eqb a a = true) (c : Cfg α) (g : Graph α) (text : List Nat) :
    traceRuleOk c g none (heapTraceOf (finalSt c g text).evs) = true :=
  traceRuleOk_model hrefl c g _ _ (Hist_final c g text).evs

/-- … in particular at the executed `Float` instance (bit equality). -/
theorem C12_rule_monitor_float (c : Cfg Float) (g : Graph Float) (text : List Nat) :
    traceRuleOk c g none (heapTraceOf (finalSt c g text).evs) = true :=
  C12_rule_monitor (fun a => by simp [Num.eqb]) c g text

/-- **Accumulator.** For every node, the accumulated value is `0.0`, `+ 1.0` if the node was seeded,
`+` every logged contribution into it, added in log order. -/
theorem C12_acc (c : Cfg α) (g : Graph α) (text : List Nat) (v : Nat) :
    accGet (finalSt c g text).acc v = accOf (finalSt c g text).evs v :=
  (Hist_final c g text).acc v

/-! ## reach -/

/-- **Reach.** Every reported node is reachable from a seed by a walk whose length is its recorded
distance; the distance is 0 (a seed) or within both the radius cap and the effective layer cap. -/
theorem C12_reach (c : Cfg α) (g : Graph α) (text : List Nat) (id : Nat)
    (h : id ∈ (oneGraph c g text).deltas) :
    ∃ d, Reach g (seedsOf g text) id d ∧
      (d = 0 ∨ ((d : Int) ≤ c.radiusCap ∧ (d : Int) ≤ effLayers c)) := by
  unfold oneGraph at h
  dsimp only at h
  split at h
  · simp at h
  · obtain ⟨x, hm, _⟩ := (mem_deltasOf c _ id).mp h
    have hinv := ReachInv_final c g text
    have hk : id ∈ (finalSt c g text).acc.map (·.1) := List.mem_map.mpr ⟨(id, x), hm, rfl⟩
    obtain ⟨d, hd⟩ := Option.isSome_iff_exists.mp (hinv.acc id hk)
    exact ⟨d, hinv.dist id d hd⟩

/-- the same for every touched node (accumulator key), and `dist[u]` is defined for every queued node
(the code's `dist[u] + 1` cannot raise `KeyError`). -/
theorem C12_touched_reach (c : Cfg α) (g : Graph α) (text : List Nat) :
    (∀ k ∈ (finalSt c g text).acc.map (·.1), ∃ d, (finalSt c g text).dist.lookup k = some d ∧
      Reach g (seedsOf g text) k d ∧
      (d = 0 ∨ ((d : Int) ≤ c.radiusCap ∧ (d : Int) ≤ effLayers c))) ∧
    (∀ it ∈ (finalSt c g text).pq, ((finalSt c g text).dist.lookup it.id).isSome) := by
  have hinv := ReachInv_final c g text
  refine ⟨?_, hinv.pq⟩
  intro k hk
  obtain ⟨d, hd⟩ := Option.isSome_iff_exists.mp (hinv.acc k hk)
  exact ⟨d, hd, hinv.dist k d hd⟩

example : ∃ d, Reach exGraph (seedsOf exGraph exText) 2 d := ⟨2,
  Reach.step (g := exGraph) ⟨1, 2, 3, 0⟩ (Reach.step (g := exGraph) ⟨0, 1, 2, 0⟩
    (Reach.seed (by decide)) (by simp [exGraph]) rfl) (by simp [exGraph]) rfl⟩

/-! ## budgets -/

/-- **Budgets** (the monitor `budgetOk` evaluated by the driver on the implementation's counters):
`pops ≤ max(0, effective queue budget)` with `effQueue = min(queue_budget, slice t1_pops)`;
`iters ≤ max(0, effective layers)` with `effLayers = min(iter_cap_layers, iter_cap, slice t1_iters)`;
`propagations ≤ max(relax_cap, 0)` when a relaxation cap is configured (full strength; holds for the
code with the proposed pre-check fix `proposed_fixes/C12_relax_cap_precheck.diff` — the unpatched code
made one relaxation at `relax_cap = 0`). -/
theorem C12_budgets (c : Cfg α) (g : Graph α) (text : List Nat) :
    budgetOk c (oneGraph c g text).pops (oneGraph c g text).iters (oneGraph c g text).props = true := by
  have hp := final_pops_le c g text
  have hcap := CapOK_final c g text
  have h0 := imax_ge_left 0 (effQueue c)
  have h1 := imax_ge_right 0 (effQueue c)
  have h2 := imax_ge_right 0 (effLayers c)
  have h3 := imax_ge_left 0 (effLayers c)
  unfold budgetOk oneGraph
  dsimp only
  split
  · simp only [Bool.and_eq_true, decide_eq_true_eq]
    refine ⟨⟨by simpa using h0, h3⟩, ?_⟩
    split
    · rename_i r _
      have := imax_ge_right r 0
      simp only [decide_eq_true_eq]; omega
    · rfl
  · simp only [Bool.and_eq_true, decide_eq_true_eq]
    refine ⟨⟨?_, ?_⟩, ?_⟩
    · have : ((finalSt c g text).pops : Int) ≤ ((effQueue c).toNat : Int) := by exact_mod_cast hp
      have h4 : ((effQueue c).toNat : Int) ≤ imax 0 (effQueue c) := by
        rw [Int.toNat_eq_max]; unfold imax at *; split <;> omega
      omega
    · have := imin_le_right ((finalSt c g text).layersProcessed : Int) (effLayers c)
      omega
    · split
      · rename_i r hr
        simp only [decide_eq_true_eq]
        exact hcap r hr
      · rfl

/-- a non-negative `relax_cap` is never exceeded; a negative one allows no relaxation at all. -/
theorem C12_relax_cap (c : Cfg α) (g : Graph α) (text : List Nat) (r : Int)
    (hr : c.relaxCap = some r) :
    (0 ≤ r → ((finalSt c g text).props : Int) ≤ r) ∧ (r ≤ 0 → (finalSt c g text).props = 0) := by
  have := CapOK_final c g text r hr
  unfold imax at this
  constructor
  · intro h; split at this <;> omega
  · intro h; split at this <;> omega

/-- **Node budget.** A node is expanded only while `|acc| < node_budget` fails to hold … precisely:
`abs(acc[u]) >= node_budget` is false at every expansion and `abs(acc[v]) < node_budget` is true at every
push, `acc` being the accumulator value of that moment (as determined by the log before the event). -/
theorem C12_node_budget (c : Cfg α) (g : Graph α) (text : List Nat) :
    (∀ u a, Ev.expand u a ∈ (finalSt c g text).evs →
      le c.nodeBudget (abs a) = false ∧
      ∃ pre rest, (finalSt c g text).evs = pre ++ Ev.expand u a :: rest ∧ a = accOf rest u) ∧
    (∀ v x a, Ev.push v x a ∈ (finalSt c g text).evs →
      lt (abs a) c.nodeBudget = true ∧
      ∃ pre rest, (finalSt c g text).evs = pre ++ Ev.push v x a :: rest ∧ a = accOf rest v) := by
  refine ⟨?_, ?_⟩
  · intro u a h
    obtain ⟨pre, rest, heq, hok⟩ := EvsOK_mem (Hist_final c g text).evs h
    exact ⟨hok.2, pre, rest, heq, hok.1⟩
  · intro v x a h
    obtain ⟨pre, rest, heq, hok⟩ := EvsOK_mem (Hist_final c g text).evs h
    exact ⟨hok.2.1, pre, rest, heq, hok.1⟩

example : budgetOk exCfg (oneGraph exCfg exGraph exText).pops (oneGraph exCfg exGraph exText).iters
    (oneGraph exCfg exGraph exText).props = true := C12_budgets _ _ _

/-- **Perf frontier cap**: when `perf.enabled` and `perf.t1.caps.frontier > 0`, the queue never holds more
than `max(0, min(frontier, effective queue budget))` items after a push. -/
theorem C12_frontier_cap (c : Cfg α) (g : Graph α) (text : List Nat) (cap : Int)
    (h : effFrontier c = some cap) : ((finalSt c g text).pq.length : Int) ≤ imax cap 0 :=
  FrontOK_final c g text cap h

example : effFrontier exCfg = some 3 := by decide

/-! ## output -/

/-- **Output** (the monitor `outputOk`): the deltas of one graph are strictly ascending ids and are
exactly the touched nodes whose accumulator has `|acc| ≥ EPS` — one delta per such node. -/
theorem C12_output (c : Cfg α) (g : Graph α) (text : List Nat) (hs : seedsOf g text ≠ []) :
    outputOk c (finalSt c g text).acc (oneGraph c g text).deltas = true ∧
    (oneGraph c g text).deltas.Pairwise (· < ·) ∧
    (∀ id, id ∈ (oneGraph c g text).deltas ↔
      ∃ x, (id, x) ∈ (finalSt c g text).acc ∧ lt (abs x) c.eps = false) := by
  have hnd := (ReachInv_final c g text).nodup
  have hd : (oneGraph c g text).deltas = deltasOf c (finalSt c g text).acc := by
    unfold oneGraph
    dsimp only
    split
    · rename_i he
      have : seedsOf g text = [] := by simpa using he
      exact absurd this hs
    · rfl
  rw [hd]
  exact ⟨outputOk_deltasOf c _ hnd, deltasOf_pairwise c _ hnd, mem_deltasOf c _⟩

/-- without seeds nothing is reported -/
theorem C12_output_no_seeds (c : Cfg α) (g : Graph α) (text : List Nat) (hs : seedsOf g text = []) :
    (oneGraph c g text).deltas = [] ∧ (oneGraph c g text).pops = 0 ∧ (oneGraph c g text).props = 0 := by
  unfold oneGraph
  simp [hs]

/-! ## counters -/

/-- **Counters = event counts.** -/
theorem C12_counters (c : Cfg α) (g : Graph α) (text : List Nat) :
    (finalSt c g text).pops = (finalSt c g text).evs.countP Ev.isPop ∧
    (finalSt c g text).props = (finalSt c g text).evs.countP Ev.isRelax ∧
    (finalSt c g text).radiusHits = (finalSt c g text).evs.countP Ev.isRadius ∧
    (finalSt c g text).layerHits = (finalSt c g text).evs.countP Ev.isLayer ∧
    (finalSt c g text).nodeHits = (finalSt c g text).evs.countP Ev.isNodeHit :=
  let h := Counts_final c g text
  ⟨h.pops, h.props, h.radius, h.layer, h.node⟩

/-- **The perf dedupe ring and visited set are inert as the code is written**: `if ring …` /
`if visited_lru …` test `__len__` of containers that start empty, so nothing is ever added, no push is
deduplicated, no pop is skipped as visited, and both counters stay 0 — for every configuration. -/
theorem C12_perf_ring_visited_inert (c : Cfg α) (g : Graph α) (text : List Nat) :
    (finalSt c g text).dedupHits = 0 ∧ (finalSt c g text).visitedEv = 0 ∧
    (finalSt c g text).evs.countP Ev.isDedup = 0 ∧
    (finalSt c g text).evs.countP Ev.isVisitedSkip = 0 :=
  let h := Inert_final c g text
  ⟨h.dedup, h.visEv, h.noDedupEv, h.noVisitedEv⟩

/-! ## several graphs -/

/-- **Several active graphs**: with the result cache off and no error, the result is the concatenation of
the per-graph deltas in `active_graphs` order and the counters are per-graph sums — every budget above is
per graph (so per-slice totals over several graphs can exceed `t1_pops`, see the witness below). -/
theorem C12_multi_concat (c : Cfg α) (text : List Nat) (hc : c.cacheOn = false)
    (hp : c.slicePops = none) (hi : c.sliceIters = none) :
    ∀ (gs : List (Graph α)) (t : Tot α), t.err = false →
      (∀ g ∈ gs, (oneGraph c g text).err = false) →
      (gs.foldl (addGraph c text) t).deltas =
          t.deltas ++ gs.flatMap (fun g => (oneGraph c g text).deltas.map (fun n => (g.gid, n))) ∧
      (gs.foldl (addGraph c text) t).pops = t.pops + (gs.map (fun g => (oneGraph c g text).pops)).sum ∧
      (gs.foldl (addGraph c text) t).props = t.props + (gs.map (fun g => (oneGraph c g text).props)).sum ∧
      (gs.foldl (addGraph c text) t).err = false := by
  intro gs
  induction gs with
  | nil => intro t ht _; simp [ht]
  | cons g gs ih =>
    intro t ht hg
    have hl : leftCfg c t = c := by cases c; simp_all [leftCfg]
    obtain ⟨h1, h2, h3, h4⟩ := addGraph_nocache c text t g hc ht
    rw [hl] at h1 h2 h3 h4
    have he : (addGraph c text t g).err = false := by rw [h4]; exact hg g (by simp)
    obtain ⟨i1, i2, i3, i4⟩ := ih (addGraph c text t g) he (fun g' hg' => hg g' (by simp [hg']))
    simp only [List.foldl_cons, List.flatMap_cons, List.map_cons, List.sum_cons]
    refine ⟨?_, ?_, ?_, i4⟩
    · rw [i1, h1]; simp
    · rw [i2, h2]; omega
    · rw [i3, h3]; omega

/-! ## non-vacuity: a concrete run (kernel-evaluated at the `Int` carrier) -/

example : (oneGraph exCfg exGraph exText).deltas = [0, 1, 2] := by decide
example : (oneGraph exCfg exGraph exText).props = 2 ∧ (oneGraph exCfg exGraph exText).pops = 3 := by decide
/-- the log of that run contains the relaxation `1 → 2` with `contrib = 2·3·1·1 = 6` (hypothesis of `C12_rule`) -/
example : (finalSt exCfg exGraph exText).evs.any (fun e => match e with
    | .relax l => l.src == 1 && l.dst == 2 && l.w == 2 && l.weight == 3 && l.contrib == 6 && l.d == 2
    | _ => false) = true := by decide

/-- `T1_slice_budget_is_per_graph` (observation): with slice cap `t1_pops = 1` and two active graphs the
call pops twice in total. -/
example : (t1 { exCfg with slicePops := some 1 } [exGraph, { exGraph with gid := 1 }] exText).pops = 1 := by
  decide

/-- relaxation cap at 0 (with the pre-check): one pop, no relaxation. -/
example : (oneGraph { exCfg with relaxCap := some 0 } exGraph exText).props = 0 ∧
    (oneGraph { exCfg with relaxCap := some 0 } exGraph exText).pops = 1 := by decide

end Clem.T1
