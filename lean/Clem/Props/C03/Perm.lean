import Clem.Proofs.T4Perm
import Mathlib.Algebra.Order.Field.Rat

/-!
# C03 — independence from the listing order, and the negation witnesses

Full statement (property text): *"the result … depends neither on the order in which deltas are
listed …"*, i.e. `∀ inp ds', inp.deltas ~ ds' → t4 … {inp with deltas := ds'} = t4 … inp`.

With the fix `proposed_fixes/C03_combine_sum_canonical_order.diff` (`_combine_by_ckey` sums each
key's contributions in ascending order of value) this is proved for EVERY number carrier whose `≤` is
a total order — no associativity, no exact arithmetic — so it covers the `Float` instance the driver
runs on NaN-free inputs (up to the sign of zero, which `sorted` cannot see; the harness checks the
real code bit-for-bit on permutations, including `[1e16, 1.0, -1e16]`, a regression case in
`corpus/C03/t4__float_sum.json`).

One hypothesis remains and is necessary: injective string keys.  Ids/attrs containing `:` can make
two distinct targets share `f"{kind}:{id}:{attr}"`; then the first listed wins
(`C03_perm_fails_on_collision`, known finding `C03:t4:order.ckey-collision`).
-/
set_option linter.unusedSectionVars false

namespace Clem.T4
open Clem.Py

section AnyCarrier
variable {α : Type} [Num α]

/-- Permutation invariance of the whole `T4Result`, for any totally ordered carrier — partial only
in `CkeyInjective` (full statement above; negation witness below). -/
theorem C03_perm_invariant_partial (ho : LeTotalOrder α) (sqrt : α → α) (thr : α) (inp : Input α)
    (ds' : List (Delta α)) (hp : inp.deltas.Perm ds') (hinj : CkeyInjective inp.deltas) :
    t4 sqrt thr { inp with deltas := ds' } = t4 sqrt thr inp := by
  have hA : afterCd { inp with deltas := ds' } = afterCd inp := by
    simp only [afterCd, combine_perm_invariant ho hp hinj]; rfl
  have hC : clamped { inp with deltas := ds' } = clamped inp := by simp only [clamped, hA]
  have hS : scaled sqrt { inp with deltas := ds' } = scaled sqrt inp := by simp only [scaled, hC]
  have hK : kept sqrt { inp with deltas := ds' } = kept sqrt inp := by simp only [kept, hS]
  have hP : approved sqrt { inp with deltas := ds' } = approved sqrt inp := by simp only [approved, hK]
  simp only [t4, hA, hC, hS, hK, hP, hp.length_eq]
  rfl

/-- … in particular `_combine_by_ckey` itself. -/
theorem C03_combine_perm_invariant_partial (ho : LeTotalOrder α) {ds ds' : List (Delta α)}
    (hp : ds.Perm ds') (hinj : CkeyInjective ds) : combine ds = combine ds' :=
  combine_perm_invariant ho hp hinj

end AnyCarrier

/-- at an ordered field the order hypothesis is free: only `CkeyInjective` is left -/
theorem C03_perm_invariant_field {α : Type} [Field α] [LinearOrder α] [IsStrictOrderedRing α]
    (sqrt : α → α) (thr : α) (inp : Input α) (ds' : List (Delta α)) (hp : inp.deltas.Perm ds')
    (hinj : CkeyInjective inp.deltas) : t4 sqrt thr { inp with deltas := ds' } = t4 sqrt thr inp :=
  C03_perm_invariant_partial leTotalOrder_field sqrt thr inp ds' hp hinj

/-! ### negation witnesses (carrier `ℚ`, `decide +kernel` on the model's own definitions) -/

def wInput (ds : List (Delta ℚ)) (ops : List Str) : Input ℚ :=
  { deltas := ds, ops := ops, cooldowns := [([69], 2)], last := [([69], some 4)], turns := [some 5],
    capL2 := 3/2, capNov := 3/10, k := 64 }

/-- node `n:a`, attr `b:w` -/
def wA : Delta ℚ := ⟨[110, 111, 100, 101], [110, 58, 97], [98, 58, 119], 1/10, none, none⟩
/-- node `n:a:b`, attr `w` — a different target with the same `node:n:a:b:w` string key -/
def wB : Delta ℚ := ⟨[110, 111, 100, 101], [110, 58, 97, 58, 98], [119], 1/10, none, none⟩

/-- **The unrestricted statement is false**: two distinct targets whose string keys collide are
merged, and which of them is approved depends on the listing order. -/
theorem C03_perm_fails_on_collision :
    [wA, wB].Perm [wB, wA] ∧ ckey wA = ckey wB ∧
    (t4 id (999999/1000000) (wInput [wA, wB] [])).approved.map (·.id) = [[110, 58, 97]] ∧
    (t4 id (999999/1000000) (wInput [wB, wA] [])).approved.map (·.id) = [[110, 58, 97, 58, 98]] ∧
    (t4 id (999999/1000000) (wInput [wA, wB] [])).approved.length = 1 :=
  ⟨List.Perm.swap _ _ _, by decide, by decide +kernel, by decide +kernel, by decide +kernel⟩

theorem C03_perm_unrestricted_false :
    ¬ ∀ (inp : Input ℚ) (ds' : List (Delta ℚ)), inp.deltas.Perm ds' →
        (t4 id (999999/1000000) { inp with deltas := ds' }).approved.map (·.id)
          = (t4 id (999999/1000000) inp).approved.map (·.id) := by
  intro h
  have := h (wInput [wA, wB] []) [wB, wA] (List.Perm.swap _ _ _)
  revert this
  decide +kernel

/-- A carrier whose addition saturates at `±10` — not associative, like IEEE absorption
(`1e16 + 1.0 = 1e16`).  Only used for the witness below. -/
@[reducible] def satNum : Num Int :=
  { zero := 0, one := 1, add := fun a b => max (-10) (min 10 (a + b)), sub := fun a b => a - b,
    mul := fun a b => a * b, div := fun a b => a / b, neg := fun a => -a,
    abs := fun a => (a.natAbs : Int), lt := fun a b => decide (a < b), le := fun a b => decide (a ≤ b),
    beq := fun a b => a == b }

def wS (v : Int) : Delta Int := ⟨[110], [97], [119], v, none, none⟩

theorem satNum_leTotalOrder : @LeTotalOrder Int satNum :=
  @LeTotalOrder.mk Int satNum
    (fun a b => by
      show decide (a ≤ b) = true ∨ decide (b ≤ a) = true
      simpa using Int.le_total a b)
    (fun a b c => by
      show decide (a ≤ b) = true → decide (b ≤ c) = true → decide (a ≤ c) = true
      simpa using @Int.le_trans a b c)
    (fun a b => by
      show decide (a ≤ b) = true → decide (b ≤ a) = true → a = b
      simpa using @Int.le_antisymm a b)

/-- Why the fix was needed (kept as a regression witness about the LEGACY merge, `combineAcc`, which
adds contributions in listing order): over a carrier whose addition is not associative, three
duplicates of ONE target merge to different values in different listing orders — the shape of the
float witness `[1e16, 1.0, -1e16]`.  The repaired `combine` gives the same value for both orders,
although `satNum` is not associative. -/
theorem C03_legacy_merge_needed_exact_arithmetic :
    [wS 10, wS 1, wS (-10)].Perm [wS 10, wS (-10), wS 1] ∧
    (@combineAcc Int satNum [wS 10, wS 1, wS (-10)]).map (·.delta) = [0] ∧
    (@combineAcc Int satNum [wS 10, wS (-10), wS 1]).map (·.delta) = [1] ∧
    (@combine Int satNum [wS 10, wS 1, wS (-10)]).map (·.delta) = [1] ∧
    (@combine Int satNum [wS 10, wS (-10), wS 1]).map (·.delta) = [1] :=
  ⟨(List.Perm.swap _ _ _).cons _, by decide, by decide, by decide, by decide⟩

/-- non-vacuity of `C03_perm_invariant_partial` at a NON-associative carrier -/
example : @combine Int satNum [wS 10, wS 1, wS (-10)] = @combine Int satNum [wS 10, wS (-10), wS 1] :=
  @C03_combine_perm_invariant_partial Int satNum satNum_leTotalOrder _ _ ((List.Perm.swap _ _ _).cons _)
    (by intro a ha b hb _
        simp at ha hb
        rcases ha with rfl | rfl | rfl <;> rcases hb with rfl | rfl | rfl <;> exact ⟨rfl, rfl, rfl⟩)

/-- Observation (DESIGN §4; consistent with the property's own pipeline order, so NOT alarmed):
merging happens before the cooldown filter, and the merged delta records the *minimum* `op_idx`.
Here op 1 (kind `E`) is in cooldown and is reported, yet its contribution `2/10` is approved inside
the delta whose recorded provenance is the unblocked op 0.  The cooldown clause is therefore stated
and monitored on recorded provenance (`C03_cooldown`). -/
theorem C03_strong_origin_fails :
    let inp := wInput [⟨[110], [97], [119], 1/10, some 0, none⟩, ⟨[110], [97], [119], 2/10, some 1, none⟩]
                 [[83], [69]]
    blockedOps inp = [1] ∧
    (t4 id (999999/1000000) inp).rejected = [([69], 1)] ∧
    (t4 id (999999/1000000) inp).approved.map (fun d => (d.delta, d.opIdx)) = [(3/10, some 0)] := by
  decide +kernel

/-- non-vacuity of the partial theorem: its hypotheses hold for a list with real duplicates -/
example : CkeyInjective [wA, wA] ∧ t4 id (999999/1000000) (wInput [wA, wA] []) =
    t4 id (999999/1000000) { wInput [wA, wA] [] with deltas := [wA, wA] } := by
  have hinj : CkeyInjective [wA, wA] := by
    intro a ha b hb _
    simp at ha hb
    subst ha; subst hb
    exact ⟨rfl, rfl, rfl⟩
  exact ⟨hinj, (C03_perm_invariant_field id _ (wInput [wA, wA] []) [wA, wA] (List.Perm.refl _) hinj).symm⟩

end Clem.T4
