import Clem.Proofs.T4Perm
import Mathlib.Algebra.Order.Field.Rat

/-!
# C03 — independence from the listing order (full strength)

Property text: *"the result … depends neither on the order in which deltas are listed …"*, i.e.
`∀ inp ds', inp.deltas ~ ds' → t4 … {inp with deltas := ds'} = t4 … inp`.

Proved below for EVERY number carrier whose `≤` is a total order (`C03_perm_invariant`) — no
associativity, no exact arithmetic, and no hypothesis on the target names any more:
* `proposed_fixes/C03_combine_sum_canonical_order.diff` (merged as 0128747): contributions to a key
  are summed in ascending order of value;
* `proposed_fixes/C03_t4_order_ckey-collision.diff`: `_canonical_key` is the tuple
  `(f"{kind}:{id}:{attr}", kind, id, attr)`, injective in the target (`ckey_inj`), so the former
  hypothesis `CkeyInjective` holds of every list (`ckeyInjective_all`).
The old witnesses stay as regression statements: the colliding pair is now kept apart in both
listing orders, and the legacy left-to-right merge is shown order-dependent on a non-associative carrier.
-/
set_option linter.unusedSectionVars false

namespace Clem.T4
open Clem.Py

section AnyCarrier
variable {α : Type} [Num α]

/-- Permutation invariance of the whole `T4Result` under hypothesis `CkeyInjective` (kept because
`C03_perm_invariant` is derived from it; the hypothesis is now always true). -/
theorem C03_perm_invariant_of_injective (ho : LeTotalOrder α) (sqrt : α → α) (thr : α) (inp : Input α)
    (ds' : List (Delta α)) (hp : inp.deltas.Perm ds') (hinj : CkeyInjective inp.deltas) :
    t4 sqrt thr { inp with deltas := ds' } = t4 sqrt thr inp := by
  have hA : afterCd { inp with deltas := ds' } = afterCd inp := by
    simp only [afterCd, combine_perm_invariant ho hp hinj]; rfl
  have hC : clamped { inp with deltas := ds' } = clamped inp := by simp only [clamped, hA]
  have hS : scaled sqrt { inp with deltas := ds' } = scaled sqrt inp := by simp only [scaled, hC]
  have hK : kept sqrt { inp with deltas := ds' } = kept sqrt inp := by simp only [kept, hS]
  have hP : approved sqrt { inp with deltas := ds' } = approved sqrt inp := by simp only [approved, hK]
  simp only [t4, hA, hC, hS, hK, hP, hp.length_eq]
  rfl

/-- **The result does not depend on the order in which the deltas are listed** — every input, every
totally ordered carrier (so: the `Float` instance on NaN-free values, up to the sign of zero). -/
theorem C03_perm_invariant (ho : LeTotalOrder α) (sqrt : α → α) (thr : α) (inp : Input α)
    (ds' : List (Delta α)) (hp : inp.deltas.Perm ds') :
    t4 sqrt thr { inp with deltas := ds' } = t4 sqrt thr inp :=
  C03_perm_invariant_of_injective ho sqrt thr inp ds' hp (ckeyInjective_all _)

/-- … in particular `_combine_by_ckey` itself. -/
theorem C03_combine_perm_invariant (ho : LeTotalOrder α) {ds ds' : List (Delta α)}
    (hp : ds.Perm ds') : combine ds = combine ds' :=
  combine_perm_invariant ho hp (ckeyInjective_all _)

/-- distinct targets never share a canonical key -/
theorem C03_ckey_injective (a b : Delta α) (h : ckey a = ckey b) :
    a.kind = b.kind ∧ a.id = b.id ∧ a.attr = b.attr := ckey_inj h

end AnyCarrier

/-- at an ordered field the order hypothesis is free: no hypothesis is left -/
theorem C03_perm_invariant_field {α : Type} [Field α] [LinearOrder α] [IsStrictOrderedRing α]
    (sqrt : α → α) (thr : α) (inp : Input α) (ds' : List (Delta α)) (hp : inp.deltas.Perm ds') :
    t4 sqrt thr { inp with deltas := ds' } = t4 sqrt thr inp :=
  C03_perm_invariant leTotalOrder_field sqrt thr inp ds' hp

/-! ### regression witnesses (carrier `ℚ`, `decide +kernel` on the model's own definitions) -/

def wInput (ds : List (Delta ℚ)) (ops : List Str) : Input ℚ :=
  { deltas := ds, ops := ops, cooldowns := [([69], 2)], last := [([69], some 4)], turns := [some 5],
    capL2 := 3/2, capNov := 3/10, k := 64 }

/-- node `n:a`, attr `b:w` -/
def wA : Delta ℚ := ⟨[110, 111, 100, 101], [110, 58, 97], [98, 58, 119], 1/10, none, none⟩
/-- node `n:a:b`, attr `w` — a different target with the same `node:n:a:b:w` string key -/
def wB : Delta ℚ := ⟨[110, 111, 100, 101], [110, 58, 97, 58, 98], [119], 1/10, none, none⟩

/-- Regression witness for `C03:t4:order.ckey-collision`: the two targets whose display strings
coincide (`node:n:a:b:w`) have different keys, are BOTH approved, and in the same canonical order
whichever is listed first.  (Before the fix they were merged and the first listed one won.) -/
theorem C03_collision_targets_kept_apart :
    skey wA = skey wB ∧ ckey wA ≠ ckey wB ∧
    (t4 id (999999/1000000) (wInput [wA, wB] [])).approved.map (·.id) = [[110, 58, 97], [110, 58, 97, 58, 98]] ∧
    (t4 id (999999/1000000) (wInput [wB, wA] [])).approved.map (·.id) = [[110, 58, 97], [110, 58, 97, 58, 98]] :=
  ⟨by decide, by decide, by decide +kernel, by decide +kernel⟩

/-- A carrier whose addition saturates at `±10` — not associative, like IEEE absorption
(`1e16 + 1.0 = 1e16`).  Only used for the witness below. -/
@[reducible] def satNum : Num Int :=
  { zero := 0, one := 1, add := fun a b => max (-10) (min 10 (a + b)), sub := fun a b => a - b,
    mul := fun a b => a * b, div := fun a b => a / b, neg := fun a => -a,
    abs := fun a => (a.natAbs : Int), lt := fun a b => decide (a < b), le := fun a b => decide (a ≤ b),
    beq := fun a b => a == b }

def wS (v : Int) : Delta Int := ⟨[110], [97], [119], v, none, none⟩

theorem satNum_leTotalOrder : @LeTotalOrder Int satNum :=
  @LeTotalOrder.mk Int satNum
    (fun a b => by
      show decide (a ≤ b) = true ∨ decide (b ≤ a) = true
      simpa using Int.le_total a b)
    (fun a b c => by
      show decide (a ≤ b) = true → decide (b ≤ c) = true → decide (a ≤ c) = true
      simpa using @Int.le_trans a b c)
    (fun a b => by
      show decide (a ≤ b) = true → decide (b ≤ a) = true → a = b
      simpa using @Int.le_antisymm a b)

/-- Why the fix was needed (kept as a regression witness about the LEGACY merge, `combineAcc`, which
adds contributions in listing order): over a carrier whose addition is not associative, three
duplicates of ONE target merge to different values in different listing orders — the shape of the
float witness `[1e16, 1.0, -1e16]`.  The repaired `combine` gives the same value for both orders,
although `satNum` is not associative. -/
theorem C03_legacy_merge_needed_exact_arithmetic :
    [wS 10, wS 1, wS (-10)].Perm [wS 10, wS (-10), wS 1] ∧
    (@combineAcc Int satNum [wS 10, wS 1, wS (-10)]).map (·.delta) = [0] ∧
    (@combineAcc Int satNum [wS 10, wS (-10), wS 1]).map (·.delta) = [1] ∧
    (@combine Int satNum [wS 10, wS 1, wS (-10)]).map (·.delta) = [1] ∧
    (@combine Int satNum [wS 10, wS (-10), wS 1]).map (·.delta) = [1] :=
  ⟨(List.Perm.swap _ _ _).cons _, by decide, by decide, by decide, by decide⟩

/-- non-vacuity of `C03_combine_perm_invariant` at a NON-associative carrier -/
example : @combine Int satNum [wS 10, wS 1, wS (-10)] = @combine Int satNum [wS 10, wS (-10), wS 1] :=
  @C03_combine_perm_invariant Int satNum satNum_leTotalOrder _ _ ((List.Perm.swap _ _ _).cons _)

/-- Observation (DESIGN §4; consistent with the property's own pipeline order, so NOT alarmed):
merging happens before the cooldown filter, and the merged delta records the *minimum* `op_idx`.
Here op 1 (kind `E`) is in cooldown and is reported, yet its contribution `2/10` is approved inside
the delta whose recorded provenance is the unblocked op 0.  The cooldown clause is therefore stated
and monitored on recorded provenance (`C03_cooldown`). -/
theorem C03_strong_origin_fails :
    let inp := wInput [⟨[110], [97], [119], 1/10, some 0, none⟩, ⟨[110], [97], [119], 2/10, some 1, none⟩]
                 [[83], [69]]
    blockedOps inp = [1] ∧
    (t4 id (999999/1000000) inp).rejected = [([69], 1)] ∧
    (t4 id (999999/1000000) inp).approved.map (fun d => (d.delta, d.opIdx)) = [(3/10, some 0)] := by
  decide +kernel

/-- non-vacuity: the full theorem applied to the colliding pair -/
example : t4 id (999999/1000000) (wInput [wB, wA] []) = t4 id (999999/1000000) (wInput [wA, wB] []) :=
  C03_perm_invariant_field id _ (wInput [wA, wB] []) [wB, wA] (List.Perm.swap _ _ _)

end Clem.T4
