import Clem.Proofs.Valid
import Clem.Gen.ValidRules
import Clem.Model.ValidTop

/-!
# C14 — Config validation is total, pure, consistent, and admits only runnable configs

Property theorems only.  `Clem.Gen.ValidRules` is regenerated from the AST of
`configs/validate.py` on every check, so every statement below that mentions `rules`,
`suggestSorted`, `suggestStrWrap`, `hashOrderSites`, `defaults` is re-checked by the kernel
against what the code says now.  `env cfg` is the model's view of an arbitrary input.

Clauses and where they are decided:
* ranges/enumerations (accepted ⇒ documented range; rejected ⇒ outside it): `C14_ranges_*`,
  `C14_guards_exact*`, `C14_enum_*` — theorems over the table, for all inputs;
* hash-order independence of messages: `C14_suggest_*`, `C14_unknown_key_messages_*`, `C14_no_set_formatting`;
* only `ConfigError` / accept (key types): `C14_total_*` (model level; the imperative code is sampled);
* API/CLI agreement: `C14_api_*`, `C14_cli_*`;
* defaults accepted: `C14_defaults_accepted`;
* purity and "runnable": correspondence only (see CLAIM note in harness/props/c14.py).
-/

namespace Clem.Valid
open Clem.Gen Clem.Py

/-! ## Range soundness -/

/-- Table check: every numeric rule's guard entails its documented range for every value its
coercion can produce (NaN-aware), and every branch of its value expression ends in that coercion. -/
theorem C14_ranges_table :
    (numRules ValidRules.rules).all (fun r => entails r.co r.guard r.doc && r.val.allCo r.co) = true := by
  decide

/-- **accepted ⇒ documented range**, for every input and every numeric rule of the current code:
if the rule is active and its guard does not fire, the coerced value satisfies the range the
message documents — including NaN/±inf inputs. -/
theorem C14_ranges_sound (cfg : J) (r : NumRule) (hr : r ∈ numRules ValidRules.rules) :
    r.rangeOk (env cfg) = true := by
  have h := List.all_eq_true.mp C14_ranges_table r hr
  simp only [Bool.and_eq_true] at h
  unfold NumRule.rangeOk
  by_cases ha : r.active (env cfg) = true
  · by_cases hg : r.guard.eval (r.value (env cfg)) = true
    · simp [hg]
    · have hg' : r.guard.eval (r.value (env cfg)) = false := by simpa using hg
      have := entails_sound r.co r.guard r.doc (r.value (env cfg)) h.1
        (NE_eval_range (env cfg) r.co r.val h.2) hg'
      simp [this]
  · simp [ha]

/-- No ranged leaf is written again after its range check (no alias folded in afterwards, no
fallback assignment): the value returned at a rule's canonical path is the value that was checked.
Structural fact recomputed from the AST: the translator flags every assignment to a checked cell. -/
theorem C14_no_write_after_check :
    (numRules ValidRules.rules).all (fun r => !r.rewritten && r.final.isNone) = true := by
  decide +kernel

/-- **accepted ⇒ every NORMALISED leaf with a documented range lies in it**: for every input and
every numeric rule, if the rule is active and does not fire, the value the normalised config holds
at the rule's canonical output path (`r.out`, aliases such as `ttl_s`/`ttl_sec` folded in) satisfies
the documented range.  The harness evaluates the same predicate on the config the real validator
returns (`NumRule.outOk`). -/
theorem C14_ranges_sound_normalised (cfg : J) (r : NumRule) (hr : r ∈ numRules ValidRules.rules) :
    r.outRangeOk (env cfg) = true := by
  have h := List.all_eq_true.mp C14_no_write_after_check r hr
  simp only [Bool.and_eq_true, Bool.not_eq_true', Option.isNone_iff_eq_none] at h
  have hv : r.outValue (env cfg) = r.value (env cfg) := by
    unfold NumRule.outValue
    rw [h.2]
  have := C14_ranges_sound cfg r hr
  unfold NumRule.outRangeOk
  rw [hv]
  exact this

/-- Non-vacuity: the table does carry alias rules (`ttl_s`/`ttl_sec` of the caches). -/
example : ((numRules ValidRules.rules).filter (fun r => !r.aliases.isEmpty)).length ≥ 1 := by decide +kernel

/-- Why the output form matters: a rule that checks the canonical key and folds the alias in
afterwards accepts a value it never checked — the checked value is in range, the returned one is not. -/
example : (Doc.ge 0).holds (.int 600) = true ∧ (Doc.ge 0).holds (.int (-5)) = false := by decide

/-- Generic form: a guard that passes the syntactic check is sound for all values. -/
theorem C14_ranges_generic (co : Co) (g : Gd) (d : Doc) (v : Num)
    (h : entails co g d = true) (hr : co.range v = true) (hg : g.eval v = false) :
    d.holds v = true := entails_sound co g d v h hr hg

/-- Why the check is needed (and what the unrepaired guards did): `if v <= 0: err` on a
float-coerced field lets NaN through although "must be > 0" is documented … -/
theorem C14_ranges_nan_witness_unrepaired :
    (Gd.le 0).eval .nan = false ∧ (Doc.gt 0).holds .nan = false ∧ Co.float.range .nan = true
      ∧ entails .float (Gd.le 0) (Doc.gt 0) = false := by decide

/-- … while the repaired spelling `if not (v > 0): err` rejects it, and `if v < 0` is fine on
int-coerced fields (NaN cannot come out of `_coerce_int`). -/
example : (Gd.not (Gd.gt 0)).eval .nan = true ∧ entails .float (Gd.not (Gd.gt 0)) (Doc.gt 0) = true
    ∧ entails .int (Gd.lt 0) (Doc.ge 0) = true := by decide

/-- `+inf` satisfies a documented "> 0" literally; it is rejected by every two-sided range. -/
example : (Doc.gt 0).holds .pinf = true ∧ (Doc.between 0 false 1 false).holds .pinf = false := by decide

/-- The rules of the table with no NaN-safe guard (computed): none on the repaired tree. -/
theorem C14_unsafe_rules_none :
    ((numRules ValidRules.rules).filter (fun r => !(entails r.co r.guard r.doc))).map (·.path) = [] := by
  decide

/-! ## Exactness: a rejection message is true -/

theorem C14_guards_exact_table :
    (numRules ValidRules.rules).all (fun r => exact r.guard r.doc) = true := by decide

/-- **rejected ⇒ outside the documented range** for every input and numeric rule: the validator
never reports "must be >= c" about a value that is `>= c`. -/
theorem C14_guards_exact (cfg : J) (r : NumRule) (hr : r ∈ numRules ValidRules.rules) :
    r.rejectOk (env cfg) = true := by
  have h := List.all_eq_true.mp C14_guards_exact_table r hr
  unfold NumRule.rejectOk
  by_cases hn : r.doc.isNone = true
  · simp [hn]
  · have hn' : r.doc.isNone = false := by simpa using hn
    by_cases hf : r.fires (env cfg) = true
    · have hg : r.guard.eval (r.value (env cfg)) = true := by
        unfold NumRule.fires at hf
        simp only [Bool.and_eq_true] at hf
        exact hf.2
      have := exact_sound r.guard r.doc (r.value (env cfg)) h hn' hg
      simp [this]
    · simp [hf]

/-- Non-vacuity: the table has numeric rules, and a concrete input fires one of them. -/
example : (numRules ValidRules.rules).length > 50 := by decide

/-! ## Enumerations -/

/-- Every enumeration rule accepts exactly the members its message documents. -/
theorem C14_enum_docs_match :
    allEnum.all (fun r => r.docAllowed.isEmpty || sameMembers r.docAllowed r.allowed) = true := by
  decide +kernel

/-- An enumeration rule that does not fire has a rendered value inside the allowed set. -/
theorem C14_enum_sound (e : Env) (r : EnumRule) (ha : condsHold e r.conds = true) (hf : r.fires e = false) :
    ∃ s, pyStr r.lower (r.val.eval e) = some s ∧ r.allowed.contains s = true := by
  unfold EnumRule.fires at hf
  rw [ha] at hf
  simp only [Bool.true_and] at hf
  split at hf
  · rename_i s hs
    exact ⟨s, hs, by simpa using hf⟩
  · cases hf

/-- Whenever a rule tests a case-folded copy (`str(x).lower()`), that folded copy is what the code
stores at the rule's output path (structural fact recomputed from the AST: an assignment
`X["<key>"] = <tested expression>` follows the check, or the tested expression is the cell itself). -/
theorem C14_enum_folded_written_back :
    allEnum.all (fun r => !r.lower || r.folded) = true := by decide +kernel

/-- **accepted ⇒ the NORMALISED value at the rule's output path ∈ the documented set**, for every
input and every enumeration check of the current code (typed rules and the checks whose message
formats the value, e.g. `t2.backend`, `t3.backend`).  The harness evaluates `EnumRule.outOk` — the
same membership, plus equality with `normalised` — on the config the real validator returns. -/
theorem C14_enum_sound_normalised (cfg : J) (r : EnumRule) (hr : r ∈ allEnum) :
    r.outRangeOk (env cfg) = true := by
  have hf := List.all_eq_true.mp C14_enum_folded_written_back r hr
  have hlf : (r.lower && r.folded) = r.lower := by
    cases hl : r.lower <;> cases hd : r.folded <;> simp_all
  unfold EnumRule.outRangeOk
  by_cases ha : condsHold (env cfg) r.conds = true
  · by_cases hfire : r.fires (env cfg) = true
    · simp [hfire]
    · have hfire' : r.fires (env cfg) = false := by simpa using hfire
      obtain ⟨s, hs, hc⟩ := C14_enum_sound (env cfg) r ha hfire'
      have hn : r.normalised (env cfg) = some s := by
        unfold EnumRule.normalised
        rw [hlf]; exact hs
      rw [hn]
      simp only [hc, Bool.or_true]
  · simp [ha]

/-- What the folded-but-not-written-back form does: `LanceDB` passes the test on its lower-cased
copy while the raw spelling — outside the documented set — is what stays in the config. -/
example : (pyStr true (some (.str [76, 97] [108, 97] none none)) = some [108, 97]) ∧
    (pyStr false (some (.str [76, 97] [108, 97] none none)) = some [76, 97]) := by decide

/-- The Lean monitors the harness evaluates on generated inputs can never fail while the table
theorems hold: for every input, `allRangeOk` and `allRejectOk` are true. -/
theorem C14_monitors_hold (cfg : J) : allRangeOk cfg = true ∧ allRejectOk cfg = true := by
  constructor
  · unfold allRangeOk
    simp only [Bool.and_eq_true]
    exact ⟨List.all_eq_true.mpr (fun r hr => by
      rw [Bool.and_eq_true]
      exact ⟨C14_ranges_sound cfg r hr, C14_ranges_sound_normalised cfg r hr⟩),
      List.all_eq_true.mpr (fun r hr => C14_enum_sound_normalised cfg r hr)⟩
  · exact List.all_eq_true.mpr (fun r hr => C14_guards_exact cfg r hr)

/-! ## Hash-order independence -/

/-- The code iterates `sorted(allowed)` in `_suggest_key` (structural fact read from the AST). -/
theorem C14_suggest_sorted_in_code : ValidRules.suggestSorted = true := by decide

/-- No message formats an unordered `set`. -/
theorem C14_no_set_formatting : ValidRules.hashOrderSites = [] := by decide

/-- The suggestion is the same for every iteration order of the allowed-key set. -/
theorem C14_suggest_hash_independent (bad : Str) (σ τ : List Str) (h : σ.Perm τ) :
    suggestKey bad σ = suggestKey bad τ := suggestKey_perm bad h

/-- Hence the unknown-key messages of any rule are the same for every iteration order. -/
theorem C14_unknown_key_messages_hash_independent (e : Env) (r : UnkRule) (σ : List Str)
    (h : σ.Perm r.allowed) : ({ r with allowed := σ } : UnkRule).fire e = r.fire e := by
  unfold UnkRule.fire
  simp only
  split
  · congr 1
    funext kv
    have h1 : kv.1.isAllowed σ = kv.1.isAllowed r.allowed := by
      cases kv.1 with
      | str s => exact contains_perm h s
      | other o => rfl
    rw [h1, suggestKey_perm _ h]
  · rfl

/-- Before the repair the loop ran over the raw `set`: first strict minimum in iteration order.
`t5` is equidistant from `t1` and `t2`, so the suggestion depended on `PYTHONHASHSEED`. -/
theorem C14_suggest_raw_order_dependent :
    suggestRaw [116, 53] [[116, 49], [116, 50]] ≠ suggestRaw [116, 53] [[116, 50], [116, 49]] := by
  decide

example : suggestKey [116, 53] [[116, 50], [116, 49]] = some [116, 49] := by decide
example : lev [107, 105, 116, 116, 101, 110] [115, 105, 116, 116, 105, 110, 103] = 3 := by decide

/-! ## Totality on key types -/

/-- The code hands `str(bad)` to `_lev` (structural fact read from the AST). -/
theorem C14_total_strwrap_in_code : ValidRules.suggestStrWrap = true := by decide

/-- With that, no `TypeError` escapes from the unknown-key checks for any input, whatever the
key types.  (Model level: the model is total by construction; totality of the imperative code is
sampled by the malformed-input stream.) -/
theorem C14_total_keys (cfg : J) : escapesNow cfg = false := by
  unfold escapesNow
  rw [C14_total_strwrap_in_code]
  unfold escapes
  rw [List.any_eq_false]
  intro r _
  cases r <;> simp [UnkRule.escapes]

/-- Unknown-key checks read the user's mapping (not the merged one). -/
theorem C14_unk_rules_read_raw :
    (unkRules ValidRules.rules).all (fun r => r.loc.src == .raw) = true := by decide +kernel

/-- **Totality on string-keyed (JSON-shaped) inputs, with or without the `str(bad)` repair**: if
every dict key anywhere in the input is a string, no `TypeError` can escape from the key checks. -/
theorem C14_total_string_keys (wrap : Bool) (cfg : J) (h : cfg.strKeys = true) :
    escapes wrap ValidRules.rules (env cfg) = false := by
  unfold escapes
  rw [List.any_eq_false]
  intro r hr
  cases r with
  | unk u =>
    have hraw := List.all_eq_true.mp C14_unk_rules_read_raw u (mem_unkRules hr)
    have hsrc : u.loc.src = .raw := by simpa using hraw
    have hsect : (env cfg).sect u.loc = walk (cfgIn cfg ValidRules.version) u.loc.path := by
      unfold Env.sect
      rw [hsrc]
      rfl
    have hno := strKeysKV_no_other (strKeysKV_walk (strKeysKV_cfgIn h ValidRules.version) u.loc.path)
    simp only [UnkRule.escapes, hsect]
    intro hc
    simp only [Bool.and_eq_true] at hc
    exact absurd (hno.symm.trans hc.2) (by decide)
  | num n => simp
  | enum n => simp

example : (J.dict [(.str [116, 49], .dict [(.str [120], .null)])]).strKeys = true := by decide

/-- Unrepaired form: a non-string key anywhere an unknown-key check looks escapes as `TypeError`
(`_lev(5, "t1")` → `len(5)`). -/
theorem C14_nonstr_key_escapes_unrepaired :
    escapes false ValidRules.rules (env (.dict [(.other [53], .null)])) = true := by
  decide +kernel

/-! ## API variants and CLI -/

/-- All raising variants are the same function of the error list. -/
theorem C14_api_plain_verbose_agree (errors : List Str) : apiPlain errors = apiVerbose errors := rfl

/-- `validate_config_api` and the compat form return the same messages, say "ok" exactly when the
normaliser accepts, and their messages re-joined are the stripped text of the `ConfigError`. -/
theorem C14_api_agree (strip : Str → Str) (errors : List Str) :
    ((apiTuple strip errors).1 = true ↔ implVerdict errors = .accept)
    ∧ apiCompat strip errors = (apiTuple strip errors).2
    ∧ (∀ t, implVerdict errors = .configError t → (strip t).isEmpty = false →
        joinNl (apiTuple strip errors).2 = strip t) := by
  refine ⟨?_, ?_, ?_⟩
  · unfold apiTuple
    cases h : implVerdict errors <;> simp
  · unfold apiTuple apiCompat
    cases h : implVerdict errors <;> simp
  · intro t ht hne
    unfold apiTuple
    rw [ht]
    simp only [hne]
    exact joinNl_splitNl _

/-- CLI: exit code 0 iff accepted; on rejection the text printed after `CONFIG INVALID` is the
`ConfigError` text. -/
theorem C14_cli_agree (errors : List Str) :
    ((cli errors).1 = 0 ↔ implVerdict errors = .accept)
    ∧ (∀ t, implVerdict errors = .configError t → cli errors = (1, t)) := by
  unfold cli
  cases h : implVerdict errors <;> simp

/-- Accept iff no messages. -/
theorem C14_verdict_iff (errors : List Str) : implVerdict errors = .accept ↔ errors = [] := by
  unfold implVerdict
  cases errors <;> simp

example : apiTuple id [[97], [98]] = (false, [[97], [98]]) := by decide
example : (cli [[97]]).1 = 1 := by decide

/-! ## Defaults -/

/-- The empty config (all defaults) produces no message from any typed rule: the defaults satisfy
their own rules. -/
theorem C14_defaults_accepted : messages (.dict []) = [] := by
  decide +kernel

/-- Feeding `DEFAULTS` itself as the user's config is accepted too: every default key is in the
`ALLOWED_*` set of its section and every default value passes its rule (schema/limits consistency). -/
theorem C14_defaults_as_input_accepted : messages (.dict ValidRules.defaults) = [] := by
  decide +kernel

/-- Every `ALLOWED_*` key set of the module is enforced by some unknown-key check. -/
theorem C14_every_key_set_checked :
    ValidRules.allowedKeySets.all (fun s => (unkRules ValidRules.rules).any (fun r => r.allowed == s)) = true := by
  decide +kernel

/-- Every section the code knows (non-empty `DEFAULTS` dicts, sections read by a typed rule) has an
unknown-key check — except the `scheduler` block, which the current code does not check at all
(`scheduler: {polcy: x}` is accepted; recorded as an observation, the property does not forbid it). -/
theorem C14_known_sections_checked :
    ValidRules.knownSections.all (fun p =>
      p.head? == some [115, 99, 104, 101, 100, 117, 108, 101, 114] ||
      (unkRules ValidRules.rules).any (fun r => r.loc.path == p)) = true := by
  decide +kernel

/-- Non-vacuity of the message model: a typo'd top-level key and an out-of-range field. -/
example : messages (.dict [(.str [116, 53], .null)]) =
    [[116, 53, 32, 117, 110, 107, 110, 111, 119, 110, 32, 116, 111, 112, 45, 108, 101, 118, 101, 108, 32, 107, 101, 121,
      32, 40, 100, 105, 100, 32, 121, 111, 117, 32, 109, 101, 97, 110, 32, 39, 116, 49, 39, 41]] := by
  decide +kernel

example : (messages (.dict [(.str [116, 52], .dict [(.str [100, 101, 108, 116, 97, 95, 110, 111, 114, 109, 95, 99, 97, 112, 95, 108, 50],
    .num .nan)])])).length = 1 := by
  decide +kernel

end Clem.Valid
