import Clem.Proofs.Par
import Clem.Proofs.ParT1
import Clem.Proofs.ParT2
import Clem.Proofs.ParT2Walk
import Clem.Proofs.ParT2Dedup

/-!
# C09 — Stage-level parallelism is indistinguishable from sequential execution

Property theorems only (helper lemmas live in `Clem/Proofs/*`).  Every theorem is about the
executable definitions in `Clem/Model/Par*.lean` that the driver runs against the implementation.
All statements are unbounded: any number of tasks, any keys, any completion order, any worker count.
-/

namespace Clem.Par

open Clem.Py

variable {K E R A : Type}

/-- **Master equation.** For every completion order `π` under which every future completes, every
worker count, every order key and every pure merge function, `run_parallel` returns the
schedule-free reference value `spec`. -/
theorem C09_Par_eq_spec (kle : K → K → Bool) (merge : List (K × R) → A) (w : Int)
    (tasks : List (K × Except E R)) (π : List Nat) (hc : Covers tasks.length π) :
    runParallel kle merge w tasks π = spec kle merge w tasks := by
  unfold runParallel spec
  by_cases h0 : tasks.length = 0
  · simp [h0]
  · simp only [h0, if_false]
    by_cases hw : w ≤ 1
    · simp only [hw, if_true, plainLoop]
      cases hf : failPairs tasks with
      | nil =>
        obtain ⟨l, hl, hs⟩ := seqLoop_ok 0 tasks hf
        simp only [hl, strip_isort, hs]
      | cons f fs =>
        simp only [seqLoop_err 0 tasks f fs hf]
    · simp only [hw, if_false]
      have hp := enumerate_pairwise 0 tasks (K := K) (X := Except E R)
      have hcov : ∀ it ∈ enumerate 0 tasks, it.idx ∈ π := by
        intro it hit
        have := enumerate_idx_lt 0 tasks it hit
        exact hc it.idx (by omega)
      rw [collect_eq_direct hp π hcov (enumerate 0 tasks) (fun _ h => h)]
      have he := strip_collectDirect_errors 0 tasks (K := K) (E := E) (R := R)
      have hr := strip_collectDirect_results 0 tasks (K := K) (E := E) (R := R)
      rw [isort_leKI_eq_leK kle _ (collectDirect_results_pairwise hp),
          isort_leKI_eq_leK kle _ (collectDirect_errors_pairwise hp),
          strip_isort, strip_isort, he, hr]
      cases hf : failPairs tasks with
      | nil =>
        have : (collectDirect (enumerate 0 tasks)).errors = [] := by
          have := he; rw [hf] at this
          simpa [strip] using this
        simp [this]
      | cons f fs =>
        have : (collectDirect (enumerate 0 tasks)).errors ≠ [] := by
          intro hnil; rw [hnil, hf] at he; simp [strip] at he
        simp [List.isEmpty_iff, this]

/-- `Par_schedule_independent`: the observable result does not depend on the completion order. -/
theorem C09_Par_schedule_independent (kle : K → K → Bool) (merge : List (K × R) → A) (w : Int)
    (tasks : List (K × Except E R)) (π π' : List Nat)
    (hc : Covers tasks.length π) (hc' : Covers tasks.length π') :
    runParallel kle merge w tasks π = runParallel kle merge w tasks π' := by
  rw [C09_Par_eq_spec kle merge w tasks π hc, C09_Par_eq_spec kle merge w tasks π' hc']

/-- `Par_merge_sorted`: when no task fails the result is `merge` applied to **all** `(key, result)`
pairs, stably sorted by `order_key` (ties keep submit order) — for every schedule and worker count. -/
theorem C09_Par_merge_sorted (kle : K → K → Bool) (merge : List (K × R) → A) (w : Int)
    (tasks : List (K × Except E R)) (π : List Nat) (hc : Covers tasks.length π)
    (hok : failPairs tasks = []) :
    runParallel kle merge w tasks π = .ok (merge (sortPairs kle (okPairs tasks))) := by
  rw [C09_Par_eq_spec kle merge w tasks π hc]
  unfold spec plainLoop
  by_cases h0 : tasks.length = 0
  · have : tasks = [] := List.eq_nil_of_length_eq_zero h0
    subst this; simp [okPairs, sortPairs, isort]
  · simp only [h0, if_false, hok]
    split <;> rfl

/-- what is handed to `merge` is sorted by the order key and is a permutation of all results. -/
theorem C09_Par_merge_input_sorted (kle : K → K → Bool)
    (total : ∀ a b, kle a b = true ∨ kle b a = true)
    (trans : ∀ a b c, kle a b = true → kle b c = true → kle a c = true)
    (tasks : List (K × Except E R)) :
    (sortPairs kle (okPairs tasks)).Pairwise (fun p q => kle p.1 q.1 = true)
    ∧ (sortPairs kle (okPairs tasks)).Perm (okPairs tasks) :=
  ⟨isort_pairwise _ (fun a b => total a.1 b.1) (fun a b c => trans a.1 b.1 c.1) _,
   isort_perm _ _⟩

/-- `Par_one_worker_is_loop`: with `max_workers ≤ 1` the helper is the plain loop. -/
theorem C09_Par_one_worker_is_loop (kle : K → K → Bool) (merge : List (K × R) → A) (w : Int)
    (hw : w ≤ 1) (tasks : List (K × Except E R)) (π : List Nat) :
    runParallel kle merge w tasks π = plainLoop kle merge tasks := by
  have hsp : spec kle merge w tasks = plainLoop kle merge tasks := by
    unfold spec
    by_cases h0 : tasks.length = 0
    · have : tasks = [] := List.eq_nil_of_length_eq_zero h0
      subst this; simp [plainLoop, failPairs, okPairs, sortPairs, isort]
    · simp [h0, hw]
  -- the sequential branch never consults the executor, so no `Covers` hypothesis is needed
  have : runParallel kle merge w tasks π = runParallel kle merge w tasks (List.range tasks.length) := by
    unfold runParallel; simp [hw]
  rw [this, C09_Par_eq_spec kle merge w tasks _ (fun i hi => List.mem_range.mpr hi), hsp]

/-- … and when no task fails, every worker count and every schedule give the plain loop's value. -/
theorem C09_Par_workers_irrelevant (kle : K → K → Bool) (merge : List (K × R) → A) (w : Int)
    (tasks : List (K × Except E R)) (π : List Nat) (hc : Covers tasks.length π)
    (hok : failPairs tasks = []) :
    runParallel kle merge w tasks π = plainLoop kle merge tasks := by
  rw [C09_Par_merge_sorted kle merge w tasks π hc hok]
  simp [plainLoop, hok]

/-- `Par_errors`: more than one worker and at least one failing task ⇒ `ParallelError` carrying
**every** failure, stably sorted by `order_key` (ties by submit index); the result is not an
`Out.ok`, i.e. `merge` is not called on partial results. -/
theorem C09_Par_errors (kle : K → K → Bool) (merge : List (K × R) → A) (w : Int) (hw : 1 < w)
    (tasks : List (K × Except E R)) (π : List Nat) (hc : Covers tasks.length π)
    (hfail : failPairs tasks ≠ []) :
    runParallel kle merge w tasks π = .parErr (sortPairs kle (failPairs tasks))
    ∧ (sortPairs kle (failPairs tasks)).Perm (failPairs tasks) := by
  refine ⟨?_, isort_perm _ _⟩
  rw [C09_Par_eq_spec kle merge w tasks π hc]
  unfold spec
  have h0 : tasks.length ≠ 0 := by
    intro h; have : tasks = [] := List.eq_nil_of_length_eq_zero h
    subst this; exact hfail rfl
  have hw' : ¬ w ≤ 1 := by omega
  simp only [h0, if_false, hw']

/-- `Par_one_worker_first_error`: with `max_workers ≤ 1` only the first failure is reported (later
tasks are not run) — this is what "identical to a plain loop" means on failure. -/
theorem C09_Par_one_worker_first_error (kle : K → K → Bool) (merge : List (K × R) → A) (w : Int)
    (hw : w ≤ 1) (tasks : List (K × Except E R)) (π : List Nat) (f : K × E) (fs : List (K × E))
    (hfail : failPairs tasks = f :: fs) :
    runParallel kle merge w tasks π = .parErr [f] := by
  rw [C09_Par_one_worker_is_loop kle merge w hw tasks π]
  simp [plainLoop, hfail]

/-! non-vacuity: three tasks with duplicate order keys, one failing, completion order reversed -/
example : runParallel (K := Nat) (E := Nat) (R := Nat) (fun a b => decide (a ≤ b)) id 4
    [(2, .ok 20), (1, .ok 10), (2, .ok 21), (1, .ok 11)] [3, 2, 1, 0]
    = .ok [(1, 10), (1, 11), (2, 20), (2, 21)] := by decide
example : runParallel (K := Nat) (E := Nat) (R := Nat) (fun a b => decide (a ≤ b)) id 4
    [(2, .error 7), (1, .ok 10), (1, .error 8), (0, .ok 3)] [2, 0, 3, 1]
    = .parErr [(1, 8), (2, 7)] := by decide
example : runParallel (K := Nat) (E := Nat) (R := Nat) (fun a b => decide (a ≤ b)) id 1
    [(2, .error 7), (1, .ok 10), (1, .error 8), (0, .ok 3)] []
    = .parErr [(2, 7)] := by decide
example : Covers 4 [2, 0, 3, 1] := by intro i hi; have : i = 0 ∨ i = 1 ∨ i = 2 ∨ i = 3 := by omega
                                      rcases this with rfl | rfl | rfl | rfl <;> simp

end Clem.Par

namespace Clem.ParT1

open Clem.Par Clem.Py

/-- `T1_fanout_eq_seq`: with a pure per-graph function `g`, the parallel branch of `t1_propagate`
returns exactly the deltas (same order), all summed counters and `max_delta` of the sequential loop,
for every list of active graphs (repeated gids included), every worker count and every completion
order. -/
theorem C09_T1_fanout_eq_seq {α D G E : Type} (gt : α → α → Bool) (zero : α) (gate : Bool)
    (name : G → List Nat) (g : G → List D × GM α) (active : List G) (w : Int) (π : List Nat)
    (hc : Covers active.length π) :
    t1Par (E := E) gt zero gate name (fun x => .ok (g x)) active w π
      = .ok (t1Seq gt zero gate g active) := by
  unfold t1Par
  rw [C09_Par_merge_sorted keyLe _ w _ π (by rw [length_tasksFrom]; exact hc)
        (failPairs_tasksFrom name g 0 active)]
  rw [okPairs_tasksFrom, sortPairs_pairsFrom]
  unfold mergeFn t1Seq
  rw [foldl_pairsFrom]

/-- when some graph fails, the fan-out (more than one worker) reports every failing graph, in
`active_graphs` order, and produces no partial aggregate. -/
theorem C09_T1_fanout_errors {α D G E : Type} (gt : α → α → Bool) (zero : α) (gate : Bool)
    (name : G → List Nat) (g : G → Except E (List D × GM α)) (active : List G) (w : Int) (hw : 1 < w)
    (π : List Nat) (hc : Covers active.length π)
    (hfail : failPairs (tasksFrom name g 0 active) ≠ []) :
    t1Par gt zero gate name g active w π
      = .parErr (sortPairs keyLe (failPairs (tasksFrom name g 0 active))) :=
  (C09_Par_errors keyLe _ w hw _ π (by rw [length_tasksFrom]; exact hc) hfail).1

/-! non-vacuity: two graphs (the second one twice), reversed completion order -/
example : t1Par (α := Nat) (D := Nat) (G := Nat) (E := Nat) (fun a b => decide (a > b)) 0 true
    (fun n => [n]) (fun n => .ok ([n, n + 1], ⟨1, 2, 3, 0, 0, 0, n, 0, 1, 1, 0, 0, 0, 0⟩))
    [5, 7, 7] 8 [2, 1, 0]
    = .ok ⟨[5, 6, 7, 8, 7, 8], 3, 6, 9, 0, 0, 0, 7, 0, 3, 3, 0, 0, 0, 0⟩ := by decide

end Clem.ParT1

namespace Clem.ParT2

open Clem.Py

/-- `Shards_partition`: the shard views of `_iter_shards_for_t2` are a contiguous, order-preserving
partition of the episode list (their concatenation *is* the list), for every `suggested`;
no shard is empty unless the index is. -/
theorem C09_Shards_partition {ε : Type} (eps : List ε) (suggested : Option Int) :
    (iterShards eps suggested).flatten = eps
    ∧ (eps ≠ [] → ∀ sh ∈ iterShards eps suggested, sh ≠ []) := by
  unfold iterShards
  by_cases h1 : eps.length ≤ 1
  · simp only [h1, if_true]
    exact ⟨by simp, fun hne sh hsh => by simp at hsh; subst hsh; exact hne⟩
  · simp only [h1, if_false]
    cases suggested with
    | none => exact ⟨by simp, fun hne sh hsh => by simp at hsh; subst hsh; exact hne⟩
    | some s =>
      simp only
      by_cases h2 : s ≤ 1
      · simp only [h2, if_true]
        exact ⟨by simp, fun hne sh hsh => by simp at hsh; subst hsh; exact hne⟩
      · simp only [h2, if_false]
        split
        · exact ⟨by simp, fun hne sh hsh => by simp at hsh; subst hsh; exact hne⟩
        · have hs : 1 ≤ max 1 ((eps.length + min s.toNat eps.length - 1) / min s.toNat eps.length) :=
            Nat.le_max_left _ _
          exact ⟨chunks_flatten _ hs _ _ (Nat.le_refl _),
                 fun _ sh hsh => chunks_nonempty _ hs _ _ sh hsh⟩

/-- the Boolean monitor the driver evaluates on the implementation's shards holds of the model. -/
theorem C09_Shards_partition_monitor {ε : Type} [DecidableEq ε] (eps : List ε) (suggested : Option Int) :
    partitionB eps (iterShards eps suggested) = true := by
  obtain ⟨h1, h2⟩ := C09_Shards_partition eps suggested
  unfold partitionB
  simp only [h1, decide_true, Bool.true_and]
  cases eps with
  | nil => simp
  | cons a t =>
    simp only [List.isEmpty_cons, Bool.false_or, List.all_eq_true]
    intro sh hsh
    have := h2 (by simp) sh hsh
    cases sh with
    | nil => exact absurd rfl this
    | cons _ _ => rfl

/-- `Merge_topk`: for any one linear ranking key, the top-k of the union of the shards is obtained
from the per-shard top-k lists — unbounded in the number and size of shards. -/
theorem C09_Merge_topk {X : Type} (le : X → X → Bool)
    (total : ∀ a b, le a b = true ∨ le b a = true)
    (trans : ∀ a b c, le a b = true → le b c = true → le a c = true)
    (antisymm : ∀ a b, le a b = true → le b a = true → a = b)
    (k : Nat) (shards : List (List X)) :
    topk le k (shards.map (topk le k)).flatten = topk le k shards.flatten :=
  topk_flatten_map le total trans antisymm k shards

/-- One tier, episode ids unique, **the same key** used by the shards and by the merge: the
cross-shard merge (`merge_tier_hits_across_shards_dict` on the per-shard top-k lists) returns exactly
the sequential ranking of the whole index, and the same tier sequence. -/
theorem C09_T2_single_tier_par_eq_seq {α : Type} (le : Hit α → Hit α → Bool)
    (total : ∀ a b, le a b = true ∨ le b a = true)
    (trans : ∀ a b c, le a b = true → le b c = true → le a c = true)
    (antisymm : ∀ a b, le a b = true → le b a = true → a = b)
    (k : Nat) (hk : 1 ≤ k) (t : List Nat) (shards : List (List (Hit α)))
    (hnd : (shards.flatten.map Hit.id).Nodup) :
    mergeTierHits le (k : Int) (shards.map (fun sh => [(t, topk le k sh)])) [t]
      = (topk le k shards.flatten, [t]) := by
  unfold mergeTierHits
  simp only [mergeTiers, bucketOf_single, List.nil_append]
  have hB := nodup_ids_flatten_topk le k shards hnd
  have hS : ((isort le (shards.map (topk le k)).flatten).map Hit.id).Nodup :=
    ((isort_perm le _).map Hit.id).nodup_iff.mpr hB
  have hfill := fill_nodup k (isort le (shards.map (topk le k)).flatten) [] [] (by simp) hS (by simp; omega)
  have htop : topk le k shards.flatten = (isort le (shards.map (topk le k)).flatten).take k := by
    rw [← C09_Merge_topk le total trans antisymm k shards]; rfl
  by_cases he : (shards.map (topk le k)).flatten.isEmpty = true
  · simp only [he, if_true]
    have : (shards.map (topk le k)).flatten = [] := List.isEmpty_iff.mp he
    rw [htop, this]; simp [isort]
  · have he' : (shards.map (topk le k)).flatten.isEmpty = false := by simpa using he
    simp only [he', Bool.false_eq_true, if_false]
    simp only [List.nil_append, List.length_nil, Nat.sub_zero] at hfill
    rw [htop, ← hfill]
    simp only [ite_self]

/-- **T2 fan-out = sequential walk, any number of tiers.**  `candSh sh t` are the hits of tier `t`
among the episodes of shard `sh` (after the per-episode owner / recency / quarter / threshold
filters), so the whole index's candidates for `t` are the concatenation over the shards
(`C09_Shards_partition`).  With one linear ranking key on both sides and unique episode ids, the
cross-shard merge over the per-shard top-k dicts returns exactly the retrieved list **and** the tier
sequence of the sequential tier walk (dedupe across tiers, stop at `k_retrieval`), for every tier
list, every number of shards and every `k ≥ 1`. -/
theorem C09_T2_walk_par_eq_seq {α σ : Type} (le : Hit α → Hit α → Bool)
    (total : ∀ a b, le a b = true ∨ le b a = true)
    (trans : ∀ a b c, le a b = true → le b c = true → le a c = true)
    (antisymm : ∀ a b, le a b = true → le b a = true → a = b)
    (k : Nat) (hk : 1 ≤ k) (tiers : List (List Nat)) (shards : List σ)
    (candSh : σ → List Nat → List (Hit α))
    (hnd : ∀ t, ((shards.map (fun sh => candSh sh t)).flatten.map Hit.id).Nodup) :
    mergeTierHits le (k : Int) (shards.map (shardDict le k tiers candSh)) tiers
      = seqWalk (k : Int) (fun t => topk le k (shards.map (fun sh => candSh sh t)).flatten)
          tiers [] [] [] :=
  walk_par_eq_seq le total trans antisymm k tiers shards candSh hnd tiers (fun _ h => h) [] [] []
    (by simp; omega) (by simp)

/-- `Merge_topk` with re-added ids: `_rank_by_cosine` keeps one entry per id before the cut
(`rankU`); the top-k-unique of the union is obtained from the per-shard top-k-unique lists. -/
theorem C09_Merge_topk_unique {α : Type} (le : Hit α → Hit α → Bool)
    (total : ∀ a b, le a b = true ∨ le b a = true)
    (trans : ∀ a b c, le a b = true → le b c = true → le a c = true)
    (antisymm : ∀ a b, le a b = true → le b a = true → a = b)
    (k : Nat) (shards : List (List (Hit α))) :
    rankU le k (shards.map (rankU le k)).flatten = rankU le k shards.flatten :=
  rankU_flatten_map le total trans antisymm k shards

/-- **T2 fan-out = sequential walk, full strength** (after the three repairs): any tier list, any
shards, any `k ≥ 1`, episode ids may repeat (re-added episodes).  Both sides rank with
`_rank_by_cosine` = sort, one entry per id, cut to `k` (`rankU`). -/
theorem C09_T2_walkU_par_eq_seq {α σ : Type} (le : Hit α → Hit α → Bool)
    (total : ∀ a b, le a b = true ∨ le b a = true)
    (trans : ∀ a b c, le a b = true → le b c = true → le a c = true)
    (antisymm : ∀ a b, le a b = true → le b a = true → a = b)
    (k : Nat) (hk : 1 ≤ k) (tiers : List (List Nat)) (shards : List σ)
    (candSh : σ → List Nat → List (Hit α)) :
    mergeTierHits le (k : Int) (shards.map (shardDictU le k tiers candSh)) tiers
      = seqWalk (k : Int) (fun t => rankU le k (shards.map (fun sh => candSh sh t)).flatten)
          tiers [] [] [] :=
  walkU_par_eq_seq le total trans antisymm k tiers shards candSh tiers (fun _ h => h) [] [] []
    (by simp; omega) (by simp)

/-- `T2_par_eq_seq` (full strength; formerly `T2_par_eq_seq_partial`).  The shards and the
sequential walk rank by the raw score (`rawLe`); the cross-shard merge ranks by
`(-_qscore, -raw, id)` (`hitLeQR`).  For every quantiser `q` that is monotone in the score (rounding
is), the two keys are the same order, so the fan-out equals the sequential tier walk for every tier
list, shard count and `k ≥ 1` — without the "no two scores inside one quantum" guard and without
the unique-id assumption. -/
theorem C09_T2_par_eq_seq {α σ : Type} (q : α → Int) (lt : α → α → Bool)
    (asym : ∀ x y, lt x y = true → lt y x = false)
    (qmono : ∀ x y, lt x y = false → q y ≤ q x)
    (total : ∀ a b, rawLe lt a b = true ∨ rawLe lt b a = true)
    (trans : ∀ a b c, rawLe lt a b = true → rawLe lt b c = true → rawLe lt a c = true)
    (antisymm : ∀ a b, rawLe lt a b = true → rawLe lt b a = true → a = b)
    (k : Nat) (hk : 1 ≤ k) (tiers : List (List Nat)) (shards : List σ)
    (candSh : σ → List Nat → List (Hit α)) :
    mergeTierHits (hitLeQR q lt) (k : Int) (shards.map (shardDictU (rawLe lt) k tiers candSh)) tiers
      = seqWalk (k : Int) (fun t => rankU (rawLe lt) k (shards.map (fun sh => candSh sh t)).flatten)
          tiers [] [] [] := by
  have hkey : hitLeQR q lt = rawLe lt := by
    funext a b; exact hitLeQR_eq_rawLe q lt asym qmono a b
  rw [hkey]
  exact C09_T2_walkU_par_eq_seq (rawLe lt) total trans antisymm k hk tiers shards candSh

/-- the repaired key really is the raw ranking key (monotone quantiser). -/
theorem C09_Merge_key_is_rank_key {α : Type} (q : α → Int) (lt : α → α → Bool)
    (asym : ∀ x y, lt x y = true → lt y x = false)
    (qmono : ∀ x y, lt x y = false → q y ≤ q x) (a b : Hit α) :
    hitLeQR q lt a b = rawLe lt a b := hitLeQR_eq_rawLe q lt asym qmono a b

/-- `Merge_qscore_tie_witness` (kept as the regression witness for the *old* merge key `hitLe q` =
`(-_qscore, id)`, repaired by fix C09_qscore-tie; with `hitLeQR` the same input agrees, see the example below): two shards holding `"b"`
(score 1.25 quanta) and `"a"` (1.00 quanta); both round to quantum 1, so the merge orders them by
id and keeps `"a"` at `k = 1`, while the sequential ranking keeps `"b"` (higher raw score). -/
theorem C09_Merge_qscore_tie_witness :
    ∃ (q : Int → Int) (k : Nat) (t : List Nat) (shards : List (List (Hit Int))),
      1 ≤ k ∧ (shards.flatten.map Hit.id).Nodup ∧
      mergeTierHits (hitLe q) (k : Int)
          (shards.map (fun sh => [(t, topk (rawLe (fun a b : Int => decide (a < b))) k sh)])) [t]
        ≠ (topk (rawLe (fun a b : Int => decide (a < b))) k shards.flatten, [t]) :=
  ⟨fun s => roundHalfEven s (-2), 1, [101], [[⟨[98], 5⟩], [⟨[97], 4⟩]], by decide, by decide, by decide⟩

/-- the witness input under the repaired key: merge = sequential. -/
example :
    mergeTierHits (hitLeQR (fun s : Int => roundHalfEven s (-2)) (fun a b : Int => decide (a < b))) (1 : Int)
        (([[⟨[98], 5⟩], [⟨[97], 4⟩]] : List (List (Hit Int))).map
          (fun sh => [([101], topk (rawLe (fun a b : Int => decide (a < b))) 1 sh)])) [[101]]
      = (topk (rawLe (fun a b : Int => decide (a < b))) 1 [⟨[98], 5⟩, ⟨[97], 4⟩], [[101]]) := by decide

/-- re-added id: the regression input of the former duplicate-id finding (two copies of id 1, k = 2). -/
example : mergeTierHits (hitLe (fun s : Int => s)) 2
      ([[⟨[1], 9⟩, ⟨[1], 8⟩], [⟨[2], 5⟩, ⟨[3], 4⟩]].map
        (shardDictU (hitLe (fun s : Int => s)) 2 [[10], [11]] (fun sh t => if t = [10] then sh.filter (fun h => h.score > 7) else sh)))
      [[10], [11]]
    = seqWalk 2 (fun t => rankU (hitLe (fun s : Int => s)) 2
        (if t = [10] then [⟨[1], 9⟩, ⟨[1], 8⟩] else [⟨[1], 9⟩, ⟨[1], 8⟩, ⟨[2], 5⟩, ⟨[3], 4⟩])) [[10], [11]] [] [] []
    ∧ (seqWalk 2 (fun t => rankU (hitLe (fun s : Int => s)) 2
        (if t = [10] then [⟨[1], 9⟩, ⟨[1], 8⟩] else [⟨[1], 9⟩, ⟨[1], 8⟩, ⟨[2], 5⟩, ⟨[3], 4⟩])) [[10], [11]] [] [] []).1
      = [⟨[1], 9⟩, ⟨[2], 5⟩] := by decide

/-! non-vacuity -/
example : iterShards [1, 2, 3, 4, 5, 6, 7] (some 3) = [[1, 2, 3], [4, 5, 6], [7]] := by decide
example : topk (fun a b : Nat => decide (a ≤ b)) 2 (([[5, 1, 9], [4, 0], [7]].map
    (topk (fun a b : Nat => decide (a ≤ b)) 2)).flatten) = [0, 1] := by decide
example : (∀ a b : Nat, decide (a ≤ b) = true ∨ decide (b ≤ a) = true)
    ∧ (∀ a b c : Nat, decide (a ≤ b) = true → decide (b ≤ c) = true → decide (a ≤ c) = true)
    ∧ (∀ a b : Nat, decide (a ≤ b) = true → decide (b ≤ a) = true → a = b) :=
  ⟨fun a b => by simp; omega, fun a b c => by simp; omega, fun a b => by simp; omega⟩
example : mergeTierHits (hitLe (fun s : Int => s)) 2
      ([[⟨[1], 9⟩, ⟨[2], 3⟩], [⟨[3], 7⟩], [⟨[4], 8⟩]].map
        (shardDict (hitLe (fun s : Int => s)) 2 [[10], [11]] (fun sh t => if t = [10] then sh.filter (fun h => h.score > 5) else sh)))
      [[10], [11]]
    = ([⟨[1], 9⟩, ⟨[4], 8⟩], [[10]]) := by decide
example : [roundHalfEven 1 (-1), roundHalfEven 3 (-1), roundHalfEven 5 (-1), roundHalfEven (-1) (-1),
    roundHalfEven (-3) (-1), roundHalfEven 5 (-2), roundHalfEven 7 (-2), roundHalfEven 3 2]
    = [0, 2, 2, 0, -2, 1, 2, 12] := by decide

end Clem.ParT2
