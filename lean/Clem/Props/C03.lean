import Clem.Proofs.T4
import Clem.Props.C03.Perm
import Mathlib.Algebra.Order.Field.Rat
import Mathlib.Analysis.Real.Sqrt

/-!
# C03 — Meta-filter output always stays inside the safety envelope

Property theorems about the executable model `Clem/Model/T4.lean` of `stages/t4.py` — the very
definitions `clemdrv` runs at `Float` against the real `t4_filter`.

* Structural clauses (unique targets, churn count, cooldown, proposed-only, canonical order, blocked
  ops reported) are proved for EVERY carrier `[Num α]` — including the `Float` instance the driver runs.
* Numeric clauses (novelty cap, L2 cap, top-K dominance, merge = per-key sum, permutation invariance)
  are proved at any ordered field, `sqrt` a parameter whose two laws are hypotheses (discharged for `ℝ`
  in the non-vacuity examples).
* `Clem/Props/C03/Perm.lean`: permutation invariance (partial) and the negation witnesses.
-/

set_option linter.unusedSectionVars false

namespace Clem.T4
open Clem.Py

/-! ## Clauses that hold over every number carrier -/
section AnyCarrier
variable {α : Type} [Num α] (sqrt : α → α) (thr : α) (inp : Input α)

/-- The documented pipeline, as an equation: merge duplicates, cooldown, novelty clamp, uniform L2
scaling, keep top-K, canonical order. -/
theorem C03_pipeline_spec :
    (t4 sqrt thr inp).approved =
      isort ckeyLe (churnCap (l2Scale sqrt (noveltyClamp
        ((combine inp.deltas).filter (notBlocked (blockedOps inp))) inp.capNov) inp.capL2) inp.k) := rfl

/-- at most one delta per target -/
theorem C03_unique_targets : ((t4 sqrt thr inp).approved.map ckey).Nodup :=
  nodup_keys_of_subperm (approved_subperm sqrt inp) (nodup_keys_afterCd inp)

/-- at most churn-cap many (`0 ≤ k` is the validator's range) -/
theorem C03_churn (hk : 0 ≤ inp.k) : ((t4 sqrt thr inp).approved.length : Int) ≤ inp.k := by
  show ((approved sqrt inp).length : Int) ≤ inp.k
  simp only [approved, length_isort, kept, churnCap]
  split
  · assumption
  · rw [List.length_take]
    simp only [sliceLen, hk, if_true]
    omega

/-- which ops are blocked: exactly those whose kind has a non-zero cooldown, an `int` last turn,
and `turn - last < cooldown` -/
theorem C03_blocked_iff (i : Nat) : i ∈ blockedOps inp ↔
    ∃ kind, inp.ops[i]? = some kind ∧ kind ≠ [] ∧ ∃ cd, lookup kind inp.cooldowns = some cd ∧ cd ≠ 0 ∧
      ∃ lt, lookup kind inp.last = some (some lt) ∧ getTurn inp.turns - lt < cd := by
  unfold blockedOps
  rw [mem_blockedFrom]
  constructor
  · rintro ⟨n, kind, rfl, hn, hp⟩
    exact ⟨kind, by simpa using hn, (opBlocked_iff _ _ _ _).1 hp⟩
  · rintro ⟨kind, hn, hp⟩
    exact ⟨i, kind, by simp, hn, (opBlocked_iff _ _ _ _).2 hp⟩

/-- none of the approved deltas has a recorded provenance (`op_idx`) in cooldown -/
theorem C03_cooldown : ∀ d ∈ (t4 sqrt thr inp).approved, ∀ j, d.opIdx = some j →
    ∀ i ∈ blockedOps inp, (i : Int) ≠ j := by
  intro d hd
  obtain ⟨e, he, hs⟩ := approved_from_afterCd sqrt inp hd
  have h1 : notBlocked (blockedOps inp) e = true := by
    simp only [afterCd, List.mem_filter] at he; exact he.2
  rw [← notBlocked_strip, hs, notBlocked_strip] at h1
  exact (notBlocked_iff _ _).1 h1

/-- only for targets that were proposed: kind, id and attr are those of a listed delta -/
theorem C03_subset : ∀ d ∈ (t4 sqrt thr inp).approved,
    ∃ d₀ ∈ inp.deltas, d₀.kind = d.kind ∧ d₀.id = d.id ∧ d₀.attr = d.attr := by
  intro d hd
  obtain ⟨e, he, hs⟩ := approved_from_afterCd sqrt inp hd
  obtain ⟨e₀, he', hce⟩ : ∃ e₀ ∈ combineAcc inp.deltas, canonEntry inp.deltas e₀ = e := by
    simp only [afterCd, List.mem_filter] at he
    exact (mem_combine _ _).1 he.1
  have hs : strip e₀ = strip d := by rw [← hs, ← hce]; rfl
  obtain ⟨d₀, rest, hg, rfl⟩ := combineAcc_spec _ he'
  have hmem : d₀ ∈ inp.deltas := by
    have : d₀ ∈ grp (ckey (List.foldl merge d₀ rest)) inp.deltas := by rw [hg]; simp
    exact (List.mem_filter.1 this).1
  obtain ⟨h1, h2, h3, _⟩ := foldl_merge_fields rest d₀
  have hk : (List.foldl merge d₀ rest).kind = d.kind := congrArg (fun x : Delta Unit => x.kind) hs
  have hi : (List.foldl merge d₀ rest).id = d.id := congrArg (fun x : Delta Unit => x.id) hs
  have ha : (List.foldl merge d₀ rest).attr = d.attr := congrArg (fun x : Delta Unit => x.attr) hs
  exact ⟨d₀, hmem, by rw [← hk, h1], by rw [← hi, h2], by rw [← ha, h3]⟩

/-- the approved list is in canonical target order (strictly increasing string keys) -/
theorem C03_sorted : (t4 sqrt thr inp).approved.Pairwise (fun a b => lexLt (ckey a) (ckey b) = true) := by
  have h1 : (approved sqrt inp).Pairwise (fun a b => ckeyLe a b = true) :=
    isort_pairwise ckeyLe (fun a b => lexLe_total _ _) (fun a b c => lexLe_trans _ _ _) _
  have h2 := C03_unique_targets sqrt thr inp
  rw [List.Nodup, List.pairwise_map] at h2
  exact (h1.and h2).imp (fun ⟨h, hne⟩ => (lexLt_iff _ _).2 ⟨h, hne⟩)

/-- blocked operations are reported: exactly the blocked indices, ascending, with their kinds -/
theorem C03_rejected_sorted :
    (t4 sqrt thr inp).rejected.map Prod.snd = blockedOps inp ∧
    ((t4 sqrt thr inp).rejected.map Prod.snd).Pairwise (· < ·) ∧
    ∀ p ∈ (t4 sqrt thr inp).rejected, inp.ops[p.2]? = some p.1 := by
  have h0 : (rejectedOps inp).map Prod.snd = blockedOps inp := by
    simp [rejectedOps, List.map_map, Function.comp_def]
  refine ⟨h0, ?_, ?_⟩
  · show ((rejectedOps inp).map Prod.snd).Pairwise (· < ·)
    rw [h0]; exact blockedFrom_sorted _ _ _
  · intro p hp
    simp only [t4, rejectedOps, List.mem_map] at hp
    obtain ⟨i, hi, rfl⟩ := hp
    obtain ⟨kind, hk, _⟩ := (C03_blocked_iff inp i).1 hi
    simp [List.getD, hk]

/-- merged duplicates: one entry per distinct string key, sorted, nothing invented -/
theorem C03_combine_keys (ds : List (Delta α)) :
    ((combine ds).map ckey).Nodup ∧ (∀ k, k ∈ (combine ds).map ckey ↔ k ∈ ds.map ckey) := by
  refine ⟨nodup_keys_combine ds, fun k => ?_⟩
  rw [← mem_keys_combineAcc ds k, ← keys_combineC]
  exact ((combine_perm ds).map ckey).mem_iff

/-- what the reasons report: `DELTA_NORM_HIGH ↔ scale < 0.999999`, `COOLDOWN_BLOCKED ↔` some op was
rejected, `CHURN_CAP_HIT ↔` a tail was dropped, `NOVELTY_SPIKE ↔` something was clamped -/
theorem C03_scale_reason :
    ((t4 sqrt thr inp).rNorm = true ↔ Num.lt (t4 sqrt thr inp).scale thr = true) ∧
    ((t4 sqrt thr inp).rCooldown = true ↔ (t4 sqrt thr inp).rejected ≠ []) ∧
    ((t4 sqrt thr inp).rChurn = true ↔ 0 < (t4 sqrt thr inp).droppedTail) ∧
    ((t4 sqrt thr inp).rNovelty = true ↔ 0 < (t4 sqrt thr inp).noveltyClamped) := by
  refine ⟨Iff.rfl, ?_, by simp [t4], by simp [t4]⟩
  simp [t4, rejectedOps]

end AnyCarrier

/-! ## Numeric clauses, at any ordered field -/
section OrderedField
variable {α : Type} [Field α] [LinearOrder α] [IsStrictOrderedRing α]
variable (sqrt : α → α) (thr : α) (inp : Input α)

/-- each approved magnitude is at most the novelty cap (`0 < capL2` is the validator's range) -/
theorem C03_novelty (hc : 0 < inp.capL2) : ∀ d ∈ (t4 sqrt thr inp).approved, |d.delta| ≤ |inp.capNov| := by
  intro d hd
  have hd' : d ∈ scaled sqrt inp := (approved_subperm_scaled sqrt inp).subset hd
  obtain ⟨e, he, _, hle⟩ := abs_l2Scale sqrt (clamped inp) inp.capL2 hc d hd'
  exact hle.trans (abs_noveltyClamp inp.capNov (afterCd inp) e he)

/-- overall L2 norm at most the cap: `Σ δ² ≤ capL2²` -/
theorem C03_l2 (hs0 : ∀ x, 0 ≤ sqrt x) (hs : ∀ x, 0 ≤ x → sqrt x * sqrt x = x) (hc : 0 < inp.capL2) :
    sumSq (t4 sqrt thr inp).approved ≤ inp.capL2 * inp.capL2 := by
  show sumSq (approved sqrt inp) ≤ _
  rw [approved, sumSq_perm (isort_perm _ _)]
  exact (sumSq_churnCap_le _ _).trans (sumSq_l2Scale_le sqrt hs0 hs _ _ hc)

/-- `_l2_norm` (fix for `C03:t4:l2.tiny-cap`): on both of its paths — plain `sqrt(Σδ²)` and the
largest-magnitude-factored-out path taken when `Σδ² < 2^-512` — the value is the non-negative root of
the exact sum of squares, and it is `0` only when every delta is `0`; so `norm == 0.0` can no longer
skip the scaling of a non-zero vector. -/
theorem C03_l2_norm_exact (hs0 : ∀ x, 0 ≤ sqrt x) (hs : ∀ x, 0 ≤ x → sqrt x * sqrt x = x)
    (ds : List (Delta α)) :
    0 ≤ l2Norm sqrt ds ∧ l2Norm sqrt ds * l2Norm sqrt ds = sumSq ds ∧
    (l2Norm sqrt ds = 0 ↔ ∀ d ∈ ds, d.delta = 0) :=
  ⟨l2Norm_nonneg sqrt hs0 ds, l2Norm_sq sqrt hs ds, l2Norm_eq_zero_iff sqrt hs ds⟩

/-- the L2 predicate does not change when the cap and every delta are multiplied by the same positive
factor — the driver uses this to evaluate it at `Float` for caps so small that squares would underflow -/
theorem C03_monL2_scale_invariant (c : α) (hc : 0 < c) (slack cap : α) (out : List (Delta α)) :
    monL2 slack (c * cap) (out.map (scaleBy c)) = monL2 slack cap out := by
  simp only [monL2, num_le, num_mul, num_add, num_one, sumSq_map_scaleBy]
  rw [decide_eq_decide]
  have h : c * cap * (c * cap) * (1 + slack) = c * c * (cap * cap * (1 + slack)) := by ring
  rw [h]
  exact mul_le_mul_iff_of_pos_left (mul_pos hc hc)

/-- keep top-K by magnitude: every approved delta ranks strictly before every candidate (after
scaling) whose target was not approved, under `(-|Δ|, ckey)` -/
theorem C03_churn_topk : ∀ a ∈ (t4 sqrt thr inp).approved, ∀ c ∈ scaled sqrt inp,
    ckey c ∉ (t4 sqrt thr inp).approved.map ckey → rankLt a c = true := by
  intro a ha c hc hnc
  have hp : (approved sqrt inp).Perm (kept sqrt inp) := isort_perm _ _
  refine churnCap_topk (scaled sqrt inp) inp.k (hp.subset ha) hc ?_
  intro h
  exact hnc ((hp.map ckey).symm.subset h)

/-- `rankLt a c` read out: larger magnitude first, ties by the smaller string key -/
theorem C03_rank_meaning (a c : Delta α) : rankLt a c = true ↔
    |c.delta| < |a.delta| ∨ (|a.delta| = |c.delta| ∧ lexLt (ckey a) (ckey c) = true) := by
  rw [rankLt_iff]; simp [neg_lt_neg_iff]

/-- over an ordered field the canonical-order sum is just the sum -/
theorem sumSorted_eq_sum (vs : List α) : sumSorted vs = vs.sum := by
  unfold sumSorted
  have hp := isort_perm (Num.le (α := α)) vs
  rw [← hp.sum_eq]
  cases isort (Num.le (α := α)) vs with
  | nil => simp
  | cons v rest =>
    have : ∀ a : α, rest.foldl Num.add a = a + rest.sum := by
      induction rest with
      | nil => intro a; simp
      | cons x rest ih => intro a; rw [List.foldl_cons, ih]; simp only [num_add, List.sum_cons]; ring
    simp [this]

/-- merge = per-key sum: the merged entry of a key carries the sum of all contributions listed for
that key (summed in ascending order, `_sum_canonical`), the smallest `op_idx`/`idx`
(`_min_optional_int` folded in listing order), and the target fields of the first one listed. -/
theorem C03_combine_sum (ds : List (Delta α)) : ∀ e ∈ combine ds,
    e.delta = sumSorted (contribs (ckey e) ds) ∧ e.delta = (contribs (ckey e) ds).sum ∧
    ∃ d rest, grp (ckey e) ds = d :: rest ∧ e.kind = d.kind ∧ e.id = d.id ∧ e.attr = d.attr ∧
      e.opIdx = rest.foldl (fun m x => minOpt m x.opIdx) d.opIdx ∧
      e.idx = rest.foldl (fun m x => minOpt m x.idx) d.idx := by
  intro e he
  obtain ⟨e₀, he₀, rfl⟩ := (mem_combine ds e).1 he
  obtain ⟨d, rest, hg, rfl⟩ := combineAcc_spec ds he₀
  obtain ⟨h1, h2, h3, _, h5, h6⟩ := foldl_merge_fields rest d
  exact ⟨rfl, sumSorted_eq_sum _, d, rest, hg, h1, h2, h3, h5, h6⟩

/-! ### the Bool monitors the driver evaluates on the REAL `T4Result` are exactly these theorems -/

/-- All nine monitors of `Clem/Model/T4.lean` are `true` on the model's own output (any slack ≥ 0). -/
theorem C03_monitors_hold (hs0 : ∀ x, 0 ≤ sqrt x) (hs : ∀ x, 0 ≤ x → sqrt x * sqrt x = x)
    (hc : 0 < inp.capL2) (hk : 0 ≤ inp.k) (slack : α) (hsl : 0 ≤ slack) :
    let r := t4 sqrt thr inp
    monUnique r.approved = true ∧ monSorted r.approved = true ∧ monNovelty inp.capNov r.approved = true ∧
    monL2 slack inp.capL2 r.approved = true ∧ monChurn inp.k r.approved = true ∧
    monCooldown inp r.approved = true ∧ monSubset inp r.approved = true ∧ monRejected inp r.rejected = true ∧
    monTopK (scaled sqrt inp) r.approved = true := by
  intro r
  refine ⟨?_, ?_, ?_, ?_, ?_, ?_, ?_, ?_, ?_⟩
  · rw [monUnique, allPairs_iff]
    have := C03_unique_targets sqrt thr inp
    rw [List.Nodup, List.pairwise_map] at this
    exact this.imp (fun h => by simpa using h)
  · rw [monSorted, allPairs_iff]; exact C03_sorted sqrt thr inp
  · simp only [monNovelty, List.all_eq_true, num_le, num_abs, decide_eq_true_eq]
    exact C03_novelty sqrt thr inp hc
  · simp only [monL2, num_le, num_mul, num_add, num_one, decide_eq_true_eq]
    have h := C03_l2 sqrt thr inp hs0 hs hc
    have h2 : 0 ≤ inp.capL2 * inp.capL2 := mul_self_nonneg _
    nlinarith [mul_nonneg h2 hsl]
  · simp only [monChurn, decide_eq_true_eq]; exact C03_churn sqrt thr inp hk
  · simp only [monCooldown, List.all_eq_true]
    intro d hd
    exact (notBlocked_iff _ _).2 (C03_cooldown sqrt thr inp d hd)
  · simp only [monSubset, List.all_eq_true, List.any_eq_true, Bool.and_eq_true, beq_iff_eq]
    intro d hd
    obtain ⟨d₀, h0, h1, h2, h3⟩ := C03_subset sqrt thr inp d hd
    exact ⟨d₀, h0, ⟨h1, h2⟩, h3⟩
  · simp [monRejected, r, t4]
  · simp only [monTopK, Bool.and_eq_true, List.all_eq_true, List.any_eq_true, beq_iff_eq, num_beq,
      decide_eq_true_eq, Bool.or_eq_true]
    refine ⟨fun a ha => ⟨a, (approved_subperm_scaled sqrt inp).subset ha, rfl, rfl⟩, ?_⟩
    intro a ha c hc'
    by_cases hm : ckey c ∈ r.approved.map ckey
    · left
      obtain ⟨o, ho, hko⟩ := List.mem_map.1 hm
      exact ⟨o, ho, hko⟩
    · right; exact C03_churn_topk sqrt thr inp a ha c hc' hm

/-- the pipeline monitor holds of the model's own output, for every tolerance `≥ 0` -/
theorem C03_pipeline_monitor (tol : α) (ht : 0 ≤ tol) :
    monPipeline tol (approved sqrt inp) (t4 sqrt thr inp).approved = true := by
  show monPipeline tol (approved sqrt inp) (approved sqrt inp) = true
  simp only [monPipeline, beq_self_eq_true, Bool.true_and, List.all_eq_true]
  intro p hp
  have : p.1 = p.2 := by
    generalize approved sqrt inp = l at hp
    induction l with
    | nil => simp at hp
    | cons x l ih =>
      simp only [List.zip_cons_cons, List.mem_cons] at hp
      rcases hp with rfl | hp
      · rfl
      · exact ih hp
  rw [this]
  simp only [beq_self_eq_true, Bool.true_and, closeTo, num_le, num_abs, num_sub, num_mul, num_add,
    sub_self, abs_zero, decide_eq_true_eq]
  exact mul_nonneg ht (add_nonneg (abs_nonneg _) (abs_nonneg _))

end OrderedField

/-! ## Non-vacuity -/

/-- the hypotheses on `sqrt` are satisfiable: `ℝ` with `Real.sqrt` -/
example (thr : ℝ) (inp : Input ℝ) (hc : 0 < inp.capL2) :
    sumSq (t4 Real.sqrt thr inp).approved ≤ inp.capL2 * inp.capL2 :=
  C03_l2 Real.sqrt thr inp Real.sqrt_nonneg (fun _ hx => Real.mul_self_sqrt hx) hc

example (thr : ℝ) (inp : Input ℝ) (hc : 0 < inp.capL2) (hk : 0 ≤ inp.k) :
    monL2 0 inp.capL2 (t4 Real.sqrt thr inp).approved = true :=
  (C03_monitors_hold Real.sqrt thr inp Real.sqrt_nonneg (fun _ hx => Real.mul_self_sqrt hx) hc hk 0 le_rfl).2.2.2.1

example (ds : List (Delta ℝ)) : l2Norm Real.sqrt ds * l2Norm Real.sqrt ds = sumSq ds :=
  (C03_l2_norm_exact Real.sqrt Real.sqrt_nonneg (fun _ hx => Real.mul_self_sqrt hx) ds).2.1

example (thr : ℝ) (inp : Input ℝ) (hc : 0 < inp.capL2) :
    ∀ d ∈ (t4 Real.sqrt thr inp).approved, |d.delta| ≤ |inp.capNov| := C03_novelty Real.sqrt thr inp hc

/-- One plan over `ℚ` in which every stage bites at once: a duplicate target (merged), an op in
cooldown (its delta dropped, the op reported), a clamp, an L2 scaling (`sqrt` replaced by a rational
over-estimate — only the structural clauses are exercised here) and a dropped tail. -/
def exInput : Input ℚ :=
  { deltas := [⟨[110], [97], [119], 1/5, some 0, some 0⟩, ⟨[110], [97], [119], 1/5, some 0, some 1⟩,
               ⟨[110], [98], [119], 1/10, some 1, some 2⟩, ⟨[110], [99], [119], -1/4, none, some 3⟩,
               ⟨[110], [100], [119], 1/20, some 0, none⟩]
    ops := [[69], [83]], cooldowns := [([83], 2)], last := [([83], some 4)], turns := [none, some 5]
    capL2 := 1/4, capNov := 3/10, k := 2 }

example : ((t4 (fun x => x + 1/4) (999999/1000000) exInput).approved.map (fun d => (d.id, d.delta)) =
      [([97], 5/27), ([99], -25/162)]) ∧
    (t4 (fun x => x + 1/4) (999999/1000000) exInput).rejected = [([83], 1)] ∧
    (t4 (fun x => x + 1/4) (999999/1000000) exInput).noveltyClamped = 1 ∧
    (t4 (fun x => x + 1/4) (999999/1000000) exInput).droppedTail = 1 ∧
    (t4 (fun x => x + 1/4) (999999/1000000) exInput).rNorm = true := by
  decide +kernel

example : ((t4 (fun x => x + 1/4) (999999/1000000) exInput).approved.length : Int) ≤ 2 :=
  C03_churn _ _ exInput (by decide)

example : (1 : Nat) ∈ blockedOps exInput := by decide +kernel

end Clem.T4
