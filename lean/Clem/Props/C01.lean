/-
C01 — Turn execution is reproducible byte-for-byte.

Three families:
 (T) theorems over the tables regenerated from the AST of the working tree (`Clem.Gen.Determinism`):
     every hash-order site is canonicalised, every wall-clock/entropy read only reaches volatile fields or a
     documented (pinned) decision, `run_turn`'s own reads are volatile without any pin;
 (P) permutation-invariance of the canonicalisation patterns the table's tags refer to (`List.Perm`);
 (S) clock non-interference of the `run_turn` skeleton (`Clem.C01.turn`, the same definition `clemdrv` executes
     against the real `run_turn`): the canonical output depends on the clock ONLY through the boundary
     decisions `elapsed ≥ wall_ms / quantum_ms` (scheduler on) and `age > ttl` (turn-level cache on, ttl ≠ 0).
Full statement (property text): for all clocks, canon (run clk) = canon (run clk').  It is FALSE of the code with
the scheduler on, and with a TTL cache on; both negations are proved below with concrete witnesses and the
`_partial` theorems carry the exact guards.
-/
import Clem.Gen.Determinism
import Clem.Proofs.C01Turn
import Clem.Proofs.Sort
import Clem.Proofs.KeySuff
import Clem.Props.C01.Compose
import Clem.Props.C01.ComposeTransparent

set_option linter.unusedSimpArgs false

open Clem.DetTables Clem.Gen.Determinism Clem.C01 Clem.Py Clem.KeySuff

/-! ### (T) generated tables -/

/-- every iteration over a set in clematis/ and configs/ is order-canonicalised (sorted / commutative / pinned review) -/
theorem C01_hash_sites_canonical : ∀ s ∈ hashSites, s.canon ≠ Canon.unordered := by decide

/-- every wall-clock / entropy read flows only to volatile fields, to a documented decision, to a logical-timestamp
fallback or off the turn path (each non-automatic verdict is pinned to the source text of the function) -/
theorem C01_clock_reads_only_volatile : ∀ r ∈ clockReads, r.verdict ≠ Verdict.leak := by decide

/-- `Orchestrator.run_turn` itself: its clock reads reach only `ms`, `ms_*`, `durations_ms.*` — established by the
automatic flow analysis, no pin — and the row exists -/
theorem C01_run_turn_reads_volatile :
    (∀ r ∈ clockReads, r.core = true → r.verdict = Verdict.volatile) ∧ (∃ r ∈ clockReads, r.core = true) := by
  decide

/-- the code under test never reads `time.monotonic`: the end-to-end differential may leave that one clock real
(the standard library's thread pool hangs on a monotonic clock that runs backwards) without losing coverage -/
theorem C01_no_monotonic_reads : monotonicReads = 0 := by decide

example : hashSites.length > 10 ∧ clockReads.length > 10 := by decide

/-! ### (P) permutation invariance of the canonicalisation patterns -/

/-- `sorted(<set>)`: the result does not depend on the iteration order (total, transitive, antisymmetric key) -/
theorem C01_sorted_site_perm_invariant {α : Type} (le : α → α → Bool)
    (total : ∀ a b, le a b = true ∨ le b a = true)
    (trans : ∀ a b c, le a b = true → le b c = true → le a c = true)
    (antisymm : ∀ a b, le a b = true → le b a = true → a = b)
    {l l' : List α} (hp : l.Perm l') : isort le l = isort le l' :=
  isort_perm_invariant le total trans hp (fun a _ b _ => antisymm a b)

example : isort (fun a b : Nat => decide (a ≤ b)) [3, 1, 2] = isort (fun a b : Nat => decide (a ≤ b)) [2, 3, 1] := by
  decide

/-- a fold by a right-commutative operation (set.add, counters, min/max without key) is order independent -/
theorem C01_commutative_fold_perm_invariant {α β : Type} (f : β → α → β)
    (comm : ∀ b x y, f (f b x) y = f (f b y) x) {l l' : List α} (hp : l.Perm l') :
    ∀ b, l.foldl f b = l'.foldl f b := by
  induction hp with
  | nil => intro b; rfl
  | cons x _ ih => intro b; simp only [List.foldl_cons]; exact ih _
  | swap x y l => intro b; simp only [List.foldl_cons]; rw [comm]
  | trans _ _ ih1 ih2 => intro b; rw [ih1, ih2]

example : [3, 1, 2].foldl (fun (m : Nat) x => min m x) 9 = [2, 3, 1].foldl (fun (m : Nat) x => min m x) 9 := by decide

/-- `min(<set>)` / `max(<set>)` without `key=` over a linear order -/
theorem C01_min_fold_perm_invariant {l l' : List Int} (hp : l.Perm l') (b : Int) :
    l.foldl min b = l'.foldl min b :=
  C01_commutative_fold_perm_invariant (fun m x => min m x) (fun b x y => by simp only [Int.min_assoc, Int.min_comm x y]) hp b

/-- membership / `any` / `all` -/
theorem C01_membership_perm_invariant {α : Type} {l l' : List α} (hp : l.Perm l') (p : α → Bool) :
    l.any p = l'.any p ∧ l.all p = l'.all p ∧ ∀ x, x ∈ l ↔ x ∈ l' := by
  refine ⟨?_, ?_, fun x => hp.mem_iff⟩
  · rw [Bool.eq_iff_iff]; simp only [List.any_eq_true]
    exact ⟨fun ⟨x, hx, h⟩ => ⟨x, hp.mem_iff.mp hx, h⟩, fun ⟨x, hx, h⟩ => ⟨x, hp.mem_iff.mpr hx, h⟩⟩
  · rw [Bool.eq_iff_iff]; simp only [List.all_eq_true]
    exact ⟨fun h x hx => h x (hp.mem_iff.mpr hx), fun h x hx => h x (hp.mem_iff.mp hx)⟩

/-- a dict built from a set and used only for key lookup (`idf[t]`, `t in idf`): lookups do not see the order -/
theorem C01_lookup_dict_perm_invariant {α β : Type} [BEq α] [LawfulBEq α] (f : α → β) {l l' : List α}
    (hp : l.Perm l') (k : α) : (l.map (fun t => (t, f t))).lookup k = (l'.map (fun t => (t, f t))).lookup k := by
  have key : ∀ l : List α, (l.map (fun t => (t, f t))).lookup k = if k ∈ l then some (f k) else none := by
    intro l
    induction l with
    | nil => simp
    | cons a l ih =>
      simp only [List.map_cons, List.lookup_cons, List.mem_cons]
      by_cases h : k == a
      · have : k = a := by simpa using h
        subst this; simp
      · have hne : k ≠ a := by simpa using h
        simp [h, ih, hne]
  rw [key, key]
  simp only [hp.mem_iff]

/-- the pre-fix `_suggest_key` (fold with strict `<`, first minimum wins): NOT order independent.
Candidates are (key, distance) pairs; `t1` and `t2` are both at distance 1 of `t5`. -/
def suggestFold (l : List (Nat × Nat)) : Option Nat × Nat :=
  l.foldl (fun (acc : Option Nat × Nat) kd => if kd.2 < acc.2 then (some kd.1, kd.2) else acc) (none, 99)

theorem C01_strict_min_fold_order_dependent :
    ∃ l l' : List (Nat × Nat), l.Perm l' ∧ suggestFold l ≠ suggestFold l' :=
  ⟨[(1, 1), (2, 1)], [(2, 1), (1, 1)], List.Perm.swap _ _ _, by decide⟩

/-- the repaired `_suggest_key` iterates `sorted(allowed)`: the fold is applied to a canonical list -/
theorem C01_suggest_key_sorted_invariant {l l' : List (Nat × Nat)} (hp : l.Perm l')
    (hk : ∀ a ∈ l, ∀ b ∈ l, a.1 = b.1 → a = b) :
    suggestFold (isort (fun a b => decide (a.1 ≤ b.1)) l) = suggestFold (isort (fun a b => decide (a.1 ≤ b.1)) l') := by
  congr 1
  apply isort_perm_invariant _ _ _ hp
  · intro a ha b hb h1 h2
    have h1' : a.1 ≤ b.1 := by simpa using h1
    have h2' : b.1 ≤ a.1 := by simpa using h2
    exact hk a ha b hb (Nat.le_antisymm h1' h2')
  · intro a b
    rcases Nat.le_total a.1 b.1 with h | h
    · left; simpa using h
    · right; simpa using h
  · intro a b c h1 h2
    have h1' : a.1 ≤ b.1 := by simpa using h1
    have h2' : b.1 ≤ c.1 := by simpa using h2
    simpa using Nat.le_trans h1' h2'

/-! ### normalisation -/

/-- `normalize_for_identity` is idempotent (on the fields a turn record carries; the generic-record version is C16's) -/
theorem C01_normalize_idempotent (ci : Bool) (r : Rec) : normalize ci (normalize ci r) = normalize ci r := by
  unfold normalize
  cases ci <;> simp only [Bool.not_true, Bool.not_false, Bool.false_eq_true, if_true, if_false]
  by_cases hi : r.stream.identity = true
  · simp only [hi, if_true]
    by_cases ht : (r.stream == Stream.turn) = true
    · simp only [ht, if_true]
      by_cases hy : (r.yielded == some true) = true
      · simp [hy, hi, ht, Option.map_map, Function.comp_def]
      · simp [hy, hi, ht, Option.map_map, Function.comp_def]
    · simp [ht, hi, Option.map_map, Function.comp_def]
  · simp [hi]

theorem C01_canonRec_idempotent (ci : Bool) (r : Rec) : canonRec ci (canonRec ci r) = canonRec ci r := by
  have h : normalize ci { normalize ci r with consumedMs := (normalize ci r).consumedMs.map (fun _ => (0 : Int)) }
      = { normalize ci r with consumedMs := (normalize ci r).consumedMs.map (fun _ => (0 : Int)) } := by
    have := C01_normalize_idempotent ci r
    unfold normalize at this ⊢
    cases ci <;> simp only [Bool.not_true, Bool.not_false, Bool.false_eq_true, if_true, if_false] at this ⊢
    by_cases hi : r.stream.identity = true
    · by_cases ht : (r.stream == Stream.turn) = true
      · by_cases hy : (r.yielded == some true) = true <;>
          simp [hy, hi, ht, Option.map_map, Function.comp_def]
      · simp [ht, hi, Option.map_map, Function.comp_def]
    · simp [hi]
  unfold canonRec
  rw [h]
  simp [Option.map_map, Function.comp_def]

/-- the model's `normalize` satisfies the monitor the harness evaluates on the REAL `normalize_for_identity` output
(volatile fields erased in identity streams — yielded turn records included — logical content untouched) -/
theorem C01_normalize_ok (ci : Bool) (r : Rec) : normOkB ci r (normalize ci r) = true := by
  unfold normOkB normalize
  cases ci <;> simp only [Bool.not_true, Bool.not_false, Bool.false_eq_true, if_true, if_false, Bool.true_and, Bool.false_and]
  · simp
  · by_cases hi : r.stream.identity = true
    · by_cases ht : (r.stream == Stream.turn) = true
      · by_cases hy : (r.yielded == some true) = true <;> simp [hi, ht, hy]
      · simp [hi, ht]
    · simp [hi]

/-- what the monitor demands is exactly volatility: two records that differ only in `ms`, `now` and the values of
`durations_ms` have the same normal form in an identity stream under CI -/
theorem C01_normalize_erases_volatile (r : Rec) (ms ms' : Int) (nw nw' : Option Nat)
    (d d' : List Int) (hl : d.length = d'.length) (ht : r.stream = Stream.turn) :
    normalize true { r with ms := some ms, now := nw, durs := some d }
      = normalize true { r with ms := some ms', now := nw', durs := some d' } := by
  unfold normalize
  by_cases hy : (r.yielded == some true) = true <;> simp [ht, hy, hl, Stream.identity]

/-! ### (S) clock non-interference of the `run_turn` skeleton -/

/-- ONE TURN: two clock contributions that induce the same boundary decisions (time-based yield reasons, TTL
expiry) give the same canonical records, the same utterance and the same logical cache state. -/
theorem C01_turn_clock_noninterference (cfg : Cfg) (hci : cfg.ci = true) (d d' : Dec) (t : TurnIn) (c : List CEntry)
    (h : decEquivB cfg d d' = true) : canonOut cfg (turn cfg d t c) = canonOut cfg (turn cfg d' t c) :=
  turn_noninterference cfg hci d d' t c h

/-- TURN SEQUENCES on one state (the cache is threaded): by induction over the turn list. -/
theorem C01_run_clock_noninterference (cfg : Cfg) (hci : cfg.ci = true) :
    ∀ (xs xs' : List (Dec × TurnIn)) (c : List CEntry),
      List.Forall₂ (fun a b => a.2 = b.2 ∧ decEquivB cfg a.1 b.1 = true) xs xs' →
      (run cfg xs c).map (canonOut cfg) = (run cfg xs' c).map (canonOut cfg) := by
  intro xs xs' c h
  induction h generalizing c with
  | nil => rfl
  | @cons a b l l' hab _ ih =>
    obtain ⟨d, t⟩ := a
    obtain ⟨d', t'⟩ := b
    obtain ⟨ht, hd⟩ := hab
    simp only at ht hd
    subst ht
    simp only [run, List.map_cons]
    rw [turn_noninterference cfg hci d d' t c hd, turn_cache_congr cfg hci d d' t c hd]
    rw [ih]

/-- With the scheduler off and no TTL decision (turn cache off, or ttl = 0 = "never expires") EVERY pair of clock
contributions is indistinguishable. -/
theorem C01_decEquiv_sched_off (cfg : Cfg) (hs : cfg.schedOn = false) (hc : cfg.cacheOn = false ∨ cfg.ttl = 0)
    (d d' : Dec) : decEquivB cfg d d' = true := by
  unfold decEquivB expired
  rcases hc with hc | hc <;> simp [hs, hc]

/-- Full statement: ∀ clocks, canon (run clk) = canon (run clk').  Proved here under the guard
`scheduler off ∧ (turn cache off ∨ ttl = 0)`; the two negation witnesses below show the guard is needed. -/
theorem C01_clock_noninterference_sched_off_partial (cfg : Cfg) (hci : cfg.ci = true) (hs : cfg.schedOn = false)
    (hc : cfg.cacheOn = false ∨ cfg.ttl = 0) (ts : List TurnIn) (ds ds' : List Dec)
    (hl : ds.length = ts.length) (hl' : ds'.length = ts.length) (c : List CEntry) :
    (run cfg (ds.zip ts) c).map (canonOut cfg) = (run cfg (ds'.zip ts) c).map (canonOut cfg) := by
  apply C01_run_clock_noninterference cfg hci
  induction ts generalizing ds ds' with
  | nil =>
    have : ds = [] := List.length_eq_zero_iff.mp (by simpa using hl)
    have : ds' = [] := List.length_eq_zero_iff.mp (by simpa using hl')
    subst_vars; exact List.Forall₂.nil
  | cons t ts ih =>
    match ds, ds', hl, hl' with
    | d :: ds, d' :: ds', hl, hl' =>
      simp only [List.zip_cons_cons]
      exact List.Forall₂.cons ⟨rfl, C01_decEquiv_sched_off cfg hs hc d d'⟩
        (ih ds ds' (by simpa using hl) (by simpa using hl'))

/-- a clock contribution is CALM when no elapsed reading reaches `wall_ms` or `quantum_ms` and the cache entry is
younger than the TTL -/
def calmB (cfg : Cfg) (d : Dec) : Bool :=
  (List.range 5).all (fun i => !wallHit cfg (d.elAt i) && !quantumHit cfg (d.elAt i)) && !expired cfg d

theorem C01_calm_decEquiv (cfg : Cfg) (d d' : Dec) (h : calmB cfg d = true) (h' : calmB cfg d' = true) :
    decEquivB cfg d d' = true := by
  unfold calmB at h h'
  have r5 : List.range 5 = [0, 1, 2, 3, 4] := by decide
  rw [r5] at h h'
  unfold decEquivB timeHits
  rw [r5]
  simp only [List.all_cons, List.all_nil, Bool.and_true, Bool.and_eq_true, Bool.not_eq_true'] at h h'
  obtain ⟨⟨⟨a0, b0⟩, ⟨a1, b1⟩, ⟨a2, b2⟩, ⟨a3, b3⟩, a4, b4⟩, e⟩ := h
  obtain ⟨⟨⟨a0', b0'⟩, ⟨a1', b1'⟩, ⟨a2', b2'⟩, ⟨a3', b3'⟩, a4', b4'⟩, e'⟩ := h'
  simp [a0, b0, a1, b1, a2, b2, a3, b3, a4, b4, a0', b0', a1', b1', a2', b2', a3', b3', a4', b4', e, e']

/-- Scheduler ON (and/or TTL cache on): equality holds for calm clocks — every elapsed reading below
`min wall_ms quantum_ms`, cache entries younger than the TTL.  (Budget-driven yields are logical and allowed.) -/
theorem C01_clock_noninterference_sched_on_partial (cfg : Cfg) (hci : cfg.ci = true) (d d' : Dec) (t : TurnIn)
    (c : List CEntry) (h : calmB cfg d = true) (h' : calmB cfg d' = true) :
    canonOut cfg (turn cfg d t c) = canonOut cfg (turn cfg d' t c) :=
  turn_noninterference cfg hci d d' t c (C01_calm_decEquiv cfg d d' h h')

/-- witness configuration: scheduler on, quantum 20 ms, wall 200 ms, no count budgets -/
def wCfgSched : Cfg :=
  { ci := true, schedOn := true, wallMs := some 200, quantumMs := 20, bIters := none, bPops := none, bK := none,
    bOps := none, t3On := true, t4On := true, cacheOn := false, ttl := 0, hasNow := false }

def wTurn : TurnIn :=
  { turn := 1, agent := 1, text := 7, ver := 0, slice := 1, t1Iters := some 2, t1Pops := some 5, t1Tok := 11,
    t2K := some 3, t2Tok := 22, ops := 1, utter := 33, t4Tok := 44, applyTok := 55, now := 0 }

/-- NEGATION of the full statement with the scheduler on: a slow clock (25 ms elapsed after T1) yields
QUANTUM_EXCEEDED after T1 — no T2/T4/apply records, empty utterance — a fast clock completes the turn. -/
theorem C01_sched_clock_dependence :
    ∃ (cfg : Cfg) (d d' : Dec) (t : TurnIn), cfg.ci = true ∧ cfg.schedOn = true ∧
      canonOut cfg (turn cfg d t []) ≠ canonOut cfg (turn cfg d' t []) :=
  ⟨wCfgSched, ⟨[0, 0, 0, 0, 0], 0, []⟩, ⟨[25, 0, 0, 0, 0], 0, []⟩, wTurn, rfl, rfl, by decide⟩

example : (turn wCfgSched ⟨[25, 0, 0, 0, 0], 0, []⟩ wTurn []).line = 0
    ∧ (turn wCfgSched ⟨[0, 0, 0, 0, 0], 0, []⟩ wTurn []).line = 33 := by decide

/-- witness configuration: scheduler off, turn-level cache on with the default 600 s TTL -/
def wCfgTtl : Cfg :=
  { ci := true, schedOn := false, wallMs := none, quantumMs := 20, bIters := none, bPops := none, bK := none,
    bOps := none, t3On := false, t4On := false, cacheOn := true, ttl := 600, hasNow := false }

/-- NEGATION of the full statement with the scheduler OFF: the same text at the same version twice; when more than
`ttl` seconds of wall time pass between the turns the entry expires and `cache_hit` in t2.jsonl / turn.jsonl flips. -/
theorem C01_ttl_clock_dependence :
    ∃ (cfg : Cfg) (ds ds' : List Dec) (ts : List TurnIn), cfg.ci = true ∧ cfg.schedOn = false ∧
      (run cfg (ds.zip ts) []).map (canonOut cfg) ≠ (run cfg (ds'.zip ts) []).map (canonOut cfg) :=
  ⟨wCfgTtl, [⟨[], 0, []⟩, ⟨[], 1, []⟩], [⟨[], 0, []⟩, ⟨[], 601, []⟩], [wTurn, { wTurn with turn := 2 }],
    rfl, rfl, by decide⟩

/-- non-vacuity of the positive theorems: a two-turn run with non-empty T1/T2 records, a cache hit on the second turn -/
example : ((run wCfgTtl ([⟨[], 0, [5, 6, 7]⟩, ⟨[], 1, [8, 9]⟩].zip [wTurn, { wTurn with turn := 2 }]) []).map
    (fun o => (canonOut wCfgTtl o).recs.length)) = [3, 3] := by decide

example : calmB wCfgSched ⟨[0, 3, 5, 7, 19], 0, [1, 2, 3]⟩ = true := by decide

/-- `C01_replay`: the canonical outcome of a turn sequence is a function of (configuration, logical turn inputs,
initial cache state) and of the clock-derived DECISIONS only. -/
theorem C01_replay (cfg : Cfg) (hci : cfg.ci = true) (ts : List TurnIn) (ds ds' : List Dec)
    (h : List.Forall₂ (fun d d' => decEquivB cfg d d' = true) ds ds') (hl : ds.length = ts.length) (c : List CEntry) :
    (run cfg (ds.zip ts) c).map (canonOut cfg) = (run cfg (ds'.zip ts) c).map (canonOut cfg) := by
  apply C01_run_clock_noninterference cfg hci
  induction h generalizing ts with
  | nil => simp
  | @cons d d' l l' hd _ ih =>
    match ts, hl with
    | t :: ts, hl =>
      simp only [List.zip_cons_cons]
      exact List.Forall₂.cons ⟨rfl, hd⟩ (ih ts (by simpa using hl))

/-! ### warm process vs fresh process (process-global stage caches) -/

/-- which requests of a history are served from the cache (what the T1/T2 records expose as
`cache_hits` / `cache_used`) -/
def hitFlags {σ K V X : Type} (C : CacheSem σ K V) (key : X → K) (f : X → V) : σ → List (Ev X) → List Bool
  | _, [] => []
  | s, e :: es =>
    (match e with
      | .req x => ((C.get s (key x)).2).isSome
      | .other _ => false) :: hitFlags C key f (stepCached C key f s e).1 es

/-- Warm vs fresh process, VALUES: a stage behind a process-global cache returns the same results over any
history whether the cache starts empty (fresh process) or holds entries computed by the same stage in an earlier
execution (warm process) — GIVEN that the cache key is sufficient (C05's obligation; where C05 reports an
insufficient key, this hypothesis fails and the warm process may return stale values). -/
theorem C01_warm_process_partial {σ K V X : Type} (C : CacheSem σ K V) (key : X → K) (f : X → V)
    (hs : Sufficient key f) (es : List (Ev X)) (fresh warm : σ)
    (hf : ∀ k v, ¬ C.holds fresh k v) (hw : Good C key f warm) :
    runCached C key f warm es = runCached C key f fresh es := by
  rw [transparent_of_sufficient C key f hs es warm hw,
      transparent_of_sufficient C key f hs es fresh (good_of_empty C key f fresh hf)]

/-- ... but NOT the hit/miss bookkeeping, which t1.jsonl / t2.jsonl record: the same request is a miss in a fresh
process and a hit in a warm one (known finding C01:warm-process:stage-cache). -/
theorem C01_warm_process_hit_flags_differ :
    ∃ (fresh warm : Clem.LruBytes.State) (es : List (Ev Nat)),
      (∀ k v, ¬ (Clem.LruBytes.cacheSem (fun _ _ => 1)).holds fresh k v) ∧
      Good (Clem.LruBytes.cacheSem (fun _ _ => 1)) id id warm ∧
      hitFlags (Clem.LruBytes.cacheSem (fun _ _ => 1)) id id fresh es
        ≠ hitFlags (Clem.LruBytes.cacheSem (fun _ _ => 1)) id id warm es := by
  refine ⟨Clem.LruBytes.init 4 100,
          (stepCached (Clem.LruBytes.cacheSem (fun _ _ => 1)) id id (Clem.LruBytes.init 4 100) (Ev.req 7)).1,
          [Ev.req 7], ?_, ?_, by decide⟩
  · intro k v h
    obtain ⟨e, hm, _⟩ := h
    simp [Clem.LruBytes.init] at hm
  · apply good_step (Clem.LruBytes.cacheSem (fun _ _ => 1)) id id _ (Ev.req 7)
    apply good_of_empty
    intro k v h
    obtain ⟨e, hm, _⟩ := h
    simp [Clem.LruBytes.init] at hm
