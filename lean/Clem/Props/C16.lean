/-
C16 — Log streams stay well-formed, ordered and lossless.  Property theorems by clause:
  * `C16/Frame.lean`     framing, concurrent atomic appends, compaction rewrite
  * `C16/Normalize.lean` CI identity normalisation (idempotent, only volatile fields)
  * `C16/Stager.lean`    staging: sorted drains, per-file order, limit (in)dependence
  * `C16/Rotate.lean`    rotation incl. every crash prefix of the step list
-/
import Clem.Props.C16.Frame
import Clem.Props.C16.Normalize
import Clem.Props.C16.Stager
import Clem.Props.C16.Rotate
