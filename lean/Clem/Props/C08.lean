import Clem.Proofs.Atomic
import Clem.Gen.AtomicCallers

/-!
# C08 — Durable files are replaced all-or-nothing

Property theorems only (helper lemmas live in `Clem/Proofs/Atomic.lean`).  Every theorem is about
the executable definitions in `Clem/Model/Atomic.lean` that the driver runs against the real
`clematis.io.atomic`.  `σ` ranges over ALL fault scripts (arbitrary length: any number of I/O
errors, transient failures, short writes, and a crash at any step boundary); `retries` is any
positive retry bound (the code uses 80).  `awb true` is the *repaired* `atomic_write_bytes`
(proposed_fixes/C08_short_write.diff); the pinned tree's single unchecked `f.write` (`awb false`)
violates the property — see `C08_unrepaired_short_write_violates`.
-/

namespace Clem.Atomic
open Clem.Gen.AtomicCallers

/-- **All-or-nothing.** Whatever fails or wherever the process dies, the destination ends up with
the complete previous content or the complete new content. -/
theorem C08_all_or_nothing (retries : Nat) (hr : 0 < retries) (dest r : Name) (data : Bytes)
    (fs : Dir) (σ : List Outcome) :
    getF (awb true retries dest r data fs σ).fs dest = getF fs dest ∨
    getF (awb true retries dest r data fs σ).fs dest = some data := by
  have g := awb_G false retries hr dest r data fs σ (by simp)
  rcases g.safe with h | h
  · exact Or.inl (h dest (tmpName_ne dest r).symm)
  · exact Or.inr h.2.1

example : getF (awb true 80 [1] [2] [7, 8] [([1], [5])] [.ok, .ok, .ok, .short 1, .err 28]).fs [1] = some [5] := by
  decide
example : getF (awb true 80 [1] [2] [7, 8] [([1], [5])] [.ok, .ok, .ok, .short 1]).fs [1] = some [7, 8] := by
  decide

/-- **Concurrent reader.** At every step boundary of the run (every instant a concurrent reader
could look) and at the end, the destination is the complete old or the complete new content:
the destination changes only in the atomic rename step. -/
theorem C08_reader (retries : Nat) (hr : 0 < retries) (dest r : Name) (data : Bytes)
    (fs : Dir) (σ : List Outcome) :
    ∀ d ∈ (awb true retries dest r data fs σ).hist ++ [(awb true retries dest r data fs σ).fs],
      getF d dest = getF fs dest ∨ getF d dest = some data := by
  have g := awb_G false retries hr dest r data fs σ (by simp)
  intro d hd
  have hs : Safe fs (tmpName dest r) dest data d := by
    simp at hd
    rcases hd with hd | rfl
    · exact g.hist d hd
    · exact g.safe
  rcases hs with h | h
  · exact Or.inl (h dest (tmpName_ne dest r).symm)
  · exact Or.inr h.2.1

/-- The same statement as the monitor `readerB` that the harness evaluates on the implementation. -/
theorem C08_reader_monitor (retries : Nat) (hr : 0 < retries) (dest r : Name) (data : Bytes)
    (fs : Dir) (σ : List Outcome) :
    readerB (getF fs dest) data
      (((awb true retries dest r data fs σ).hist ++ [(awb true retries dest r data fs σ).fs]).map
        (fun d => getF d dest)) = true := by
  simp only [readerB, List.all_eq_true, List.mem_map]
  rintro x ⟨d, hd, rfl⟩
  simpa [aonB] using C08_reader retries hr dest r data fs σ d hd

/-- **New iff replaced.** The destination holds the new content exactly when some `os.replace`
step succeeded; otherwise it is untouched. -/
theorem C08_new_iff_replaced (retries : Nat) (hr : 0 < retries) (dest r : Name) (data : Bytes)
    (fs : Dir) (σ : List Outcome) :
    ((Step.replace, Outcome.ok) ∈ (awb true retries dest r data fs σ).trace →
      getF (awb true retries dest r data fs σ).fs dest = some data) ∧
    ((Step.replace, Outcome.ok) ∉ (awb true retries dest r data fs σ).trace →
      getF (awb true retries dest r data fs σ).fs dest = getF fs dest) := by
  have g := awb_G false retries hr dest r data fs σ (by simp)
  exact ⟨fun h => (g.repl (Or.inr h)).2.1, fun h => g.norepl rfl h dest (tmpName_ne dest r).symm⟩

/-- **A normal return means the complete new content is installed** (and the temp is gone). -/
theorem C08_returned_means_new (retries : Nat) (hr : 0 < retries) (dest r : Name) (data : Bytes)
    (fs : Dir) (σ : List Outcome) (h : (awb true retries dest r data fs σ).status = .returned) :
    getF (awb true retries dest r data fs σ).fs dest = some data ∧
    getF (awb true retries dest r data fs σ).fs (tmpName dest r) = none := by
  have g := awb_G false retries hr dest r data fs σ (by simp)
  exact ⟨(g.ret h).2.1, (g.ret h).2.2⟩

example : (awb true 80 [1] [2] [7, 8] [([1], [5])] []).status = .returned := by decide

/-- **A raised error means nothing was replaced.** -/
theorem C08_raised_means_old (retries : Nat) (hr : 0 < retries) (dest r : Name) (data : Bytes)
    (fs : Dir) (σ : List Outcome) (h : (awb true retries dest r data fs σ).status = .raised) :
    getF (awb true retries dest r data fs σ).fs dest = getF fs dest := by
  have g := awb_G false retries hr dest r data fs σ (by simp)
  exact (g.rai h).2 dest (tmpName_ne dest r).symm

example : (awb true 80 [1] [2] [7, 8] [([1], [5])] [.ok, .ok, .ok, .ok, .ok, .err 5]).status = .raised := by
  decide

/-- **Frame.** No directory entry other than the destination and the call's own temp file is
ever created, changed or removed — at any instant. -/
theorem C08_frame (retries : Nat) (hr : 0 < retries) (dest r : Name) (data : Bytes)
    (fs : Dir) (σ : List Outcome) (n : Name) (h1 : n ≠ dest) (h2 : n ≠ tmpName dest r) :
    ∀ d ∈ (awb true retries dest r data fs σ).hist ++ [(awb true retries dest r data fs σ).fs],
      getF d n = getF fs n := by
  have g := awb_G false retries hr dest r data fs σ (by simp)
  intro d hd
  have hs : Safe fs (tmpName dest r) dest data d := by
    simp at hd
    rcases hd with hd | rfl
    · exact g.hist d hd
    · exact g.safe
  rcases hs with h | h
  · exact h n h2
  · exact h.1 n h2 h1

/-- **No temp left on error.** If the call raises and its own `exists`/`unlink` calls worked, the
directory is exactly what it was before the call (temp name fresh, as `tempfile` guarantees). -/
theorem C08_no_temp_on_error (retries : Nat) (hr : 0 < retries) (dest r : Name) (data : Bytes)
    (fs : Dir) (σ : List Outcome) (hfresh : getF fs (tmpName dest r) = none)
    (h : (awb true retries dest r data fs σ).status = .raised)
    (hw : cleanupWorked (awb true retries dest r data fs σ).trace = true) :
    ∀ n, getF (awb true retries dest r data fs σ).fs n = getF fs n := by
  have g := awb_G true retries hr dest r data fs σ (fun _ => hfresh)
  intro n
  by_cases hn : n = tmpName dest r
  · subst hn; rw [g.clean h rfl hw, hfresh]
  · exact (g.rai h).2 n hn

example : (awb true 80 [1] [2] [7, 8] [([1], [5])] [.ok, .ok, .ok, .ok, .ok, .err 5]).status = .raised ∧
    cleanupWorked (awb true 80 [1] [2] [7, 8] [([1], [5])] [.ok, .ok, .ok, .ok, .ok, .err 5]).trace = true ∧
    (awb true 80 [1] [2] [7, 8] [([1], [5])] [.ok, .ok, .ok, .ok, .ok, .err 5]).fs = [([1], [5])] := by decide
-- when the unlink itself fails the temp stays (the hypothesis is needed)
example : (awb true 80 [1] [2] [7, 8] [([1], [5])] [.ok, .ok, .ok, .ok, .ok, .err 5, .ok, .ok, .err 13]).status = .raised ∧
    getF (awb true 80 [1] [2] [7, 8] [([1], [5])] [.ok, .ok, .ok, .ok, .ok, .err 5, .ok, .ok, .err 13]).fs [1, 46, 2] = some [7, 8] := by
  decide

/-- The monitor `noTempB` (names only) holds of every model run with a fresh temp name. -/
theorem C08_no_temp_monitor (retries : Nat) (hr : 0 < retries) (dest r : Name) (data : Bytes)
    (fs : Dir) (σ : List Outcome) (hfresh : getF fs (tmpName dest r) = none) :
    noTempB (awb true retries dest r data fs σ).status (awb true retries dest r data fs σ).trace
      (keys fs) dest (keys (awb true retries dest r data fs σ).fs) = true := by
  have g := awb_G true retries hr dest r data fs σ (fun _ => hfresh)
  unfold noTempB
  split
  · rfl
  · rename_i hc
    split
    · rfl
    · rename_i hrw
      simp only [List.all_eq_true, decide_eq_true_eq]
      intro n hn
      rw [mem_keys_iff] at hn
      by_cases hd : n = dest
      · exact Or.inl hd
      · right
        rw [mem_keys_iff]
        cases hst : (awb true retries dest r data fs σ).status with
        | crashed => exact absurd hst hc
        | returned =>
          have hb := g.ret hst
          by_cases ht : n = tmpName dest r
          · subst ht; exact absurd hb.2.2 hn
          · rw [← hb.1 n ht hd]; exact hn
        | raised =>
          have hcw : cleanupWorked (awb true retries dest r data fs σ).trace = true := by
            by_cases hx : cleanupWorked (awb true retries dest r data fs σ).trace = true
            · exact hx
            · exact absurd ⟨hst, hx⟩ hrw
          have := C08_no_temp_on_error retries hr dest r data fs σ hfresh hst hcw n
          rw [← this]; exact hn

/-- **After a crash the only possible stray entry is the temp file**: every other name (≠ dest)
present afterwards was present before. -/
theorem C08_crash_leftover_only_temp (retries : Nat) (hr : 0 < retries) (dest r : Name)
    (data : Bytes) (fs : Dir) (σ : List Outcome) (n : Name)
    (hn : n ∈ keys (awb true retries dest r data fs σ).fs) :
    n = dest ∨ n = tmpName dest r ∨ n ∈ keys fs := by
  by_cases h1 : n = dest
  · exact Or.inl h1
  by_cases h2 : n = tmpName dest r
  · exact Or.inr (Or.inl h2)
  right; right
  rw [mem_keys_iff] at hn ⊢
  rw [← C08_frame retries hr dest r data fs σ n h1 h2 (awb true retries dest r data fs σ).fs (by simp)]
  exact hn

example : keys (awb true 80 [1] [2] [7, 8] [([1], [5])] [.ok, .ok, .ok, .ok, .crash]).fs = [[1, 46, 2], [1]] := by
  decide

/-! ## Temp names can never be mistaken for real data -/

/-- A leftover temp `dest.r` (`r` drawn from `tempfile`'s alphabet, of `tempfile`'s length — both
read from the interpreter into the generated table) has the temp shape and matches NONE of the
file-name patterns that snapshot discovery, sidecar lookup, log readers and rotation use
(generated from the sources: `.json`, `.json.zst`, `.jsonl`, `.meta`, `.1`, …). -/
theorem C08_temp_name_harmless (dest r : Name) (hr : ∀ c ∈ r, c ∈ tempChars)
    (hl : r.length = tempLen) :
    harmlessB discoverySuffixes dest (tmpName dest r) = true ∧ tempShapeB dest (tmpName dest r) = true := by
  have hdot : 46 ∉ r := fun h => by
    have := hr 46 h
    revert this; decide
  have hl8 : r.length = 8 := hl
  constructor
  · simp only [harmlessB, Bool.and_eq_true, List.all_eq_true, Bool.not_eq_true', decide_eq_true_eq]
    refine ⟨tmpName_ne dest r, ?_⟩
    intro s hs
    have hseg : ∃ b, lastSeg s = some b ∧ b.length ≠ 8 := by
      revert s; decide
    obtain ⟨b, hb, hlen⟩ := hseg
    cases he : endsWithB (tmpName dest r) s with
    | false => rfl
    | true =>
      have := tmp_endsWith_lastSeg dest r s b hdot hb he
      subst this
      exact absurd hl8 hlen
  · simp [tempShapeB, tmpName, lastSeg_append_dot dest r hdot, hl8]

example : harmlessB discoverySuffixes [115, 46, 106, 115, 111, 110]
    (tmpName [115, 46, 106, 115, 111, 110] [97, 98, 99, 100, 49, 50, 51, 95]) = true := by decide
-- a name that *would* be picked up is rejected by the monitor (it is not vacuous)
example : harmlessB discoverySuffixes [115] [115, 46, 106, 115, 111, 110] = false := by decide

/-- A temp of any file is never a rotation generation `path.k` (`f"{path}.{k}"` in
`rotate_logs.py`) of any path for `k < 10⁷` (the script keeps `backups` = 5 by default). -/
theorem C08_temp_not_rotation_generation (dest r p : Name) (k : Nat) (hr : 46 ∉ r)
    (hl : r.length = 8) (hk : k < 10 ^ 7) : tmpName dest r ≠ p ++ 46 :: dec k := by
  intro h
  have h1 := lastSeg_append_dot dest r hr
  have h2 := lastSeg_append_dot p (dec k) (decFuel_nodot _ _)
  unfold tmpName at h
  rw [h, h2] at h1
  have := decFuel_length 6 (k + 1) k hk
  have h3 : dec k = r := Option.some.inj h1
  unfold dec at h3
  rw [h3] at this
  omega

example : dec 5 = [53] ∧ dec 120 = [49, 50, 48] := by decide
example : tmpName [116] [49, 50, 51, 52, 53, 54, 55, 56] = [116] ++ 46 :: dec 12345678 := by decide


/-! ## Retry semantics of `atomic_replace` -/

/-- **Transient failures then success.** Fewer than `n` retryable failures
(EACCES / EPERM / EBUSY / PermissionError) followed by a success: the rename happens, the call
does not raise (returns, if nothing else is scripted), after exactly `errs.length + 1` attempts —
for any `n`, any number of failures, any continuation of the script. -/
theorem C08_retry_transient (kRaise : Dir → List Outcome → Res) (tmp dest : Name)
    (errs : List Nat) (hre : ∀ c ∈ errs, retryable c = true)
    (n : Nat) (last : Option Nat) (fs : Dir) (rest : List Outcome) (c0 : Bytes)
    (hn : errs.length < n) (ht : getF fs tmp = some c0) :
    (replaceLoop kRaise tmp dest n last fs (errs.map Outcome.err ++ Outcome.ok :: rest)).fs
        = renameF fs tmp dest ∧
    (replaceLoop kRaise tmp dest n last fs (errs.map Outcome.err ++ Outcome.ok :: rest)).status
        ≠ .raised ∧
    (rest = [] →
      (replaceLoop kRaise tmp dest n last fs (errs.map Outcome.err ++ Outcome.ok :: rest)).status
        = .returned) ∧
    attempts (replaceLoop kRaise tmp dest n last fs (errs.map Outcome.err ++ Outcome.ok :: rest)).trace
        = errs.length + 1 :=
  replaceLoop_transient kRaise tmp dest errs hre n last fs rest c0 hn ht

example : retryable EACCES = true ∧ retryable EPERM = true ∧ retryable EBUSY = true ∧
    retryable EIO = false ∧ retryable 28 = false := by decide

/-- **A non-retryable failure is not retried**: the very next thing is the cleanup code, and the
cleanup code never attempts another replace. -/
theorem C08_nonretryable_stops (tmp dest : Name) (n : Nat) (last : Option Nat) (fs : Dir) (c : Nat)
    (rest : List Outcome) (h : retryable c = false) :
    replaceLoop (cleanup tmp) tmp dest (n + 1) last fs (Outcome.err c :: rest)
      = pre fs .replace (.err c) (postLoop (cleanup tmp) tmp (some c) fs rest) ∧
    attempts (replaceLoop (cleanup tmp) tmp dest (n + 1) last fs (Outcome.err c :: rest)).trace = 1 := by
  have h1 := replaceLoop_nonretryable (cleanup tmp) tmp dest n last fs c rest h
  refine ⟨h1, ?_⟩
  rw [h1, pre_trace, attempts_cons_replace, attempts_zero_of_norep (postLoop_cleanup_norep _ _ _ _)]

/-- **Bounded retry**: for ANY script at most `n` replace attempts are made. -/
theorem C08_attempts_bounded (tmp dest : Name) (n : Nat) (last : Option Nat) (fs : Dir)
    (σ : List Outcome) : attempts (replaceLoop (cleanup tmp) tmp dest n last fs σ).trace ≤ n :=
  replaceLoop_attempts_le tmp dest n last fs σ

/-- **Retry discipline of the whole call, for every script**: the monitor `retryB` that the harness
evaluates on the implementation's trace (a transient `replace` failure that is not the last
permitted attempt is followed by another attempt) holds, and the call never makes more than
`retries` replace attempts. -/
theorem C08_retry_discipline (retries : Nat) (dest r : Name) (data : Bytes) (fs : Dir)
    (σ : List Outcome) :
    retryB retries (awb true retries dest r data fs σ).trace = true ∧
    attempts (awb true retries dest r data fs σ).trace ≤ retries :=
  awb_RQ retries dest r data fs σ

/-- **Stand-alone `atomic_replace(src, dst, retries=n)`** (as `scripts/rotate_logs.py` calls it) for EVERY `n`
(0 included) and every script:
at every instant the target holds its old content or the complete content of the source. -/
theorem C08_replace_alone_all_or_nothing (retries : Nat) (src dst : Name) (hne : src ≠ dst) (fs : Dir)
    (σ : List Outcome) :
    ∀ d ∈ (atomicReplaceAlone retries src dst fs σ).hist ++ [(atomicReplaceAlone retries src dst fs σ).fs],
      getF d dst = getF fs dst ∨ getF d dst = getF fs src := by
  have h := atomicReplaceAlone_AllIn retries src dst fs σ
  intro d hd
  simp at hd
  rcases hd with hd | rfl
  · exact ReplStates_dst hne (h.1 d hd)
  · exact ReplStates_dst hne h.2

example : (atomicReplaceAlone 0 [1] [2] [([1], [7]), ([2], [5])] []).status = .returned ∧
    (atomicReplaceAlone 0 [1] [2] [([1], [7]), ([2], [5])] []).fs = [([2], [5])] := by decide
example : (atomicReplaceAlone 2 [1] [2] [([1], [7]), ([2], [5])] [.ok, .err 13]).fs = [([2], [7])] := by decide

/-- Whole call: 79 transient failures then success ⇒ returned with the new content; 80 ⇒ raised,
old content, no temp (concrete instances of the two theorems above through the whole program). -/
theorem C08_retry_boundary_instances :
    (awb true 80 [1] [2] [7, 8] [([1], [5])]
        (List.replicate 10 .ok ++ List.replicate 79 (.err 13))).status = .returned ∧
    getF (awb true 80 [1] [2] [7, 8] [([1], [5])]
        (List.replicate 10 .ok ++ List.replicate 79 (.err 13))).fs [1] = some [7, 8] ∧
    (awb true 80 [1] [2] [7, 8] [([1], [5])]
        (List.replicate 10 .ok ++ List.replicate 80 (.err 16))).status = .raised ∧
    (awb true 80 [1] [2] [7, 8] [([1], [5])]
        (List.replicate 10 .ok ++ List.replicate 80 (.err 16))).fs = [([1], [5])] := by
  decide

/-! ## Wrappers: a content failure happens before any temp exists -/

/-- **Serialise before temp.** When turning the value into bytes fails (at the start, in the
middle or at the end of the document: any `k`), the wrapper raises without having executed a
single FS step: empty trace, no instant at which a reader could see anything else, directory
literally unchanged — so no temp can be left behind and the destination is untouched. -/
theorem C08_serialise_before_temp (loopW : Bool) (retries : Nat) (dest r : Name) (k : Nat) (fs : Dir)
    (σ : List Outcome) :
    (writeSerialised loopW retries dest r (.contentFail k) fs σ).status = .raised ∧
    (writeSerialised loopW retries dest r (.contentFail k) fs σ).trace = [] ∧
    (writeSerialised loopW retries dest r (.contentFail k) fs σ).hist = [] ∧
    (writeSerialised loopW retries dest r (.contentFail k) fs σ).fs = fs := by
  simp [writeSerialised]

/-- **No temp left for every way the wrapper can fail** (content failure or any scripted I/O
failure whose own `exists`/`unlink` calls worked): a raise leaves the directory exactly as it was;
and the `noTempB` monitor holds of every run. -/
theorem C08_wrapper_no_temp_on_any_failure (retries : Nat) (hr : 0 < retries) (dest r : Name) (s : Ser)
    (fs : Dir) (σ : List Outcome) (hfresh : getF fs (tmpName dest r) = none)
    (h : (writeSerialised true retries dest r s fs σ).status = .raised)
    (hw : cleanupWorked (writeSerialised true retries dest r s fs σ).trace = true) :
    ∀ n, getF (writeSerialised true retries dest r s fs σ).fs n = getF fs n := by
  cases s with
  | contentFail k => intro n; simp [writeSerialised]
  | done data =>
    simp only [writeSerialised] at h hw ⊢
    exact C08_no_temp_on_error retries hr dest r data fs σ hfresh h hw

theorem C08_wrapper_no_temp_monitor (retries : Nat) (hr : 0 < retries) (dest r : Name) (s : Ser)
    (fs : Dir) (σ : List Outcome) (hfresh : getF fs (tmpName dest r) = none) :
    noTempB (writeSerialised true retries dest r s fs σ).status (writeSerialised true retries dest r s fs σ).trace
      (keys fs) dest (keys (writeSerialised true retries dest r s fs σ).fs) = true := by
  cases s with
  | contentFail k =>
    simp only [writeSerialised, fin_status, fin_trace, fin_fs, noTempB]
    simp [cleanupWorked]
    intro x hx; exact Or.inr hx
  | done data =>
    simp only [writeSerialised]
    exact C08_no_temp_monitor retries hr dest r data fs σ hfresh

/-- The wrapper is all-or-nothing at every instant for every serialisation outcome and script. -/
theorem C08_wrapper_reader (retries : Nat) (hr : 0 < retries) (dest r : Name) (s : Ser) (fs : Dir)
    (σ : List Outcome) :
    ∀ d ∈ (writeSerialised true retries dest r s fs σ).hist ++ [(writeSerialised true retries dest r s fs σ).fs],
      getF d dest = getF fs dest ∨ ∃ data, s = .done data ∧ getF d dest = some data := by
  cases s with
  | contentFail k => intro d hd; simp [writeSerialised] at hd; subst hd; exact Or.inl rfl
  | done data =>
    intro d hd
    simp only [writeSerialised] at hd
    rcases C08_reader retries hr dest r data fs σ d hd with h | h
    · exact Or.inl h
    · exact Or.inr ⟨data, rfl, h⟩

example : (writeSerialised true 80 [1] [2] (.contentFail 27000) [([1], [5])] [.ok, .crash]).fs = [([1], [5])] := by decide
example : (writeSerialised true 80 [1] [2] (.done [7]) [([1], [5])] []).fs = [([1], [7])] := by decide

/-! ## Callers: body + best-effort sidecar (`_write_lines`, `write_snapshot`) -/

/-- **Body and sidecar are each all-or-nothing at every instant** of a body-then-sidecar write,
for every script (`r1` is the 8-character temp suffix, so it is not the 4 characters `meta`). -/
theorem C08_sidecar_each_all_or_nothing (retries : Nat) (hr : 0 < retries) (dest r1 r2 : Name)
    (data mdata : Bytes) (fs : Dir) (σ : List Outcome) (hr1 : r1 ≠ [109, 101, 116, 97]) :
    ∀ d ∈ (withSidecar retries dest r1 r2 data mdata fs σ).hist ++
          [(withSidecar retries dest r1 r2 data mdata fs σ).fs],
      (getF d dest = getF fs dest ∨ getF d dest = some data) ∧
      (getF d (dest ++ metaSuffix) = getF fs (dest ++ metaSuffix) ∨
        getF d (dest ++ metaSuffix) = some mdata) := by
  have hA : ∀ d ∈ (awb true retries dest r1 data fs σ).hist ++ [(awb true retries dest r1 data fs σ).fs],
      (getF d dest = getF fs dest ∨ getF d dest = some data) ∧
      getF d (dest ++ metaSuffix) = getF fs (dest ++ metaSuffix) := fun d hd =>
    ⟨C08_reader retries hr dest r1 data fs σ d hd,
     C08_frame retries hr dest r1 data fs σ _ (ne_append_meta dest) (meta_ne_tmp dest r1 hr1) d hd⟩
  intro d hd
  by_cases hs : (awb true retries dest r1 data fs σ).status = .returned
  · simp only [withSidecar, withSidecarL, hs, if_true, swallow, List.append_assoc] at hd
    rw [List.mem_append] at hd
    rcases hd with hd | hd
    · have := hA d (by simp [hd])
      exact ⟨this.1, Or.inl this.2⟩
    · have hfs := hA (awb true retries dest r1 data fs σ).fs (by simp)
      have hb := C08_frame retries hr (dest ++ metaSuffix) r2 mdata (awb true retries dest r1 data fs σ).fs
        (σ.drop (awb true retries dest r1 data fs σ).trace.length) dest (ne_append_meta dest).symm
        (ne_tmp_of_meta dest r2) d hd
      have hm := C08_reader retries hr (dest ++ metaSuffix) r2 mdata (awb true retries dest r1 data fs σ).fs
        (σ.drop (awb true retries dest r1 data fs σ).trace.length) d hd
      rw [hfs.2] at hm
      exact ⟨by rw [hb]; exact hfs.1, hm⟩
  · simp only [withSidecar, withSidecarL, hs, if_false] at hd
    have := hA d hd
    exact ⟨this.1, Or.inl this.2⟩

/-- **A sidecar failure never breaks the snapshot write**: once the body call returned, the
combined call does not raise and the body holds the complete new content, whatever happens to
the sidecar (error or crash at any step). -/
theorem C08_sidecar_never_breaks_body (retries : Nat) (hr : 0 < retries) (dest r1 r2 : Name)
    (data mdata : Bytes) (fs : Dir) (σ : List Outcome)
    (h : (awb true retries dest r1 data fs σ).status = .returned) :
    (withSidecar retries dest r1 r2 data mdata fs σ).status ≠ .raised ∧
    getF (withSidecar retries dest r1 r2 data mdata fs σ).fs dest = some data := by
  have hnew := (C08_returned_means_new retries hr dest r1 data fs σ h).1
  unfold withSidecar withSidecarL
  rw [if_pos h]
  constructor
  · simp only [swallow]
    split <;> simp_all
  · simp only [swallow]
    rw [C08_frame retries hr (dest ++ metaSuffix) r2 mdata (awb true retries dest r1 data fs σ).fs
      (σ.drop (awb true retries dest r1 data fs σ).trace.length) dest (ne_append_meta dest).symm
      (ne_tmp_of_meta dest r2) _ (by simp)]
    exact hnew

/-- A failed or crashed body write is the whole story: the sidecar is not attempted. -/
theorem C08_sidecar_body_failure_propagates (retries : Nat) (dest r1 r2 : Name)
    (data mdata : Bytes) (fs : Dir) (σ : List Outcome)
    (h : (awb true retries dest r1 data fs σ).status ≠ .returned) :
    withSidecar retries dest r1 r2 data mdata fs σ = awb true retries dest r1 data fs σ := by
  unfold withSidecar withSidecarL
  rw [if_neg h]

example : (withSidecar 80 [1] [2] [3] [7] [9] [] (List.replicate 17 .ok ++ [.ok, .ok, .err 5])).status = .returned ∧
    getF (withSidecar 80 [1] [2] [3] [7] [9] [] (List.replicate 17 .ok ++ [.ok, .ok, .err 5])).fs [1] = some [7] ∧
    getF (withSidecar 80 [1] [2] [3] [7] [9] [] (List.replicate 17 .ok ++ [.ok, .ok, .err 5])).fs ([1] ++ metaSuffix) = none := by
  decide

/-! ## Callers and constants: generated from the sources, re-checked on every run -/

/-- Every file-writing call site of the durable-file modules (`engine/snapshot.py`, `io/log.py`)
goes through the atomic helper, or is the append-mode log append (C16); the four callers named
by the property (`write_snapshot`, `_write_lines`, `_write_sidecar_meta`, `rewrite_jsonl`) each
write, and write only, through the helper. -/
theorem C08_callers_via_atomic :
    (∀ s ∈ sites, s.kind = 0 ∨ s.kind = 1) ∧ (∀ c ∈ namedCallers, c = (true, true)) ∧
    namedCallers.length = 4 := by
  decide

set_option maxRecDepth 8192 in
/-- The constants of the model are the constants of the code: 80 retries by default (and
`atomic_write_bytes` does not override them), the retryable errno set is exactly
{EPERM, EACCES, EBUSY}, `PermissionError` is retried, and `_make_tmp` creates the temp in the
destination's directory with prefix `final.name + "."` (so rename never crosses a filesystem). -/
theorem C08_constants_match_code :
    retriesDefault = 80 ∧ awbUsesDefaultRetries = true ∧ permissionErrorRetried = true ∧
    tmpInSameDirWithDotPrefix = true ∧
    (∀ c < 200, retryable c = decide (c ∈ retryErrnos)) ∧ (46 ∉ tempChars) ∧ tempLen = 8 := by
  decide

/-! ## The pinned tree violates the property (negation witness) -/

/-- Full statement (holds of the repaired code: `C08_returned_means_new`, `C08_all_or_nothing`):
a normal return installs the complete new content.  The pinned tree's single unchecked raw
`f.write(data)` does NOT satisfy it: a short write (ENOSPC, RLIMIT_FSIZE) of 1 of 2 bytes is
followed by a successful rename and a normal return — the destination holds a truncated file
that is neither the old nor the new content. -/
theorem C08_unrepaired_short_write_violates :
    (awb false 80 [1] [2] [7, 8] [([1], [5])] [.ok, .ok, .ok, .short 1]).status = .returned ∧
    getF (awb false 80 [1] [2] [7, 8] [([1], [5])] [.ok, .ok, .ok, .short 1]).fs [1] = some [7] ∧
    ¬ (getF (awb false 80 [1] [2] [7, 8] [([1], [5])] [.ok, .ok, .ok, .short 1]).fs [1] = some [5] ∨
       getF (awb false 80 [1] [2] [7, 8] [([1], [5])] [.ok, .ok, .ok, .short 1]).fs [1] = some [7, 8]) := by
  decide

/-- What the pinned tree does satisfy (the `_partial` form): without short writes … is the same
program; with them only the weaker "destination is old or a *prefix* of new" survives; shown
here on the witness. -/
theorem C08_all_or_nothing_partial_unrepaired_witness :
    (getF (awb false 80 [1] [2] [7, 8] [([1], [5])] [.ok, .ok, .ok, .short 1]).fs [1]).getD [] <+: [7, 8] := by
  decide

end Clem.Atomic
