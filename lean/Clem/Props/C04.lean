import Clem.Proofs.Apply

/-!
# C04 — Apply commits exactly the approved deltas, once, with version discipline

Property theorems only (helper lemmas live in `Clem/Proofs/Apply.lean`).  Every theorem is about
the executable definitions in `Clem/Model/Apply.lean` that the driver runs against the real
`apply_changes` / `run_turn`.  All statements quantify over *every* input `i : In`
(approved list, store script, version, cache manager, faults) or every history `ts : List TurnIn`.

The model follows the code with `proposed_fixes/C04_no_fallback_after_successful_batch.diff`
applied.  `storePhaseLegacy` is the pinned tree before the fix; `C04_legacy_double_on_garbage`
is the machine-checked witness of DESIGN §5 row 11 for it.
-/

namespace Clem.Apply

/-! ## hand-off language -/

/-- The store receives exactly: nothing (no usable store); `[approved]`; or `[approved]` followed
by one singleton call per approved delta in the same order — the latter iff the batch call itself
raised. -/
theorem C04_handoff (i : In) : (apply i).calls = handoff i := by
  unfold apply storeAcc handoff
  cases i.store <;> simp [storePhase_calls]

theorem C04_handoff_batch_ok (i : In) (hs : i.store = .fn) (h : (headO i.script).isRet = true) :
    (apply i).calls = [i.deltas] := by
  rw [C04_handoff]; simp [handoff, hs, h]

theorem C04_handoff_fallback (i : In) (hs : i.store = .fn) (h : headO i.script = .raise) :
    (apply i).calls = [i.deltas] ++ i.deltas.map (fun d => [d]) := by
  rw [C04_handoff]; simp [handoff, hs, h, Outcome.isRet, singles]

/-- The per-delta fallback happens *only if* the batch call failed: any second call to the store
implies the first outcome was `raise` (whatever the counts of a returned value look like). -/
theorem C04_fallback_only_if_batch_raised (i : In) (h : 1 < (apply i).calls.length) :
    headO i.script = .raise := by
  rw [C04_handoff] at h
  unfold handoff at h
  cases hs : i.store <;> simp only [hs] at h <;> try (simp at h)
  cases ho : headO i.script with
  | raise => rfl
  | ret e c => simp [ho, Outcome.isRet] at h

/-- Without a usable store nothing is handed over. -/
theorem C04_no_store_no_calls (i : In) (h : i.store ≠ .fn) : (apply i).calls = [] := by
  rw [C04_handoff]; unfold handoff; cases hs : i.store <;> simp_all

example : (apply { (default : In) with store := .fn, deltas := [0, 1], script := [.raise, .raise, .ret (.ok 1) .bad] }).calls
    = [[0, 1], [0], [1]] := by decide

/-! ## at most once -/

/-- **At-most-once, full strength.**  For every approved list and every script, what an
all-or-nothing store has committed is a sublist of the approved list (same order, no delta more
often than approved). -/
theorem C04_at_most_once (i : In) : (committed (apply i).calls i.script).Sublist i.deltas := by
  unfold apply storeAcc
  cases i.store
  · simp [committed]
  · simp [committed]
  · exact committed_storePhase_sublist _ _
  · simp [committed]

theorem C04_at_most_once_count (i : In) (d : Delta) :
    (committed (apply i).calls i.script).count d ≤ i.deltas.count d :=
  (C04_at_most_once i).count_le d

/-- A successful batch commits exactly the approved list. -/
theorem C04_exactly_once_on_success (i : In) (hs : i.store = .fn) (h : (headO i.script).isRet = true) :
    committed (apply i).calls i.script = i.deltas := by
  unfold apply storeAcc; simp only [hs]; exact committed_storePhase_ok _ _ h

/-- Finding (DESIGN §5 row 11) on the code *before* the fix: a well-behaved store whose batch
answer carries an unparsable `edits` count gets every delta a second time. -/
theorem C04_legacy_double_on_garbage :
    ∃ ds sc d, (committed (storePhaseLegacy ds sc).calls sc).count d = 2 ∧ ds.count d = 1 :=
  ⟨[0, 1], [.ret .bad (.ok 0)], 0, by decide⟩

/-- …and the same script on the repaired code: once. -/
example : (committed (storePhase [0, 1] [.ret .bad (.ok 0)]).calls [.ret .bad (.ok 0)]).count 0 = 1 := by decide

/-- The fix is conservative: on every script whose returned counts all parse (the only kind a
conforming store produces) the repaired store phase and the pinned one coincide — calls, applied
and clamp counters. -/
theorem C04_fix_conservative (ds : List Delta) (sc : List Outcome)
    (h : ∀ o ∈ sc, o.wellFormed = true) : storePhaseLegacy ds sc = storePhase ds sc := by
  have hh := headO_wellFormed h
  unfold storePhaseLegacy storePhase
  cases ho : headO sc with
  | raise => exact perDeltaLegacy_eq _ _ _ (fun o ho => h o (List.mem_of_mem_tail ho))
  | ret e c =>
    rw [ho] at hh
    cases e <;> cases c <;> simp_all [Outcome.wellFormed, Cnt.val]

example : ∀ o ∈ [Outcome.raise, .ret (.ok 1) (.ok 0)], o.wellFormed = true := by decide

/-! ## canonical order is preserved (T4 → Apply composition) -/

/-- With a usable store the first call is the approved list verbatim (same elements, same order). -/
theorem C04_batch_is_approved_verbatim (i : In) (hs : i.store = .fn) :
    (apply i).calls.head? = some i.deltas := by
  rw [C04_handoff]; unfold handoff; simp only [hs]; split <;> rfl

/-- Whatever follows the batch is the approved list again, one by one, in the same order. -/
theorem C04_fallback_same_order (i : In) :
    ((apply i).calls.drop 1).flatten = i.deltas ∨ (apply i).calls.drop 1 = [] := by
  rw [C04_handoff]; unfold handoff
  cases i.store <;> simp
  split
  · right; rfl
  · left; exact flatten_singles _

/-- Hence a canonically sorted approved list (T4's output, C03) reaches the store canonically
sorted: for any key function, every call the store receives is sorted. -/
theorem C04_canonical_order_preserved (i : In) (key : Delta → List Nat)
    (h : keysSortedB (i.deltas.map key) = true) :
    ∀ c ∈ (apply i).calls, keysSortedB (c.map key) = true := by
  rw [C04_handoff]; unfold handoff
  intro c hc
  cases hs : i.store <;> simp only [hs] at hc <;> try (simp at hc)
  split at hc
  · simp at hc; subst hc; exact h
  · simp only [List.mem_cons, singles, List.mem_map] at hc
    rcases hc with hc | ⟨d, _, hd⟩
    · subst hc; exact h
    · subst hd; rfl

/-- The composition monitor holds of the model whenever T4's output is sorted. -/
theorem C04_canon_monitor_holds (i : In) (key : Delta → List Nat) (hs : i.store = .fn)
    (h : keysSortedB (i.deltas.map key) = true) :
    canonHandoffB (i.deltas.map key) ((apply i).calls.map (·.map key)) = true := by
  rw [C04_handoff]; unfold handoff; simp only [hs]
  split
  · simp [canonHandoffB, h]
  · simp [canonHandoffB, h, singles, Function.comp_def]

example : keysSortedB [[110, 58, 97], [110, 58, 98], [110, 58, 98, 49]] = true := by decide
example : keysSortedB [[110, 58, 98], [110, 58, 97]] = false := by decide

/-! ## version discipline -/

/-- The version becomes `bump v` for **every** script, cache-manager behaviour and snapshot fault. -/
theorem C04_version (i : In) : (apply i).version = bump i.ver := rfl

theorem C04_bump_absent : bump .absent = 1 := rfl
theorem C04_bump_numeric (n : Int) : bump (.num n) = n + 1 := rfl
theorem C04_bump_junk : bump .junk = 1 := rfl

/-- After any history the version is determined by the initial version and the number of committed
(kill switch off) turns alone. -/
theorem C04_version_history_general (s : HState) (ts : List TurnIn) :
    (runHistory s ts).ver = verAfter s.ver (committedTurns ts) := by
  induction ts generalizing s with
  | nil => rfl
  | cons t ts ih =>
    simp only [runHistory, List.foldl_cons] at ih ⊢
    rw [ih]
    by_cases h : t.enabled
    · simp only [runTurn, h, if_true, committedTurns, List.filter_cons, List.length_cons]
      exact verAfter_step _ _
    · simp [runTurn, h, committedTurns]

/-- From a numeric `v₀`: version = `v₀ + m` where `m` = number of committed turns; kill-switch
turns contribute 0. -/
theorem C04_version_history (s : HState) (ts : List TurnIn) (v : Int) (h : s.ver = .num v) :
    (runHistory s ts).ver = .num (v + committedTurns ts) := by
  rw [C04_version_history_general, h]
  cases committedTurns ts with
  | zero => simp [verAfter]
  | succ m => simp only [verAfter, bump, Ver.num.injEq]; omega

/-- From an absent / unparsable version: `m ≥ 1` committed turns give `"m"`. -/
theorem C04_version_history_fresh (s : HState) (ts : List TurnIn) (h : s.ver = .absent ∨ s.ver = .junk)
    (hm : 0 < committedTurns ts) : (runHistory s ts).ver = .num (committedTurns ts) := by
  rw [C04_version_history_general]
  cases hc : committedTurns ts with
  | zero => omega
  | succ m => rcases h with h | h <;> simp only [h, verAfter, bump, Ver.num.injEq] <;> omega

example : (runHistory ⟨.num 4, none, none, [], 0, []⟩
    [{ (default : TurnIn) with enabled := true }, default, { (default : TurnIn) with enabled := true }]).ver = .num 6 := by
  decide

/-! ## totality -/

/-- `apply` is a total function; the only way the real call can raise is the (documented) unguarded
snapshot write: store failures, per-delta failures, garbage counts and cache-manager failures
never do. -/
theorem C04_total (i : In) :
    (apply i).raised = true ↔ (shouldSnapshot i.turn i.every = true ∧ i.snapFault = true) := by
  simp [apply]

theorem C04_never_raises_without_snapshot_fault (i : In) (h : i.snapFault = false) :
    (apply i).raised = false := by
  simp [apply, h]

/-- **Which store faults may propagate: none.**  The store surface touched by the apply → snapshot
path is `apply_deltas` (lookup and call, batch and per-delta, raising or returning garbage),
`export_state` (missing / raising / returning something unserialisable / lookup raising) and `w`
(missing / malformed keys / unconvertible values / lookup raising).  For every combination of
these — i.e. for every `i` — `apply_changes` raises only if the snapshot *file write* itself
fails (`snapFault`: an OS-level I/O failure in `write_snapshot`, not a store fault). -/
theorem C04_store_faults_never_propagate (i : In) (h : i.snapFault = false) :
    (apply i).raised = false ∧ (apply i).version = bump i.ver ∧ (apply i).calls = handoff i :=
  ⟨C04_never_raises_without_snapshot_fault i h, rfl, C04_handoff i⟩

/-- The export side of the store surface influences nothing but the `store` section of the
snapshot file: calls, counters, version, invalidation, cadence and `raised` are the same for all
`export_state` / `w` behaviours. -/
theorem C04_export_faults_only_touch_snapshot_section (i : In) (e : ExportMode) (w : WMode) :
    let o := apply i
    let o' := apply { i with exportMode := e, wMode := w }
    o'.calls = o.calls ∧ o'.applied = o.applied ∧ o'.clamps = o.clamps ∧ o'.version = o.version ∧
    o'.invalidated = o.invalidated ∧ o'.cm = o.cm ∧ o'.snap = o.snap ∧ o'.raised = o.raised :=
  ⟨rfl, rfl, rfl, rfl, rfl, rfl, rfl, rfl⟩

/-- A store whose `apply_deltas` lookup raises is treated like a store without the API: nothing is
handed over, the version is still bumped. -/
theorem C04_attr_fault_is_no_api (i : In) (h : i.store = .attrRaises) :
    (apply i).calls = [] ∧ (apply i).version = bump i.ver :=
  ⟨C04_no_store_no_calls i (by simp [h]), rfl⟩

/-- A snapshot is written with a degraded (`{}`) store section rather than not at all. -/
theorem C04_snapshot_written_despite_export_fault (i : In) (h : i.snapFault = false)
    (hc : shouldSnapshot i.turn i.every = true) :
    (apply i).snapStore = some (storeSection i) := by
  simp [apply, h, hc]

example : (apply ⟨.fn, .absent, some 4, 2, false, none, none, none, false, [], [], .raises, .badValue⟩).snapStore
    = some .empty := by decide

/-- Errors inside the store never skip the version bump — nor does the snapshot fault. -/
theorem C04_version_bumped_even_if_raised (i : In) (_h : (apply i).raised = true) :
    (apply i).version = bump i.ver := rfl

/-! ## snapshot cadence -/

theorem C04_cadence (i : In) : (apply i).snap.isSome = shouldSnapshot i.turn i.every := by
  unfold apply; simp only; split <;> simp_all

theorem C04_cadence_arith (t n : Int) : shouldSnapshot (some t) n = true ↔ t % max 1 n = 0 := by
  simp [shouldSnapshot]

theorem C04_cadence_unparsable_turn (n : Int) : shouldSnapshot none n = true := by
  simp [shouldSnapshot]

/-- A non-positive cadence behaves as 1: every turn snapshots. -/
theorem C04_cadence_nonpositive (t : Option Int) (n : Int) (h : n ≤ 1) : shouldSnapshot t n = true := by
  have : max 1 n = 1 := by omega
  simp [shouldSnapshot, this]

/-- The snapshot records the new version, the applied count and the approved list. -/
theorem C04_snapshot_content (i : In) (r : SnapRec) (h : (apply i).snap = some r) :
    r.version = bump i.ver ∧ r.applied = (apply i).applied ∧ r.deltas = snapDeltas i := by
  unfold apply at h ⊢
  simp only at h ⊢
  split at h
  · cases h; exact ⟨rfl, rfl, rfl⟩
  · cases h

example : (apply { (default : In) with turn := some 6, every := 3 }).snap.isSome = true := by decide
example : (apply { (default : In) with turn := some 7, every := 3 }).snap.isSome = false := by decide

/-! ## cache invalidation -/

/-- The reported invalidation count is exactly the number of entries removed — for every fault
pattern of the cache manager, every mode, every namespace list. -/
theorem C04_invalidate_count (i : In) (c : Cache) (h : i.cm = some c) :
    ∃ c', (apply i).cm = some c' ∧ (apply i).invalidated + c'.total = c.total := by
  rw [apply_cm, apply_invalidated]
  by_cases ha : invActive i = true
  · rw [invPhase_active i c ha h]
    refine ⟨_, rfl, ?_⟩
    have := invLoop_count i.cmFault 0 (nsList i.namespaces) c 0
    simp only [invOn]; omega
  · simp only [Bool.not_eq_true] at ha
    rw [invPhase_inactive i ha]
    exact ⟨c, h, by simp⟩

/-- `on-apply` with a cache manager that does not fail: every configured namespace is empty
afterwards. -/
theorem C04_invalidate_empties (i : In) (c : Cache) (ha : invActive i = true) (h : i.cm = some c)
    (hf : i.cmFault = none) :
    ∃ c', (apply i).cm = some c' ∧ ∀ ns ∈ nsList i.namespaces, c'.size ns = 0 := by
  rw [apply_cm, invPhase_active i c ha h]
  refine ⟨_, rfl, ?_⟩
  intro ns hns
  simp only [invOn, hf]
  exact invLoop_none_empties 0 _ c 0 ns hns

/-- Namespaces that are not configured keep their entries (any fault pattern). -/
theorem C04_invalidate_untouched (i : In) (c : Cache) (h : i.cm = some c) (ns : Nat)
    (hns : ns ∉ nsList i.namespaces) :
    ∃ c', (apply i).cm = some c' ∧ c'.size ns = c.size ns := by
  rw [apply_cm]
  by_cases ha : invActive i = true
  · rw [invPhase_active i c ha h]
    exact ⟨_, rfl, invLoop_untouched _ _ _ _ _ _ hns⟩
  · simp only [Bool.not_eq_true] at ha
    rw [invPhase_inactive i ha]
    exact ⟨c, h, rfl⟩

/-- Mode other than `on-apply` (or no usable store): cache untouched, count 0. -/
theorem C04_invalidate_off (i : In) (ha : invActive i = false) :
    (apply i).cm = i.cm ∧ (apply i).invalidated = 0 := by
  rw [apply_cm, apply_invalidated, invPhase_inactive i ha]; exact ⟨rfl, rfl⟩

/-- A failing cache manager never fails apply and never blocks the version bump (cf. `C04_total`):
the failing call just ends the loop; what was invalidated before stays counted. -/
example : (apply ⟨.fn, .absent, none, 1, true, some [0, 1], some [(0, 2), (1, 3)], some 1, false, [], [], .absent, .absent⟩).invalidated
    = 2 := by decide

example : (apply ⟨.fn, .absent, none, 1, true, some [1, 0, 1], some [(0, 2), (1, 3)], none, false, [], [], .absent, .absent⟩).cm
    = some [(0, 0), (1, 0)] := by decide

/-! ## the monitor evaluated on the implementation holds of the model -/

theorem C04_spec_handoff (i : In) : specHandoff i (apply i) = true := by
  unfold specHandoff; rw [C04_handoff]; exact beq_self_eq_true _

theorem C04_spec_once (i : In) : specOnce i (apply i) = true :=
  atMostOnceB_of_sublist (C04_at_most_once i)

theorem C04_spec_version (i : In) : specVersion i (apply i) = true := by
  unfold specVersion; rw [C04_version]; exact beq_self_eq_true _

theorem C04_spec_cadence (i : In) : specCadence i (apply i) = true := by
  unfold specCadence
  rw [C04_cadence]
  simp only [beq_self_eq_true, Bool.true_and]
  cases hs : (apply i).snap with
  | none => rfl
  | some r =>
    obtain ⟨a, b, c⟩ := C04_snapshot_content i r hs
    simp [a, b, c, C04_version]

theorem C04_spec_total (i : In) : specTotal i (apply i) = true := by
  simp [specTotal, apply]

theorem C04_spec_invalidate (i : In) : specInvalidate i (apply i) = true := by
  unfold specInvalidate
  cases hc : i.cm with
  | none =>
    rw [apply_cm, apply_invalidated, invPhase_none i hc]; simp
  | some c =>
    obtain ⟨c', e1, e2⟩ := C04_invalidate_count i c hc
    rw [e1]
    simp only [e2, beq_self_eq_true, Bool.true_and, Bool.and_eq_true]
    constructor
    · split
      · rename_i hcond
        simp only [beq_iff_eq] at hcond
        obtain ⟨c'', e3, e4⟩ := C04_invalidate_empties i c hcond.1 hc hcond.2
        rw [e1] at e3; cases e3
        simp only [List.all_eq_true, beq_iff_eq]
        exact e4
      · rfl
    · split
      · rfl
      · rename_i hcond
        simp only [Bool.not_eq_true] at hcond
        have := (C04_invalidate_off i hcond).1
        rw [e1, hc] at this; cases this
        exact beq_self_eq_true _

/-- Every clause monitor the harness evaluates on the implementation holds of the model, for
every input. -/
theorem C04_spec_holds (i : In) : spec i (apply i) = true := by
  simp [spec, C04_spec_handoff, C04_spec_once, C04_spec_version, C04_spec_cadence, C04_spec_total,
    C04_spec_invalidate]

/-! ## kill switch and histories -/

/-- With `t4.enabled = false` a turn makes no store call, leaves version and snapshot alone and
emits no `t4.jsonl` / `apply.jsonl` record — at any position of any history (`s` is arbitrary). -/
theorem C04_killswitch (s : HState) (t : TurnIn) (h : t.enabled = false) :
    (runTurn s t).calls = s.calls ∧ (runTurn s t).ver = s.ver ∧ (runTurn s t).snap = s.snap ∧
    (runTurn s t).t4recs = s.t4recs ∧ (runTurn s t).applyRecs = s.applyRecs := by
  simp [runTurn, h]

/-- Kill-switch turns invalidate nothing: the cache only receives T2's own insert. -/
theorem C04_killswitch_cache (s : HState) (t : TurnIn) (h : t.enabled = false) :
    (runTurn s t).cm = t2Insert s.cm := by
  simp [runTurn, h]

/-- A committed turn at any position: version bumps by the `bump` law, exactly one t4 and one apply
record, the store receives exactly this turn's hand-off. -/
theorem C04_committed_turn (s : HState) (t : TurnIn) (h : t.enabled = true) :
    (runTurn s t).ver = .num (bump s.ver) ∧ (runTurn s t).t4recs = s.t4recs + 1 ∧
    (runTurn s t).applyRecs.length = s.applyRecs.length + 1 ∧
    (runTurn s t).calls = s.calls ++ handoff (toIn s t) := by
  simp [runTurn, h, C04_handoff, C04_version, toIn]

/-- The `apply.jsonl` record of a committed turn carries the new version and the cadence flag. -/
theorem C04_committed_turn_record (s : HState) (t : TurnIn) (h : t.enabled = true) :
    ∃ r, (runTurn s t).applyRecs.getLast? = some r ∧ r.version = bump s.ver ∧
      r.snapshot = shouldSnapshot t.turn t.every := by
  refine ⟨⟨bump s.ver, (apply (toIn s t)).applied, (apply (toIn s t)).clamps,
    (apply (toIn s t)).invalidated, shouldSnapshot t.turn t.every⟩, ?_, rfl, rfl⟩
  have hc := C04_cadence (toIn s t)
  simp only [runTurn, h, if_true, List.getLast?_concat, hc, C04_version]
  rfl

/-- Over a whole history with the switch toggled arbitrarily: the number of t4 / apply records is
the number of committed turns. -/
theorem C04_history_records (s : HState) (ts : List TurnIn) :
    (runHistory s ts).t4recs = s.t4recs + committedTurns ts ∧
    (runHistory s ts).applyRecs.length = s.applyRecs.length + committedTurns ts := by
  induction ts generalizing s with
  | nil => simp [runHistory, committedTurns]
  | cons t ts ih =>
    simp only [runHistory, List.foldl_cons] at ih ⊢
    obtain ⟨a, b⟩ := ih (runTurn s t)
    rw [a, b]
    by_cases h : t.enabled
    · obtain ⟨_, c, d, _⟩ := C04_committed_turn s t h
      simp only [c, d, committedTurns, List.filter_cons, h, if_true, List.length_cons]; omega
    · simp only [Bool.not_eq_true] at h
      obtain ⟨_, _, _, c, d⟩ := C04_killswitch s t h
      simp [c, d, committedTurns, h]

/-- **Store traffic of a whole history, kill switch toggled arbitrarily:** exactly the hand-off of
each committed turn, in turn order; kill-switch turns contribute nothing. -/
theorem C04_history_calls (s : HState) (ts : List TurnIn) :
    (runHistory s ts).calls = s.calls ++ (ts.filter (·.enabled)).flatMap handoffT := by
  induction ts generalizing s with
  | nil => simp [runHistory]
  | cons t ts ih =>
    simp only [runHistory, List.foldl_cons] at ih ⊢
    rw [ih]
    by_cases h : t.enabled
    · obtain ⟨_, _, _, d⟩ := C04_committed_turn s t h
      rw [d]
      simp only [List.filter_cons, h, if_true, List.flatMap_cons, List.append_assoc]
      rfl
    · simp only [Bool.not_eq_true] at h
      obtain ⟨a, _⟩ := C04_killswitch s t h
      rw [a]; simp [h]

/-- A history made only of kill-switch turns changes neither store, version, snapshot nor records. -/
theorem C04_killswitch_history (s : HState) (ts : List TurnIn) (h : ∀ t ∈ ts, t.enabled = false) :
    (runHistory s ts).calls = s.calls ∧ (runHistory s ts).ver = s.ver ∧
    (runHistory s ts).snap = s.snap ∧ (runHistory s ts).t4recs = s.t4recs ∧
    (runHistory s ts).applyRecs = s.applyRecs := by
  induction ts generalizing s with
  | nil => simp [runHistory]
  | cons t ts ih =>
    simp only [runHistory, List.foldl_cons] at ih ⊢
    have ht := h t (by simp)
    obtain ⟨a, b, c, d, e⟩ := C04_killswitch s t ht
    obtain ⟨a', b', c', d', e'⟩ := ih (runTurn s t) (fun x hx => h x (by simp [hx]))
    exact ⟨a'.trans a, b'.trans b, c'.trans c, d'.trans d, e'.trans e⟩

/-- Snapshot cadence at history level: after a committed turn the snapshot file carries the new
version iff the turn is on the cadence; otherwise it is the previous file. -/
theorem C04_history_cadence (s : HState) (t : TurnIn) (h : t.enabled = true) :
    (runTurn s t).snap =
      if shouldSnapshot t.turn t.every then
        some ⟨bump s.ver, (apply (toIn s t)).applied, snapDeltas (toIn s t)⟩
      else s.snap := by
  simp only [runTurn, h, if_true]
  have hs : (apply (toIn s t)).snap =
      if shouldSnapshot t.turn t.every then
        some ⟨bump s.ver, (apply (toIn s t)).applied, snapDeltas (toIn s t)⟩
      else none := rfl
  rw [hs]
  by_cases hc : shouldSnapshot t.turn t.every = true <;> simp [hc]

/-- Cache clause at history level: the cache after a committed turn and the invalidation count in
its record obey `specInvalidate` for the configuration in force *that* turn (whatever earlier
turns were configured with). -/
theorem C04_turn_invalidate_holds (s : HState) (t : TurnIn) (h : t.enabled = true) :
    turnInvalidateB s t (runTurn s t) = true := by
  unfold turnInvalidateB
  have hl : (runTurn s t).applyRecs.getLast? =
      some ⟨(apply (toIn s t)).version, (apply (toIn s t)).applied, (apply (toIn s t)).clamps,
            (apply (toIn s t)).invalidated, (apply (toIn s t)).snap.isSome⟩ := by
    simp [runTurn, h]
  have hc : (runTurn s t).cm = (apply (toIn s t)).cm := by simp [runTurn, h]
  rw [hl]
  simp only
  refine Eq.trans (specInvalidate_congr (toIn s t)
    { (default : Out) with cm := (runTurn s t).cm, invalidated := (apply (toIn s t)).invalidated }
    (apply (toIn s t)) hc rfl) (C04_spec_invalidate _)

/-- The per-turn monitor evaluated on implementation histories holds of the model at every state. -/
theorem C04_turnSpec_holds (s : HState) (t : TurnIn) : turnSpec s t (runTurn s t) = true := by
  unfold turnSpec
  by_cases h : t.enabled = true
  · obtain ⟨a, b, c, d⟩ := C04_committed_turn s t h
    have e := C04_history_cadence s t h
    obtain ⟨r, r1, r2, r3⟩ := C04_committed_turn_record s t h
    have hi := C04_turn_invalidate_holds s t h
    simp only [h, if_true, hi, a, b, c, d, r1, r2, r3, beq_self_eq_true, Bool.true_and]
    rw [e]
    split <;> simp
  · simp only [Bool.not_eq_true] at h
    obtain ⟨a, b, c, d, e⟩ := C04_killswitch s t h
    simp [h, a, b, c, d, e, C04_killswitch_cache s t h]

end Clem.Apply
