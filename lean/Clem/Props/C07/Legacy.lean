/-
C07 on the PINNED tree: the round-trip law is false for the codec as it was.  One machine-checked
counterexample per defect class (the same inputs are in `corpus/C07`, they fail on the unpatched
code and pass on the repaired one).  `Clem.DeltaLegacy` is the codec before
`proposed_fixes/C07_delta_paths_and_strict_leaves.diff`.
-/
import Clem.Model.DeltaLegacy

namespace Clem.Props.C07
open Clem.Py Clem.Py.J Clem.DeltaLegacy

/-- `{} → {"a.b": 1}` is rebuilt as `{"a": {"b": 1}}`. -/
theorem C07_legacy_fails_dotted_key :
    applyDelta (.obj []) (computeDelta (.obj []) (.obj [([97, 46, 98], .int 1)]))
      = [([97], .obj [([98], .int 1)])] := by decide

/-- `{"a.b": 1, "a": {"b": 2}} → {"a": {"b": 2}}`: the dotted key survives, the nested one is lost. -/
theorem C07_legacy_fails_dotted_delete :
    applyDelta (.obj [([97, 46, 98], .int 1), ([97], .obj [([98], .int 2)])])
      (computeDelta (.obj [([97, 46, 98], .int 1), ([97], .obj [([98], .int 2)])]) (.obj [([97], .obj [([98], .int 2)])]))
      = [([97, 46, 98], .int 1), ([97], .obj [])] := by decide

/-- `{} → {"": 1}` is rebuilt as `{}`. -/
theorem C07_legacy_fails_empty_key :
    applyDelta (.obj []) (computeDelta (.obj []) (.obj [([], .int 1)])) = [] := by decide

/-- `{"a": 1} → {"a": true}` and `{"a": 0.0} → {"a": -0.0}` are rebuilt as the base. -/
theorem C07_legacy_fails_pyeq_leaf :
    applyDelta (.obj [([97], .int 1)]) (computeDelta (.obj [([97], .int 1)]) (.obj [([97], .bool true)]))
      = [([97], .int 1)] ∧
    applyDelta (.obj [([97], .flt 0)]) (computeDelta (.obj [([97], .flt 0)]) (.obj [([97], .flt 9223372036854775808)]))
      = [([97], .flt 0)] := by decide

/-- hence the full-strength law fails for the pinned codec. -/
theorem C07_legacy_roundtrip_fails :
    ∃ base cur : J, wf base = true ∧ wf cur = true ∧
      eqv (.obj (applyDelta base (computeDelta base cur))) cur = false :=
  ⟨.obj [], .obj [([97, 46, 98], .int 1)], by decide⟩

end Clem.Props.C07
