/-
C20 — Optional subsystems fail soft: a turn always completes.

Statement (properties.jsonl): a failure inside any subsystem the engine declares optional or best-effort
(snapshot boot loading, GEL maintenance passes, reflection, LLM adapter construction, rerank/quality/tracing
layers, cache invalidation, store apply errors, snapshot sidecar write) never aborts a turn; the turn still
returns a result and emits its canonical T1/T2/T4/apply/turn records, equal to those of a run in which that
subsystem is switched off or idle.

The theorems are about `Clem.Turn.runTurn` (the control skeleton the driver executes) instantiated with
`guardOf`, the guard status computed from the table GENERATED from the repository's AST.
-/
import Clem.Proofs.Turn
import Clem.Model.Quality

namespace Clem.Props.C20
open Clem.Turn Clem.Gen.FailSoft

/-! ### 1. the table: every declared fail-soft site is inside `try … except Exception` in the current source -/

theorem C20_FailSoft_table : ∀ s ∈ declared, guardOf s = true := by decide

/-- the fail-soft layers of `apply_quality` (hybrid rerank, fusion, MMR, MMR fallback, shadow trace), the
telemetry writer's own guard and the sidecar writer's own guard -/
theorem C20_FailSoft_quality_table : ∀ p ∈ qualitySites, guardedAll p.1 p.2 = true := by decide

/-- Scope note, machine-checked: these calls are NOT in the property's list and are bare calls in the
current source (`write_snapshot` inside `apply_changes`, health check).  (`gel_observe` / `gel_tick` were in this
list until fix `C20_gel_observe_tick_fail_soft`: a foreign snapshot with a malformed GEL edge record made the decay
pass abort every turn.) -/
theorem C20_observed_unguarded : ∀ s ∈ observedUnguarded, guardOf s = false := by decide

/-- The store hooks the snapshot writer and the boot loader call (`store.export_state()`, `store.import_state()`)
are protected inside `_export_store_for_snapshot` / `_import_store_from_snapshot`.  Not in C20's own list (store
robustness is C04's clause); checked here because `write_snapshot`'s body is a bare call in `apply_changes`, so an
unprotected hook aborts the turn after the batch was applied — the fault-injection stream exercises both. -/
theorem C20_store_hooks_guarded :
    guardedAll .export_store .store_export_state = true ∧ guardedAll .import_store .store_import_state = true := by
  decide

/-- …so a failure there does abort the modelled turn (witness). -/
def envOk : Env :=
  { bootLoad := .ok none, t1 := fun _ => .ok ⟨1, some 1, some 1, some 1⟩, t2 := fun _ => .ok ⟨2, some 1, some 1, 1⟩,
    gelObserve := .ok 0, deliberate := fun _ => .ok ⟨3, 1, false, true⟩, rag := fun _ p => .ok p, t3Trace := .ok (),
    adapterBuild := .ok false, speak := fun _ _ => .ok (some 7), dialogue := fun _ => .ok (some 8),
    t4 := fun _ _ _ => .ok ⟨4, [1, 2], 0⟩, gelTick := .ok 0, mergeCand := .ok 2, applyMerge := fun _ => .ok (),
    splitCand := .ok 1, applySplit := fun _ => .ok (), promote := .ok 1, applyPromo := fun _ => .ok (),
    storeBatch := fun ds => .ok (ds.length, 0), storeOne := fun _ => .ok (1, 0), invalidate := fun _ => .ok (),
    snapBody := .ok (), sidecar := .ok (), reflectRun := none, reflect := .ok ⟨1, 5⟩, reflectWrite := .ok 1,
    reflectLog := .ok (), health := .ok (), yieldAt := fun _ _ _ _ => none }

def cfgAll : Cfg :=
  { dryRun := false, schedEnabled := false, cacheEnabled := true, graphEnabled := true, t3Enabled := true,
    t4Enabled := true, doMerge := true, doSplit := true, doPromo := true, capMerge := 4, capSplit := 4, capPromo := 2,
    ragAllowed := true, backendLlm := true, dialoguePatched := false, allowReflection := true, bustOnApply := true,
    namespaces := 1, snapshotDue := true, storeKind := .ok, textId := 1, inputBlank := false }

def st0 : St := ⟨.num 0, false, none, false, 0, false⟩

/-- every declared site failing at once (exception ids 1…19) -/
def envAllFail : Env :=
  { envOk with
    gelObserve := .error 18, gelTick := .error 19, bootLoad := .error 1, mergeCand := .error 2, applyMerge := fun _ => .error 3, splitCand := .error 4,
    applySplit := fun _ => .error 5, promote := .error 6, applyPromo := fun _ => .error 7, reflectRun := none,
    reflect := .error 9, reflectWrite := .error 10, reflectLog := .error 11, adapterBuild := .error 12,
    t3Trace := .error 13, invalidate := fun _ => .error 14, storeBatch := fun _ => .error 15,
    storeOne := fun d => if d = 1 then .error 16 else .ok (1, 0), sidecar := .error 17 }

example : isOk (runTurn guardOf cfgAll { envOk with health := .error 5 } st0) = false := by decide
example : isOk (runTurn guardOf cfgAll { envOk with snapBody := .error 5 } st0) = false := by decide

/-! ### 2. the turn completes -/

theorem C20_failsOnlyAt_mono {g g' : Site → Bool} {e : Env} (hg : ∀ s, g s = true → g' s = true)
    (h : FailsOnlyAt g e) : FailsOnlyAt g' e :=
  { bootLoad := fun x hx => hg _ (h.bootLoad x hx), t1 := h.t1, t2 := h.t2,
    gelObserve := fun x hx => hg _ (h.gelObserve x hx), deliberate := h.deliberate, rag := h.rag,
    t3Trace := fun x hx => hg _ (h.t3Trace x hx), adapterBuild := fun x hx => hg _ (h.adapterBuild x hx),
    speak := h.speak, dialogue := h.dialogue, t4 := h.t4, gelTick := fun x hx => hg _ (h.gelTick x hx),
    mergeCand := fun x hx => hg _ (h.mergeCand x hx), applyMerge := fun i x hx => hg _ (h.applyMerge i x hx),
    splitCand := fun x hx => hg _ (h.splitCand x hx), applySplit := fun i x hx => hg _ (h.applySplit i x hx),
    promote := fun x hx => hg _ (h.promote x hx), applyPromo := fun i x hx => hg _ (h.applyPromo i x hx),
    storeBatch := fun d x hx => hg _ (h.storeBatch d x hx), storeOne := fun d x hx => hg _ (h.storeOne d x hx),
    invalidate := fun i x hx => hg _ (h.invalidate i x hx), snapBody := fun x hx => hg _ (h.snapBody x hx),
    sidecar := fun x hx => hg _ (h.sidecar x hx), reflectRun := fun x hx => hg _ (h.reflectRun x hx),
    reflect := fun x hx => hg _ (h.reflect x hx), reflectWrite := fun x hx => hg _ (h.reflectWrite x hx),
    reflectLog := fun x hx => hg _ (h.reflectLog x hx), health := fun x hx => hg _ (h.health x hx) }

/-- Any script whose failures all sit at sites protected by `g` (any subset of them, any exception
values, any stage outputs, any configuration, any state): the turn returns a result. -/
theorem C20_FailSoft_completes (g : Site → Bool) (c : Cfg) (e : Env) (st : St) (h : FailsOnlyAt g e) :
    ∃ em, runTurn g c e st = .ok em := by
  unfold runTurn
  apply chain_ok
  intro f hf k
  simp only [phases, List.mem_cons, List.mem_nil_iff, or_false] at hf
  rcases hf with rfl | rfl | rfl | rfl | rfl | rfl | rfl | rfl | rfl | rfl | rfl | rfl
  · exact phBoot_ok h k
  · exact phCacheInit_ok c k
  · exact phT1_ok h c k
  · exact phT2_ok h c k
  · exact phGelObserve_ok h c k
  · exact phT3_ok h c k
  · exact phT4_ok h c k
  · exact phGelTick_ok h c k
  · exact phGelBlock_ok h c k
  · exact phApply_ok h c k
  · exact phReflect_ok h c k
  · exact phFinish_ok h c k

/-! ### 3. …with the records of the run in which the failing subsystems are idle -/

/-- For every set `S` of protected sites: running against the script in which the failures at `S` are
replaced by the idle outcome is the SAME run — same result, same records (all streams), same calls, same
state.  (`idle` covers boot load, adapter construction, T3 trace, reflection compute/write/telemetry,
single-delta store errors, sidecar write.) -/
theorem C20_idle_same_run (g S : Site → Bool) (hS : ∀ s, S s = true → g s = true) (c : Cfg) (e : Env) (st : St) :
    runTurn g c (idle S e) st = runTurn g c e st := by
  unfold runTurn
  rw [phases_idle hS]

/-- The property, for the current source: if the script fails only at sites of `S`, and `S` contains only
declared fail-soft sites, then `run_turn` returns a result, and its result line, canonical T1/T2/T4/apply/turn
records and state equal those of the run where the subsystems of `S` are idle. -/
theorem C20_FailSoft_turn (S : Site → Bool) (hS : ∀ s, S s = true → s ∈ declared) (c : Cfg) (e : Env) (st : St)
    (h : FailsOnlyAt S e) :
    (∃ em, runTurn guardOf c e st = .ok em) ∧
      proj (runTurn guardOf c e st) = proj (runTurn guardOf c (idle S e) st) := by
  have hg : ∀ s, S s = true → guardOf s = true := fun s hs => C20_FailSoft_table s (hS s hs)
  exact ⟨C20_FailSoft_completes guardOf c e st (C20_failsOnlyAt_mono hg h), by rw [C20_idle_same_run guardOf S hg]⟩

/-- non-vacuity: all 17 declared sites fail at once; the turn completes with the records of the idle run -/
example : isOk (runTurn guardOf cfgAll envAllFail st0) = true := by decide
example : sameCanon (runTurn guardOf cfgAll envAllFail st0)
    (runTurn guardOf cfgAll (idle (fun s => decide (s ∈ declared)) envAllFail) st0) = true := by decide

/-! ### 4. per-site lemmas -/

/-- GEL maintenance: whenever the block completes (it does when its failures are protected —
`phGelBlock_ok`), its contribution to working set, canonical records and control flow is that of the run with
merge/split/promotion switched OFF. -/
theorem C20_gel_maintenance_off (g : Site → Bool) (c : Cfg) (e : Env) (k : Core) (em : Emit)
    (h : phGelBlock g c e k = .ok em) :
    proj (phGelBlock g c e k) =
      proj (phGelBlock g { c with doMerge := false, doSplit := false, doPromo := false } e k) := by
  obtain ⟨h1, h2, h3⟩ := phGelBlock_inert g c e k em h
  have hoff : phGelBlock g { c with doMerge := false, doSplit := false, doPromo := false } e k = cont k [] [] := by
    simp [phGelBlock, gelBody, cont]
  rw [h, hoff]
  simp only [proj, cont]
  rw [h1, h2, h3]
  rfl

example : (gelBody cfgAll envAllFail).2.1 = some (.gelMergeCand, 2) := by decide

/-- GEL observe / decay tick: a failing pass contributes what the pass switched off contributes (no `gel`
record, working set untouched, turn goes on). -/
theorem C20_gel_observe_fail_eq_off (g : Site → Bool) (c : Cfg) (e : Env) (k : Core) (x : Exc)
    (hf : e.gelObserve = .error x) (hg : g .gelObserve = true) :
    proj (phGelObserve g c e k) = proj (phGelObserve g { c with graphEnabled := false } e k) := by
  by_cases hc : (c.graphEnabled && !c.dryRun) = true
  · simp [phGelObserve, hc, hf, hg, cont, proj, canonLogs]
  · simp [phGelObserve, hc, cont, proj]

theorem C20_gel_tick_fail_eq_off (g : Site → Bool) (c : Cfg) (e : Env) (k : Core) (x : Exc)
    (hf : e.gelTick = .error x) (hg : g .gelTick = true) :
    proj (phGelTick g c e k) = proj (phGelTick g { c with graphEnabled := false } e k) := by
  by_cases hc : (c.t4Enabled && c.graphEnabled) = true
  · simp [phGelTick, hc, hf, hg, cont, proj, canonLogs]
  · simp [phGelTick, hc, cont, proj]

/-- boot load: any failure (any file content that makes the loader raise) leaves the state at its defaults;
only `_boot_loaded` is set. -/
theorem C20_boot_fail (g : Site → Bool) (e : Env) (k : Core) (x : Exc) (hb : e.bootLoad = .error x)
    (hg : g .bootLoad = true) (hk : k.st.bootLoaded = false) :
    phBoot g e k = cont { k with st := { k.st with bootLoaded := true } } [] [.bootLoad] := by
  simp [phBoot, hb, hg, hk, tryD]

/-- adapter construction: a failure falls back to the rule-based speaker with the fallback flag set, exactly
like "no adapter". -/
theorem C20_adapter_fallback (g : Site → Bool) (c : Cfg) (e : Env) (st : St) (p : Plan) (x : Exc)
    (hc : c.dialoguePatched = false) (hl : c.backendLlm = true) (ha : st.adapter = false)
    (hb : e.adapterBuild = .error x) (hg : g .adapterBuild = true) :
    speakPart g c e st p = speakPart g c { e with adapterBuild := .ok false } st p := by
  simp [speakPart, hc, hl, ha, hb, hg, tryD]

/-- reflection compute: a failure of `reflect` gives the records and state of the run with reflection
switched OFF (telemetry is not a canonical stream). -/
theorem C20_reflect_fail_eq_off (g : Site → Bool) (c : Cfg) (e : Env) (k : Core) (x : Exc)
    (hr : e.reflectRun = none) (hd : c.dryRun = false) (hf : e.reflect = .error x) (hg : g .reflectCompute = true)
    (hl : ∀ y, e.reflectLog = .error y → g .reflectLog = true) :
    proj (phReflect g c e k) = proj (phReflect g { c with allowReflection := false } e k) := by
  obtain ⟨a, ha⟩ := tryD_ok_of (g := g) (s := .reflectLog) (d := ()) hl
  by_cases hgate : (c.allowReflection && (k.plan.reflection || k.st.plannerFlag)) = true
  · simp [phReflect, reflPart, hr, hd, hf, hg, tryD, hgate, cont, proj, canonLogs, Stream.canonical] at ha ⊢
    cases hlog : e.reflectLog with
    | ok u => simp
    | error y => simp [hl y hlog]
  · simp [phReflect, reflPart, hr, hd, hgate, cont, proj]

/-- store errors: when the batch call fails, every delta is offered once more singly, failing singles
are skipped, and the turn goes on to the version bump. -/
theorem C20_store_batch_fallback (g : Site → Bool) (c : Cfg) (e : Env) (k : Core) (x : Exc)
    (ht : c.t4Enabled = true) (hs : c.storeKind = .ok) (hb : e.storeBatch k.t4.approved = .error x)
    (hg : g .storeBatch = true) (a cl : Int) (cs : List Site)
    (he : applyEach g e.storeOne k.t4.approved = .ok (a, cl, cs)) :
    phApply g c e k = applyAfterStore g c e k a cl (Site.storeBatch :: cs) := by
  simp [phApply, ht, hs, hb, hg, he]

theorem C20_applyFinish_proj_calls (g : Site → Bool) (c : Cfg) (e : Env) (k : Core) (a cl : Int) (inv : Nat) (st : St)
    (cs cs2 : List Site) :
    proj (applyFinish g c e k a cl inv st cs) = proj (applyFinish g c e k a cl inv st cs2) := by
  unfold applyFinish
  cases hs : snapPart g c e with
  | error x => rfl
  | ok r =>
    obtain ⟨sn, cs'⟩ := r
    simp only [yieldCheck, cont]
    split
    · split <;> rfl
    · rfl

/-- cache invalidation: a failure on the first namespace gives the `apply` record and cache of the run with
`cache_bust_mode` off. -/
theorem C20_invalidate_fail_eq_off (g : Site → Bool) (c : Cfg) (e : Env) (k : Core) (a cl : Int) (cs : List Site)
    (x : Exc) (n : Nat) (hn : c.namespaces = n + 1) (hf : e.invalidate 0 = .error x)
    (hg : g .cacheInvalidate = true) :
    proj (applyAfterStore g c e k a cl cs) = proj (applyAfterStore g { c with bustOnApply := false } e k a cl cs) := by
  have h2 : applyAfterStore g { c with bustOnApply := false } e k a cl cs = applyFinish g c e k a cl 0 k.st cs := by
    simp only [applyAfterStore, Bool.false_and, Bool.false_eq_true, if_false]
    rfl
  by_cases hb : (c.bustOnApply && k.st.cache.isSome) = true
  · have h1 : applyAfterStore g c e k a cl cs = applyFinish g c e k a cl 0 k.st (cs ++ [.cacheInvalidate]) := by
      simp [applyAfterStore, hb, hn, invalidateLoop, hf, hg, dropCacheNs]
    rw [h1, h2]
    exact C20_applyFinish_proj_calls ..
  · have h1 : applyAfterStore g c e k a cl cs = applyFinish g c e k a cl 0 k.st cs := by
      simp only [applyAfterStore, hb]
      simp
    rw [h1, h2]

/-- sidecar write: a failure does not change anything the turn reports (the snapshot body is written). -/
theorem C20_sidecar_fail (g : Site → Bool) (c : Cfg) (e : Env) (x : Exc) (hf : e.sidecar = .error x)
    (hg : g .sidecarWrite = true) : snapPart g c e = snapPart g c { e with sidecar := .ok () } := by
  simp [snapPart, hf, hg, tryD]


/-! ### 4b. turn sequences -/

/-- a sequence of turns on one world: the state is threaded, the sequence stops at the first turn that raises -/
def runSeq (g : Site → Bool) : List (Cfg × Env) → St → Except Exc (List Emit × St)
  | [], st => .ok ([], st)
  | (c, e) :: rest, st =>
    match runTurn g c e st with
    | .error x => .error x
    | .ok em =>
      match runSeq g rest em.core.st with
      | .error x => .error x
      | .ok (ems, st') => .ok (em :: ems, st')

/-- every turn of a sequence completes when, in every turn, the failures are at protected sites -/
theorem C20_FailSoft_seq_completes (g : Site → Bool) (ts : List (Cfg × Env)) (st : St)
    (h : ∀ t ∈ ts, FailsOnlyAt g t.2) : ∃ r, runSeq g ts st = .ok r := by
  induction ts generalizing st with
  | nil => exact ⟨_, rfl⟩
  | cons t rest ih =>
    obtain ⟨c, e⟩ := t
    obtain ⟨em, hem⟩ := C20_FailSoft_completes g c e st (h (c, e) List.mem_cons_self)
    obtain ⟨⟨ems, st'⟩, hr⟩ := ih em.core.st (fun t ht => h t (List.mem_cons_of_mem _ ht))
    exact ⟨(em :: ems, st'), by simp only [runSeq, hem, hr]⟩

/-- …and the whole sequence (every record of every turn, the final state) is that of the sequence in which
the failing subsystems of `S` are idle in every turn -/
theorem C20_FailSoft_seq_idle (g S : Site → Bool) (hS : ∀ s, S s = true → g s = true) (ts : List (Cfg × Env)) (st : St) :
    runSeq g (ts.map (fun t => (t.1, idle S t.2))) st = runSeq g ts st := by
  induction ts generalizing st with
  | nil => rfl
  | cons t rest ih =>
    obtain ⟨c, e⟩ := t
    simp only [List.map_cons, runSeq, C20_idle_same_run g S hS]
    cases hr : runTurn g c e st with
    | error x => rfl
    | ok em => simp only [ih]

/-- the property over turn sequences, for the current source -/
theorem C20_FailSoft_seq (S : Site → Bool) (hS : ∀ s, S s = true → s ∈ declared) (ts : List (Cfg × Env)) (st : St)
    (h : ∀ t ∈ ts, FailsOnlyAt S t.2) :
    (∃ r, runSeq guardOf ts st = .ok r) ∧
      runSeq guardOf (ts.map (fun t => (t.1, idle S t.2))) st = runSeq guardOf ts st := by
  have hg : ∀ s, S s = true → guardOf s = true := fun s hs => C20_FailSoft_table s (hS s hs)
  exact ⟨C20_FailSoft_seq_completes guardOf ts st (fun t ht => C20_failsOnlyAt_mono hg (h t ht)),
         C20_FailSoft_seq_idle guardOf S hg ts st⟩

example : isOk (runSeq guardOf [(cfgAll, envAllFail), (cfgAll, envAllFail), (cfgAll, envOk)] st0) = true := by decide

/-- reflection wrapper failing outside its inner `try` = reflection switched off -/
theorem C20_reflect_run_fail_eq_off (g : Site → Bool) (c : Cfg) (e : Env) (k : Core) (x : Exc)
    (hr : e.reflectRun = some x) (hg : g .reflectRun = true) (hd : c.dryRun = false) :
    proj (phReflect g c e k) =
      proj (phReflect g { c with allowReflection := false } { e with reflectRun := none } k) := by
  simp [phReflect, reflPart, hr, hg, hd, cont, proj]

/-! ### 5. the T2 quality layers (`apply_quality`) -/

section quality
open Clem.Quality

/-- every layer of `apply_quality` is protected in the current source -/
theorem C20_quality_table : ∀ s ∈ allQSites, qGuardOf s = true := by decide

/-- every failure of the script is at a layer that `g` protects -/
structure QFailsOnlyAt (g : QSite → Bool) (e : QEnv) : Prop where
  rerank : ∀ l x, e.rerank l = .error x → g .rerank = true
  fuse : ∀ l x, e.fuse l = .error x → g .fuse = true
  mmr : ∀ l x, e.mmr l = .error x → g .mmr = true
  mmrFallback : ∀ l x, e.mmrFallback l = .error x → g .mmrFallback = true
  cfgSnap : ∀ x, e.cfgSnap = .error x → g .cfgSnap = true
  trace : ∀ x, e.trace = .error x → g .trace = true

/-- `apply_quality` never raises, whatever its layers do (any subset failing, any exceptions, any input). -/
theorem C20_quality_total (g : QSite → Bool) (c : QCfg) (e : QEnv) (r : List Nat) (h : QFailsOnlyAt g e) :
    ∃ out, applyQuality g c e r = .ok out := by
  have h1 : ∃ p, hybridStep g c e r = .ok p := by
    unfold hybridStep
    split
    · cases hr : e.rerank r with
      | ok p => exact ⟨_, rfl⟩
      | error x => simp [h.rerank r x hr]
    · exact ⟨_, rfl⟩
  obtain ⟨⟨r1, hu⟩, h1⟩ := h1
  have h2 : ∃ p, fusionStep g c e r1 = .ok p := by
    unfold fusionStep
    split
    · cases hf : e.fuse r1 with
      | error x => simp [h.fuse r1 x hf]
      | ok fused =>
        simp only []
        split
        · cases hm : e.mmr fused with
          | error x => simp [h.mmr fused x hm]
          | ok mm => exact ⟨_, rfl⟩
        · exact ⟨_, rfl⟩
    · exact ⟨_, rfl⟩
  obtain ⟨⟨r2, fu, mu, n⟩, h2⟩ := h2
  have h3 : ∃ p, fallbackStep g c e r2 mu n = .ok p := by
    unfold fallbackStep
    split
    · cases hm : e.mmrFallback r2 with
      | error x => simp [h.mmrFallback r2 x hm]
      | ok mm => exact ⟨_, rfl⟩
    · exact ⟨_, rfl⟩
  obtain ⟨⟨r3, mu', n'⟩, h3⟩ := h3
  have h4 : traceStep g c e = .ok () := by
    unfold traceStep
    split
    · cases hc : e.cfgSnap with
      | error x => simp [h.cfgSnap x hc]
      | ok u =>
        cases ht : e.trace with
        | error x => simp [h.trace x ht]
        | ok u => rfl
    · rfl
  exact ⟨⟨r3, hu, fu, mu', n'⟩, by simp only [applyQuality, h1, h2, h3, h4]⟩

/-- for the current source: the declared layers are protected, so the theorem applies to any script -/
theorem C20_quality_total_current (c : QCfg) (e : QEnv) (r : List Nat) : ∃ out, applyQuality qGuardOf c e r = .ok out :=
  C20_quality_total qGuardOf c e r
    { rerank := fun _ _ _ => by decide, fuse := fun _ _ _ => by decide, mmr := fun _ _ _ => by decide,
      mmrFallback := fun _ _ _ => by decide, cfgSnap := fun _ _ => by decide, trace := fun _ _ => by decide }

/-- hybrid rerank failing = hybrid switched off -/
theorem C20_quality_rerank_fail_eq_off (g : QSite → Bool) (c : QCfg) (e : QEnv) (r : List Nat) (x : Quality.Exc)
    (hf : e.rerank r = .error x) (hg : g .rerank = true) :
    applyQuality g c e r = applyQuality g { c with hybridOn := false } e r := by
  have : hybridStep g c e r = hybridStep g { c with hybridOn := false } e r := by
    simp [hybridStep, hf, hg]
  simp only [applyQuality, this]
  rfl

/-- fusion failing = quality fusion switched off (the MMR fallback still runs on the unfused order) -/
theorem C20_quality_fuse_fail_eq_off (g : QSite → Bool) (c : QCfg) (e : QEnv) (r : List Nat)
    (hf : ∀ l, ∃ x, e.fuse l = .error x) (hg : g .fuse = true) :
    applyQuality g c e r = applyQuality g { c with qualityOn := false } e r := by
  have hfs : ∀ l, fusionStep g c e l = fusionStep g { c with qualityOn := false } e l := by
    intro l
    obtain ⟨x, hx⟩ := hf l
    simp [fusionStep, hx, hg]
  have hts : traceStep g c e = traceStep g { c with qualityOn := false } e := rfl
  have hhs : hybridStep g c e r = hybridStep g { c with qualityOn := false } e r := rfl
  simp only [applyQuality, hhs, hfs, hts]
  rfl

/-- shadow trace failing (config snapshot or emit) = tracing switched off -/
theorem C20_quality_trace_fail_eq_off (g : QSite → Bool) (c : QCfg) (e : QEnv) (r : List Nat)
    (hf : (∃ x, e.cfgSnap = .error x) ∨ ((∃ u, e.cfgSnap = .ok u) ∧ ∃ x, e.trace = .error x))
    (hg1 : g .cfgSnap = true) (hg2 : g .trace = true) :
    applyQuality g c e r = applyQuality g { c with traceGate := false } e r := by
  have hts : traceStep g c e = traceStep g { c with traceGate := false } e := by
    rcases hf with ⟨x, hx⟩ | ⟨⟨u, hu⟩, x, hx⟩
    · simp [traceStep, hx, hg1]
    · simp [traceStep, hu, hx, hg2]
  simp only [applyQuality, hts]
  rfl

/-- MMR fallback failing (with fusion off) = MMR switched off -/
theorem C20_quality_mmr_fallback_fail_eq_off (g : QSite → Bool) (c : QCfg) (e : QEnv) (r : List Nat)
    (hq : c.qualityOn = false) (hf : ∀ l, ∃ x, e.mmrFallback l = .error x) (hg : g .mmrFallback = true) :
    applyQuality g c e r = applyQuality g { c with mmrOn := false } e r := by
  have hfs : ∀ l, fusionStep g c e l = .ok (l, false, false, 0) := by intro l; simp [fusionStep, hq]
  have hfs' : ∀ l, fusionStep g { c with mmrOn := false } e l = .ok (l, false, false, 0) := by
    intro l; simp [fusionStep, hq]
  have hfb : ∀ l, fallbackStep g c e l false 0 = fallbackStep g { c with mmrOn := false } e l false 0 := by
    intro l
    obtain ⟨x, hx⟩ := hf l
    simp [fallbackStep, hx, hg]
  have hhs : hybridStep g c e r = hybridStep g { c with mmrOn := false } e r := rfl
  have hts : traceStep g c e = traceStep g { c with mmrOn := false } e := rfl
  simp only [applyQuality, hhs, hfs, hfs', hfb, hts]

/-- non-vacuity: all six layers fail at once -/
def qEnvAllFail : QEnv :=
  { rerank := fun _ => .error 1, fuse := fun _ => .error 2, mmr := fun _ => .error 3, mmrFallback := fun _ => .error 4,
    cfgSnap := .error 5, trace := .error 6 }

example : okIs (applyQuality qGuardOf ⟨true, true, true, true⟩ qEnvAllFail [3, 1, 2]) ⟨[3, 1, 2], false, false, false, 0⟩ = true := by
  decide

/-- MMR failing (inside the fusion block and in the fallback) = MMR switched off: the fused order and the
fusion flag/metrics are those of the run without MMR.  (Holds for the code after the proposed fix
`proposed_fixes/C20_mmr_failure_keeps_fusion.diff`; before it the failing run reported `q_fusion_used = false`
while keeping the fused order — failing input in `corpus/C20`.) -/
theorem C20_quality_mmr_fail_eq_off (g : QSite → Bool) (c : QCfg) (e : QEnv) (r : List Nat)
    (hf1 : ∀ l, ∃ x, e.mmr l = .error x) (hf2 : ∀ l, ∃ x, e.mmrFallback l = .error x)
    (hg1 : g .mmr = true) (hg2 : g .mmrFallback = true) :
    applyQuality g c e r = applyQuality g { c with mmrOn := false } e r := by
  have hhs : hybridStep g c e r = hybridStep g { c with mmrOn := false } e r := rfl
  have hts : traceStep g c e = traceStep g { c with mmrOn := false } e := rfl
  have hfs : ∀ l, fusionStep g c e l = fusionStep g { c with mmrOn := false } e l := by
    intro l
    unfold fusionStep
    split
    · cases hfu : e.fuse l with
      | error x => rfl
      | ok fused =>
        obtain ⟨x, hx⟩ := hf1 fused
        by_cases hm : c.mmrOn = true
        · simp [hm, hx]
        · simp [hm]
    · rfl
  have hfb : ∀ l mu n, mu = false → fallbackStep g c e l mu n = fallbackStep g { c with mmrOn := false } e l mu n := by
    intro l mu n hmu
    obtain ⟨x, hx⟩ := hf2 l
    subst hmu
    by_cases hm : c.mmrOn = true
    · simp [fallbackStep, hm, hx, hg2]
    · simp [fallbackStep, hm]
  simp only [applyQuality, hhs, ← hfs, hts]
  cases h1 : hybridStep g { c with mmrOn := false } e r with
  | error x => rfl
  | ok p =>
    obtain ⟨r1, hu⟩ := p
    simp only []
    cases h2 : fusionStep g c e r1 with
    | error x => rfl
    | ok q =>
      obtain ⟨r2, fu, mu, n⟩ := q
      have hmu : mu = false := by
        unfold fusionStep at h2
        split at h2
        · cases hfu : e.fuse r1 with
          | error x =>
            rw [hfu] at h2
            simp only [] at h2
            split at h2
            · simp only [Except.ok.injEq, Prod.mk.injEq] at h2; exact h2.2.2.1.symm
            · cases h2
          | ok fused =>
            rw [hfu] at h2
            obtain ⟨x, hx⟩ := hf1 fused
            simp only [hx] at h2
            split at h2 <;> simp only [Except.ok.injEq, Prod.mk.injEq] at h2 <;> exact h2.2.2.1.symm
        · simp only [Except.ok.injEq, Prod.mk.injEq] at h2; exact h2.2.2.1.symm
      simp only [hfb r2 mu n hmu]

end quality

end Clem.Props.C20
