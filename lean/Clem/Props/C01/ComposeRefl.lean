/-
# C01 (composition) — the reflection tail inside the composed turn: C19's gate, ops cap and isolation

The composed turn (`Clem/Model/Compose.lean`) runs C19's `Clem.Refl.tail` (repaired tail, fresh ctx per turn) on the
turn's own utterance and the texts of the hits T2 returned — but only when the turn runs to the end (a yielded turn
returns before the tail; a dry run returns after T4).  Its only effects in the model are the `t3_reflection` record
and the count of written episodes (`State.memN`).
-/
import Clem.Proofs.Compose
import Clem.Props.C19

set_option linter.unusedSectionVars false

namespace Clem.Compose

section AnyCarrier
variable {α : Type} [Clem.T1.Num α] [Clem.T2.Num α] [Clem.T3.PyOrd α] [Clem.Py.Num α] [Clem.Py.NumGel α]
variable (w : World α) (c : Cfg α)

theorem runTurn_refl (s : State α) (t : TurnIn α) (o : Oracles α) :
    (runTurn w c s t o).refl = reflOut w c s t o := rfl

/-- What reflection is handed: this turn's (sanitised) utterance and the text of every hit T2 returned, in order. -/
theorem C01_compose_refl_inputs (s : State α) (t : TurnIn α) (o : Oracles α) :
    (reflIn w c s t o).utter = (runTurn w c s t o).utter ∧
    (reflIn w c s t o).items = (runTurn w c s t o).t2.retrieved.map (·.text) ∧
    (reflIn w c s t o).dry = t.dryRun ∧ (reflIn w c s t o).cfg = c.refl := ⟨rfl, rfl, rfl, rfl⟩

/-- **C19, gate.**  In every turn of every history: if reflection is not allowed, or nobody requested it (the stock
planner never does; the stashed flag is off), or the turn is a dry run, or the turn yielded — then `reflect` is not
called, nothing is handed to the memory index and no `t3_reflection` record is written. -/
theorem C01_compose_refl_gate (s : State α) (ts : List (TurnIn α × Oracles α)) :
    ∀ o ∈ (runTurns w c s ts).outs,
      (c.refl.allow = false ∨ w.reflFlag = false ∨ o.yielded.isSome = true) →
      o.refl.called = false ∧ o.refl.written = [] ∧ o.refl.log = none := by
  intro o ho hg
  obtain ⟨s', t, _, rfl⟩ := mem_outs w c ho
  rw [runTurn_refl]
  unfold reflOut
  rw [runTurn_yielded] at hg
  split
  · exact ⟨rfl, rfl, rfl⟩
  · rename_i hy
    have hclosed : Clem.Refl.gateOpen (reflIn w c s' t.1 t.2) = false := by
      unfold Clem.Refl.gateOpen reflIn
      rcases hg with h | h | h
      · simp [h]
      · simp [h]
      · exact absurd h hy
    exact Clem.Refl.C19_gate _ _ _ hclosed

/-- a dry run never reaches the tail's compute step either -/
theorem C01_compose_refl_dry (s : State α) (t : TurnIn α) (o : Oracles α) (hd : t.dryRun = true) :
    (runTurn w c s t o).refl.called = false ∧ (runTurn w c s t o).refl.written = [] ∧
    (runTurn w c s t o).refl.log = none := by
  rw [runTurn_refl]
  unfold reflOut
  split
  · exact ⟨rfl, rfl, rfl⟩
  · have hclosed : Clem.Refl.gateOpen (reflIn w c s t o) = false := by
      unfold Clem.Refl.gateOpen reflIn; simp [hd]
    exact Clem.Refl.C19_gate _ _ _ hclosed

/-- **C19, ops cap.**  In every turn of every history at most `max 0 ops_reflection` episodes (none when the cap is
null) are handed to the memory index; hence the index grows by at most that much per turn. -/
theorem C01_compose_refl_ops_cap (s : State α) (ts : List (TurnIn α × Oracles α)) :
    ∀ o ∈ (runTurns w c s ts).outs, o.refl.written.length ≤ Clem.Refl.capNat c.refl.opsCap := by
  intro o ho
  obtain ⟨s', t, _, rfl⟩ := mem_outs w c ho
  rw [runTurn_refl]
  unfold reflOut
  split
  · simp [Clem.Refl.notReached]
  · exact Clem.Refl.C19_ops_cap true _ (reflIn w c s' t.1 t.2) reflOrc

theorem C01_compose_refl_memory_growth (s : State α) (t : TurnIn α) (o : Oracles α) :
    (runTurn w c s t o).state.memN = s.memN + (runTurn w c s t o).refl.written.length ∧
    (runTurn w c s t o).state.memN ≤ s.memN + Clem.Refl.capNat c.refl.opsCap := by
  have h : (runTurn w c s t o).state.memN = s.memN + (reflOut w c s t o).written.length := rfl
  refine ⟨h, ?_⟩
  rw [h]
  have : (reflOut w c s t o).written.length ≤ Clem.Refl.capNat c.refl.opsCap := by
    unfold reflOut
    split
    · simp [Clem.Refl.notReached]
    · exact Clem.Refl.C19_ops_cap true _ (reflIn w c s t o) reflOrc
  omega

/-- **C19, isolation (in the composed model).**  Two configurations that differ only in the reflection settings
(`refl`) give, for the same state / turn / oracles, the same stage results, records other than `t3_reflection`,
store hand-off, line and next state up to `memN`: nothing but `refl` and `memN` depends on `c.refl`. -/
theorem C01_compose_refl_isolation (s : State α) (t : TurnIn α) (o : Oracles α) (r' : Clem.Refl.Cfg) :
    let a := runTurn w c s t o
    let b := runTurn w { c with refl := r' } s t o
    a.t1 = b.t1 ∧ a.t2 = b.t2 ∧ a.ops = b.ops ∧ a.t4 = b.t4 ∧ a.apply = b.apply ∧ a.storeCalls = b.storeCalls ∧
    a.line = b.line ∧ a.yielded = b.yielded ∧ a.gelObs = b.gelObs ∧ a.gelTick = b.gelTick ∧
    a.state.w = b.state.w ∧ a.state.ver = b.state.ver ∧ a.state.gel = b.state.gel ∧ a.state.orch = b.state.orch ∧
    a.state.t1c = b.state.t1c :=
  ⟨rfl, rfl, rfl, rfl, rfl, rfl, rfl, rfl, rfl, rfl, rfl, rfl, rfl, rfl, rfl⟩

end AnyCarrier

end Clem.Compose
