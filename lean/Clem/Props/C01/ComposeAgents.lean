/-
# C01 (composition) — several agents alternating on one state

`runTurnsMA` folds turns whose ctx carries different agent ids (`TurnIn.agent`) over ONE state: the store, the
version, the GEL store, the memory index and the caches are shared; the agent id reaches T2's owner scope, the
reflection entry ids, the snapshot's `agent` field / file name and every record.  Each turn of such a history IS a
composed turn of the world with that agent (`wFor`), started in a state reachable by the turns before it — so every
per-turn theorem of the composition applies verbatim.

Since the fix `C05_turn_key_context` the orchestrator's turn-level T2 cache key digests the turn's agent (with the
ids T1 touched, the memory index version and — hybrid on — the GEL edges): an entry stored by agent A's turn is never
served to agent B.  `C01_compose_agents_scope_cached` is the positive statement, cache ON included (on the tree before
the fix B was served A's hits — C05's findings `turn:agent` / `turn:owner_scope`).
-/
import Clem.Proofs.Compose
import Clem.Props.C01.ComposeSnap
import Clem.Props.C01.ComposeMemory

set_option linter.unusedSectionVars false
set_option linter.unusedVariables false

namespace Clem.Compose

section AnyCarrier
variable {α : Type} [Clem.T1.Num α] [Clem.T2.Num α] [Clem.T3.PyOrd α] [Clem.Py.Num α] [Clem.Py.NumGel α]
variable (w : World α) (c : Cfg α)

theorem wFor_none (t : TurnIn α) (h : t.agent = none) : wFor w t = w := by
  unfold wFor; rw [h]

theorem wFor_shared (t : TurnIn α) :
    (wFor w t).graphs = w.graphs ∧ (wFor w t).eps = w.eps ∧ (wFor w t).last = w.last ∧
    (wFor w t).reflFlag = w.reflFlag ∧ (wFor w t).agent = t.agent.getD w.agent := by
  unfold wFor
  cases t.agent <;> exact ⟨rfl, rfl, rfl, rfl, rfl⟩

theorem foldl_stepHistMA (ts : List (TurnIn α × Oracles α)) :
    ∀ h : Hist α, ts.foldl (stepHistMA w c) h =
      ⟨h.outs ++ (ts.foldl (stepHistMA w c) ⟨[], h.state⟩).outs, (ts.foldl (stepHistMA w c) ⟨[], h.state⟩).state⟩ := by
  induction ts with
  | nil => intro h; simp
  | cons t r ih =>
    intro h
    simp only [List.foldl_cons]
    rw [ih (stepHistMA w c h t), ih (stepHistMA w c ⟨[], h.state⟩ t)]
    simp [stepHistMA, List.append_assoc]

theorem runTurnsMA_nil (s : State α) : runTurnsMA w c s [] = ⟨[], s⟩ := rfl

theorem runTurnsMA_cons (s : State α) (t : TurnIn α × Oracles α) (ts : List (TurnIn α × Oracles α)) :
    runTurnsMA w c s (t :: ts) =
      ⟨runTurn (wFor w t.1) c s t.1 t.2 :: (runTurnsMA w c (runTurn (wFor w t.1) c s t.1 t.2).state ts).outs,
       (runTurnsMA w c (runTurn (wFor w t.1) c s t.1 t.2).state ts).state⟩ := by
  show ts.foldl (stepHistMA w c) (stepHistMA w c ⟨[], s⟩ t) = _
  rw [foldl_stepHistMA]
  simp [stepHistMA, runTurnsMA]

/-- **one agent = the single-agent history**: when no turn names another agent, `runTurnsMA` is `runTurns` — every
theorem about `runTurns` is a theorem about these histories -/
theorem C01_compose_agents_single (ts : List (TurnIn α × Oracles α)) (h : ∀ t ∈ ts, t.1.agent = none) :
    ∀ s : State α, runTurnsMA w c s ts = runTurns w c s ts := by
  induction ts with
  | nil => intro s; rfl
  | cons t r ih =>
    intro s
    rw [runTurnsMA_cons, runTurns_cons, wFor_none w t.1 (h t (by simp))]
    rw [ih (fun t' ht' => h t' (List.mem_cons_of_mem _ ht'))]

/-- **each turn is a composed turn of its own agent's world** on a state the earlier turns (of whatever agents)
produced; the final state is the last turn's -/
theorem C01_compose_agents_step (ts : List (TurnIn α × Oracles α)) :
    ∀ (s : State α) (o : TurnOut α), o ∈ (runTurnsMA w c s ts).outs →
      ∃ (s' : State α) (t : TurnIn α × Oracles α), t ∈ ts ∧ o = runTurn (wFor w t.1) c s' t.1 t.2 := by
  induction ts with
  | nil => intro s o h; simp [runTurnsMA_nil] at h
  | cons t r ih =>
    intro s o h
    rw [runTurnsMA_cons] at h
    simp only [List.mem_cons] at h
    rcases h with h | h
    · exact ⟨s, t, by simp, h⟩
    · obtain ⟨s', t', ht', ho⟩ := ih _ o h
      exact ⟨s', t', List.mem_cons_of_mem _ ht', ho⟩

/-- **owner scope follows the turn's agent** (orchestrator cache off, `k_retrieval ≥ 1`): under
`owner_scope = agent` every hit of a turn is owned by the agent of THAT turn, whoever ran the turns before; every hit
is visible under that agent's scope. -/
theorem C01_compose_agents_scope (s : State α) (ts : List (TurnIn α × Oracles α)) (hk : 1 ≤ c.k)
    (hc : c.orchCacheOn = false) :
    ∀ o ∈ (runTurnsMA w c s ts).outs, ∃ t ∈ ts,
      (∀ e ∈ o.t2.retrieved,
        Clem.T2.visible (Clem.T2.ownerForQuery c.scope (some (t.1.agent.getD w.agent))) e = true) ∧
      (c.scope = 1 → ∀ e ∈ o.t2.retrieved, e.owner = .str (t.1.agent.getD w.agent)) := by
  intro o ho
  obtain ⟨s', t, ht, rfl⟩ := C01_compose_agents_step w c ts s o ho
  refine ⟨t, ht, ?_⟩
  have hv := C01_compose_memory_visible (wFor w t.1) c s' [] t.1 t.2 hk hc
  rw [runTurns_nil] at hv
  have hag := (wFor_shared w t.1).2.2.2.2
  constructor
  · intro e he
    have := (hv e he).2.1
    rw [hag] at this
    exact this
  · intro hs e he
    have := (hv e he).2.1
    rw [hag] at this
    unfold Clem.T2.visible Clem.T2.ownerForQuery at this
    simp [hs] at this
    exact this

/-- **per-agent snapshot**: the body a turn writes names that turn's agent (the file is `state_<that agent>.json`) and
the version / weights of the SHARED state after the turn -/
theorem C01_compose_agents_snapshot (s : State α) (ts : List (TurnIn α × Oracles α)) :
    ∀ o ∈ (runTurnsMA w c s ts).outs, ∀ b, o.snapBody = some b → ∃ t ∈ ts, ∃ kv, b = .obj kv ∧
      Clem.Py.JV.getD Clem.Snap.kAgent .null kv = .str (t.1.agent.getD w.agent) ∧
      Clem.Py.JV.aget Clem.Snap.kStore kv = some (Clem.Snap.exportStore (wToStore o.state.w)) := by
  intro o ho b hb
  obtain ⟨s', t, ht, rfl⟩ := C01_compose_agents_step w c ts s o ho
  obtain ⟨kv, hkv, _, _, _, _, _, hag, hst⟩ := C01_compose_snap_body (wFor w t.1) c s' t.1 t.2 b hb
  refine ⟨t, ht, kv, hkv, ?_, ?_⟩
  · rw [hag, (wFor_shared w t.1).2.2.2.2]
  · rw [hst, runTurn_state]

/-! ### the orchestrator cache keeps the agents apart (cache ON) -/

/-- `x` is the T2 model's answer for agent `a` (some oracles, some memory), or the empty answer -/
def T2GoodA (a : Str) (x : Clem.T2.Out α) : Prop :=
  x = emptyT2 c ∨ ∃ (o : Oracles α) (qo : QOracle α) (h : Clem.T2.HCfg α) (q : Clem.T2.QCfg α)
      (mem : List Clem.Refl.Written),
    x = Clem.T2.t2 (t2Cfg { w with agent := a } c o qo) c.tiers (withCos (epsAt w mem o) qo.cos) h q (t2K c)
          c.residualCap (gnodes w)

/-- every entry of the orchestrator's cache was computed for the agent its key names -/
def GoodStateA (s : State α) : Prop := ∀ e ∈ s.orch, T2GoodA w c e.1.2.agent e.2

theorem wFor_t2 (t : TurnIn α) (o : Oracles α) (qo : QOracle α) (mem : List Clem.Refl.Written) :
    t2Cfg (wFor w t) c o qo = t2Cfg { w with agent := (wFor w t).agent } c o qo ∧
    epsAt (wFor w t) mem o = epsAt w mem o ∧ gnodes (wFor w t) = gnodes w := by
  unfold wFor
  cases t.agent <;> exact ⟨rfl, rfl, rfl⟩

theorem fresh_goodA (t : TurnIn α) (o : Oracles α) (g : Clem.Gel.State α) (q : Str) (mem : List Clem.Refl.Written) :
    T2GoodA w c (wFor w t).agent ((t2Call (wFor w t) c o g q mem).getD (emptyT2 c)) := by
  unfold t2Call
  split
  · left; rfl
  · rename_i qo _
    right
    refine ⟨o, qo, hybOf c g, qualOf c qo, mem, ?_⟩
    simp only [Option.getD_some]
    rw [(wFor_t2 w c t o qo mem).1, (wFor_t2 w c t o qo mem).2.1, (wFor_t2 w c t o qo mem).2.2]

theorem t2Stage_goodA (s : State α) (t : TurnIn α) (o : Oracles α) (hs : GoodStateA w c s) :
    T2GoodA w c (wFor w t).agent (t2Stage (wFor w t) c s t o).out ∧
    ∀ e ∈ (t2Stage (wFor w t) c s t o).orch, T2GoodA w c e.1.2.agent e.2 := by
  unfold t2Stage
  dsimp only
  split
  · split
    · rename_i e he
      have hmem := List.mem_of_find?_eq_some he
      have hk := List.find?_some he
      unfold okeyEq at hk
      simp only [Bool.and_eq_true] at hk
      have hag : e.1.2.agent = (wFor w t).agent := by
        have := hk.1.1.1.2
        simpa [orchKey] using this
      refine ⟨?_, hs⟩
      rw [← hag]
      exact hs e hmem
    · refine ⟨fresh_goodA w c t o _ _ _, ?_⟩
      intro e he
      rcases List.mem_append.1 he with h | h
      · exact hs e h
      · rw [List.mem_singleton] at h
        rw [h]
        exact fresh_goodA w c t o _ _ _
  · exact ⟨fresh_goodA w c t o _ _ _, hs⟩

theorem nextState_goodA (s : State α) (t : TurnIn α) (o : Oracles α) (hs : GoodStateA w c s) :
    GoodStateA w c (nextState (wFor w t) c s t o) := by
  intro e he
  have he' : e ∈ orchNext (wFor w t) c s t o := he
  unfold orchNext at he'
  split at he'
  · exact hs e he'
  · split at he'
    · cases he'
    · exact (t2Stage_goodA w c s t o hs).2 e he'

/-- every turn of a multi-agent history runs on a state whose cache entries are all labelled with the right agent -/
theorem agents_step_good (ts : List (TurnIn α × Oracles α)) :
    ∀ (s : State α), GoodStateA w c s → ∀ o ∈ (runTurnsMA w c s ts).outs,
      ∃ (s' : State α) (t : TurnIn α × Oracles α), t ∈ ts ∧ GoodStateA w c s' ∧
        o = runTurn (wFor w t.1) c s' t.1 t.2 := by
  induction ts with
  | nil => intro s _ o h; simp [runTurnsMA_nil] at h
  | cons t r ih =>
    intro s hs o h
    rw [runTurnsMA_cons] at h
    simp only [List.mem_cons] at h
    rcases h with h | h
    · exact ⟨s, t, by simp, hs, h⟩
    · have hn : GoodStateA w c (runTurn (wFor w t.1) c s t.1 t.2).state := by
        rw [runTurn_state]; exact nextState_goodA w c s t.1 t.2 hs
      obtain ⟨s', t', ht', hg', ho⟩ := ih _ hn o h
      exact ⟨s', t', List.mem_cons_of_mem _ ht', hg', ho⟩

/-- **owner scope follows the turn's agent — orchestrator cache ON included.**  In every multi-agent history started
with an empty (or correctly labelled) turn-level cache, whatever `t4.cache` says: every hit of a turn is visible under
THAT turn's agent's owner scope, and under `owner_scope = agent` it is owned by that agent — a result cached by
another agent's turn is never served (the key digests the agent: fix `C05_turn_key_context`). -/
theorem C01_compose_agents_scope_cached (s : State α) (ts : List (TurnIn α × Oracles α)) (hk : 1 ≤ c.k)
    (hs : GoodStateA w c s) :
    ∀ o ∈ (runTurnsMA w c s ts).outs, ∃ t ∈ ts,
      (∀ e ∈ o.t2.retrieved,
        Clem.T2.visible (Clem.T2.ownerForQuery c.scope (some (t.1.agent.getD w.agent))) e = true) ∧
      (c.scope = 1 → ∀ e ∈ o.t2.retrieved, e.owner = .str (t.1.agent.getD w.agent)) := by
  intro o ho
  obtain ⟨s', t, ht, hg, rfl⟩ := agents_step_good w c ts s hs o ho
  refine ⟨t, ht, ?_⟩
  have hag := (wFor_shared w t.1).2.2.2.2
  rw [runTurn_t2]
  have hgood := (t2Stage_goodA w c s' t.1 t.2 hg).1
  have hvis : ∀ e ∈ (t2Of (wFor w t.1) c s' t.1 t.2).retrieved,
      Clem.T2.visible (Clem.T2.ownerForQuery c.scope (some (t.1.agent.getD w.agent))) e = true := by
    intro e he
    rcases hgood with h0 | ⟨o', qo, hh, qq, mem', h0⟩
    · have : t2Of (wFor w t.1) c s' t.1 t.2 = emptyT2 c := h0
      rw [this] at he; cases he
    · have h0' : t2Of (wFor w t.1) c s' t.1 t.2 = _ := h0
      rw [h0'] at he
      have h := Clem.T2.C11_t2_retrieved (t2Cfg { w with agent := (wFor w t.1).agent } c o' qo) c.tiers
        (withCos (epsAt w mem' o') qo.cos) hh qq (t2K c) c.residualCap (gnodes w) hk
      have hv := (h.2.2 e he).2.1
      have hv' : Clem.T2.visible (Clem.T2.ownerForQuery c.scope (some (wFor w t.1).agent)) e = true := hv
      rw [hag] at hv'
      exact hv'
  refine ⟨hvis, ?_⟩
  intro hsc e he
  have := hvis e he
  unfold Clem.T2.visible Clem.T2.ownerForQuery at this
  simp [hsc] at this
  exact this

theorem goodStateA_of_empty (s : State α) (h : s.orch = []) : GoodStateA w c s := by
  intro e he; rw [h] at he; cases he

end AnyCarrier


end Clem.Compose
