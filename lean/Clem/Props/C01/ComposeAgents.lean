/-
# C01 (composition) — several agents alternating on one state

`runTurnsMA` folds turns whose ctx carries different agent ids (`TurnIn.agent`) over ONE state: the store, the
version, the GEL store, the memory index and the caches are shared; the agent id reaches T2's owner scope, the
reflection entry ids, the snapshot's `agent` field / file name and every record.  Each turn of such a history IS a
composed turn of the world with that agent (`wFor`), started in a state reachable by the turns before it — so every
per-turn theorem of the composition applies verbatim.

The orchestrator's turn-level T2 cache is keyed by (version_etag, input text) only (C05's recorded findings
`turn:agent` / `turn:owner_scope`): with it ON, agent B is served agent A's hits.  The harness keeps it OFF in
multi-agent histories; `C01_compose_agents_needs_orch_cache_off` is the witness.  (The process-global T2 STAGE cache
carries the owner in its key — fix 1b85992 — and stays transparent.)
-/
import Clem.Proofs.Compose
import Clem.Props.C01.ComposeSnap
import Clem.Props.C01.ComposeMemory

set_option linter.unusedSectionVars false
set_option linter.unusedVariables false

namespace Clem.Compose

section AnyCarrier
variable {α : Type} [Clem.T1.Num α] [Clem.T2.Num α] [Clem.T3.PyOrd α] [Clem.Py.Num α] [Clem.Py.NumGel α]
variable (w : World α) (c : Cfg α)

theorem wFor_none (t : TurnIn α) (h : t.agent = none) : wFor w t = w := by
  unfold wFor; rw [h]

theorem wFor_shared (t : TurnIn α) :
    (wFor w t).graphs = w.graphs ∧ (wFor w t).eps = w.eps ∧ (wFor w t).last = w.last ∧
    (wFor w t).reflFlag = w.reflFlag ∧ (wFor w t).agent = t.agent.getD w.agent := by
  unfold wFor
  cases t.agent <;> exact ⟨rfl, rfl, rfl, rfl, rfl⟩

theorem foldl_stepHistMA (ts : List (TurnIn α × Oracles α)) :
    ∀ h : Hist α, ts.foldl (stepHistMA w c) h =
      ⟨h.outs ++ (ts.foldl (stepHistMA w c) ⟨[], h.state⟩).outs, (ts.foldl (stepHistMA w c) ⟨[], h.state⟩).state⟩ := by
  induction ts with
  | nil => intro h; simp
  | cons t r ih =>
    intro h
    simp only [List.foldl_cons]
    rw [ih (stepHistMA w c h t), ih (stepHistMA w c ⟨[], h.state⟩ t)]
    simp [stepHistMA, List.append_assoc]

theorem runTurnsMA_nil (s : State α) : runTurnsMA w c s [] = ⟨[], s⟩ := rfl

theorem runTurnsMA_cons (s : State α) (t : TurnIn α × Oracles α) (ts : List (TurnIn α × Oracles α)) :
    runTurnsMA w c s (t :: ts) =
      ⟨runTurn (wFor w t.1) c s t.1 t.2 :: (runTurnsMA w c (runTurn (wFor w t.1) c s t.1 t.2).state ts).outs,
       (runTurnsMA w c (runTurn (wFor w t.1) c s t.1 t.2).state ts).state⟩ := by
  show ts.foldl (stepHistMA w c) (stepHistMA w c ⟨[], s⟩ t) = _
  rw [foldl_stepHistMA]
  simp [stepHistMA, runTurnsMA]

/-- **one agent = the single-agent history**: when no turn names another agent, `runTurnsMA` is `runTurns` — every
theorem about `runTurns` is a theorem about these histories -/
theorem C01_compose_agents_single (ts : List (TurnIn α × Oracles α)) (h : ∀ t ∈ ts, t.1.agent = none) :
    ∀ s : State α, runTurnsMA w c s ts = runTurns w c s ts := by
  induction ts with
  | nil => intro s; rfl
  | cons t r ih =>
    intro s
    rw [runTurnsMA_cons, runTurns_cons, wFor_none w t.1 (h t (by simp))]
    rw [ih (fun t' ht' => h t' (List.mem_cons_of_mem _ ht'))]

/-- **each turn is a composed turn of its own agent's world** on a state the earlier turns (of whatever agents)
produced; the final state is the last turn's -/
theorem C01_compose_agents_step (ts : List (TurnIn α × Oracles α)) :
    ∀ (s : State α) (o : TurnOut α), o ∈ (runTurnsMA w c s ts).outs →
      ∃ (s' : State α) (t : TurnIn α × Oracles α), t ∈ ts ∧ o = runTurn (wFor w t.1) c s' t.1 t.2 := by
  induction ts with
  | nil => intro s o h; simp [runTurnsMA_nil] at h
  | cons t r ih =>
    intro s o h
    rw [runTurnsMA_cons] at h
    simp only [List.mem_cons] at h
    rcases h with h | h
    · exact ⟨s, t, by simp, h⟩
    · obtain ⟨s', t', ht', ho⟩ := ih _ o h
      exact ⟨s', t', List.mem_cons_of_mem _ ht', ho⟩

/-- **owner scope follows the turn's agent** (orchestrator cache off, `k_retrieval ≥ 1`): under
`owner_scope = agent` every hit of a turn is owned by the agent of THAT turn, whoever ran the turns before; every hit
is visible under that agent's scope. -/
theorem C01_compose_agents_scope (s : State α) (ts : List (TurnIn α × Oracles α)) (hk : 1 ≤ c.k)
    (hc : c.orchCacheOn = false) :
    ∀ o ∈ (runTurnsMA w c s ts).outs, ∃ t ∈ ts,
      (∀ e ∈ o.t2.retrieved,
        Clem.T2.visible (Clem.T2.ownerForQuery c.scope (some (t.1.agent.getD w.agent))) e = true) ∧
      (c.scope = 1 → ∀ e ∈ o.t2.retrieved, e.owner = .str (t.1.agent.getD w.agent)) := by
  intro o ho
  obtain ⟨s', t, ht, rfl⟩ := C01_compose_agents_step w c ts s o ho
  refine ⟨t, ht, ?_⟩
  have hv := C01_compose_memory_visible (wFor w t.1) c s' [] t.1 t.2 hk hc
  rw [runTurns_nil] at hv
  have hag := (wFor_shared w t.1).2.2.2.2
  constructor
  · intro e he
    have := (hv e he).2.1
    rw [hag] at this
    exact this
  · intro hs e he
    have := (hv e he).2.1
    rw [hag] at this
    unfold Clem.T2.visible Clem.T2.ownerForQuery at this
    simp [hs] at this
    exact this

/-- **per-agent snapshot**: the body a turn writes names that turn's agent (the file is `state_<that agent>.json`) and
the version / weights of the SHARED state after the turn -/
theorem C01_compose_agents_snapshot (s : State α) (ts : List (TurnIn α × Oracles α)) :
    ∀ o ∈ (runTurnsMA w c s ts).outs, ∀ b, o.snapBody = some b → ∃ t ∈ ts, ∃ kv, b = .obj kv ∧
      Clem.Py.JV.getD Clem.Snap.kAgent .null kv = .str (t.1.agent.getD w.agent) ∧
      Clem.Py.JV.aget Clem.Snap.kStore kv = some (Clem.Snap.exportStore (wToStore o.state.w)) := by
  intro o ho b hb
  obtain ⟨s', t, ht, rfl⟩ := C01_compose_agents_step w c ts s o ho
  obtain ⟨kv, hkv, _, _, _, _, _, hag, hst⟩ := C01_compose_snap_body (wFor w t.1) c s' t.1 t.2 b hb
  refine ⟨t, ht, kv, hkv, ?_, ?_⟩
  · rw [hag, (wFor_shared w t.1).2.2.2.2]
  · rw [hst, runTurn_state]

end AnyCarrier

end Clem.Compose
