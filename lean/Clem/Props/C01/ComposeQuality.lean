/-
# C01 (composition) — the T2 rerank layers inside the composed turn

With `t2.hybrid.enabled` the T2 call of a turn reranks with the GEL store of the state (`hybOf c s.gel`: the edges
earlier turns' observations wrote); `rag_once`'s second retrieval sees the store AFTER this turn's observation.
With `t2.quality.enabled` fusion (BM25 oracle per query) and MMR (token-set oracle) run.  Whatever the layers do,
the retrieved list of every turn is a permutation of the core retrieval (C11), so C11's count / scope / threshold
guarantees (`C01_compose_retrieval`) hold for every rerank configuration.
-/
import Clem.Proofs.Compose

set_option linter.unusedSectionVars false

namespace Clem.Compose

section AnyCarrier
variable {α : Type} [Clem.T1.Num α] [Clem.T2.Num α] [Clem.T3.PyOrd α] [Clem.Py.Num α] [Clem.Py.NumGel α]
variable (w : World α) (c : Cfg α)

/-- The reranker of the turn's T2 stage reads the GEL edges of the state handed to the turn (one `GEdge` per stored
record, endpoints and weight as stored), never a failing layer; the second retrieval of `rag_once` is made with the
store as the turn's own observation left it. -/
theorem C01_compose_hybrid_reads_gel (s : State α) (t : TurnIn α) (o : Oracles α) (qo : QOracle α)
    (hq : lookupQ o (qOf w c s t) = some qo) (hc : c.orchCacheOn = false) :
    (runTurn w c s t o).t2 =
      Clem.T2.t2 (t2Cfg w c o qo) c.tiers (withCos (epsAt w s.mem o) qo.cos)
        { c.hyb with edges := (Clem.Gel.ensure s.gel).edges.map (fun e => ⟨e.src, e.dst, e.w⟩), fail := false }
        (qualOf c qo) (t2K c) c.residualCap (gnodes w) := by
  rw [runTurn_t2]
  unfold t2Of t2Stage t2Call
  simp [hq, hc, hybOf, gelEdges]

/-- **C11, permutation.**  In every turn of every history (good initial cache) the retrieved list is a
permutation of the core retrieval result `pre` — the rerank layers (hybrid, fusion, MMR) only reorder. -/
theorem C01_compose_rerank_perm (s : State α) (ts : List (TurnIn α × Oracles α)) (hs : GoodState w c s) :
    ∀ o ∈ (runTurns w c s ts).outs, o.t2.retrieved.Perm (o.t2.pre.map (·.1)) := by
  intro o ho
  obtain ⟨s', t, hg, _, rfl⟩ := mem_outs_good w c hs ho
  rw [runTurn_t2]
  rcases t2Of_good w c s' t.1 t.2 hg with h0 | ⟨o', qo, hh, qq, mem', h0⟩
  · rw [h0]; exact List.Perm.refl _
  · rw [h0]
    exact Clem.T2.C11_t2_retrieved_perm (t2Cfg w c o' qo) c.tiers (withCos (epsAt w mem' o') qo.cos) hh qq (t2K c)
      c.residualCap (gnodes w)

end AnyCarrier

end Clem.Compose
