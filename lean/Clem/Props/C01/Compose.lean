/-
# C01 (composition) — a history of turns is a FUNCTION of (world, config, turn list, oracles), and the per-stage
guarantees of C03 / C04 / C11 / C12 / C13 hold for EVERY turn of EVERY history

Theorems about `Clem/Model/Compose.lean` — the composed turn model `clemdrv` executes (routes `compose.turn`,
`compose.hist`) against the real `Orchestrator.run_turn` (`harness/lib/compose_comp.py`).  All statements are
unbounded (induction over the turn list) and hold for every number carrier unless a section says otherwise.
Scope of the model: GEL, reflection, scheduler, perf gate and the T2 rerank layers are off; the T1 result cache and the
orchestrator's T2 cache are part of the `State` (no TTL expiry / eviction inside a history).
-/
import Clem.Proofs.Compose
import Clem.Props.C01.ComposeGel
import Clem.Props.C01.ComposeSched
import Clem.Props.C01.ComposeQuality
import Clem.Props.C01.ComposeRefl
import Clem.Props.C01.ComposeSnap
import Clem.Props.C01.ComposeMemory
import Clem.Props.C01.ComposeAgents
import Clem.Props.C01.ComposeLog
import Clem.Props.C01.ComposeCache
import Clem.Props.C01.ComposeRefine
import Clem.Props.C01.ComposeCacheRefine

set_option linter.unusedSectionVars false

namespace Clem.Compose

section AnyCarrier
variable {α : Type} [Clem.T1.Num α] [Clem.T2.Num α] [Clem.T3.PyOrd α] [Clem.Py.Num α] [Clem.Py.NumGel α]
variable (w : World α) (c : Cfg α)

/-! ## (a) replay: `runTurns` is a function of its arguments; a turn depends on the past only through the state -/

/-- Same world, configuration, initial state, turn list and oracle answers ⇒ same records, lines, store
hand-offs and final state.  (Definitional: there is no clock, hash order or process state in the model; the
correspondence harness is what ties this to the code.) -/
theorem C01_compose_replay (w' : World α) (c' : Cfg α) (s s' : State α)
    (ts ts' : List (TurnIn α × Oracles α)) (hw : w = w') (hc : c = c') (hs : s = s') (ht : ts = ts') :
    runTurns w c s ts = runTurns w' c' s' ts' := by
  subst hw hc hs ht; rfl

/-- One step of a history: the output of a turn is `runTurn` of (world, config, state handed over, turn, oracles);
the rest of the history continues from the state that turn returned. -/
theorem C01_compose_step (s : State α) (t : TurnIn α × Oracles α) (ts : List (TurnIn α × Oracles α)) :
    runTurns w c s (t :: ts) =
      ⟨runTurn w c s t.1 t.2 :: (runTurns w c (runTurn w c s t.1 t.2).state ts).outs,
       (runTurns w c (runTurn w c s t.1 t.2).state ts).state⟩ :=
  runTurns_cons w c s t ts

/-! ## (b) no hidden state -/

/-- Running a history in two halves with the intermediate `State` (store weights, version, T1 result cache,
orchestrator T2 cache) handed over equals running it whole: nothing else is carried from turn to turn. -/
theorem C01_compose_no_hidden_state (s : State α) (ts₁ ts₂ : List (TurnIn α × Oracles α)) :
    runTurns w c s (ts₁ ++ ts₂) =
      ⟨(runTurns w c s ts₁).outs ++ (runTurns w c (runTurns w c s ts₁).state ts₂).outs,
       (runTurns w c (runTurns w c s ts₁).state ts₂).state⟩ :=
  runTurns_append w c s ts₁ ts₂

/-- Fresh process vs. warm process: the turns `ts₂` produce the same outputs whether they are
run by the process that already ran `ts₁` or by a fresh one started from the handed-over state. -/
theorem C01_compose_fresh_eq_warm (s : State α) (ts₁ ts₂ : List (TurnIn α × Oracles α)) :
    (runTurns w c s (ts₁ ++ ts₂)).outs.drop ts₁.length = (runTurns w c (runTurns w c s ts₁).state ts₂).outs ∧
    (runTurns w c s (ts₁ ++ ts₂)).state = (runTurns w c (runTurns w c s ts₁).state ts₂).state := by
  rw [C01_compose_no_hidden_state]
  refine ⟨?_, rfl⟩
  dsimp only
  rw [← outs_length w c s ts₁, List.drop_left]

/-- one output per turn -/
theorem C01_compose_outs_length (s : State α) (ts : List (TurnIn α × Oracles α)) :
    (runTurns w c s ts).outs.length = ts.length := outs_length w c s ts

/-! ## (c) lifts: every turn of every history -/

/-- **C03, structural clauses.**  In every turn of every history, whatever T4 approved has at most one delta
per target, is in canonical target order, respects the churn cap, contains nothing whose recorded origin is an op
in cooldown, and only targets something the planner hook proposed IN THAT TURN (`o.deltas`, which is the hook's
list or empty — `C01_compose_deltas_from_hook`). -/
theorem C01_compose_envelope (s : State α) (ts : List (TurnIn α × Oracles α)) :
    ∀ o ∈ (runTurns w c s ts).outs, ∀ r inp, o.t4 = some r → o.t4in = some inp →
      r = Clem.T4.t4 c.sqrt c.thr inp ∧
      (r.approved.map Clem.T4.ckey).Nodup ∧
      r.approved.Pairwise (fun a b => Clem.Py.lexLt (Clem.T4.ckey a) (Clem.T4.ckey b) = true) ∧
      (0 ≤ c.churn → (r.approved.length : Int) ≤ c.churn) ∧
      (∀ d ∈ r.approved, ∀ j, d.opIdx = some j → ∀ i ∈ Clem.T4.blockedOps inp, (i : Int) ≠ j) ∧
      (∀ d ∈ r.approved, ∃ d₀ ∈ o.deltas, d₀.kind = d.kind ∧ d₀.id = d.id ∧ d₀.attr = d.attr) := by
  intro o ho r inp hr hi
  obtain ⟨s', t, _, rfl⟩ := mem_outs w c ho
  rw [runTurn_t4] at hr
  rw [runTurn_t4in] at hi
  split at hr
  · rename_i he
    rw [if_pos he] at hi
    cases hr; cases hi
    refine ⟨rfl, ?_, ?_, ?_, ?_, ?_⟩
    · exact Clem.T4.C03_unique_targets c.sqrt c.thr _
    · exact Clem.T4.C03_sorted c.sqrt c.thr _
    · intro hk; exact Clem.T4.C03_churn c.sqrt c.thr _ hk
    · exact Clem.T4.C03_cooldown c.sqrt c.thr _
    · exact Clem.T4.C03_subset c.sqrt c.thr _
  · cases hr

/-- What T4 is given in a turn is the planner hook's delta list of that turn, or nothing (stock planner, T3
skipped, or a plan refined by `rag_once`, which drops `deltas`). -/
theorem C01_compose_deltas_from_hook (s : State α) (ts : List (TurnIn α × Oracles α)) :
    ∀ o ∈ (runTurns w c s ts).outs, ∃ t ∈ ts, o.deltas = t.1.hookDeltas ∨ o.deltas = [] := by
  intro o ho
  obtain ⟨s', t, ht, rfl⟩ := mem_outs w c ho
  exact ⟨t, ht, t4_deltas_from_hook w c s' t.1 t.2⟩

/-- **C04, hand-off.**  In every turn of every history the store receives exactly that turn's approved list, as
one batch, once — or nothing at all when the turn does not reach Apply (kill switch / dry run / yielded earlier). -/
theorem C01_compose_store_once (s : State α) (ts : List (TurnIn α × Oracles α)) :
    ∀ o ∈ (runTurns w c s ts).outs,
      (∀ a, o.apply = some a → ∃ r, o.t4 = some r ∧ o.storeCalls = [r.approved]) ∧
      (o.apply = none → o.storeCalls = [] ) := by
  intro o ho
  obtain ⟨s', t, _, rfl⟩ := mem_outs w c ho
  constructor
  · intro a ha
    have hc : commits w c s' t.1 t.2 = true := by
      by_contra h
      rw [runTurn_apply, if_neg h] at ha; cases ha
    have he : (c.t4Enabled && reach w c s' t.1 t.2 2) = true := by
      unfold commits committed at hc
      simp only [Bool.and_eq_true] at hc
      have h3 : reach w c s' t.1 t.2 2 = true := by
        have := hc.2
        unfold reach at this ⊢
        simp only [decide_eq_true_eq] at this ⊢
        omega
      simp [hc.1.1, h3]
    refine ⟨t4Of w c s' t.1 t.2, by rw [runTurn_t4, if_pos he], ?_⟩
    rw [runTurn_storeCalls, if_pos hc]
    exact calls_once c s' t.1 _ _
  · intro ha
    have hc : ¬ commits w c s' t.1 t.2 = true := by
      intro h
      rw [runTurn_apply, if_pos h] at ha; cases ha
    rw [runTurn_storeCalls, if_neg hc]

/-- **C04, version.**  After a history the version is the initial one plus the number of turns that reached Apply
(= the number of apply records). -/
theorem C01_compose_version (s : State α) (ts : List (TurnIn α × Oracles α)) (v : Int) (h : s.ver = .num v) :
    (runTurns w c s ts).state.ver =
      .num (v + ((runTurns w c s ts).outs.filter (fun o => o.apply.isSome)).length) := by
  rw [← commitCount_eq_applies]
  exact version_history w c s ts v h

/-- … in particular `v0 + n` after `n` turns when the kill switch is off, no turn is a dry run and the scheduler
is off. -/
theorem C01_compose_version_all_committed (s : State α) (ts : List (TurnIn α × Oracles α)) (v : Int)
    (h : s.ver = .num v) (he : c.t4Enabled = true) (hd : ∀ t ∈ ts, t.1.dryRun = false) (hs : c.sched = none) :
    (runTurns w c s ts).state.ver = .num (v + ts.length) := by
  rw [version_history w c s ts v h]
  have : ∀ (s : State α) (ts : List (TurnIn α × Oracles α)), (∀ t ∈ ts, t.1.dryRun = false) →
      commitCount w c s ts = ts.length := by
    intro s ts
    induction ts generalizing s with
    | nil => intro _; rfl
    | cons t ts ih =>
      intro hd
      have hc : commits w c s t.1 t.2 = true := by
        unfold commits committed
        simp [he, hd t (by simp), reach_sched_off w c s t.1 t.2 hs 3 (by omega)]
      simp only [commitCount, hc, if_true, List.length_cons]
      rw [ih _ (fun t' ht' => hd t' (List.mem_cons_of_mem _ ht'))]
      omega
  rw [this s ts hd]

/-- **C11.**  In every turn of every history (started with an empty — or any good — orchestrator cache) the
retrieved hits, freshly computed or served by that cache, are at most `k_retrieval` (validator range `k ≥ 1`),
have distinct ids, are visible under the owner scope of the querying agent, have a vector and pass the similarity
threshold test; under `owner_scope = agent` every hit is owned by the agent. -/
theorem C01_compose_retrieval (s : State α) (ts : List (TurnIn α × Oracles α)) (hk : 1 ≤ c.k)
    (hs : GoodState w c s) :
    ∀ o ∈ (runTurns w c s ts).outs,
      (o.t2.retrieved.length : Int) ≤ c.k ∧ (o.t2.retrieved.map (·.id)).Nodup ∧
      (∀ e ∈ o.t2.retrieved,
        Clem.T2.visible (Clem.T2.ownerForQuery c.scope (some w.agent)) e = true ∧ Clem.T2.passes c.θ e = true) ∧
      (c.scope = 1 → ∀ e ∈ o.t2.retrieved, e.ownerStr = w.agent) := by
  intro o ho
  obtain ⟨s', t, hg, _, rfl⟩ := mem_outs_good w c hs ho
  rw [runTurn_t2]
  rcases t2Of_good w c s' t.1 t.2 hg with h0 | ⟨o', qo, hh, qq, mem', h0⟩
  · rw [h0]
    refine ⟨?_, ?_, ?_, ?_⟩
    · show ((0 : Nat) : Int) ≤ c.k
      omega
    · exact List.nodup_nil
    · intro e he; cases he
    · intro _ e he; cases he
  · rw [h0]
    have h := Clem.T2.C11_t2_retrieved (t2Cfg w c o' qo) c.tiers (withCos (epsAt w mem' o') qo.cos) hh qq (t2K c)
      c.residualCap (gnodes w) hk
    refine ⟨h.1, h.2.1, fun e he => ⟨(h.2.2 e he).2.1, (h.2.2 e he).2.2.1⟩, ?_⟩
    intro hsc e he
    exact Clem.T2.C11_t2_scope_agent (t2Cfg w c o' qo) c.tiers (withCos (epsAt w mem' o') qo.cos) hh qq (t2K c)
      c.residualCap (gnodes w) w.agent hsc rfl e he

/-- a history started with an empty orchestrator cache starts in a good state -/
theorem C01_compose_retrieval_fresh (s : State α) (ts : List (TurnIn α × Oracles α)) (hk : 1 ≤ c.k)
    (h0 : s.orch = []) :
    ∀ o ∈ (runTurns w c s ts).outs, (o.t2.retrieved.length : Int) ≤ c.k ∧
      (c.scope = 1 → ∀ e ∈ o.t2.retrieved, e.ownerStr = w.agent) := by
  intro o ho
  have h := C01_compose_retrieval w c s ts hk (goodState_of_empty w c s h0) o ho
  exact ⟨h.1, h.2.2.2⟩

/-- **C12.**  In every turn of every history T1 is the stage on the turn's text over the active graphs (with the
process cache some earlier turns left and the slice clamps of the scheduler, `t1Cfg`), and every per-graph run stays
within its pops / layers / relaxation budgets — the budgets of `t1Cfg`, i.e. `min(queue_budget, slice t1_pops)` and
`min(iter caps, slice t1_iters)` when the scheduler is on. -/
theorem C01_compose_t1_budgets (s : State α) (ts : List (TurnIn α × Oracles α)) :
    ∀ o ∈ (runTurns w c s ts).outs, ∃ t ∈ ts, ∃ cache,
      o.t1 = t1Run (t1Cfg c) (t1Graphs w) t.1.text cache ∧
      ∀ g ∈ t1Graphs w, Clem.T1.budgetOk (t1Cfg c) (Clem.T1.oneGraph (t1Cfg c) g t.1.text).pops
        (Clem.T1.oneGraph (t1Cfg c) g t.1.text).iters (Clem.T1.oneGraph (t1Cfg c) g t.1.text).props = true := by
  intro o ho
  obtain ⟨s', t, ht, rfl⟩ := mem_outs w c ho
  exact ⟨t, ht, s'.t1c, rfl, fun g _ => Clem.T1.C12_budgets (t1Cfg c) g t.1.text⟩

/-- … and with an empty process cache it is exactly the stage model of C12 -/
theorem C01_compose_t1_is_stage (s : State α) (t : TurnIn α) (o : Oracles α) (h : s.t1c = []) :
    (runTurn w c s t o).t1 = Clem.T1.t1 (t1Cfg c) (t1Graphs w) t.text := by
  rw [runTurn_t1, h, t1Run_nil]

/-- **C13.**  In every turn of every history `t2_semantic` runs at most twice (the stage itself — unless the
orchestrator's cache serves it — and at most one `rag_once` retrieval). -/
theorem C01_compose_t2_calls (s : State α) (ts : List (TurnIn α × Oracles α)) :
    ∀ o ∈ (runTurns w c s ts).outs, o.t2Calls ≤ 2 := by
  intro o ho
  obtain ⟨s', t, _, rfl⟩ := mem_outs w c ho
  rw [runTurn_t2Calls]
  have := rag_calls_le_one w c s' t.1 t.2
  split <;> split <;> omega

end AnyCarrier

/-! ## C03, numeric clauses (any ordered field) -/
section OrderedField
variable {α : Type} [Field α] [LinearOrder α] [IsStrictOrderedRing α]
variable [Clem.T1.Num α] [Clem.T2.Num α] [Clem.T3.PyOrd α] [Clem.Py.NumGel α]
variable (w : World α) (c : Cfg α)

/-- In every turn of every history each approved magnitude is at most the novelty cap and the approved vector's
L2 norm is at most `delta_norm_cap_l2` (`0 < cap` is the validator's range; `sqrt` with its two laws). -/
theorem C01_compose_envelope_numeric (s : State α) (ts : List (TurnIn α × Oracles α))
    (hs0 : ∀ x, 0 ≤ c.sqrt x) (hs : ∀ x, 0 ≤ x → c.sqrt x * c.sqrt x = x) (hc : 0 < c.capL2) :
    ∀ o ∈ (runTurns w c s ts).outs, ∀ r, o.t4 = some r →
      (∀ d ∈ r.approved, |d.delta| ≤ |c.capNov|) ∧ Clem.T4.sumSq r.approved ≤ c.capL2 * c.capL2 := by
  intro o ho r hr
  obtain ⟨s', t, _, rfl⟩ := mem_outs w c ho
  rw [runTurn_t4] at hr
  split at hr
  · cases hr
    exact ⟨Clem.T4.C03_novelty c.sqrt c.thr (t4InOf w c s' t.1 t.2) hc,
           Clem.T4.C03_l2 c.sqrt c.thr (t4InOf w c s' t.1 t.2) hs0 hs hc⟩
  · cases hr

end OrderedField

/-! ## (d) non-vacuity: a two-turn history evaluated by the kernel at an exact carrier (`Int`; thresholds scaled by 10)

World: one graph with the node `n1` labelled "apple", one memory "apple" owned by the agent `A`.  Both turns say
"apple": T1 touches `n1`, the glue appends its label (query text "apple apple"), the oracle scores the memory 9
(≥ τ_high = 8 ⇒ a `summary` plan, no retrieval), the planner hook proposes `+2` on `n:n1`, T4 approves it, the
store receives exactly that batch, the weight goes 0 → 2 → 4 and the version 0 → 1 → 2.  All caches are on; GEL is on: the two retrieved memories
co-activate in both turns (edge `e1→e2`, weight 2 then 4, `coact = 2`); the scheduler is on with non-binding budgets
(no yield); reflection is allowed and flagged: `reflect` runs in both turns, the summary is cut to 4 tokens and one
episode per turn is written (ops cap 1). -/
namespace Example

instance : Clem.T3.PyOrd Int := ⟨fun a b => decide (a ≥ b), fun a b => decide (a < b), fun a => (a.natAbs : Int), 0⟩

instance : Clem.Py.Num Int where
  zero := 0
  one := 1
  add a b := a + b
  sub a b := a - b
  mul a b := a * b
  div a b := a / b
  neg a := -a
  abs a := (a.natAbs : Int)
  lt a b := decide (a < b)
  le a b := decide (a ≤ b)
  beq a b := decide (a = b)

/-- toy carrier for the GEL part: `0.5` and the decay factor are 1 (no decay), integer arithmetic -/
instance : Clem.Py.NumGel Int where
  zero := 0
  one := 1
  half := 1
  add a b := a + b
  sub a b := a - b
  mul a b := a * b
  div a b := a / b
  neg a := -a
  abs a := (a.natAbs : Int)
  ofNat n := (n : Int)
  lt a b := decide (a < b)
  le a b := decide (a ≤ b)
  eq a b := decide (a = b)

/-- toy snapshot arithmetic: every integer is finite, `round(x, 6)` is the identity -/
def intOps : Clem.Snap.WOps Int :=
  { lt := fun a b => decide (a < b), fin := fun _ => true, round := fun x => x, abs := fun a => (a.natAbs : Int),
    zero := 0, one := 1, negOne := -1, isZero := fun x => decide (x = 0) }

def intCv : Clem.Snap.Cv Int :=
  { pyStr := fun | .str s => s | _ => [63]
    pyFloat := fun | .num x => some x | .int n => some n | _ => none
    pyInt := fun | .int n => some n | _ => none }

def apple : Str := [97, 112, 112, 108, 101]
def n1 : Str := [110, 49]
def agentA : Str := [65]

def world : World Int :=
  { graphs := [⟨[103], [⟨n1, apple⟩], []⟩]
    eps := [{ id := [101, 49], owner := .str agentA, hasVec := true, cos := 0, ts := .missing, quarter := 0,
              cluster := [99], importance := 0, text := apple, toks := [] },
            { id := [101, 50], owner := .str agentA, hasVec := true, cos := 0, ts := .missing, quarter := 0,
              cluster := [99], importance := 0, text := apple, toks := [] }]
    last := [], agent := agentA, reflFlag := true }

def t1cfg : Clem.T1.Cfg Int :=
  { queueBudget := 3, nodeBudget := 15, radiusCap := 4, iterCap := 5, iterCapLayers := 5, relaxCap := none,
    sliceIters := none, slicePops := none, perfEnabled := false, metricsEnabled := false, frontierCap := 0,
    visitedCap := 0, dedupeWindow := 0, decay := none, edgeMult := [], eps := 0, cacheOn := true }

def cfg : Cfg Int :=
  { t1 := t1cfg, scope := 1, ownerRaw := .agent, k := 2, θ := 0, days := 30, topM := 1, tiers := [2],
    alpha := 1, beta := 0, gamma := 0, residualCap := 4, t3Enabled := true, maxOps := 3, tokens := 16,
    maxRagLoops := 1, tauHigh := 8, tauLow := 4, epsEdit := 1, t4Enabled := true, capL2 := 10, capNov := 3,
    churn := 4, cooldowns := [], every := 1, sqrt := fun x => x, thr := 0, wmin := -10, wmax := 10,
    t2CacheOn := true, orchCacheOn := true, bust := true,
    gel := { enabled := true, threshold := 0, topK := 8, pairCap := 8, proportional := false, alpha := 2, cmin := -10,
             cmax := 10, hl := 1, floor := 0, concatK := false, topkLabel := 1, attachW := 1 },
    pw := fun _ _ => 1, doMerge := false, doSplit := false, doPromo := false, capMerge := 0, capSplit := 0, capPromo := 0,
    hyb := { enabled := true, useGraph := true, anchorTopM := 2, hops := 1, thresh := 0, lam := 1, damping := 0,
             invdeg := false, maxBonus := 5, kMax := 8, edges := [], fail := false },
    qual := { enabled := false, modeInterp := false, alphaSem := 0, lex := [], mmrEnabled := false, mmrLam := 0,
              mmrK := none, failFuse := false, failMmr1 := false, failMmr2 := false },
    refl := { allow := true, backend := Clem.Refl.sRule, topk := 2, limit := 4, embed := false, opsCap := some 1, wallMs := none,
              fxEnabled := false, fxPathOk := false },
    sched := some ⟨some 1000, some 9, some 9, some 9, some 9, some 1000⟩,
    wops := intOps, cv := intCv, snapB := ⟨-10, 10, 0⟩ }

def hookDelta : Clem.T4.Delta Int := ⟨[110], [110, 58, 110, 49], [119], 2, none, none⟩

/-- the oracle's description of the written reflection entries (id / cluster are stand-ins for the hashes) -/
def memOracle (mem : List Clem.Refl.Written) : List (Clem.T2.Ep Int) :=
  mem.map (fun wr => { id := 114 :: wr.turn, owner := .str sAgentLit, hasVec := wr.vec, cos := 0, ts := .missing,
                       quarter := 0, cluster := [99], importance := 0, text := wr.text, toks := [] })

def turnM (i : Int) (mem : List Clem.Refl.Written) : TurnIn Int × Oracles Int :=
  (⟨apple, i, false, [], true, [], [hookDelta], 0, none⟩,
   ⟨[⟨apple ++ [32] ++ apple, [9, 7, 8], [], []⟩], 0, [], [], memOracle mem⟩)

def turn (i : Int) : TurnIn Int × Oracles Int := turnM i []

def s0 : State Int := ⟨[], .num 0, [], [], [], none, 0, false, none, []⟩

/-- the second turn's oracle describes the entry the first turn wrote -/
def hist : Hist Int := runTurns world cfg s0 [turn 1, turnM 2 (runTurns world cfg s0 [turn 1]).state.mem]

end Example

set_option maxRecDepth 100000 in
/-- the example history: two outputs, each with a non-empty plan headed by a `summary` Speak op, the hook's delta
approved and handed to the store once, no oracle miss, a T1 cache hit in the second turn, the orchestrator's cache
entry invalidated by each apply, two version bumps and the accumulated weight -/
theorem C01_compose_nonvacuous :
    Example.hist.outs.map (·.qText) = [Example.apple ++ [32] ++ Example.apple, Example.apple ++ [32] ++ Example.apple] ∧
    Example.hist.outs.map (·.oracleMiss) = [false, false] ∧
    Example.hist.outs.map (fun o => o.ops.map Clem.T3.Op.isSpeak) = [[true], [true]] ∧
    Example.hist.outs.map (fun o => o.storeCalls.map (·.map (·.delta))) = [[[2]], [[2]]] ∧
    Example.hist.outs.map (·.t2Calls) = [1, 1] ∧
    Example.hist.outs.map (·.t1.cacheHits) = [0, 1] ∧
    Example.hist.outs.map (fun o => o.apply.map (·.invalidated)) = [some 1, some 1] ∧
    Example.hist.state.ver = .num 2 ∧
    Example.hist.state.w.map (·.2) = [4] ∧
    Example.hist.outs.map (fun o => o.gelObs.map (·.pairsUpdated)) = [some 1, some 1] ∧
    (Clem.Gel.edgesOf Example.hist.state.gel).map (fun e => (e.key, e.w, e.coact)) =
      [([101, 49, 0x2192, 101, 50], 4, some 2)] ∧
    Example.hist.outs.map (·.yielded) = [none, none] ∧
    Example.hist.outs.map (fun o => (o.refl.called, o.refl.written.length, o.refl.log.map (·.summaryLen))) =
      [(true, 1, some 4), (true, 1, some 4)] ∧
    Example.hist.state.memN = 2 := by
  decide

/-! ## restart: the law holds on an example, and every proviso of `C01_compose_restart` is needed -/

namespace Example

/-- the fresh process state -/
def sF : State Int := ⟨[], .num 0, [], [], [], none, 0, false, none, []⟩

/-- caches off, reflection not allowed (GEL stays ON: integer weights survive the toy `round`) -/
def cfgR : Cfg Int :=
  { cfg with t1 := { t1cfg with cacheOn := false }, orchCacheOn := false, refl := { cfg.refl with allow := false } }

def oneGo (c : Cfg Int) : Hist Int := runTurns world c (bootOf c sF none) [turn 1, turn 2]
def twoProcs (c : Cfg Int) : Hist Int := restartHist world c (bootOf c sF none) sF 1 [turn 1, turn 2]

/-- coarse `round(x, 6)`: multiples of ten -/
def cfgLossy : Cfg Int := { cfgR with wops := { intOps with round := fun x => x / 10 * 10 } }

end Example

/-- `str(int)` reads back through `int(str)` (the version round trip `hv` of `C01_compose_restart`) -/
theorem C01_compose_version_roundtrip : ∀ n : Fin 120, verOfStr (decStr (n.val : Int)) = .num n.val := by
  decide

set_option maxRecDepth 100000 in
/-- the restart law on the example (caches off, no reflection): two processes = one process, snapshot written by
the first turn, two version bumps, accumulated weight, the GEL edge carried through the snapshot -/
theorem C01_compose_restart_nonvacuous :
    (Example.twoProcs Example.cfgR).outs.map (·.t1.cacheHits) = (Example.oneGo Example.cfgR).outs.map (·.t1.cacheHits) ∧
    (Example.twoProcs Example.cfgR).outs.map (fun o => o.storeCalls.map (·.map (·.delta))) =
      (Example.oneGo Example.cfgR).outs.map (fun o => o.storeCalls.map (·.map (·.delta))) ∧
    (Example.twoProcs Example.cfgR).outs.map (fun o => o.apply.map (·.version)) =
      (Example.oneGo Example.cfgR).outs.map (fun o => o.apply.map (·.version)) ∧
    (Example.twoProcs Example.cfgR).outs.map (fun o => o.gelObs.map (·.pairsUpdated)) =
      (Example.oneGo Example.cfgR).outs.map (fun o => o.gelObs.map (·.pairsUpdated)) ∧
    (Example.twoProcs Example.cfgR).state.w = (Example.oneGo Example.cfgR).state.w ∧
    (Example.twoProcs Example.cfgR).state.ver = (Example.oneGo Example.cfgR).state.ver ∧
    (Example.twoProcs Example.cfgR).state.gel = (Example.oneGo Example.cfgR).state.gel ∧
    (Example.twoProcs Example.cfgR).state.memN = (Example.oneGo Example.cfgR).state.memN ∧
    (Example.oneGo Example.cfgR).outs.map (·.snapBody.isSome) = [true, true] ∧
    (Example.oneGo Example.cfgR).state.ver = .num 2 ∧
    (Example.oneGo Example.cfgR).state.w.map (·.2) = [4] ∧
    (Clem.Gel.edgesOf (Example.twoProcs Example.cfgR).state.gel).map (·.w) = [4] := by
  decide

set_option maxRecDepth 100000 in
/-- **the T1 process cache is not in the snapshot**: with it on, the second process misses where the single process
hits (`cache_hits` of the t1 record differ) -/
theorem C01_compose_restart_needs_t1_cache_off :
    (Example.twoProcs { Example.cfgR with t1 := Example.t1cfg }).outs.map (·.t1.cacheHits) = [0, 0] ∧
    (Example.oneGo { Example.cfgR with t1 := Example.t1cfg }).outs.map (·.t1.cacheHits) = [0, 1] := by
  decide

set_option maxRecDepth 100000 in
/-- **the orchestrator's T2 cache is not in the snapshot**: with it on (no bust), the single process ends with two
entries, the restarted one with one -/
theorem C01_compose_restart_needs_orch_cache_off :
    (Example.twoProcs { Example.cfgR with orchCacheOn := true, bust := false }).state.orch.length = 1 ∧
    (Example.oneGo { Example.cfgR with orchCacheOn := true, bust := false }).state.orch.length = 2 := by
  decide

set_option maxRecDepth 100000 in
/-- **the memory index is not in the snapshot**: with reflection allowed, the episodes written by the first process
are gone after the restart -/
theorem C01_compose_restart_needs_no_reflection :
    (Example.twoProcs { Example.cfgR with refl := Example.cfg.refl }).state.memN = 1 ∧
    (Example.oneGo { Example.cfgR with refl := Example.cfg.refl }).state.memN = 2 := by
  decide

set_option maxRecDepth 100000 in
/-- **GEL weights are rounded on write**: with a `round` that is not the identity on the stored weights, the edge the
second process continues from is not the edge the first one had (`hg` fails) -/
theorem C01_compose_restart_needs_gel_exact :
    (Clem.Gel.edgesOf (Example.twoProcs Example.cfgLossy).state.gel).map (·.w) = [2] ∧
    (Clem.Gel.edgesOf (Example.oneGo Example.cfgLossy).state.gel).map (·.w) = [4] := by
  decide

/-! ## memory growth: the entry the first turn wrote is retrieved by the second -/

namespace Example

/-- `owner_scope = any`, the writer embeds; agent "A" -/
def cfgM : Cfg Int := { cfg with scope := 0, k := 3, refl := { cfg.refl with embed := true } }
/-- the same under `owner_scope = agent` (the agent's id is "A", not the literal "agent") -/
def cfgMA : Cfg Int := { cfgM with scope := 1 }

def histM (c : Cfg Int) : Hist Int :=
  runTurns world c s0 [turn 1, turnM 2 (runTurns world c s0 [turn 1]).state.mem]

end Example

set_option maxRecDepth 100000 in
/-- under `any` the second turn's hits contain the reflection entry of turn 1 (the stand-in id `r1`, owner
"agent"), the first turn's do not; under `agent` (agent id "A") it stays invisible; no oracle miss either way -/
theorem C01_compose_memory_nonvacuous :
    (Example.histM Example.cfgM).outs.map (fun o => o.t2.retrieved.map (·.id)) =
      [[[101, 49], [101, 50]], [[101, 49], [101, 50], [114, 49]]] ∧
    (Example.histM Example.cfgM).outs.map (·.oracleMiss) = [false, false] ∧
    (Example.histM Example.cfgM).state.mem.map (·.vec) = [true, true] ∧
    (Example.histM Example.cfgMA).outs.map (fun o => o.t2.retrieved.map (·.id)) =
      [[[101, 49], [101, 50]], [[101, 49], [101, 50]]] := by
  decide

/-! ## two agents on one state -/

namespace Example

def agentB : Str := [66]

/-- one episode of each agent -/
def worldAB : World Int :=
  { world with eps := [{ id := [101, 49], owner := .str agentA, hasVec := true, cos := 0, ts := .missing, quarter := 0,
                         cluster := [99], importance := 0, text := apple, toks := [] },
                       { id := [101, 50], owner := .str agentB, hasVec := true, cos := 0, ts := .missing, quarter := 0,
                         cluster := [99], importance := 0, text := apple, toks := [] }] }

/-- `owner_scope = agent`; T4 off, so the version — half of the orchestrator cache key — never moves -/
def cfgAB (orchOn : Bool) : Cfg Int :=
  { cfg with scope := 1, t4Enabled := false, orchCacheOn := orchOn, bust := false,
             refl := { cfg.refl with allow := false }, gel := { cfg.gel with enabled := false } }

def turnOf (i : Int) (a : Str) : TurnIn Int × Oracles Int :=
  (⟨apple, i, false, [], true, [], [hookDelta], 0, some a⟩, ⟨[⟨apple ++ [32] ++ apple, [9, 7], [], []⟩], 0, [], [], []⟩)

def histAB (orchOn : Bool) : Hist Int := runTurnsMA worldAB (cfgAB orchOn) s0 [turnOf 1 agentA, turnOf 2 agentB]

end Example

set_option maxRecDepth 100000 in
/-- two agents, the same text, the same version (T4 off): since the fix `C05_turn_key_context` the orchestrator's
turn-level cache key carries the agent — agent B's lookup MISSES the entry agent A stored and retrieves B's own episode,
cache on or off (on the tree before the fix B was served A's hit: C05's finding `turn:agent`); the general statement is
`C01_compose_agents_scope_cached` -/
theorem C01_compose_agents_cache_isolated_example :
    (Example.histAB false).outs.map (fun o => o.t2.retrieved.map (·.id)) = [[[101, 49]], [[101, 50]]] ∧
    (Example.histAB true).outs.map (fun o => o.t2.retrieved.map (·.id)) = [[[101, 49]], [[101, 50]]] ∧
    (Example.histAB true).outs.map (·.orchHit) = [false, false] ∧
    (Example.histAB true).state.orch.length = 2 := by
  decide

/-! ## the log stream of the example turn -/

namespace Example

def envL : LogEnv := { now := some [110], nowIsoApply := some [105] }
def clk (x : Int) : Clock Int := ⟨x, x, x, x, x, x, x, x, x, x, x, x, x⟩
def isZ (x : Int) : Bool := decide (x = 0)

def msOf (l : List (Str × Clem.Py.JV.J Int)) : List (Option Bool) :=
  l.map (fun p => (fieldOf [109, 115] p.2).map (fun v => Clem.Py.JV.jbeq (fun a b => decide (a = b)) v (.num 0)))

def hasNow (l : List (Str × Clem.Py.JV.J Int)) : List Bool := l.map (fun p => (fieldOf [110, 111, 119] p.2).isSome)

end Example

set_option maxRecDepth 100000 in
/-- the example's first turn writes, in this order, t1, t2, gel (observe), t3, t3_plan, t3_dialogue, t4, gel (decay),
apply, t3_reflection, health, turn; before normalisation every stage line carries the measured `ms` (5) and `now`;
after it the identity lines have `ms = 0` and no `now`, the other lines are untouched -/
theorem C01_compose_log_nonvacuous :
    (emitted Example.isZ Example.world Example.cfg Example.envL Example.s0 (Example.turn 1).1 (Example.turn 1).2
      (Example.clk 5)).map (·.1) =
      [fT1, fT2, fGel, fT3, fT3Plan, fT3Dlg, fT4, fGel, fApply, fRefl, fHealth, fTurn] ∧
    Example.msOf (rawRecords Example.world Example.cfg Example.envL Example.s0 (Example.turn 1).1 (Example.turn 1).2
      (Example.clk 5)) =
      [some false, some false, some false, none, none, some false, some false, some false, some true, some false,
       none, none] ∧
    Example.msOf (emitted Example.isZ Example.world Example.cfg Example.envL Example.s0 (Example.turn 1).1
      (Example.turn 1).2 (Example.clk 5)) =
      [some true, some true, some false, none, none, some false, some true, some false, some true, some true,
       none, none] ∧
    Example.hasNow (emitted Example.isZ Example.world Example.cfg Example.envL Example.s0 (Example.turn 1).1
      (Example.turn 1).2 (Example.clk 5)) =
      [false, false, true, true, true, true, false, true, false, false, false, false] := by
  decide

end Clem.Compose
