/-
# C01 (composition) — the scheduler inside the composed turn: C17's yield decision at the stage boundaries

With `scheduler.enabled` the composed turn (`Clem/Model/Compose.lean`) hands the slice budgets to T1 / T2 / T3
(`t1Cfg`, `t2K`, `sliceV`) and consults C17's `shouldYield` after T1, T2, the T3 plan, T4 and Apply (`boundaries`);
it returns at the first boundary whose decision fires (`yieldOf = Clem.Sched.firstYield`).  Logical clock: the
measured elapsed time is 0 ms in the model (see the model file).
-/
import Clem.Proofs.Compose
import Clem.Props.C17
import Clem.Props.C13.Plan

set_option linter.unusedSectionVars false

namespace Clem.Compose

section AnyCarrier
variable {α : Type} [Clem.T1.Num α] [Clem.T2.Num α] [Clem.T3.PyOrd α] [Clem.Py.Num α] [Clem.Py.NumGel α]
variable (w : World α) (c : Cfg α)

/-- **C17, first boundary.**  A turn that yields at boundary `st` with reason `r` has the scheduler on, the decision
fires at that boundary on the counters of the stages that ran (with that reason, which satisfies the documented
precedence table), and it fired at no earlier boundary. -/
theorem C01_compose_yield_first_boundary (s : State α) (t : TurnIn α) (o : Oracles α)
    (st : Clem.Sched.Stage) (r : Clem.Sched.YReason) (h : (runTurn w c s t o).yielded = some (st, r)) :
    ∃ b, c.sched = some b ∧ ∃ pre cons post, boundaries w c s t o = pre ++ (st, cons) :: post ∧
      Clem.Sched.shouldYield b cons = some r ∧ Clem.Sched.yieldSpecB b cons (some r) = true ∧
      ∀ p ∈ pre, Clem.Sched.shouldYield b p.2 = none := by
  rw [runTurn_yielded] at h
  unfold yieldOf at h
  cases hb : c.sched with
  | none => rw [hb] at h; cases h
  | some b =>
    rw [hb] at h
    exact ⟨b, rfl, Clem.Props.C17.C17_Turn_yield_first_boundary b _ st r h⟩

/-- scheduler off: no turn ever yields -/
theorem C01_compose_no_yield_sched_off (s : State α) (ts : List (TurnIn α × Oracles α)) (h : c.sched = none) :
    ∀ o ∈ (runTurns w c s ts).outs, o.yielded = none := by
  intro o ho
  obtain ⟨s', t, _, rfl⟩ := mem_outs w c ho
  rw [runTurn_yielded]; exact yieldOf_sched_off w c s' t.1 t.2 h

theorem yr_of_yield (s : State α) (t : TurnIn α) (o : Oracles α) (st : Clem.Sched.Stage) (r : Clem.Sched.YReason)
    (h : yieldOf w c s t o = some (st, r)) : yr w c s t o = stageRank st := by
  unfold yr; rw [h]

/-- **Commits nothing.**  A turn that yields at any boundary other than the one after Apply hands nothing to the
store, writes no apply record, runs no GEL tick, and leaves the store weights and the version as they were. -/
theorem C01_compose_yield_commits_nothing (s : State α) (t : TurnIn α) (o : Oracles α)
    (st : Clem.Sched.Stage) (r : Clem.Sched.YReason) (h : (runTurn w c s t o).yielded = some (st, r))
    (hst : st ≠ .Apply) :
    (runTurn w c s t o).apply = none ∧ (runTurn w c s t o).storeCalls = [] ∧
    (runTurn w c s t o).gelTick = none ∧
    (runTurn w c s t o).state.w = s.w ∧ (runTurn w c s t o).state.ver = s.ver := by
  rw [runTurn_yielded] at h
  have hy := yr_of_yield w c s t o st r h
  have hr : reach w c s t o 3 = false := by
    unfold reach; rw [hy]
    cases st <;> simp [stageRank] at hst ⊢
  have hc : commits w c s t o = false := by unfold commits; rw [hr]; simp
  have ht : gelTickOn w c s t o = false := by unfold gelTickOn; rw [hr]; simp
  refine ⟨by rw [runTurn_apply, hc]; rfl, by rw [runTurn_storeCalls, hc]; rfl, ?_, ?_, ?_⟩
  · show (if gelTickOn w c s t o then _ else none) = none
    rw [ht]; rfl
  · show (if commits w c s t o then _ else s.w) = s.w
    rw [hc]; rfl
  · show (if commits w c s t o then _ else s.ver) = s.ver
    rw [hc]; rfl

/-- **No stage after the yield boundary.**  Yield after T1: T2 did not run (no t2 record, no `t2_semantic` call, the
orchestrator cache untouched), no GEL operation, no plan ops, no T4.  Yield after T2: no GEL observation, no plan
ops, no T4, at most the one T2 call.  Yield after the T3 plan: no `rag_once` / speak / T4 (at most the one T2 call). -/
theorem C01_compose_yield_no_later_stage (s : State α) (t : TurnIn α) (o : Oracles α)
    (st : Clem.Sched.Stage) (r : Clem.Sched.YReason) (h : (runTurn w c s t o).yielded = some (st, r)) :
    (st = .T1 → (runTurn w c s t o).t2Ran = false ∧ (runTurn w c s t o).t2Calls = 0 ∧
                (runTurn w c s t o).state.orch = s.orch ∧ (runTurn w c s t o).state.gel = s.gel) ∧
    ((st = .T1 ∨ st = .T2) → (runTurn w c s t o).gelObs = none) ∧
    ((st = .T1 ∨ st = .T2 ∨ st = .T3) →
        (runTurn w c s t o).t4 = none ∧ (runTurn w c s t o).ops = [] ∧ (runTurn w c s t o).t2Calls ≤ 1) := by
  rw [runTurn_yielded] at h
  have hy := yr_of_yield w c s t o st r h
  refine ⟨?_, ?_, ?_⟩
  · intro h1
    subst h1
    have r0 : reach w c s t o 0 = false := by unfold reach; rw [hy]; simp [stageRank]
    have r1 : reach w c s t o 1 = false := by unfold reach; rw [hy]; simp [stageRank]
    have r2 : reach w c s t o 2 = false := by unfold reach; rw [hy]; simp [stageRank]
    have r3 : reach w c s t o 3 = false := by unfold reach; rw [hy]; simp [stageRank]
    refine ⟨r0, ?_, ?_, ?_⟩
    · rw [runTurn_t2Calls, r0, r2]; simp
    · show orchNext w c s t o = s.orch
      unfold orchNext; rw [r0]; simp
    · show gelNext w c s t o = s.gel
      unfold gelNext gelOps gelObsOps gelTickOps gelMaintOps gelMaintOn gelObsOn gelTickOn
      rw [r1, r3]; simp [Clem.Gel.run]
  · intro h12
    have r1 : reach w c s t o 1 = false := by
      unfold reach; rw [hy]; rcases h12 with h | h <;> subst h <;> simp [stageRank]
    show (if gelObsOn w c s t o then _ else none) = none
    unfold gelObsOn; rw [r1]; simp
  · intro h123
    have r2 : reach w c s t o 2 = false := by
      unfold reach; rw [hy]; rcases h123 with h | h | h <;> subst h <;> simp [stageRank]
    refine ⟨by rw [runTurn_t4, r2]; simp, ?_, ?_⟩
    · show (if reach w c s t o 2 then _ else []) = []
      rw [r2]; rfl
    · rw [runTurn_t2Calls, r2]
      split <;> simp

/-- Logical budgets: `wall_ms` absent or positive, `quantum_ms` positive (the validator's ranges), elapsed time 0. -/
def LogicalBudgets (b : Clem.Sched.Budgets) : Prop :=
  (∀ wl, b.wall = some wl → 0 < wl) ∧ 0 < b.quantum.getD 20

theorem shouldYield_consMs {b : Clem.Sched.Budgets} (hb : LogicalBudgets b) :
    Clem.Sched.shouldYield b consMs = none := by
  obtain ⟨hw, hq⟩ := hb
  have hwall : Clem.Sched.wallHit b consMs = false := by
    unfold Clem.Sched.wallHit Clem.Sched.elapsed consMs
    cases hwl : b.wall with
    | none => rfl
    | some wl =>
      have := hw wl hwl
      simp only [Option.getD_some, ge_iff_le, decide_eq_false_iff_not, not_le]
      exact this
  have hh : ∀ x, Clem.Sched.hitEq x (none : Option Int) = false := by intro x; cases x <;> rfl
  have hq' : decide (Clem.Sched.elapsed consMs ≥ b.quantum.getD 20) = false := by
    unfold Clem.Sched.elapsed consMs
    simp only [Option.getD_some, ge_iff_le, decide_eq_false_iff_not, not_le]
    exact hq
  unfold Clem.Sched.shouldYield
  rw [hwall, hq']
  simp [consMs, hh]

/-- **Under logical budgets a turn yields only after T1, T2 or the T3 plan** — never at the T4 / Apply boundaries,
whose counters carry nothing but the elapsed time — **and therefore a yielded turn commits nothing.** -/
theorem C01_compose_logical_yield (s : State α) (t : TurnIn α) (o : Oracles α) (b : Clem.Sched.Budgets)
    (hs : c.sched = some b) (hb : LogicalBudgets b)
    (st : Clem.Sched.Stage) (r : Clem.Sched.YReason) (h : (runTurn w c s t o).yielded = some (st, r)) :
    (st = .T1 ∨ st = .T2 ∨ st = .T3) ∧
    (runTurn w c s t o).apply = none ∧ (runTurn w c s t o).storeCalls = [] ∧
    (runTurn w c s t o).state.w = s.w ∧ (runTurn w c s t o).state.ver = s.ver := by
  obtain ⟨b', hb', pre, cons, post, hl, hsy, _, _⟩ := C01_compose_yield_first_boundary w c s t o st r h
  rw [hs] at hb'; cases hb'
  have hmem : (st, cons) ∈ boundaries w c s t o := by rw [hl]; simp
  have hst : st = .T1 ∨ st = .T2 ∨ st = .T3 := by
    unfold boundaries at hmem
    rcases List.mem_append.1 hmem with hm | hm
    · rcases List.mem_append.1 hm with hm | hm
      · simp only [List.mem_cons, Prod.mk.injEq, List.not_mem_nil, or_false] at hm
        rcases hm with ⟨h1, _⟩ | ⟨h1, _⟩
        · exact Or.inl h1
        · exact Or.inr (Or.inl h1)
      · split at hm
        · simp only [List.mem_cons, Prod.mk.injEq, List.not_mem_nil, or_false] at hm
          exact Or.inr (Or.inr hm.1)
        · cases hm
    · split at hm
      · simp only [List.mem_cons, Prod.mk.injEq, List.not_mem_nil, or_false] at hm
        rcases hm with ⟨_, hc⟩ | ⟨_, hc⟩ <;>
          (rw [hc, shouldYield_consMs hb] at hsy; cases hsy)
      · cases hm
  have hne : st ≠ .Apply := by rcases hst with h | h | h <;> subst h <;> decide
  have := C01_compose_yield_commits_nothing w c s t o st r h hne
  exact ⟨hst, this.1, this.2.1, this.2.2.2.1, this.2.2.2.2⟩

/-! ## per-slice consumption stays within the slice budgets (lifts of the C12 / C11 / C13 clamps) -/

/-- T1: every per-graph run pops at most `max 0 t1_pops` and explores at most `max 0 t1_iters` layers (per graph —
the totals over several graphs can exceed the budget: C17's `C17_Budget_total_exceeds_witness`). -/
theorem C01_compose_slice_t1 (b : Clem.Sched.Budgets) (hs : c.sched = some b) (g : Clem.T1.Graph α) (text : Str) :
    (∀ p, b.t1Pops = some p → ((Clem.T1.oneGraph (t1Cfg c) g text).pops : Int) ≤ Clem.T1.imax 0 p) ∧
    (∀ i, b.t1Iters = some i → (Clem.T1.oneGraph (t1Cfg c) g text).iters ≤ Clem.T1.imax 0 i) := by
  have hb := Clem.T1.C12_budgets (t1Cfg c) g text
  unfold Clem.T1.budgetOk at hb
  simp only [Bool.and_eq_true, decide_eq_true_eq] at hb
  have hcfg : t1Cfg c = { c.t1 with sliceIters := b.t1Iters, slicePops := b.t1Pops } := by
    unfold t1Cfg; rw [hs]
  constructor
  · intro p hp
    have h1 := hb.1.1
    have : Clem.T1.effQueue (t1Cfg c) = Clem.T1.imin c.t1.queueBudget p := by
      rw [hcfg]; unfold Clem.T1.effQueue; simp [hp]
    rw [this] at h1
    unfold Clem.T1.imax at h1 ⊢
    unfold Clem.T1.imin at h1
    split at h1 <;> split at h1 <;> split <;> omega
  · intro i hi
    have h1 := hb.1.2
    have : Clem.T1.effLayers (t1Cfg c) = Clem.T1.imin (Clem.T1.imin c.t1.iterCapLayers c.t1.iterCap) i := by
      rw [hcfg]; unfold Clem.T1.effLayers; simp [hi]
    rw [this] at h1
    unfold Clem.T1.imax at h1 ⊢
    unfold Clem.T1.imin at h1
    split at h1 <;> split at h1 <;> split at h1 <;> split <;> omega

/-- T2: in every turn of every history at most `max 0 t2_k` hits are used downstream (fresh or cached results). -/
theorem C01_compose_slice_t2 (s : State α) (ts : List (TurnIn α × Oracles α)) (hg : GoodState w c s)
    (b : Clem.Sched.Budgets) (hs : c.sched = some b) (k : Int) (hk : b.t2K = some k) :
    ∀ o ∈ (runTurns w c s ts).outs, o.t2.used.length ≤ (max 0 k).toNat := by
  intro o ho
  obtain ⟨s', t, hg', _, rfl⟩ := mem_outs_good w c hg ho
  rw [runTurn_t2]
  have hk' : t2K c = some k := by unfold t2K; rw [hs]; exact hk
  rcases t2Of_good w c s' t.1 t.2 hg' with h0 | ⟨o', qo, hh, qq, mem', h0⟩
  · rw [h0]; simp [emptyT2]
  · rw [h0, Clem.T2.C11_used_is_take, hk']
    simp only [List.length_take]
    omega

/-- T3: the stock planner emits at most `max 0 (min max_ops_per_turn t3_ops)` operations. -/
theorem C01_compose_slice_t3 (s : State α) (t : TurnIn α) (o : Oracles α) (b : Clem.Sched.Budgets)
    (hs : c.sched = some b) (k : Int) (hk : b.t3Ops = some k) (hh : t.hook = false) :
    ((runTurn w c s t o).planOps0.length : Int) ≤ max 0 (min c.maxOps k) := by
  show (((plan0Of w c s t o).ops.length : Nat) : Int) ≤ _
  unfold plan0Of
  split
  · unfold planOf; rw [hh]
    simp only [Bool.false_eq_true, if_false]
    have h := Clem.Props.C13.C13_delib_cap (bundleOf w c s t o)
    have hc : Clem.T3.capsOps (bundleOf w c s t o) = min c.maxOps k := by
      unfold Clem.T3.capsOps bundleOf mkBundle sliceV
      rw [hs]; simp [hk]
    rw [hc] at h; exact h
  · simp

end AnyCarrier

end Clem.Compose
