/-
# C01 (composition) — GEL inside the composed turn: C18's guarantees for every turn of every history

With `graph.enabled` the composed turn (`Clem/Model/Compose.lean`) runs `Clem.Gel.observe` on ALL hits T2 returned,
then (kill switch off, not a dry run) `Clem.Gel.tick` and the merge/split/promotion block before Apply.  The GEL
store after every turn is `Clem.Gel.run` of a list of C18 operations (`mem_outs_gel`), so C18's history theorems
apply to every turn of every history.  Weight clauses are stated at any linearly ordered field (as C18's).
-/
import Clem.Proofs.Compose
import Clem.Props.C18.Main

set_option linter.unusedSectionVars false

namespace Clem.Compose

section AnyCarrier
variable {α : Type} [Clem.T1.Num α] [Clem.T2.Num α] [Clem.T3.PyOrd α] [Clem.Py.Num α] [Clem.Py.NumGel α]
variable (w : World α) (c : Cfg α)

/-- What the turn hands to `observe_retrieval` (when it gets past the T2 boundary): every hit T2 returned (id and
score), in T2's order, with the turn id — not a prefix, not the used hits. -/
theorem C01_compose_gel_observes_all_hits (s : State α) (t : TurnIn α) (o : Oracles α)
    (hon : gelObsOn w c s t o = true) :
    gelObsOps w c s t o =
      [.observe ((runTurn w c s t o).t2.retrieved.map (fun e => (e.id, e.cos))) (some t.turnId)] := by
  unfold gelObsOps
  simp [hon, gelItems, runTurn_t2]

/-- The GEL store after a turn is C18's `run` of: the observation (graph.enabled, not a dry run, past the T2
boundary), then — only when the kill switch is off, the turn is not a dry run and did not yield at or before the T4
boundary — the tick and the maintenance operations. -/
theorem C01_compose_gel_turn (s : State α) (t : TurnIn α) (o : Oracles α) :
    (runTurn w c s t o).state.gel =
      Clem.Gel.run c.gel c.pw s.gel (gelObsOps w c s t o ++ gelTickOps w c s t o ++ gelMaintOps w c s t o) := rfl

/-- no tick and no maintenance in a turn that does not reach Apply -/
theorem C01_compose_gel_uncommitted (s : State α) (t : TurnIn α) (o : Oracles α) (h : commits w c s t o = false) :
    gelTickOps w c s t o = [] ∧ gelMaintOps w c s t o = [] := by
  have ht : gelTickOn w c s t o = false := by
    unfold gelTickOn
    unfold commits committed at h
    cases hg : c.gel.enabled <;> simp_all
  unfold gelTickOps gelMaintOps gelMaintOn
  simp [ht]

end AnyCarrier

section OrderedField
variable {α : Type} [Field α] [LinearOrder α] [IsStrictOrderedRing α]
variable [Clem.T1.Num α] [Clem.T2.Num α] [Clem.T3.PyOrd α]
variable (w : World α) (c : Cfg α)

/-- **C18, canonical keys.**  After every turn of every history started without a GEL store, every edge record
sits under the canonical key of its endpoints (`src ≤ dst`, `key = src→dst`), one record per key. -/
theorem C01_compose_gel_keys_canonical (s : State α) (ts : List (TurnIn α × Oracles α)) (h0 : s.gel = none) :
    ∀ o ∈ (runTurns w c s ts).outs, Clem.Gel.canonB (Clem.Gel.edgesOf o.state.gel) = true := by
  intro o ho
  obtain ⟨ops, he, _⟩ := mem_outs_gel w c ho
  rw [he, h0]
  exact Clem.Gel.C18_keys_canonical_history c.gel c.pw ops

/-- **C18, bounds.**  With `clamp_min ≤ 0 ≤ clamp_max` (the repaired validator's range) and Python's `**` obeying
`0 ≤ ½ ** x ≤ 1`, after every turn of every history every co-activation edge weight lies in
`[clamp_min, clamp_max]` … -/
theorem C01_compose_gel_bounded_coact (s : State α) (ts : List (TurnIn α × Oracles α)) (h0 : s.gel = none)
    (hpw : Clem.Gel.PowLaw c.pw) (hlo : c.gel.cmin ≤ 0) (hhi : 0 ≤ c.gel.cmax) :
    ∀ o ∈ (runTurns w c s ts).outs, Clem.Gel.boundedCoactB c.gel (Clem.Gel.edgesOf o.state.gel) = true := by
  intro o ho
  obtain ⟨ops, he, _⟩ := mem_outs_gel w c ho
  rw [he, h0]
  exact Clem.Gel.C18_bounded_coact_history c.gel c.pw hpw hlo hhi ops

/-- … and, with promotions off, EVERY edge weight does. -/
theorem C01_compose_gel_bounded (s : State α) (ts : List (TurnIn α × Oracles α)) (h0 : s.gel = none)
    (hpw : Clem.Gel.PowLaw c.pw) (hlo : c.gel.cmin ≤ 0) (hhi : 0 ≤ c.gel.cmax) (hp : c.doPromo = false) :
    ∀ o ∈ (runTurns w c s ts).outs, Clem.Gel.boundedB c.gel (Clem.Gel.edgesOf o.state.gel) = true := by
  intro o ho
  obtain ⟨ops, he, hn⟩ := mem_outs_gel w c ho
  rw [he, h0]
  exact Clem.Gel.C18_bounded_history c.gel c.pw hpw hlo hhi ops (fun p hm => absurd hm (hn hp p))

/-- **C18, gate.**  With `graph.enabled = false` no turn of any history touches (or creates) the GEL store. -/
theorem C01_compose_gel_gate_off (s : State α) (ts : List (TurnIn α × Oracles α)) (hoff : c.gel.enabled = false) :
    ∀ o ∈ (runTurns w c s ts).outs, o.state.gel = s.gel := by
  intro o ho
  obtain ⟨ops, he, _⟩ := mem_outs_gel w c ho
  rw [he]
  exact (Clem.Gel.C18_gate_off_identity c.gel c.pw s.gel hoff).2.2.2.2.2.2 ops

end OrderedField

end Clem.Compose
