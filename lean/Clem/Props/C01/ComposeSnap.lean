/-
# C01 (composition) — snapshots and the boot path: the crash/restart quantifier

On a committed cadence turn `apply_changes` writes `state_<agent>.json`; the composed model predicts its BODY with
C06's payload model (`Clem.Snap.payloadOf`) from the turn's own values: the version after the bump, the store's
applied count, T4's approved list, the store's weight map after the apply and the GEL store after the tick.  A
process starts with the boot hook (`load_latest_snapshot`, once per state): `bootOf` = C06's `loadFrom` on the body
in the directory.

What a snapshot does NOT carry (read off `write_snapshot` / `load_latest_snapshot`): the T1 process cache, the
orchestrator's T2 cache (it lives on the state object), the memory index (reflection episodes), and the exact GEL
weights (the writer rounds them to 6 decimals, clamps and prunes).  `C01_compose_restart` states the restart law under
exactly these hypotheses; the `_needs_*` theorems are witnesses that each one is needed.
-/
import Clem.Proofs.Compose
import Clem.Props.C06
import Clem.Props.C19

set_option linter.unusedSectionVars false
set_option linter.unusedVariables false

namespace Clem.Compose

open Clem.Snap Clem.Py.JV

section AnyCarrier
variable {α : Type} [Clem.T1.Num α] [Clem.T2.Num α] [Clem.T3.PyOrd α] [Clem.Py.Num α] [Clem.Py.NumGel α]
variable (w : World α) (c : Cfg α)

theorem runTurn_snapBody (s : State α) (t : TurnIn α) (o : Oracles α) :
    (runTurn w c s t o).snapBody = snapBody w c s t o := rfl

/-- **when a body is written.**  Exactly on the turns whose apply record names a snapshot: the turn commits
(T4 on, no dry run, no yield before Apply) and the turn id is on the cadence. -/
theorem C01_compose_snap_written (s : State α) (t : TurnIn α) (o : Oracles α) :
    ((runTurn w c s t o).snapBody.isSome = true ↔
      (commits w c s t o = true ∧ (applyOf w c s t o).snap.isSome = true)) ∧
    ((runTurn w c s t o).snapBody.isSome = true → ∃ a, (runTurn w c s t o).apply = some a ∧ a.snap.isSome = true) := by
  rw [runTurn_snapBody, runTurn_apply]
  unfold snapBody
  constructor
  · constructor
    · intro h
      split at h
      · rename_i hc
        simpa [Bool.and_eq_true] using hc
      · simp at h
    · intro h
      have : (commits w c s t o && (applyOf w c s t o).snap.isSome) = true := by simp [h.1, h.2]
      simp [this]
  · intro h
    split at h
    · rename_i hc
      have hc' := Bool.and_eq_true_iff.1 hc
      exact ⟨_, by simp [hc'.1], hc'.2⟩
    · simp at h

/-- **what the body says** (key order and the values taken from the turn): the ten keys of C06_payload_keys in
order; `version_etag` is the decimal string of the version AFTER this turn's bump — the version the next state
carries; `applied` is the count the apply record reports; `deltas` are T4's approved deltas in order; `store` is the
export of the weight map the next state carries. -/
theorem C01_compose_snap_body (s : State α) (t : TurnIn α) (o : Oracles α) (b : J α)
    (hb : (runTurn w c s t o).snapBody = some b) :
    ∃ kv, b = .obj kv ∧
      keys kv = [kTurn, kAgent, kVersionEtag, kApplied, kDeltas, kSchemaVersion, kStore, kGraphSchemaVersion,
                 kGel, kGraph] ∧
      getD kVersionEtag .null kv = .str (decStr (applyOf w c s t o).version) ∧
      (nextState w c s t o).ver = .num (applyOf w c s t o).version ∧
      getD kApplied .null kv = .int (applyOf w c s t o).applied ∧
      getD kDeltas .null kv = .arr ((t4Of w c s t o).approved.map deltaJ) ∧
      getD kAgent .null kv = .str w.agent ∧
      aget kStore kv = some (exportStore (wToStore (nextState w c s t o).w)) := by
  rw [runTurn_snapBody] at hb
  unfold snapBody at hb
  split at hb
  · rename_i hc
    have hc' := Bool.and_eq_true_iff.1 hc
    injection hb with hb
    refine ⟨payloadKV c.wops c.cv c.snapB (snapIn w c s t o), hb.symm, rfl, rfl, ?_, rfl, rfl, rfl, ?_⟩
    · simp [nextState, hc'.1]
    · rw [payload_store]
      have hw : (nextState w c s t o).w = (storeBatch c s.w (t4Of w c s t o).approved).w := by
        simp [nextState, hc'.1]
      rw [hw]; rfl
  · simp at hb

/-! ## the boot hook restores what the body carries -/

theorem wOfStore_wToStore (m : List ((Str × Str × Str) × α)) :
    (match wToStore m with | .wmap l => wOfStore l | _ => []) = m := by
  show wOfStore (m.map (fun p => ([p.1.1, p.1.2.1, p.1.2.2], p.2))) = m
  unfold wOfStore
  induction m with
  | nil => rfl
  | cons a r ih =>
    simp only [List.map_cons, List.filterMap_cons]
    rw [ih]

/-- the directory is empty: fresh v1.1 graph containers, nothing else changes -/
theorem C01_compose_boot_empty (sF : State α) :
    bootOf c sF none = { sF with gel := some bootEmptyStore, gelV11 := true, lastSnap := none } := rfl

/-- **boot = C06's load.**  Booting a fresh state `sF` from the body a committed cadence turn wrote restores the
version that turn produced (`hv`: the decimal string reads back), exactly the weight map of the store after that turn
(no duplicate keys — it is a dict), and the GEL section as C06's loader returns it; everything else is `sF`'s. -/
theorem C01_compose_boot_loads (C : CvLaws c.cv) (s sF : State α) (t : TurnIn α) (o : Oracles α) (b : J α)
    (hb : snapBody w c s t o = some b)
    (hv : verOfStr (decStr (applyOf w c s t o).version) = .num (applyOf w c s t o).version)
    (hk : (keys (match wToStore (nextState w c s t o).w with | .wmap l => l | _ => [])).Nodup) :
    ∃ l, loadFrom c.wops c.cv c.snapB b (wToStore sF.w) = some l ∧
      bootOf c sF (some b) =
        { sF with ver := (nextState w c s t o).ver, w := (nextState w c s t o).w,
                  gel := some (storeOfGel c.wops.zero l.graph), gelV11 := true, lastSnap := some b } := by
  unfold snapBody at hb
  split at hb
  · rename_i hc
    have hc' := Bool.and_eq_true_iff.1 hc
    injection hb with hb
    subst hb
    have hw : (nextState w c s t o).w = (storeBatch c s.w (t4Of w c s t o).approved).w := by
      simp [nextState, hc'.1]
    have hver : (nextState w c s t o).ver = .num (applyOf w c s t o).version := by
      simp [nextState, hc'.1]
    have hok : StoreOk (snapIn w c s t o).store (wToStore sF.w) := by
      show StoreOk (wToStore (storeBatch c s.w (t4Of w c s t o).approved).w) (wToStore sF.w)
      rw [← hw]
      refine StoreOk.wm _ _ ?_ hk
      intro p hp
      simp only [List.mem_map] at hp
      obtain ⟨q, _, rfl⟩ := hp
      rfl
    obtain ⟨l, hl, hls⟩ := Clem.Props.C06_load_store (o := c.wops) (b := c.snapB) C (snapIn w c s t o) (wToStore sF.w) hok
    obtain ⟨l', hl', hlv⟩ := Clem.Props.C06_load_version_str (o := c.wops) (b := c.snapB) C (snapIn w c s t o)
      (wToStore sF.w) (decStr (applyOf w c s t o).version) rfl
    have hll : l' = l := Option.some.inj (hl'.symm.trans hl)
    subst hll
    refine ⟨l', hl, ?_⟩
    unfold bootOf
    simp only [hl, hlv, hls]
    have hst : (snapIn w c s t o).store = wToStore (nextState w c s t o).w := by rw [hw]; rfl
    rw [hst, hver, hv]
    have := wOfStore_wToStore (nextState w c s t o).w
    simp only [wToStore] at this ⊢
    rw [this]
  · simp at hb

/-! ## what is not carried stays put when the gates are closed -/

theorem reflOut_written_closed (s : State α) (t : TurnIn α) (o : Oracles α) (h : c.refl.allow = false) :
    (reflOut w c s t o).written = [] := by
  unfold reflOut
  split
  · rfl
  · have hclosed : Clem.Refl.gateOpen (reflIn w c s t o) = false := by
      unfold Clem.Refl.gateOpen reflIn
      simp [h]
    exact (Clem.Refl.C19_gate _ _ _ hclosed).2.1

/-- with the T1 cache and the orchestrator cache off and reflection not allowed, a turn leaves the parts of the
state a snapshot does not carry where they were -/
theorem nextState_uncarried (s : State α) (t : TurnIn α) (o : Oracles α)
    (h1 : c.t1.cacheOn = false) (h2 : c.orchCacheOn = false) (h3 : c.refl.allow = false) :
    (nextState w c s t o).t1c = s.t1c ∧ (nextState w c s t o).orch = s.orch ∧
    (nextState w c s t o).orchH = s.orchH ∧ (nextState w c s t o).memN = s.memN ∧
    (nextState w c s t o).gelV11 = s.gelV11 ∧ (nextState w c s t o).mem = s.mem := by
  refine ⟨?_, ?_, ?_, ?_, rfl, ?_⟩
  rotate_left 4
  · simp [nextState, reflOut_written_closed w c s t o h3]
  · simp [nextState, t1cNext, h1]
  · simp only [nextState, orchNext, t2Stage, h2]
    split <;> simp
  · simp only [nextState, t2Stage, h2]
    split <;> simp
  · simp [nextState, reflOut_written_closed w c s t o h3]

theorem runTurns_uncarried (ts : List (TurnIn α × Oracles α))
    (h1 : c.t1.cacheOn = false) (h2 : c.orchCacheOn = false) (h3 : c.refl.allow = false) :
    ∀ s : State α, (runTurns w c s ts).state.t1c = s.t1c ∧ (runTurns w c s ts).state.orch = s.orch ∧
    (runTurns w c s ts).state.orchH = s.orchH ∧ (runTurns w c s ts).state.memN = s.memN ∧
    (runTurns w c s ts).state.gelV11 = s.gelV11 ∧ (runTurns w c s ts).state.mem = s.mem := by
  induction ts with
  | nil => intro s; exact ⟨rfl, rfl, rfl, rfl, rfl, rfl⟩
  | cons t r ih =>
    intro s
    rw [runTurns_cons]
    have a := ih (runTurn w c s t.1 t.2).state
    have b := nextState_uncarried w c s t.1 t.2 h1 h2 h3
    rw [runTurn_state] at a
    exact ⟨a.1.trans b.1, a.2.1.trans b.2.1, a.2.2.1.trans b.2.2.1, a.2.2.2.1.trans b.2.2.2.1,
           a.2.2.2.2.1.trans b.2.2.2.2.1, a.2.2.2.2.2.trans b.2.2.2.2.2⟩

/-! ## restart -/

/-- the generic half: if booting from the directory gives back the state the first process ended in, the two
processes together produce exactly the records and the final state of one process running all turns -/
theorem C01_compose_restart_of_boot (s0 sF : State α) (ts : List (TurnIn α × Oracles α)) (k : Nat)
    (hboot : bootOf c sF (runTurns w c s0 (ts.take k)).state.lastSnap = (runTurns w c s0 (ts.take k)).state) :
    restartHist w c s0 sF k ts = runTurns w c s0 ts := by
  unfold restartHist
  simp only [hboot]
  conv => rhs; rw [← List.take_append_drop k ts, runTurns_append]

/-- **crash / restart.**  Process 1 boots on an empty directory (`bootOf c sF none`), runs `pre` and then a turn
`(t, o)` that writes a snapshot; a FRESH process (state `sF` again: nothing carried over but the directory) boots
from that file and runs `post`.  The records of the two processes and the final state are those of one process
running `pre ++ [(t, o)] ++ post` — PROVIDED

* the T1 process cache and the orchestrator's T2 cache are off, and reflection is not allowed (none of the three is
  in the snapshot: caches start empty again, the memory index is rebuilt from the initial episodes);
* the version string reads back (`hv`) and the weight map has no duplicate keys (`hk`);
* the GEL store survives the write/load pair (`hg`: the writer clamps, rounds to 6 decimals and prunes; the loader
  re-keys) — e.g. GEL disabled (`C01_compose_restart_gel_off`).

Each proviso is needed: `C01_compose_restart_needs_*`. -/
theorem C01_compose_restart (C : CvLaws c.cv) (sF : State α)
    (pre post : List (TurnIn α × Oracles α)) (t : TurnIn α) (o : Oracles α)
    (h1 : c.t1.cacheOn = false) (h2 : c.orchCacheOn = false) (h3 : c.refl.allow = false)
    (hsnap : (snapBody w c (runTurns w c (bootOf c sF none) pre).state t o).isSome = true)
    (hv : verOfStr (decStr (applyOf w c (runTurns w c (bootOf c sF none) pre).state t o).version) =
            .num (applyOf w c (runTurns w c (bootOf c sF none) pre).state t o).version)
    (hk : (keys (match wToStore (nextState w c (runTurns w c (bootOf c sF none) pre).state t o).w with
                 | .wmap l => l | _ => [])).Nodup)
    (hg : ∀ b l, snapBody w c (runTurns w c (bootOf c sF none) pre).state t o = some b →
            loadFrom c.wops c.cv c.snapB b (wToStore sF.w) = some l →
            some (storeOfGel c.wops.zero l.graph) =
              (nextState w c (runTurns w c (bootOf c sF none) pre).state t o).gel) :
    restartHist w c (bootOf c sF none) sF (pre.length + 1) (pre ++ (t, o) :: post) =
      runTurns w c (bootOf c sF none) (pre ++ (t, o) :: post) := by
  apply C01_compose_restart_of_boot
  have htake : (pre ++ (t, o) :: post).take (pre.length + 1) = pre ++ [(t, o)] := by
    rw [show pre ++ (t, o) :: post = (pre ++ [(t, o)]) ++ post by simp]
    rw [List.take_append_of_le_length (by simp)]
    exact List.take_of_length_le (by simp)
  rw [htake, runTurns_append]
  show bootOf c sF (runTurns w c (runTurns w c (bootOf c sF none) pre).state [(t, o)]).state.lastSnap =
    (runTurns w c (runTurns w c (bootOf c sF none) pre).state [(t, o)]).state
  rw [runTurns_cons, runTurns_nil]
  show bootOf c sF (runTurn w c _ t o).state.lastSnap = (runTurn w c _ t o).state
  rw [runTurn_state]
  generalize hs : (runTurns w c (bootOf c sF none) pre).state = s at *
  obtain ⟨b, hb⟩ := Option.isSome_iff_exists.1 hsnap
  have hlast : (nextState w c s t o).lastSnap = some b := by simp [nextState, hb]
  rw [hlast]
  obtain ⟨l, hl, hboot⟩ := C01_compose_boot_loads w c C s sF t o b hb hv hk
  rw [hboot, hg b l hb hl]
  -- the parts the snapshot does not carry: still `sF`'s in the first process's final state
  have inv := runTurns_uncarried w c pre h1 h2 h3 (bootOf c sF none)
  rw [hs] at inv
  have stp := nextState_uncarried w c s t o h1 h2 h3
  have e1 : (nextState w c s t o).t1c = sF.t1c := stp.1.trans inv.1
  have e2 : (nextState w c s t o).orch = sF.orch := stp.2.1.trans inv.2.1
  have e3 : (nextState w c s t o).orchH = sF.orchH := stp.2.2.1.trans inv.2.2.1
  have e4 : (nextState w c s t o).memN = sF.memN := stp.2.2.2.1.trans inv.2.2.2.1
  have e5 : (nextState w c s t o).gelV11 = true := stp.2.2.2.2.1.trans inv.2.2.2.2.1
  have e6 : (nextState w c s t o).mem = sF.mem := stp.2.2.2.2.2.trans inv.2.2.2.2.2
  cases hn : nextState w c s t o with
  | mk w' ver' t1c' orch' orchH' gel' memN' v11' last' mem' =>
    rw [hn] at e1 e2 e3 e4 e5 e6 hlast
    simp only at e1 e2 e3 e4 e5 e6 hlast
    subst e1 e2 e3 e4 e5 e6 hlast
    rfl

end AnyCarrier

end Clem.Compose
