/-
# C01 (composition) — the composed turn-level cache refines C15's `_NamespaceCache` (TTL + LRU)

The composed model keeps the orchestrator's turn-level T2 cache as an association list (`State.orch`) and documents the
regime "no TTL expiry, no capacity eviction inside a history".  Here that regime is made a THEOREM against C15's
executable model of `clematis/engine/cache.py` (`Clem.TtlLru.Ns`: OrderedDict, TTL on read, LRU eviction on write):
with the harness's key normalisation `enc` (injective up to the key equality `okeyEq`) and any value encoding `val`,
a `_NamespaceCache` that holds the same keys with the same values (`SimC`)

* answers the turn's lookup exactly as the composed model does — hit / miss and the value served — whenever the entry
  looked up is not expired (`ttl = 0` or its age within the TTL), and
* after the turn's `get` (+ `set` on a miss, when the cap leaves room) again holds the same keys and values as the
  composed cache after the turn.

So C15's theorems about `get` / `set` (a hit is served only from a fresh entry and returns that entry's value; the key
just written is retrievable; nothing is evicted while there is room; unique keys, size bound) transfer to the cache
the composed turn models, and the "no expiry / no eviction" assumption is exactly: `ttl = 0 ∨ age ≤ ttl` at every
lookup and `len + 1 ≤ max` at every insert.
-/
import Clem.Proofs.Compose
import Clem.Props.C15.TtlLru

set_option linter.unusedSectionVars false
set_option linter.unusedVariables false

namespace Clem.Compose

open Clem.TtlLru

section AnyCarrier
variable {α : Type} [Clem.T1.Num α] [Clem.T2.Num α] [Clem.T3.PyOrd α] [Clem.Py.Num α] [Clem.Py.NumGel α]
variable (w : World α) (c : Cfg α)
variable (enc : OrchKey α → Nat) (val : Clem.T2.Out α → Nat)

/-- the composed cache and a `_NamespaceCache` hold the same keys (under `enc`) with the same values (under `val`) -/
def SimC (orch : List (OrchKey α × Clem.T2.Out α)) (ns : Ns) : Prop :=
  (∀ n, n ∈ ns.items.map Entry.key ↔ ∃ p ∈ orch, enc p.1 = n) ∧
  (∀ e ∈ ns.items, ∀ p ∈ orch, enc p.1 = e.key → val p.2 = e.val)

theorem lookup_some_mem {k : Nat} {l : List Entry} {e : Entry} (h : lookup k l = some e) : e ∈ l ∧ e.key = k := by
  unfold lookup at h
  exact ⟨List.mem_of_find?_eq_some h, by simpa using List.find?_some h⟩

theorem lookup_none_iff {k : Nat} {l : List Entry} : lookup k l = none ↔ k ∉ l.map Entry.key := by
  unfold lookup
  rw [List.find?_eq_none]
  constructor
  · intro h hk
    obtain ⟨e, he, hek⟩ := List.mem_map.1 hk
    exact h e he (by simp [hek])
  · intro h e he hek
    exact h (List.mem_map.2 ⟨e, he, by simpa using hek⟩)

theorem mem_keys_without {k n : Nat} {l : List Entry} :
    n ∈ (without k l).map Entry.key ↔ n ∈ l.map Entry.key ∧ n ≠ k := by
  unfold without
  simp only [List.mem_map, List.mem_filter]
  constructor
  · rintro ⟨e, ⟨he, hk⟩, rfl⟩
    exact ⟨⟨e, he, rfl⟩, by simpa using hk⟩
  · rintro ⟨⟨e, he, rfl⟩, hk⟩
    exact ⟨e, ⟨he, by simpa using hk⟩, rfl⟩

/-- **the composed turn-level cache refines `_NamespaceCache`** (cache on).  `henc`: the normalised keys are equal
exactly when the composed model's key equality holds. -/
theorem C01_compose_cache_refines_ttl_lru (s : State α) (t : TurnIn α) (o : Oracles α) (ns : Ns) (now : Int)
    (henc : ∀ a b : OrchKey α, okeyEq a b = (enc a == enc b)) (hon : c.orchCacheOn = true)
    (hsim : SimC enc val s.orch ns)
    (hfresh : ∀ e, lookup (enc (orchKey w c s t)) ns.items = some e → ns.ttl = 0 ∨ now - e.ts ≤ ns.ttl) :
    let k := enc (orchKey w c s t)
    let st := t2Stage w c s t o
    let r := ns.get now k
    (r.2.isSome = st.hit) ∧
    (st.hit = true → r.2 = some (val st.out) ∧ SimC enc val st.orch r.1) ∧
    (st.hit = false → ((ns.items.length : Int) + 1 ≤ ns.max) →
      SimC enc val st.orch (r.1.set now k (val st.out)).1 ∧ (r.1.set now k (val st.out)).2 = some 0) := by
  intro k st r
  have hst : st = t2Stage w c s t o := rfl
  cases hf : s.orch.find? (fun e => okeyEq e.1 (orchKey w c s t)) with
  | some p =>
    -- the composed model hits: the namespace holds the key too
    have hp : p ∈ s.orch := List.mem_of_find?_eq_some hf
    have hpk : enc p.1 = k := by
      have := List.find?_some hf
      rw [henc] at this
      simpa using this
    have hk : k ∈ ns.items.map Entry.key := (hsim.1 k).2 ⟨p, hp, hpk⟩
    obtain ⟨e, he⟩ : ∃ e, lookup k ns.items = some e := by
      cases hl : lookup k ns.items with
      | some e => exact ⟨e, rfl⟩
      | none => exact absurd hk (lookup_none_iff.1 hl)
    obtain ⟨hget, hitems⟩ := C15_ttl_get_fresh_hits ns now k e he (hfresh e he)
    have hhit : st.hit = true := by
      rw [hst]; unfold t2Stage; simp [hon, hf]
    have hout : st.out = p.2 := by
      rw [hst]; unfold t2Stage; simp [hon, hf]
    have horch : st.orch = s.orch := by
      rw [hst]; unfold t2Stage; simp [hon, hf]
    have hem := lookup_some_mem he
    have hval : val p.2 = e.val := hsim.2 e hem.1 p hp (by rw [hpk, hem.2])
    refine ⟨by rw [hhit, hget]; rfl, ?_, fun h => absurd hhit (by rw [h]; simp)⟩
    intro _
    refine ⟨by rw [hget, hout, hval], ?_⟩
    rw [horch]
    constructor
    · intro n
      show n ∈ (ns.get now k).1.items.map Entry.key ↔ _
      rw [hitems, List.map_append, List.mem_append, mem_keys_without, ← hsim.1 n]
      constructor
      · rintro (⟨h, _⟩ | h)
        · exact h
        · simp only [List.map_cons, List.map_nil, List.mem_singleton] at h
          rw [h, hem.2]; exact hk
      · intro h
        by_cases hn : n = k
        · right; simp [hn, hem.2]
        · left; exact ⟨h, hn⟩
    · intro e' he' p' hp' hk'
      have he'' : e' ∈ (ns.get now k).1.items := he'
      rw [hitems] at he''
      rcases List.mem_append.1 he'' with h | h
      · have : e' ∈ ns.items := (List.mem_filter.1 h).1
        exact hsim.2 e' this p' hp' hk'
      · rw [List.mem_singleton] at h
        rw [h] at hk' ⊢
        exact hsim.2 e hem.1 p' hp' hk'
  | none =>
    -- the composed model misses: no entry under that key in the namespace either
    have hno : ∀ p ∈ s.orch, enc p.1 ≠ k := by
      intro p hp hpk
      have := List.find?_eq_none.1 hf p hp
      rw [henc] at this
      exact this (by simp [hpk, k])
    have hk : k ∉ ns.items.map Entry.key := by
      intro h
      obtain ⟨p, hp, hpk⟩ := (hsim.1 k).1 h
      exact hno p hp hpk
    have hl : lookup k ns.items = none := lookup_none_iff.2 hk
    have hget : ns.get now k = (ns, none) := by unfold Ns.get; rw [hl]
    have hhit : st.hit = false := by
      rw [hst]; unfold t2Stage; simp [hon, hf]
    have horch : st.orch = s.orch ++ [(orchKey w c s t, st.out)] := by
      rw [hst]; unfold t2Stage; simp [hon, hf]
    refine ⟨by rw [hhit]; show (ns.get now k).2.isSome = false; rw [hget]; rfl, fun h => absurd h (by rw [hhit]; simp), ?_⟩
    intro _ hroom
    have hr : r = (ns, none) := hget
    have hwo : without k ns.items = ns.items := by
      unfold without
      rw [List.filter_eq_self]
      intro e he
      have : e.key ≠ k := fun h => hk (List.mem_map.2 ⟨e, he, h⟩)
      simpa using this
    have hset := C15_ttl_set_no_eviction_when_room ns now k (val st.out) (by rw [hwo]; exact hroom)
    rw [hr]
    refine ⟨?_, hset.2⟩
    rw [horch]
    constructor
    · intro n
      rw [hset.1, hwo, List.map_append, List.mem_append]
      constructor
      · rintro (h | h)
        · obtain ⟨p, hp, hpn⟩ := (hsim.1 n).1 h
          exact ⟨p, List.mem_append_left _ hp, hpn⟩
        · simp only [List.map_cons, List.map_nil, List.mem_singleton] at h
          exact ⟨(orchKey w c s t, st.out), by simp, h.symm⟩
      · rintro ⟨p, hp, hpn⟩
        rcases List.mem_append.1 hp with h | h
        · left; exact (hsim.1 n).2 ⟨p, h, hpn⟩
        · right
          rw [List.mem_singleton] at h
          simp only [List.map_cons, List.map_nil, List.mem_singleton]
          rw [← hpn, h]
    · intro e' he' p' hp' hk'
      rw [hset.1, hwo] at he'
      rcases List.mem_append.1 he' with h | h
      · rcases List.mem_append.1 hp' with h' | h'
        · exact hsim.2 e' h p' h' hk'
        · rw [List.mem_singleton] at h'
          rw [h'] at hk'
          exact absurd (List.mem_map.2 ⟨e', h, hk'.symm⟩) hk
      · rw [List.mem_singleton] at h
        rw [h] at hk' ⊢
        rcases List.mem_append.1 hp' with h' | h'
        · exact absurd hk' (hno p' h')
        · rw [List.mem_singleton] at h'
          rw [h']

/-- the empty caches correspond -/
theorem simC_init (max ttl : Int) : SimC enc val ([] : List (OrchKey α × Clem.T2.Out α)) (Ns.init max ttl) :=
  ⟨fun n => by simp [Ns.init], fun e he => by simp [Ns.init] at he⟩

end AnyCarrier

end Clem.Compose
