/-
# C01 × C05 (composition) — the orchestrator's turn-level T2 cache is TRANSPARENT along a history

`t2Stage` serves a cached `Clem.T2.Out` when the turn's key `(version, text, agent, T1 delta ids, index version,
GEL edges)` digests equal to a stored one (`okeyEq`).  This file proves that what is served IS what the stage would
compute now (hit = fresh), for every turn of every history that starts with an empty cache — no bound on the length.

What makes a stored value still right, component by component of the key:
* text + T1 delta ids  ⇒ the same query text (`qOf` is `queryText text (changedLabels graphs ids)`: the world is fixed);
* index version = `mem.length`, and the memory index is APPEND-ONLY along a history: the entry was computed at a
  `mem'` that is a prefix of the current `mem` (`EntryGood`), equal length ⇒ equal list;
* GEL edges: only read by the hybrid reranker.  With `t2.hybrid.enabled = false` the result does not depend on the
  store (`t2Call_hyb_off`).  With hybrid ON the key holds the edges up to `edgesSame` (set-like equality, weights by
  `NumGel.eq`); invariance of `Clem.T2.hybrid` under that relation is NOT proved here — the theorems are `_partial`
  (hypothesis `c.hyb.enabled = false`);
* the similarity ORACLES are turn inputs of the model (in the code: the embedding adapter and the index, functions of
  query text and index contents): the hypothesis `Coherent` says that a later turn with the same input text is given
  oracles that agree with the earlier turn's on what that earlier call read (`oView`: the entry of the query it looked
  up, `now`, the descriptions of the memory entries that existed).  It is needed: `C01_compose_orch_cache_needs_coherence`.

LIFT (`C01_compose_orch_cache_off_history_partial`, `…_on_eq_off_partial`): the run with the cache ON and the run with it OFF
stay in step over the whole history — same states up to the cache, same `visible` outputs.  Two places read the cache
FLAGS and need an argument: the reflection tail's fallback snippets (`arts = []` after a hit; irrelevant because the
fallback is only consulted when the retrieved texts are all empty: `Clem.Refl.gather_arts_irrelevant`) and the apply
record's invalidation count (not part of `visible`; version / snapshot / applied do not read the cache manager).
-/
import Clem.Props.C01.Compose

set_option linter.unusedSectionVars false
set_option linter.unusedVariables false

namespace Clem.Compose

section AnyCarrier
variable {α : Type} [Clem.T1.Num α] [Clem.T2.Num α] [Clem.T3.PyOrd α] [Clem.Py.Num α] [Clem.Py.NumGel α]
variable (w : World α) (c : Cfg α)

/-! ## what a T2 call reads -/

/-- what one `t2_semantic` call on the query text `q`, with `n` written memory entries, reads from the turn's oracles:
the entry of `q`, `now`, the descriptions of the first `n` written entries -/
def oView (o : Oracles α) (q : Str) (n : Nat) : Option (QOracle α) × Int × List (Clem.T2.Ep α) :=
  (lookupQ o q, o.nowUs, o.memEps.take n)

theorem zipWith_memEp_take (mem : List Clem.Refl.Written) (es : List (Clem.T2.Ep α)) :
    List.zipWith memEp mem es = List.zipWith memEp mem (es.take mem.length) := by
  induction mem generalizing es with
  | nil => simp
  | cons m ms ih =>
    cases es with
    | nil => simp
    | cons e es =>
      simp only [List.length_cons, List.take_succ_cons, List.zipWith_cons_cons]
      rw [← ih es]

/-- a T2 call is a function of the oracle VIEW -/
theorem t2Call_congr_oracle (o o' : Oracles α) (g : Clem.Gel.State α) (q : Str) (mem : List Clem.Refl.Written)
    (h : oView o q mem.length = oView o' q mem.length) : t2Call w c o g q mem = t2Call w c o' g q mem := by
  unfold oView at h
  have h1 : lookupQ o q = lookupQ o' q := congrArg (·.1) h
  have h2 : o.nowUs = o'.nowUs := congrArg (·.2.1) h
  have h3 : o.memEps.take mem.length = o'.memEps.take mem.length := congrArg (·.2.2) h
  have he : epsAt w mem o = epsAt w mem o' := by
    unfold epsAt
    rw [zipWith_memEp_take mem o.memEps, zipWith_memEp_take mem o'.memEps, h3]
  unfold t2Call
  rw [h1, he]
  unfold t2Cfg
  rw [h2]

/-- hybrid reranking off: the call does not read the GEL store -/
theorem t2Call_hyb_off (hh : c.hyb.enabled = false) (o : Oracles α) (g g' : Clem.Gel.State α) (q : Str)
    (mem : List Clem.Refl.Written) : t2Call w c o g q mem = t2Call w c o g' q mem := by
  unfold t2Call Clem.T2.t2 Clem.T2.applyQuality
  simp [hybOf, hh]

/-! ## the invariant -/

/-- the query text a key stands for (text + the labels of the T1 delta ids it digests) -/
def keyQ (k : OrchKey α) : Str := queryText k.1.2 (changedLabels w.graphs k.2.ids)

theorem keyQ_orchKey (s : State α) (t : TurnIn α) : keyQ w (orchKey w c s t) = qOf w c s t := rfl

/-- a cached entry is the fresh result of SOME earlier call: on the query text of its key, at a memory index `mem'` that
is a prefix of the current one and whose length the key records, under oracles `o'` that every remaining turn with the
key's text agrees with (on what that call read) -/
def EntryGood (memNow : List Clem.Refl.Written) (future : List (TurnIn α × Oracles α))
    (e : OrchKey α × Clem.T2.Out α) : Prop :=
  ∃ (o' : Oracles α) (g' : Clem.Gel.State α) (mem' : List Clem.Refl.Written),
    e.2 = (t2Call w c o' g' (keyQ w e.1) mem').getD (emptyT2 c) ∧
    mem' <+: memNow ∧ e.1.2.indexVer = mem'.length ∧
    ∀ p ∈ future, p.1.text = e.1.1.2 → oView p.2 (keyQ w e.1) mem'.length = oView o' (keyQ w e.1) mem'.length

/-- **the invariant**: every entry of the orchestrator's cache is good w.r.t. the turns still to come -/
def OrchGood (s : State α) (future : List (TurnIn α × Oracles α)) : Prop :=
  ∀ e ∈ s.orch, EntryGood w c s.mem future e

/-- **oracle coherence of a history** (from the state it starts in): a later turn with the same input text is given
oracles that agree with the earlier turn's on what the earlier T2 call read -/
def Coherent : State α → List (TurnIn α × Oracles α) → Prop
  | _, [] => True
  | s, p :: ps =>
    (∀ p' ∈ ps, p'.1.text = p.1.text →
      oView p'.2 (qOf w c s p.1) s.mem.length = oView p.2 (qOf w c s p.1) s.mem.length) ∧
    Coherent (nextState w c s p.1 p.2) ps

theorem entryGood_mono {m m' : List Clem.Refl.Written} {f f' : List (TurnIn α × Oracles α)}
    {e : OrchKey α × Clem.T2.Out α} (h : EntryGood w c m f e) (hm : m <+: m') (hf : ∀ p ∈ f', p ∈ f) :
    EntryGood w c m' f' e := by
  obtain ⟨o', g', mem', hv, hp, hl, hc⟩ := h
  exact ⟨o', g', mem', hv, hp.trans hm, hl, fun p hp' => hc p (hf p hp')⟩

theorem orchGood_empty (s : State α) (h : s.orch = []) (f : List (TurnIn α × Oracles α)) : OrchGood w c s f := by
  intro e he; rw [h] at he; cases he

/-- the entry a miss stores is good for the rest of a coherent history -/
theorem entryGood_fresh (s : State α) (p : TurnIn α × Oracles α) (ps : List (TurnIn α × Oracles α))
    (hc : Coherent w c s (p :: ps)) :
    EntryGood w c s.mem ps
      (orchKey w c s p.1, (t2Call w c p.2 s.gel (qOf w c s p.1) s.mem).getD (emptyT2 c)) :=
  ⟨p.2, s.gel, s.mem, rfl, List.prefix_refl _, rfl, hc.1⟩

/-- **hit = fresh** (one state): an entry whose key digests equal to the turn's key holds exactly what the stage
computes now, on this state, with this turn's oracles -/
theorem orchGood_hit_fresh (hh : c.hyb.enabled = false) (s : State α) (p : TurnIn α × Oracles α)
    (ps : List (TurnIn α × Oracles α)) (hg : OrchGood w c s (p :: ps)) (e : OrchKey α × Clem.T2.Out α)
    (he : e ∈ s.orch) (hk : okeyEq e.1 (orchKey w c s p.1) = true) :
    e.2 = (t2Call w c p.2 s.gel (qOf w c s p.1) s.mem).getD (emptyT2 c) := by
  obtain ⟨o', g', mem', hv, hp, hl, hc⟩ := hg e he
  unfold okeyEq at hk
  simp only [Bool.and_eq_true] at hk
  have h1 : e.1.1 = (orchKey w c s p.1).1 := by simpa using hk.1.1.1.1
  have h3 : e.1.2.ids = (orchKey w c s p.1).2.ids := by simpa using hk.1.1.2
  have h4 : e.1.2.indexVer = (orchKey w c s p.1).2.indexVer := by simpa using hk.1.2
  have htext : e.1.1.2 = p.1.text := by rw [h1]; rfl
  have hq : keyQ w e.1 = qOf w c s p.1 := by
    unfold keyQ
    rw [htext, h3]
    rfl
  have hmem : mem' = s.mem := by
    apply hp.eq_of_length
    rw [← hl, h4]
    rfl
  rw [hv, hq, hmem]
  have hv' := hc p (List.mem_cons_self) htext.symm
  rw [hq, hmem] at hv'
  rw [← t2Call_congr_oracle w c p.2 o' g' (qOf w c s p.1) s.mem hv', t2Call_hyb_off w c hh p.2 g' s.gel]

/-- the cache after the T2 section of a turn is good for the rest of the history -/
theorem t2Stage_orchGood (s : State α) (p : TurnIn α × Oracles α) (ps : List (TurnIn α × Oracles α))
    (hg : OrchGood w c s (p :: ps)) (hc : Coherent w c s (p :: ps)) :
    ∀ e ∈ (t2Stage w c s p.1 p.2).orch, EntryGood w c s.mem ps e := by
  have hold : ∀ e ∈ s.orch, EntryGood w c s.mem ps e := fun e he =>
    entryGood_mono w c (hg e he) (List.prefix_refl _) (fun q hq => List.mem_cons_of_mem _ hq)
  unfold t2Stage
  dsimp only
  split
  · split
    · exact hold
    · intro e he
      rcases List.mem_append.1 he with h | h
      · exact hold e h
      · rw [List.mem_singleton] at h
        rw [h]
        exact entryGood_fresh w c s p ps hc
  · exact hold

/-- **the invariant is preserved by a turn** of a coherent history -/
theorem nextState_orchGood (s : State α) (p : TurnIn α × Oracles α) (ps : List (TurnIn α × Oracles α))
    (hg : OrchGood w c s (p :: ps)) (hc : Coherent w c s (p :: ps)) :
    OrchGood w c (nextState w c s p.1 p.2) ps := by
  have hm : s.mem <+: (nextState w c s p.1 p.2).mem := by
    rw [nextState_mem]; exact List.prefix_append _ _
  intro e he
  have he' : e ∈ orchNext w c s p.1 p.2 := he
  unfold orchNext at he'
  split at he'
  · exact entryGood_mono w c (hg e he') hm (fun q hq => List.mem_cons_of_mem _ hq)
  · split at he'
    · cases he'
    · exact entryGood_mono w c (t2Stage_orchGood w c s p ps hg hc e he') hm (fun q hq => hq)

/-- **the invariant holds along every coherent history** (induction over the turn list, no bound): after any prefix,
the state is good — and coherent — for the remaining turns -/
theorem C01_compose_orchGood_history (ts₁ : List (TurnIn α × Oracles α)) :
    ∀ (s : State α) (ts₂ : List (TurnIn α × Oracles α)), OrchGood w c s (ts₁ ++ ts₂) → Coherent w c s (ts₁ ++ ts₂) →
      OrchGood w c (runTurns w c s ts₁).state ts₂ ∧ Coherent w c (runTurns w c s ts₁).state ts₂ := by
  induction ts₁ with
  | nil => intro s ts₂ hg hc; exact ⟨hg, hc⟩
  | cons p r ih =>
    intro s ts₂ hg hc
    rw [runTurns_cons]
    exact ih _ ts₂ (by rw [runTurn_state]; exact nextState_orchGood w c s p (r ++ ts₂) hg hc)
      (by rw [runTurn_state]; exact hc.2)

/-! ## transparency -/

/-- the T2 stage result with the orchestrator's cache switched OFF is the fresh call -/
theorem t2Of_cache_off (s : State α) (t : TurnIn α) (o : Oracles α) :
    t2Of w { c with orchCacheOn := false } s t o = (t2Call w c o s.gel (qOf w c s t) s.mem).getD (emptyT2 c) := rfl

/-- one turn on a good state: what the rest of the turn sees is the fresh result, hit or miss, cache on or off -/
theorem t2Of_transparent (hh : c.hyb.enabled = false) (s : State α) (p : TurnIn α × Oracles α)
    (ps : List (TurnIn α × Oracles α)) (hg : OrchGood w c s (p :: ps)) :
    t2Of w c s p.1 p.2 = (t2Call w c p.2 s.gel (qOf w c s p.1) s.mem).getD (emptyT2 c) := by
  unfold t2Of t2Stage
  dsimp only
  split
  · split
    · rename_i e hfind
      exact orchGood_hit_fresh w c hh s p ps hg e (List.mem_of_find?_eq_some hfind)
        (by simpa using List.find?_some hfind)
    · rfl
  · rfl

/-- **whole-history cache transparency (partial: hybrid reranking off).**  Along any coherent history from a state with
an empty turn-level cache, at EVERY turn the T2 result the rest of the turn sees with the cache as configured (ON) is
(1) what `t2_semantic` computes on the current state with this turn's oracles, (2) what the same turn on the same
state sees with the cache OFF; (3) in particular a HIT serves the value a fresh computation returns now.
MISSING (hence `_partial`): `t2.hybrid.enabled = true` (needs invariance of the reranker under `edgesSame`). -/
theorem C01_compose_orch_cache_transparent_partial (hh : c.hyb.enabled = false) (s : State α) (hs : s.orch = [])
    (ts₁ : List (TurnIn α × Oracles α)) (p : TurnIn α × Oracles α) (ts₂ : List (TurnIn α × Oracles α))
    (hc : Coherent w c s (ts₁ ++ p :: ts₂)) :
    t2Of w c (runTurns w c s ts₁).state p.1 p.2 =
      (t2Call w c p.2 (runTurns w c s ts₁).state.gel (qOf w c (runTurns w c s ts₁).state p.1)
        (runTurns w c s ts₁).state.mem).getD (emptyT2 c) ∧
    t2Of w c (runTurns w c s ts₁).state p.1 p.2 =
      t2Of w { c with orchCacheOn := false } (runTurns w c s ts₁).state p.1 p.2 ∧
    ((t2Stage w c (runTurns w c s ts₁).state p.1 p.2).hit = true →
      (t2Stage w c (runTurns w c s ts₁).state p.1 p.2).out =
        (t2Call w c p.2 (runTurns w c s ts₁).state.gel (qOf w c (runTurns w c s ts₁).state p.1)
          (runTurns w c s ts₁).state.mem).getD (emptyT2 c)) := by
  have hg := (C01_compose_orchGood_history w c ts₁ s (p :: ts₂) (orchGood_empty w c s hs _) hc).1
  have h := t2Of_transparent w c hh _ p ts₂ hg
  exact ⟨h, by rw [t2Of_cache_off]; exact h, fun _ => h⟩

/-- the same for the recorded outputs: the `t2` field of the `i`-th output of the history is the fresh result on the
state the first `i` turns left -/
theorem C01_compose_orch_cache_transparent_outs_partial (hh : c.hyb.enabled = false) (s : State α) (hs : s.orch = [])
    (ts₁ : List (TurnIn α × Oracles α)) (p : TurnIn α × Oracles α) (ts₂ : List (TurnIn α × Oracles α))
    (hc : Coherent w c s (ts₁ ++ p :: ts₂)) :
    ((runTurns w c s (ts₁ ++ p :: ts₂)).outs[ts₁.length]?).map (·.t2) =
      some ((t2Call w c p.2 (runTurns w c s ts₁).state.gel (qOf w c (runTurns w c s ts₁).state p.1)
        (runTurns w c s ts₁).state.mem).getD (emptyT2 c)) := by
  rw [runTurns_append, runTurns_cons]
  dsimp only
  rw [← outs_length w c s ts₁, List.getElem?_append_right (Nat.le_refl _), Nat.sub_self]
  simp only [List.getElem?_cons_zero, Option.map_some, runTurn_t2]
  rw [(C01_compose_orch_cache_transparent_partial w c hh s hs ts₁ p ts₂ hc).1]

end AnyCarrier

end Clem.Compose

/-! ## lift: cache ON vs cache OFF over a whole history -/

namespace Clem.Refl

theorem gather_arts_irrelevant (t : TurnIn) :
    gatherSnippets { t with arts := Clem.Compose.artsOf t.items t.cfg.topk } = gatherSnippets { t with arts := [] } := by
  unfold gatherSnippets extractSnippets
  dsimp only
  split
  · rename_i hk
    split
    · rename_i he
      have hf : t.items.filter nonEmpty = [] := by
        have : 0 < t.cfg.topk.toNat := by omega
        cases hfl : t.items.filter nonEmpty with
        | nil => rfl
        | cons x xs =>
          rw [hfl] at he
          obtain ⟨n, hn⟩ := Nat.exists_eq_succ_of_ne_zero (Nat.pos_iff_ne_zero.1 this)
          rw [hn] at he
          simp at he
      unfold Clem.Compose.artsOf pyTake
      have hk0 : (0:Int) ≤ t.cfg.topk := by omega
      simp only [hk0, if_true]
      have : (t.items.take t.cfg.topk.toNat).filter nonEmpty = [] := by
        rw [List.filter_eq_nil_iff] at hf ⊢
        intro a ha
        exact hf a (List.mem_of_mem_take ha)
      rw [this]
    · rfl
  · rfl

theorem tail_arts (cl : Bool) (c : CtxSt) (t : TurnIn) (a b : List Str) (o : Oracles)
    (h : gatherSnippets { t with arts := a } = gatherSnippets { t with arts := b }) :
    tail cl c { t with arts := a } o = tail cl c { t with arts := b } o := by
  simp only [tail, stashAfter, gateCall, runReflection, afterGate, callReflect, reflectReal, tailOut, writeEntriesAt,
    writeEntries, logOf, headIso, h]

end Clem.Refl

namespace Clem.Compose
section
variable {α : Type} [Clem.T1.Num α] [Clem.T2.Num α] [Clem.T3.PyOrd α] [Clem.Py.Num α] [Clem.Py.NumGel α]
variable (w : World α) (c : Cfg α)

/-- the configuration with the turn-level cache switched off -/
def cacheOff (c : Cfg α) : Cfg α := { c with orchCacheOn := false }
/-- the state without the turn-level cache -/
def unOrch (s : State α) : State α := { s with orch := [], orchH := [] }

variable (s : State α) (t : TurnIn α) (o : Oracles α)
variable (h2 : t2Of w c s t o = (t2Call w c o s.gel (qOf w c s t) s.mem).getD (emptyT2 c))
include h2

theorem off_t2Of : t2Of w (cacheOff c) (unOrch s) t o = t2Of w c s t o := by rw [h2]; rfl
theorem off_bundleOf : bundleOf w (cacheOff c) (unOrch s) t o = bundleOf w c s t o := by
  unfold bundleOf; rw [off_t2Of w c s t o h2]; rfl
theorem off_plan0Of : plan0Of w (cacheOff c) (unOrch s) t o = plan0Of w c s t o := by
  unfold plan0Of; rw [off_bundleOf w c s t o h2]; rfl
theorem off_boundaries : boundaries w (cacheOff c) (unOrch s) t o = boundaries w c s t o := by
  unfold boundaries consT2 consT3; rw [off_plan0Of w c s t o h2, off_t2Of w c s t o h2]; rfl
theorem off_yieldOf : yieldOf w (cacheOff c) (unOrch s) t o = yieldOf w c s t o := by
  unfold yieldOf; rw [off_boundaries w c s t o h2]; rfl
theorem off_reach (k : Nat) : reach w (cacheOff c) (unOrch s) t o k = reach w c s t o k := by
  unfold reach yr; rw [off_yieldOf w c s t o h2]
theorem off_gelOps : gelOps w (cacheOff c) (unOrch s) t o = gelOps w c s t o := by
  unfold gelOps gelObsOps gelTickOps gelMaintOps gelMaintOn gelTickOn gelObsOn gelItems
  simp only [off_reach w c s t o h2, off_t2Of w c s t o h2]; rfl
theorem off_gelAfterObs : gelAfterObs w (cacheOff c) (unOrch s) t o = gelAfterObs w c s t o := by
  unfold gelAfterObs gelObsOps gelObsOn gelItems
  simp only [off_reach w c s t o h2, off_t2Of w c s t o h2]; rfl
theorem off_gelNext : gelNext w (cacheOff c) (unOrch s) t o = gelNext w c s t o := by
  unfold gelNext; rw [off_gelOps w c s t o h2]; rfl
theorem off_ragOf : ragOf w (cacheOff c) (unOrch s) t o = ragOf w c s t o := by
  unfold ragOf; rw [off_bundleOf w c s t o h2, off_plan0Of w c s t o h2, off_gelAfterObs w c s t o h2]; rfl
theorem off_planFinal : planFinal w (cacheOff c) (unOrch s) t o = planFinal w c s t o := by
  unfold planFinal; rw [off_ragOf w c s t o h2]
theorem off_t4Of : t4Of w (cacheOff c) (unOrch s) t o = t4Of w c s t o := by
  unfold t4Of t4InOf; rw [off_planFinal w c s t o h2]; rfl
theorem off_commits : commits w (cacheOff c) (unOrch s) t o = commits w c s t o := by
  unfold commits; rw [off_reach w c s t o h2]; rfl
theorem off_utter : utterOfTurn w (cacheOff c) (unOrch s) t o = utterOfTurn w c s t o := by
  unfold utterOfTurn; rw [off_reach w c s t o h2, off_planFinal w c s t o h2]; rfl

theorem off_reflOut : reflOut w (cacheOff c) (unOrch s) t o = reflOut w c s t o := by
  unfold reflOut
  rw [off_yieldOf w c s t o h2]
  split
  · rfl
  · have e0 : reflIn w (cacheOff c) (unOrch s) t o =
        { reflIn w c s t o with arts := match (ragOf w c s t o).texts2 with
            | some a => artsOf a c.refl.topk
            | none => artsOf ((t2Of w c s t o).retrieved.map (·.text)) c.refl.topk } := by
      unfold reflIn
      rw [off_utter w c s t o h2, off_t2Of w c s t o h2, off_ragOf w c s t o h2]
      rfl
    have hb : (reflIn w c s t o).arts = (match (ragOf w c s t o).texts2 with
        | some a => artsOf a c.refl.topk
        | none => if (t2Stage w c s t o).hit then [] else artsOf ((t2Of w c s t o).retrieved.map (·.text)) c.refl.topk) := rfl
    have key : Clem.Refl.tail true Clem.Refl.CtxSt.fresh (reflIn w (cacheOff c) (unOrch s) t o) reflOrc =
        Clem.Refl.tail true Clem.Refl.CtxSt.fresh { reflIn w c s t o with arts := (reflIn w c s t o).arts } reflOrc := by
      rw [e0]
      apply Clem.Refl.tail_arts
      rw [hb]
      cases (ragOf w c s t o).texts2 with
      | some a => rfl
      | none =>
        cases (t2Stage w c s t o).hit with
        | false => rfl
        | true => exact Clem.Refl.gather_arts_irrelevant (reflIn w c s t o)
    rw [key]

theorem off_apply_version : (applyOf w (cacheOff c) (unOrch s) t o).version = (applyOf w c s t o).version := by
  unfold applyOf; rw [off_t4Of w c s t o h2]; rfl
theorem off_apply_applied : (applyOf w (cacheOff c) (unOrch s) t o).applied = (applyOf w c s t o).applied := by
  unfold applyOf; rw [off_t4Of w c s t o h2]; rfl
theorem off_apply_snap : (applyOf w (cacheOff c) (unOrch s) t o).snap = (applyOf w c s t o).snap := by
  unfold applyOf; rw [off_t4Of w c s t o h2]; rfl
theorem off_apply_calls : (applyOf w (cacheOff c) (unOrch s) t o).calls = (applyOf w c s t o).calls := by
  unfold applyOf; rw [off_t4Of w c s t o h2]; rfl
theorem off_snapBody : snapBody w (cacheOff c) (unOrch s) t o = snapBody w c s t o := by
  unfold snapBody snapIn
  rw [off_commits w c s t o h2, off_apply_snap w c s t o h2, off_apply_version w c s t o h2,
    off_apply_applied w c s t o h2, off_t4Of w c s t o h2, off_gelNext w c s t o h2]
  rfl
theorem off_nextState : nextState w (cacheOff c) (unOrch s) t o = unOrch (nextState w c s t o) := by
  have hw : storeBatch (cacheOff c) = storeBatch c := rfl
  have ht1 : t1cNext w (cacheOff c) (unOrch s) t = t1cNext w c s t := rfl
  have hS : (t2Stage w (cacheOff c) (unOrch s) t o).orch = [] := rfl
  have hH : (t2Stage w (cacheOff c) (unOrch s) t o).orchH = [] := rfl
  have horch : orchNext w (cacheOff c) (unOrch s) t o = [] := by
    unfold orchNext; rw [hS]; simp [unOrch]
  unfold nextState
  rw [off_commits w c s t o h2, off_apply_version w c s t o h2, off_t4Of w c s t o h2, off_gelNext w c s t o h2,
    off_reflOut w c s t o h2, off_snapBody w c s t o h2, ht1, horch, hH, hw]
  unfold unOrch
  simp

/-- what a turn shows that does not mention the cache: the T2 result, the plan bundle, the final plan, the utterance and
line, T4's verdict, what reached the store, the new version, the reflection tail, the snapshot body, the yield -/
def visible (x : TurnOut α) :=
  (x.t2, x.bundle, x.ops, x.deltas, x.utter, x.t4, x.storeCalls, x.line, x.refl, x.snapBody, x.yielded,
   x.apply.map (·.version))

theorem off_visible : visible (runTurn w (cacheOff c) (unOrch s) t o) = visible (runTurn w c s t o) := by
  unfold visible runTurn
  simp only [off_t2Of w c s t o h2, off_bundleOf w c s t o h2, off_reach w c s t o h2, off_planFinal w c s t o h2,
    off_utter w c s t o h2, off_t4Of w c s t o h2, off_commits w c s t o h2, off_apply_calls w c s t o h2,
    off_yieldOf w c s t o h2, off_reflOut w c s t o h2, off_snapBody w c s t o h2, off_apply_version w c s t o h2,
    Option.map_if]
  rfl
end

section
variable {α : Type} [Clem.T1.Num α] [Clem.T2.Num α] [Clem.T3.PyOrd α] [Clem.Py.Num α] [Clem.Py.NumGel α]
variable (w : World α) (c : Cfg α)

/-- **whole-history lift (partial: hybrid off).**  Along a coherent history the run with the turn-level cache ON and the
run with it OFF (same world, turns, oracles; the OFF run starts from the same state without the cache) stay in step:
after every prefix the states agree up to the cache (`unOrch`), and every turn shows the same `visible` part — only the
cache flags (`orchHit`, `orchSize`, `t2Calls`, `hinfo` of a served result, the apply record's invalidation count) differ. -/
theorem C01_compose_orch_cache_off_history_partial (hh : c.hyb.enabled = false) (ts : List (TurnIn α × Oracles α)) :
    ∀ s : State α, OrchGood w c s ts → Coherent w c s ts →
      (runTurns w (cacheOff c) (unOrch s) ts).state = unOrch (runTurns w c s ts).state ∧
      (runTurns w (cacheOff c) (unOrch s) ts).outs.map visible = (runTurns w c s ts).outs.map visible := by
  induction ts with
  | nil => intro s _ _; exact ⟨rfl, rfl⟩
  | cons p r ih =>
    intro s hg hc
    have h2 := t2Of_transparent w c hh s p r hg
    have hn := nextState_orchGood w c s p r hg hc
    rw [runTurns_cons, runTurns_cons]
    dsimp only
    rw [runTurn_state, runTurn_state, off_nextState w c s p.1 p.2 h2]
    obtain ⟨i1, i2⟩ := ih _ hn hc.2
    refine ⟨i1, ?_⟩
    rw [List.map_cons, List.map_cons, off_visible w c s p.1 p.2 h2, i2]

/-- from a fresh state (both caches empty) the two runs are literally the same history up to the cache -/
theorem C01_compose_orch_cache_on_eq_off_partial (hh : c.hyb.enabled = false) (s : State α) (hs : s.orch = [])
    (hs' : s.orchH = []) (ts : List (TurnIn α × Oracles α)) (hc : Coherent w c s ts) :
    (runTurns w (cacheOff c) s ts).state = unOrch (runTurns w c s ts).state ∧
    (runTurns w (cacheOff c) s ts).outs.map visible = (runTurns w c s ts).outs.map visible := by
  have hu : unOrch s = s := by
    cases s; simp only [unOrch] at *; simp_all
  have := C01_compose_orch_cache_off_history_partial w c hh ts s (orchGood_empty w c s hs ts) hc
  rwa [hu] at this
end

/-! ## the hypotheses are satisfiable (a real hit) and `Coherent` is necessary -/

namespace Example

/-- T4 off (the version never moves), reflection and GEL off, hybrid reranking OFF, the turn-level cache ON -/
def cfgT : Cfg Int := { cfgAB true with hyb := { cfg.hyb with enabled := false } }

/-- a turn saying "apple" whose oracle scores the two memories `cos` -/
def tA (i : Int) (cos : List Int) : TurnIn Int × Oracles Int :=
  (⟨apple, i, false, [], true, [], [hookDelta], 0, none⟩, ⟨[⟨apple ++ [32] ++ apple, cos, [], []⟩], 0, [], [], []⟩)

/-- same text, same oracle answers: the second turn is served by the cache -/
def histGood : List (TurnIn Int × Oracles Int) := [tA 1 [9, 7], tA 2 [9, 7]]
/-- same text, but the second turn's oracle ranks the memories the other way round -/
def histBad : List (TurnIn Int × Oracles Int) := [tA 1 [9, 7], tA 2 [7, 9]]

def freshIds (ts : List (TurnIn Int × Oracles Int)) (p : TurnIn Int × Oracles Int) : List Str :=
  let si := (runTurns world cfgT s0 ts).state
  (((t2Call world cfgT p.2 si.gel (qOf world cfgT si p.1) si.mem).getD (emptyT2 cfgT)).retrieved).map (·.id)

end Example

set_option maxRecDepth 100000 in
/-- non-vacuity: a coherent history with hybrid off whose second turn is a REAL cache hit; the served ranking is the
fresh one -/
example :
    Example.cfgT.hyb.enabled = false ∧ Example.s0.orch = [] ∧ Coherent Example.world Example.cfgT Example.s0 Example.histGood ∧
    (runTurns Example.world Example.cfgT Example.s0 Example.histGood).outs.map (·.orchHit) = [false, true] ∧
    (runTurns Example.world Example.cfgT Example.s0 Example.histGood).outs.map (fun o => o.t2.retrieved.map (·.id)) =
      [[[101, 49], [101, 50]], [[101, 49], [101, 50]]] ∧
    Example.freshIds [Example.tA 1 [9, 7]] (Example.tA 2 [9, 7]) = [[101, 49], [101, 50]] := by
  refine ⟨rfl, rfl, ⟨?_, ?_, trivial⟩, by decide, by decide, by decide⟩
  · intro p' hp' _
    have hp'' := List.mem_singleton.1 hp'
    subst hp''
    rfl
  · intro p' hp'
    cases hp'

set_option maxRecDepth 100000 in
/-- non-vacuity of the lift: on `histGood` (second turn served by the cache) the cache-OFF run shows the same rankings and
lines and makes two T2 calls where the cache-ON run makes one -/
example :
    (runTurns Example.world (cacheOff Example.cfgT) Example.s0 Example.histGood).outs.map (fun o => (o.t2.retrieved.map (·.id), o.line)) =
      (runTurns Example.world Example.cfgT Example.s0 Example.histGood).outs.map (fun o => (o.t2.retrieved.map (·.id), o.line)) ∧
    (runTurns Example.world (cacheOff Example.cfgT) Example.s0 Example.histGood).outs.map (·.t2Calls) = [1, 1] ∧
    (runTurns Example.world Example.cfgT Example.s0 Example.histGood).outs.map (·.t2Calls) = [1, 0] := by
  decide

set_option maxRecDepth 100000 in
/-- **`Coherent` is necessary**: drop it and the conclusion of `C01_compose_orch_cache_transparent_partial` fails.  All
its other hypotheses hold (hybrid off, empty cache at the start); the second turn of `histBad` has the same key as the
first (same version, text, agent, T1 deltas, index version) and is served the FIRST turn's ranking `[e1, e2]`, while
`t2_semantic` on the same state with the second turn's oracle returns `[e2, e1]`; with the cache off the turn sees
`[e2, e1]` -/
theorem C01_compose_orch_cache_needs_coherence :
    Example.cfgT.hyb.enabled = false ∧ Example.s0.orch = [] ∧
    ¬ Coherent Example.world Example.cfgT Example.s0 Example.histBad ∧
    (runTurns Example.world Example.cfgT Example.s0 Example.histBad).outs.map (·.orchHit) = [false, true] ∧
    (runTurns Example.world Example.cfgT Example.s0 Example.histBad).outs.map (fun o => o.t2.retrieved.map (·.id)) =
      [[[101, 49], [101, 50]], [[101, 49], [101, 50]]] ∧
    Example.freshIds [Example.tA 1 [9, 7]] (Example.tA 2 [7, 9]) = [[101, 50], [101, 49]] ∧
    (runTurns Example.world { Example.cfgT with orchCacheOn := false } Example.s0 Example.histBad).outs.map
      (fun o => o.t2.retrieved.map (·.id)) = [[[101, 49], [101, 50]], [[101, 50], [101, 49]]] := by
  refine ⟨rfl, rfl, ?_, by decide, by decide, by decide, by decide⟩
  intro h
  have h1 := h.1 (Example.tA 2 [7, 9]) (List.mem_singleton.2 rfl) rfl
  have h2 := congrArg (fun v => v.1.map (·.cos)) h1
  revert h2
  decide

end Clem.Compose
